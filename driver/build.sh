#!/bin/sh
# builds _build/ocaml/driver from the extracted model.ml and driver.ml
set -e
cd "$(dirname "$0")/.."
mkdir -p _build/ocaml
cp coq/model.ml coq/model.mli driver/driver.ml _build/ocaml/
cd _build/ocaml
ocamlfind ocamlopt -w -a -o driver model.mli model.ml driver.ml
