(* driver.ml -- runs the extracted model / reference parsers / oracles on the same case
   stream as the Rust harness and prints the same canonical lines.

     driver model  <backend> <W> <cases>          model observations
     driver ref    <cases>                        reference-parser observations
     driver oracle <cases> <impl-observations>    per-case oracle verdicts on the
                                                  implementation's observations
   backend: swar | sse42 | avx2 | neon | rt<id> *)

open Model

(* ---- conversions ---- *)
let rec nat_of_int (i : int) : nat = if i <= 0 then O else S (nat_of_int (i - 1))
let nat_of_int i =
  let rec go acc i = if i <= 0 then acc else go (S acc) (i - 1) in go O i
let int_of_nat (n : nat) : int =
  let rec go acc = function O -> acc | S m -> go (acc + 1) m in go 0 n
let rec pos_of_int (i : int) : positive =
  if i = 1 then XH else if i land 1 = 0 then XO (pos_of_int (i lsr 1)) else XI (pos_of_int (i lsr 1))
let n_of_int (i : int) : n = if i = 0 then N0 else Npos (pos_of_int i)
let byte_tab : n array = Array.init 256 n_of_int
let rec int_of_pos = function XH -> 1 | XO p -> 2 * int_of_pos p | XI p -> 2 * int_of_pos p + 1
let int_of_n = function N0 -> 0 | Npos p -> int_of_pos p
(* decimal string of an N that may exceed 63 bits (chunk sizes up to 2^64-1) *)
let string_of_n (x : n) : string =
  match x with
  | N0 -> "0"
  | Npos p ->
      (* bits, most significant first *)
      let rec bits acc = function XH -> 1 :: acc | XO q -> bits (0 :: acc) q | XI q -> bits (1 :: acc) q in
      let bs = bits [] p in
      (* decimal digits little-endian in an int array *)
      let d = Array.make 24 0 in
      List.iter (fun b ->
        let carry = ref b in
        for i = 0 to 23 do
          let v = d.(i) * 2 + !carry in
          d.(i) <- v mod 10; carry := v / 10
        done) bs;
      let s = Buffer.create 24 in
      let started = ref false in
      for i = 23 downto 0 do
        if d.(i) <> 0 then started := true;
        if !started then Buffer.add_char s (Char.chr (48 + d.(i)))
      done;
      Buffer.contents s

let unhex (s : string) : n list =
  if s = "-" then [] else begin
    let h c = match c with
      | '0'..'9' -> Char.code c - 48 | 'a'..'f' -> Char.code c - 87 | 'A'..'F' -> Char.code c - 55
      | _ -> failwith "bad hex" in
    let r = ref [] in
    let len = String.length s / 2 in
    for i = len - 1 downto 0 do
      r := byte_tab.(h s.[2*i] * 16 + h s.[2*i+1]) :: !r
    done;
    !r
  end

let hex_of (l : n list) : string =
  let b = Buffer.create 16 in
  List.iter (fun x -> Buffer.add_string b (Printf.sprintf "%02x" (int_of_n x))) l;
  Buffer.contents b

let config_of_bits (b : int) : config =
  { allow_spaces_after_header_name_in_responses = b land 1 <> 0;
    allow_obsolete_multiline_headers_in_responses = b land 2 <> 0;
    allow_multiple_spaces_in_request_line_delimiters = b land 4 <> 0;
    allow_multiple_spaces_in_response_status_delimiters = b land 8 <> 0;
    allow_space_before_first_header_name_cfg = b land 16 <> 0;
    ignore_invalid_headers_in_responses = b land 32 <> 0;
    ignore_invalid_headers_in_requests = b land 64 <> 0 }

let entry_of_int = function 0 -> EParse | 1 -> EConfig | 2 -> EUninit | _ -> EConfigUninit

let initial_array (cap : int) : slot list = List.init cap (fun i -> SOld (n_of_int i))

(* ---- printing ---- *)
let err_name = function
  | HeaderName -> "HeaderName" | HeaderValue -> "HeaderValue" | NewLine -> "NewLine"
  | Status -> "Status" | Token -> "Token" | TooManyHeaders -> "TooManyHeaders"
  | Version -> "Version" | InvalidChunkSize -> "InvalidChunkSize"
let fault_name = function
  | AdvanceOOB -> "AdvanceOOB" | SkipUnderflow -> "SkipUnderflow" | PeekAheadOOB -> "PeekAheadOOB"
  | LoadOOB -> "LoadOOB" | WriteOOB -> "WriteOOB" | ArithOverflow -> "ArithOverflow"
  | Unreachable -> "Unreachable" | OutOfFuel -> "OutOfFuel"
let status_str = function
  | Complete n -> "C" ^ string_of_int (int_of_nat n)
  | Partial -> "P"
  | Error e -> "E" ^ err_name e
  | Faulted f -> "F" ^ fault_name f
let sl_str = function
  | Sub (off, bs) -> Printf.sprintf "%d+%d" (int_of_nat off) (List.length bs)
  | Ext bs -> "x" ^ hex_of bs
let osl_str = function None -> "-" | Some s -> sl_str s
let on_str = function None -> "-" | Some x -> string_of_int (int_of_n x)
let slot_str (uninit : bool) = function
  | SOld i -> if uninit then "U" else "O" ^ string_of_int (int_of_n i)
  | SWritten (n, v) -> "W" ^ sl_str n ^ "," ^ sl_str v
let slots_str uninit l = String.concat "" (List.map (fun s -> " " ^ slot_str uninit s) l)

let obs_line kind uninit (o : aobs) : string =
  let f = match kind with
    | "q" -> Printf.sprintf "%s %s %s" (osl_str o.a_s1) (osl_str o.a_s2) (on_str o.a_n1)
    | "p" -> Printf.sprintf "%s %s %s" (on_str o.a_n1) (on_str o.a_n2) (osl_str o.a_s1)
    | _ -> "- - -" in
  Printf.sprintf "%s %s |%s |%s" (status_str o.a_status) f
    (slots_str uninit o.a_exposed) (slots_str uninit o.a_array)

(* ---- the model on one case line ---- *)
let split_tab s = String.split_on_char '\t' s

let env_name_to_backend (s : string) : backend =
  match s with
  | "swar" -> BSwar | "sse42" -> BSse42 | "avx2" -> BAvx2 | "neon" -> BNeon
  | _ when String.length s > 2 && String.sub s 0 2 = "rt" ->
      BRuntime (n_of_int (int_of_string (String.sub s 2 (String.length s - 2))))
  | _ -> failwith "backend"

let api_model (e : env) kind entry cfg cap (buf : n list) : string =
  match kind with
  | "c" ->
      let (st, size) = parse_chunk_size false buf in
      Printf.sprintf "%s size=%s" (status_str st) (string_of_n size)
  | "h" ->
      obs_line kind false (obs_of_headers (parse_headers e buf (initial_array cap)))
  | "q" ->
      let uninit = entry >= 2 in
      let rq = request_new (if uninit then [] else initial_array cap) in
      obs_line kind uninit
        (obs_of_request (request_call e (entry_of_int entry) (config_of_bits cfg) buf (initial_array cap) rq))
  | _ ->
      let uninit = entry >= 2 in
      let rp = response_new (if uninit then [] else initial_array cap) in
      obs_line kind uninit
        (obs_of_response (response_call e (entry_of_int entry) (config_of_bits cfg) buf (initial_array cap) rp))

(* history: fields of the final value are reported relative to the last buffer; a field
   that still refers to an earlier buffer is reported by contents, like the harness does.
   The model never looks at field contents, so before the last call every slice held by
   the value is turned into "located elsewhere, with these bytes". *)
let stale_sl = function Sub (_, bs) -> Ext bs | x -> x
let stale_osl = function Some s -> Some (stale_sl s) | None -> None
let stale_slot = function SWritten (n, v) -> SWritten (stale_sl n, stale_sl v) | x -> x

let hist_model (e : env) kind cap (calls : (int * int * int * n list) list) : string =
  let rec split_last = function
    | [] -> ([], None) | [x] -> ([], Some x)
    | x :: r -> let (a, l) = split_last r in (x :: a, l) in
  let (earlier, last) = split_last calls in
  match kind with
  | "q" ->
      let call rq (entry, cfg, ucap, buf) =
        request_call e (entry_of_int entry) (config_of_bits cfg) buf (initial_array ucap) rq in
      let rq = List.fold_left (fun rq c -> let ((_, rq'), _) = call rq c in rq')
                 (request_new (initial_array cap)) earlier in
      let rq = { q_method = stale_osl rq.q_method; q_path = stale_osl rq.q_path;
                 q_version = rq.q_version; q_hdrs = List.map stale_slot rq.q_hdrs } in
      (match last with
       | None -> "NA"
       | Some c -> let ((st, rq'), _) = call rq c in
           obs_line kind false (obs_of_request ((st, rq'), [])) ^ Printf.sprintf " ;start=%d" (List.length rq.q_hdrs))
  | _ ->
      let call rp (entry, cfg, ucap, buf) =
        response_call e (entry_of_int entry) (config_of_bits cfg) buf (initial_array ucap) rp in
      let rp = List.fold_left (fun rp c -> let ((_, rp'), _) = call rp c in rp')
                 (response_new (initial_array cap)) earlier in
      let rp = { p_version = rp.p_version; p_code = rp.p_code; p_reason = stale_osl rp.p_reason;
                 p_hdrs = List.map stale_slot rp.p_hdrs } in
      (match last with
       | None -> "NA"
       | Some c -> let ((st, rp'), _) = call rp c in
           obs_line kind false (obs_of_response ((st, rp'), [])) ^ Printf.sprintf " ;start=%d" (List.length rp.p_hdrs))

let scan_model (w : int) backend cls (buf : n list) : string =
  let be = match backend with 0 -> None | 1 -> Some BAvx2 | 2 -> Some BSse42 | _ -> Some BSwar in
  match be with
  | None -> "NA"
  | Some b ->
      if (backend = 1 || backend = 2) && cls = 2 then "NA" else
      let e = env_of (nat_of_int w) b in
      let f = nat_of_int (List.length buf + 1) in
      let m = match cls with 0 -> s_uri e f | 1 -> s_value e f | _ -> s_name e f in
      match m (cur_new buf) with
      | Done (_, c) -> string_of_int (List.length c.tokrev)
      | Part -> "P" | Fail _ -> "E" | Fault f -> "F" ^ fault_name f

let kernel_model (w : int) which (buf : n list) : string =
  if List.length buf <> w then "NA" else
  let n = match which with
    | "u" -> match_uri_char_8_swar (nat_of_int w) buf
    | _ -> match_header_value_char_8_swar (nat_of_int w) buf in
  string_of_int (int_of_nat n)

let model_line (e : env) (w : int) (line : string) : string =
  match split_tab line with
  | "A" :: id :: kind :: entry :: cfg :: cap :: hx :: _ ->
      id ^ " " ^ api_model e kind (int_of_string entry) (int_of_string cfg) (int_of_string cap) (unhex hx)
  | "H" :: id :: kind :: cap :: n :: rest ->
      let rec calls k r = if k = 0 then [] else match r with
        | en :: cf :: uc :: hx :: r' -> (int_of_string en, int_of_string cf, int_of_string uc, unhex hx) :: calls (k - 1) r'
        | _ -> failwith "hist" in
      id ^ " " ^ hist_model e kind (int_of_string cap) (calls (int_of_string n) rest)
  | "L" :: id :: kind :: entry :: cfg :: cap :: _off :: _fill :: hx :: _ ->
      (* alignment case: the model does not see addresses *)
      id ^ " " ^ api_model e kind (int_of_string entry) (int_of_string cfg) (int_of_string cap) (unhex hx)
  | "R" :: id :: kind :: _cap :: n :: rest ->
      (* a recycled buffer: the model is a function of the arguments of the last call alone *)
      let rec last k r = match r with
        | en :: cf :: uc :: hx :: r' -> if k <= 1 then (en, cf, uc, hx) else last (k - 1) r'
        | _ -> failwith "recycle" in
      let (en, cf, uc, hx) = last (int_of_string n) rest in
      id ^ " " ^ api_model e kind (int_of_string en) (int_of_string cf) (int_of_string uc) (unhex hx)
  | "S" :: id :: be :: cls :: _align :: hx :: _ ->
      id ^ " " ^ scan_model w (int_of_string be) (int_of_string cls) (unhex hx)
  | "K" :: id :: which :: hx :: _ -> id ^ " " ^ kernel_model w which (unhex hx)
  | "B" :: id :: _ -> id ^ " ok"
  | "U" :: id :: hx :: _ -> id ^ " " ^ (if utf8_valid (unhex hx) then "1" else "0")
  | _ -> failwith ("bad case line: " ^ line)

(* ---- the reference parsers on one case line ---- *)
let ref_slots cap (hs : (sl * sl) list) : slot list =
  let w = List.map (fun (n, v) -> SWritten (n, v)) hs in
  let k = List.length w in
  w @ List.init (max 0 (cap - k)) (fun i -> SOld (n_of_int (k + i)))

let ref_line (line : string) : string =
  match split_tab line with
  | "A" :: id :: kind :: entry :: cfg :: cap :: hx :: _ ->
      let buf = unhex hx in
      let cap = int_of_string cap and entry = int_of_string entry in
      let cf = if entry = 0 || entry = 2 then config_default else config_of_bits (int_of_string cfg) in
      let uninit = entry >= 2 in
      let finish st hs =
        let arr = ref_slots cap hs in
        let exposed = match st with
          | Complete _ -> List.map (fun (n, v) -> SWritten (n, v)) hs
          | _ -> if uninit || kind = "h" then [] else arr in
        Printf.sprintf "|%s |%s" (slots_str uninit exposed) (slots_str uninit arr) in
      (match kind with
       | "c" ->
           let (st, size) = ref_chunk buf in
           Printf.sprintf "%s %s size=%s" id (status_str st) (string_of_n size)
       | "h" ->
           let (st, hs) = ref_headers hcfg_default (nat_of_int cap) O buf in
           Printf.sprintf "%s %s - - - %s" id (status_str st) (finish st hs)
       | "q" ->
           let r = ref_request cf (nat_of_int cap) buf in
           let start = match snd (ref_request_line cf.allow_multiple_spaces_in_request_line_delimiters buf) with
             | ROk (_, _, _) -> "ok" | RPart -> "P" | RErr e -> "E" ^ err_name e in
           Printf.sprintf "%s %s %s %s %s %s ;start=%s" id (status_str r.rq_status)
             (osl_str r.rq_start.rs_method) (osl_str r.rq_start.rs_path) (on_str r.rq_start.rs_version)
             (finish r.rq_status r.rq_headers) start
       | _ ->
           let r = ref_response cf (nat_of_int cap) buf in
           let start = match snd (ref_status_line cf.allow_multiple_spaces_in_response_status_delimiters buf) with
             | ROk (_, _, _) -> "ok" | RPart -> "P" | RErr e -> "E" ^ err_name e in
           Printf.sprintf "%s %s %s %s %s %s ;start=%s" id (status_str r.rp_status)
             (on_str r.rp_start.rs_pversion) (on_str r.rp_start.rs_code) (osl_str r.rp_start.rs_reason)
             (finish r.rp_status r.rp_headers) start)
  | _ :: id :: _ -> id ^ " NA"
  | _ -> failwith "bad case line"

(* ---- parsing the implementation's observation lines ---- *)
let parse_status (s : string) : status option =
  if s = "P" then Some Partial
  else if String.length s > 1 && s.[0] = 'C' then
    Some (Complete (nat_of_int (int_of_string (String.sub s 1 (String.length s - 1)))))
  else if String.length s > 1 && s.[0] = 'E' then
    Some (Error (match String.sub s 1 (String.length s - 1) with
      | "HeaderName" -> HeaderName | "HeaderValue" -> HeaderValue | "NewLine" -> NewLine
      | "Status" -> Status | "Token" -> Token | "TooManyHeaders" -> TooManyHeaders
      | "Version" -> Version | "InvalidChunkSize" -> InvalidChunkSize | _ -> failwith "err"))
  else None

let sub_list (buf : n array) off len : n list =
  List.init len (fun i -> if off + i < Array.length buf then buf.(off + i) else n_of_int 0)

let parse_sl (buf : n array) (s : string) : sl option =
  if s = "-" then None
  else if s.[0] = 'x' then Some (Ext (unhex (let t = String.sub s 1 (String.length s - 1) in if t = "" then "-" else t)))
  else if s.[0] = 'y' then
    (* a slice that starts in the buffer and runs past its end: a NON-EMPTY slice that is not a sub-slice *)
    Some (Ext [n_of_int 0])
  else match String.split_on_char '+' s with
    | [a; b] -> let off = int_of_string a and len = int_of_string b in
        Some (Sub (nat_of_int off, sub_list buf off len))
    | _ -> failwith ("sl " ^ s)
let parse_on (s : string) : n option = if s = "-" then None else Some (n_of_int (int_of_string s))
let parse_slot (buf : n array) (idx : int) (s : string) : slot =
  if s = "U" then SOld (n_of_int idx)
  else if s.[0] = 'O' then SOld (n_of_int (int_of_string (String.sub s 1 (String.length s - 1))))
  else match String.split_on_char ',' (String.sub s 1 (String.length s - 1)) with
    | [a; b] ->
        (match parse_sl buf a, parse_sl buf b with
         | Some x, Some y -> SWritten (x, y) | _ -> failwith "slot")
    | _ -> failwith ("slot " ^ s)

(* "<id> <status> f1 f2 f3 | slots | slots" *)
let parse_obs kind (buf : n array) (line : string) : aobs option =
  match String.split_on_char '|' line with
  | [head; ex; arr] ->
      let toks s = List.filter (fun x -> x <> "") (String.split_on_char ' ' s) in
      (match toks head with
       | [_id; st; f1; f2; f3] ->
           (match parse_status st with
            | None -> None
            | Some status ->
                let exl = List.mapi (parse_slot buf) (toks ex) and arl = List.mapi (parse_slot buf) (toks arr) in
                let (s1, s2, n1, n2) = match kind with
                  | "q" -> (parse_sl buf f1, parse_sl buf f2, parse_on f3, None)
                  | "p" -> (parse_sl buf f3, None, parse_on f1, parse_on f2)
                  | _ -> (None, None, None, None) in
                Some { a_status = status; a_s1 = s1; a_s2 = s2; a_n1 = n1; a_n2 = n2;
                       a_exposed = exl; a_array = arl })
       | _ -> None)
  | _ -> None

(* oracle verdicts for one case: "<id> ok" or "<id> FAIL:<Cxx>,<Cyy>" *)
let oracle_line (case : string) (obs : string) : string =
  match split_tab case with
  | "A" :: id :: kind :: entry :: cfg :: cap :: hx :: _ ->
      let bufl = unhex hx in
      let buf = Array.of_list bufl in
      let entry = int_of_string entry and cap = int_of_string cap in
      let cfgbits = if entry = 0 || entry = 2 then 0 else int_of_string cfg in
      let fails = ref [] in
      let fail p = fails := p :: !fails in
      if kind = "c" then begin
        (match String.split_on_char ' ' obs with
         | _ :: st :: _ ->
             (match parse_status st with
              | Some s ->
                  if not (check_C03_chunk bufl s) then fail "C03";
                  (match s with Complete n -> if int_of_nat n > Array.length buf then fail "C01" | _ -> ())
              | None -> fail "C01")
         | _ -> fail "C01")
      end else begin
        match parse_obs kind buf obs with
        | None -> fail "C01"
        | Some o ->
            let k = match kind with "q" -> KRequest | "p" -> KResponse | _ -> KHeaders in
            let spb = kind <> "h" && cfgbits land 16 <> 0 in
            let fold = kind = "p" && cfgbits land 2 <> 0 in
            if not (check_C01 bufl o) then fail "C01";
            if not (check_C03 k spb fold bufl o) then fail "C03";
            if not (check_C04 k bufl o) then fail "C04";
            if not (check_C05 k fold bufl o) then fail "C05";
            if not (check_C17 (entry >= 2 || kind = "h") (nat_of_int cap) o) then fail "C17"
      end;
      if !fails = [] then id ^ " ok" else id ^ " FAIL:" ^ String.concat "," (List.rev !fails)
  | _ :: id :: _ -> id ^ " ok"
  | _ -> failwith "bad case"

let iter_lines path f =
  let ic = open_in path in
  (try while true do let l = input_line ic in if l <> "" then f l done with End_of_file -> ());
  close_in ic

let () =
  match Array.to_list Sys.argv with
  | [_; "model"; be; w; cases] ->
      let w = int_of_string w in
      let e = env_of (nat_of_int w) (env_name_to_backend be) in
      iter_lines cases (fun l -> print_endline (model_line e w l))
  | [_; "ref"; cases] -> iter_lines cases (fun l -> print_endline (ref_line l))
  | [_; "oracle"; cases; obs] ->
      let ic = open_in obs in
      iter_lines cases (fun l ->
        let o = try input_line ic with End_of_file -> "" in
        let id = match split_tab l with _ :: id :: _ -> id | _ -> "?" in
        let oid = match String.index_opt o ' ' with Some i -> String.sub o 0 i | None -> o in
        if oid <> id then print_endline (id ^ " FAIL:C01 (no observation: " ^ o ^ ")")
        else if String.length o > String.length id + 1 && o.[String.length id + 1] = 'X' then
          print_endline (id ^ " FAIL:C01 (" ^ o ^ ")")
        else print_endline (oracle_line l o));
      close_in ic
  | _ -> prerr_endline "usage: driver model <backend> <W> <cases> | ref <cases> | oracle <cases> <obs>"; exit 2
