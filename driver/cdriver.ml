(* cdriver.ml -- runs the extracted cost model (CostTop.v over the cost copies) on the case
   stream of the Rust harness:   cdriver <backend> <W> <cases>
   prints per case:   <id> <class> ticks=<n> travel=<n>     class: C | P | E | F *)
open Cmodel

let nat_of_int i =
  let rec go acc i = if i <= 0 then acc else go (S acc) (i - 1) in go O i
let int_of_nat (n : nat) : int =
  let rec go acc = function O -> acc | S m -> go (acc + 1) m in go 0 n
let rec pos_of_int (i : int) : positive =
  if i = 1 then XH else if i land 1 = 0 then XO (pos_of_int (i lsr 1)) else XI (pos_of_int (i lsr 1))
let n_of_int (i : int) : n = if i = 0 then N0 else Npos (pos_of_int i)
let byte_tab : n array = Array.init 256 n_of_int
let unhex (s : string) : n list =
  if s = "-" then [] else begin
    let h c = match c with
      | '0'..'9' -> Char.code c - 48 | 'a'..'f' -> Char.code c - 87 | 'A'..'F' -> Char.code c - 55
      | _ -> failwith "bad hex" in
    let r = ref [] in
    let len = String.length s / 2 in
    for i = len - 1 downto 0 do
      r := byte_tab.(h s.[2*i] * 16 + h s.[2*i+1]) :: !r
    done;
    !r
  end
let backend_of (s : string) : backend =
  match s with
  | "swar" -> BSwar | "sse42" -> BSse42 | "avx2" -> BAvx2 | "neon" -> BNeon
  | _ when String.length s > 2 && String.sub s 0 2 = "rt" ->
      BRuntime (n_of_int (int_of_string (String.sub s 2 (String.length s - 2))))
  | _ -> failwith "backend"

let show id (r : (n * nat) * nat) =
  let ((cls, tk), tr) = r in
  let c = match cls with N0 -> "C" | Npos XH -> "P" | Npos (XO XH) -> "E" | _ -> "F" in
  Printf.printf "%s %s ticks=%d travel=%d\n" id c (int_of_nat tk) (int_of_nat tr)

let () =
  match Array.to_list Sys.argv with
  | [_; be; w; cases] ->
      let e = env_of (nat_of_int (int_of_string w)) (backend_of be) in
      let ic = open_in cases in
      (try while true do
         let l = input_line ic in
         (match String.split_on_char '\t' l with
          | "A" :: id :: kind :: entry :: cfg :: cap :: hx :: _ ->
              let buf = unhex hx in
              let entry = int_of_string entry in
              let b = if entry = 0 || entry = 2 then 0 else int_of_string cfg in
              let cap = nat_of_int (int_of_string cap) in
              let fuel = S (nat_of_int (List.length buf)) in
              (match kind with
               | "q" ->
                   let hc = { allow_spaces_after_header_name = false; allow_obsolete_multiline_headers = false;
                              allow_space_before_first_header_name = b land 16 <> 0;
                              ignore_invalid_headers = b land 64 <> 0 } in
                   show id (run_work (request_prog e fuel (b land 4 <> 0) hc cap) buf)
               | "p" ->
                   let hc = { allow_spaces_after_header_name = b land 1 <> 0;
                              allow_obsolete_multiline_headers = b land 2 <> 0;
                              allow_space_before_first_header_name = b land 16 <> 0;
                              ignore_invalid_headers = b land 32 <> 0 } in
                   show id (run_work (response_prog e fuel (b land 8 <> 0) hc cap) buf)
               | "h" -> show id (run_work (headers_only_prog e fuel cap) buf)
               | _ -> show id (run_work (chunk_loop false fuel N0 true false O) buf))
          | _ :: id :: _ -> Printf.printf "%s skip\n" id
          | _ -> ())
       done with End_of_file -> ());
      close_in ic
  | _ -> prerr_endline "usage: cdriver <backend> <W> <cases>"; exit 2
