"""props.py -- one routine per property: which corpora run, what is compared, what counts
as a violation (oracle / reference / metamorphic failure on the IMPLEMENTATION) and what
is only a correspondence mismatch (model vs implementation)."""
import os
import itertools
import re
import shutil
import subprocess

import gen
import corpora
from common import BUILD, REPO, VERIF, build_harnesses, harness_path, log, sh
from engine import Obs, execute
from gen import Rng


class Ctx:
    def __init__(self, prop, tier, seed):
        self.prop, self.tier, self.seed = prop, tier, seed
        self.quick = tier == "quick"
        self.evaluations = 0
        self.nontrivial = set()
        self.samples = []
        self.failures = []      # the implementation breaks the property on this input
        self.corr = []          # model and implementation differ on the property's projection
        self.broken = []        # harness / build level problems (strings)
        self.dist = {}
        self.validated = 0      # cases on which model and implementation were compared
        self.notes = []

    def fail(self, case, why, **kw):
        d = {"case": gen.line(case) if isinstance(case, tuple) else case, "why": why}
        d.update(kw)
        self.failures.append(d)

    def mismatch(self, case, impl, model):
        self.corr.append({"case": gen.line(case), "impl": impl, "model": model})

    def count(self, key):
        self.dist[key] = self.dist.get(key, 0) + 1

    def sample(self, case, impl):
        if len(self.samples) < 6:
            self.samples.append({"case": gen.line(case)[:300], "impl": impl[:200]})


def need(ctx, variants):
    res = build_harnesses(variants)
    for v, (ok, out) in res.items():
        if not ok:
            ctx.broken.append("harness variant %s does not build: %s" % (v, out[-300:]))
    return all(ok for ok, _ in res.values())


# ---------------------------------------------------------------- projections
HDR_ERR = ("EHeaderName", "EHeaderValue", "ETooManyHeaders")


def proj(prop, kind, o, start=None):
    """what property `prop` speaks about in one observation"""
    if kind == "c":
        return (o.status, o.size)
    if prop in ("C01",):
        return (o.kindclass,)
    if prop == "C03":
        return (o.status if o.kindclass in "CP" else "E",)
    if prop in ("C04", "C05"):
        return (o.status if o.kindclass == "C" else o.kindclass, tuple(o.f), tuple(o.exposed), tuple(o.array))
    if prop in ("C06", "C07"):
        st = o.status if start != "ok" else "hdr"
        return (st, tuple(o.f))
    if prop in ("C08", "C14"):
        if start not in (None, "ok"):
            return ("start",)
        return (o.status, tuple(o.exposed), tuple(x for x in o.array if x[0] == "W"))
    if prop == "C10":
        return (o.status if o.kindclass == "E" else "ok",)
    if prop == "C17":
        return (o.kindclass, len(o.exposed), tuple(o.array), tuple(o.exposed))
    return (o.raw,)


def nontrivial_key(c):
    return (c[2], c[3], c[4], c[5], c[6]) if c[0] == "A" else c[1:]


# ---------------------------------------------------------------- the shared single-call corpus
def api_main(ctx, kinds=("q", "p", "h")):
    s, q = ctx.seed, ctx.quick
    kinds = list(kinds)
    cs = []
    cs += corpora.fam_seed(s, kinds, per=4 if q else 16)
    cs += corpora.fam_gram(s, kinds, 6000 if q else 120000)
    cs += corpora.fam_mut(s, kinds, 6000 if q else 120000)
    cs += corpora.fam_pos256(s, kinds, range(0, 71, 5 if q else 1), stride=1)
    cs += [c for c in corpora.fam_lengths(s, 100) if c[2] in kinds]
    cs += corpora.fam_long(s, kinds)
    cs += corpora.fam_pairs(s, kinds, quick=q)
    cs += corpora.fam_name_pairs(s, kinds)
    cs += [c for c in start_tails(2 if q else 3) if c[2] in kinds]
    return cs


HDR_ALPHA = bytes([0, 1, 9, 10, 13, 32, 33, 34, 58, 97, 126, 127, 128, 255])
FRAME_ALPHA = bytes([13, 10, 32, 9, 97, 58, 0, 1])
START_ALPHA = bytes([32, 9, 11, 13, 10, 127, 71, 47, 72, 49, 46, 50, 128, 0])


def extras(ctx, prop):
    q = ctx.quick
    cs = []
    if prop == "C03":
        n = 3 if q else 5
        for kind, cfgs in (("h", [0]), ("q", [0, 16, 64, 80]), ("p", [0, 2, 16, 32, 18, 48, 50, 51])):
            cs += corpora.fam_exh(ctx.seed, kind, FRAME_ALPHA, n, cfgs, tag="fexh")
    if prop in ("C08", "C10", "C05", "C04"):
        n = 2 if q else 4
        for kind in ("h", "q", "p"):
            cs += corpora.fam_exh(ctx.seed, kind, HDR_ALPHA, n if kind == "h" else max(1, n - 1), [0], tag="hexh")
    if prop in ("C14", "C10", "C05", "C17"):
        n = 2 if q else 3
        alpha = bytes([0, 1, 9, 10, 13, 32, 97, 58, 34, 127, 128])
        cs += corpora.fam_exh(ctx.seed, "p", alpha, n, gen.relevant_cfgs("p")[::(3 if q else 1)], tag="lexh")
        cs += corpora.fam_exh(ctx.seed, "q", alpha, n, gen.relevant_cfgs("q"), tag="lexh")
    if prop in ("C06", "C10"):
        n = 3 if q else 5
        cs += corpora.fam_exh(ctx.seed, "q", START_ALPHA, n, [0, 4], contexts=[("s", b"")], tag="sexh") \
            if False else []
        for ctxname, pre in (("e", b""), ("m", b"GET"), ("sp", b"GET "), ("t", b"GET /a"), ("v", b"GET /a "),
                             ("v5", b"GET /a HTTP/"), ("eol", b"GET /a HTTP/1.1")):
            for s_ in gen.exhaustive(START_ALPHA, n if ctxname in ("e", "sp", "v", "eol") else n - 1):
                for cfg in (0, 4):
                    cs.append(("A", "sexh.q.%s.%s.%d" % (ctxname, s_.hex() or "e", cfg), "q", 1, cfg, 2, pre + s_))
    if prop in ("C07", "C10"):
        n = 3 if q else 4
        alpha = bytes([32, 9, 13, 10, 127, 72, 49, 46, 50, 48, 57, 58, 128, 0, 65])
        for ctxname, pre in (("e", b""), ("v", b"HTTP/1.1"), ("sp", b"HTTP/1.1 "), ("c", b"HTTP/1.1 20"),
                             ("ac", b"HTTP/1.1 200"), ("r", b"HTTP/1.1 200 "), ("r2", b"HTTP/1.1 200 O")):
            for s_ in gen.exhaustive(alpha, n if ctxname in ("ac", "r", "sp") else n - 1):
                for cfg in (0, 8):
                    cs.append(("A", "sexh.p.%s.%s.%d" % (ctxname, s_.hex() or "e", cfg), "p", 1, cfg, 2, pre + s_))
        cs += corpora.fam_codes()
    if prop in ("C14", "C08", "C10", "C03", "C05", "C17", "C04"):
        kinds = ("q", "p", "h") if prop != "C14" else ("q", "p")
        ls = corpora.fam_lines(ctx.seed, kinds, depth=2 if q else 3, cfg_stride=1)
        cs += ls
        cs += corpora.padded(ls, stride=4 if q else 1)
    if prop == "C17":
        r = Rng(ctx.seed).fork("cap")
        for i in range(300 if q else 5000):
            kind = "qph"[i % 3]
            b = gen.GRAM[kind](r, lenient=i % 2)
            k = max(0, corpora.nlines(b) - 2)
            cfg = corpora.pick_cfg(r, kind, i)
            for cap in list(range(0, min(k, 8) + 3)):
                for e in ((0,) if kind == "h" else (0, 1, 2, 3)):
                    cs.append(("A", "cap.%d.%d.%d" % (i, cap, e), kind, e, cfg, cap, b))
        # lines that are dropped (ignore_invalid_headers_*) do not count against the capacity: every sequence of up
        # to three lines out of one good and three droppable ones, at every capacity 0..3
        lines = (b"A: 1", b"not a header", b": nameless", b"bad name: x")
        seqs = [()]
        for _ in range(3):
            seqs = seqs + [t + (l,) for t in seqs if len(t) == max(len(u) for u in seqs) for l in lines]
        j = 0
        for t in sorted(set(seqs)):
            if not t:
                continue
            for kind, start, ign in (("q", b"GET / HTTP/1.1\r\n", gen.CFG_IGN_REQ), ("p", b"HTTP/1.1 200 OK\r\n", gen.CFG_IGN_RESP)):
                b = start + b"".join(l + b"\r\n" for l in t) + b"\r\n"
                for cap in range(0, 4):
                    for e in (1, 3):
                        cs.append(("A", "cap.j%d.%d.%d" % (j, cap, e), kind, e, ign, cap, b))
                j += 1
    if prop in ("C04", "C03"):
        # an indented first header line (allow_space_before_first_header_name): 1..8 blanks / tabs, CRLF and LF line
        # ends, a body behind the head -- `Complete(n)` must cover every slice handed out
        j = 0
        for kind, start in (("q", b"GET /index.html HTTP/1.1"), ("p", b"HTTP/1.1 200 OK")):
            for eol in (b"\r\n", b"\n"):
                for k in range(1, 9):
                    for ws in (b" " * k, b"\t" * k, (b" \t" * k)[:k]):
                        for hdrs in ((b"Host: example.org",), (b"A: b", b"Accept: */*"), (b"X:",)):
                            b = start + eol + ws + eol.join(hdrs) + eol + eol + b"BODYBODY"
                            for cfg in (gen.CFG_SP_BEFORE, 0x7f):
                                for e in (1, 3):
                                    cs.append(("A", "ind.%d.%d.%d" % (j, cfg, e), kind, e, cfg, 4, b))
                            j += 1
    return cs


ORACLE_PROPS = {"C01", "C03", "C04", "C05", "C17"}
REF_PROPS = {"C06", "C07", "C08", "C10", "C14", "C17"}


def applies(prop, c):
    kind, entry, cfg = c[2], c[3], c[4]
    if kind == "c":
        return prop in ("C01", "C03")
    eff = 0 if entry in (0, 2) else cfg
    if prop == "C06":
        return kind == "q"
    if prop == "C07":
        return kind == "p"
    if prop == "C08":       # default header grammar only
        if kind == "h":
            return True
        hb = (gen.CFG_SP_BEFORE | gen.CFG_IGN_REQ) if kind == "q" else \
            (gen.CFG_SP_AFTER_NAME | gen.CFG_MULTILINE | gen.CFG_SP_BEFORE | gen.CFG_IGN_RESP)
        return eff & hb == 0
    if prop == "C14":
        return kind in ("q", "p")
    return True


def single_call(ctx, prop, cases, variant="default", force=None, mode="run", model_be="rt1"):
    """correspondence + reference equality + oracle for one single-call property"""
    big = [c for c in cases if len(c[6]) > 4096]
    cases = [c for c in cases if len(c[6]) <= 4096]
    res = execute(prop + "-api", cases, variant=variant, force=force, mode=mode, model_be=model_be,
                  want_model=True, want_ref=prop in REF_PROPS, want_oracle=prop in ORACLE_PROPS)
    for e in res.errors:
        ctx.broken.append(e)
    if big:
        # long inputs: model correspondence and the status-level C01 check only (the extracted
        # oracles work on unary offsets and are quadratic there)
        rb = execute(prop + "-big", big, variant=variant, force=force, mode=mode, model_be=model_be, want_model=True)
        ctx.broken += rb.errors
        for c in big:
            iraw = rb.impl.get(c[1])
            if iraw is None:
                ctx.fail(c, "the harness process died on (or before) this large case")
                break
            ctx.evaluations += 1
            I = Obs(iraw)
            if I.kindclass not in "CPE" or (I.kindclass == "C" and int(I.status[1:]) > len(c[6])) or iraw.startswith("PLACEMENT"):
                ctx.fail(c, "panic / fault / offset beyond the buffer on a large input: " + iraw[:120], impl=iraw[:200])
            elif c[1] in rb.model:
                ctx.validated += 1
                ctx.nontrivial.add(nontrivial_key(c))
                if proj(prop, c[2], I) != proj(prop, c[2], Obs(rb.model[c[1]])):
                    ctx.mismatch(c, iraw[:300], rb.model[c[1]][:300])
    order = [c[1] for c in cases]
    missing = [i for i in order if i not in res.impl]
    if missing:
        ctx.fail(res.cases[missing[0]], "the harness process died on (or before) this case: no observation "
                 "(signal / abort); %d cases unobserved" % len(missing))
    for cid in order:
        if cid not in res.impl:
            continue
        c = res.cases[cid]
        if not applies(prop, c):
            continue
        kind = c[2]
        iraw = res.impl[cid]
        ctx.evaluations += 1
        I = Obs(iraw)
        ctx.count("status:" + (I.status if I.kindclass != "C" else "C"))
        ctx.count("kind:" + kind)
        if I.kindclass == "X" or iraw.startswith("PLACEMENT-DIFF"):
            ctx.fail(c, "panic / placement-dependent result: " + iraw[:200], impl=iraw)
            continue
        if not (I.kindclass == "P" and len(c[6]) == 0):
            ctx.nontrivial.add(nontrivial_key(c))
        ctx.sample(c, iraw)
        R = None
        if cid in res.ref:
            R = Obs(res.ref[cid])
        start = R.start if R is not None else None
        if prop in ORACLE_PROPS and cid in res.oracle:
            o = res.oracle[cid]
            if o != "ok" and prop in o:
                ctx.fail(c, "oracle check_%s fails on the implementation's observation" % prop, impl=iraw, oracle=o)
                continue
        if prop == "C04" and c[0] == "A" and c[3] >= 2 and kind in "qp" and any(t[0] != "W" for t in I.exposed):
            # a fresh value through an uninit entry point: whatever `headers` exposes afterwards was handed back by the
            # parser; a slot it did not write (caller memory, uninitialised memory) is not a sub-slice of the buffer
            ctx.fail(c, "an uninit entry point on a fresh value exposes header slots the parser did not write from this "
                     "buffer (%s): their names / values are not sub-slices of it" % " ".join(t for t in I.exposed if t[0] != "W")[:80],
                     impl=iraw)
            continue
        if prop == "C05" and c[0] == "A" and kind == "p" and len(I.f) > 1 and I.f[1].isdigit():
            # a reported status code is the value of exactly three ASCII digits of THIS buffer: the three bytes after
            # the version literal and its SP delimiter(s)
            b = c[6]
            j = 0
            while j < len(b) and b[j] in (13, 10):
                j += 1
            k = j + 8
            while k < len(b) and b[k] == 32:
                k += 1
            d = b[k:k + 3]
            if not (len(d) == 3 and all(48 <= x <= 57 for x in d) and int(d) == int(I.f[1])):
                ctx.fail(c, "code %s is reported, but the three bytes after the version and its delimiter are %r: not "
                         "three ASCII digits with that value" % (I.f[1], bytes(d)), impl=iraw)
                continue
        if prop == "C17" and R is not None and R.status != "NA":
            # whatever the call wrote into the array -- also when it ends in Partial or Err -- is a header of THIS buffer:
            # the name / value pair the proved reference parser reads from the same line (trimmed the same way)
            wi, wr = [x for x in I.array if x[0] == "W"], [x for x in R.array if x[0] == "W"]
            if wi != wr:
                ctx.fail(c, "the slots written by this call are not the headers the reference parser reads from this buffer: "
                         "written %s, reference %s" % (" ".join(wi)[:120], " ".join(wr)[:120]), impl=iraw, ref=R.raw)
                continue
        if prop in REF_PROPS and prop != "C17" and R is not None and R.status != "NA":
            if proj(prop, kind, I, start) != proj(prop, kind, R, start):
                ctx.fail(c, "implementation differs from the reference parser on the %s projection" % prop,
                         impl=iraw, ref=R.raw)
                continue
        if cid in res.model:
            ctx.validated += 1
            M = Obs(res.model[cid])
            if proj(prop, kind, I, start) != proj(prop, kind, M, start):
                ctx.mismatch(c, iraw, M.raw)
    return res


def run_single(ctx, prop):
    if not need(ctx, ["default"]):
        return
    kinds = {"C06": ("q",), "C07": ("p",)}.get(prop, ("q", "p", "h"))
    cases = api_main(ctx, kinds) + extras(ctx, prop)
    if prop in ("C03",):
        cases += corpora.fam_chunk(ctx.seed, 500 if ctx.quick else 20000)
    single_call(ctx, prop, cases)
    # the other runtime branches of the dispatch, through the C13 hook
    sub = cases[::(7 if ctx.quick else 2)]
    for force, be in ((2, "rt2"), (3, "rt3")):
        single_call(ctx, prop, sub, force=force, model_be=be)


# ---------------------------------------------------------------- C04 (static half)
def check_cfail(ctx):
    """the compile-fail client corpus harness/cfail against /repo's working tree: every bad_*.rs must be rejected
       by the borrow checker, every ok_*.rs must compile"""
    d = os.path.join(VERIF, "harness", "cfail")
    lock = os.path.join(d, "Cargo.lock")
    if not os.path.exists(lock):
        shutil.copy(os.path.join(REPO, "Cargo.lock"), lock)
    env = {"CARGO_TARGET_DIR": os.path.join(BUILD, "cargo", "cfail"), "CARGO_NET_OFFLINE": "true"}
    borrowck = ("E0597", "E0505", "E0502", "E0499", "E0506", "E0716", "E0521", "E0515", "E0503", "E0713", "E0712")
    for f in sorted(os.listdir(os.path.join(d, "src", "bin"))):
        if not f.endswith(".rs"):
            continue
        name = f[:-3]
        rc, out = sh(["cargo", "check", "--offline", "--bin", name], cwd=d, env=env, timeout=900)
        ctx.evaluations += 1
        codes = sorted(set(re.findall(r"error\[(E\d+)\]", out)))
        ctx.count("cfail:" + ("rejected" if rc != 0 else "compiles"))
        path = os.path.join(d, "src", "bin", f)
        if name.startswith("bad_"):
            ctx.nontrivial.add("cfail:" + name)
            if rc == 0:
                ctx.fail("client program " + path, "a client that keeps a parsed field alive after its buffer is freed or "
                         "mutated COMPILES against the crate (it must be rejected by the borrow checker)", impl="cargo check: ok")
            elif not any(c in borrowck for c in codes):
                ctx.broken.append("cfail %s is rejected, but not by the borrow checker (%s): %s" % (name, ",".join(codes), out[-300:]))
        else:
            if rc != 0:
                ctx.broken.append("cfail control %s does not compile: %s" % (name, out[-300:]))


def run_C04(ctx):
    run_single(ctx, "C04")
    check_cfail(ctx)


# ---------------------------------------------------------------- C01
def run_C01(ctx):
    if not need(ctx, ["default", "dbg", "ovf"]):
        return
    q = ctx.quick
    cases = api_main(ctx) + corpora.fam_chunk(ctx.seed, 1000 if q else 50000)
    # every length 0..=300, so every start alignment mod 32 with the end abutting the guard page
    r = Rng(ctx.seed).fork("len300")
    for n in range(0, 301):
        for kind in "qph":
            b = gen.GRAM[kind](r, lenient=n % 2)
            b = (b * (n // max(1, len(b)) + 1))[:n]
            cases.append(corpora.api("glen.%s.%d" % (kind, n), kind, b, r, n))
        cases.append(("A", "glen.c.%d" % n, "c", 0, 0, 0, (b"f" * n)[:n]))
        cases.append(corpora.api("gtgt.%d" % n, "q", b"GET /" + b"a" * n, r, n))
        cases.append(corpora.api("gval.%d" % n, "h", b"A: " + b"v" * n, r, n))
        cases.append(corpora.api("gnam.%d" % n, "h", b"a" * n, r, n))
    cases += corpora.adversarial(ctx.seed, [1024, 16384] if q else [1024, 65536, 1 << 20])
    small = [c for c in cases if len(c[6]) <= 70000]
    # adjacent byte pairs (word-at-a-time arithmetic with carries between lanes): in full on the builds that trap overflow
    pairs = corpora.fam_pair256()
    for variant in ("default", "dbg"):
        for force, be in ((None, "rt1"), (2, "rt2"), (3, "rt3")):
            sub = small if (variant == "default" and force is None) else small[::(5 if q else 2)]
            if force is None:
                sub = sub + pairs
            single_call(ctx, "C01", sub, variant=variant, force=force, mode="guard", model_be=be)
    # release code with overflow checks: "never overflows arithmetic" where the debug-only guards are gone
    ovf = [c for c in small if c[2] == "c"] + corpora.fam_chunk_exh(3 if q else 5) + small[::(7 if q else 2)] + pairs
    single_call(ctx, "C01", ovf, variant="ovf", force=None, mode="guard", model_be="rt1")
    big = [c for c in cases if len(c[6]) > 70000]
    if big:
        res = execute("C01-big", big, mode="guard", want_model=False, want_oracle=True)
        for cid, iraw in res.impl.items():
            ctx.evaluations += 1
            if Obs(iraw).kindclass in "X?" or "C01" in res.oracle.get(cid, "ok"):
                ctx.fail(res.cases[cid], "panic / fault on a large buffer: " + iraw[:120], impl=iraw[:200])
        for cid in (set(c[1] for c in big) - set(res.impl)):
            ctx.fail(res.cases[cid], "harness died on a large buffer")


# ---------------------------------------------------------------- C02 / C11 (prefix relations)
def small_bases(ctx, n, maxlen=160):
    r = Rng(ctx.seed).fork("bases")
    out = []
    i = 0
    for c in corpora.fam_seed(ctx.seed, ["q", "p", "h"], per=1):
        if len(c[6]) <= maxlen:
            out.append(c)
    while len(out) < n:
        kind = "qph"[i % 3]
        b = gen.GRAM[kind](r, lenient=i % 2)
        if i % 4 == 3:
            b = gen.mutate(r, b)
        if len(b) <= maxlen:
            out.append(corpora.api("base.%d" % i, kind, b, r, i))
        i += 1
    for j in range(n // 10):
        out.append(("A", "basec.%d" % j, "c", 0, 0, 0, gen.gram_chunk(r)[:maxlen]))
    # chunk-size lines followed by chunk data, with every byte value at every position of one of them, and extensions
    # of every length (a look-ahead over the bytes after the size line must not change the answer)
    for c in corpora.fam_chunk(ctx.seed, 40):
        if len(c[6]) <= maxlen and (".body" in c[1] or ".ext" in c[1] or ".p4." in c[1] or ".i4." in c[1]):
            out.append(c)
    return out


def run_C02(ctx):
    if not need(ctx, ["default"]):
        return
    bases = small_bases(ctx, 700 if ctx.quick else 12000) + corpora.lines_bases(ctx.seed, 500 if ctx.quick else 8000)
    pre = corpora.prefixes(bases)
    # one replaced byte: the verdict reached a few bytes after it must be the verdict on the whole buffer
    mb, mp = corpora.mutated_windows(bases[:(36 if ctx.quick else 600)])
    bases = bases + mb
    pre = pre + mp
    for force, be, sub in ((None, "rt1", pre), (3, "rt3", pre[::3])):
        res = execute("C02", sub, force=force, model_be=be)
        ctx.broken += res.errors
        whole = {}
        for b in bases:
            cid = "%s#%d" % (b[1], len(b[6]))
            if cid in res.impl:
                whole[b[1]] = Obs(res.impl[cid])
        for cid, iraw in res.impl.items():
            c = res.cases[cid]
            base = cid.rsplit("#", 1)[0]
            if base not in whole:
                continue
            ctx.evaluations += 1
            I, Wh = Obs(iraw), whole[base]
            if cid in res.model:
                ctx.validated += 1
                if res.model[cid] != iraw:
                    ctx.mismatch(c, iraw, res.model[cid])
            if len(c[6]) > 0:
                ctx.nontrivial.add(nontrivial_key(c))
            ctx.count("prefix:" + I.kindclass + "->" + Wh.kindclass)
            ctx.sample(c, iraw)
            if c[2] == "c":
                if I.kindclass in "CE" and (I.status, I.size) != (Wh.status, Wh.size):
                    ctx.fail(c, "chunk-size result of a prefix changed when bytes were appended: whole=" + Wh.raw, impl=iraw)
                continue
            if I.kindclass == "C":
                if (I.status, I.f, I.exposed) != (Wh.status, Wh.f, Wh.exposed):
                    ctx.fail(c, "Complete result of a prefix changed when bytes were appended: whole=" + Wh.raw, impl=iraw)
            elif I.kindclass == "E":
                if I.status != Wh.status:
                    ctx.fail(c, "Err of a prefix changed when bytes were appended: whole=" + Wh.raw, impl=iraw)
            elif I.kindclass == "P":
                for a, b_ in zip(I.f, Wh.f):
                    if a != "-" and b_ != a:
                        ctx.fail(c, "field reported with Partial differs in the final result: whole=" + Wh.raw, impl=iraw)
                        break
            else:
                ctx.fail(c, "panic", impl=iraw)


def _completions():
    out = [b"\r\n\r\n", b"\n\r\n", b"\n\n", b"\n", b"\r\n", b" / HTTP/1.1\r\n\r\n", b"/ HTTP/1.1\r\n\r\n",
           b"a / HTTP/1.1\r\n\r\n", b"GET / HTTP/1.1\r\n\r\n", b"HTTP/1.1 200 OK\r\n\r\n", b" 200 OK\r\n\r\n",
           b"200\r\n\r\n", b"00\r\n\r\n", b"0\r\n\r\n", b":\r\n\r\n", b"a:\r\n\r\n", b"0\r\n", b"x\r\n\r\n",
           b"\nGET / HTTP/1.1\r\n\r\n", b"\nHTTP/1.1 200\r\n\r\n"]
    lit = b"HTTP/1.1"
    for k in range(len(lit) + 1):
        out.append(lit[k:] + b"\r\n\r\n")          # request: rest of the version literal
        out.append(b" " + lit[k:] + b"\r\n\r\n")
        out.append(lit[k:] + b" 200\r\n\r\n")      # response
    seen, res = set(), []
    for x in out:
        if x not in seen:
            seen.add(x)
            res.append(x)
    return res


COMPLETIONS = _completions()


def ascii_variant(b):
    return bytes(x if x < 128 else 97 for x in b)


START_TAIL_ALPHA = bytes([32, 9, 64, 65, 91, 49, 57, 58, 13, 10, 127, 128, 0, 47, 72])
START_CONTEXTS = {
    "q": [b"", b"G", b"GE", b"GET", b"GET ", b"GET /", b"GET /a ", b"GET / H", b"GET / HTTP/1", b"GET / HTTP/1.",
          b"GET / HTTP/1.1", b"GET / HTTP/1.1\r", b"POS", b"POST", b"\r\nGET"],
    "p": [b"", b"H", b"HTTP/1", b"HTTP/1.", b"HTTP/1.1", b"HTTP/1.1 ", b"HTTP/1.1 2", b"HTTP/1.1 20", b"HTTP/1.1 200",
          b"HTTP/1.1 200 ", b"HTTP/1.1 200 O", b"HTTP/1.1 200\r", b"\nHTTP/1.0"],
}


def start_tails(maxlen):
    out = []
    for kind, ctxs in START_CONTEXTS.items():
        for ci, c0 in enumerate(ctxs):
            for t in gen.exhaustive(START_TAIL_ALPHA, maxlen):
                if not t:
                    continue
                for cfg in ((0, 4) if kind == "q" else (0, 8)):
                    out.append(("A", "stail.%s%d.%s.%d" % (kind, ci, t.hex(), cfg), kind, 1, cfg, 4, c0 + t))
    return out


def run_C11(ctx):
    if not need(ctx, ["default"]):
        return
    bases = small_bases(ctx, 400 if ctx.quick else 8000) + corpora.lines_bases(ctx.seed, 400 if ctx.quick else 6000)
    pre = corpora.prefixes(bases)
    # plus: every position of a sample of bases with a wrong byte as the last byte received
    nb = 90 if ctx.quick else 1500
    pre += corpora.cut_after_bad(bases[:nb] + [c for c in bases if c[2] == "c"][:nb // 6])
    # plus: bounded-exhaustive tails after every start-line context (one, two or three more bytes have arrived,
    # any of which may be wrong -- a look-ahead fast path only fires once enough bytes are there)
    pre += start_tails(3)      # (length 4 is 2.8 M states x ~40 completions: tens of GB in the thorough tier)
    res = execute("C11", pre, want_ref=True)
    ctx.broken += res.errors
    partials = []
    for cid, iraw in res.impl.items():
        ctx.evaluations += 1
        if cid in res.model:
            ctx.validated += 1
            if Obs(res.model[cid]).status != Obs(iraw).status:
                ctx.mismatch(res.cases[cid], iraw, res.model[cid])
        if Obs(iraw).kindclass == "P":
            # the reference grammar (for which Thm/C11 proves: Partial => completable, Err => stays Err under every
            # extension) already rejects these bytes: no continuation is an accepted head, yet the call says Partial
            R = Obs(res.ref.get(cid, "")) if res.ref.get(cid) else None
            if R is not None and R.kindclass == "E":
                ctx.fail(res.cases[cid], "Partial although the bytes received can no longer be extended to an accepted head: "
                         "the reference grammar answers %s for this buffer (and for every extension of it)" % R.status, impl=iraw, ref=R.raw)
                continue
            partials.append(res.cases[cid])
    # distinct (kind, cfg, buffer) partial states
    seen = set()
    uniq = []
    for c in partials:
        k = (c[2], c[3], c[4], c[6])
        if k not in seen:
            seen.add(k)
            uniq.append(c)
    # the completion search is 46 suffixes per Partial state: bound it (a uniform sample of the states in the thorough
    # tier) and run it in batches, so that memory stays in the low GB
    cap = 300000
    if len(uniq) > cap:
        step = len(uniq) / float(cap)
        uniq = [uniq[int(i * step)] for i in range(cap)]
        ctx.notes.append("completion search on a uniform sample of %d Partial states" % cap)
    ok = set()
    B = 60000
    for b0 in range(0, len(uniq), B):
        comp = []
        for c in uniq[b0:b0 + B]:
            for j, s in enumerate(COMPLETIONS):
                comp.append(("A", "%s~%d" % (c[1], j), c[2], c[3], c[4], 64, c[6] + s))
                if any(x >= 128 for x in c[6]):
                    comp.append(("A", "%s~a%d" % (c[1], j), c[2], c[3], c[4], 64, ascii_variant(c[6]) + s))
        res2 = execute("C11-comp", comp, want_model=False, use_cache=(len(uniq) <= B))
        ctx.broken += res2.errors
        for cid, iraw in res2.impl.items():
            if Obs(iraw).kindclass == "C":
                ok.add(cid.rsplit("~", 1)[0])
        del comp, res2
    for c in uniq:
        ctx.nontrivial.add(nontrivial_key(c))
        ctx.count("partial:" + c[2])
        ctx.sample(c, "P")
        if c[1] not in ok:
            ctx.fail(c, "Partial, but none of the %d completion suffixes (also tried on the ASCII variant, "
                     "capacity 64) makes the implementation return Complete" % len(COMPLETIONS), impl="P")


# ---------------------------------------------------------------- C09
def run_C09(ctx):
    if not need(ctx, ["default", "dbg"]):
        return
    q = ctx.quick
    cases = corpora.fam_chunk(ctx.seed, 4000 if q else 100000) + corpora.fam_chunk_exh(4 if q else 6)
    res = {}
    for variant in ("default", "dbg"):
        res[variant] = execute("C09", cases, variant=variant, want_ref=True)
        ctx.broken += res[variant].errors
    for c in cases:
        cid = c[1]
        if cid not in res["default"].impl:
            ctx.fail(c, "no observation (harness died)")
            break
        iraw = res["default"].impl[cid]
        I = Obs(iraw)
        ctx.evaluations += 1
        ctx.count("status:" + I.kindclass)
        if len(c[6]):
            ctx.nontrivial.add(c[6])
        ctx.sample(c, iraw)
        R = Obs(res["default"].ref.get(cid, ""))
        if (I.status, I.size) != (R.status, R.size):
            ctx.fail(c, "parse_chunk_size differs from the reference grammar: ref=" + R.raw, impl=iraw, ref=R.raw)
            continue
        d = res["dbg"].impl.get(cid)
        if d is not None and d != iraw:
            ctx.fail(c, "debug-assertions build differs from release build: dbg=" + d, impl=iraw)
            continue
        m = res["default"].model.get(cid)
        if m is not None:
            ctx.validated += 1
            if m != iraw:
                ctx.mismatch(c, iraw, m)


# ---------------------------------------------------------------- C12
_TCHAR = set(b"!#$%&'*+-.^_`|~") | set(range(48, 58)) | set(range(65, 91)) | set(range(97, 123))
RFC_CLASS = {
    0: lambda x: 0x21 <= x <= 0x7e or x >= 0x80,                 # target
    1: lambda x: x == 9 or 0x20 <= x <= 0x7e or x >= 0x80,       # header value
    2: lambda x: x in _TCHAR,                                    # header name
}


def run_C12(ctx):
    if not need(ctx, ["default"]):
        return
    hp = harness_path("default")
    maxlen = 64 if ctx.quick else 100
    rc, out = sh([hp, "sweep", str(maxlen), "0" if ctx.quick else "1"], timeout=3000)
    if rc != 0:
        ctx.broken.append("sweep failed: " + out[-300:])
    for l in out.splitlines():
        if l.startswith("SWEEP-FAIL"):
            # SWEEP-FAIL backend class align hex got want
            f = l.split()
            ctx.fail(("S", "sweep", int(f[1]), int(f[2]), int(f[3]), bytes.fromhex(f[4]) if f[4] != "-" else b""),
                     "scanner stopped at %s, first out-of-class byte is at %s" % (f[5], f[6]))
        elif l.startswith("KERNEL-FAIL"):
            f = l.split()
            ctx.fail(("K", "sweep", f[1], bytes.fromhex(f[2])), "SWAR block kernel returned %s, expected %s or a "
                     "conservative stop" % (f[3], f[4]))
        elif l.startswith("sweep "):
            m = re.search(r"evaluations=(\d+) distinct=(\d+)", l)
            if m:
                ctx.evaluations += int(m.group(1))
                ctx.notes.append(l)
                ctx._sweep_distinct = int(m.group(2))
        elif l.startswith("TABLE-FAIL"):
            ctx.fail(("U", "table", b""), l)
    # model correspondence on sampled scan / kernel cases
    r = Rng(ctx.seed).fork("scan")
    cases = []
    fillers = {0: b"a/%7E", 1: b"v \tz", 2: b"Ab-9"}
    for i in range(6000 if ctx.quick else 60000):
        cls = i % 3
        be = (i // 3) % 4
        n = r.below(101)
        f = fillers[cls]
        b = bytearray(f[r.below(len(f))] for _ in range(n))
        for _ in range(r.below(3)):
            if n:
                b[r.below(n)] = r.choice(gen.BOUNDARY)
        cases.append(("S", "scan.%d" % i, be, cls, r.below(32), bytes(b)))
    for i in range(3000 if ctx.quick else 60000):
        b = bytes(r.choice(gen.BOUNDARY) if r.chance(1, 3) else 97 + r.below(20) for _ in range(8))
        cases.append(("K", "kern.%d" % i, "uv"[i % 2], b))
    res = execute("C12", cases)
    ctx.broken += res.errors
    for cid, iraw in res.impl.items():
        ctx.evaluations += 1
        c = res.cases[cid]
        ctx.nontrivial.add(c[2:])
        ctx.sample(c, iraw)
        m = res.model.get(cid)
        if iraw.strip() == "NA":
            continue
        if c[0] == "S":
            # the oracle of the property itself: the index of the first byte outside the class
            want = next((k for k, x in enumerate(c[5]) if not RFC_CLASS[c[3]](x)), len(c[5]))
            if iraw.strip() != str(want):
                ctx.fail(c, "scanner stopped at %s, first out-of-class byte is at %d" % (iraw.strip(), want), impl=iraw)
        if m is None:
            continue
        if c[0] == "S" and c[2] == 0:
            continue          # dispatching backend: compared through the forced ids
        ctx.validated += 1
        if m != iraw:
            ctx.mismatch(c, iraw, m)


# ---------------------------------------------------------------- C13
BUILD_RS_MODEL_NOTE = "build.rs is modelled by Proofs/BuildScript.v"


def corpus_digest(lines_by_id, order):
    import hashlib
    h = hashlib.sha1()
    for i in order:
        h.update((i + " " + lines_by_id.get(i, "<none>") + "\n").encode())
    return h.hexdigest()


def run_C13(ctx):
    q = ctx.quick
    variants = ["default", "dbg", "sse42ct", "avx2ct", "nosimd", "rtonly", "nostd"]
    if not q:
        variants += ["sse42ct-dbg", "avx2ct-dbg", "nosimd-dbg", "nostd-dbg"]
    need(ctx, variants)
    cases = corpora.fam_seed(ctx.seed, ["q", "p", "h"], per=2) + \
        corpora.fam_gram(ctx.seed, ["q", "p", "h"], 6000 if q else 100000, tag="v") + \
        corpora.fam_mut(ctx.seed, ["q", "p", "h"], 4000 if q else 100000, tag="vm") + \
        corpora.fam_chunk(ctx.seed, 1000 if q else 20000) + \
        [c for c in corpora.fam_lengths(ctx.seed, 100)]
    order = [c[1] for c in cases]
    runs = {}
    ref = execute("C13", cases, variant="default", model_be="rt1")
    runs["default/runtime"] = ref.impl
    for force, name in ((1, "avx2"), (2, "sse4.2"), (3, "scalar")):
        r = execute("C13", cases, variant="default", force=force, want_model=False)
        runs["default/forced-" + name] = r.impl
        ctx.broken += r.errors
    for v in variants[1:]:
        if not os.path.exists(harness_path(v)):
            continue
        r = execute("C13", cases, variant=v, want_model=False)
        runs[v] = r.impl
        ctx.broken += r.errors
    # the model under every backend must agree with itself too (supports backend_independent)
    for be in ("swar", "sse42", "avx2", "neon"):
        r = execute("C13-model-" + be, cases[::4], variant="default", model_be=be, W=8)
        for cid in r.model:
            ctx.validated += 1
            if r.model[cid] != ref.impl.get(cid):
                ctx.mismatch(r.cases[cid], ref.impl.get(cid, ""), be + ": " + r.model[cid])
    base = runs["default/runtime"]
    for cid in order:
        ctx.evaluations += 1
        if cid in ref.model and ref.model[cid] != base.get(cid):
            ctx.mismatch(ref.cases[cid], base.get(cid, ""), ref.model[cid])
        if cid in base:
            ctx.nontrivial.add(nontrivial_key(ref.cases[cid]))
    digests = {}
    for name, impl in runs.items():
        digests[name] = corpus_digest(impl, order)
        ctx.evaluations += len(impl)
        for cid in order:
            if impl.get(cid) != base.get(cid):
                ctx.fail(ref.cases[cid], "variant %s gives a different result: %s   (default/runtime: %s)"
                         % (name, impl.get(cid), base.get(cid)), impl=str(impl.get(cid)))
                break
    ctx.notes.append("digests: " + ", ".join("%s=%s" % (k, v[:10]) for k, v in sorted(digests.items())))
    ctx.samples.append({"variants": sorted(runs.keys()), "corpus_cases": len(order)})
    # alignment: the same buffer at every start offset 0..15 and 31..33 of an aligned arena, surrounded by in-class
    # filler or NULs, on the optimised and the debug-assertions build: one result per buffer
    r2 = Rng(ctx.seed).fork("align")
    abases = []
    for i in range(60 if q else 1500):
        kind = "qph"[i % 3]
        b = gen.GRAM[kind](r2, lenient=i % 2)
        abases.append((kind, b))
        abases.append((kind, b[:r2.below(len(b) + 1)]))
    for tl in (3, 7, 8, 9, 12, 15, 16, 17, 24, 31, 33, 40, 55, 70):
        abases.append(("q", b"GET /" + b"index/assets/x"[:tl % 14] + b"a" * tl))                  # ends inside the target
        abases.append(("q", b"GET /" + b"a" * tl + b" HTTP/1.1\r\nHost: x\r\n\r\n"))
        abases.append(("h", b"Name: " + b"v" * tl))                                                # ends inside a value
        abases.append(("h", b"n" * tl))                                                            # ends inside a name
    offs = list(range(16)) + [31, 32, 33]
    lcases = []
    for j, (kind, b) in enumerate(abases):
        for off in offs:
            for fill in (97, 0):
                lcases.append(("L", "al.%d.%d.%d" % (j, off, fill), kind, 0 if kind == "h" else 1, 0, 4, off, fill, b))
    lruns = {}
    for v in ("default", "dbg", "nosimd"):
        if os.path.exists(harness_path(v)):
            rr = execute("C13-align", lcases, variant=v, want_model=(v == "default"))
            ctx.broken += rr.errors
            lruns[v] = rr
    if "default" in lruns:
        lref = lruns["default"]
        for j, (kind, b) in enumerate(abases):
            want = lref.impl.get("al.%d.0.97" % j)
            for v, rr in lruns.items():
                for off in offs:
                    for fill in (97, 0):
                        cid = "al.%d.%d.%d" % (j, off, fill)
                        got = rr.impl.get(cid)
                        if got is None or want is None:
                            continue
                        ctx.evaluations += 1
                        if v == "default" and cid in rr.model:
                            ctx.validated += 1
                            if rr.model[cid] != got:
                                ctx.mismatch(rr.cases[cid], got, rr.model[cid])
                        if got != want:
                            ctx.fail(rr.cases[cid], "the result depends on where the buffer lies (variant %s, offset %d in a 64-byte "
                                     "aligned arena filled with byte %d): %s   (default build at offset 0: %s)"
                                     % (v, off, fill, got, want), impl=got)
        ctx.nontrivial.add(("aligned", len(lcases)))
    # cold-start races
    hp = harness_path("default")
    n = 40 if q else 1500
    bad = 0
    for i in range(n):
        rc, out = sh([hp, "race", "16"], timeout=60)
        ctx.evaluations += 16
        if rc != 0 or "mismatches=0" not in out:
            bad += 1
            ctx.fail("race", "cold-start race: " + out.strip()[:300])
            break
    ctx.notes.append("race runs: %d fresh processes x 16 threads" % n)
    # the build script, run directly under every switch combination, against its model
    check_build_script(ctx)
    check_all_switches_build(ctx)


def build_rs_model(std, miri, disable, rtonly, feats, version_ok, features_set=True):
    """the hand model of build.rs (mirrors Proofs/BuildScript.v): set of cfgs emitted"""
    out = set()
    if not std or miri or disable:
        return out
    if version_ok:
        out.add("httparse_simd_neon_intrinsics")
    out.add("httparse_simd")
    if rtonly or not features_set:
        return out
    fs = [f.strip() for f in feats.split(",")]
    if "sse4.2" in fs:
        out.add("httparse_simd_target_feature_sse42")
    if "avx2" in fs:
        out.add("httparse_simd_target_feature_avx2")
    return out


def check_build_script(ctx):
    d = os.path.join(BUILD, "buildrs")
    os.makedirs(d, exist_ok=True)
    exe = os.path.join(d, "build_script")
    rc, out = sh(["rustc", "--edition", "2018", "-O", os.path.join(REPO, "build.rs"), "-o", exe], timeout=300)
    if rc != 0:
        ctx.broken.append("build.rs does not compile: " + out[-300:])
        return
    fake = os.path.join(d, "fake_rustc")
    n = 0
    for version, vok in (("rustc 1.95.0 (abc 2026-01-01)", True), ("rustc 1.58.1 (x)", False), ("rustc 1.59.0-nightly", True)):
        with open(fake, "w") as f:
            f.write("#!/bin/sh\necho '%s'\n" % version)
        os.chmod(fake, 0o755)
        for std in (True, False):
            for miri in (False, True):
                for dis in (False, True):
                    for rt in (False, True):
                        for feats in ("fxsr,sse,sse2", "fxsr,sse,sse2,sse3,sse4.1,sse4.2", "avx,avx2,sse4.2", "avx2", None):
                            env = {"RUSTC": fake, "PATH": os.environ.get("PATH", "")}
                            if std:
                                env["CARGO_FEATURE_STD"] = "1"
                            if miri:
                                env["CARGO_CFG_MIRI"] = ""
                            if dis:
                                env["CARGO_CFG_HTTPARSE_DISABLE_SIMD"] = "1"
                            if rt:
                                env["CARGO_CFG_HTTPARSE_DISABLE_SIMD_COMPILETIME"] = "1"
                            if feats is not None:
                                env["CARGO_CFG_TARGET_FEATURE"] = feats
                            p = subprocess.run([exe], env=env, stdout=subprocess.PIPE, stderr=subprocess.STDOUT, text=True)
                            got = set(l.split("=", 1)[1] for l in p.stdout.splitlines() if l.startswith("cargo:rustc-cfg="))
                            want = build_rs_model(std, miri, dis, rt, feats or "", vok, feats is not None)
                            n += 1
                            ctx.evaluations += 1
                            if got != want:
                                ctx.mismatch(("U", "buildrs", b""), "env=%s -> %s" % (sorted(env), sorted(got)), str(sorted(want)))
                            if "httparse_simd" in got and not std:
                                ctx.fail("build.rs", "build.rs enables httparse_simd without the std feature: env=%s" % sorted(env))
    ctx.notes.append("build.rs executed under %d environments" % n)


def check_all_switches_build(ctx, stds=(True, False)):
    """every combination of std x the two disable switches x 4 target-feature sets must compile
       (the switches are passed the documented way, as --cfg flags, so cargo hands them to build.rs
       as CARGO_CFG_* variables)"""
    import concurrent.futures as cf
    combos = []
    for std in stds:
        for dis in (False, True):
            for rt in (False, True):
                for tf in ("", "+sse4.2", "+avx2", "+sse4.2,+avx2"):
                    combos.append((std, dis, rt, tf))
        # code may also be gated on target features the build script does not know about (bmi1, popcnt, ...):
        # every feature of a recent CPU level switched on at once
        combos.append((std, False, False, "cpu=x86-64-v3"))
        combos.append((std, True, False, "cpu=x86-64-v3"))

    def one(c):
        std, dis, rt, tf = c
        flags = []
        if tf.startswith("cpu="):
            flags.append("-C target-cpu=" + tf[4:])
        elif tf:
            flags.append("-C target-feature=" + tf)
        if dis:
            flags.append('--cfg httparse_disable_simd="1"')
        if rt:
            flags.append('--cfg httparse_disable_simd_compiletime="1"')
        name = "%d%d%d%s" % (std, dis, rt, tf.replace("+", "").replace(",", "_").replace(".", "").replace("=", ""))
        env = {"CARGO_TARGET_DIR": os.path.join(BUILD, "cargo", "switches", name), "RUSTFLAGS": " ".join(flags)}
        cmd = ["cargo", "check", "--offline", "--lib"] + ([] if std else ["--no-default-features"])
        rc, out = sh(cmd, cwd=REPO, env=env, timeout=900)
        if rc == 0:
            # cfg(debug_assertions) can gate code too: the optimised profile must build as well
            rc, out = sh(cmd + ["--release"], cwd=REPO, env=env, timeout=900)
        return c, rc, out

    with cf.ThreadPoolExecutor(max_workers=8) as ex:
        res = list(ex.map(one, combos))
    for (std, dis, rt, tf), rc, out in res:
        ctx.evaluations += 1
        ctx.nontrivial.add(("switches", std, dis, rt, tf))
        if rc != 0:
            err = [l for l in out.splitlines() if l.startswith("error")][:3]
            ctx.fail("switches", "switch combination std=%s httparse_disable_simd=%s httparse_disable_simd_compiletime=%s "
                     "target-feature=%s does not build: %s" % (std, dis, rt, tf or "-", " | ".join(err)[:300]))
    ctx.notes.append("%d switch combinations cargo-checked" % len(combos))


# ---------------------------------------------------------------- C15
def run_C15(ctx):
    if not need(ctx, ["default"]):
        return
    q = ctx.quick
    r = Rng(ctx.seed).fork("c15")
    bases = []
    for c in corpora.fam_seed(ctx.seed, ["q", "p"], per=1):
        bases.append((c[2], c[6]))
    for i in range(150 if q else 4000):
        kind = "qp"[i % 2]
        bases.append((kind, gen.GRAM[kind](r, lenient=0)))
    for i in range(100 if q else 3000):
        kind = "qp"[i % 2]
        bases.append((kind, gen.mutate(r, gen.GRAM[kind](r, lenient=i % 2))))
    # reason phrases around the one stated exception: obs-text first / last / alone, leading blanks and tabs
    for ver in (b"HTTP/1.1 ", b"HTTP/1.0 "):
        for sp in (b" ", b"  ", b"   "):
            for reason in (b"\xc9chec interne", b"\xff", b"\x80 ok", b"caf\xe9", b" \xc9x", b"\xc3\xa9t\xc3\xa9", b"OK\xff",
                           b"\tOK", b"OK ", b"", b"O K", b"\xc9", b"a\x80b"):
                for eol in (b"\r\n", b"\n"):
                    bases.append(("p", ver + b"200" + sp + reason + eol + b"A: b" + eol + eol))
    cases = []
    # both configured entry points: `parse_with_config` (entry 1, behind ParserConfig::parse_request / parse_response)
    # and ParserConfig::parse_*_with_uninit_headers (entry 3), which reach the core by different routes
    ents = (("", 1), ("u", 3))
    for j, (kind, b) in enumerate(bases):
        for tag, ent in ents:
            for cfg in range(128):
                cases.append(("A", "c15%s.%d.%d" % (tag, j, cfg), kind, ent, cfg, 16, b))
    res = execute("C15", cases)
    ctx.broken += res.errors
    own = {"q": gen.REQ_BITS, "p": gen.RESP_BITS}
    for (j, (kind, b)), (tag, ent) in itertools.product(enumerate(bases), ents):
        d = res.impl.get("c15%s.%d.0" % (tag, j))
        if d is None:
            continue
        D = Obs(d)
        for cfg in range(128):
            cid = "c15%s.%d.%d" % (tag, j, cfg)
            iraw = res.impl.get(cid)
            if iraw is None:
                continue
            ctx.evaluations += 1
            c = res.cases[cid]
            if cid in res.model:
                ctx.validated += 1
                if res.model[cid] != iraw:
                    ctx.mismatch(c, iraw, res.model[cid])
            I = Obs(iraw)
            # (b) options of the other kind never matter, accepted or not
            twin = res.impl.get("c15%s.%d.%d" % (tag, j, cfg & own[kind]))
            if twin is not None and twin != iraw:
                ctx.fail(c, "options of the other message kind changed the result: with only own-kind bits (%d): %s"
                         % (cfg & own[kind], twin), impl=iraw)
                continue
            # (a) conservative extension on default-accepted buffers
            if D.kindclass != "C":
                continue
            ctx.nontrivial.add((kind, ent, cfg, b))
            ctx.count("accepted:" + kind)
            if cfg % 16 == 1:
                ctx.sample(c, iraw)
            if iraw == d:
                continue
            ok = False
            if kind == "p" and cfg & gen.CFG_MS_RESP and (I.status, I.f[:2], I.exposed, I.array) == (D.status, D.f[:2], D.exposed, D.array):
                # the stated exception: leading SPs of the reason are stripped (same end)
                m1 = re.fullmatch(r"(\d+)\+(\d+)", D.f[2])
                m2 = re.fullmatch(r"(\d+)\+(\d+)", I.f[2])
                if m1 and m2:
                    o1, l1, o2, l2 = int(m1.group(1)), int(m1.group(2)), int(m2.group(1)), int(m2.group(2))
                    k = o2 - o1
                    if k >= 0 and l1 - l2 == k and b[o1:o2] == b" " * k and (l2 == 0 or b[o2] != 32):
                        ok = True
                elif D.f[2] == I.f[2]:
                    ok = True
            if not ok:
                ctx.fail(c, "a buffer the default configuration accepts is parsed differently under config %d: "
                         "default=%s" % (cfg, d), impl=iraw)


# ---------------------------------------------------------------- C16
def shift_tok(t, k):
    m = re.fullmatch(r"W(\d+)\+(\d+),(\d+)\+(\d+)", t)
    if not m:
        return t
    return "W%d+%s,%d+%s" % (int(m.group(1)) + k, m.group(2), int(m.group(3)) + k, m.group(4))


def run_C16(ctx):
    if not need(ctx, ["default"]):
        return
    q = ctx.quick
    r = Rng(ctx.seed).fork("c16")
    cases = []
    groups = []
    n = 0
    srcs = [(c[2], c[6]) for c in corpora.fam_seed(ctx.seed, ["q", "p"], per=1)]
    for i in range(1500 if q else 40000):
        kind = "qp"[i % 2]
        b = gen.GRAM[kind](r, lenient=i % 2)
        if i % 3 == 2:
            b = gen.mutate(r, b)
        if i % 11 == 10:
            b = b[:r.below(len(b) + 1)]
        srcs.append((kind, b))
    for j, (kind, b) in enumerate(srcs):
        cfg = corpora.pick_cfg(r, kind, j)
        cap = corpora.pick_cap(r, b, j)
        ids = []
        for e in range(4):
            for cf in ((0, cfg) if e in (1, 3) else (0,)):
                cid = "c16.%d.%d.%d" % (j, e, cf)
                cases.append(("A", cid, kind, e, cf, cap, b))
                ids.append((e, cf, cid))
        groups.append(("entries", ids))
    # parse_headers(h) vs the header part of a request / response
    for j in range(800 if q else 20000):
        h = gen.gram_block(r, lenient=0)
        if j % 3 == 2:
            h = gen.mutate(r, h)
        if j % 7 == 6:
            h = h[:r.below(len(h) + 1)]
        cap = corpora.pick_cap(r, h, j)
        ids = [("h", 0, "c16h.%d.h" % j)]
        cases.append(("A", "c16h.%d.h" % j, "h", 0, 0, cap, h))
        starts = {"q": [b"GET / HTTP/1.1\r\n", b"GET / HTTP/1.1\n", b"POST /a/b?c=d HTTP/1.0\n", b"\r\n\nM-SEARCH * HTTP/1.1\r\n"],
                  "p": [b"HTTP/1.1 200 OK\r\n", b"HTTP/1.0 404\n", b"HTTP/1.1 301 Moved Permanently\n", b"\nHTTP/1.1 200 \r\n"]}
        for kind in "qp":
            for si, sl in enumerate(starts[kind]):
                cid = "c16h.%d.%s%d" % (j, kind, si)
                cases.append(("A", cid, kind, 0, 0, cap, sl + h))
                ids.append((kind, len(sl), cid))
        groups.append(("headers", ids))
    res = execute("C16", cases)
    ctx.broken += res.errors
    for cid, iraw in res.impl.items():
        if cid in res.model:
            ctx.validated += 1
            if res.model[cid] != iraw:
                ctx.mismatch(res.cases[cid], iraw, res.model[cid])
    # the same agreement on a REUSED Request / Response: after the same earlier calls, the four entry points
    # given the same buffer, configuration and capacity (the current length of `headers`, read off a first
    # pass) leave the same status, start-line fields and headers -- whatever the outcome
    hist = []
    for i in range(1200 if q else 30000):
        kind = "qp"[i % 2]
        cap = r.choice([1, 2, 4, 8])
        pre = []
        for j in range(1 + r.below(2)):
            b = gen.GRAM[kind](r, lenient=r.below(2))
            t = r.below(4)
            if t == 0:
                b = b[:r.below(len(b) + 1)]
            elif t == 1:
                b = gen.mutate(r, b)
            pre.append((r.below(4), r.choice(gen.relevant_cfgs(kind)), r.choice([1, 2, 4, 8]), b))
        b = gen.GRAM[kind](r, lenient=r.below(2))
        t = r.below(4)
        if t <= 1:
            b = b[:r.below(len(b) + 1)]
        elif t == 2:
            b = gen.mutate(r, b)
        cf = 0 if i % 3 == 0 else r.choice(gen.relevant_cfgs(kind))
        hist.append((kind, cap, pre, cf, b))
    first = [("H", "c16r.%d.1" % i, kind, cap, pre + [(1, cf, cap, b)]) for i, (kind, cap, pre, cf, b) in enumerate(hist)]
    resh = execute("C16-hist", first)
    ctx.broken += resh.errors
    second = []
    for i, (kind, cap, pre, cf, b) in enumerate(hist):
        o = resh.impl.get("c16r.%d.1" % i)
        if o is None:
            continue
        vl = int(Obs(o).start or 0)
        for e in ((0, 2, 3) if cf == 0 else (3,)):
            second.append(("H", "c16r.%d.%d" % (i, e), kind, cap, pre + [(e, cf, vl, b)]))
    resh2 = execute("C16-hist2", second)
    ctx.broken += resh2.errors
    for rr in (resh, resh2):
        for cid, iraw in rr.impl.items():
            if cid in rr.model:
                ctx.validated += 1
                # a field left by an earlier call may alias the probe buffer (the buffers of a history share one
                # allocation): compare such fields by content, not by location (as in C18)
                last = rr.cases[cid][4][-1][3]
                if _bycontent(rr.model[cid], last) != _bycontent(iraw, last):
                    ctx.mismatch(rr.cases[cid], iraw, rr.model[cid])
    for i, (kind, cap, pre, cf, b) in enumerate(hist):
        o1 = resh.impl.get("c16r.%d.1" % i)
        if o1 is None:
            continue
        O1 = Obs(o1)
        ctx.count("reused-probe:" + O1.kindclass)
        for e in ((0, 2, 3) if cf == 0 else (3,)):
            cid = "c16r.%d.%d" % (i, e)
            if cid not in resh2.impl:
                continue
            ctx.evaluations += 1
            O = Obs(resh2.impl[cid])
            same = (O.status, O.f) == (O1.status, O1.f) and (O.kindclass != "C" or O.exposed == O1.exposed)
            if not same:
                ctx.fail(resh2.cases[cid], "entry points disagree on a reused value (same earlier calls, buffer, configuration, "
                         "capacity): entry 1 gives %s, entry %d gives %s" % (O1.raw, e, O.raw), impl=O.raw)
                break
    for gk, ids in groups:
        if gk == "entries":
            by_cf = {}
            for e, cf, cid in ids:
                if cid in res.impl:
                    by_cf.setdefault(cf, []).append((e, cid, Obs(res.impl[cid])))
            for cf, lst in by_cf.items():
                e0, cid0, O0 = lst[0]
                ctx.nontrivial.add(nontrivial_key(res.cases[cid0]))
                ctx.sample(res.cases[cid0], O0.raw)
                for e, cid, O in lst[1:]:
                    ctx.evaluations += 1
                    same = (O.status, O.f) == (O0.status, O0.f) and (O.kindclass != "C" or [t for t in O.exposed] == [t for t in O0.exposed])
                    if not same:
                        ctx.fail(res.cases[cid], "entry points disagree on identical arguments: entry %d gives %s, entry %d gives %s"
                                 % (e0, O0.raw, e, O.raw), impl=O.raw)
                        break
        else:
            (_, _, hid) = ids[0]
            if hid not in res.impl:
                continue
            H = Obs(res.impl[hid])
            for kind, k, cid in ids[1:]:
                if cid not in res.impl:
                    continue
                ctx.evaluations += 1
                O = Obs(res.impl[cid])
                want_status = ("C%d" % (int(H.status[1:]) + k)) if H.kindclass == "C" else H.status
                want_exposed = [shift_tok(t, k) for t in H.exposed]
                ctx.nontrivial.add(nontrivial_key(res.cases[cid]))
                if O.status != want_status or (H.kindclass == "C" and O.exposed != want_exposed) or \
                        [t for t in O.array if t[0] == "W"] != [shift_tok(t, k) for t in H.array if t[0] == "W"]:
                    ctx.fail(res.cases[cid], "parse_headers disagrees with the header part of a %s parse: parse_headers=%s"
                             % ("request" if kind == "q" else "response", H.raw), impl=O.raw)


# ---------------------------------------------------------------- C17 (capacity law on top of the oracle)
def run_C17(ctx):
    run_single(ctx, "C17")
    # capacity law: outcome with capacity N = outcome with unlimited capacity unless an
    # (N+1)-th header line completes first
    cases = [c for c in extras(ctx, "C17") if c[1].startswith("cap.")]
    inf = []
    seen = set()
    for c in cases:
        base = c[1].rsplit(".", 2)[0] + "." + str(c[3])
        if base not in seen:
            seen.add(base)
            inf.append(("A", base + ".inf", c[2], c[3], c[4], 64, c[6]))
    res = execute("C17-cap", cases + inf, want_model=False)
    ctx.broken += res.errors
    for c in cases:
        cid = c[1]
        base = cid.rsplit(".", 2)[0] + "." + str(c[3])
        a, b = res.impl.get(cid), res.impl.get(base + ".inf")
        if a is None or b is None:
            continue
        ctx.evaluations += 1
        A, Binf = Obs(a), Obs(b)
        kinf = len([t for t in Binf.array if t[0] == "W"])
        cap = c[5]
        if kinf <= cap:
            if (A.status, A.f, [t for t in A.array if t[0] == "W"]) != (Binf.status, Binf.f, [t for t in Binf.array if t[0] == "W"]):
                ctx.fail(c, "capacity %d suffices (%d headers) but the outcome differs from unlimited capacity: %s" % (cap, kinf, b), impl=a)
        elif A.status != "ETooManyHeaders":
            ctx.fail(c, "capacity %d < %d completed headers but the result is not TooManyHeaders" % (cap, kinf), impl=a)


    run_C17_reused(ctx)


def _bycontent(txt, last):
    return re.sub(r"(\d+)\+(\d+)", lambda m: "x" + last[int(m.group(1)):int(m.group(1)) + int(m.group(2))].hex(), txt)


def run_C17_reused(ctx):
    """the storage clauses on REUSED values: after earlier calls on the same Request / Response, a Complete probe exposes
       exactly the headers a fresh value would (count and contents); after Partial / Err the initialised entry points leave
       `headers` as long as it was before the call and the uninit entry points leave it untouched"""
    q = ctx.quick
    r = Rng(ctx.seed).fork("c17h")
    zero = {"q": [b"GET / HTTP/1.1\r\n\r\n", b"GET /x HTTP/1.0\n\n", b"POST /a HTTP/1.1\r\n\n"],
            "p": [b"HTTP/1.1 200 OK\r\n\r\n", b"HTTP/1.0 204\n\n", b"HTTP/1.1 100 Continue\r\n\r\n"]}
    hs, pres, meta = [], [], []
    for i in range(2000 if q else 50000):
        kind = "qp"[i % 2]
        cap = r.choice([1, 2, 3, 4, 8])
        pre = []
        for j in range(1 + r.below(2)):
            b = gen.GRAM[kind](r, lenient=r.below(2))
            t = r.below(5)
            if t == 0:
                b = b[:r.below(len(b) + 1)]
            elif t == 1:
                b = gen.mutate(r, b)
            pre.append((r.below(4), r.choice(gen.relevant_cfgs(kind)), r.choice([1, 2, 4, 8]), b))
        t = r.below(6)
        if t <= 1:
            b = r.choice(zero[kind])
        else:
            b = gen.GRAM[kind](r, lenient=r.below(2))
            if t == 2:
                b = b[:r.below(len(b) + 1)]
            elif t == 3:
                b = gen.mutate(r, b)
        probe = (r.below(4), r.choice(gen.relevant_cfgs(kind)), r.choice([0, 1, 2, 4, 8]), b)
        hs.append(("H", "c17r.%d" % i, kind, cap, pre + [probe]))
        pres.append(("H", "c17r.%d.pre" % i, kind, cap, pre))
        meta.append((kind, cap, pre, probe))
    res = execute("C17-reused", hs + pres)
    ctx.broken += res.errors
    for cid, iraw in res.impl.items():
        if cid in res.model:
            ctx.validated += 1
            last = res.cases[cid][4][-1][3]
            if _bycontent(res.model[cid], last) != _bycontent(iraw, last):
                ctx.mismatch(res.cases[cid], iraw, res.model[cid])
    fresh = []
    for i, (kind, cap, pre, probe) in enumerate(meta):
        o = res.impl.get("c17r.%d" % i)
        if o is None:
            continue
        e, cf, uc, b = probe
        fresh.append(("A", "c17r.%d.fresh" % i, kind, e, cf, uc if e >= 2 else int(Obs(o).start or 0), b))
    res2 = execute("C17-reused-fresh", fresh, want_model=False)
    ctx.broken += res2.errors
    for i, (kind, cap, pre, probe) in enumerate(meta):
        a, pz, f = res.impl.get("c17r.%d" % i), res.impl.get("c17r.%d.pre" % i), res2.impl.get("c17r.%d.fresh" % i)
        if a is None or pz is None or f is None:
            continue
        ctx.evaluations += 1
        A, P, F = Obs(a), Obs(pz), Obs(f)
        e, cf, uc, b = probe
        h = hs[i]
        ctx.count("reused:" + A.kindclass + ("/uninit" if e >= 2 else "/init"))
        if A.kindclass == "C":
            if F.kindclass == "C" and A.exposed != F.exposed:
                ctx.fail(h, "Complete on a reused value exposes %d element(s) %s; a fresh value with the same buffer, configuration "
                         "and capacity exposes %d: %s" % (len(A.exposed), " ".join(A.exposed)[:120], len(F.exposed), f), impl=a)
        elif A.kindclass in "PE":
            before = [_bycontent(t, pre[-1][3]) for t in P.exposed]
            after = [_bycontent(t, b) for t in A.exposed]
            if e < 2 and len(after) != int(A.start or 0):
                ctx.fail(h, "after %s an initialised entry point left `headers` with %d element(s); it had %s before the call"
                         % (A.status, len(after), A.start), impl=a)
            elif e >= 2 and after != before:
                ctx.fail(h, "after %s an uninit entry point changed `headers`: before %s, after %s"
                         % (A.status, " ".join(before)[:120], " ".join(after)[:120]), impl=a)


# ---------------------------------------------------------------- C18
def run_C18(ctx):
    if not need(ctx, ["default"]):
        return
    q = ctx.quick
    r = Rng(ctx.seed).fork("hist")
    hs = []
    for i in range(6000 if q else 150000):
        kind = "qp"[i % 2]
        cap = r.choice([0, 1, 2, 3, 4, 8])
        calls = []
        if i % 3 == 2:
            # the documented loop: ONE buffer, re-parsed as it grows (the harness hands every prefix out as
            # a slice of the same allocation); the configuration may change between the calls
            base = gen.GRAM[kind](r, lenient=1)
            if r.chance(1, 4):
                base = gen.mutate(r, base)
            n = 2 + r.below(3)
            cuts = sorted(len(base) if r.chance(1, 2) else (0 if r.chance(1, 6) else r.below(len(base) + 1))
                          for _ in range(n - 1)) + [len(base)]
            rel = gen.relevant_cfgs(kind)
            for cut in cuts:
                cfg = r.choice(rel) if r.chance(2, 3) else r.below(128)
                calls.append((r.below(2) if r.chance(2, 3) else r.below(4), cfg, r.choice([0, 1, 2, 4, 8]), base[:cut]))
            hs.append(("H", "grow.%d" % i, kind, r.choice([1, 2, 3, 4, 8]), calls))
            continue
        for j in range(1 + r.below(4) + 1):
            k2 = kind if r.chance(3, 4) else "qp"[(i + 1) % 2]
            b = gen.GRAM[k2](r, lenient=r.below(2))
            t = r.below(6)
            if t == 0:
                b = b[:r.below(len(b) + 1)]
            elif t == 1:
                b = gen.mutate(r, b)
            calls.append((r.below(4), r.below(128), r.choice([0, 1, 2, 4, 8]), b))
        hs.append(("H", "hist.%d" % i, kind, cap, calls))
    # a recycled read buffer (a keep-alive connection reading message after message into one allocation): every call
    # gets a FRESH value over a fresh array, but all buffers sit at ONE address.  Nothing is shared between the calls
    # except that address -- and whatever the crate remembers on its own.  The probe is a near copy of the earlier
    # message (one byte replaced), so that anything remembered about the earlier bytes is wrong for it.
    rec = []
    uri = bytes(c for c in range(33, 127)) + b"\x80\xa9\xff"
    special = bytes([0, 9, 10, 13, 32, 127]) + b"\"<>\\^`{|}:;,aZ09%/?#"
    for i in range(2500 if q else 60000):
        kind = "p" if i % 5 == 4 else "q"
        if kind == "q" and i % 5 != 3:
            tl = r.choice([6, 20, 31, 32, 33, 34, 40, 48, 63, 64, 65, 96, 130])
            base = r.choice([b"GET", b"POST", b"PUT", b"DELETE", b"OPTIONS", b"M-SEARCH"]) + b" /" + \
                bytes(r.choice(uri) for _ in range(tl)) + b" HTTP/1." + r.choice([b"1", b"0"]) + \
                r.choice([b"\r\n", b"\n"]) + gen.gram_block(r, lenient=0)
        else:
            base = gen.GRAM[kind](r, lenient=0)
        calls = []
        for _ in range(1 + r.below(3)):
            # half of the cuts fall inside the first line (where most of what could be remembered lives)
            l1 = base.find(b"\n") + 1 or len(base)
            cut = len(base) if r.chance(1, 8) else r.below((l1 if r.chance(1, 2) else len(base)) + 1)
            calls.append((r.below(4), 0 if r.chance(3, 4) else r.below(128), r.choice([0, 1, 4, 16]), base[:cut]))
        p = bytearray(base)
        t = r.below(8)
        if t < 5:
            p[r.below(l1 if r.chance(1, 2) else len(p))] = r.choice(special)
        elif t == 5:
            k = r.below(len(p))
            p[k:k] = bytes([r.choice(special)])
        elif t == 6:
            p = bytearray(gen.mutate(r, bytes(p)))
        cutp = len(p) if r.chance(3, 4) else r.below(len(p) + 1)
        calls.append((r.below(4), 0 if r.chance(3, 4) else r.below(128), 16, bytes(p[:cutp])))
        rec.append(("R", "rec.%d" % i, kind, 16, calls))
    resr = execute("C18-recycled", rec)
    ctx.broken += resr.errors
    recfresh = [("A", h[1] + ".fresh", h[2]) + h[4][-1] for h in rec if h[1] in resr.impl]
    resrf = execute("C18-recycled-fresh", recfresh, want_model=False)
    ctx.broken += resrf.errors
    for h in rec:
        cid = h[1]
        a, b = resr.impl.get(cid), resrf.impl.get(cid + ".fresh")
        if a is None or b is None:
            continue
        ctx.evaluations += 1
        if cid in resr.model:
            ctx.validated += 1
            if resr.model[cid] != a:
                ctx.mismatch(h, a, resr.model[cid])
        ctx.nontrivial.add((h[2], "recycled", tuple(h[4])))
        ctx.count("recycled-probe:" + Obs(a).kindclass)
        if a != b:
            ctx.fail(h, "the outcome depends on more than the buffer, the configuration and the capacity: after %d earlier "
                     "call(s) on FRESH values whose buffers sat at the same address, the probe gives a result other than "
                     "the same call made first: alone=%s" % (len(h[4]) - 1, b), impl=a)
    res = execute("C18", hs)
    ctx.broken += res.errors
    fresh = []
    for h in hs:
        cid = h[1]
        if cid not in res.impl:
            continue
        if cid in res.model:
            ctx.validated += 1
            # a field left by an earlier call may alias the last buffer when the calls share one allocation
            # (the growing-buffer histories): compare such fields by content, not by location
            last = h[4][-1][3]

            def bycontent(txt):
                return re.sub(r"(\d+)\+(\d+)",
                              lambda m: "x" + last[int(m.group(1)):int(m.group(1)) + int(m.group(2))].hex(), txt)
            if bycontent(res.model[cid]) != bycontent(res.impl[cid]):
                ctx.mismatch(h, res.impl[cid], res.model[cid])
        O = Obs(res.impl[cid])
        e, cf, uc, b = h[4][-1]
        vl = int(O.start or 0)
        fresh.append(("A", cid + ".fresh", h[2], e, cf, uc if e >= 2 else vl, b))
        if cid.startswith("grow."):
            # the documented loop: the earlier calls saw strict prefixes of this buffer; none of them can have been
            # Complete (checked below against the fresh result), so `headers` must still be the caller's whole array
            fresh.append(("A", cid + ".fresh0", h[2], e, cf, uc if e >= 2 else h[3], b))
            for j, (ej, cfj, ucj, bj) in enumerate(h[4][:-1]):
                fresh.append(("A", "%s.e%d" % (cid, j), h[2], ej, cfj, ucj if ej >= 2 else h[3], bj))
    res2 = execute("C18-fresh", fresh, want_model=False)
    ctx.broken += res2.errors
    for h in hs:
        cid = h[1]
        a, b = res.impl.get(cid), res2.impl.get(cid + ".fresh")
        if a is None or b is None:
            continue
        ctx.evaluations += 1
        A, F = Obs(a), Obs(b)
        ctx.nontrivial.add((h[2], h[3], tuple(h[4])))
        ctx.count("probe:" + A.kindclass)
        ctx.sample(h, a)
        if A.status != F.status or (A.kindclass == "C" and (A.f, A.exposed) != (F.f, F.exposed)):
            ctx.fail(h, "the probe after this history differs from the probe on a fresh value: fresh=%s" % b, impl=a)
            continue
        b0 = res2.impl.get(cid + ".fresh0")
        if b0 is not None:
            F0 = Obs(b0)
            # each earlier call, made on a fresh value over the original array, is not Complete: then (by the property
            # itself, inductively) none of them was Complete in the history, and `headers` is still the whole array
            ej = [res2.impl.get("%s.e%d" % (cid, j)) for j in range(len(h[4]) - 1)]
            none_complete = all(x is not None and Obs(x).kindclass in "PE" for x in ej)
            if none_complete and (A.status != F0.status or (A.kindclass == "C" and (A.f, A.exposed) != (F0.f, F0.exposed))):
                ctx.fail(h, "the documented loop (re-parsing one growing buffer on the same value, over the same %d-slot array) "
                         "differs from parsing the final buffer with a fresh value over such an array: fresh=%s" % (h[3], b0), impl=a)


# ---------------------------------------------------------------- C19
def run_C19(ctx):
    if not need(ctx, ["default"]):
        return
    ok, out = build_harnesses(["nostd"])["nostd"]
    if not ok:
        err = [l for l in out.splitlines() if l.startswith("error")][:3]
        ctx.fail("nostd-harness-build", "with the std feature disabled the crate does not build in the release profile "
                 "(harness variant nostd: cargo build --release --no-default-features, RUSTFLAGS=--cfg httparse_verif): "
                 + " | ".join(err)[:400])
        check_all_switches_build(ctx, stds=(False,))
        return
    cases = api_main(ctx) + corpora.fam_chunk(ctx.seed, 1000 if ctx.quick else 30000) + extras(ctx, "C14") \
        + [c for c in corpora.adversarial(ctx.seed, [1024, 8192]) if not c[1].endswith(".big")]
    # every build the property speaks about: optimised and debug-assertions builds, every backend the
    # runtime dispatch can choose (forced through the C13 hook), and the no_std build
    need(ctx, ["dbg"])
    for variant, force in (("default", None), ("default", 2), ("default", 3), ("dbg", None), ("dbg", 3), ("nostd", None)):
        res = execute("C19", cases, variant=variant, force=force, mode="alloc", want_model=False)
        ctx.broken += res.errors
        variant = variant + ("" if force is None else "/backend%d" % force)
        for cid, iraw in res.impl.items():
            ctx.evaluations += 1
            c = res.cases[cid]
            ctx.nontrivial.add(nontrivial_key(c))
            m = re.search(r"^(\S+) allocs=(\d+)", iraw)
            if not m:
                ctx.fail(c, "no allocation count: " + iraw[:100])
                continue
            ctx.count("outcome:" + m.group(1) + "/cfg" + ("0" if c[4] == 0 else "+"))
            ctx.sample(c, iraw)
            if int(m.group(2)) != 0:
                ctx.fail(c, "%s heap allocation(s) during the parse call (%s)" % (m.group(2), variant), impl=iraw)
    # every no_std switch combination must build against core alone
    check_all_switches_build(ctx, stds=(False,))
    # a final link unit without std and without a global allocator: builds only if the crate needs `core` alone
    pd = os.path.join(VERIF, "harness", "probe")
    lock = os.path.join(pd, "Cargo.lock")
    if not os.path.exists(lock) and os.path.exists(os.path.join(REPO, "Cargo.lock")):
        shutil.copy(os.path.join(REPO, "Cargo.lock"), lock)
    penv = {"CARGO_TARGET_DIR": os.path.join(BUILD, "cargo", "probe"), "CARGO_NET_OFFLINE": "true"}
    for prof in ([], ["--release"]):
        rc, out = sh(["cargo", "build", "--offline"] + prof, cwd=pd, env=penv, timeout=600)
        ctx.evaluations += 1
        if rc != 0:
            err = [l for l in out.splitlines() if l.startswith("error")][:3]
            ctx.fail("core-only-link", "a #![no_std] staticlib without a global allocator that links the crate with the std feature off "
                     "does not build (harness/probe, cargo build %s): %s" % (" ".join(prof), " | ".join(err)[:400]))
    # the crate alone, against core only
    env = {"CARGO_TARGET_DIR": os.path.join(BUILD, "cargo", "nostd-lib")}
    for prof in ([], ["--release"]):
        rc, out = sh(["cargo", "build", "--offline", "--lib", "--no-default-features"] + prof, cwd=REPO, env=env, timeout=600)
        ctx.evaluations += 1
        if rc != 0:
            err = [l for l in out.splitlines() if l.startswith("error")][:3]
            ctx.fail("nostd-build", "cargo build --no-default-features %s fails: %s" % (" ".join(prof), " | ".join(err)[:400]))


# ---------------------------------------------------------------- C20
def run_C20(ctx):
    if not need(ctx, ["default", "nosimd"]):
        return
    sizes = [1024, 8192, 65536] if ctx.quick else [1024, 8192, 65536, 1 << 18, 1 << 20]
    cases = corpora.adversarial(ctx.seed, sizes) + api_main(ctx)[::(4 if ctx.quick else 1)]
    # the cost model (CostTop.v over the cost copies), extracted on every run
    import common
    ok, xlog = common.coq_make(["ExtractC.vo"])
    cok, cmsg = common.build_cdriver() if ok else (False, common.first_coq_error(xlog))
    if not cok:
        ctx.notes.append("cost model not rebuilt from the current tree (%s); last good cdriver used" % cmsg[:200])
    worst = 0.0
    for force, be in ((None, "rt1"), (2, "rt2"), (3, "rt3")):
        res = execute("C20", cases, force=force, mode="work", want_model=False, want_cost=True, model_be=be)
        ctx.broken += res.errors
        small = [c for c in cases if len(c[6]) <= 70000]
        mres = execute("C20-model", small, force=force, model_be=be)
        for cid, iraw in res.impl.items():
            c = res.cases[cid]
            ctx.evaluations += 1
            m = re.search(r"^(\S+) len=(\d+) travel=(\d+) peeks=(\d+) asrefs=(\d+) trimmed=(\d+)", iraw)
            if not m:
                ctx.fail(c, "no counters: " + iraw[:100])
                continue
            st, n, travel, peeks, asrefs, trimmed = m.group(1), *[int(x) for x in m.groups()[1:]]
            ctx.nontrivial.add(nontrivial_key(c))
            ctx.count("size:" + str(len(str(n))) + "digits")
            if n >= 1024:
                ctx.sample(c, iraw)
            why = None
            if travel > n:
                why = "cursor travel %d exceeds the buffer length %d" % (travel, n)
            elif st.startswith("C") and travel != int(st[1:]):
                why = "cursor travel %d differs from the consumed length %s" % (travel, st)
            elif peeks > n + 16:
                why = "%d block peeks for %d bytes" % (peeks, n)
            elif asrefs > n + 16:       # (the unchanged crate stays below 0.7 per byte on every family)
                why = "%d remaining-slice views for %d bytes" % (asrefs, n)
            elif trimmed > n + 1:
                why = "trim visited %d bytes for %d bytes of input" % (trimmed, n)
            if why:
                ctx.fail(c, why, impl=iraw)
            # cost model: same outcome class, same cursor travel, ticks within the proved bound
            cm = res.cost.get(cid)
            if cm is not None and not cm.startswith("skip"):
                mc = re.search(r"^(\S) ticks=(\d+) travel=(\d+)", cm)
                if not mc:
                    ctx.broken.append("cost model output not understood: " + cm[:80])
                else:
                    ctx.validated += 1
                    ccls, ctk, ctr = mc.group(1), int(mc.group(2)), int(mc.group(3))
                    if ccls != st[0] or ctr != travel:
                        ctx.mismatch(c, iraw, "cost-model " + cm)
                    if ctk > 32 * n + 80:
                        ctx.broken.append("cost model exceeds its proved bound on %s: %s" % (cid, cm))
                    worst = max(worst, ctk / max(n, 1)) if n >= 64 else worst
            # model: the position reached equals the implementation's travel on Complete
            mm = mres.model.get(cid)
            if mm is not None:
                ctx.validated += 1
                if Obs(mm).status != st:
                    ctx.mismatch(c, iraw, mm)
    ctx.notes.append("cost model: worst ticks per input byte over inputs >= 64 B: %.2f (proved bound: 32 per byte + 80)" % worst)
    time_scaling(ctx)


def time_scaling(ctx):
    """work that does not go through the cursor (re-validating or re-trimming a slice) is invisible to the
       counters: measure wall-clock scaling on the adversarial families.  Linear work gives a factor ~4 between
       n and 4n; the verdict needs a factor above 10 on inputs that take at least 2 ms (minimum of 5 runs)."""
    small, big = (32768, 131072) if ctx.quick else (65536, 262144)
    fams = {}
    for c in corpora.adversarial(ctx.seed, [small, big]):
        fam = c[1].split(".")[1]
        if c[1].endswith(".big"):
            continue
        fams.setdefault(fam, {})[len(c[6])] = c
    cases = [c for d in fams.values() for c in d.values()]
    # the runtime-detected backend hides the word-at-a-time scanners behind the SIMD ones (they only see the
    # last < 32 bytes of a buffer): time the build with SIMD disabled too
    # ... and the debug-assertions build: `debug_assert!`s and `cfg!(debug_assertions)` branches are code as well, and
    # work done there (a cross-check walking the rest of the buffer once per block) is in no release build
    need(ctx, ["dbg"])
    for variant in ("default", "nosimd", "dbg"):
        _time_variant(ctx, variant, fams, cases)


def _time_variant(ctx, variant, fams, cases):
    res = execute("C20-time", cases, variant=variant, mode="time", want_model=False, use_cache=False)
    t = {}
    timed_out = set()
    for cid, raw in res.impl.items():
        m = re.search(r"ns=(\d+)", raw)
        if m:
            t[cid] = int(m.group(1))
        elif "XTIMEOUT" in raw:
            timed_out.add(cid)
    # a case the watchdog had to stop is an observation (the call did not come back), not a machinery problem
    ctx.broken += [e for e in res.errors if not ("exited 124" in e and timed_out)]
    if timed_out:
        # the cases that shared a process with it were lost: run them again without it
        rest = [c for c in cases if c[1] not in t and c[1] not in timed_out]
        if rest:
            res2 = execute("C20-time-rest", rest, variant=variant, mode="time", want_model=False, use_cache=False)
            for cid, raw in res2.impl.items():
                m = re.search(r"ns=(\d+)", raw)
                if m:
                    t[cid] = int(m.group(1))
    for cid in sorted(timed_out):
        c = res.cases[cid]
        fam = cid.split(".")[1]
        small = [x for x in fams.get(fam, {}).values() if x[1] != cid and x[1] in t]
        ctx.evaluations += 1
        ctx.fail(c, "a %d-byte input of the %s family did not return within the harness watchdog's limit (harness variant %s)%s"
                 % (len(c[6]), fam, variant,
                    "".join("; the %d-byte input of the same family takes %.3f ms" % (len(x[6]), t[x[1]] / 1e6) for x in small)),
                 impl="XTIMEOUT")
    for fam, d in fams.items():
        sizes = sorted(d)
        if len(sizes) != 2:
            continue
        a, b = d[sizes[0]], d[sizes[1]]
        ta, tb = t.get(a[1]), t.get(b[1])
        if not ta or not tb:
            continue
        ctx.evaluations += 2
        ratio = tb / max(ta, 1)
        size_ratio = sizes[1] / max(sizes[0], 1)
        ctx.notes.append("time[%s] %s: %d B %.3f ms, %d B %.3f ms, ratio %.1f (size ratio %.1f)"
                         % (variant, fam, sizes[0], ta / 1e6, sizes[1], tb / 1e6, ratio, size_ratio))
        if tb >= 2_000_000 and ratio > 2.5 * size_ratio:
            ctx.fail(b, "time grows super-linearly on the %s family (harness variant %s): %.3f ms for %d bytes, %.3f ms "
                     "for %d bytes (ratio %.1f for a size ratio of %.1f)"
                     % (fam, variant, ta / 1e6, sizes[0], tb / 1e6, sizes[1], ratio, size_ratio),
                     impl="ns=%d" % tb)
