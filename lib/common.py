"""common.py -- paths, builds, sharded execution, caching, verdict plumbing."""
import concurrent.futures as cf
import fcntl
import hashlib
import json
import os
import re
import shutil
import subprocess
import sys
import time

VERIF = os.path.dirname(os.path.dirname(os.path.abspath(__file__)))
REPO = os.environ.get("VERIF_REPO", "/repo")
BUILD = os.path.join(VERIF, "_build")
COQ = os.path.join(VERIF, "coq")
NPROC = min(16, os.cpu_count() or 4)

sys.path.insert(0, os.path.join(VERIF, "gen"))

ENV_OFFLINE = {"CARGO_NET_OFFLINE": "true"}


def log(msg):
    print("[check] " + msg, flush=True)


def sh(cmd, cwd=None, env=None, timeout=None, stdin=None):
    e = dict(os.environ)
    e.update(ENV_OFFLINE)
    if env:
        e.update(env)
    p = subprocess.run(cmd, cwd=cwd, env=e, stdout=subprocess.PIPE, stderr=subprocess.STDOUT,
                       timeout=timeout, input=stdin, text=True, errors="replace")
    return p.returncode, p.stdout


class Lock:
    def __init__(self, name):
        os.makedirs(BUILD, exist_ok=True)
        self.path = os.path.join(BUILD, "." + name + ".lock")

    def __enter__(self):
        self.f = open(self.path, "w")
        fcntl.flock(self.f, fcntl.LOCK_EX)
        return self

    def __exit__(self, *a):
        fcntl.flock(self.f, fcntl.LOCK_UN)
        self.f.close()


def file_hash(paths):
    h = hashlib.sha1()
    for p in sorted(paths):
        h.update(p.encode())
        try:
            with open(p, "rb") as f:
                h.update(f.read())
        except OSError:
            h.update(b"<missing>")
    return h.hexdigest()


def tree_files(root, exts, skip=()):
    out = []
    for d, dn, fn in os.walk(root):
        dn[:] = [x for x in dn if x not in skip and not x.startswith(".")]
        for f in fn:
            if f.endswith(exts):
                out.append(os.path.join(d, f))
    return out


def repo_hash():
    fs = tree_files(os.path.join(REPO, "src"), (".rs",)) + [os.path.join(REPO, x) for x in ("build.rs", "Cargo.toml")]
    return file_hash(fs)


def verif_hash():
    fs = (tree_files(COQ, (".v",), skip=("Generated",)) + tree_files(os.path.join(VERIF, "driver"), (".ml",)) +
          tree_files(os.path.join(VERIF, "harness", "src"), (".rs",)) + tree_files(os.path.join(VERIF, "gen"), (".py",)) +
          tree_files(os.path.join(VERIF, "lib"), (".py",)) + tree_files(os.path.join(VERIF, "translator"), (".py",)))
    return file_hash(fs)


# ---------------------------------------------------------------- translation + Coq
def translate():
    """re-derive Generated/*.v from /repo's working tree; returns list of failure messages"""
    with Lock("coq"):
        rc, out = sh([sys.executable, os.path.join(VERIF, "translator", "rs2v.py"), REPO,
                      os.path.join(COQ, "Generated")])
    fails = [l[len("TRANSLATION-FAILURE "):] for l in out.splitlines() if l.startswith("TRANSLATION-FAILURE")]
    if rc not in (0, 2):
        fails.append("translator crashed: " + out[-400:])
    return fails


def coq_make(targets, timeout=3000):
    """make the given .vo targets; returns (ok, log)"""
    with Lock("coq"):
        if not os.path.exists(os.path.join(COQ, "Makefile")) or \
                os.path.getmtime(os.path.join(COQ, "_CoqProject")) > os.path.getmtime(os.path.join(COQ, "Makefile")):
            sh(["coq_makefile", "-f", "_CoqProject", "-o", "Makefile"], cwd=COQ)
        rc, out = sh(["make", "-j%d" % NPROC, "-k"] + targets, cwd=COQ, timeout=timeout)
    return rc == 0, out


def first_coq_error(out):
    """name the first file / theorem that no longer checks"""
    lines = out.splitlines()
    for i, l in enumerate(lines):
        if l.startswith("File ") and i + 1 < len(lines) and lines[i + 1].startswith("Error"):
            return (l + " " + " ".join(lines[i + 1:i + 4]))[:400]
    for l in lines:
        if "Error" in l:
            return l[:400]
    return out[-400:]


def build_driver():
    """extraction output -> _build/ocaml/driver ; keeps the last good binary on failure"""
    with Lock("ocaml"):
        src = [os.path.join(COQ, "model.ml"), os.path.join(COQ, "model.mli"), os.path.join(VERIF, "driver", "driver.ml")]
        if not all(os.path.exists(s) for s in src):
            return False, "extraction output missing"
        d = os.path.join(BUILD, "ocaml")
        os.makedirs(d, exist_ok=True)
        stamp = os.path.join(d, "stamp")
        h = file_hash(src)
        if os.path.exists(stamp) and open(stamp).read() == h and os.path.exists(os.path.join(d, "driver")):
            return True, "up to date"
        w = os.path.join(d, "work")
        shutil.rmtree(w, ignore_errors=True)
        os.makedirs(w)
        for s in src:
            shutil.copy(s, w)
        rc, out = sh(["ocamlfind", "ocamlopt", "-w", "-a", "-O3", "-o", "driver", "model.mli", "model.ml", "driver.ml"], cwd=w)
        if rc != 0:
            rc, out = sh(["ocamlfind", "ocamlopt", "-w", "-a", "-o", "driver", "model.mli", "model.ml", "driver.ml"], cwd=w)
        if rc != 0:
            return False, out[-600:]
        shutil.copy(os.path.join(w, "driver"), os.path.join(d, "driver"))
        open(stamp, "w").write(h)
        return True, "rebuilt"


def build_cdriver():
    """extracted cost model (C20) -> _build/ocaml/cdriver ; keeps the last good binary on failure"""
    with Lock("ocamlc"):
        src = [os.path.join(COQ, "cmodel.ml"), os.path.join(COQ, "cmodel.mli"), os.path.join(VERIF, "driver", "cdriver.ml")]
        if not all(os.path.exists(s) for s in src):
            return False, "extraction output missing"
        d = os.path.join(BUILD, "ocaml")
        os.makedirs(d, exist_ok=True)
        stamp = os.path.join(d, "cstamp")
        h = file_hash(src)
        if os.path.exists(stamp) and open(stamp).read() == h and os.path.exists(os.path.join(d, "cdriver")):
            return True, "up to date"
        w = os.path.join(d, "cwork")
        shutil.rmtree(w, ignore_errors=True)
        os.makedirs(w)
        for s_ in src:
            shutil.copy(s_, w)
        rc, out = sh(["ocamlfind", "ocamlopt", "-w", "-a", "-O3", "-o", "cdriver", "cmodel.mli", "cmodel.ml", "cdriver.ml"], cwd=w)
        if rc != 0:
            rc, out = sh(["ocamlfind", "ocamlopt", "-w", "-a", "-o", "cdriver", "cmodel.mli", "cmodel.ml", "cdriver.ml"], cwd=w)
        if rc != 0:
            return False, out[-600:]
        shutil.copy(os.path.join(w, "cdriver"), os.path.join(d, "cdriver"))
        open(stamp, "w").write(h)
        return True, "rebuilt"


CDRIVER = os.path.join(BUILD, "ocaml", "cdriver")

DRIVER = os.path.join(BUILD, "ocaml", "driver")

# ---------------------------------------------------------------- harness variants
VARIANTS = {
    # name: (rustflags extra, env, cargo args, profile)
    "default": ("", {}, [], "release"),
    "dbg": ("", {}, [], "dbg"),
    # release code generation (no debug assertions: `cfg!(debug_assertions)` branches are compiled out) but
    # with arithmetic overflow checks: an overflow the release build would silently wrap is a panic here
    "ovf": ("-C overflow-checks=on", {}, [], "release"),
    "sse42ct": ("-C target-feature=+sse4.2", {}, [], "release"),
    "avx2ct": ("-C target-feature=+avx2", {}, [], "release"),
    "nosimd": ("", {"CARGO_CFG_HTTPARSE_DISABLE_SIMD": "1"}, [], "release"),
    "rtonly": ("-C target-feature=+avx2", {"CARGO_CFG_HTTPARSE_DISABLE_SIMD_COMPILETIME": "1"}, [], "release"),
    "nostd": ("", {}, ["--no-default-features"], "release"),
    "sse42ct-dbg": ("-C target-feature=+sse4.2", {}, [], "dbg"),
    "avx2ct-dbg": ("-C target-feature=+avx2", {}, [], "dbg"),
    "nosimd-dbg": ("", {"CARGO_CFG_HTTPARSE_DISABLE_SIMD": "1"}, [], "dbg"),
    "nostd-dbg": ("", {}, ["--no-default-features"], "dbg"),
}


def harness_path(variant):
    prof = VARIANTS[variant][3]
    return os.path.join(BUILD, "cargo", variant, prof, "hv-harness")


def build_harness(variant):
    """cargo build of the harness against /repo's working tree, hooks on"""
    flags, env, args, prof = VARIANTS[variant]
    hdir = os.path.join(VERIF, "harness")
    with Lock("cargo-" + variant):
        lock = os.path.join(hdir, "Cargo.lock")
        if not os.path.exists(lock):
            with Lock("cargolock"):
                if not os.path.exists(lock):
                    shutil.copy(os.path.join(REPO, "Cargo.lock"), lock)
        e = {"RUSTFLAGS": ("--cfg httparse_verif " + flags).strip(),
             "CARGO_TARGET_DIR": os.path.join(BUILD, "cargo", variant)}
        e.update(env)
        cmd = ["cargo", "build", "--offline", "--profile", prof] + args
        rc, out = sh(cmd, cwd=hdir, env=e, timeout=1200)
    return rc == 0, out


def build_harnesses(variants):
    with cf.ThreadPoolExecutor(max_workers=min(len(variants), 6)) as ex:
        res = list(ex.map(build_harness, variants))
    return {v: r for v, r in zip(variants, res)}


# ---------------------------------------------------------------- sharded execution
def shard(lines, n):
    k = max(1, min(n, (len(lines) + 199) // 200))
    size = (len(lines) + k - 1) // k
    return [lines[i:i + size] for i in range(0, len(lines), size)] or [[]]


def run_sharded(tag, shards, commands, workdir):
    """shards: list of lists of case lines.  commands: list of (name, function(shard_path,
       paths of earlier outputs) -> argv).  Returns dict name -> (output lines, [(rc, stderr)])."""
    os.makedirs(workdir, exist_ok=True)
    paths = []
    for i, s in enumerate(shards):
        p = os.path.join(workdir, "%s.%d.cases" % (tag, i))
        with open(p, "w") as f:
            f.write("\n".join(s) + ("\n" if s else ""))
        paths.append(p)
    outs = {}

    def one(args):
        name, i, argv, pre = args
        outp = os.path.join(workdir, "%s.%d.%s" % (tag, i, name))
        with open(outp, "w") as f:
            p = subprocess.run(pre + argv, stdout=f, stderr=subprocess.PIPE, text=True, errors="replace")
        if p.returncode == 124 and "HV-TIMEOUT" in p.stderr:
            # the harness watchdog: one case did not return; record it as an observation of that case
            m = re.search(r"HV-TIMEOUT (\S+) (.*)", p.stderr)
            if m:
                with open(outp, "a") as f:
                    f.write("%s XTIMEOUT %s\n" % (m.group(1), m.group(2)))
        return name, i, outp, p.returncode, p.stderr[-300:]

    results = {}
    for name, mk in commands:
        jobs = []
        for i, p in enumerate(paths):
            argv = mk(p, {k: os.path.join(workdir, "%s.%d.%s" % (tag, i, k)) for k in results})
            pre = ["sh", "-c", 'ulimit -s unlimited 2>/dev/null; exec "$@"', "sh"] if name in ("model", "ref", "oracle", "cost") else []
            jobs.append((name, i, argv, pre))
        with cf.ThreadPoolExecutor(max_workers=NPROC) as ex:
            done = list(ex.map(one, jobs))
        lines_out = []
        status = []
        for (_, i, outp, rc, err) in sorted(done, key=lambda d: d[1]):
            with open(outp, errors="replace") as f:
                lines_out += f.read().splitlines()
            status.append((rc, err))
        results[name] = True
        outs[name] = (lines_out, status)
    return outs


def by_id(lines):
    d = {}
    for l in lines:
        i = l.find(" ")
        if i < 0:
            d[l] = ""
        else:
            d[l[:i]] = l[i + 1:]
    return d


# ---------------------------------------------------------------- evidence / verdict
def write_json(path, obj):
    os.makedirs(os.path.dirname(path), exist_ok=True)
    tmp = path + ".tmp"
    with open(tmp, "w") as f:
        json.dump(obj, f, indent=1, sort_keys=True)
    os.replace(tmp, path)


def load_known():
    p = os.path.join(VERIF, "known_findings.json")
    if not os.path.exists(p):
        return []
    return json.load(open(p)).get("findings", [])
