"""corpora.py -- named case corpora shared by the property checks."""
import gen
from gen import Rng, GRAM, START, HEADER_CONTEXTS, BOUNDARY, mutate, relevant_cfgs, exhaustive
from common import REPO

CAPS = [0, 1, 2, 3, 4, 8, 16]


def nlines(b):
    return b.count(b"\n")


def pick_cfg(r, kind, i):
    if kind == "h":
        return 0
    rel = relevant_cfgs(kind)
    if i % 7 == 6:
        return r.below(128)          # any of the 128 (other-kind bits must not matter)
    return rel[i % len(rel)] if i % 3 else 0


def pick_cap(r, b, i):
    k = max(0, nlines(b) - 2)
    return [k, k + 1, 16, CAPS[i % len(CAPS)], max(0, k - 1), 64][i % 6]


def pick_entry(kind, i):
    return 0 if kind in ("h", "c") else i % 4


def api(cid, kind, b, r, i, cfg=None, cap=None, entry=None):
    return ("A", cid, kind,
            pick_entry(kind, i) if entry is None else entry,
            pick_cfg(r, kind, i) if cfg is None else cfg,
            pick_cap(r, b, i) if cap is None else cap, b)


def guess_kinds(b):
    if b.startswith(b"HTTP/") or b.startswith(b"\r\nHTTP") or b.startswith(b"\nHTTP"):
        return ["p"]
    if b"HTTP/1." in b:
        return ["q"]
    return ["q", "p", "h"]


def fam_seed(seed, kinds, per=4):
    r = Rng(seed).fork("seed")
    out = []
    bufs = gen.seed_buffers(REPO)
    for j, b in enumerate(bufs):
        for kind in guess_kinds(b):
            if kind not in kinds:
                continue
            for i in range(per):
                out.append(api("seed.%d.%s.%d" % (j, kind, i), kind, b, r, j * per + i))
    return out


def fam_gram(seed, kinds, n, lenient=1, tag="gram"):
    r = Rng(seed).fork(tag)
    out = []
    for i in range(n):
        kind = kinds[i % len(kinds)]
        b = GRAM[kind](r, lenient=(lenient and i % 2))
        out.append(api("%s.%d" % (tag, i), kind, b, r, i))
    return out


def fam_mut(seed, kinds, n, tag="mut"):
    r = Rng(seed).fork(tag)
    out = []
    for i in range(n):
        kind = kinds[i % len(kinds)]
        b = mutate(r, GRAM[kind](r, lenient=i % 2, body=False))
        out.append(api("%s.%d" % (tag, i), kind, b, r, i))
    return out


SEEDMSG = {
    "q": [b"GET /index.html HTTP/1.1\r\nHost: a.b\r\nX-Y:  v w \r\n\r\n",
          b"POST /p?q=1 HTTP/1.0\nA:b\n\n"],
    "p": [b"HTTP/1.1 200 OK\r\nServer: x\r\nSet-Cookie: a=b; c\r\n\r\n",
          b"HTTP/1.0 404 Not Found\nA: b\n c\n\n"],
    "h": [b"Host: foo.bar\r\nAccept: */*\r\n\r\n"],
}


def fam_pos256(seed, kinds, paddings, stride=1, tag="pos"):
    """all 256 byte values at each position of the seed messages; with a padding sweep in
       front of the token containing the position so the byte falls in every SIMD lane"""
    r = Rng(seed).fork(tag)
    out = []
    n = 0
    for kind in kinds:
        for mi, msg in enumerate(SEEDMSG[kind]):
            for pos in range(0, len(msg), stride):
                for v in range(256):
                    b = msg[:pos] + bytes([v]) + msg[pos + 1:]
                    out.append(api("%s.%s%d.%d.%d" % (tag, kind, mi, pos, v), kind, b, r, n))
                    n += 1
    # lane sweep: a long target / value / name with the odd byte at each padding
    for pad in paddings:
        for v in BOUNDARY:
            t = b"a" * pad + bytes([v]) + b"bcd"
            out.append(api("%s.lane.q.%d.%d" % (tag, pad, v), "q", b"GET /" + t + b" HTTP/1.1\r\n\r\n", r, n, cfg=0))
            out.append(api("%s.lane.v.%d.%d" % (tag, pad, v), "h", b"N: " + t + b"\r\n\r\n", r, n + 1))
            out.append(api("%s.lane.n.%d.%d" % (tag, pad, v), "h", t + b": x\r\n\r\n", r, n + 2))
            out.append(api("%s.lane.r.%d.%d" % (tag, pad, v), "p", b"HTTP/1.1 200 " + t + b"\r\n\r\n", r, n + 3, cfg=0))
            n += 4
    return out


def fam_exh(seed, kind, alphabet, maxlen, cfgs, contexts=HEADER_CONTEXTS, tag="exh", cap=4, tail=b""):
    out = []
    i = 0
    for cname, ctx in contexts:
        for s in exhaustive(alphabet, maxlen):
            b = START[kind] + ctx + s + tail
            for cfg in cfgs:
                out.append(("A", "%s.%s.%s.%s.%d" % (tag, kind, cname, s.hex() or "e", cfg), kind,
                            0 if kind == "h" else 1, cfg, cap, b))
                i += 1
    return out


def fam_lengths(seed, maxlen, tag="len"):
    """names / values / targets / reasons of every length 0..maxlen"""
    r = Rng(seed).fork(tag)
    out = []
    for n in range(maxlen + 1):
        t = gen.rand_target(r, n)
        out.append(api("%s.t.%d" % (tag, n), "q", b"GET " + t + b" HTTP/1.1\r\n\r\n", r, n, cfg=0))
        nm = gen.rand_token(r, n)
        out.append(api("%s.n.%d" % (tag, n), "h", nm + b": v\r\n\r\n", r, n))
        v = gen.rand_value(r, n)
        out.append(api("%s.v.%d" % (tag, n), "h", b"N:" + v + b"\r\n\r\n", r, n))
        out.append(api("%s.r.%d" % (tag, n), "p", b"HTTP/1.1 200 " + v + b"\r\n\r\n", r, n, cfg=0))
        out.append(api("%s.r8.%d" % (tag, n), "p", b"HTTP/1.1 200 " + v + b"\r\n\r\n", r, n, cfg=8))
    return out


LONG_LENS = (33, 40, 64, 100, 127, 128, 129, 160, 200, 256, 257, 300)
LONG_BAD = (0x7f, 0x00, 0x1f, 0x08, 0x0b, 0xff)
BODY_PAD = b"0123456789abcdefghijklmnopqrstuvwxyzABCDEFGHIJKLMNOPQRSTUVWXYZ0123456789"


def fam_long(seed, kinds=("q", "p", "h"), tag="long"):
    """long targets / names / values / reasons (multi-block and unrolled scanner paths) with one
       out-of-class byte at block-boundary positions, followed by a body long enough to keep every
       SIMD path engaged"""
    r = Rng(seed).fork(tag)
    out = []
    i = 0
    for n in LONG_LENS:
        poss = sorted(set(p for p in (0, 1, 7, 8, 15, 16, 17, 31, 32, 33, 63, 64, 65, 95, 96, 127, 128, 129, 191, 192,
                                      255, 256, n - 2, n - 1, n // 2, r.below(n), r.below(n)) if 0 <= p < n))
        for pos in poss:
            for bad in LONG_BAD + (None,):
                def put(body):
                    b = bytearray(body)
                    if bad is not None:
                        b[pos] = bad
                    return bytes(b)
                if bad is None and pos != poss[0]:
                    continue
                tg = put(b"/" + bytes(97 + (k % 26) for k in range(n - 1)))
                nm = put(bytes(65 + (k % 26) for k in range(n)))
                vl = put(bytes(97 + (k % 26) if k % 9 else 9 for k in range(n)))
                cases = []
                if "q" in kinds:
                    cases.append(("q", b"GET " + tg + b" HTTP/1.1\r\nHost: a\r\n\r\n" + BODY_PAD))
                    cases.append(("q", b"GET / HTTP/1.1\r\nA: " + vl + b"\r\nB: c\r\n\r\n" + BODY_PAD))
                if "h" in kinds:
                    cases.append(("h", nm + b": v\r\nX-Y: z\r\n\r\n" + BODY_PAD))
                    cases.append(("h", b"N:" + vl + b"\r\n\r\n" + BODY_PAD))
                if "p" in kinds:
                    cases.append(("p", b"HTTP/1.1 200 " + vl + b"\r\nA: b\r\n\r\n" + BODY_PAD))
                    cases.append(("p", b"HTTP/1.0 404 NF\r\n" + nm + b":" + vl + b"\r\n\r\n" + BODY_PAD))
                for kind, b in cases:
                    out.append(api("%s.%d.%d.%s.%d" % (tag, n, pos, "ok" if bad is None else "%02x" % bad, i), kind, b, r, i,
                                   cfg=0 if i % 3 else None, cap=4))
                    i += 1
    return out


NAME_PUNCT = b"!\"#$%&'()*+,-./:;<=>?@[\\]^_`{|}~ \t"


def fam_name_pairs(seed, kinds=("q", "p", "h"), tag="npair"):
    """two adjacent punctuation bytes inside a header name (tchar / non-tchar neighbours), at the phases of the
       word-at-a-time name scanner, with enough input after them to keep every scanner path engaged"""
    r = Rng(seed).fork(tag)
    out = []
    i = 0
    for v1 in NAME_PUNCT:
        for v2 in NAME_PUNCT:
            pre = (1, 2, 6, 9)[i % 4]
            name = b"X" * pre + bytes([v1, v2]) + b"Forwarded-For-Long"
            tail = b": 10.0.0.1\r\nHost: a\r\n\r\n" + BODY_PAD
            if "q" in kinds and i % 3 == 0:
                out.append(api("%s.q.%02x%02x.%d" % (tag, v1, v2, pre), "q", b"GET / HTTP/1.1\r\n" + name + tail, r, i, cap=4))
            if "p" in kinds and i % 3 == 1:
                out.append(api("%s.p.%02x%02x.%d" % (tag, v1, v2, pre), "p", b"HTTP/1.1 200 OK\r\n" + name + tail, r, i, cap=4))
            if "h" in kinds and i % 3 == 2:
                out.append(api("%s.h.%02x%02x.%d" % (tag, v1, v2, pre), "h", name + tail, r, i, cap=4))
            i += 1
    return out


PAIR_ALPHA = bytes([0x00, 0x01, 0x08, 0x09, 0x0a, 0x0b, 0x0c, 0x0d, 0x1f, 0x20, 0x21, 0x22, 0x3a, 0x40, 0x5b, 0x60,
                    0x7b, 0x7e, 0x7f, 0x80, 0x9f, 0xa0, 0xc0, 0xff])


def fam_pairs(seed, kinds=("q", "p", "h"), quick=True, tag="pair"):
    """two adjacent boundary bytes inside a target / header value, at different phases of the
       word-at-a-time and SIMD blocks and with different amounts of input left after them"""
    r = Rng(seed).fork(tag)
    out = []
    i = 0
    pres = (0, 3, 6, 7) if quick else (0, 1, 2, 3, 4, 5, 6, 7)
    sufs = (2, 13, 40) if quick else (1, 2, 5, 13, 26, 40, 70)
    for v1 in PAIR_ALPHA:
        for v2 in PAIR_ALPHA:
            for pre in pres:
                suf = sufs[(i + pre) % len(sufs)]
                mid = b"v" * pre + bytes([v1, v2]) + b"w" * suf
                if "h" in kinds:
                    out.append(api("%s.h.%02x%02x.%d.%d" % (tag, v1, v2, pre, suf), "h", b"N: " + mid + b"\r\n\r\n", r, i, cap=2))
                if "q" in kinds and (i % 2 == 0 or not quick):
                    out.append(api("%s.q.%02x%02x.%d.%d" % (tag, v1, v2, pre, suf), "q",
                                   b"GET /" + mid + b" HTTP/1.1\r\n\r\n", r, i, cfg=0, cap=2))
                if "p" in kinds and (i % 2 == 1 or not quick):
                    out.append(api("%s.p.%02x%02x.%d.%d" % (tag, v1, v2, pre, suf), "p",
                                   b"HTTP/1.1 200 OK\r\nName: " + mid + b"\r\n\r\n", r, i, cap=2))
                i += 1
    return out


def padded(cases, stride=3, tag="pad"):
    """a sample of single-call cases with a body appended (the SIMD scanners only engage while at
       least 16 / 32 bytes remain, so a head that ends the buffer never reaches them)"""
    out = []
    for j, c in enumerate(cases):
        if c[0] == "A" and j % stride == 0:
            out.append((c[0], tag + "." + c[1]) + tuple(c[2:6]) + (c[6] + BODY_PAD,))
    return out


def lines_bases(seed, n, tag="lb"):
    """a sample of the line-template products as small bases for the prefix relations (C02, C11): every
       option set, capacities 0..2 so that the surplus header is one of the two lines"""
    r = Rng(seed).fork(tag)
    ls = [c for c in fam_lines(seed, ("q", "p", "h"), depth=2) if c[1].endswith(".0") or True]
    step = max(1, len(ls) // n)
    out = []
    for i, c in enumerate(ls[r.below(step)::step]):
        out.append(("A", "%s.%d.%s" % (tag, i, c[1]), c[2], c[3], c[4], i % 3, c[6]))
    return out


def fam_codes(tag="code"):
    out = []
    for c in range(1000):
        out.append(("A", "%s.%d" % (tag, c), "p", c % 4, 0, 2, b"HTTP/1.%d %03d OK\r\n\r\n" % (c % 2, c)))
    return out


def fam_chunk(seed, n, tag="chunk"):
    r = Rng(seed).fork(tag)
    out = []
    for i in range(n):
        out.append(("A", "%s.%d" % (tag, i), "c", 0, 0, 0, gen.gram_chunk(r)))
    for nd in range(0, 21):
        for pat in (b"0", b"f", b"F", b"9", b"a"):
            for eol in (b"\r\n", b"", b";x\r\n", b" \r\n"):
                out.append(("A", "%s.d%d.%s.%s" % (tag, nd, pat.decode(), eol.hex() or "e"), "c", 0, 0, 0, pat * nd + eol))
        if nd:
            for lead in (b"1", b"7", b"8"):
                for fill in (b"0", b"f"):
                    out.append(("A", "%s.b%d.%s%s" % (tag, nd, lead.decode(), fill.decode()), "c", 0, 0, 0,
                                lead + fill * (nd - 1) + b"\r\n"))
    # size lines FOLLOWED by chunk data (the usual situation); extensions of every length 0..40; very long digit runs
    body = b"Rust\r\n0\r\n\r\n"
    for c in list(out):
        if c[1].startswith(tag + ".") and c[1][len(tag) + 1:].isdigit() and int(c[1][len(tag) + 1:]) % 2 == 0:
            out.append(("A", c[1] + ".body", "c", 0, 0, 0, c[6] + body))
    for L in range(0, 41):
        for fillb in (b"x", b"\r"[:0] + b";"):
            ext = b"4;" + fillb * L + b"\r\n"
            out.append(("A", "%s.ext%d.%s" % (tag, L, fillb.hex()), "c", 0, 0, 0, ext))
            out.append(("A", "%s.ext%d.%s.body" % (tag, L, fillb.hex()), "c", 0, 0, 0, ext + body))
    for nd in (64, 255, 256, 257, 272, 300, 512, 515):
        for pat in (b"0", b"f"):
            out.append(("A", "%s.long%d.%s" % (tag, nd, pat.decode()), "c", 0, 0, 0, pat * nd + b"1\r\n"))
            out.append(("A", "%s.long%d.%s.p" % (tag, nd, pat.decode()), "c", 0, 0, 0, pat * nd))
    # all 256 byte values at every position of a few chunk-size lines (every grammatical position: first
    # digit, later digit, after whitespace, in the extension, after CR), followed by nothing / a line end
    for mi, msg in enumerate(CHUNK_SEEDMSG):
        for pos in range(len(msg) + 1):
            for v in range(256):
                out.append(("A", "%s.p%d.%d.%d" % (tag, mi, pos, v), "c", 0, 0, 0, msg[:pos] + bytes([v]) + msg[pos + 1:]))
                if pos < len(msg):
                    out.append(("A", "%s.i%d.%d.%d" % (tag, mi, pos, v), "c", 0, 0, 0, msg[:pos] + bytes([v]) + msg[pos:]))
    return out


CHUNK_SEEDMSG = (b"1a;x=y\r\n", b"F \t\r\n", b"0\r\n", b"9 ;q\r\n", b"5\r\nhello\r\n0\r\n\r\n", b"1c;sig=0123456789a\r\nxxxxxxxx")


CHUNK_ALPHABET = b"09afAFg; \t\r\n\x00x"


def fam_chunk_exh(maxlen, tag="cexh"):
    out = []
    for s in exhaustive(CHUNK_ALPHABET, maxlen):
        out.append(("A", "%s.%s" % (tag, s.hex() or "e"), "c", 0, 0, 0, s))
    return out


def prefixes(cases, maxlen=400, tag="pre"):
    """every prefix of every api case (ids: <base>#<k>)"""
    out = []
    for c in cases:
        if c[0] != "A":
            continue
        b = c[6]
        ks = range(len(b) + 1) if len(b) <= maxlen else sorted(set(list(range(0, 64)) + list(range(len(b) - 64, len(b) + 1))))
        for k in ks:
            out.append(("A", "%s#%d" % (c[1], k), c[2], c[3], c[4], c[5], b[:k]))
    return out


BAD_BYTES = (0x00, 0x01, 0x21, 0x58, 0x20, 0x7f, 0xff, 0x0d, 0x0a, 0x3a, 0x09)


def cut_after_bad(cases, maxpos=120, tag="bad"):
    """for every api case and position i: the buffer cut right after a replaced byte, b[:i] + [x], for the
       byte values of BAD_BYTES -- the states in which a wrong byte has just arrived (C11)"""
    out = []
    for c in cases:
        if c[0] != "A":
            continue
        b = c[6]
        for i in range(min(len(b), maxpos)):
            for x in BAD_BYTES:
                if b[i] != x:
                    out.append(("A", "%s!%d.%02x" % (c[1], i, x), c[2], c[3], c[4], c[5], b[:i] + bytes([x])))
    return out


BAD_BYTES2 = BAD_BYTES + (0x2f, 0x3b, 0x3f, 0x40, 0x5b, 0x60, 0x7b, 0x80)


def mutated_windows(cases, maxpos=48, win=4, values=BAD_BYTES2):
    """(mutated bases, their prefixes): every api case with one byte replaced at position i, and of that buffer
       only the prefixes ending 1..win bytes after the replaced byte plus the whole buffer (C02: is the verdict
       taken at the replaced byte the final one?)"""
    bases, pre = [], []
    for c in cases:
        if c[0] != "A":
            continue
        b = c[6]
        for i in range(min(len(b), maxpos)):
            for x in values:
                if b[i] == x:
                    continue
                w = b[:i] + bytes([x]) + b[i + 1:]
                nid = "%s~%d.%02x" % (c[1], i, x)
                bases.append(("A", nid, c[2], c[3], c[4], c[5], w))
                for k in sorted(set(list(range(i + 1, min(len(w), i + 1 + win) + 1)) + [len(w)])):
                    pre.append(("A", "%s#%d" % (nid, k), c[2], c[3], c[4], c[5], w[:k]))
    return bases, pre


PAIR_ALPHA = bytes([0, 1, 9, 10, 13, 32, 33, 47, 48, 57, 58, 65, 70, 71, 97, 102, 103, 126, 127, 128, 0xBA, 0xC3, 0xFE, 0xFF])
PAIR_MSGS = (("q", b"GET /a HTTP/1.1\r\nH: v\r\n\r\n"), ("p", b"HTTP/1.1 200 OK\r\nH: v\r\n\r\n"),
             ("p", b"HTTP/1.0 404\r\n\r\n"), ("c", b"1aF;x=y\r\nzz"), ("h", b"Ab: cd\r\n\r\n"))


def fam_pair256(tag="pair2"):
    """two ADJACENT bytes of a short message replaced by every pair of a 24-value alphabet, at every position of its
       first 20 bytes: word-at-a-time code (a 3- or 4-byte load with carries or borrows between the lanes) misbehaves
       on a combination of neighbours that no single replaced byte produces"""
    out = []
    for m, (kind, b) in enumerate(PAIR_MSGS):
        for i in range(min(len(b) - 1, 20)):
            for x in PAIR_ALPHA:
                for y in PAIR_ALPHA:
                    w = b[:i] + bytes([x, y]) + b[i + 2:]
                    cfg = 0 if kind in "ch" else (0, 0x7f)[(x + y) % 2]
                    out.append(("A", "%s.%d.%d.%02x%02x" % (tag, m, i, x, y), kind, 0 if kind in "ch" else 1, cfg, 2, w))
    return out


def adversarial(seed, sizes, tag="adv"):
    """long runs of folds, ignored lines, whitespace, HTAB near-misses, obs-text, one huge header"""
    out = []
    for n in sizes:
        fams = {
            "folds": (b"HTTP/1.1 200 OK\r\nA: b" + b"\r\n c" * (n // 4) + b"\r\n\r\n", "p", 2),
            "ignored": (b"HTTP/1.1 200 OK\r\n" + b"bad line\r\n" * (n // 10) + b"\r\n", "p", 32),
            "ignoredq": (b"GET / HTTP/1.1\r\n" + b"x y\n" * (n // 4) + b"\r\n", "q", 64),
            "spaces": (b"GET " + b" " * n + b"/ HTTP/1.1\r\n\r\n", "q", 4),
            "ows": (b"A:" + b" \t" * (n // 2) + b"v" + b" \t" * (n // 2) + b"\r\n\r\n", "h", 0),
            "htabs": (b"A: " + b"a\tb" * (n // 3) + b"\r\n\r\n", "h", 0),
            "htab8": (b"A: " + b"abcdefg\t" * (n // 8) + b"\r\n\r\n", "h", 0),
            "tabrun": (b"A: x" + b"\t" * n + b"y\r\n\r\n", "h", 0),
            "tabrunp": (b"HTTP/1.1 200 OK\r\nA: x" + b"\t" * n + b"y\r\n\r\n", "p", 0),
            "obs": (b"A: " + b"\xff" * n + b"\r\n\r\n", "h", 0),
            "name": (b"a" * n + b": v\r\n\r\n", "h", 0),
            "target": (b"GET /" + b"a" * n + b" HTTP/1.1\r\n\r\n", "q", 0),
            "many": (b"GET / HTTP/1.1\r\n" + b"A: b\r\n" * (n // 6) + b"\r\n", "q", 0),
            "wsfirst": (b"HTTP/1.1 200 OK\r\n" + b" \t" * (n // 2) + b"A: b\r\n\r\n", "p", 16),
            # indented lines that are dropped, before any header is stored (space-before-first + ignore-invalid)
            "indentjunk": (b"HTTP/1.1 200 OK\r\n" + b" @\r\n" * (n // 4) + b"A: b\r\n\r\n", "p", 16 | 32),
            "indentjunkq": (b"GET / HTTP/1.1\r\n" + b"\t@ x\n" * (n // 5) + b"\r\n", "q", 16 | 64),
            "indentjunkc": (b"HTTP/1.1 200 OK\r\nbad: line here\r\n" + b" x y\r\n" * (n // 6) + b"\r\n", "p", 16 | 32),
            "partial": (b"GET /" + b"a" * n, "q", 0),
            "emptylines": (b"\r\n" * (n // 2) + b"GET / HTTP/1.1\r\n\r\n", "q", 0),
            "reason": (b"HTTP/1.1 200 " + b"r \t" * (n // 3) + b"\r\n\r\n", "p", 0),
            "foldws": (b"HTTP/1.1 200 OK\r\nA:" + b"\r\n " * (n // 3) + b"\r\n\r\n", "p", 2),
            "foldblank": (b"HTTP/1.1 200 OK\r\nA: b" + b"\r\n " * (n // 3) + b"\r\n\r\n", "p", 2),
            "foldtabs": (b"HTTP/1.1 200 OK\r\nA: b" + b"\r\n\t \t" * (n // 5) + b"\r\nB: c\r\n\r\n", "p", 2),
            "trailws": (b"A: b" + b" \t" * (n // 2) + b"\r\n\r\n", "h", 0),
            # parse_chunk_size: long extensions, runs of ';', whitespace, with and without the final CR LF
            "chunkext": (b"1a;" + b"x" * n + b"\r\n", "c", 0),
            "chunksemi": (b"1" + b";" * n + b"\r\n", "c", 0),
            "chunksemiws": (b"1 " + b"; \t" * (n // 3) + b"\r\n", "c", 0),
            "chunkws": (b"1" + b" \t" * (n // 2) + b"\r\n", "c", 0),
            "chunkpart": (b"1;" + b";x" * (n // 2), "c", 0),
            # buffers that END inside a run (the parser is waiting for more input)
            "owspart": (b"A:" + b" \t" * (n // 2), "h", 0),
            "owspartq": (b"GET / HTTP/1.1\r\nHost:" + b" " * n, "q", 0),
            "foldpart": (b"HTTP/1.1 200 OK\r\nX:\r\n" + b" \t" * (n // 2), "p", 2),
            "namepart": (b"a" * n, "h", 0),
            "valuepart": (b"A: " + b"v" * n, "h", 0),
            "reasonpart": (b"HTTP/1.1 200 " + b"r " * (n // 2), "p", 0),
            "spacespart": (b"GET " + b" " * n, "q", 4),
        }
        for name, (b, kind, cfg) in fams.items():
            cap = 0 if name == "many" and n > 4096 else 8
            out.append(("A", "%s.%s.%d" % (tag, name, n), kind, 0 if kind in "hc" else 1, cfg, 0 if kind == "c" else cap, b))
            if name == "many":
                out.append(("A", "%s.%s.%d.big" % (tag, name, n), kind, 1, cfg, min(4000, n // 6 + 1), b))
            # the same input cut inside its long run (the call then answers Partial / Err): work done while
            # WAITING for more input must be linear too
            if "part" not in name:
                cutb = b[:len(b) * 3 // 4]
                out.append(("A", "%s.%scut.%d" % (tag, name, n), kind,
                            0 if kind in "hc" else 1, cfg, 0 if kind == "c" else cap, cutb))
    return out


# ---- F-lines: products of header-line templates (2 or 3 consecutive lines) under every header option set
LINE_TEMPLATES = [
    b"A: b", b"Name:value", b"N:", b"N: ", b"N:\t v \t", b"Long-Header-Name: some value here",
    b" A: b", b"\tA: b", b" ", b"\t ", b"  x", b" \tA:b",           # leading whitespace (fold / space-before-first)
    b"A : b", b"A\t: b", b"A  :b", b"A b", b"A \x01: b",            # whitespace / junk before the colon
    b": b", b"nocolon", b"@bad: v", b"A\x7f: b", b"A(: b",            # bad names
    b"A: b\x01c", b"A: \x7f", b"A: b\x00c", b"N\x00: v", b"\x00",    # control bytes, NUL
    b"A: b\rc", b"A\r: b", b"\rA: b",                                # CR not followed by LF
    b"A: \xff\x80", b"A: b ", b"A:  b\t\t",                          # obs-text, trailing whitespace
    b" \x01x", b"\t\x00", b"Bad Name: x\x00y", b"Bad Name: x\ry",       # a continuation / a dropped line that turns fatal later
]
EOLS = [b"\r\n", b"\n"]


def fam_lines(seed, kinds=("q", "p", "h"), depth=2, tag="lines", cfg_stride=1):
    out = []
    n = 0
    for kind in kinds:
        cfgs = relevant_cfgs(kind)[::cfg_stride] if kind != "h" else [0]
        hcfgs = sorted(set(c & ~(gen.CFG_MS_REQ | gen.CFG_MS_RESP) for c in cfgs))
        for i1, l1 in enumerate(LINE_TEMPLATES):
            for i2, l2 in enumerate(LINE_TEMPLATES):
                thirds = [None] if depth < 3 else [None] + list(range(0, len(LINE_TEMPLATES), 5))
                for i3 in thirds:
                    for e, eol in enumerate(EOLS):
                        body = l1 + eol + l2 + eol
                        if i3 is not None:
                            body += LINE_TEMPLATES[i3] + eol
                        for pre_i, pre in enumerate((b"", b"X-First: 1\r\n")):
                            for fin_i, fin in enumerate((eol, b"")):
                                b = START[kind] + pre + body + fin
                                for cfg in hcfgs:
                                    cap = (4, 1, 2, 0)[n % 4] if n % 5 == 0 else 4
                                    out.append(("A", "%s.%s.%d.%d.%s.%d%d%d.%d" % (tag, kind, i1, i2, i3, e, pre_i, fin_i, cfg),
                                                kind, 0 if kind == "h" else 1, cfg, cap, b))
                                    n += 1
    return out
