"""engine.py -- run corpora through implementation / model / reference / oracles, with caching."""
import hashlib
import os
import pickle
import shutil

import gen
from common import (BUILD, DRIVER, NPROC, by_id, harness_path, log, repo_hash, run_sharded, verif_hash)


class Obs:
    """one canonical observation line, parsed"""
    __slots__ = ("raw", "status", "f", "exposed", "array", "size", "start")

    def __init__(self, raw):
        self.start = None
        i = raw.find(" ;start=")
        if i >= 0:
            self.start = raw[i + 8:].strip()
            raw = raw[:i]
        self.raw = raw
        self.size = None
        parts = raw.split("|")
        head = parts[0].split()
        self.status = head[0] if head else "?"
        if len(parts) == 3:
            self.f = head[1:4]
            self.exposed = parts[1].split()
            self.array = parts[2].split()
        else:
            self.f = []
            self.exposed = []
            self.array = []
            for t in head[1:]:
                if t.startswith("size="):
                    self.size = t[5:]

    @property
    def kindclass(self):
        s = self.status
        return s[0] if s and s[0] in "CPEXF" else "?"


def cache_key(tag, variant, force, mode, model_be, caselines):
    h = hashlib.sha1()
    for x in (repo_hash(), verif_hash(), tag, variant, str(force), mode, str(model_be)):
        h.update(x.encode())
        h.update(b"|")
    for l in caselines:
        h.update(l.encode())
        h.update(b"\n")
    return h.hexdigest()


class Result:
    def __init__(self):
        self.cases = {}      # id -> case tuple
        self.impl = {}       # id -> line (without id)
        self.model = {}
        self.ref = {}
        self.oracle = {}
        self.cost = {}       # id -> cost-model line (C20)
        self.errors = []     # process-level failures


def execute(tag, cases, variant="default", force=None, mode="run", model_be="rt1", W=8,
            want_model=True, want_ref=False, want_oracle=False, use_cache=True, want_cost=False):
    """Runs `cases` (list of case tuples).  force: backend id to force through the C13 hook
       (None = leave runtime detection alone)."""
    lines = [gen.line(c) for c in cases]
    pre = []
    if force is not None:
        pre = ["B\tforce\t%d" % force]
    key = cache_key(tag, variant, force, mode, (model_be, W, want_model, want_ref, want_oracle, want_cost), lines)
    cdir = os.path.join(BUILD, "cache")
    os.makedirs(cdir, exist_ok=True)
    cpath = os.path.join(cdir, key + ".pkl")
    res = Result()
    res.cases = {c[1]: c for c in cases}
    if use_cache and os.path.exists(cpath):
        try:
            with open(cpath, "rb") as f:
                d = pickle.load(f)
            res.impl, res.model, res.ref, res.oracle, res.errors = d[:5]
            res.cost = d[5] if len(d) > 5 else {}
            return res
        except Exception:
            pass
    work = os.path.join(BUILD, "work", key[:16])
    shutil.rmtree(work, ignore_errors=True)
    hp = harness_path(variant)
    cmds = [("impl", lambda p, prev: [hp, mode, p])]
    if want_model and os.path.exists(DRIVER):
        cmds.append(("model", lambda p, prev: [DRIVER, "model", model_be, str(W), p]))
    if want_ref and os.path.exists(DRIVER):
        cmds.append(("ref", lambda p, prev: [DRIVER, "ref", p]))
    if want_oracle and os.path.exists(DRIVER):
        cmds.append(("oracle", lambda p, prev: [DRIVER, "oracle", p, prev["impl"]]))
    if want_cost:
        from common import CDRIVER
        if os.path.exists(CDRIVER):
            cmds.append(("cost", lambda p, prev: [CDRIVER, model_be, str(W), p]))
    # the forced-backend line must lead every shard
    from common import shard
    shards = [pre + s for s in shard(lines, NPROC)]
    try:
        outs = run_sharded(tag, shards, cmds, work)
    except BaseException:
        # an interrupted run (timeout, out of memory, ^C) must not leave gigabytes of case files behind
        shutil.rmtree(work, ignore_errors=True)
        raise
    for name, (ol, status) in outs.items():
        d = by_id(ol)
        d.pop("force", None)
        setattr(res, name, d)
        for rc, err in status:
            if rc != 0:
                res.errors.append("%s exited %d: %s" % (name, rc, err))
    shutil.rmtree(work, ignore_errors=True)
    if use_cache and not res.errors:
        with open(cpath, "wb") as f:
            pickle.dump((res.impl, res.model, res.ref, res.oracle, res.errors, getattr(res, 'cost', {})), f)
    return res
