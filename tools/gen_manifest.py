#!/usr/bin/env python3
"""gen_manifest.py -- writes /verif/MANIFEST.json from the table below (one entry per property)."""
import json
import os
import re

V = os.path.dirname(os.path.dirname(os.path.abspath(__file__)))

COMMON_NOTE = ("trusted: Coq 8.16.1 kernel (vm_compute, no native_compute, no axioms: every theorem prints "
               "'Closed under the global context'); the translator (translator/rs2v.py, rsparse.py, lib2v.py: Rust-subset parser, "
               "macro_rules expander, statement-level translation of lib.rs into the monad of Imp.v, overflow guards per inferred "
               "integer width, pinned token texts of wrappers / drop guard / swar.rs loop shells) + Intrinsics.v for the translated "
               "tables/kernels; the hand-written glue ImpLib.v / ImpGlue.v (next_opt, from_utf8, rposition, slice prefix, the "
               "in/out header-slice parameter with its drop guard); Cursor.v (iter.rs) and the scanner loop shells of Scan.v are "
               "hand-written and tied by the correspondence check (differential testing, bounds in the evidence); extraction via "
               "ExtrOcamlBasic only; OCaml driver; Rust harness; core::str::from_utf8 modelled by utf8_valid. See DESIGN.md section 10.")

SRC_TIE = {
    "C01": "request/response/parse_headers/chunk", "C02": "request/response/parse_headers/chunk",
    "C03": "request/response/parse_headers/chunk", "C11": "request/response/parse_headers/chunk",
    "C04": "request/response", "C05": "request/response", "C06": "request", "C07": "response",
    "C08": "request/response/parse_headers", "C09": "chunk", "C10": "request/response", "C13": "request/response",
    "C14": "request/response", "C15": "request/response", "C16": "request/response/parse_headers",
    "C17": "request/response", "C18": "request/response",
}
SRC_TEXT = (" Tie to the source: theorem source_tie (same file) -- the %s entry points built on the functions TRANSLATED from "
            "/repo/src/lib.rs + macros.rs on this run (Generated/Lib.v, LibApi.v; macros expanded from their definitions; one "
            "overflow/underflow/index guard per arithmetic or slicing operation) compute exactly what the model computes "
            "(Proofs/Tie*.v, Src*.v), for every environment whose scanners only move forward (all concrete backends: "
            "BackendsFwd.v); so the theorems hold of the translated source, and a change to lib.rs that alters behaviour breaks "
            "the tie proof (or the translation) as well as the correspondence.")

P = {
    "C01": ("proof",
            "Theorems (Thm/C01.v, for every environment satisfying EnvOk, every entry point, config, capacity, buffer): the model "
            "never reaches a Fault -- no out-of-bounds advance/slice_skip/peek_ahead/SIMD load, no out-of-fuel (termination), no "
            "arithmetic overflow in chunk sizes -- Complete(n) has n <= len, the header array keeps its length. address_level_request/"
            "response/headers/chunk + address_level_never_faults: the ADDRESS-LEVEL program of each entry point (Bytes::new and every "
            "Bytes method as translated from iter.rs over checked pointer steps, the entry point and its callees as translated from "
            "lib.rs, the scanner loop shells as translated from simd/*.rs, composed by Proofs/Lift.v with a soundness proof) yields "
            "exactly the model's result at every base address, so no checked pointer step of a whole parse leaves the buffer. "
            "PARTIAL: the loads the binary really issues are validated by guard-page + debug-assertion runs of the correspondence "
            "check (all backends, both placements), not by the theorem.",
            "Coq proof (refinement to reference parsers => no Fault) + guard-page differential correspondence"),
    "C03": ("proof",
            "Theorems request/response/headers_complete_framed, *_partial_unterminated, chunk_complete_framed, chunk_partial_unterminated "
            "(Thm/C03.v): on Complete(n) the buffer is (start line ending in LF) ++ body ++ (CRLF|LF) ++ rest with n just past that empty line, "
            "no LF in LF::body is directly followed by an empty line (so it is the first one), the empty line stands at a line start unless "
            "allow_space_before_first_header_name is on, and n <= len; on Partial either the start line is unfinished or no empty line follows it; "
            "chunk sizes: n is just past the first CR LF, Partial means no CR LF. For every backend, entry point, config, capacity, buffer.",
            "Coq proof (segment invariant over the reference header grammar + refinement), + extracted linear-scan oracle on the implementation"),
    "C05": ("proof",
            "Theorems request_hygiene, response_hygiene, head_clean_request/response/headers, strs_are_utf8, value_shape_spelled, folds_in_values, fold_clause_spelled (Thm/C05.v): "
            "method/name tokens non-empty tchar, target non-empty uri-char and valid UTF-8, version 0/1, code < 1000, reason ASCII reason-chars or "
            "the empty fallback, values class-clean and trimmed at both ends, consumed head free of NUL and of CR not followed by LF. PARTIAL: for "
            "folded values the clause 'CRLF/LF only directly before SP/HTAB' is carried by the extracted oracle check_C05 + correspondence, not by a theorem.",
            "Coq proof (class lemmas per reference stage + generic segment pass), + extracted oracle on the implementation"),
    "C11": ("proof",
            "Theorems request/response/headers/chunk_partial_completable, response_never_token, early_error_request/response (Thm/C11.v): "
            "whenever the model answers Partial there is an explicit continuation on which the same call answers Complete, or hits one of the two "
            "deferred checks -- TooManyHeaders, or (requests only) Token with the buffer ending in a request-target run that is not valid UTF-8. "
            "For every backend, entry point, config, capacity, buffer. The UTF-8 exception is stated on the bytes received so far (a target that "
            "ends inside a multi-byte sequence counts as deferred).",
            "Coq proof (constructive completion per grammar stage + stability under append + refinement), + finite-completion-set runs on the implementation"),
    "C19": ("proof",
            "Theorems crate_names_closed, every_file_closed, std_only_in_runtime, no_allocating_name_anywhere, std_gated_items_are_the_error_impl "
            "(Thm/C19.v, over Generated/Names.v regenerated from /repo each run): #![no_std] without feature std, no extern crate, every path / "
            "import / macro / method resolves into core or the crate, std:: only in simd/runtime.rs as std::sync::atomic + is_x86_feature_detected!, "
            "the only std-gated item is impl std::error::Error, no allocating std-prelude name anywhere. PARTIAL: the step from this name closure "
            "to 'no heap allocation for any input' trusts rustc's name resolution and that core has no allocator; that step is exercised, not "
            "proved, by the counting allocator around every call (both feature sets) and by the 16 no_std switch-combination builds.",
            "Coq proof (vm_compute over the translated name table) + counting-allocator differential runs + no_std builds"),
    "C20": ("proof",
            "Theorems request/response/headers/chunk_work_linear, request_travel_exact, set_cursor_never_called, cost_model_runs_the_model_* (Thm/C20.v) about the COST MODEL: "
            "textual copies (regenerated each run) of Scan.v/Model.v/Backends.v and the translated loop shells compiled against a cursor with work "
            "counters (CursorC.v), sequenced as in lib.rs (CostTop.v). For every backend (any word width), config, capacity, buffer and outcome: "
            "ticks <= 32*len + 80 (potential method; the backward trim of each value is paid by the bytes of that value), travel <= len, "
            "travel + unread = len on completion; set_cursor is never called (translated name table). "
            "cost_model_runs_the_model_request/response/headers/chunk (Proofs/Erase.v): with the two counters forgotten, every stage function, "
            "every scanner loop of every backend and the call sequences of the cost model compute exactly what Scan.v / Model.v / Backends.v / "
            "Api.v compute (same outcome class and error kind), so the bounds hold of the executions of the model (and, by source_tie, of the "
            "translated source). PARTIAL: which operation costs a tick is a modelling choice; the counters are tied to the crate by correspondence "
            "(outcome class and cursor travel of the extracted cost model = the cfg(httparse_verif) counters, 3 forced backends); "
            "time is measured (wall-clock scaling on adversarial families, runtime-AVX2 and SIMD-disabled builds), not proved.",
            "Coq proof over a cost-instrumented copy of the model (proved to erase to the model) + counter correspondence + wall-clock scaling"),
    "C06": ("proof",
            "Theorem request_ref_eq / request_entries_ref_eq (Thm/C06.v): the model of all four request entry points equals the span-level "
            "reference grammar ref_request for every backend satisfying EnvOk, config, capacity and buffer (unbounded). Tie: model vs crate "
            "on request lines incl. 256 byte values per position, all target lengths, exhaustive start-line alphabets.",
            "Coq proof: model = reference parser (refinement), + correspondence"),
    "C07": ("proof",
            "Theorem response_ref_eq / response_entries_ref_eq (Thm/C07.v): model of the response entry points = reference grammar "
            "ref_response (version, SP, code value, reason, empty-string fallback for obs-text, multi-space option).",
            "Coq proof: model = reference parser (refinement), + correspondence"),
    "C08": ("proof",
            "Theorem headers_default_ref_eq / headers_ref_eq (Thm/C08.v): the header machine (parse_headers and the header part of "
            "requests/responses) equals the line-level reference parser; one header per line, in order, trimmed value.",
            "Coq proof: model = reference parser (refinement), + correspondence"),
    "C09": ("proof",
            "Theorems chunk_ref_eq, chunk_value_exact, chunk_no_fault, chunk_profile_independent (Thm/C09.v): parse_chunk_size's model "
            "(checked multiply-add, debug-only guard as a parameter) equals the reference grammar 1*16HEXDIG *WSP [;ext] CRLF on every buffer; "
            "size < 2^64 exactly the digit value; the defect found at design time is fixed (known_findings.json).",
            "Coq proof: model = reference grammar, + correspondence in release and debug profiles"),
    "C12": ("proof",
            "Theorems tables_are_classes, swar_*_kernel, simd_kernels, scanner_exact (Thm/C12.v) over the kernels and tables TRANSLATED from "
            "/repo on every run: every backend (SWAR any word width, SSE4.2, AVX2, NEON, runtime dispatch) leaves the cursor at exactly the "
            "first out-of-class byte for every buffer; loop_shells_as_translated and swar_helpers_as_translated: the scanner loop shells and the "
            "helpers match_tail / match_block / offsetnz, translated statement by statement, are the functions those theorems speak about. PARTIAL: NEON is tied by translation only (not executable on this host).",
            "Coq proof over translated kernels (256-sweeps lifted by induction; borrow-chain lemma), + native exhaustive sweeps"),
    "C13": ("proof",
            "Theorems backend_independent, profile_independent, cfg_exactly_one_provider (all 64 cfg environments, translated lattice), "
            "build_script_table, runtime_cell_safe and runtime_cell_as_translated (get_runtime_feature TRANSLATED into an instruction language; an "
            "abstract interpreter proved sound for every program of it: any number of threads, every interleaving, per-location coherence) (Thm/C13.v). PARTIAL: "
            "hardware memory model / feature detection / codegen are modelled; alignment-freedom is enforced by the translator.",
            "Coq proof (refinement corollary; finite lattice by vm_compute; invariant over traces), + 7 build variants x corpus digest, races"),
    "C14": ("proof",
            "Theorems headers_cfg_ref_eq, request_cfg_ref_eq, response_cfg_ref_eq, ignored_line_nul_cr (Thm/C14.v): under all 16 header-option "
            "sets the header machine equals the reference parser parameterised by the same options.",
            "Coq proof: model = reference parser for all option sets, + correspondence on line-template products"),
    "C02": ("proof",
            "Theorems request/response/headers/chunk_stable, prefix_not_final, partial_fields_final, chunking_irrelevant (Thm/C02.v): "
            "if the model returns Complete or Err on buf, it returns the identical result (status, fields, exposed headers, array) on "
            "buf ++ ext for every ext; fields reported with Partial are final; any chunking of a stream reaches the same answer.",
            "Coq proof (stability of the reference parsers under append, transported by the refinement), + all-prefix differential runs"),
    "C04": ("proof",
            "Theorems request/response/header_slices_in_order, chain_zero_copy, model_request_slices (Thm/C04.v): every slice is a sub-slice "
            "of the buffer with the buffer's bytes, inside buf[..n] on Complete(n), and method, path/reason, name, value ... form a "
            "non-overlapping increasing chain. Static half: public_lifetimes_as_reviewed -- the public signatures that carry a lifetime, translated "
            "from /repo each run, are exactly the reviewed list (buffer, Header elements and fields share one lifetime). PARTIAL: from those signatures "
            "to 'no safe client can keep a field after its buffer' is rustc's borrow checker (trusted), exercised by a compile-fail client corpus.",
            "Coq proof (chain invariant over the reference parsers + refinement; signature table by vm_compute), + pointer-range differential runs + compile-fail client corpus"),
    "C10": ("proof",
            "Theorems error_kind_eq, request_line/status_line/header_line_error_kinds, stage_error_kinds, too_many_iff (Thm/C10.v): the model "
            "reports the reference's classification; each reference stage raises only the kind of its own element; TooManyHeaders iff the "
            "(cap+1)-th header line completes.",
            "Coq proof (refinement + per-stage error-kind lemmas + capacity law), + correspondence on 256-value sweeps"),
    "C15": ("proof",
            "Theorems request_options_conservative, response_options_conservative (with the stated reason-stripping exception made precise), "
            "request_ignores_response_options, response_ignores_request_options (Thm/C15.v).",
            "Coq proof over the reference parsers + refinement, + 128-config metamorphic runs through both configured entry points"),
    "C16": ("proof",
            "Theorems request/response_entries_agree, parse_headers_agrees (position independence of the header reference), "
            "request/response_header_part (Thm/C16.v); with_config_wrappers_as_translated: the two parse_with_config wrappers "
            "(mem::take of self.headers, the pointer casts, the core call with its Result as a value, the restore in the "
            "non-Complete arm) are translated from lib.rs on every run and proved equal to the model the entry-point theorems use; "
            "delegations_as_translated: the seven one-expression delegations (parse, parse_with_uninit_headers, ParserConfig::parse_*) "
            "are translated too and hand buffer, array and the caller's configuration on unchanged.",
            "Coq proof (refinement corollaries + shift lemma), + pairwise entry-point differential runs"),
    "C17": ("proof",
            "Theorems complete_count, capacity_law, non_complete_restores (Thm/C17.v): exposed headers = the reference's list = the first k "
            "slots, slots beyond k untouched; outcome with capacity cap = outcome with any larger capacity unless more than cap headers "
            "complete (then TooManyHeaders); after Partial/Err the initialised entry points expose the whole array, the uninit ones leave "
            "`headers` untouched.",
            "Coq proof (refinement corollaries + capacity law by induction), + sentinel/poison array differential runs"),
    "C18": ("proof",
            "Theorems request/response_history_independent, reuse_equals_fresh (Thm/C18.v): status, and the whole value on Complete, are "
            "functions of (entry, config, buffer, capacity) for any prior value -- hence for any history of calls.",
            "Coq proof (corollary of the refinement theorems), + history-vs-fresh and recycled-buffer differential runs"),
}

DEFAULT = ("exploration",
           "Theorems for this property are still being added (see DESIGN.md section 7); until Thm/{id}.v exists the check decides by "
           "differential correspondence between the executable Coq model (extracted) and the real crate, plus extracted oracles / reference "
           "parsers / metamorphic relations run on the implementation.",
           "Coq model + correspondence (differential) + extracted oracles; theorems pending")


def main():
    props = [json.loads(l) for l in open(os.path.join(V, "properties.jsonl"))]
    checks = []
    for p in props:
        pid = p["id"]
        cat, text, tech = P.get(pid, DEFAULT)
        has_thm = os.path.exists(os.path.join(V, "coq", "Thm", pid + ".v"))
        if cat == "proof" and not has_thm:
            cat, text, tech = DEFAULT
        elif pid in SRC_TIE:
            text = text + SRC_TEXT % SRC_TIE[pid]
            tech = tech + "; model tied to lib.rs by translation + equality proofs"
        checks.append({
            "property_id": pid,
            "quick_cmd": "./check %s --tier quick" % pid,
            "thorough_cmd": "./check %s --tier thorough" % pid,
            "evidence_file": "/verif/evidence/%s.json" % pid,
            "replay_cmd_template": "./check %s --replay {path}" % pid,
            "engine": "coq-model",
            "level_claimed": {"category": cat, "text": text.replace("{id}", pid),
                              "design_ref": "DESIGN.md section 7 (%s)" % pid},
            "level_note": COMMON_NOTE,
            "technique": tech,
        })
    m = {
        "version": 1,
        "setup_cmd": "./setup.sh",
        "hooks": {
            "guard": "httparse_verif",
            "enable": "RUSTFLAGS=\"--cfg httparse_verif\" (the harness builds /repo as a path dependency with this flag)",
            "baseline_off_cmd": "cd /repo && cargo test --workspace --no-fail-fast --offline",
            "source_commits": ["5085abe", "fc9af69", "81127dd", "72ba467"],
            "add_only": True,
        },
        "engines": [{"name": "coq-model", "path": "/verif/coq", "serves_properties": [p["id"] for p in props],
                     "kind_free_text": "Rocq/Coq 8.16.1 development: code-shaped model, reference parsers, theorems; lib.rs control flow, "
                                       "macros, class tables, SIMD/SWAR kernels, cfg lattice, names and signatures re-translated from "
                                       "/repo on every run and proved equal to / consistent with the model; correspondence check "
                                       "(extracted model vs real crate) on every run"}],
        "checks": checks,
        "not_applicable": [],
        "notes": "fix commit in /repo: ae98cb4 (C09 zero-digit chunk-size line); see known_findings.json",
    }
    json.dump(m, open(os.path.join(V, "MANIFEST.json"), "w"), indent=1)
    print("MANIFEST.json written:", sum(1 for c in checks if c["level_claimed"]["category"] == "proof"), "proof-level checks")


if __name__ == "__main__":
    main()
