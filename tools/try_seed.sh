#!/bin/sh
# try_seed.sh <patch> <prop>... : apply to /repo, run the quick checks, undo
P=$1; shift
git -C /repo apply "$P" || exit 2
for p in "$@"; do /verif/check $p 2>&1 | grep -E "^\[check\] C|VIOLATION|KNOWN" | cut -c1-260; done
git -C /repo checkout -- . ; git -C /repo status --short
