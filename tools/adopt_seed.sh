#!/bin/sh
# adopt_seed.sh <prop> <suffix> <checks...>: confirm the sub-agent's change in its scratch worktree /tmp/s2-<prop>,
# copy it to seeded/<prop>-<suffix>/, run the given checks against it, remove the worktree.
P=$1; S=$2; shift; shift
W=/tmp/s2-$P; O=/tmp/s2-$P-out; D=/verif/seeded/$P-$S
git -C $W diff > $O/patch.diff
/verif/tools/confirm_seed.sh $W $O 2>&1 | grep -E "^==|test result|error" | tr '\n' ' '; echo
mkdir -p $D; cp $O/patch.diff $O/notes.md $D/ 2>/dev/null; cp $O/demo*.rs $D/ 2>/dev/null
/verif/tools/try_seed.sh $D/patch.diff "$@"
git -C /repo worktree remove --force $W; rm -rf $O
