#!/bin/sh
# confirm_seed.sh <worktree> <outdir>: (1) suite passes with the change, (2) demo fails with it,
# (3) demo passes without it.  Build output goes to <worktree>/target and is removed afterwards.
W=$1; O=$2
export CARGO_TARGET_DIR=$W/target CARGO_NET_OFFLINE=true
cd $W || exit 2
echo "== suite with change"; cargo test --offline 2>&1 | grep -E "^test result|warning: unused|error" 
cp $O/demo.rs $W/tests/zz_demo.rs
echo "== demo with change (expect failures)"; cargo test --offline --test zz_demo 2>&1 | grep -E "^test result|^error" 
git stash -q -- src
echo "== demo without change (expect ok)"; cargo test --offline --test zz_demo 2>&1 | grep -E "^test result|^error"
git stash pop -q
rm -f $W/tests/zz_demo.rs; rm -rf $W/target
git status --short
