#!/bin/sh
# [TIER=thorough] [PROPS="01 09"] sweep.sh <seed>... -- run inside a `vp run --with-repo` snapshot: every quick check on the unchanged tree under each
# VERIF_SEED given; prints one line per check, "ALARM" lines for anything that is not quiet.
R=${VP_RUN_REPO:?needs vp run --with-repo}
sed -i "s#path = \"/repo\"#path = \"$R\"#" harness/Cargo.toml harness/cfail/Cargo.toml harness/probe/Cargo.toml
cp /repo/Cargo.lock $R/ 2>/dev/null
export VERIF_REPO=$R CARGO_NET_OFFLINE=true
./setup.sh > sweep-setup.log 2>&1
tail -1 sweep-setup.log
for seed in "$@"; do
  for p in ${PROPS:-01 02 03 04 05 06 07 08 09 10 11 12 13 14 15 16 17 18 19 20}; do
    out=$(VERIF_SEED=$seed ./check C$p --tier ${TIER:-quick} 2>&1 | grep -E "^\[check\] C|VIOLATION|KNOWN|problem" | cut -c1-260)
    echo "seed=$seed $out"
    echo "$out" | grep -q "VIOLATION\|problem" && echo "ALARM seed=$seed C$p"
  done
done
echo "=== sweep done"
