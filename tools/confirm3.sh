#!/bin/sh
# confirm3.sh <prop> [cargo-test-flags]: round-3 confirmation in the agent's scratch worktree /tmp/s3-<prop>:
# (1) suite passes with the change, (2) demo fails with it, (3) demo passes without it.
P=$1; shift; FLAGS="$@"
R=${ROUND:-s3}; W=/tmp/$R-$P; O=/tmp/$R-$P-out
export CARGO_TARGET_DIR=$W/target CARGO_NET_OFFLINE=true
cd $W || exit 2
rm -f tests/zz_demo.rs
git add -N . 2>/dev/null
git diff > $O/patch.diff
echo "== $P patch: $(grep -c '^[-+][^-+]' $O/patch.diff) changed lines in $(git diff --name-only | tr '\n' ' ')"
echo "== suite with change"; cargo test --offline 2>&1 | grep -E "^test result|^error|warning: unused" 
cp $O/demo.rs $W/tests/zz_demo.rs
echo "== demo with change $FLAGS (expect failures)"; cargo test --offline $FLAGS --test zz_demo 2>&1 | grep -E "^test result|^error" 
git apply -R $O/patch.diff   # (not `git stash`: the stash is shared by all worktrees of one repository)
cp $O/demo.rs $W/tests/zz_demo.rs
echo "== demo without change $FLAGS (expect ok)"; cargo test --offline $FLAGS --test zz_demo 2>&1 | grep -E "^test result|^error"
rm -f $W/tests/zz_demo.rs
git apply $O/patch.diff
rm -rf $W/target
git status --short | head -5
