#!/usr/bin/env python3
"""seedprompt.py <round> <json-file>: write /tmp/s<round>-<pid>-prompt.txt for each property in the json file
({pid: {"avoid": [...], "hint": "..."}}).  The prompt holds the property text, the scratch worktree path and the
rules of the exercise -- nothing else from /verif."""
import json, sys
rnd, spec = sys.argv[1], json.load(open(sys.argv[2]))
props = {}
for l in open('/verif/properties.jsonl'):
    p = json.loads(l); props[p['id']] = p
TMPL = """You are helping evaluate a verification setup for the Rust crate `httparse` (an HTTP/1.x push parser). Your job is to act as a realistic *bug seeder*: make ONE plausible source change that breaks a stated semantic property of the crate, while the crate still compiles and its existing test suite still passes. The change should look like something a maintainer might really commit (a refactor, micro-optimisation, clean-up, feature tweak or "simplification") that goes subtly wrong - not an obviously malicious or gratuitous edit - and the breakage should need something specific to manifest (a particular input shape, option combination, capacity, alignment, build profile, CPU feature, call history...), so that the crate's own tests do not notice.

THE PROPERTY ({pid}: {title}):
{statement}

YOUR WORKSPACE: a private scratch git worktree of the crate at /tmp/s{rnd}-{pid} (work ONLY there; never touch /repo or /verif, never read anything under /verif). Put your deliverables in /tmp/s{rnd}-{pid}-out/. The sandbox is offline: always run cargo with `--offline` and `CARGO_TARGET_DIR=/tmp/s{rnd}-{pid}/target CARGO_NET_OFFLINE=true`. The test suite is `cargo test --offline` (unit tests in src/lib.rs and src/simd/*, tests/uri.rs, doc tests); it must pass unedited with your change (do not edit, add or delete any existing test). The host CPU has AVX2 and SSE4.2; the default build uses runtime detection. IMPORTANT: do NOT use `git stash` (the stash is shared between all worktrees of this repository and other people are working in sibling worktrees right now); to test without your change, save it with `git diff > /tmp/s{rnd}-{pid}-out/change.diff`, undo it with `git apply -R /tmp/s{rnd}-{pid}-out/change.diff`, and re-apply it with `git apply /tmp/s{rnd}-{pid}-out/change.diff`.

Ideas already used in earlier rounds for this property - do NOT reuse them or close variants:
{avoid}

Suggested areas to look at this time (you may go elsewhere if you find something better): {hint}

Steps:
1. Read src/lib.rs, src/iter.rs, src/macros.rs and src/simd/ as needed to understand the code the property is anchored in.
2. Make the change in the worktree (source files only: src/**, build.rs; keep it small, ideally under ~40 changed lines; it must compile without new warnings under the default build, under `--no-default-features`, and with `RUSTFLAGS="--cfg httparse_disable_simd"` unless a build-configuration dependence IS your point).
3. Run the whole existing suite and confirm it passes: `cargo test --offline` (all `test result: ok`).
4. Write a demonstration as an integration test file /tmp/s{rnd}-{pid}-out/demo.rs (to be dropped in as tests/zz_demo.rs, using only the public API of `httparse`): one or more #[test] functions that FAIL with your change and PASS on the unchanged crate, each asserting exactly what the property promises on a concrete input. Verify both directions yourself. Do not leave the demo file inside the worktree's tests/ directory when you finish.
5. Write /tmp/s{rnd}-{pid}-out/notes.md: the change in two or three sentences, why it looks plausible, exactly what is needed for it to manifest (inputs, options, capacity, profile, CPU, history), which clause of the property it breaks, and the exact commands you ran with their outcomes.
6. Leave the worktree with your change applied but uncommitted (do not commit), and delete /tmp/s{rnd}-{pid}/target when finished to save disk space.

Report back briefly: the files changed, what manifests it, and whether all of the above was verified."""
for pid, sp in spec.items():
    p = props[pid]
    open('/tmp/s%s-%s-prompt.txt' % (rnd, pid), 'w').write(TMPL.format(
        pid=pid, rnd=rnd, title=p['title'], statement=p['statement'],
        avoid="\n".join("- " + a for a in sp["avoid"]), hint=sp["hint"]))
    print('/tmp/s%s-%s-prompt.txt' % (rnd, pid))
