#!/bin/sh
# seedrun.sh -- run inside a `vp run --with-repo` snapshot: build everything against the snapshot of /repo,
# then for each "seed:check,check,..." argument apply seeded/<seed>/patch.diff there, run the quick checks, undo.
R=${VP_RUN_REPO:?needs vp run --with-repo}
sed -i "s#path = \"/repo\"#path = \"$R\"#" harness/Cargo.toml harness/cfail/Cargo.toml harness/probe/Cargo.toml
cp /repo/Cargo.lock $R/ 2>/dev/null
export VERIF_REPO=$R CARGO_NET_OFFLINE=true
./setup.sh > seedrun-setup.log 2>&1
tail -3 seedrun-setup.log
for a in "$@"; do
  s=${a%%:*}; cs=$(echo ${a#*:} | tr ',' ' ')
  echo "=== $s"
  git -C $R apply $PWD/seeded/$s/patch.diff || { echo "patch does not apply"; continue; }
  for p in $cs; do ./check $p 2>&1 | grep -E "^\[check\] C|VIOLATION|KNOWN|problem" | cut -c1-300; done
  git -C $R checkout -- . ; git -C $R clean -fdq
done
echo "=== unchanged tree"
for p in C06 C09; do ./check $p 2>&1 | grep -E "^\[check\] C|VIOLATION" | cut -c1-200; done
