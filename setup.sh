#!/bin/sh
# One-off, offline: translate, build the Coq development, extract + build the OCaml driver,
# build the Rust harness variants.  Everything lands in /verif/_build and /verif/coq.
set -e
cd "$(dirname "$0")"
export CARGO_NET_OFFLINE=true
mkdir -p _build evidence replay
python3 translator/rs2v.py "${VERIF_REPO:-/repo}" coq/Generated || true
cd coq
coq_makefile -f _CoqProject -o Makefile >/dev/null
timeout 3000 make -j16 2>&1 | tail -5
cd ..
python3 - <<'PY'
import sys
sys.path.insert(0, "lib"); sys.path.insert(0, "gen")
import common
print("driver:", common.build_driver())
print("cdriver:", common.build_cdriver())
res = common.build_harnesses(["default", "dbg", "sse42ct", "avx2ct", "nosimd", "rtonly", "nostd"])
for v, (ok, out) in res.items():
    print("harness", v, "ok" if ok else "FAILED " + out[-300:])
PY
