#!/bin/sh
# One-off, offline: translate, build the Coq development, extract + build the OCaml driver,
# build the Rust harness variants.  Everything lands in /verif/_build and /verif/coq.
set -e
cd "$(dirname "$0")"
export CARGO_NET_OFFLINE=true
# start from a clean slate: a copy of this directory may carry half-written build output
find coq -name '*.vo' -o -name '*.vok' -o -name '*.vos' -o -name '*.glob' -o -name '*.aux' | xargs -r rm -f
rm -f coq/Makefile coq/Makefile.conf coq/.Makefile.d coq/model.ml coq/model.mli coq/cmodel.ml coq/cmodel.mli
rm -rf _build coq/Generated
mkdir -p _build evidence replay
python3 translator/rs2v.py "${VERIF_REPO:-/repo}" coq/Generated || true
cd coq
coq_makefile -f _CoqProject -o Makefile >/dev/null
timeout 3000 make -j16 > ../_build/coq_make.log 2>&1 || { grep -B2 -A12 '^Error' ../_build/coq_make.log | head -60; echo 'setup: Coq build FAILED'; }
grep -c 'Closed under the global context' ../_build/coq_make.log
cd ..
python3 - <<'PY'
import sys
sys.path.insert(0, "lib"); sys.path.insert(0, "gen")
import common
print("driver:", common.build_driver())
print("cdriver:", common.build_cdriver())
res = common.build_harnesses(["default", "dbg", "ovf", "sse42ct", "avx2ct", "nosimd", "rtonly", "nostd"])
for v, (ok, out) in res.items():
    print("harness", v, "ok" if ok else "FAILED " + out[-300:])
PY
