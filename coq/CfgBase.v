(* CfgBase.v -- the cfg environment src/simd/mod.rs is conditional on. *)
From Coq Require Import List Bool String.

Inductive arch := X86 | X86_64 | AArch64 | OtherArch.
Definition arch_eqb (a b : arch) : bool :=
  match a, b with
  | X86, X86 | X86_64, X86_64 | AArch64, AArch64 | OtherArch, OtherArch => true
  | _, _ => false
  end.

Record cfgenv := mkcfgenv {
  ce_simd : bool;     (* httparse_simd *)
  ce_sse42 : bool;    (* httparse_simd_target_feature_sse42 *)
  ce_avx2 : bool;     (* httparse_simd_target_feature_avx2 *)
  ce_neon : bool;     (* httparse_simd_neon_intrinsics *)
  ce_arch : arch      (* target_arch *)
}.

Inductive item_kind := IMod | IUse | IInline.
