(* Oracle.v -- executable boolean oracles over *public observables only*.  They
   are extracted and run on the implementation's observations (to find replay
   inputs), and the theorems of Thm/*.v say the model always passes them. *)

From Coq Require Import List NArith Bool.
From HV Require Import Cursor Model Api Spec.
Import ListNotations.

(* what a caller can observe after one call *)
Record aobs := mkobs {
  a_status : status;
  a_s1 : option sl;        (* request: method;  response: reason *)
  a_s2 : option sl;        (* request: path *)
  a_n1 : option N;         (* version *)
  a_n2 : option N;         (* response: code *)
  a_exposed : list slot;   (* contents of the `headers` slice after the call *)
  a_array : list slot      (* the caller's array after the call *)
}.

Inductive kind := KRequest | KResponse | KHeaders.

Definition obs_of_request (r : status * request * list slot) : aobs :=
  match r with (st, rq, arr) =>
    mkobs st (q_method rq) (q_path rq) (q_version rq) None (q_hdrs rq) arr end.
Definition obs_of_response (r : status * response * list slot) : aobs :=
  match r with (st, rp, arr) =>
    mkobs st (p_reason rp) None (p_version rp) (p_code rp) (p_hdrs rp) arr end.
Definition obs_of_headers (r : status * list slot * list slot) : aobs :=
  match r with (st, ex, arr) => mkobs st None None None None ex arr end.

Definition written (s : slot) : option (sl * sl) :=
  match s with SWritten n v => Some (n, v) | SOld _ => None end.
Fixpoint written_prefix (a : list slot) : list (sl * sl) :=
  match a with
  | SWritten n v :: r => (n, v) :: written_prefix r
  | _ => []
  end.

(* ---- C01: returned normally, offset within the buffer ---- *)
Definition check_C01 (buf : list N) (o : aobs) : bool :=
  match a_status o with
  | Complete n => Nat.leb n (length buf)
  | Partial | Error _ => true
  | Faulted _ => false
  end.

(* ---- C03: head framing ---- *)
(* physical lines: offsets just past each LF, together with the line's bytes (without LF) *)
Fixpoint lines_from (start off : nat) (cur : list N) (l : list N) : list (nat * nat * list N) :=
  (* (start offset, end offset just past LF, bytes without the LF), in order *)
  match l with
  | [] => []
  | b :: r =>
      if is 10 b then (start, S off, rev' cur) :: lines_from (S off) (S off) [] r
      else lines_from start (S off) (b :: cur) r
  end.
Definition strictly_empty (ln : list N) : bool :=
  match ln with [] => true | [b] => is 13 b | _ => false end.
Definition ws_empty (ln : list N) : bool := strictly_empty (drop_while ws ln).

(* end of the start line: skip leading empty lines, then through the first LF *)
Fixpoint skip_leading_empty (off : nat) (l : list N) : nat * list N :=
  match l with
  | b :: r =>
      if is 10 b then skip_leading_empty (S off) r
      else if is 13 b then
        match r with
        | b2 :: r2 => if is 10 b2 then skip_leading_empty (2 + off) r2 else (off, l)
        | [] => (off, l)
        end
      else (off, l)
  | [] => (off, l)
  end.
Fixpoint through_lf (off : nat) (l : list N) : option (nat * list N) :=
  match l with
  | [] => None
  | b :: r => if is 10 b then Some (S off, r) else through_lf (S off) r
  end.
Definition start_line_end (k : kind) (buf : list N) : option (nat * list N) :=
  match k with
  | KHeaders => Some (O, buf)
  | _ => let (o, l) := skip_leading_empty O buf in through_lf o l
  end.

(* the offset the head must end at, given where the first stored header name starts
   (None: no header stored) and whether leading SP/HTAB is disregarded *)
Fixpoint accept_chain (fold : bool) (cands : list (bool * bool * nat)) : list nat :=
  match cands with
  | [] => []
  | (strict, hasprev, e) :: r => e :: (if fold && negb strict && hasprev then accept_chain fold r else [])
  end.
(* the offsets the head may end at.  Candidates are the strictly empty lines and, when leading SP/HTAB is
   disregarded (spb, before the first stored header), the whitespace-only ones.  The head ends at the FIRST
   candidate -- except that with obsolete line folding a whitespace-only line that follows another line may be
   the continuation of a header being folded (which `ignore_invalid_headers` may later drop, so that no stored
   header shows it): then the next candidate is acceptable too.  A strictly empty line always ends the head. *)
Definition end_cands (spb : bool) (first_name : option nat) (off : nat) (l : list N) : list (bool * bool * nat) :=
  let ls := lines_from off off [] l in
  let before_first (s : nat) := match first_name with None => true | Some f => Nat.ltb s f end in
  let term := fun (x : nat * nat * list N) =>
    match x with (s, e, ln) =>
      strictly_empty ln || (spb && before_first s && ws_empty ln) end in
  map (fun x : nat * nat * list N =>
         match x with (s, e, ln) => (strictly_empty ln, negb (Nat.eqb s off), e) end)
      (filter term ls).
Definition expected_ends (spb fold : bool) (first_name : option nat) (off : nat) (l : list N) : list nat :=
  accept_chain fold (end_cands spb first_name off l).
(* the first candidate that ends the head FOR CERTAIN: a strictly empty line, or a whitespace-only candidate that
   cannot be the continuation of a folded header (folding off, or no line before it) *)
Fixpoint certain_end (fold : bool) (cands : list (bool * bool * nat)) : option nat :=
  match cands with
  | [] => None
  | (strict, hasprev, e) :: r => if strict || negb (fold && hasprev) then Some e else certain_end fold r
  end.
Definition expected_end (spb : bool) (first_name : option nat) (off : nat) (l : list N) : option nat :=
  hd_error (expected_ends spb false first_name off l).

Definition first_name_off (ex : list slot) : option nat :=
  match ex with
  | SWritten (Sub off _) _ :: _ => Some off
  | _ => None
  end.

(* `fold`: obsolete line folding is on.  On Partial a header that is still being folded is
   not stored yet, so a whitespace-only line may be its continuation: without a stored
   header in sight, and with folding on, only strictly empty lines are counted. *)
Definition check_C03 (k : kind) (spb fold : bool) (buf : list N) (o : aobs) : bool :=
  match a_status o with
  | Complete n =>
      Nat.leb n (length buf) &&
      match start_line_end k buf with
      | Some (so, l) =>
          existsb (Nat.eqb n) (expected_ends spb fold (first_name_off (a_exposed o)) so l)
      | None => false
      end
  | Partial =>
      match start_line_end k buf with
      | Some (so, l) =>
          (* no stored header is visible on Partial through `exposed`; use the array.  Partial is wrong only when a
             line that ends the head for certain is already in the buffer (a whitespace-only line after another line
             may, with folding on, be the continuation of a header that is not stored yet or was dropped later) *)
          let first := first_name_off (a_array o) in
          match certain_end fold (end_cands spb first so l) with
          | Some _ => false
          | None => true
          end
      | None => true
      end
  | _ => true
  end.

Fixpoint first_crlf (off : nat) (l : list N) : option nat :=
  match l with
  | b :: r =>
      match r with
      | b2 :: _ => if is 13 b && is 10 b2 then Some (2 + off) else first_crlf (S off) r
      | [] => None
      end
  | [] => None
  end.
Definition check_C03_chunk (buf : list N) (st : status) : bool :=
  match st with
  | Complete n => match first_crlf O buf with Some e => Nat.eqb n e | None => false end
  | Partial => match first_crlf O buf with Some _ => false | None => true end
  | _ => true
  end.

(* ---- C04: zero-copy, in order ---- *)
Definition sub_of (buf : list N) (off len : nat) : list N := firstn len (skipn off buf).

(* a slice is fine if it is a genuine sub-slice of buf; empty slices may be elsewhere
   when `may_be_empty` *)
Definition slice_ok (buf : list N) (lim : nat) (may_be_empty : bool) (s : sl) : bool :=
  match s with
  | Sub off bs =>
      Nat.leb (off + length bs) lim && list_eqb (sub_of buf off (length bs)) bs &&
      (may_be_empty || negb (null bs))
  | Ext bs => may_be_empty && null bs
  end.

Definition opt_ok {A} (f : A -> bool) (o : option A) : bool :=
  match o with Some a => f a | None => true end.

(* intervals of the non-empty slices, in reporting order *)
Definition ival (s : sl) : list (nat * nat) :=
  match s with
  | Sub off (b :: r) => [(off, off + length (b :: r))]
  | _ => []
  end.
Definition oival (s : option sl) : list (nat * nat) :=
  match s with Some s => ival s | None => [] end.
Fixpoint increasing (lo : nat) (l : list (nat * nat)) : bool :=
  match l with
  | [] => true
  | (a, b) :: r => Nat.leb lo a && Nat.leb a b && increasing b r
  end.

Definition slots_ivals (ex : list slot) : list (nat * nat) :=
  flat_map (fun s => match s with SWritten n v => ival n ++ ival v | SOld _ => [] end) ex.

Definition check_C04 (k : kind) (buf : list N) (o : aobs) : bool :=
  let lim := match a_status o with Complete n => n | _ => length buf end in
  let hdr_ok := fun s =>
    match s with
    | SWritten n v => slice_ok buf lim false n && slice_ok buf lim true v
    | SOld _ => true
    end in
  let is_resp := match k with KResponse => true | _ => false end in
  (* request: s1 = method, s2 = path (never empty); response: s1 = reason (may be empty / static) *)
  opt_ok (slice_ok buf lim is_resp) (a_s1 o) &&
  opt_ok (slice_ok buf lim false) (a_s2 o) &&
  forallb hdr_ok (a_exposed o) && forallb hdr_ok (a_array o) &&
  match a_status o with
  | Complete _ =>
      increasing O (oival (a_s1 o) ++ oival (a_s2 o) ++ slots_ivals (a_exposed o))
  | _ => true
  end.

(* ---- C05: field hygiene ---- *)
Definition nonempty_all (p : N -> bool) (l : list N) : bool := negb (null l) && forallb p l.

(* value: value_char only; no leading / trailing SP/HTAB; with folding also CRLF / LF
   immediately followed by SP / HTAB *)
Fixpoint value_body_ok (fold : bool) (l : list N) : bool :=
  match l with
  | [] => true
  | b :: r =>
      if value_char b then value_body_ok fold r
      else if fold && is 13 b then
        match r with
        | b2 :: r2 =>
            is 10 b2 && match r2 with b3 :: _ => ws b3 | [] => false end && value_body_ok fold r2
        | [] => false
        end
      else if fold && is 10 b then
        match r with b3 :: _ => ws b3 | [] => false end && value_body_ok fold r
      else false
  end.
Definition value_ok (fold : bool) (v : list N) : bool :=
  value_body_ok fold v &&
  match v with b :: _ => negb (ws b) | [] => true end &&
  match rev' v with b :: _ => negb (ws b) | [] => true end.

(* no NUL, no CR that is not immediately followed by LF *)
Fixpoint head_clean (l : list N) : bool :=
  match l with
  | [] => true
  | b :: r =>
      if is 0 b then false
      else if is 13 b then match r with b2 :: _ => is 10 b2 && head_clean r | [] => false end
      else head_clean r
  end.

Definition reason_ok (l : list N) : bool :=
  forallb (fun b => is 9 b || is 32 b || in_range 33 126 b) l.

Definition check_C05 (k : kind) (fold : bool) (buf : list N) (o : aobs) : bool :=
  let str_ok := fun s => utf8_valid (sl_bytes s) in
  let hdr_str_ok := fun s => match s with SWritten n _ => str_ok n | SOld _ => true end in
  (* every &str handed out is valid UTF-8, whatever the outcome *)
  opt_ok str_ok (a_s1 o) && opt_ok str_ok (a_s2 o) &&
  forallb hdr_str_ok (a_exposed o) && forallb hdr_str_ok (a_array o) &&
  match a_status o with
  | Complete n =>
      head_clean (firstn n buf) &&
      forallb (fun s => match s with
                        | SWritten nm v => nonempty_all tchar (sl_bytes nm) && value_ok fold (sl_bytes v)
                        | SOld _ => false end) (a_exposed o) &&
      match k with
      | KRequest =>
          match a_s1 o, a_s2 o, a_n1 o with
          | Some m, Some p, Some v =>
              nonempty_all tchar (sl_bytes m) &&
              nonempty_all uri_char (sl_bytes p) && utf8_valid (sl_bytes p) &&
              (N.eqb v 0 || N.eqb v 1)
          | _, _, _ => false
          end
      | KResponse =>
          match a_s1 o, a_n1 o, a_n2 o with
          | Some r, Some v, Some c =>
              reason_ok (sl_bytes r) && (N.eqb v 0 || N.eqb v 1) && N.ltb c 1000
          | _, _, _ => false
          end
      | KHeaders => true
      end
  | _ => true
  end.

(* the code is the value of exactly the three digits after "HTTP/1.x " (C05 / C07),
   read off the buffer independently *)
Definition code_at (buf : list N) (off : nat) : option N :=
  match skipn off buf with
  | a :: b :: c :: _ =>
      if digit a && digit b && digit c then Some ((a - 48) * 100 + (b - 48) * 10 + (c - 48))%N
      else None
  | _ => None
  end.

(* ---- C17: header storage ---- *)
Fixpoint old_from (i : nat) (a : list slot) : bool :=
  match a with
  | [] => true
  | SOld j :: r => N.eqb j (N.of_nat i) && old_from (S i) r
  | SWritten _ _ :: _ => false
  end.
Fixpoint old_or_written (i : nat) (a : list slot) : bool :=
  match a with
  | [] => true
  | SOld j :: r => N.eqb j (N.of_nat i) && old_or_written (S i) r
  | SWritten _ _ :: r => old_or_written (S i) r
  end.
Definition slot_eqb (a b : slot) : bool :=
  match a, b with
  | SOld i, SOld j => N.eqb i j
  | SWritten n1 v1, SWritten n2 v2 =>
      match n1, n2, v1, v2 with
      | Sub o1 b1, Sub o2 b2, Sub o3 b3, Sub o4 b4 =>
          Nat.eqb o1 o2 && list_eqb b1 b2 && Nat.eqb o3 o4 && list_eqb b3 b4
      | _, _, _, _ => false
      end
  | _, _ => false
  end.
Fixpoint slots_eqb (a b : list slot) : bool :=
  match a, b with
  | [], [] => true
  | x :: a', y :: b' => slot_eqb x y && slots_eqb a' b'
  | _, _ => false
  end.

(* `uninit`: the call used one of the *_with_uninit_headers entry points on a fresh value
   whose `headers` was the empty slice *)
Definition check_C17 (uninit : bool) (cap : nat) (o : aobs) : bool :=
  Nat.eqb (length (a_array o)) cap &&
  match a_status o with
  | Complete _ =>
      let k := length (a_exposed o) in
      slots_eqb (a_exposed o) (firstn k (a_array o)) &&
      forallb (fun s => match s with SWritten _ _ => true | SOld _ => false end) (a_exposed o) &&
      old_from k (skipn k (a_array o))
  | _ =>
      old_or_written O (a_array o) &&
      if uninit then null (a_exposed o)
      else slots_eqb (a_exposed o) (a_array o)
  end.
