(* Extract.v -- extraction of the executable model, the reference parsers and the
   oracles to OCaml.  Only ExtrOcamlBasic is used: bool, option, unit, list, prod,
   sumbool, sumor are mapped to the OCaml types; andb / orb are inlined.  N, positive
   and nat stay the extracted inductive types.  No Extract Constant / Extract
   Inductive of our own. *)
From Coq Require Extraction.
From Coq Require Import ExtrOcamlBasic.
From Coq Require Import List NArith.
From HV Require Import Cursor Scan Intrinsics Model Api Backends Spec Oracle.
From HV.Generated Require Import Classes Swar Sse42 Avx2 Neon.

Extraction "model.ml"
  env_of request_call response_call parse_headers parse_chunk_size
  request_history response_history request_new response_new
  ref_request ref_response ref_headers ref_chunk
  obs_of_request obs_of_response obs_of_headers
  check_C01 check_C03 check_C03_chunk check_C04 check_C05 check_C17 code_at
  utf8_valid first_bad
  match_uri_char_8_swar match_header_value_char_8_swar
  match_url_char_16_sse match_header_value_char_16_sse
  match_url_char_32_avx match_header_value_char_32_avx
  match_url_char_16_neon match_header_value_char_16_neon match_header_name_char_16_neon
  is_method_token is_uri_token is_header_name_token is_header_value_token
  tchar uri_char value_char
  s_uri s_value s_name cur_new.
