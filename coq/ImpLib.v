(* ImpLib.v -- library functions the translated code (Generated/Lib.v) refers to: the parts of
   `core` and of `Bytes` whose Rust source is not translated.  Hand-written, trusted (DESIGN.md 10). *)
From Coq Require Import List NArith Bool.
From HV Require Import Cursor Scan Model Imp.
Import ListNotations.

(* `Bytes::next()` as an Option (the `next!` macro is translated from macros.rs) *)
Definition next_opt : P (option N) := fun c =>
  match rest c with
  | [] => Done None c
  | b :: r => Done (Some b) (mkcur (pre c) (b :: tokrev c) r)
  end.

(* `core::str::from_utf8` : Ok(s) / Err(_)  as  Some s / None *)
Definition from_utf8 (s : sl) : option sl := if utf8_valid (sl_bytes s) then Some s else None.

(* `slice.iter().rposition(p)`: index of the last element satisfying p *)
Fixpoint rposition (p : N -> bool) (l : list N) : option nat :=
  match l with
  | [] => None
  | x :: r =>
      match rposition p r with
      | Some i => Some (S i)
      | None => if p x then Some O else None
      end
  end.

(* `&s[0..n]` (the bounds check is a separate guard emitted by the translator) *)
Definition sl_prefix (s : sl) (n : nat) : sl :=
  match s with
  | Sub off bs => Sub off (firstn n bs)
  | Ext bs => Ext (firstn n bs)
  end.

(* a SIMD kernel's K-byte load from `bytes.as_ref()`: checked (the loop guard has to make it legal) *)
Definition load_block (K : nat) : P (list N) := fun c =>
  match take K (rest c) with Some b => Done b c | None => Fault LoadOOB end.
(* `bytes.as_ref()` handed to swar::match_tail *)
Definition rest_bytes : P (list N) := fun c => Done (rest c) c.
