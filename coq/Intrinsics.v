(* Intrinsics.v -- the vocabulary the translated kernels (Generated/*.v) are
   written in.  Bytes are N; a machine word is the little-endian list of its
   bytes, so the bitwise operations are bytewise by definition and only
   `wrapping_sub` needs an arithmetic justification (Proofs/SwarArith.v).

   x86 / NEON: every vector intrinsic the kernels use except the final mask
   extraction acts on each 8-bit lane independently, so a kernel is translated
   as a *lane function* N -> N followed by the mask extraction over the list of
   lanes.  The lane functions below are my transcription of the Intel / Arm
   pseudo-code (trusted; the x86 ones are compared with the hardware by the
   correspondence check on every run). *)

From Coq Require Import List NArith Bool.
Import ListNotations.
Local Open Scope N_scope.

(* ---- words as little-endian byte lists (SWAR) ---- *)
Definition b2n (b : bool) : N := if b then 1 else 0.

Fixpoint map2 (f : N -> N -> N) (xs ys : list N) : list N :=
  match xs, ys with
  | x :: xr, y :: yr => f x y :: map2 f xr yr
  | _, _ => []
  end.

(* usize::wrapping_sub: byte-wise with a borrow chain *)
Fixpoint w_sub_b (bw : bool) (xs ys : list N) : list N :=
  match xs, ys with
  | x :: xr, y :: yr =>
      let t := y + b2n bw in
      ((x + 256 - t) mod 256) :: w_sub_b (x <? t) xr yr
  | _, _ => []
  end.
Definition w_sub := w_sub_b false.
Definition w_and := map2 N.land.
Definition w_or := map2 N.lor.
Definition w_xor := map2 N.lxor.
Definition w_not (x : list N) := map (fun b => 255 - b) x.
(* uniform_block(b) = usize::from_ne_bytes([b; BLOCK_SIZE]) *)
Definition uniform_block (W : nat) (b : N) : list N := repeat b W.

(* swar::offsetnz: BLOCK_SIZE if the word is zero, else the index of the first
   non-zero byte (the `unreachable!()` corresponds to the end of the list) *)
Fixpoint first_nonzero (l : list N) : nat :=
  match l with
  | [] => O
  | b :: r => if b =? 0 then S (first_nonzero r) else O
  end.
Definition offsetnz (W : nat) (block : list N) : nat :=
  if forallb (fun b => b =? 0) block then W else first_nonzero block.

(* `for (i, b) in l.iter().enumerate() { body }` where the body may `return`: Some r = the body returned r at
   the first index where it does; None = the loop ran off the end of the list (Generated/SwarFns.v) *)
Fixpoint for_enum {R : Type} (body : nat -> N -> option R) (i : nat) (l : list N) : option R :=
  match l with
  | [] => None
  | b :: r => match body i b with Some x => Some x | None => for_enum body (S i) r end
  end.

(* ---- 8-bit lane operations (x86 SSE/AVX2, NEON) ---- *)
Definition max8 (a b : N) : N := N.max a b.                       (* pmaxub *)
Definition cmpeq8 (a b : N) : N := if a =? b then 255 else 0.     (* pcmpeqb / vceqq_u8 *)
Definition or8 (a b : N) : N := N.lor a b.                         (* por / vorrq_u8 *)
Definition and8 (a b : N) : N := N.land a b.                       (* pand / vandq_u8 *)
Definition andnot8 (a b : N) : N := N.land (255 - a) b.            (* pandn: (NOT a) AND b *)
Definition msb8 (a : N) : bool := 128 <=? a.                       (* one bit of pmovmskb *)
Definition cle8 (a b : N) : N := if a <=? b then 255 else 0.       (* vcleq_u8: a <= b *)
Definition bic8 (a b : N) : N := N.land a (255 - b).               (* vbicq_u8: a AND NOT b *)
Definition mvn8 (a : N) : N := 255 - a.                            (* vmvnq_u8 *)
Definition shr8 (n : N) (a : N) : N := N.shiftr a n.               (* vshrq_n_u8 *)
(* vqtbl1q_u8: table lookup, 0 when the index is out of range *)
Definition tbl8 (table : list N) (idx : N) : N :=
  if idx <? 16 then nth (N.to_nat idx) table 0 else 0.
Definition set1 (x : N) : N := x mod 256.                          (* _mm_set1_epi8 / vdupq_n_u8 *)

(* uN::trailing_ones over the mask bits, least significant first *)
Fixpoint trailing_ones (m : list bool) : nat :=
  match m with
  | true :: r => S (trailing_ones r)
  | _ => O
  end.

(* neon::offsetnz over 16 lanes: two u64 halves, first non-zero byte (8 + ... / 16) *)
Definition neon_offsetnz (x : list N) : nat :=
  let low := firstn 8 x in
  let high := skipn 8 x in
  if negb (forallb (fun b => b =? 0) low) then first_nonzero low
  else if negb (forallb (fun b => b =? 0) high) then 8 + first_nonzero high
  else 16.
Definition neon_offsetz (x : list N) : nat := neon_offsetnz (map mvn8 x).
