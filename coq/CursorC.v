(* CursorC.v -- the cursor of Cursor.v with work counters (C20).

   Same operations, same names; the cursor carries
     ticks  : one per primitive cursor operation executed (peek, next, peek_n, peek_ahead,
              advance, slice, slice_skip, commit) plus whatever `tick n` adds (the backward
              trim of a header value charges one per byte it visits);
     travel : the sum of all advance amounts, `next` counting 1 -- what the
              cfg(httparse_verif) hook TRAVEL counts in src/iter.rs.
   Part and Fail report the counters reached, so that the bound also covers the calls that do not
   complete.  Generated/CScan.v, CModel.v, CBackends.v ... are textual copies of Scan.v, Model.v,
   Backends.v and the translated loop shells compiled against this file instead of Cursor.v. *)
From Coq Require Import List NArith Bool.
From HV Require Export Cursor.
Import ListNotations.

Record cur := mkcur { pre : nat; tokrev : list N; rest : list N; ticks : nat; travel : nat }.

Inductive out (A : Type) :=
| Done (a : A) (c : cur)
| Part (tk tr : nat)
| Fail (e : err) (tk tr : nat)
| Fault (f : fault).
Arguments Done {A}. Arguments Part {A}. Arguments Fail {A}. Arguments Fault {A}.

Definition P (A : Type) := cur -> out A.

Definition ret {A} (a : A) : P A := fun c => Done a c.
Definition bind {A B} (m : P A) (f : A -> P B) : P B :=
  fun c => match m c with
           | Done a c' => f a c'
           | Part tk tr => Part tk tr
           | Fail e tk tr => Fail e tk tr
           | Fault f => Fault f
           end.
Definition fail {A} (e : err) : P A := fun c => Fail e (ticks c) (travel c).
Definition part {A} : P A := fun c => Part (ticks c) (travel c).
Definition fault_ {A} (f : fault) : P A := fun _ => Fault f.

Notation "x <- m ;; k" := (bind m (fun x => k))
  (at level 61, m at next level, right associativity) : cur_scope.
Notation "m ;;; k" := (bind m (fun _ => k))
  (at level 61, right associativity) : cur_scope.
Open Scope cur_scope.

Definition tk1 (c : cur) : cur := mkcur (pre c) (tokrev c) (rest c) (S (ticks c)) (travel c).

Definition cur_new (buf : list N) : cur := mkcur 0 [] buf 0 0.
Definition apos (c : cur) : nat := length (tokrev c) + pre c.
Definition pos : P nat := fun c => Done (length (tokrev c)) c.
Definition addr : P nat := fun c => Done (apos c) c.

Definition tick (n : nat) : P unit := fun c =>
  Done tt (mkcur (pre c) (tokrev c) (rest c) (n + ticks c) (travel c)).

Definition peek : P (option N) := fun c => Done (hd_error (rest c)) (tk1 c).

Definition next : P N := fun c =>
  match rest c with
  | [] => Part (S (ticks c)) (travel c)
  | b :: r => Done b (mkcur (pre c) (b :: tokrev c) r (S (ticks c)) (S (travel c)))
  end.

Definition peek_n (n : nat) : P (option (list N)) := fun c => Done (take n (rest c)) (tk1 c).

Definition peek_ahead (n : nat) : P (option N) := fun c =>
  match drop n (rest c) with
  | Some r => Done (hd_error r) (tk1 c)
  | None => Fault PeekAheadOOB
  end.

Definition advance (n : nat) : P unit := fun c =>
  match shift n (tokrev c) (rest c) with
  | Some (tk, r) => Done tt (mkcur (pre c) tk r (S (ticks c)) (n + travel c))
  | None => Fault AdvanceOOB
  end.
Definition bump : P unit := advance 1.

Definition commit (c : cur) : cur := mkcur (length (tokrev c) + pre c) [] (rest c) (S (ticks c)) (travel c).
Definition slice : P sl := fun c =>
  Done (Sub (pre c) (rev' (tokrev c))) (commit c).

Definition slice_skip (k : nat) : P sl := fun c =>
  match drop k (tokrev c) with
  | Some t => Done (Sub (pre c) (rev' t)) (commit c)
  | None => Fault SkipUnderflow
  end.

Definition remaining : P nat := fun c => Done (length (rest c)) c.

Definition expect (p : N -> bool) (e : err) : P N :=
  b <- next ;; if p b then ret b else fail e.

Definition space (e : err) : P unit :=
  expect (is SP) e ;;; slice ;;; ret tt.

Definition newline : P unit :=
  b <- next ;;
  if is CR b then expect (is LF) NewLine ;;; slice ;;; ret tt
  else if is LF b then slice ;;; ret tt
  else fail NewLine.
