(* Lifetimes.v -- C04, static half: the public signatures that carry a lifetime.

   Generated/Sigs.v (regenerated from /repo on every run) lists every `pub struct` and `pub fn`
   signature of src/lib.rs and src/iter.rs.  [lifetime_sigs] below is the reviewed list of those
   that mention a lifetime; reading it:

   - `Header<'a>` holds `&'a str` / `&'a [u8]`;  `Request<'headers,'buf>` / `Response<..>` hold
     `Option<&'buf str>` fields and `&'headers mut [Header<'buf>]`;
   - every entry point that receives the buffer receives it as `&'b [u8]` / `&'buf [u8]` with the
     SAME lifetime that indexes the `Header`s and the fields: `Request::new(&'h mut [Header<'b>])
     -> Request<'h,'b>`, `parse(&mut self, &'b [u8])`, `parse_with_uninit_headers(&mut self,
     &'b [u8], &'h mut [MaybeUninit<Header<'b>>])`, the four `ParserConfig::parse_*` with
     `&mut Request<'_ | 'headers, 'buf>` and `&'buf [u8]`, and
     `parse_headers<'b: 'h, 'h>(&'b [u8], &'h mut [Header<'b>]) -> (usize, &'h [Header<'b>])`;
   - inside the crate the only producers of slices are `Bytes<'a>::slice / slice_skip -> &'a [u8]`
     with `Bytes::new(&'a [u8])`, and `parse_method / parse_uri(&mut Bytes<'a>) -> &'a str`.

   So a field can be used only while a shared borrow of the buffer of lifetime 'b is alive: the
   buffer can be neither freed nor mutated before the last use of any field.  The step from these
   signatures to that conclusion is rustc's borrow checker (trusted); it is exercised on every run
   by the compile-fail client corpus harness/cfail (13 programs that must be rejected, 2 controls
   that must compile).  Theorem (Thm/C04.v): the crate's signatures with a lifetime are exactly the
   reviewed ones, and every reviewed one is present. *)
From Coq Require Import List String Bool Ascii.
From HV.Generated Require Import Sigs.
Import ListNotations.
Local Open Scope string_scope.

Definition lifetime_sigs : list (string * string * string) :=
  [ ("src/lib.rs", "impl ParserConfig", "pub fn parse_request < 'buf > ( & self , request : & mut Request < '_ , 'buf > , buf : & 'buf [ u8 ] , ) -> Result < usize >");
    ("src/lib.rs", "impl ParserConfig", "pub fn parse_request_with_uninit_headers < 'headers , 'buf > ( & self , request : & mut Request < 'headers , 'buf > , buf : & 'buf [ u8 ] , headers : & 'headers mut [ MaybeUninit < Header < 'buf >> ] , ) -> Result < usize >");
    ("src/lib.rs", "impl ParserConfig", "pub fn parse_response < 'buf > ( & self , response : & mut Response < '_ , 'buf > , buf : & 'buf [ u8 ] , ) -> Result < usize >");
    ("src/lib.rs", "impl ParserConfig", "pub fn parse_response_with_uninit_headers < 'headers , 'buf > ( & self , response : & mut Response < 'headers , 'buf > , buf : & 'buf [ u8 ] , headers : & 'headers mut [ MaybeUninit < Header < 'buf >> ] , ) -> Result < usize >");
    ("src/lib.rs", "-", "pub struct Request < 'headers , 'buf > { pub method : Option < & 'buf str > , pub path : Option < & 'buf str > , pub version : Option < u8 > , pub headers : & 'headers mut [ Header < 'buf > ] }");
    ("src/lib.rs", "impl < 'h , 'b > Request < 'h , 'b >", "pub fn new ( headers : & 'h mut [ Header < 'b > ] ) -> Request < 'h , 'b >");
    ("src/lib.rs", "impl < 'h , 'b > Request < 'h , 'b >", "pub fn parse_with_uninit_headers ( & mut self , buf : & 'b [ u8 ] , headers : & 'h mut [ MaybeUninit < Header < 'b >> ] , ) -> Result < usize >");
    ("src/lib.rs", "impl < 'h , 'b > Request < 'h , 'b >", "pub fn parse ( & mut self , buf : & 'b [ u8 ] ) -> Result < usize >");
    ("src/lib.rs", "-", "pub struct Response < 'headers , 'buf > { pub version : Option < u8 > , pub code : Option < u16 > , pub reason : Option < & 'buf str > , pub headers : & 'headers mut [ Header < 'buf > ] }");
    ("src/lib.rs", "impl < 'h , 'b > Response < 'h , 'b >", "pub fn new ( headers : & 'h mut [ Header < 'b > ] ) -> Response < 'h , 'b >");
    ("src/lib.rs", "impl < 'h , 'b > Response < 'h , 'b >", "pub fn parse ( & mut self , buf : & 'b [ u8 ] ) -> Result < usize >");
    ("src/lib.rs", "-", "pub struct Header < 'a > { pub name : & 'a str , pub value : & 'a [ u8 ] , }");
    ("src/lib.rs", "-", "pub fn parse_method < 'a > ( bytes : & mut Bytes < 'a > ) -> Result < & 'a str >");
    ("src/lib.rs", "-", "pub fn parse_uri < 'a > ( bytes : & mut Bytes < 'a > ) -> Result < & 'a str >");
    ("src/lib.rs", "-", "pub fn parse_headers < 'b : 'h , 'h > ( src : & 'b [ u8 ] , mut dst : & 'h mut [ Header < 'b > ] , ) -> Result < ( usize , & 'h [ Header < 'b > ] ) >");
    ("src/iter.rs", "-", "pub struct Bytes < 'a > { start : * const u8 , end : * const u8 , cursor : * const u8 , phantom : core :: marker :: PhantomData < & 'a ( ) > , }");
    ("src/iter.rs", "impl < 'a > Bytes < 'a >", "pub fn new ( slice : & 'a [ u8 ] ) -> Bytes < 'a >");
    ("src/iter.rs", "impl < 'a > Bytes < 'a >", "pub fn peek_n < 'b : 'a , U : TryFrom < & 'a [ u8 ] >> ( & 'b self , n : usize ) -> Option < U >");
    ("src/iter.rs", "impl < 'a > Bytes < 'a >", "pub fn slice ( & mut self ) -> & 'a [ u8 ]");
    ("src/iter.rs", "impl < 'a > Bytes < 'a >", "pub unsafe fn slice_skip ( & mut self , skip : usize ) -> & 'a [ u8 ]") ].

Fixpoint has_quote (s : string) : bool :=
  match s with
  | EmptyString => false
  | String c r => Ascii.eqb c "'"%char || has_quote r
  end.

Definition sig_eqb (a b : string * string * string) : bool :=
  String.eqb (fst (fst a)) (fst (fst b)) && String.eqb (snd (fst a)) (snd (fst b)) && String.eqb (snd a) (snd b).

Definition lifetimes_check : bool :=
  forallb (fun s => negb (has_quote (snd s)) || existsb (sig_eqb s) lifetime_sigs) crate_sigs &&
  forallb (fun e => existsb (sig_eqb e) crate_sigs) lifetime_sigs.
