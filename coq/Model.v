(* Model.v -- hand-written, code-shaped model of src/lib.rs: one definition per
   Rust function, same order of tests, same early returns, same commit
   arithmetic.  See DESIGN.md Appendix A for the source <-> model map. *)

From Coq Require Import List NArith Bool.
From HV Require Import Cursor Scan.
Import ListNotations.
Local Open Scope N_scope.

(* ------------------------------------------------------------------ *)
(* core::str::from_utf8 -- modelled (Unicode Table 3-7), not verified   *)

Definition in_range (lo hi b : N) : bool := (lo <=? b) && (b <=? hi).

Fixpoint utf8_valid (l : list N) : bool :=
  match l with
  | [] => true
  | b0 :: r0 =>
      if b0 <=? 127 then utf8_valid r0
      else match r0 with
      | [] => false
      | b1 :: r1 =>
          if in_range 194 223 b0 then in_range 128 191 b1 && utf8_valid r1
          else match r1 with
          | [] => false
          | b2 :: r2 =>
              if is 224 b0 then in_range 160 191 b1 && in_range 128 191 b2 && utf8_valid r2
              else if in_range 225 236 b0 || in_range 238 239 b0 then
                in_range 128 191 b1 && in_range 128 191 b2 && utf8_valid r2
              else if is 237 b0 then in_range 128 159 b1 && in_range 128 191 b2 && utf8_valid r2
              else match r2 with
              | [] => false
              | b3 :: r3 =>
                  if is 240 b0 then
                    in_range 144 191 b1 && in_range 128 191 b2 && in_range 128 191 b3 && utf8_valid r3
                  else if in_range 241 243 b0 then
                    in_range 128 191 b1 && in_range 128 191 b2 && in_range 128 191 b3 && utf8_valid r3
                  else if is 244 b0 then
                    in_range 128 143 b1 && in_range 128 191 b2 && in_range 128 191 b3 && utf8_valid r3
                  else false
              end
          end
      end
  end.

Fixpoint list_eqb (a b : list N) : bool :=
  match a, b with
  | [], [] => true
  | x :: a', y :: b' => N.eqb x y && list_eqb a' b'
  | _, _ => false
  end.

(* ------------------------------------------------------------------ *)
(* statuses and results that keep the state reached so far             *)

Inductive status :=
| Complete (n : nat)
| Partial
| Error (e : err)
| Faulted (f : fault).

(* run one monadic stage; Partial / Err / Fault end the call with the state
   accumulated so far (fields of a Request are assigned incrementally) *)
Definition stage {A S R} (o : out A) (s : S) (stop : status -> S -> R) (k : A -> cur -> R) : R :=
  match o with
  | Done a c => k a c
  | Part => stop Partial s
  | Fail e => stop (Error e) s
  | Fault f => stop (Faulted f) s
  end.

Section WithEnv.
Variable E : env.
Variable fuel : nat.   (* every loop gets this much fuel; callers pass S (length buf) *)

(* ------------------------------------------------------------------ *)
(* lib.rs:558  skip_empty_lines                                        *)
Fixpoint skip_empty_lines_f (f : nat) : P unit :=
  match f with
  | O => fault_ OutOfFuel
  | S f' =>
      b <- peek ;;
      match b with
      | Some b =>
          if is CR b then bump ;;; expect (is LF) NewLine ;;; skip_empty_lines_f f'
          else if is LF b then bump ;;; skip_empty_lines_f f'
          else slice ;;; ret tt
      | None => part
      end
  end.
Definition skip_empty_lines : P unit := skip_empty_lines_f fuel.

(* lib.rs:583  skip_spaces *)
Fixpoint skip_spaces_f (f : nat) : P unit :=
  match f with
  | O => fault_ OutOfFuel
  | S f' =>
      b <- peek ;;
      match b with
      | Some b => if is SP b then bump ;;; skip_spaces_f f' else slice ;;; ret tt
      | None => part
      end
  end.
Definition skip_spaces : P unit := skip_spaces_f fuel.

(* lib.rs:758  parse_version *)
Definition H10 : list N := [72; 84; 84; 80; 47; 49; 46; 48].
Definition H11 : list N := [72; 84; 84; 80; 47; 49; 46; 49].
Definition parse_version : P N :=
  e <- peek_n 8 ;;
  match e with
  | Some eight =>
      advance 8 ;;;
      if list_eqb eight H10 then ret 0
      else if list_eqb eight H11 then ret 1
      else fail Version
  | None =>
      expect (is 72) Version ;;; expect (is 84) Version ;;; expect (is 84) Version ;;;
      expect (is 80) Version ;;; expect (is 47) Version ;;; expect (is 49) Version ;;;
      expect (is 46) Version ;;; part
  end.

(* lib.rs:882  parse_token *)
Fixpoint parse_token_f (f : nat) : P sl :=
  match f with
  | O => fault_ OutOfFuel
  | S f' =>
      b <- next ;;
      if is SP b then slice_skip 1
      else if negb (c_method E b) then fail Token
      else parse_token_f f'
  end.
Definition parse_token : P sl :=
  b <- next ;;
  if negb (c_method E b) then fail Token else parse_token_f fuel.

(* lib.rs:791  parse_method *)
Definition GET_ : list N := [71; 69; 84; 32].
Definition POST : list N := [80; 79; 83; 84].
Definition parse_method : P sl :=
  pk <- peek_n 4 ;;
  match pk with
  | Some four =>
      if list_eqb four GET_ then advance 4 ;;; slice_skip 1
      else if list_eqb four POST then
        a <- peek_ahead 4 ;;
        match a with
        | Some b => if is SP b then advance 5 ;;; slice_skip 1 else parse_token
        | None => parse_token
        end
      else parse_token
  | None => parse_token
  end.

(* lib.rs:906  parse_uri *)
Definition parse_uri : P sl :=
  start <- pos ;;
  s_uri E fuel ;;;
  end_ <- pos ;;
  b <- next ;;
  if is SP b then
    if Nat.eqb end_ start then fail Token
    else
      s <- slice_skip 1 ;;
      if utf8_valid (sl_bytes s) then ret s else fail Token
  else fail Token.

(* lib.rs:928  parse_code *)
Definition is_digit (b : N) : bool := in_range 48 57 b.
Definition parse_code : P N :=
  h <- expect is_digit Status ;;
  t <- expect is_digit Status ;;
  o <- expect is_digit Status ;;
  ret ((h - 48) * 100 + (t - 48) * 10 + (o - 48)).

(* lib.rs:834  parse_reason *)
Definition reason_byte (b : N) : bool :=
  is 9 b || is SP b || in_range 33 126 b || (128 <=? b).
Fixpoint parse_reason_f (f : nat) (seen_obs_text : bool) : P sl :=
  match f with
  | O => fault_ OutOfFuel
  | S f' =>
      b <- next ;;
      if is CR b then
        expect (is LF) Status ;;;
        s <- slice_skip 2 ;;
        ret (if seen_obs_text then Ext [] else s)
      else if is LF b then
        s <- slice_skip 1 ;;
        ret (if seen_obs_text then Ext [] else s)
      else if negb (reason_byte b) then fail Status
      else parse_reason_f f' (seen_obs_text || (128 <=? b))
  end.
Definition parse_reason : P sl := parse_reason_f fuel false.

(* ------------------------------------------------------------------ *)
(* lib.rs:1007  parse_headers_iter_uninit                              *)

Record hcfg := mkhcfg {
  allow_spaces_after_header_name : bool;
  allow_obsolete_multiline_headers : bool;
  allow_space_before_first_header_name : bool;
  ignore_invalid_headers : bool
}.
Definition hcfg_default : hcfg := mkhcfg false false false false.

Variable hc : hcfg.

(* handle_invalid_char!: Err unless ignoring; else skip to the end of the line
   (NUL and a CR not followed by LF still fail), slice(), `continue 'headers` *)
Fixpoint skip_invalid_line (f : nat) (b : N) (e : err) : P unit :=
  match f with
  | O => fault_ OutOfFuel
  | S f' =>
      if is CR b then expect (is LF) e ;;; ret tt
      else if is LF b then ret tt
      else if is 0 b then fail e
      else b' <- next ;; skip_invalid_line f' b' e
  end.
Definition handle_invalid (b : N) (e : err) : P unit :=
  if negb (ignore_invalid_headers hc) then fail e
  else skip_invalid_line fuel b e ;;; slice ;;; ret tt.

(* what one trip through the 'headers loop body produced *)
Inductive hstep :=
| HEnd                          (* empty line: head is over *)
| HContinue                     (* `continue 'headers` without a header *)
| HHeader (name value : sl).    (* a (name, untrimmed value) pair *)

(* the `while let Some(peek) = bytes.peek() { SP|HT => next!, _ => break }` of the
   allow_space_before_first_header_name branch *)
Fixpoint skip_ws_peek (f : nat) : P unit :=
  match f with
  | O => fault_ OutOfFuel
  | S f' =>
      p <- peek ;;
      match p with
      | Some b => if is_ws b then next ;;; skip_ws_peek f' else ret tt
      | None => ret tt
      end
  end.

(* allow_spaces_after_header_name: `while b == SP|HT { b = next!; if b == ':' {slice; break 'name} }`
   None = colon found;  Some b = first byte that is neither whitespace nor the colon *)
Fixpoint after_name_ws (f : nat) (b : N) : P (option N) :=
  match f with
  | O => fault_ OutOfFuel
  | S f' =>
      if is_ws b then
        b' <- next ;;
        if is COLON b' then slice ;;; ret None else after_name_ws f' b'
      else ret (Some b)
  end.

(* maybe_continue_after_obsolete_line_folding!: true = continue the labelled loop *)
Definition fold_check : P bool :=
  if allow_obsolete_multiline_headers hc then
    p <- peek ;;
    match p with
    | None => part
    | Some b => ret (is_ws b)
    end
  else ret false.

Inductive vres :=
| VDropped                (* the line was invalid and has been skipped *)
| VValue (v : sl).

(* 'value_lines *)
Fixpoint value_lines (f : nat) : P vres :=
  match f with
  | O => fault_ OutOfFuel
  | S f' =>
      s_value E fuel ;;;
      b <- next ;;
      if is CR b then
        expect (is LF) HeaderValue ;;;
        c <- fold_check ;;
        if c then value_lines f' else v <- slice_skip 2 ;; ret (VValue v)
      else if is LF b then
        c <- fold_check ;;
        if c then value_lines f' else v <- slice_skip 1 ;; ret (VValue v)
      else handle_invalid b HeaderValue ;;; ret VDropped
  end.

(* 'whitespace_after_colon, falling into 'value_lines *)
Fixpoint ws_after_colon (f : nat) : P vres :=
  match f with
  | O => fault_ OutOfFuel
  | S f' =>
      b <- next ;;
      if is_ws b then slice ;;; ws_after_colon f'
      else if c_value E b then value_lines fuel
      else if is CR b then
        expect (is LF) HeaderValue ;;;
        c <- fold_check ;;
        if c then ws_after_colon f'
        else fun c0 => Done (VValue (Sub (pre c0) [])) (commit c0)
      else if is LF b then
        c <- fold_check ;;
        if c then ws_after_colon f'
        else fun c0 => Done (VValue (Sub (pre c0) [])) (commit c0)
      else handle_invalid b HeaderValue ;;; ret VDropped
  end.

(* one trip through the body of the 'headers loop, up to (not including) the
   slot write; `first` is `autoshrink.num_headers == 0` *)
Definition header_line (first : bool) : P hstep :=
  b <- next ;;
  if is CR b then expect (is LF) NewLine ;;; ret HEnd
  else if is LF b then ret HEnd
  else if negb (c_name E b) then
    if allow_space_before_first_header_name hc && first && is_ws b then
      skip_ws_peek fuel ;;; slice ;;; ret HContinue
    else handle_invalid b HeaderName ;;; ret HContinue
  else
    s_name E fuel ;;;
    b <- next ;;
    name <- slice_skip 1 ;;
    colon <- (if is COLON b then ret None
              else if allow_spaces_after_header_name hc then after_name_ws fuel b
              else ret (Some b)) ;;
    match colon with
    | Some bad => handle_invalid bad HeaderName ;;; ret HContinue
    | None =>
        v <- ws_after_colon fuel ;;
        match v with
        | VDropped => ret HContinue
        | VValue v => ret (HHeader name v)
        end
    end.

(* the trailing-whitespace trim (rposition over SP/HT/CR/LF) *)
Definition is_trim (b : N) : bool := is SP b || is HT b || is CR b || is LF b.
Fixpoint drop_while (p : N -> bool) (l : list N) : list N :=
  match l with [] => [] | b :: r => if p b then drop_while p r else l end.
Definition trim_value (v : sl) : sl :=
  match v with
  | Sub off bs =>
      match drop_while is_trim (rev' bs) with
      | [] => v          (* no visible byte: value_slice itself *)
      | t => Sub off (rev' t)
      end
  | Ext _ => v
  end.

(* the caller's header array *)
Inductive slot :=
| SOld (id : N)                  (* untouched: previous content #id (or poison) *)
| SWritten (name value : sl).

Fixpoint write_slot (i : nat) (s : slot) (a : list slot) : option (list slot) :=
  match a with
  | [] => None
  | x :: r =>
      match i with
      | O => Some (s :: r)
      | S j => match write_slot j s r with Some r' => Some (x :: r') | None => None end
      end
  end.

(* the 'headers loop; returns (result, num_headers, array) -- the ShrinkOnDrop
   guard is the `firstn num_headers` the callers apply *)
Fixpoint headers_loop (f : nat) (start : nat) (nh : nat) (arr : list slot) (c : cur)
  : status * nat * list slot :=
  match f with
  | O => (Faulted OutOfFuel, nh, arr)
  | S f' =>
      stage (header_line (Nat.eqb nh 0) c) (nh, arr)
        (fun st s => (st, fst s, snd s))
        (fun h c' =>
           match h with
           | HEnd => (Complete (apos c' - start), nh, arr)
           | HContinue => headers_loop f' start nh arr c'
           | HHeader name value =>
               match write_slot nh (SWritten name (trim_value value)) arr with
               | None => (Error TooManyHeaders, nh, arr)     (* iter.next() == None *)
               | Some arr' => headers_loop f' start (S nh) arr' c'
               end
           end)
  end.

Definition parse_headers_iter_uninit (arr : list slot) (c : cur) : status * nat * list slot :=
  headers_loop fuel (apos c) 0 arr c.

End WithEnv.

(* ------------------------------------------------------------------ *)
(* lib.rs:1258  parse_chunk_size  (uses no scanner and no class table)  *)

Definition two64 : N := 18446744073709551616.

Section Chunk.
Variable dbg : bool.    (* cfg!(debug_assertions) *)

Definition hex_lower (b : N) : bool := in_range 97 102 b.
Definition hex_upper (b : N) : bool := in_range 65 70 b.

(* the three digit arms share this shape; `d` is the digit value *)
Definition chunk_digit (count : nat) (size : N) (d : N) : option (nat * N) + fault :=
  if Nat.ltb 15 count then inl None                        (* count > 15 => Err *)
  else if dbg && (two64 / 16 - 1 <? size) then inl None    (* debug-only guard, size > u64::MAX/16 *)
  else
    let m := size * 16 in
    if two64 <=? m then inr ArithOverflow                  (* `size *= RADIX` (debug panics, release wraps) *)
    else if two64 <=? m + d then inr ArithOverflow
    else inl (Some (S count, m + d)).

Fixpoint chunk_loop (f : nat) (size : N) (in_chunk_size in_ext : bool) (count : nat)
  : P N :=
  match f with
  | O => fault_ OutOfFuel
  | S f' =>
      b <- next ;;
      let digit d :=
        match chunk_digit count size d with
        | inl (Some (cnt, sz)) => chunk_loop f' sz in_chunk_size in_ext cnt
        | inl None => fail InvalidChunkSize
        | inr flt => fault_ flt
        end in
      if is_digit b && in_chunk_size then digit (b - 48)
      else if hex_lower b && in_chunk_size then digit (b + 10 - 97)
      else if hex_upper b && in_chunk_size then digit (b + 10 - 65)
      else if (is CR b || is 59 b || is HT b || is SP b) && Nat.eqb count 0 then
        fail InvalidChunkSize                                (* the `fix:` arm *)
      else if is CR b then
        b' <- next ;; if is LF b' then ret size else fail InvalidChunkSize
      else if is 59 b && negb in_ext then chunk_loop f' size false true count
      else if is_ws b && negb in_ext && negb in_chunk_size then
        chunk_loop f' size in_chunk_size in_ext count
      else if is_ws b && in_chunk_size then chunk_loop f' size false in_ext count
      else if in_ext then chunk_loop f' size in_chunk_size in_ext count
      else fail InvalidChunkSize
  end.

Definition parse_chunk_size (buf : list N) : status * N :=
  match chunk_loop (S (length buf)) 0 true false 0 (cur_new buf) with
  | Done size c => (Complete (apos c), size)
  | Part => (Partial, 0)
  | Fail e => (Error e, 0)
  | Fault f => (Faulted f, 0)
  end.
End Chunk.
