(* CostTop.v -- the call sequences of lib.rs over the cost copies (C20): the same stage functions
   as Api.v's request_core / response_core / parse_headers and Model.v's headers_loop, in the same
   order, written as plain monadic programs so that the work counters reach the end of the call.
   The backward trim of a stored header value (`rposition`, lib.rs) is charged here: one tick per
   byte it walks over, plus one. *)
From Coq Require Import List NArith Bool.
From HV Require Import CursorC.
From HV.Generated Require Import CScan CModel.
Import ListNotations.

Definition trim_cost (v : sl) : nat :=
  S (length (sl_bytes v) - length (sl_bytes (trim_value v))).

Section Top.
Variable E : env.
Variable fuel : nat.

Fixpoint headers_prog (f : nat) (hc : hcfg) (cap nh : nat) : P nat :=
  match f with
  | O => fault_ OutOfFuel
  | S f' =>
      h <- header_line E fuel hc (Nat.eqb nh 0) ;;
      match h with
      | HEnd => ret nh
      | HContinue => headers_prog f' hc cap nh
      | HHeader name value =>
          if Nat.ltb nh cap then tick (trim_cost value) ;;; headers_prog f' hc cap (S nh)
          else fail TooManyHeaders
      end
  end.

Definition opt_spaces (ms : bool) : P unit := if ms then skip_spaces fuel else ret tt.

Definition request_prog (ms : bool) (hc : hcfg) (cap : nat) : P nat :=
  skip_empty_lines fuel ;;; parse_method E fuel ;;;
  opt_spaces ms ;;; parse_uri E fuel ;;;
  opt_spaces ms ;;; parse_version ;;;
  newline ;;; headers_prog fuel hc cap 0.

Definition after_code (ms : bool) : P sl :=
  b <- next ;;
  if is SP b then opt_spaces ms ;;; slice ;;; parse_reason fuel
  else if is CR b then expect (is LF) Status ;;; slice ;;; ret (Ext [])
  else if is LF b then slice ;;; ret (Ext [])
  else fail Status.

Definition response_prog (ms : bool) (hc : hcfg) (cap : nat) : P nat :=
  skip_empty_lines fuel ;;; parse_version ;;;
  space Version ;;; opt_spaces ms ;;; parse_code ;;;
  after_code ms ;;; headers_prog fuel hc cap 0.

Definition headers_only_prog (cap : nat) : P nat := headers_prog fuel hcfg_default cap 0.
End Top.

(* outcome class (0 Done, 1 Partial, 2 Err, 3 Fault), ticks, travel *)
Definition run_work {A} (p : P A) (buf : list N) : N * nat * nat :=
  match p (cur_new buf) with
  | Done _ c => (0%N, ticks c, travel c)
  | Part tk tr => (1%N, tk, tr)
  | Fail _ tk tr => (2%N, tk, tr)
  | Fault _ => (3%N, 0, 0)
  end.
