(* Imp.v -- target language of the statement-level translator (translator/lib2v.py, G9).

   The control-flow functions of src/lib.rs are translated, on every run, into this
   monad: cursor state (Cursor.cur) + a per-function record of the `let mut` locals +
   in-flight control signals (`break 'l v`, `continue 'l`, `return Ok(Complete(v))`).
   `return Ok(Status::Partial)` and `return Err(e)` end the call and keep the locals
   (the drop guard of parse_headers_iter_uninit needs them).

   Nothing here is specific to one function; Generated/Lib.v instantiates L, R and B. *)

From Coq Require Import List NArith Bool.
From HV Require Import Cursor.
Import ListNotations.

Inductive ctl (R B : Type) :=
| Brk (lbl : nat) (v : B)
| Cnt (lbl : nat)
| Ret (r : R).
Arguments Brk {R B}. Arguments Cnt {R B}. Arguments Ret {R B}.

(* value-level `Result<Status<A>>` (a Rust variable may hold one) *)
Inductive rval (A : Type) :=
| RComplete (a : A)
| RPartial
| RErr (e : err).
Arguments RComplete {A}. Arguments RPartial {A}. Arguments RErr {A}.

Section Imp.
Context {L R B : Type}.

Inductive ires (A : Type) :=
| IDone (a : A) (l : L) (c : cur)
| IPart (l : L)
| IFail (e : err) (l : L)
| IFault (f : fault) (l : L)
| IExc (x : ctl R B) (l : L) (c : cur).
Arguments IDone {A}. Arguments IPart {A}. Arguments IFail {A}. Arguments IFault {A}.
Arguments IExc {A}.

Definition I (A : Type) := L -> cur -> ires A.

Definition iret {A} (a : A) : I A := fun l c => IDone a l c.
Definition ibind {A C} (m : I A) (k : A -> I C) : I C := fun l c =>
  match m l c with
  | IDone a l' c' => k a l' c'
  | IPart l' => IPart l'
  | IFail e l' => IFail e l'
  | IFault f l' => IFault f l'
  | IExc x l' c' => IExc x l' c'
  end.

(* a cursor operation / a call of another parse function (`complete!(f(bytes))`, or `f(bytes)`
   as the result: Partial and Err of the callee are those of the caller) *)
Definition ilift {A} (p : P A) : I A := fun l c =>
  match p c with
  | Done a c' => IDone a l c'
  | Part => IPart l
  | Fail e => IFail e l
  | Fault f => IFault f l
  end.

Definition iget : I L := fun l c => IDone l l c.
Definition iset (f : L -> L) : I unit := fun l c => IDone tt (f l) c.
Definition ipart {A} : I A := fun l _ => IPart l.
Definition ifail {A} (e : err) : I A := fun l _ => IFail e l.
Definition ifault {A} (f : fault) : I A := fun l _ => IFault f l.
Definition ithrow {A} (x : ctl R B) : I A := fun l c => IExc x l c.

(* checked arithmetic: the translator emits one guard per operation that can overflow or
   underflow in the type rustc gives it *)
Definition iguard (b : bool) : I unit := if b then iret tt else ifault ArithOverflow.
(* slice indexing `&s[a..b]` panics when out of range *)
Definition iguard_idx (b : bool) : I unit := if b then iret tt else ifault LoadOOB.

(* a value-level Result used as the function result *)
Definition ireturn {A} (r : rval R) : I A :=
  match r with
  | RComplete a => ithrow (Ret a)
  | RPartial => ipart
  | RErr e => ifail e
  end.

(* `'lbl: loop { body }` as an expression of the break type *)
Fixpoint iloop (f : nat) (lbl : nat) (body : I unit) : I B :=
  match f with
  | O => ifault OutOfFuel
  | S f' => fun l c =>
      match body l c with
      | IDone _ l' c' => iloop f' lbl body l' c'
      | IExc (Cnt k) l' c' => if Nat.eqb k lbl then iloop f' lbl body l' c' else IExc (Cnt k) l' c'
      | IExc (Brk k v) l' c' => if Nat.eqb k lbl then IDone v l' c' else IExc (Brk k v) l' c'
      | IExc (Ret r) l' c' => IExc (Ret r) l' c'
      | IPart l' => IPart l'
      | IFail e l' => IFail e l'
      | IFault f l' => IFault f l'
      end
  end.

(* function boundary: `return Ok(Status::Complete(v))` lands here; a break / continue that
   escapes every loop cannot be written in Rust *)
Definition ifun (m : I R) : I R := fun l c =>
  match m l c with
  | IExc (Ret r) l' c' => IDone r l' c'
  | IExc _ l' _ => IFault Unreachable l'
  | other => other
  end.

(* view as a Cursor.P computation (locals dropped) *)
Definition irun (m : I R) (l0 : L) : P R := fun c =>
  match ifun m l0 c with
  | IDone a _ c' => Done a c'
  | IPart _ => Part
  | IFail e _ => Fail e
  | IFault f _ => Fault f
  | IExc _ _ _ => Fault Unreachable
  end.

End Imp.

Arguments IDone {L R B A}. Arguments IPart {L R B A}. Arguments IFail {L R B A}.
Arguments IFault {L R B A}. Arguments IExc {L R B A}.
Arguments I : clear implicits.
Arguments ires : clear implicits.

(* a call of a translated function that has its own locals: run `body` from `init l`, fold what its locals
   hold at the end (on EVERY exit) back into the caller's with `fin`; Partial / Err / Fault of the callee
   end the caller (`complete!`) *)
Definition isub {L R B L2 R2 B2} (body : I L2 R2 B2 R2) (init : L -> L2) (fin : L2 -> L -> L) : I L R B R2 :=
  fun l c =>
  match ifun body (init l) c with
  | IDone n lh c' => IDone n (fin lh l) c'
  | IPart lh => IPart (fin lh l)
  | IFail e lh => IFail e (fin lh l)
  | IFault f lh => IFault f (fin lh l)
  | IExc _ lh _ => IFault Unreachable (fin lh l)
  end.

Declare Scope imp_scope.
Delimit Scope imp_scope with imp.
Notation "x <~ m ;; k" := (ibind m (fun x => k))
  (at level 61, m at next level, right associativity) : imp_scope.
Notation "m ;;~ k" := (ibind m (fun _ => k))
  (at level 61, right associativity) : imp_scope.

(* helpers the generated code refers to *)
Definition opt_is (o : option N) (k : N) : bool :=
  match o with Some b => N.eqb b k | None => false end.
Definition in_rng (lo hi b : N) : bool := N.leb lo b && N.leb b hi.

(* integer widths for the overflow guards *)
Definition fits (w : N) (x : N) : bool := N.ltb x (2 ^ w).

(* `match self.callee(..) { Ok(Status::Complete(x)) => .., other => .. }`: the callee's Result as a VALUE (only a
   fault still ends everything); its locals are folded back on every outcome as for `isub` *)
Definition isub_catch {L R B L2 R2 B2} (body : I L2 R2 B2 R2) (init : L -> L2) (fin : L2 -> L -> L)
  : I L R B (rval R2) :=
  fun l c =>
  match ifun body (init l) c with
  | IDone n lh c' => IDone (RComplete n) (fin lh l) c'
  | IPart lh => IDone RPartial (fin lh l) c
  | IFail e lh => IDone (RErr e) (fin lh l) c
  | IFault f lh => IFault f (fin lh l)
  | IExc _ lh _ => IFault Unreachable (fin lh l)
  end.
