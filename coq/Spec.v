(* Spec.v -- the specification side: byte classes written from RFC 7230 and the
   property texts (not from the crate), and *reference parsers* written at the
   level of span / break on lists, with no cursor, no block scanning, no fast
   path and no checked operations.  Theorems relate the code-shaped model of
   Model.v / Api.v to these; the same definitions, extracted, are the oracles
   that are run on the implementation's observations. *)

From Coq Require Import List NArith Bool.
From HV Require Import Cursor Model Api.
Import ListNotations.

(* ---- classes (RFC 7230 section 3.2.6; property texts C05, C12) ---- *)
Definition alpha (b : N) : bool := in_range 65 90 b || in_range 97 122 b.
Definition digit (b : N) : bool := in_range 48 57 b.
(* "!" / "#" / "$" / "%" / "&" / "'" / "*" / "+" / "-" / "." / "^" / "_" / "`" / "|" / "~" *)
Definition tchar (b : N) : bool :=
  alpha b || digit b ||
  is 33 b || is 35 b || is 36 b || is 37 b || is 38 b || is 39 b || is 42 b || is 43 b ||
  is 45 b || is 46 b || is 94 b || is 95 b || is 96 b || is 124 b || is 126 b.
(* target: 0x21-0x7E and 0x80-0xFF *)
Definition uri_char (b : N) : bool := in_range 33 126 b || in_range 128 255 b.
(* header value: HTAB, 0x20-0x7E, 0x80-0xFF *)
Definition value_char (b : N) : bool := is 9 b || in_range 32 126 b || in_range 128 255 b.
(* reason-phrase as accepted: HTAB / SP / VCHAR / obs-text *)
Definition reason_char (b : N) : bool := is 9 b || is 32 b || in_range 33 126 b || in_range 128 255 b.
Definition hexdig (b : N) : bool := digit b || in_range 97 102 b || in_range 65 70 b.
Definition ws (b : N) : bool := is 32 b || is 9 b.

Fixpoint span (p : N -> bool) (l : list N) : list N * list N :=
  match l with
  | [] => ([], [])
  | b :: r => if p b then let (a, t) := span p r in (b :: a, t) else ([], l)
  end.

Definition null {A} (l : list A) : bool := match l with [] => true | _ => false end.

(* result of one reference stage: value, offset reached, remaining input *)
Inductive rres (A : Type) :=
| ROk (a : A) (off : nat) (rest : list N)
| RPart
| RErr (e : err).
Arguments ROk {A}. Arguments RPart {A}. Arguments RErr {A}.

Definition rbind {A B} (r : rres A) (k : A -> nat -> list N -> rres B) : rres B :=
  match r with ROk a off rest => k a off rest | RPart => RPart | RErr e => RErr e end.

(* ---- start lines ---- *)

(* zero or more leading empty lines (CRLF or LF) *)
Fixpoint ref_empty_lines (off : nat) (l : list N) : rres unit :=
  match l with
  | [] => RPart
  | b :: r =>
      if is 13 b then
        match r with
        | [] => RPart
        | b2 :: r2 => if is 10 b2 then ref_empty_lines (2 + off) r2 else RErr NewLine
        end
      else if is 10 b then ref_empty_lines (1 + off) r
      else ROk tt off l
  end.

(* a run of SP when the multi-space option is on; must be followed by something *)
Definition ref_spaces (on : bool) (off : nat) (l : list N) : rres unit :=
  if on then
    let (s, r) := span (is 32) l in
    match r with [] => RPart | _ => ROk tt (length s + off) r end
  else ROk tt off l.

(* method: 1*tchar SP *)
Definition ref_method (off : nat) (l : list N) : rres sl :=
  let (m, r) := span tchar l in
  match r with
  | [] => RPart
  | b :: r' =>
      if null m then RErr Token
      else if is 32 b then ROk (Sub off m) (S (length m) + off) r'
      else RErr Token
  end.

(* target: 1*(0x21-0x7E / 0x80-0xFF), valid UTF-8, SP *)
Definition ref_target (off : nat) (l : list N) : rres sl :=
  let (t, r) := span uri_char l in
  match r with
  | [] => RPart
  | b :: r' =>
      if negb (is 32 b) then RErr Token
      else if null t then RErr Token
      else if negb (utf8_valid t) then RErr Token
      else ROk (Sub off t) (S (length t) + off) r'
  end.

Fixpoint is_prefix (a b : list N) : bool :=
  match a, b with
  | [], _ => true
  | x :: a', y :: b' => N.eqb x y && is_prefix a' b'
  | _ :: _, [] => false
  end.

(* HTTP-version: the literal HTTP/1.0 or HTTP/1.1 *)
Definition HTTP1dot : list N := [72; 84; 84; 80; 47; 49; 46]%N.
Definition ref_version (off : nat) (l : list N) : rres N :=
  match take 8 l with
  | Some e =>
      if list_eqb e (HTTP1dot ++ [48]%N) then ROk 0%N (8 + off) (skipn 8 l)
      else if list_eqb e (HTTP1dot ++ [49]%N) then ROk 1%N (8 + off) (skipn 8 l)
      else RErr Version
  | None => if is_prefix l HTTP1dot then RPart else RErr Version
  end.

(* line end: CRLF or LF *)
Definition ref_eol (e : err) (off : nat) (l : list N) : rres unit :=
  match l with
  | [] => RPart
  | b :: r =>
      if is 13 b then
        match r with
        | [] => RPart
        | b2 :: r2 => if is 10 b2 then ROk tt (2 + off) r2 else RErr e
        end
      else if is 10 b then ROk tt (1 + off) r
      else RErr e
  end.

Record ref_start_req := { rs_method : option sl; rs_path : option sl; rs_version : option N }.

(* request line; returns the fields recognised so far together with the stage result *)
Definition ref_request_line (ms : bool) (l : list N) : ref_start_req * rres unit :=
  match ref_empty_lines 0 l with
  | ROk _ o1 l1 =>
    match ref_method o1 l1 with
    | ROk m o2 l2 =>
      match rbind (ref_spaces ms o2 l2) (fun _ o l => ref_target o l) with
      | ROk p o3 l3 =>
        match rbind (ref_spaces ms o3 l3) (fun _ o l => ref_version o l) with
        | ROk v o4 l4 =>
            (Build_ref_start_req (Some m) (Some p) (Some v), ref_eol NewLine o4 l4)
        | RPart => (Build_ref_start_req (Some m) (Some p) None, RPart)
        | RErr e => (Build_ref_start_req (Some m) (Some p) None, RErr e)
        end
      | RPart => (Build_ref_start_req (Some m) None None, RPart)
      | RErr e => (Build_ref_start_req (Some m) None None, RErr e)
      end
    | RPart => (Build_ref_start_req None None None, RPart)
    | RErr e => (Build_ref_start_req None None None, RErr e)
    end
  | RPart => (Build_ref_start_req None None None, RPart)
  | RErr e => (Build_ref_start_req None None None, RErr e)
  end.

(* status line *)
Definition ref_sp (e : err) (off : nat) (l : list N) : rres unit :=
  match l with
  | [] => RPart
  | b :: r => if is 32 b then ROk tt (S off) r else RErr e
  end.

Definition ref_code (off : nat) (l : list N) : rres N :=
  match l with
  | a :: r1 =>
      if negb (digit a) then RErr Status else
      match r1 with
      | b :: r2 =>
          if negb (digit b) then RErr Status else
          match r2 with
          | c :: r3 =>
              if negb (digit c) then RErr Status
              else ROk ((a - 48) * 100 + (b - 48) * 10 + (c - 48))%N (3 + off) r3
          | [] => RPart
          end
      | [] => RPart
      end
  | [] => RPart
  end.

(* reason-phrase up to the line end; empty string located elsewhere when any byte >= 0x80 *)
Definition ref_reason (off : nat) (l : list N) : rres sl :=
  let (t, r) := span reason_char l in
  let s := if forallb (fun b => N.ltb b 128) t then Sub off t else Ext [] in
  match ref_eol Status (length t + off) r with
  | ROk _ o r' => ROk s o r'
  | RPart => RPart
  | RErr e => RErr e
  end.

(* after the code: line end (no reason), or SP reason line-end *)
Definition ref_after_code (ms : bool) (off : nat) (l : list N) : rres sl :=
  match l with
  | [] => RPart
  | b :: r =>
      if is 32 b then rbind (ref_spaces ms (S off) r) (fun _ o l => ref_reason o l)
      else if is 13 b || is 10 b then
        match ref_eol Status off l with
        | ROk _ o r' => ROk (Ext []) o r'
        | RPart => RPart
        | RErr e => RErr e
        end
      else RErr Status
  end.

Record ref_start_resp := { rs_pversion : option N; rs_code : option N; rs_reason : option sl }.

Definition ref_status_line (ms : bool) (l : list N) : ref_start_resp * rres unit :=
  match rbind (ref_empty_lines 0 l) (fun _ o l => ref_version o l) with
  | ROk v o1 l1 =>
    match rbind (rbind (ref_sp Version o1 l1) (fun _ o l => ref_spaces ms o l))
                (fun _ o l => ref_code o l) with
    | ROk c o2 l2 =>
      match ref_after_code ms o2 l2 with
      | ROk r o3 l3 => (Build_ref_start_resp (Some v) (Some c) (Some r), ROk tt o3 l3)
      | RPart => (Build_ref_start_resp (Some v) (Some c) None, RPart)
      | RErr e => (Build_ref_start_resp (Some v) (Some c) None, RErr e)
      end
    | RPart => (Build_ref_start_resp (Some v) None None, RPart)
    | RErr e => (Build_ref_start_resp (Some v) None None, RErr e)
    end
  | RPart => (Build_ref_start_resp None None None, RPart)
  | RErr e => (Build_ref_start_resp None None None, RErr e)
  end.

(* ---- header block ---- *)

(* remove trailing SP / HTAB / CR / LF *)
Definition rtrim (l : list N) : list N :=
  rev' (drop_while is_trim (rev' l)).

(* what a physical header line (or folded group of lines) turns out to be *)
Inductive rline :=
| LEnd                         (* the empty line that ends the head *)
| LSkip                        (* nothing stored: stripped leading whitespace, or a dropped line *)
| LHeader (name value : sl).

(* an invalid line starting at its offending byte: dropped through its LF when
   ignoring is on, unless it holds a NUL or a CR not followed by LF *)
Definition ref_invalid (ignore : bool) (e : err) (off : nat) (l : list N) : rres rline :=
  if negb ignore then RErr e else
  let (junk, r) := span (fun b => negb (is 13 b || is 10 b || is 0 b)) l in
  match r with
  | [] => RPart
  | b :: r1 =>
      if is 0 b then RErr e
      else if is 10 b then ROk LSkip (S (length junk) + off) r1
      else match r1 with
           | [] => RPart
           | b2 :: r2 => if is 10 b2 then ROk LSkip (2 + length junk + off) r2 else RErr e
           end
  end.

(* line end at the head of l: Some (offset after it, rest), None if not complete/valid *)
Inductive eol_res := EolOk (off : nat) (rest : list N) | EolPart | EolBad | EolNone.
Definition eol_at (off : nat) (l : list N) : eol_res :=
  match l with
  | [] => EolPart
  | b :: r =>
      if is 13 b then
        match r with
        | [] => EolPart
        | b2 :: r2 => if is 10 b2 then EolOk (2 + off) r2 else EolBad
        end
      else if is 10 b then EolOk (S off) r
      else EolNone
  end.

Section Headers.
Variable hc : hcfg.
Let fold := allow_obsolete_multiline_headers hc.
Let ignore := ignore_invalid_headers hc.

(* the value proper: value bytes, a line end and -- with obsolete folding, when the
   byte after the line end is SP / HTAB -- more of the same.  `racc` holds the raw
   value taken so far, most recent byte first; the result is the raw value with
   trailing SP / HTAB / CR / LF removed, located at `voff`. *)
Fixpoint ref_value_lines (voff : nat) (racc : list N) (off : nat) (l : list N) : rres sl :=
  match l with
  | [] => RPart
  | b :: r =>
      if value_char b then ref_value_lines voff (b :: racc) (S off) r
      else if is 13 b then
        match r with
        | [] => RPart
        | b2 :: r2 =>
            if negb (is 10 b2) then RErr HeaderValue
            else if fold then
              match r2 with
              | [] => RPart
              | b3 :: _ =>
                  if ws b3 then ref_value_lines voff (10%N :: 13%N :: racc) (2 + off) r2
                  else ROk (Sub voff (rev' (drop_while is_trim racc))) (2 + off) r2
              end
            else ROk (Sub voff (rev' (drop_while is_trim racc))) (2 + off) r2
        end
      else if is 10 b then
        if fold then
          match r with
          | [] => RPart
          | b3 :: _ =>
              if ws b3 then ref_value_lines voff (10%N :: racc) (S off) r
              else ROk (Sub voff (rev' (drop_while is_trim racc))) (S off) r
          end
        else ROk (Sub voff (rev' (drop_while is_trim racc))) (S off) r
      else
        rbind (ref_invalid ignore HeaderValue off l) (fun _ o r => ROk (Ext [255%N]) o r)
        (* a dropped line: flagged to the caller by the impossible slice Ext [255] *)
  end.

(* after the colon: optional whitespace (with folding: also line ends that are
   followed by SP / HTAB), then the value, or a line end giving the empty value *)
Fixpoint ref_value_start (off : nat) (l : list N) : rres sl :=
  match l with
  | [] => RPart
  | b :: r =>
      if ws b then ref_value_start (S off) r
      else if value_char b then ref_value_lines off [] off l
      else if is 13 b then
        match r with
        | [] => RPart
        | b2 :: r2 =>
            if negb (is 10 b2) then RErr HeaderValue
            else if fold then
              match r2 with
              | [] => RPart
              | b3 :: _ =>
                  if ws b3 then ref_value_start (2 + off) r2 else ROk (Sub off []) (2 + off) r2
              end
            else ROk (Sub off []) (2 + off) r2
        end
      else if is 10 b then
        if fold then
          match r with
          | [] => RPart
          | b3 :: _ => if ws b3 then ref_value_start (S off) r else ROk (Sub off []) (S off) r
          end
        else ROk (Sub off []) (S off) r
      else
        rbind (ref_invalid ignore HeaderValue off l) (fun _ o r => ROk (Ext [255%N]) o r)
  end.

Definition dropped (v : sl) : bool := match v with Ext (_ :: _) => true | _ => false end.

Definition ref_value (name : sl) (off : nat) (l : list N) : rres rline :=
  rbind (ref_value_start off l) (fun v o r =>
    ROk (if dropped v then LSkip else LHeader name v) o r).

(* one header line (with folding: one folded group), from its first byte *)
Definition ref_header_line (first : bool) (off : nat) (l : list N) : rres rline :=
  match l with
  | [] => RPart
  | b :: r =>
      if is 13 b then
        match r with
        | [] => RPart
        | b2 :: r2 => if is 10 b2 then ROk LEnd (2 + off) r2 else RErr NewLine
        end
      else if is 10 b then ROk LEnd (S off) r
      else if negb (tchar b) then
        if allow_space_before_first_header_name hc && first && ws b then
          let (w, r') := span ws l in ROk LSkip (length w + off) r'
        else ref_invalid ignore HeaderName off l
      else
        let (name, r1) := span tchar l in
        let o1 := length name + off in
        match r1 with
        | [] => RPart
        | c :: r2 =>
            if is 58 c then ref_value (Sub off name) (S o1) r2
            else if allow_spaces_after_header_name hc && ws c then
              let (w, r3) := span ws r1 in
              let o3 := length w + o1 in
              match r3 with
              | [] => RPart
              | c' :: r4 =>
                  if is 58 c' then ref_value (Sub off name) (S o3) r4
                  else ref_invalid ignore HeaderName o3 r3
              end
            else ref_invalid ignore HeaderName o1 r1
        end
  end.

(* the header block: lines until the empty line; at most `cap` headers are kept *)
Fixpoint ref_header_block (fuel : nat) (cap : nat) (hs : list (sl * sl)) (off : nat) (l : list N)
  : status * list (sl * sl) :=
  match fuel with
  | O => (Faulted OutOfFuel, hs)
  | S f =>
      match ref_header_line (null hs) off l with
      | ROk LEnd o _ => (Complete o, hs)
      | ROk LSkip o r => ref_header_block f cap hs o r
      | ROk (LHeader n v) o r =>
          if Nat.ltb (length hs) cap then ref_header_block f cap (hs ++ [(n, v)]) o r
          else (Error TooManyHeaders, hs)
      | RPart => (Partial, hs)
      | RErr e => (Error e, hs)
      end
  end.
End Headers.

Definition ref_headers (hc : hcfg) (cap : nat) (off : nat) (l : list N) : status * list (sl * sl) :=
  ref_header_block hc (S (length l)) cap [] off l.

(* ---- whole messages ---- *)
Record ref_req := { rq_status : status; rq_start : ref_start_req; rq_headers : list (sl * sl) }.
Record ref_resp := { rp_status : status; rp_start : ref_start_resp; rp_headers : list (sl * sl) }.

Definition rres_status {A} (r : rres A) : status :=
  match r with ROk _ o _ => Complete o | RPart => Partial | RErr e => Error e end.

Definition ref_request (cf : config) (cap : nat) (buf : list N) : ref_req :=
  match ref_request_line (allow_multiple_spaces_in_request_line_delimiters cf) buf with
  | (st, ROk _ o r) =>
      let (s, hs) := ref_headers (request_hcfg cf) cap o r in Build_ref_req s st hs
  | (st, RPart) => Build_ref_req Partial st []
  | (st, RErr e) => Build_ref_req (Error e) st []
  end.

Definition ref_response (cf : config) (cap : nat) (buf : list N) : ref_resp :=
  match ref_status_line (allow_multiple_spaces_in_response_status_delimiters cf) buf with
  | (st, ROk _ o r) =>
      let (s, hs) := ref_headers (response_hcfg cf) cap o r in Build_ref_resp s st hs
  | (st, RPart) => Build_ref_resp Partial st []
  | (st, RErr e) => Build_ref_resp (Error e) st []
  end.

(* ---- chunk size ---- *)
Definition hexval (b : N) : N :=
  (if digit b then b - 48 else if in_range 97 102 b then b - 87 else b - 55)%N.
Definition hex_value (ds : list N) : N := fold_left (fun acc d => acc * 16 + hexval d)%N ds 0%N.

(* 1*16HEXDIG *( SP / HTAB ) [ ";" *( any byte but CR ) ] CRLF *)
Definition ref_chunk (buf : list N) : status * N :=
  let (ds, r1) := span hexdig buf in
  if Nat.ltb 16 (length ds) then (Error InvalidChunkSize, 0%N)
  else
  match r1 with
  | [] => (Partial, 0%N)
  | _ =>
    if null ds then (Error InvalidChunkSize, 0%N) else
    let (w, r2) := span ws r1 in
    let o2 := length w + length ds in
    match r2 with
    | [] => (Partial, 0%N)
    | b :: r3 =>
        let crlf (o : nat) (l : list N) :=
          match l with
          | [] => (Partial, 0%N)
          | c :: l' =>
              match l' with
              | [] => (Partial, 0%N)
              | d :: _ => if is 10 d then (Complete (2 + o), hex_value ds)
                          else (Error InvalidChunkSize, 0%N)
              end
          end in
        if is 13 b then crlf o2 r2
        else if is 59 b then
          let (e, r4) := span (fun x => negb (is 13 x)) r3 in
          match r4 with
          | [] => (Partial, 0%N)
          | _ => crlf (S (length e) + o2) r4
          end
        else (Error InvalidChunkSize, 0%N)
    end
  end.
