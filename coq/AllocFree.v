(* AllocFree.v -- C19, static half: the crate's names are closed over `core` and the crate itself.

   Generated/Names.v (regenerated from /repo on every run) lists, per source file and with test
   items and verification hooks removed: the first segment of every path, the names brought in by
   `use`, the macros invoked, the method names called and all identifiers; and, for the crate, the
   #![no_std] attribute, `extern crate` items, the items it defines and the items gated on
   feature "std".  [alloc_free_check] says:

   - the crate root carries #![cfg_attr(not(feature = "std"), no_std)] and there is no `extern crate`
     (so no `alloc`);
   - every path starts at core / crate / self / super / Self, at a primitive type, at a core-prelude
     name, at an item the crate defines, or at a name imported by a `use` whose own root is one of
     core / crate / self / super;
   - `std::` appears only in src/simd/runtime.rs (compiled only when build.rs sets httparse_simd,
     which it does only with feature "std": Thm/C13 build_script_table) and only as
     std::sync::atomic; the only std macro used is is_x86_feature_detected!, only there;
   - the only item gated on feature "std" is `impl std::error::Error for Error` with a body that
     calls description_str;
   - macros and methods come from explicit lists of crate macros / core macros and of crate
     methods / core methods, none of which allocates;
   - none of the std-prelude names that allocate (Vec, String, Box, ToString, ...) occurs anywhere.

   What this does NOT prove: that rustc resolves names as assumed, that `core` itself does not
   allocate (it cannot: it has no allocator), and that the listed core methods are the ones
   resolved.  Those are the trusted steps from this name closure to "no heap allocation"; the
   dynamic half (counting allocator around every call; no_std builds) is run by ./check C19. *)
From Coq Require Import List String Bool.
From HV.Generated Require Import Names.
Import ListNotations.
Local Open Scope string_scope.

Definition mem (x : string) (l : list string) : bool := existsb (String.eqb x) l.
Definition null {A} (l : list A) : bool := match l with [] => true | _ => false end.

Definition base_roots : list string := ["core"; "crate"; "self"; "super"; "Self"; "clippy"].
Definition primitives : list string :=
  ["u8"; "u16"; "u32"; "u64"; "u128"; "usize"; "i8"; "i16"; "i32"; "i64"; "i128"; "isize"; "str"; "char"; "bool"].
Definition core_prelude : list string := ["Default"; "Option"; "Some"; "None"; "Result"; "Ok"; "Err"; "Iterator"; "Copy"; "Clone"].
(* an intrinsic from `use core::arch::aarch64::*` called with a turbofish *)
Definition glob_intrinsics : list string := ["vgetq_lane_u64"].

Definition std_file (f : file_names) : bool := String.eqb (fn_path f) "src/simd/runtime.rs".
Definition std_paths_allowed : list string := ["std::sync::atomic"].
Definition std_gated_allowed : list (string * string) :=
  [("src/lib.rs", "impl std :: error :: Error for Error { fn description ( & self ) -> & str { self . description_str ( ) } }")].

Definition core_macros : list string :=
  ["debug_assert"; "assert"; "assert_eq"; "unreachable"; "panic"; "matches"; "cfg"; "macro_rules"].
Definition std_macros_in_std_file : list string := ["is_x86_feature_detected"].

(* methods of core types used by the crate: raw pointers, slices, integers, iterators, Option/Result,
   fmt::Formatter / DebugStruct, atomics *)
Definition core_methods : list string :=
  ["add"; "sub"; "offset_from"; "as_ptr"; "get"; "len"; "ok"; "try_into"; "contains"; "debug_struct"; "field"; "finish";
   "get_unchecked_mut"; "iter"; "iter_mut"; "rposition"; "write_str"; "trailing_ones"; "copied"; "enumerate";
   "to_ne_bytes"; "wrapping_sub"; "load"; "store"].

Definition deny_idents : list string :=
  ["Vec"; "String"; "Box"; "Rc"; "Arc"; "Cow"; "ToString"; "ToOwned"; "HashMap"; "HashSet"; "BTreeMap"; "BTreeSet";
   "VecDeque"; "LinkedList"; "BinaryHeap"; "alloc"; "vec"; "format"; "to_vec"; "to_string"; "to_owned"; "into_boxed_slice";
   "into_vec"; "with_capacity"; "println"; "eprintln"; "print"; "eprint"; "dbg"; "thread_local"; "lazy_static"; "OnceLock";
   "Mutex"; "RwLock"; "CString"; "OsString"; "PathBuf"].

Definition pair_eqb (a b : string * string) : bool := String.eqb (fst a) (fst b) && String.eqb (snd a) (snd b).

Definition root_ok (f : file_names) (r : string) : bool :=
  mem r base_roots || mem r primitives || mem r core_prelude || mem r crate_defined || mem r glob_intrinsics ||
  existsb (fun imp => String.eqb (snd imp) r) (fn_imports f) ||
  (std_file f && String.eqb r "std").
Definition import_ok (f : file_names) (imp : string * string) : bool :=
  mem (fst imp) ["core"; "crate"; "self"; "super"] || (std_file f && String.eqb (fst imp) "std").
Definition macro_ok (f : file_names) (m : string) : bool :=
  mem m core_macros || mem m crate_defined || (std_file f && mem m std_macros_in_std_file).
Definition method_ok (m : string) : bool := mem m core_methods || mem m crate_defined.

Definition file_ok (f : file_names) : bool :=
  forallb (root_ok f) (fn_roots f) &&
  forallb (import_ok f) (fn_imports f) &&
  (std_file f || null (fn_std_paths f)) &&
  forallb (fun p => mem p std_paths_allowed) (fn_std_paths f) &&
  forallb (macro_ok f) (fn_macros f) &&
  forallb method_ok (fn_methods f) &&
  forallb (fun i => negb (mem i deny_idents)) (fn_idents f).

Definition alloc_free_check : bool :=
  crate_no_std_attr && null crate_extern_crates &&
  forallb (fun g => existsb (pair_eqb g) std_gated_allowed) crate_std_gated &&
  negb (null crate_files) &&
  forallb file_ok crate_files.
