(* ExtractC.v -- extraction of the cost model (C20) to OCaml, ExtrOcamlBasic only. *)
From Coq Require Extraction.
From Coq Require Import ExtrOcamlBasic.
From Coq Require Import List NArith.
From HV Require Import CursorC CostTop.
From HV.Generated Require Import CScan CModel CBackends.

Extraction "cmodel.ml"
  env_of request_prog response_prog headers_only_prog chunk_loop run_work mkhcfg hcfg_default.
