(* Thm/C17.v -- header storage: exact count, capacity law, untouched and never-uninit slots. *)
From Coq Require Import List NArith Bool Lia.
From HV Require Import Cursor Scan Model Api Spec.
From HV.Proofs Require Import Base EnvOk Refine Entries Storage.
Import ListNotations.

(* Complete: `headers` is exactly the reference's header list (one element per accepted line,
   each a header parsed from this buffer); it is the first k slots of the caller's array and
   the slots beyond k keep their previous contents *)
Theorem complete_count : forall E, env_ok E -> forall e cf buf arr rq n, bytes_ok buf ->
  let res := request_call E e cf buf arr rq in
  let base := if uses_array e then arr else q_hdrs rq in
  fst (fst res) = Complete n ->
  let hs := rq_headers (ref_request (eff_cfg e cf) (length base) buf) in
  q_hdrs (snd (fst res)) = written_of hs /\
  Forall is_written (q_hdrs (snd (fst res))) /\
  length hs <= length base /\
  firstn (length hs) (snd res) = written_of hs /\
  skipn (length hs) (snd res) = skipn (length hs) base.
Proof.
  intros E HE e cf buf arr rq n Hb. cbn zeta. rewrite (request_call_ref E HE) by exact Hb.
  rewrite req_call_status, req_call_array. intros Hn.
  rewrite (req_call_complete e cf buf arr rq n Hn). cbn [q_hdrs].
  unfold req_cap in *.
  assert (Hlen : length (rq_headers (ref_request (eff_cfg e cf) (length (if uses_array e then arr else q_hdrs rq)) buf))
                 <= length (if uses_array e then arr else q_hdrs rq)) by apply ref_request_headers_len.
  destruct (uses_array e); repeat split; try apply written_of_all; try exact Hlen; apply slots_of_split; exact Hlen.
Qed.
Print Assumptions complete_count.

Theorem complete_count_response : forall E, env_ok E -> forall e cf buf arr rp n, bytes_ok buf ->
  let res := response_call E e cf buf arr rp in
  let base := if uses_array e then arr else p_hdrs rp in
  fst (fst res) = Complete n ->
  let hs := rp_headers (ref_response (eff_cfg e cf) (length base) buf) in
  p_hdrs (snd (fst res)) = written_of hs /\
  Forall is_written (p_hdrs (snd (fst res))) /\
  length hs <= length base /\
  firstn (length hs) (snd res) = written_of hs /\
  skipn (length hs) (snd res) = skipn (length hs) base.
Proof.
  intros E HE e cf buf arr rp n Hb. cbn zeta. rewrite (response_call_ref E HE) by exact Hb.
  rewrite resp_call_status, resp_call_array. intros Hn.
  rewrite (resp_call_complete e cf buf arr rp n Hn). cbn [p_hdrs].
  unfold resp_cap in *.
  assert (Hlen : length (rp_headers (ref_response (eff_cfg e cf) (length (if uses_array e then arr else p_hdrs rp)) buf))
                 <= length (if uses_array e then arr else p_hdrs rp)) by apply ref_response_headers_len.
  destruct (uses_array e); repeat split; try apply written_of_all; try exact Hlen; apply slots_of_split; exact Hlen.
Qed.
Print Assumptions complete_count_response.

(* capacity law: with capacity cap the outcome is the outcome with any larger capacity cap',
   unless that run completes more than cap header lines -- then it is Err(TooManyHeaders) *)
Theorem capacity_law : forall cf cap cap' buf, cap <= cap' ->
  (let r' := ref_request cf cap' buf in
   ref_request cf cap buf =
   if Nat.leb (length (rq_headers r')) cap then r'
   else Build_ref_req (Error TooManyHeaders) (rq_start r') (firstn cap (rq_headers r'))) /\
  (let r' := ref_response cf cap' buf in
   ref_response cf cap buf =
   if Nat.leb (length (rp_headers r')) cap then r'
   else Build_ref_resp (Error TooManyHeaders) (rp_start r') (firstn cap (rp_headers r'))) /\
  (forall hc off l,
   let r' := ref_headers hc cap' off l in
   ref_headers hc cap off l =
   if Nat.leb (length (snd r')) cap then r' else (Error TooManyHeaders, firstn cap (snd r'))).
Proof.
  intros cf cap cap' buf Hc. split; [apply capacity_law_request; exact Hc|].
  split; [apply capacity_law_response; exact Hc|]. intros. apply capacity_law_headers. exact Hc.
Qed.
Print Assumptions capacity_law.

(* Partial / Err: the initialised entry points leave `headers` referring to the whole array
   (each slot its previous content or a header of this buffer); the uninit entry points leave
   `headers` untouched *)
Theorem non_complete_restores : forall E, env_ok E -> forall e cf buf arr rq, bytes_ok buf ->
  let res := request_call E e cf buf arr rq in
  (forall n, fst (fst res) <> Complete n) ->
  (uses_array e = false ->
     q_hdrs (snd (fst res)) = snd res /\ length (snd res) = length (q_hdrs rq) /\
     exists hs, length hs <= length (q_hdrs rq) /\ snd res = written_of hs ++ skipn (length hs) (q_hdrs rq)) /\
  (uses_array e = true -> q_hdrs (snd (fst res)) = q_hdrs rq).
Proof.
  intros E HE e cf buf arr rq Hb. cbn zeta. rewrite (request_call_ref E HE) by exact Hb. intros Hn.
  rewrite (req_call_hdrs_incomplete e cf buf arr rq Hn), req_call_array. unfold req_cap.
  split; intros Hu; rewrite Hu; [|reflexivity].
  pose proof (ref_request_headers_len (eff_cfg e cf) (length (q_hdrs rq)) buf) as Hl.
  split; [reflexivity|]. split; [apply slots_of_length; exact Hl|].
  eexists. split; [exact Hl|reflexivity].
Qed.
Print Assumptions non_complete_restores.

Theorem non_complete_restores_response : forall E, env_ok E -> forall e cf buf arr rp, bytes_ok buf ->
  let res := response_call E e cf buf arr rp in
  (forall n, fst (fst res) <> Complete n) ->
  (uses_array e = false ->
     p_hdrs (snd (fst res)) = snd res /\ length (snd res) = length (p_hdrs rp) /\
     exists hs, length hs <= length (p_hdrs rp) /\ snd res = written_of hs ++ skipn (length hs) (p_hdrs rp)) /\
  (uses_array e = true -> p_hdrs (snd (fst res)) = p_hdrs rp).
Proof.
  intros E HE e cf buf arr rp Hb. cbn zeta. rewrite (response_call_ref E HE) by exact Hb. intros Hn.
  rewrite (resp_call_hdrs_incomplete e cf buf arr rp Hn), resp_call_array. unfold resp_cap.
  split; intros Hu; rewrite Hu; [|reflexivity].
  pose proof (ref_response_headers_len (eff_cfg e cf) (length (p_hdrs rp)) buf) as Hl.
  split; [reflexivity|]. split; [apply slots_of_length; exact Hl|].
  eexists. split; [exact Hl|reflexivity].
Qed.
Print Assumptions non_complete_restores_response.

(* non-vacuity: three header lines into two slots *)
Example capacity_example :
  let buf := [65;58;49;10;66;58;50;10;67;58;51;10;10]%N in
  fst (ref_headers hcfg_default 2 0 buf) = Error TooManyHeaders /\
  fst (ref_headers hcfg_default 3 0 buf) = Complete 13 /\
  length (snd (ref_headers hcfg_default 3 0 buf)) = 3.
Proof. vm_compute. repeat split. Qed.

(* ---- tie to the source: every statement above is about Model.v / Api.v; Proofs/Src*.v prove that the
   functions TRANSLATED from /repo/src/lib.rs on this run (Generated/Lib.v, LibApi.v) compute the same
   results, for every environment whose scanners only move forward (all concrete backends do), so each
   theorem of this file holds of the translated source by rewriting with `source_tie`.  Only the entry-point
   families this property speaks about are imported (Req, Resp) ---- *)
From HV Require Import Backends.
From HV.Proofs Require Import Mono BackendsFwd SrcReq SrcResp.
Theorem source_tie : forall E, env_fwd E -> request_source_is_model E /\ response_source_is_model E.
Proof. intros E HE. repeat split; first [apply src_tie_request | apply src_tie_response]; exact HE. Qed.
Print Assumptions source_tie.
Theorem source_tie_backends : forall W be, request_source_is_model (env_of W be) /\ response_source_is_model (env_of W be).
Proof. intros W be. apply source_tie, backends_fwd. Qed.
Print Assumptions source_tie_backends.

(* ---- the scanners and class tables of THIS run.  The theorems above hold for every environment E with `env_ok E`
   (each scanner stops exactly at the first byte outside its class; the class predicates are the classes of the
   property).  Every concrete backend -- word-at-a-time with any word width, SSE4.2, AVX2, NEON, the runtime dispatch
   with any cached id -- built from the kernels, loop shells and CLASS TABLES translated from /repo on this run
   satisfies it (Proofs/BackendsOk.v over Generated/{Classes,Swar,Sse42,Avx2,Neon}.v; Thm/C12.v states the parts), so
   the theorems hold of the code as it is now; a table entry or a kernel that is not the class breaks this obligation
   of THIS property, not only C12's ---- *)
From HV Require Backends.
From HV.Proofs Require BackendsOk.
Theorem backends_of_this_run_ok : forall W, 0 < W -> forall be, env_ok (Backends.env_of W be).
Proof. exact BackendsOk.env_of_ok. Qed.
Print Assumptions backends_of_this_run_ok.
(* ... and the scanner loop shells and SWAR helpers translated on this run are the ones `Backends.env_of` is built from *)
From HV.Proofs Require TieLoops TieSwarFns.
Theorem loop_shells_of_this_run : TieLoops.loop_shells_tied.
Proof. exact TieLoops.loop_shells_tied_pf. Qed.
Print Assumptions loop_shells_of_this_run.

