(* Thm/C20.v -- linear work.

   The objects: Generated/CScan.v, CModel.v, CBackends.v, CSse42/CAvx2/CNeon.v are textual copies
   (made by the translator on every run) of Scan.v, Model.v, Backends.v and the translated loop
   shells, compiled against CursorC.v: the same cursor operations, each charging one tick, with
   `travel` counting the bytes the cursor moves over.  CostTop.v sequences them exactly as
   Api.v / Model.v headers_loop do and charges the backward trim of each stored header value.

   Theorems, for every backend (any word width W >= 1), configuration, capacity and buffer:
     - ticks spent by a request / response / header-block / chunk-size call
         <= 32 * |buf| + 80       whatever the outcome (Complete, Partial, Err);
     - travel <= |buf|, and travel + |unread| = |buf| when the call completes: the cursor moves
       strictly forward, over each byte exactly once;
     - set_cursor (the only operation of iter.rs that could move the cursor backward) is not
       called anywhere in the crate (over Generated/Names.v).

   PARTIAL: this is a statement about the cost model.  It is tied to the crate by the
   correspondence check (status and travel of the extracted cost model against the
   cfg(httparse_verif) counters of the real code, every backend), not by a proof; instruction
   counts, cache effects and wall-clock time are outside the model and are measured, not proved. *)
From Coq Require Import List NArith ZArith Lia Bool String.
From HV Require Import CursorC CostTop AllocFree.
From HV.Generated Require Import Names Cfg CScan CModel CBackends.
From HV.Proofs Require Import Work.
Import ListNotations.

Definition work_ok {A} (p : P A) (buf : list N) : Prop :=
  let '(cls, tk, tr) := run_work p buf in
  cls <> 3%N ->
  tk <= 32 * List.length buf + 80 /\ tr <= List.length buf.

Lemma work_from_lin {A} (p : P A) buf :
  lin 32 40 80 p -> cons p -> work_ok p buf.
Proof.
  intros Hl Hc. unfold work_ok, run_work. specialize (Hl (cur_new buf)). specialize (Hc (cur_new buf)).
  unfold Phi, bud in *. cbn [cur_new ticks rest tokrev travel List.length] in *.
  destruct (p (cur_new buf)) as [x c'|tk tr|e tk tr|f]; intros Hne; [| | |congruence]; (split; [|lia]).
  - cbn beta in Hl. assert (Z.of_nat (ticks c') <= 32 * Z.of_nat (List.length buf) + 40)%Z by lia. lia.
  - lia.
  - lia.
Qed.

Theorem request_work_linear : forall W b ms hc cap buf, 1 <= W ->
  work_ok (request_prog (env_of W b) (S (List.length buf)) ms hc cap) buf.
Proof.
  intros W b ms hc cap buf HW. apply work_from_lin.
  - apply lin_request_prog; [lia|apply env_of_lin; [lia|exact HW]].
  - apply cons_request_prog. apply env_of_cons.
Qed.
Print Assumptions request_work_linear.

Theorem response_work_linear : forall W b ms hc cap buf, 1 <= W ->
  work_ok (response_prog (env_of W b) (S (List.length buf)) ms hc cap) buf.
Proof.
  intros W b ms hc cap buf HW. apply work_from_lin.
  - apply lin_response_prog; [lia|apply env_of_lin; [lia|exact HW]].
  - apply cons_response_prog. apply env_of_cons.
Qed.
Print Assumptions response_work_linear.

Theorem headers_work_linear : forall W b cap buf, 1 <= W ->
  work_ok (headers_only_prog (env_of W b) (S (List.length buf)) cap) buf.
Proof.
  intros W b cap buf HW. apply work_from_lin.
  - unfold headers_only_prog. eapply lin_weaken; [apply lin_headers_prog; [lia|apply env_of_lin; [lia|exact HW]]| |]; lia.
  - apply cons_headers_prog. apply env_of_cons.
Qed.
Print Assumptions headers_work_linear.

Theorem chunk_work_linear : forall dbg buf,
  work_ok (chunk_loop dbg (S (List.length buf)) 0 true false 0) buf.
Proof.
  intros dbg buf. apply work_from_lin.
  - eapply lin_weaken; [apply lin_chunk_loop; lia| |]; lia.
  - apply cons_chunk_loop.
Qed.
Print Assumptions chunk_work_linear.

(* when a call completes, every byte up to the cursor has been moved over exactly once *)
Theorem request_travel_exact : forall W b ms hc cap buf x c',
  request_prog (env_of W b) (S (List.length buf)) ms hc cap (cur_new buf) = Done x c' ->
  travel c' + List.length (rest c') = List.length buf.
Proof.
  intros W b ms hc cap buf x c' H.
  pose proof (cons_request_prog (env_of W b) (env_of_cons W b) (S (List.length buf)) hc ms cap (cur_new buf)) as Hc.
  rewrite H in Hc. exact Hc.
Qed.
Print Assumptions request_travel_exact.

(* the one backward-capable operation of iter.rs is never called *)
Theorem set_cursor_never_called : forall f, In f crate_files -> mem "set_cursor" (fn_methods f) = false.
Proof.
  assert (H : forallb (fun f => negb (mem "set_cursor" (fn_methods f))) crate_files = true) by (vm_compute; reflexivity).
  intros f Hf. rewrite forallb_forall in H. apply negb_true_iff. apply H. exact Hf.
Qed.
Print Assumptions set_cursor_never_called.

(* non-vacuity: a folded, whitespace-padded value on the SWAR backend *)
Example work_example :
  let buf := [71;69;84;32;47;32;72;84;84;80;47;49;46;49;13;10; 65;58;32;98;32;32;13;10;32;99;13;10; 13;10]%N in
  let '(cls, tk, tr) := run_work (request_prog (env_of 8 BSwar) (S (List.length buf)) false (mkhcfg false true false false) 4) buf in
  cls = 0%N /\ tr = 30 /\ tk = 44.
Proof. vm_compute. repeat split; reflexivity. Qed.
