(* Thm/C20.v -- linear work.

   The objects: Generated/CScan.v, CModel.v, CBackends.v, CSse42/CAvx2/CNeon.v are textual copies
   (made by the translator on every run) of Scan.v, Model.v, Backends.v and the translated loop
   shells, compiled against CursorC.v: the same cursor operations, each charging one tick, with
   `travel` counting the bytes the cursor moves over.  CostTop.v sequences them exactly as
   Api.v / Model.v headers_loop do and charges the backward trim of each stored header value.

   Theorems, for every backend (any word width W >= 1), configuration, capacity and buffer:
     - ticks spent by a request / response / header-block / chunk-size call
         <= 32 * |buf| + 80       whatever the outcome (Complete, Partial, Err);
     - travel <= |buf|, and travel + |unread| = |buf| when the call completes: the cursor moves
       strictly forward, over each byte exactly once;
     - set_cursor (the only operation of iter.rs that could move the cursor backward) is not
       called anywhere in the crate (over Generated/Names.v).

   The cost model is not a look-alike: `cost_model_runs_the_model_*` (below, Proofs/Erase.v) prove that, with the
   two counters forgotten, every stage function, every scanner loop of every backend and the call sequences of
   CostTop.v compute exactly what Scan.v / Model.v / Backends.v / Api.v compute (same outcome, same error kind), so the
   bounds are bounds on the executions of the model -- and, through source_tie, of the translated source.
   PARTIAL: which operations cost a tick is a modelling choice (CursorC.v); the counters are tied to the crate by the
   correspondence check (status and travel of the extracted cost model against the cfg(httparse_verif) counters of the
   real code, every backend); instruction counts, cache effects and wall-clock time are outside the model and are
   measured, not proved. *)
From Coq Require Import List NArith ZArith Lia Bool String.
From HV Require Import CursorC CostTop AllocFree.
From HV.Generated Require Import Names Cfg CScan CModel CBackends.
From HV.Proofs Require Import Work.
Import ListNotations.

Definition work_ok {A} (p : P A) (buf : list N) : Prop :=
  let '(cls, tk, tr) := run_work p buf in
  cls <> 3%N ->
  tk <= 32 * List.length buf + 80 /\ tr <= List.length buf.

Lemma work_from_lin {A} (p : P A) buf :
  lin 32 40 80 p -> cons p -> work_ok p buf.
Proof.
  intros Hl Hc. unfold work_ok, run_work. specialize (Hl (cur_new buf)). specialize (Hc (cur_new buf)).
  unfold Phi, bud in *. cbn [cur_new ticks rest tokrev travel List.length] in *.
  destruct (p (cur_new buf)) as [x c'|tk tr|e tk tr|f]; intros Hne; [| | |congruence]; (split; [|lia]).
  - cbn beta in Hl. assert (Z.of_nat (ticks c') <= 32 * Z.of_nat (List.length buf) + 40)%Z by lia. lia.
  - lia.
  - lia.
Qed.

Theorem request_work_linear : forall W b ms hc cap buf, 1 <= W ->
  work_ok (request_prog (env_of W b) (S (List.length buf)) ms hc cap) buf.
Proof.
  intros W b ms hc cap buf HW. apply work_from_lin.
  - apply lin_request_prog; [lia|apply env_of_lin; [lia|exact HW]].
  - apply cons_request_prog. apply env_of_cons.
Qed.
Print Assumptions request_work_linear.

Theorem response_work_linear : forall W b ms hc cap buf, 1 <= W ->
  work_ok (response_prog (env_of W b) (S (List.length buf)) ms hc cap) buf.
Proof.
  intros W b ms hc cap buf HW. apply work_from_lin.
  - apply lin_response_prog; [lia|apply env_of_lin; [lia|exact HW]].
  - apply cons_response_prog. apply env_of_cons.
Qed.
Print Assumptions response_work_linear.

Theorem headers_work_linear : forall W b cap buf, 1 <= W ->
  work_ok (headers_only_prog (env_of W b) (S (List.length buf)) cap) buf.
Proof.
  intros W b cap buf HW. apply work_from_lin.
  - unfold headers_only_prog. eapply lin_weaken; [apply lin_headers_prog; [lia|apply env_of_lin; [lia|exact HW]]| |]; lia.
  - apply cons_headers_prog. apply env_of_cons.
Qed.
Print Assumptions headers_work_linear.

Theorem chunk_work_linear : forall dbg buf,
  work_ok (chunk_loop dbg (S (List.length buf)) 0 true false 0) buf.
Proof.
  intros dbg buf. apply work_from_lin.
  - eapply lin_weaken; [apply lin_chunk_loop; lia| |]; lia.
  - apply cons_chunk_loop.
Qed.
Print Assumptions chunk_work_linear.

(* when a call completes, every byte up to the cursor has been moved over exactly once *)
Theorem request_travel_exact : forall W b ms hc cap buf x c',
  request_prog (env_of W b) (S (List.length buf)) ms hc cap (cur_new buf) = Done x c' ->
  travel c' + List.length (rest c') = List.length buf.
Proof.
  intros W b ms hc cap buf x c' H.
  pose proof (cons_request_prog (env_of W b) (env_of_cons W b) (S (List.length buf)) hc ms cap (cur_new buf)) as Hc.
  rewrite H in Hc. exact Hc.
Qed.
Print Assumptions request_travel_exact.

(* the one backward-capable operation of iter.rs is never called *)
Theorem set_cursor_never_called : forall f, In f crate_files -> mem "set_cursor" (fn_methods f) = false.
Proof.
  assert (H : forallb (fun f => negb (mem "set_cursor" (fn_methods f))) crate_files = true) by (vm_compute; reflexivity).
  intros f Hf. rewrite forallb_forall in H. apply negb_true_iff. apply H. exact Hf.
Qed.
Print Assumptions set_cursor_never_called.

(* non-vacuity: a folded, whitespace-padded value on the SWAR backend *)
Example work_example :
  let buf := [71;69;84;32;47;32;72;84;84;80;47;49;46;49;13;10; 65;58;32;98;32;32;13;10;32;99;13;10; 13;10]%N in
  let '(cls, tk, tr) := run_work (request_prog (env_of 8 BSwar) (S (List.length buf)) false (mkhcfg false true false false) 4) buf in
  cls = 0%N /\ tr = 30 /\ tk = 44.
Proof. vm_compute. repeat split; reflexivity. Qed.

(* ---- the cost model runs the model (Proofs/Erase.v) ---- *)
From HV Require Model Api Backends.
From HV.Proofs Require Erase.

Definition class_of (st : Model.status) : N :=
  match st with Model.Complete _ => 0%N | Model.Partial => 1%N | Model.Error _ => 2%N | Model.Faulted _ => 3%N end.
Definition c_hcfg (h : Model.hcfg) : hcfg :=
  mkhcfg (Model.allow_spaces_after_header_name h) (Model.allow_obsolete_multiline_headers h)
         (Model.allow_space_before_first_header_name h) (Model.ignore_invalid_headers h).
Lemma hc_er_c_hcfg h : Erase.hc_er (c_hcfg h) = h.
Proof. destruct h; reflexivity. Qed.

Lemma class_agree {A} (pc : P A) (m : Cursor.P nat) buf st :
  (forall c, match pc c, m (Erase.er c) with
             | Done _ _, Cursor.Done _ _ => True | Part _ _, Cursor.Part => True
             | Fail e _ _, Cursor.Fail e' => e = e' | Fault f, Cursor.Fault f' => f = f' | _, _ => False end) ->
  Erase.agree_st (m (Cursor.cur_new buf)) st ->
  fst (fst (run_work pc buf)) = class_of st.
Proof.
  intros H1 H2. unfold run_work. specialize (H1 (cur_new buf)). change (Erase.er (cur_new buf)) with (Cursor.cur_new buf) in H1.
  destruct (pc (cur_new buf)), (m (Cursor.cur_new buf)), st; cbn in *; try contradiction; try discriminate; reflexivity.
Qed.

Theorem cost_model_runs_the_model_request : forall W b cf buf rq arr,
  fst (fst (run_work (request_prog (env_of W b) (S (List.length buf))
                        (Api.allow_multiple_spaces_in_request_line_delimiters cf)
                        (c_hcfg (Api.request_hcfg cf)) (List.length arr)) buf))
  = class_of (fst (fst (Api.request_core (Backends.env_of W (Erase.be_er b)) cf buf rq arr))).
Proof.
  intros W b cf buf rq arr.
  eapply (class_agree _ (Erase.request_plain (Backends.env_of W (Erase.be_er b)) (S (List.length buf))
            (Api.allow_multiple_spaces_in_request_line_delimiters cf) (Api.request_hcfg cf) (List.length arr))).
  - intros c. pose proof (Erase.ers_request_prog _ _ (Erase.env_of_ers W b) (S (List.length buf))
                            (Api.allow_multiple_spaces_in_request_line_delimiters cf) (c_hcfg (Api.request_hcfg cf))
                            (List.length arr) c) as H.
    rewrite hc_er_c_hcfg in H.
    unfold Erase.ers, Erase.ersf in H.
    destruct (request_prog _ _ _ _ _ c), (Erase.request_plain _ _ _ _ _ _); try contradiction; try exact Logic.I; exact H.
  - apply Erase.request_plain_agree.
Qed.
Print Assumptions cost_model_runs_the_model_request.

Theorem cost_model_runs_the_model_response : forall W b cf buf rp arr,
  fst (fst (run_work (response_prog (env_of W b) (S (List.length buf))
                        (Api.allow_multiple_spaces_in_response_status_delimiters cf)
                        (c_hcfg (Api.response_hcfg cf)) (List.length arr)) buf))
  = class_of (fst (fst (Api.response_core (Backends.env_of W (Erase.be_er b)) cf buf rp arr))).
Proof.
  intros W b cf buf rp arr.
  eapply (class_agree _ (Erase.response_plain (Backends.env_of W (Erase.be_er b)) (S (List.length buf))
            (Api.allow_multiple_spaces_in_response_status_delimiters cf) (Api.response_hcfg cf) (List.length arr))).
  - intros c. pose proof (Erase.ers_response_prog _ _ (Erase.env_of_ers W b) (S (List.length buf))
                            (Api.allow_multiple_spaces_in_response_status_delimiters cf) (c_hcfg (Api.response_hcfg cf))
                            (List.length arr) c) as H.
    rewrite hc_er_c_hcfg in H.
    unfold Erase.ers, Erase.ersf in H.
    destruct (response_prog _ _ _ _ _ c), (Erase.response_plain _ _ _ _ _ _); try contradiction; try exact Logic.I; exact H.
  - apply Erase.response_plain_agree.
Qed.
Print Assumptions cost_model_runs_the_model_response.

Theorem cost_model_runs_the_model_headers : forall W b src dst,
  fst (fst (run_work (headers_only_prog (env_of W b) (S (List.length src)) (List.length dst)) src))
  = class_of (fst (fst (Api.parse_headers (Backends.env_of W (Erase.be_er b)) src dst))).
Proof.
  intros W b src dst. unfold headers_only_prog.
  eapply (class_agree _ (Erase.headers_plain (Backends.env_of W (Erase.be_er b)) (S (List.length src)) (S (List.length src))
            Model.hcfg_default (List.length dst) 0)).
  - intros c. pose proof (Erase.ers_headers_prog _ _ (Erase.env_of_ers W b) (S (List.length src)) (S (List.length src))
                            hcfg_default (List.length dst) 0 c) as H.
    change (Erase.hc_er hcfg_default) with Model.hcfg_default in H. unfold Erase.ers, Erase.ersf in H.
    destruct (headers_prog _ _ _ _ _ _ c), (Erase.headers_plain _ _ _ _ _ _ _); try contradiction; try exact Logic.I; exact H.
  - apply Erase.headers_only_agree.
Qed.
Print Assumptions cost_model_runs_the_model_headers.

Theorem cost_model_runs_the_model_chunk : forall dbg buf,
  fst (fst (run_work (chunk_loop dbg (S (List.length buf)) 0 true false 0) buf))
  = class_of (fst (Model.parse_chunk_size dbg buf)).
Proof.
  intros dbg buf. unfold run_work, Model.parse_chunk_size.
  pose proof (Erase.ers_chunk_loop dbg (S (List.length buf)) 0%N true false 0 (cur_new buf)) as H.
  unfold Erase.ers, Erase.ersf in H. change (Erase.er (cur_new buf)) with (Cursor.cur_new buf) in H.
  destruct (chunk_loop _ _ _ _ _ _ _), (Model.chunk_loop _ _ _ _ _ _ _); cbn in *; try contradiction; reflexivity.
Qed.
Print Assumptions cost_model_runs_the_model_chunk.

(* ---- tie to the source.  The cost model runs the model (`cost_model_runs_the_model_*` above: same outcome once the
   counters are forgotten), and the model is what the functions TRANSLATED from /repo/src/lib.rs on this run compute
   (Proofs/Src*.v), for every environment whose scanners only move forward -- so the work bounds above are bounds on
   the cursor operations of the translated source, and a change to lib.rs that alters behaviour breaks this obligation
   of C20 as well.  (Work that does not go through the cursor -- re-reading a slice behind it -- is outside the cost
   model by construction; that half of the property is decided by the wall-clock scaling runs.) ---- *)
From HV.Proofs Require Mono BackendsFwd SrcReq SrcResp SrcPH SrcChunk.
Theorem source_tie : forall E, Mono.env_fwd E ->
  SrcReq.request_source_is_model E /\ SrcResp.response_source_is_model E /\ SrcPH.headers_source_is_model E.
Proof.
  intros E HE. split; [apply SrcReq.src_tie_request; exact HE|]. split; [apply SrcResp.src_tie_response; exact HE|].
  apply SrcPH.src_tie_headers; exact HE.
Qed.
Print Assumptions source_tie.
Theorem source_tie_backends : forall W be,
  SrcReq.request_source_is_model (Backends.env_of W be) /\ SrcResp.response_source_is_model (Backends.env_of W be) /\
  SrcPH.headers_source_is_model (Backends.env_of W be).
Proof. intros W be. apply source_tie, BackendsFwd.backends_fwd. Qed.
Print Assumptions source_tie_backends.
