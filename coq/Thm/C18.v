(* Thm/C18.v -- history independence: the status of a call, and the whole value after a
   Complete, are functions of (entry point, configuration, buffer, capacity) only -- whatever
   earlier calls did to the same Request / Response value or header array. *)
From Coq Require Import List NArith Bool.
From HV Require Import Cursor Scan Model Api Spec.
From HV.Proofs Require Import Base EnvOk Refine Entries.
Import ListNotations.

Theorem request_history_independent : forall E, env_ok E -> forall e cf buf arr1 arr2 rq1 rq2, bytes_ok buf ->
  req_cap e arr1 rq1 = req_cap e arr2 rq2 ->
  let r1 := request_call E e cf buf arr1 rq1 in
  let r2 := request_call E e cf buf arr2 rq2 in
  fst (fst r1) = fst (fst r2) /\
  (forall n, fst (fst r1) = Complete n -> snd (fst r1) = snd (fst r2)).
Proof.
  intros E HE e cf buf arr1 arr2 rq1 rq2 Hb Hcap. cbn zeta.
  rewrite !(request_call_ref E HE) by exact Hb. rewrite !req_call_status, Hcap. split; [reflexivity|].
  intros n Hn. rewrite (req_call_complete e cf buf arr1 rq1 n) by (rewrite Hcap; exact Hn).
  rewrite (req_call_complete e cf buf arr2 rq2 n) by exact Hn. rewrite Hcap. reflexivity.
Qed.
Print Assumptions request_history_independent.

Theorem response_history_independent : forall E, env_ok E -> forall e cf buf arr1 arr2 rp1 rp2, bytes_ok buf ->
  resp_cap e arr1 rp1 = resp_cap e arr2 rp2 ->
  let r1 := response_call E e cf buf arr1 rp1 in
  let r2 := response_call E e cf buf arr2 rp2 in
  fst (fst r1) = fst (fst r2) /\
  (forall n, fst (fst r1) = Complete n -> snd (fst r1) = snd (fst r2)).
Proof.
  intros E HE e cf buf arr1 arr2 rp1 rp2 Hb Hcap. cbn zeta.
  rewrite !(response_call_ref E HE) by exact Hb. rewrite !resp_call_status, Hcap. split; [reflexivity|].
  intros n Hn. rewrite (resp_call_complete e cf buf arr1 rp1 n) by (rewrite Hcap; exact Hn).
  rewrite (resp_call_complete e cf buf arr2 rp2 n) by exact Hn. rewrite Hcap. reflexivity.
Qed.
Print Assumptions response_history_independent.

(* the documented loop: a probe after any history of calls equals the probe on a fresh value
   whose headers slice has the same length *)
Theorem reuse_equals_fresh : forall E, env_ok E -> forall (h : list call) (k : call) hdrs0, 
  Forall (fun c => bytes_ok (k_buf c)) h -> bytes_ok (k_buf k) ->
  let rq := request_history E h (request_new hdrs0) in
  let fresh := request_new (q_hdrs rq) in
  let r1 := request_call E (k_entry k) (k_cfg k) (k_buf k) (k_arr k) rq in
  let r2 := request_call E (k_entry k) (k_cfg k) (k_buf k) (k_arr k) fresh in
  fst (fst r1) = fst (fst r2) /\ (forall n, fst (fst r1) = Complete n -> snd (fst r1) = snd (fst r2)).
Proof.
  intros E HE h k hdrs0 _ Hb. cbn zeta. apply request_history_independent; [exact HE|exact Hb|].
  unfold req_cap. reflexivity.
Qed.
Print Assumptions reuse_equals_fresh.

(* ---- tie to the source: every statement above is about Model.v / Api.v; Proofs/Src*.v prove that the
   functions TRANSLATED from /repo/src/lib.rs on this run (Generated/Lib.v, LibApi.v) compute the same
   results, for every environment whose scanners only move forward (all concrete backends do), so each
   theorem of this file holds of the translated source by rewriting with `source_tie`.  Only the entry-point
   families this property speaks about are imported (Req, Resp) ---- *)
From HV Require Import Backends.
From HV.Proofs Require Import Mono BackendsFwd SrcReq SrcResp.
Theorem source_tie : forall E, env_fwd E -> request_source_is_model E /\ response_source_is_model E.
Proof. intros E HE. repeat split; first [apply src_tie_request | apply src_tie_response]; exact HE. Qed.
Print Assumptions source_tie.
Theorem source_tie_backends : forall W be, request_source_is_model (env_of W be) /\ response_source_is_model (env_of W be).
Proof. intros W be. apply source_tie, backends_fwd. Qed.
Print Assumptions source_tie_backends.

(* ---- the scanners and class tables of THIS run.  The theorems above hold for every environment E with `env_ok E`
   (each scanner stops exactly at the first byte outside its class; the class predicates are the classes of the
   property).  Every concrete backend -- word-at-a-time with any word width, SSE4.2, AVX2, NEON, the runtime dispatch
   with any cached id -- built from the kernels, loop shells and CLASS TABLES translated from /repo on this run
   satisfies it (Proofs/BackendsOk.v over Generated/{Classes,Swar,Sse42,Avx2,Neon}.v; Thm/C12.v states the parts), so
   the theorems hold of the code as it is now; a table entry or a kernel that is not the class breaks this obligation
   of THIS property, not only C12's ---- *)
From HV Require Backends.
From HV.Proofs Require BackendsOk.
Theorem backends_of_this_run_ok : forall W, 0 < W -> forall be, env_ok (Backends.env_of W be).
Proof. exact BackendsOk.env_of_ok. Qed.
Print Assumptions backends_of_this_run_ok.
(* ... and the scanner loop shells and SWAR helpers translated on this run are the ones `Backends.env_of` is built from *)
From HV.Proofs Require TieLoops TieSwarFns.
Theorem loop_shells_of_this_run : TieLoops.loop_shells_tied.
Proof. exact TieLoops.loop_shells_tied_pf. Qed.
Print Assumptions loop_shells_of_this_run.

