(* Thm/C08.v -- header block, default configuration: parse_headers (and the header part of
   requests / responses, through Thm/C06, C07) equals the line-level reference parser. *)
From Coq Require Import List NArith Bool.
From HV Require Import Cursor Scan Model Api Spec.
From HV.Proofs Require Import Base EnvOk Refine Entries.
Import ListNotations.

Theorem headers_default_ref_eq : forall E, env_ok E -> forall src dst, bytes_ok src ->
  parse_headers E src dst =
  (let (st, hs) := ref_headers hcfg_default (length dst) 0 src in
   (st, match st with Complete _ => written_of hs | _ => [] end, slots_of hs dst)).
Proof. exact parse_headers_ref. Qed.
Print Assumptions headers_default_ref_eq.

(* the header machine itself, from any committed position, any option set *)
Theorem headers_ref_eq : forall E, env_ok E -> forall hc buf k o arr, bytes_ok buf ->
  parse_headers_iter_uninit E (S (length buf)) hc arr (mkcur o [] (skipn k buf))
  = (let (st, hs) := ref_headers hc (length arr) o (skipn k buf) in
     (shift_status o st, length hs, slots_of hs arr)).
Proof. exact headers_part. Qed.
Print Assumptions headers_ref_eq.

(* default configuration rejects: whitespace before the colon, at line start, missing colon *)
Example default_rejects :
  ref_headers hcfg_default 4 0 [65;32;58;32;98;13;10;13;10]%N = (Error HeaderName, []) /\
  ref_headers hcfg_default 4 0 [32;65;58;98;13;10;13;10]%N = (Error HeaderName, []) /\
  ref_headers hcfg_default 4 0 [65;98;13;10;13;10]%N = (Error HeaderName, []) /\
  ref_headers hcfg_default 4 0 [65;58;32;1;13;10;13;10]%N = (Error HeaderValue, []) /\
  ref_headers hcfg_default 4 0 [65;58;32;98;32;13;10;13;10]%N = (Complete 9, [(Sub 0 [65%N], Sub 3 [98%N])]).
Proof. vm_compute. repeat split. Qed.

(* ---- tie to the source: every statement above is about Model.v / Api.v; Proofs/Src*.v prove that the
   functions TRANSLATED from /repo/src/lib.rs on this run (Generated/Lib.v, LibApi.v) compute the same
   results, for every environment whose scanners only move forward (all concrete backends do), so each
   theorem of this file holds of the translated source by rewriting with `source_tie`.  Only the entry-point
   families this property speaks about are imported (Req, Resp, PH) ---- *)
From HV Require Import Backends.
From HV.Proofs Require Import Mono BackendsFwd SrcReq SrcResp SrcPH.
Theorem source_tie : forall E, env_fwd E -> request_source_is_model E /\ response_source_is_model E /\ headers_source_is_model E.
Proof. intros E HE. repeat split; first [apply src_tie_request | apply src_tie_response | apply src_tie_headers]; exact HE. Qed.
Print Assumptions source_tie.
Theorem source_tie_backends : forall W be, request_source_is_model (env_of W be) /\ response_source_is_model (env_of W be) /\ headers_source_is_model (env_of W be).
Proof. intros W be. apply source_tie, backends_fwd. Qed.
Print Assumptions source_tie_backends.

Theorem src_headers_default_ref_eq : forall E, env_ok E -> env_fwd E -> forall src dst, bytes_ok src ->
  src_parse_headers E src dst =
  (let (st, hs) := ref_headers hcfg_default (length dst) 0 src in
   (st, match st with Complete _ => written_of hs | _ => [] end, slots_of hs dst)).
Proof. intros E HE HF src dst Hb. rewrite src_parse_headers_eq by exact HF. apply parse_headers_ref; assumption. Qed.
Print Assumptions src_headers_default_ref_eq.

(* ---- the scanners and class tables of THIS run.  The theorems above hold for every environment E with `env_ok E`
   (each scanner stops exactly at the first byte outside its class; the class predicates are the classes of the
   property).  Every concrete backend -- word-at-a-time with any word width, SSE4.2, AVX2, NEON, the runtime dispatch
   with any cached id -- built from the kernels, loop shells and CLASS TABLES translated from /repo on this run
   satisfies it (Proofs/BackendsOk.v over Generated/{Classes,Swar,Sse42,Avx2,Neon}.v; Thm/C12.v states the parts), so
   the theorems hold of the code as it is now; a table entry or a kernel that is not the class breaks this obligation
   of THIS property, not only C12's ---- *)
From HV Require Backends.
From HV.Proofs Require BackendsOk.
Theorem backends_of_this_run_ok : forall W, 0 < W -> forall be, env_ok (Backends.env_of W be).
Proof. exact BackendsOk.env_of_ok. Qed.
Print Assumptions backends_of_this_run_ok.
(* ... and the scanner loop shells and SWAR helpers translated on this run are the ones `Backends.env_of` is built from *)
From HV.Proofs Require TieLoops TieSwarFns.
Theorem loop_shells_of_this_run : TieLoops.loop_shells_tied.
Proof. exact TieLoops.loop_shells_tied_pf. Qed.
Print Assumptions loop_shells_of_this_run.

