(* Thm/C04.v -- zero-copy, dynamic half: every slice handed back is a sub-slice of the buffer
   (its bytes ARE the buffer's bytes at that offset), inside the consumed head on Complete,
   and the slices appear in input order without overlapping: method, path (or reason), then
   name, value of each header in line order.  `chain buf lo ss hi` says exactly that.
   PARTIAL (static half): Rust's borrow checker is not formalised here; the lifetime half of
   the property is checked by the compile-pass / compile-fail client corpus of the
   correspondence check (DESIGN.md section 7, C04). *)
From Coq Require Import List NArith Bool Lia.
From HV Require Import Cursor Scan Model Api Spec Oracle.
From HV.Proofs Require Import Base EnvOk Refine Entries ZeroCopy.
Import ListNotations.

(* requests, any outcome: the fields present and the stored headers form a chain inside the
   buffer -- inside buf[..n] when the status is Complete(n) *)
Theorem request_slices_in_order : forall cf cap buf,
  let r := ref_request cf cap buf in chain buf 0 (req_slices r) (lim buf (rq_status r)).
Proof. exact ref_request_chain. Qed.
Print Assumptions request_slices_in_order.

Theorem response_slices_in_order : forall cf cap buf,
  let r := ref_response cf cap buf in chain buf 0 (resp_slices r) (lim buf (rp_status r)).
Proof. exact ref_response_chain. Qed.
Print Assumptions response_slices_in_order.

Theorem header_slices_in_order : forall hc cap buf,
  let r := ref_headers hc cap 0 buf in chain buf 0 (hdr_slices (snd r)) (lim buf (fst r)).
Proof. exact ref_headers_chain. Qed.
Print Assumptions header_slices_in_order.

(* the model's fields are the reference's (Thm/C06, C07), so the same holds for every entry
   point of the model on a fresh value *)
Theorem model_request_slices : forall E, env_ok E -> forall cf buf arr, bytes_ok buf ->
  let '(st, rq, arr') := request_core E cf buf (request_new []) arr in
  let r := ref_request cf (length arr) buf in
  st = rq_status r /\ q_method rq = rs_method (rq_start r) /\ q_path rq = rs_path (rq_start r) /\
  arr' = slots_of (rq_headers r) arr /\
  chain buf 0 (req_slices r) (lim buf st).
Proof.
  intros E HE cf buf arr Hb. rewrite (request_core_ref E HE) by exact Hb.
  unfold req_result, request_new. cbn [q_method q_path q_version].
  repeat split; try (destruct (rs_method _); reflexivity); try (destruct (rs_path _); reflexivity).
  apply ref_request_chain.
Qed.
Print Assumptions model_request_slices.

(* what `chain` gives for one slice: zero-copy *)
Theorem chain_zero_copy : forall buf lo hi off bs rest,
  chain buf lo (Sub off bs :: rest) hi ->
  lo <= off /\ off + length bs <= hi /\ firstn (length bs) (skipn off buf) = bs.
Proof.
  intros buf lo hi off bs rest [mid [(H1 & H2 & H3) Hr]]. apply chain_le in Hr.
  repeat split; try lia. exact H3.
Qed.
Print Assumptions chain_zero_copy.

Example chain_example :
  let buf := [71;69;84;32;47;120;32;72;84;84;80;47;49;46;49;13;10;65;58;32;98;13;10;13;10]%N in
  req_slices (ref_request config_default 4 buf) = [Sub 0 [71;69;84]; Sub 4 [47;120]; Sub 17 [65]; Sub 20 [98]]%N.
Proof. vm_compute. reflexivity. Qed.

(* ---- static half: the public signatures that carry a lifetime are the reviewed ones ---- *)
From HV Require Import Lifetimes.
From HV.Generated Require Import Sigs.

Theorem public_lifetimes_as_reviewed : lifetimes_check = true.
Proof. vm_compute. reflexivity. Qed.
Print Assumptions public_lifetimes_as_reviewed.

Theorem every_lifetime_signature_is_reviewed : forall s, In s crate_sigs -> has_quote (snd s) = true ->
  exists e, In e lifetime_sigs /\ sig_eqb s e = true.
Proof.
  intros s Hs Hq. pose proof public_lifetimes_as_reviewed as H. unfold lifetimes_check in H.
  apply andb_prop in H as [H _]. rewrite forallb_forall in H. specialize (H s Hs). rewrite Hq in H. cbn [negb orb] in H.
  apply existsb_exists in H. exact H.
Qed.
Print Assumptions every_lifetime_signature_is_reviewed.

(* ---- tie to the source: every statement above is about Model.v / Api.v; Proofs/Src*.v prove that the
   functions TRANSLATED from /repo/src/lib.rs on this run (Generated/Lib.v, LibApi.v) compute the same
   results, for every environment whose scanners only move forward (all concrete backends do), so each
   theorem of this file holds of the translated source by rewriting with `source_tie`.  Only the entry-point
   families this property speaks about are imported (Req, Resp) ---- *)
From HV Require Import Backends.
From HV.Proofs Require Import Mono BackendsFwd SrcReq SrcResp.
Theorem source_tie : forall E, env_fwd E -> request_source_is_model E /\ response_source_is_model E.
Proof. intros E HE. repeat split; first [apply src_tie_request | apply src_tie_response]; exact HE. Qed.
Print Assumptions source_tie.
Theorem source_tie_backends : forall W be, request_source_is_model (env_of W be) /\ response_source_is_model (env_of W be).
Proof. intros W be. apply source_tie, backends_fwd. Qed.
Print Assumptions source_tie_backends.

(* ---- iter.rs: the methods of `Bytes`, translated on this run into ADDRESS-level code in which every
   `*p`, `p.add(n)`, `p.sub(n)` and pointer subtraction is a checked operation (Generated/Iter.v, Ptr.v), are
   simulated by the Cursor.v operations the model and the translated lib.rs functions are built from: at every
   base address, for every buffer and every cursor state standing at a position of that buffer, a method whose
   Cursor.v counterpart returns does so too, with the corresponding value and state, WITHOUT faulting -- every
   byte it reads lies inside the caller's buffer, every slice it hands out is a sub-slice of it -- and it faults
   where the counterpart's `unsafe` precondition fails.  (The model never faults: theorems above.) ---- *)
From HV Require Import Ptr ImpLib.
From HV.Generated Require Import Iter.
From HV.Proofs Require Import TieIter.
Theorem bytes_methods_refine_cursor : forall B data c, repr data c ->
  i_peek (mkpmem B data) (pst_of B c) = PDone (hd_error (rest c)) (pst_of B c) /\
  match next_opt c with
  | Done o c' => i_next (mkpmem B data) (pst_of B c) = PDone o (pst_of B c') /\ repr data c'
  | _ => False end /\
  (forall n, match advance n c with
             | Done _ c' => i_advance n (mkpmem B data) (pst_of B c) = PDone tt (pst_of B c') /\ repr data c'
             | Fault _ => exists f, i_advance n (mkpmem B data) (pst_of B c) = PFault f
             | _ => False end) /\
  (forall n, match peek_ahead n c with
             | Done o c' => i_peek_ahead n (mkpmem B data) (pst_of B c) = PDone o (pst_of B c) /\ c' = c
             | Fault _ => exists f, i_peek_ahead n (mkpmem B data) (pst_of B c) = PFault f
             | _ => False end) /\
  (forall n, exists o, i_peek_n n (mkpmem B data) (pst_of B c) = PDone o (pst_of B c) /\
                       option_map (fun pl => sl_bytes (read_slice (mkpmem B data) pl)) o = take n (rest c)) /\
  match slice c with
  | Done s c' => exists pl, i_slice (mkpmem B data) (pst_of B c) = PDone pl (pst_of B c') /\
                            read_slice (mkpmem B data) pl = s /\ repr data c'
  | _ => False end /\
  (forall k, match slice_skip k c with
             | Done s c' => exists pl, i_slice_skip k (mkpmem B data) (pst_of B c) = PDone pl (pst_of B c') /\
                                       read_slice (mkpmem B data) pl = s /\ repr data c'
             | Fault _ => exists f, i_slice_skip k (mkpmem B data) (pst_of B c) = PFault f
             | _ => False end) /\
  i_len (mkpmem B data) (pst_of B c) = PDone (length (rest c)) (pst_of B c).
Proof.
  intros B data c H. repeat split.
  - apply tie_iter_peek; exact H.
  - apply tie_iter_next; exact H.
  - intros n. apply tie_iter_advance; exact H.
  - intros n. apply tie_iter_peek_ahead; exact H.
  - intros n. apply tie_iter_peek_n; exact H.
  - apply tie_iter_slice; exact H.
  - intros k. apply tie_iter_slice_skip; exact H.
  - apply tie_iter_len.
Qed.
Print Assumptions bytes_methods_refine_cursor.
Theorem bytes_new_is_cur_new : forall B buf,
  i_new (B, length buf) (mkpmem B buf) (mkpst 0 0 0) = PDone tt (pst_of B (cur_new buf)) /\ repr buf (cur_new buf).
Proof. exact tie_iter_new. Qed.
Print Assumptions bytes_new_is_cur_new.

(* ---- zero-copy at ADDRESS level: the address-level program of the request entry point (Proofs/LiftTop.v:
   every slice is obtained by `from_raw_parts(p, n)` with [p, p+n) checked against the buffer, and denotes the
   bytes it reads there) hands out, on a fresh Request, exactly the slices of the reference parser -- which lie
   inside buf[..n], in order, without overlap, and contain the buffer's own bytes (`chain`, `chain_zero_copy`)
   -- at every base address B ---- *)
From HV.Proofs Require Import Lift LiftLib LiftTop.
Theorem address_level_request_slices : forall B W, 0 < W -> forall be cf buf arr, bytes_ok buf ->
  let '(st, rq, arr') := addr_request_core B W be cf buf (request_new []) arr in
  let r := ref_request cf (length arr) buf in
  st = rq_status r /\ q_method rq = rs_method (rq_start r) /\ q_path rq = rs_path (rq_start r) /\
  arr' = slots_of (rq_headers r) arr /\
  chain buf 0 (req_slices r) (lim buf st).
Proof.
  intros B W HW be cf buf arr Hb. rewrite addr_request_core_model by assumption.
  apply model_request_slices; [apply BackendsOk.env_of_ok; exact HW|exact Hb].
Qed.
Print Assumptions address_level_request_slices.

(* ---- the scanner loop shells and SWAR helpers translated from /repo/src/simd/*.rs on this run are the ones
   `Backends.env_of` is built from (Proofs/TieLoops.v, TieSwarFns.v): a rewritten loop shell breaks this obligation of
   this property too ---- *)
From HV.Proofs Require TieLoops TieSwarFns.
Theorem loop_shells_of_this_run : TieLoops.loop_shells_tied.
Proof. exact TieLoops.loop_shells_tied_pf. Qed.
Print Assumptions loop_shells_of_this_run.
