(* Thm/C15.v -- options are conservative extensions and affect only their own message kind. *)
From Coq Require Import List NArith Bool Lia.
From HV Require Import Cursor Scan Model Api Spec.
From HV.Proofs Require Import Base EnvOk Refine Entries Conservative.
Import ListNotations.

(* requests: a buffer the default configuration accepts is parsed identically under all 128 *)
Theorem request_options_conservative : forall cf cap buf n,
  rq_status (ref_request config_default cap buf) = Complete n ->
  ref_request cf cap buf = ref_request config_default cap buf.
Proof. exact ref_request_cons. Qed.
Print Assumptions request_options_conservative.

(* responses: identical, except that the multi-space option strips leading SPs of the reason *)
Theorem response_options_conservative : forall cf cap buf n,
  rp_status (ref_response config_default cap buf) = Complete n ->
  let a := ref_response cf cap buf in let d := ref_response config_default cap buf in
  rp_status a = rp_status d /\ rp_headers a = rp_headers d /\
  rs_pversion (rp_start a) = rs_pversion (rp_start d) /\ rs_code (rp_start a) = rs_code (rp_start d) /\
  reason_stripped (rs_reason (rp_start d)) (rs_reason (rp_start a)).
Proof. exact ref_response_cons_ms. Qed.
Print Assumptions response_options_conservative.

Theorem response_options_conservative_exact : forall cf cap buf n,
  allow_multiple_spaces_in_response_status_delimiters cf = false ->
  rp_status (ref_response config_default cap buf) = Complete n ->
  ref_response cf cap buf = ref_response config_default cap buf.
Proof. exact ref_response_cons. Qed.
Print Assumptions response_options_conservative_exact.

(* transported to the model's entry points *)
Theorem model_request_options_conservative : forall E, env_ok E -> forall cf buf arr rq n, bytes_ok buf ->
  fst (fst (request_call E EConfig config_default buf arr rq)) = Complete n ->
  request_call E EConfig cf buf arr rq = request_call E EConfig config_default buf arr rq.
Proof.
  intros E HE cf buf arr rq n Hb. rewrite !(request_call_ref E HE) by exact Hb. rewrite req_call_status.
  unfold req_call_result, req_cap. cbn [uses_array eff_cfg]. intros H.
  rewrite (ref_request_cons cf _ _ n H). reflexivity.
Qed.
Print Assumptions model_request_options_conservative.

(* other-kind options never matter, on accepted and rejected buffers alike *)
Theorem request_ignores_response_options : forall a b cap buf,
  same_request_bits a b -> ref_request a cap buf = ref_request b cap buf.
Proof. exact Conservative.request_ignores_response_options. Qed.
Print Assumptions request_ignores_response_options.
Theorem response_ignores_request_options : forall a b cap buf,
  same_response_bits a b -> ref_response a cap buf = ref_response b cap buf.
Proof. exact Conservative.response_ignores_request_options. Qed.
Print Assumptions response_ignores_request_options.

Example strip_example :
  let buf := [72;84;84;80;47;49;46;49;32;50;48;48;32;32;79;75;13;10;13;10]%N in
  rs_reason (rp_start (ref_response config_default 2 buf)) = Some (Sub 13 [32;79;75]%N) /\
  rs_reason (rp_start (ref_response (mkconfig false false false true false false false) 2 buf)) = Some (Sub 14 [79;75]%N).
Proof. vm_compute. split; reflexivity. Qed.

(* ---- tie to the source: every statement above is about Model.v / Api.v; Proofs/Src*.v prove that the
   functions TRANSLATED from /repo/src/lib.rs on this run (Generated/Lib.v, LibApi.v) compute the same
   results, for every environment whose scanners only move forward (all concrete backends do), so each
   theorem of this file holds of the translated source by rewriting with `source_tie`.  Only the entry-point
   families this property speaks about are imported (Req, Resp) ---- *)
From HV Require Import Backends.
From HV.Proofs Require Import Mono BackendsFwd SrcReq SrcResp.
Theorem source_tie : forall E, env_fwd E -> request_source_is_model E /\ response_source_is_model E.
Proof. intros E HE. repeat split; first [apply src_tie_request | apply src_tie_response]; exact HE. Qed.
Print Assumptions source_tie.
Theorem source_tie_backends : forall W be, request_source_is_model (env_of W be) /\ response_source_is_model (env_of W be).
Proof. intros W be. apply source_tie, backends_fwd. Qed.
Print Assumptions source_tie_backends.

(* ---- the scanners and class tables of THIS run.  The theorems above hold for every environment E with `env_ok E`
   (each scanner stops exactly at the first byte outside its class; the class predicates are the classes of the
   property).  Every concrete backend -- word-at-a-time with any word width, SSE4.2, AVX2, NEON, the runtime dispatch
   with any cached id -- built from the kernels, loop shells and CLASS TABLES translated from /repo on this run
   satisfies it (Proofs/BackendsOk.v over Generated/{Classes,Swar,Sse42,Avx2,Neon}.v; Thm/C12.v states the parts), so
   the theorems hold of the code as it is now; a table entry or a kernel that is not the class breaks this obligation
   of THIS property, not only C12's ---- *)
From HV Require Backends.
From HV.Proofs Require BackendsOk.
Theorem backends_of_this_run_ok : forall W, 0 < W -> forall be, env_ok (Backends.env_of W be).
Proof. exact BackendsOk.env_of_ok. Qed.
Print Assumptions backends_of_this_run_ok.
(* ... and the scanner loop shells and SWAR helpers translated on this run are the ones `Backends.env_of` is built from *)
From HV.Proofs Require TieLoops TieSwarFns.
Theorem loop_shells_of_this_run : TieLoops.loop_shells_tied.
Proof. exact TieLoops.loop_shells_tied_pf. Qed.
Print Assumptions loop_shells_of_this_run.

