(* Thm/C12.v -- every byte-class scanner stops exactly at the first out-of-class byte.
   Statements only; proofs are in Proofs/{Swar,Kernels,ScanLoops,BackendsOk}.v and are
   about the kernels / tables TRANSLATED from /repo on this run (Generated/*.v). *)
From Coq Require Import List NArith Bool.
Import ListNotations.
From HV Require Import Cursor Scan Intrinsics Model Api Spec Backends.
From HV.Generated Require Import Classes Swar Sse42 Avx2 Neon.
From HV.Proofs Require Import Base Swar ScanLoops EnvOk Kernels BackendsOk.

(* the class tables of lib.rs (and NEON's bit_set) are exactly the classes of the property *)
Theorem tables_are_classes : forall b, (b < 256)%N ->
  URI_MAP b = uri_char b /\ TOKEN_MAP b = tchar b /\ HEADER_VALUE_MAP b = value_char b /\
  is_method_token b = tchar b /\ is_uri_token b = uri_char b /\
  is_header_name_token b = tchar b /\ is_header_value_token b = value_char b /\
  neon_bit_set b = tchar b.
Proof.
  intros b Hb.
  exact (conj (URI_MAP_class b Hb) (conj (TOKEN_MAP_class b Hb) (conj (HEADER_VALUE_MAP_class b Hb)
        (conj (is_method_token_class b Hb) (conj (is_uri_token_class b Hb)
        (conj (is_header_name_token_class b Hb) (conj (is_header_value_token_class b Hb)
        (neon_bit_set_class b Hb)))))))).
Qed.
Print Assumptions tables_are_classes.

(* SWAR block kernels, any word width: exact for the target class; exact for
   0x20-0x7E / 0x80-0xFF in the value kernel (HTAB is a conservative stop) *)
Theorem swar_uri_kernel : forall W block, length block = W -> bytes_ok block ->
  match_uri_char_8_swar W block = first_bad (strict_class 33) block.
Proof. exact swar_uri_kernel_exact. Qed.
Print Assumptions swar_uri_kernel.
Theorem swar_value_kernel : forall W block, length block = W -> bytes_ok block ->
  match_header_value_char_8_swar W block = first_bad (strict_class 32) block.
Proof. exact swar_value_kernel_exact. Qed.
Print Assumptions swar_value_kernel.

(* x86 and NEON block kernels *)
Theorem simd_kernels : forall block, bytes_ok block ->
  (length block = 16 -> match_url_char_16_sse block = first_bad uri_char block) /\
  (length block = 16 -> match_header_value_char_16_sse block = first_bad value_char block) /\
  (length block = 32 -> match_url_char_32_avx block = first_bad uri_char block) /\
  (length block = 32 -> match_header_value_char_32_avx block = first_bad value_char block) /\
  (length block = 16 -> match_url_char_16_neon block = first_bad uri_char block) /\
  (length block = 16 -> match_header_value_char_16_neon block = first_bad value_char block) /\
  (length block = 16 -> match_header_name_char_16_neon block = first_bad tchar block).
Proof.
  intros block Hb.
  exact (conj (fun Hl => sse_uri_kernel_exact block Hl Hb) (conj (fun Hl => sse_value_kernel_exact block Hl Hb)
        (conj (fun Hl => avx_uri_kernel_exact block Hl Hb) (conj (fun Hl => avx_value_kernel_exact block Hl Hb)
        (conj (fun Hl => neon_uri_kernel_exact block Hl Hb) (conj (fun Hl => neon_value_kernel_exact block Hl Hb)
        (fun Hl => neon_name_kernel_exact block Hl Hb))))))).
Qed.
Print Assumptions simd_kernels.

(* the scanners themselves: for every backend, class, buffer content and length, the cursor
   is left at exactly the first out-of-class byte (or the end) and nothing faults *)
Theorem scanner_exact : forall W, 0 < W -> forall be fuel c,
  bytes_ok (rest c) -> length (rest c) < fuel ->
  s_uri (env_of W be) fuel c = Done tt (adv (first_bad uri_char (rest c)) c) /\
  s_value (env_of W be) fuel c = Done tt (adv (first_bad value_char (rest c)) c) /\
  s_name (env_of W be) fuel c = Done tt (adv (first_bad tchar (rest c)) c).
Proof.
  intros W HW be fuel c Hb Hl. destruct (env_of_ok W HW be) as [_ _ _ _ Hu Hv Hn].
  exact (conj (Hu fuel c Hb Hl) (conj (Hv fuel c Hb Hl) (Hn fuel c Hb Hl))).
Qed.
Print Assumptions scanner_exact.

(* non-vacuity: a concrete 20-byte buffer whose 18th byte is DEL, AVX2-on-64-bit backend *)
Example scanner_exact_example :
  let buf := (repeat 97 17 ++ [127; 98; 99])%N in
  bytes_ok buf /\
  s_uri (env_of 8 BAvx2) 21 (cur_new buf) = Done tt (adv 17 (cur_new buf)).
Proof.
  split; [repeat constructor|vm_compute; reflexivity].
Qed.

(* ---- the loop shells: each scanner loop of swar.rs / sse42.rs / avx2.rs / neon.rs, translated statement by
   statement on this run (Generated/Loops.v: guard, block load as a CHECKED operation, kernel call, advance,
   early return, hand-over to the word-at-a-time scanner), is the loop Scan.v defines and Backends.v
   instantiates -- so the scanners `scanner_exact` speaks about are the translated source ---- *)
From HV Require Import Imp ImpLib.
From HV.Generated Require Import Loops.
From HV.Proofs Require Import TieLoops.
Theorem loop_shells_as_translated : forall W fb fuel c,
  gl_swar_uri W fuel c = swar_uri W fuel c /\ gl_swar_value W fuel c = swar_value W fuel c /\
  gl_swar_name W fuel c = swar_name W fuel c /\
  gl_sse42_uri fb fuel c = sse42_match_uri_vectored fb fuel c /\
  gl_sse42_value fb fuel c = sse42_match_header_value_vectored fb fuel c /\
  gl_avx2_uri fb fuel c = avx2_match_uri_vectored fb fuel c /\
  gl_avx2_value fb fuel c = avx2_match_header_value_vectored fb fuel c /\
  gl_neon_uri fb fuel c = neon_match_uri_vectored fb fuel c /\
  gl_neon_value fb fuel c = neon_match_header_value_vectored fb fuel c /\
  gl_neon_name fb fuel c = neon_match_header_name_vectored fb fuel c.
Proof.
  intros. repeat split; first [apply tie_swar_uri | apply tie_swar_value | apply tie_swar_name | apply tie_sse42_uri
    | apply tie_sse42_value | apply tie_avx2_uri | apply tie_avx2_value | apply tie_neon_uri | apply tie_neon_value
    | apply tie_neon_name].
Qed.
Print Assumptions loop_shells_as_translated.

(* ---- the helpers the word-at-a-time scanner calls: match_tail, match_block and offsetnz of swar.rs, translated
   statement by statement on this run (Generated/SwarFns.v, the `for (i, b) in .. .enumerate()` loop included),
   are the functions a call of them is read as above (Scan.first_bad, Intrinsics.offsetnz); in particular
   offsetnz never reaches its `unreachable!()` ---- *)
From HV Require Import Intrinsics.
From HV.Generated Require Import SwarFns.
From HV.Proofs Require Import TieSwarFns.
Theorem swar_helpers_as_translated : forall W f l,
  g_match_tail W f l = Some (first_bad f l) /\
  (length l = W -> g_match_block W f l = Some (first_bad f l)) /\
  g_offsetnz W l = Some (offsetnz W l).
Proof.
  intros W f l. split; [apply tie_match_tail|]. split; [apply tie_match_block|apply tie_offsetnz].
Qed.
Print Assumptions swar_helpers_as_translated.
Example swar_helpers_example :
  g_match_tail 8 (fun b => N.ltb 32 b) [65; 66; 9; 67]%N = Some 2 /\ g_offsetnz 4 [0; 0; 128; 0]%N = Some 2 /\
  g_offsetnz 4 [0; 0; 0; 0]%N = Some 4.
Proof. repeat split; reflexivity. Qed.
