(* Thm/C19.v -- allocation-free / no_std-clean, static half (see AllocFree.v for what is and is not
   proved).  The theorem is about Generated/Names.v, regenerated from /repo on every run. *)
From Coq Require Import List String Bool.
From HV.Generated Require Import Names.
From HV Require Import AllocFree.
Import ListNotations.
Local Open Scope string_scope.

Theorem crate_names_closed : alloc_free_check = true.
Proof. vm_compute. reflexivity. Qed.
Print Assumptions crate_names_closed.

(* spelled out *)
Theorem no_std_and_no_extern_crate : crate_no_std_attr = true /\ crate_extern_crates = [].
Proof. split; reflexivity. Qed.
Print Assumptions no_std_and_no_extern_crate.

Theorem every_file_closed : forall f, In f crate_files -> file_ok f = true.
Proof.
  apply forallb_forall. pose proof crate_names_closed as H. unfold alloc_free_check in H.
  apply andb_prop in H as [_ H]. exact H.
Qed.
Print Assumptions every_file_closed.

Theorem std_only_in_runtime : forall f, In f crate_files -> fn_std_paths f <> [] -> fn_path f = "src/simd/runtime.rs".
Proof.
  intros f Hf Hne. pose proof (every_file_closed f Hf) as H. unfold file_ok in H.
  repeat (apply andb_prop in H as [H ?]). 
  match goal with H1 : (std_file f || null (fn_std_paths f)) = true |- _ => apply orb_prop in H1 as [H1|H1] end.
  - apply String.eqb_eq. assumption.
  - destruct (fn_std_paths f); [congruence|discriminate].
Qed.
Print Assumptions std_only_in_runtime.

Theorem no_allocating_name_anywhere : forall f i, In f crate_files -> In i (fn_idents f) -> mem i deny_idents = false.
Proof.
  intros f i Hf Hi. pose proof (every_file_closed f Hf) as H. unfold file_ok in H.
  apply andb_prop in H as [_ H]. rewrite forallb_forall in H. apply negb_true_iff. apply H. exact Hi.
Qed.
Print Assumptions no_allocating_name_anywhere.

Theorem std_gated_items_are_the_error_impl : forall g, In g crate_std_gated -> In g std_gated_allowed.
Proof.
  intros g Hg. pose proof crate_names_closed as H. unfold alloc_free_check in H.
  repeat (apply andb_prop in H as [H ?]).
  match goal with H1 : forallb _ crate_std_gated = true |- _ => rewrite forallb_forall in H1; specialize (H1 g Hg) end.
  match goal with H1 : existsb _ _ = true |- _ => apply existsb_exists in H1 as [x [Hx He]] end.
  unfold pair_eqb in He. apply andb_prop in He as [E1 E2]. apply String.eqb_eq in E1, E2.
  destruct g, x; cbn in *; subst; assumption.
Qed.
Print Assumptions std_gated_items_are_the_error_impl.

(* the check is not vacuous: it rejects a file that mentions Vec, and one that imports from std *)
Example check_rejects_vec :
  file_ok {| fn_path := "src/x.rs"; fn_roots := []; fn_std_paths := []; fn_imports := []; fn_macros := [];
             fn_methods := []; fn_idents := ["Vec"] |} = false.
Proof. reflexivity. Qed.
Example check_rejects_std_import :
  file_ok {| fn_path := "src/x.rs"; fn_roots := ["String"]; fn_std_paths := []; fn_imports := [("std", "String")]; fn_macros := [];
             fn_methods := []; fn_idents := [] |} = false.
Proof. reflexivity. Qed.
