(* Thm/C02.v -- streaming consistency: Complete and Err are stable under appending bytes;
   fields reported with a Partial are final; re-parsing a growing buffer gives the same
   answer however the stream was chunked. *)
From Coq Require Import List NArith Bool Lia.
From HV Require Import Cursor Scan Model Api Spec.
From HV.Proofs Require Import Base EnvOk Refine Entries Stable Chunk.
Import ListNotations.

Definition final_st (st : status) : Prop := match st with Complete _ | Error _ => True | _ => False end.

(* the whole result (status, every field, the exposed headers, the array) is unchanged *)
Theorem request_stable : forall E, env_ok E -> forall e cf buf ext arr rq,
  bytes_ok buf -> bytes_ok ext ->
  final_st (fst (fst (request_call E e cf buf arr rq))) ->
  request_call E e cf (buf ++ ext) arr rq = request_call E e cf buf arr rq.
Proof.
  intros E HE e cf buf ext arr rq Hb He.
  assert (Hbe : bytes_ok (buf ++ ext)) by (apply bytes_ok_app; auto).
  rewrite !(request_call_ref E HE) by assumption. rewrite req_call_status. intros Hfin.
  unfold req_call_result, req_cap in *.
  destruct (uses_array e); rewrite (ref_request_stable ext) by exact Hfin; reflexivity.
Qed.
Print Assumptions request_stable.

Theorem response_stable : forall E, env_ok E -> forall e cf buf ext arr rp,
  bytes_ok buf -> bytes_ok ext ->
  final_st (fst (fst (response_call E e cf buf arr rp))) ->
  response_call E e cf (buf ++ ext) arr rp = response_call E e cf buf arr rp.
Proof.
  intros E HE e cf buf ext arr rp Hb He.
  assert (Hbe : bytes_ok (buf ++ ext)) by (apply bytes_ok_app; auto).
  rewrite !(response_call_ref E HE) by assumption. rewrite resp_call_status. intros Hfin.
  unfold resp_call_result, resp_cap in *.
  destruct (uses_array e); rewrite (ref_response_stable ext) by exact Hfin; reflexivity.
Qed.
Print Assumptions response_stable.

Theorem headers_stable : forall E, env_ok E -> forall src ext dst,
  bytes_ok src -> bytes_ok ext ->
  final_st (fst (fst (parse_headers E src dst))) ->
  parse_headers E (src ++ ext) dst = parse_headers E src dst.
Proof.
  intros E HE src ext dst Hb He.
  assert (Hbe : bytes_ok (src ++ ext)) by (apply bytes_ok_app; auto).
  rewrite !(parse_headers_ref E HE) by assumption.
  destruct (ref_headers hcfg_default (length dst) 0 src) as [st hs] eqn:Eh. cbn [fst]. intros Hfin.
  rewrite (ref_headers_stable ext _ _ _ _ _ _ Eh Hfin). reflexivity.
Qed.
Print Assumptions headers_stable.

Theorem chunk_stable : forall dbg buf ext,
  final_st (fst (parse_chunk_size dbg buf)) -> parse_chunk_size dbg (buf ++ ext) = parse_chunk_size dbg buf.
Proof. exact Chunk.chunk_stable. Qed.
Print Assumptions chunk_stable.

(* every prefix of an accepted head that is shorter than the head is Partial (or the prefix
   would already determine a different final answer) *)
Theorem prefix_not_final : forall E, env_ok E -> forall e cf buf arr rq n k,
  bytes_ok buf ->
  fst (fst (request_call E e cf buf arr rq)) = Complete n ->
  final_st (fst (fst (request_call E e cf (firstn k buf) arr rq))) ->
  fst (fst (request_call E e cf (firstn k buf) arr rq)) = Complete n.
Proof.
  intros E HE e cf buf arr rq n k Hb Hn Hfin.
  pose proof (request_stable E HE e cf (firstn k buf) (skipn k buf) arr rq
                (bytes_ok_firstn _ _ Hb) (bytes_ok_skipn _ _ Hb) Hfin) as H.
  rewrite firstn_skipn in H. rewrite <- H. exact Hn.
Qed.
Print Assumptions prefix_not_final.

(* a start-line field reported alongside Partial has the value it will have in the end *)
Theorem partial_fields_final : forall cf cap buf ext,
  let a := rq_start (ref_request cf cap buf) in let b := rq_start (ref_request cf cap (buf ++ ext)) in
  le_opt (rs_method a) (rs_method b) /\ le_opt (rs_path a) (rs_path b) /\ le_opt (rs_version a) (rs_version b).
Proof. intros. apply ref_request_fields_final. Qed.
Print Assumptions partial_fields_final.
Theorem partial_fields_final_response : forall cf cap buf ext,
  let a := rp_start (ref_response cf cap buf) in let b := rp_start (ref_response cf cap (buf ++ ext)) in
  le_opt (rs_pversion a) (rs_pversion b) /\ le_opt (rs_code a) (rs_code b) /\ le_opt (rs_reason a) (rs_reason b).
Proof. intros. apply ref_response_fields_final. Qed.
Print Assumptions partial_fields_final_response.

(* the documented loop: parse, read more, parse again -- for every chunking of the stream the
   first non-Partial answer is the answer on the bytes received so far, and it is the answer
   for any longer prefix of the stream as well *)
Fixpoint reparse_loop (parse : list N -> status) (received : list N) (chunks : list (list N)) : status * list N :=
  match chunks with
  | [] => (parse received, received)
  | c :: rest =>
      match parse received with
      | Partial => reparse_loop parse (received ++ c) rest
      | st => (st, received)
      end
  end.

Lemma bytes_ok_concat cs : Forall bytes_ok cs -> bytes_ok (concat cs).
Proof. induction 1 as [|c r Hc Hr IH]; cbn [concat]; [constructor|apply bytes_ok_app; auto]. Qed.

Theorem chunking_irrelevant : forall E, env_ok E -> forall e cf arr rq chunks received,
  bytes_ok received -> Forall bytes_ok chunks ->
  let parse := fun b => fst (fst (request_call E e cf b arr rq)) in
  let (st, seen) := reparse_loop parse received chunks in
  final_st st -> parse (received ++ concat chunks) = st.
Proof.
  intros E HE e cf arr rq chunks. induction chunks as [|c rest IH]; intros received Hb Hc; cbn zeta in *.
  - cbn [reparse_loop concat]. rewrite app_nil_r. auto.
  - inversion Hc as [|? ? Hc0 Hcr]; subst. cbn [reparse_loop concat].
    assert (Hext : bytes_ok (c ++ concat rest)) by (apply bytes_ok_app; split; [exact Hc0|apply bytes_ok_concat; exact Hcr]).
    destruct (fst (fst (request_call E e cf received arr rq))) eqn:Es.
    + intros _. rewrite (request_stable E HE e cf received (c ++ concat rest) arr rq Hb Hext) by (rewrite Es; exact I).
      exact Es.
    + rewrite app_assoc. apply IH; [apply bytes_ok_app; auto|exact Hcr].
    + intros _. rewrite (request_stable E HE e cf received (c ++ concat rest) arr rq Hb Hext) by (rewrite Es; exact I).
      exact Es.
    + intros [].
Qed.
Print Assumptions chunking_irrelevant.

(* ---- tie to the source: every statement above is about Model.v / Api.v; Proofs/Src*.v prove that the
   functions TRANSLATED from /repo/src/lib.rs on this run (Generated/Lib.v, LibApi.v) compute the same
   results, for every environment whose scanners only move forward (all concrete backends do), so each
   theorem of this file holds of the translated source by rewriting with `source_tie`.  Only the entry-point
   families this property speaks about are imported (Req, Resp, PH, Chunk) ---- *)
From HV Require Import Backends.
From HV.Proofs Require Import Mono BackendsFwd SrcReq SrcResp SrcPH SrcChunk.
Theorem source_tie : forall E, env_fwd E -> request_source_is_model E /\ response_source_is_model E /\ headers_source_is_model E /\ chunk_source_is_model.
Proof. intros E HE. repeat split; first [apply src_tie_request | apply src_tie_response | apply src_tie_headers | apply src_tie_chunk]; exact HE. Qed.
Print Assumptions source_tie.
Theorem source_tie_backends : forall W be, request_source_is_model (env_of W be) /\ response_source_is_model (env_of W be) /\ headers_source_is_model (env_of W be) /\ chunk_source_is_model.
Proof. intros W be. apply source_tie, backends_fwd. Qed.
Print Assumptions source_tie_backends.

Theorem src_request_stable : forall E, env_ok E -> env_fwd E -> forall e cf buf ext arr rq,
  bytes_ok buf -> bytes_ok ext ->
  final_st (fst (fst (src_request_call E e cf buf arr rq))) ->
  src_request_call E e cf (buf ++ ext) arr rq = src_request_call E e cf buf arr rq.
Proof. intros E HE HF e cf buf ext arr rq Hb He. rewrite !src_request_call_eq by exact HF. apply request_stable; assumption. Qed.
Print Assumptions src_request_stable.
Theorem src_response_stable : forall E, env_ok E -> env_fwd E -> forall e cf buf ext arr rp,
  bytes_ok buf -> bytes_ok ext ->
  final_st (fst (fst (src_response_call E e cf buf arr rp))) ->
  src_response_call E e cf (buf ++ ext) arr rp = src_response_call E e cf buf arr rp.
Proof. intros E HE HF e cf buf ext arr rp Hb He. rewrite !src_response_call_eq by exact HF. apply response_stable; assumption. Qed.
Print Assumptions src_response_stable.

(* ---- the scanners and class tables of THIS run.  The theorems above hold for every environment E with `env_ok E`
   (each scanner stops exactly at the first byte outside its class; the class predicates are the classes of the
   property).  Every concrete backend -- word-at-a-time with any word width, SSE4.2, AVX2, NEON, the runtime dispatch
   with any cached id -- built from the kernels, loop shells and CLASS TABLES translated from /repo on this run
   satisfies it (Proofs/BackendsOk.v over Generated/{Classes,Swar,Sse42,Avx2,Neon}.v; Thm/C12.v states the parts), so
   the theorems hold of the code as it is now; a table entry or a kernel that is not the class breaks this obligation
   of THIS property, not only C12's ---- *)
From HV Require Backends.
From HV.Proofs Require BackendsOk.
Theorem backends_of_this_run_ok : forall W, 0 < W -> forall be, env_ok (Backends.env_of W be).
Proof. exact BackendsOk.env_of_ok. Qed.
Print Assumptions backends_of_this_run_ok.
(* ... and the scanner loop shells and SWAR helpers translated on this run are the ones `Backends.env_of` is built from *)
From HV.Proofs Require TieLoops TieSwarFns.
Theorem loop_shells_of_this_run : TieLoops.loop_shells_tied.
Proof. exact TieLoops.loop_shells_tied_pf. Qed.
Print Assumptions loop_shells_of_this_run.

