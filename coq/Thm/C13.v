(* Thm/C13.v -- results are independent of the scanner backend, the build profile and thread
   timing; the cfg lattice provides exactly one implementation of each scanner.
   PARTIAL: the hardware memory model, is_x86_feature_detected! and code generation are
   modelled (deterministic detect, per-location coherence), not verified; "alignment-free"
   is enforced by the translator (aligned-load intrinsics are rejected), not by a theorem. *)
From Coq Require Import List NArith Bool.
From HV Require Import Cursor Scan Model Api Spec Backends CfgBase.
From HV.Proofs Require Import Base EnvOk Refine Entries BackendsOk Chunk CfgLattice RuntimeCell.
Import ListNotations.

(* every backend (swar with 4- or 8-byte words, sse4.2, avx2, neon, runtime with any cached id)
   gives the same result on every request / response / header block *)
Theorem backend_independent : forall W1 W2, 0 < W1 -> 0 < W2 -> forall be1 be2 buf, bytes_ok buf ->
  (forall e cf arr rq, request_call (env_of W1 be1) e cf buf arr rq = request_call (env_of W2 be2) e cf buf arr rq) /\
  (forall e cf arr rp, response_call (env_of W1 be1) e cf buf arr rp = response_call (env_of W2 be2) e cf buf arr rp) /\
  (forall dst, parse_headers (env_of W1 be1) buf dst = parse_headers (env_of W2 be2) buf dst).
Proof.
  intros W1 W2 H1 H2 be1 be2 buf Hb.
  pose proof (env_of_ok W1 H1 be1) as E1. pose proof (env_of_ok W2 H2 be2) as E2.
  repeat split; intros.
  - rewrite (request_call_ref _ E1), (request_call_ref _ E2) by exact Hb. reflexivity.
  - rewrite (response_call_ref _ E1), (response_call_ref _ E2) by exact Hb. reflexivity.
  - rewrite (parse_headers_ref _ E1), (parse_headers_ref _ E2) by exact Hb. reflexivity.
Qed.
Print Assumptions backend_independent.

(* the only cfg!(debug_assertions)-dependent branch is dead *)
Theorem profile_independent : forall d1 d2 buf, parse_chunk_size d1 buf = parse_chunk_size d2 buf.
Proof. intros. rewrite !Chunk.chunk_ref_eq. reflexivity. Qed.
Print Assumptions profile_independent.

(* the cfg lattice of src/simd/mod.rs, over all 64 cfg environments *)
Theorem cfg_exactly_one_provider : forall e : cfgenv, cfg_ok e = true.
Proof. exact CfgLattice.cfg_exactly_one_provider. Qed.
Print Assumptions cfg_exactly_one_provider.

Theorem build_script_table : forall b ar,
  cfg_ok (build_rs b ar) = true /\
  (ce_simd (build_rs b ar) = true -> be_std b = true) /\
  (ce_simd (build_rs b ar) = false -> ce_sse42 (build_rs b ar) = false /\ ce_avx2 (build_rs b ar) = false).
Proof. exact CfgLattice.build_script_table. Qed.
Print Assumptions build_script_table.

(* the relaxed-atomic cache: every thread ends with the detected id, under every interleaving
   of any number of threads *)
Theorem runtime_cell_safe : forall d, d <> 0%N -> forall n s, reachable d n s ->
  forall i t v, nth_error (threads s) i = Some t -> t_pc t = Finished v -> v = d.
Proof. intros d Hd n s Hr. exact (proj2 (RuntimeCell.runtime_cell_safe d n s Hr)). Qed.
Print Assumptions runtime_cell_safe.

(* non-vacuity: a two-thread race in which both threads load 0, both detect, both store *)
Example race_example : exists s,
  reachable 1 2 s /\ mo s = [0; 1; 1]%N /\
  threads s = [mkthread (Finished 1%N) 1; mkthread (Finished 1%N) 2].
Proof.
  pose (s0 := init 2).
  assert (R0 : reachable 1 2 s0) by constructor.
  pose (s1 := mkstate (mo s0) (set_nth 0 (mkthread (Loaded 0%N) 0) (threads s0))).
  assert (R1 : reachable 1 2 s1).
  { eapply RStep; [exact R0|]. apply (SLoad 1 s0 0 (mkthread Start 0) 0 0%N); try reflexivity; cbn; auto. }
  pose (s2 := mkstate (mo s1) (set_nth 1 (mkthread (Loaded 0%N) 0) (threads s1))).
  assert (R2 : reachable 1 2 s2).
  { eapply RStep; [exact R1|]. apply (SLoad 1 s1 1 (mkthread Start 0) 0 0%N); try reflexivity; cbn; auto. }
  pose (s3 := mkstate (mo s2) (set_nth 0 (mkthread Detected 0) (threads s2))).
  assert (R3 : reachable 1 2 s3).
  { eapply RStep; [exact R2|]. apply (SBranch0 1 s2 0 (mkthread (Loaded 0%N) 0)); reflexivity. }
  pose (s4 := mkstate (mo s3) (set_nth 1 (mkthread Detected 0) (threads s3))).
  assert (R4 : reachable 1 2 s4).
  { eapply RStep; [exact R3|]. apply (SBranch0 1 s3 1 (mkthread (Loaded 0%N) 0)); reflexivity. }
  pose (s5 := mkstate (mo s4 ++ [1%N]) (set_nth 0 (mkthread (Finished 1%N) (length (mo s4))) (threads s4))).
  assert (R5 : reachable 1 2 s5).
  { eapply RStep; [exact R4|]. apply (SStore 1 s4 0 (mkthread Detected 0)); reflexivity. }
  pose (s6 := mkstate (mo s5 ++ [1%N]) (set_nth 1 (mkthread (Finished 1%N) (length (mo s5))) (threads s5))).
  assert (R6 : reachable 1 2 s6).
  { eapply RStep; [exact R5|]. apply (SStore 1 s5 1 (mkthread Detected 0)); reflexivity. }
  exists s6. split; [exact R6|]. split; reflexivity.
Qed.

(* ---- tie to the source: every statement above is about Model.v / Api.v; Proofs/Src*.v prove that the
   functions TRANSLATED from /repo/src/lib.rs on this run (Generated/Lib.v, LibApi.v) compute the same
   results, for every environment whose scanners only move forward (all concrete backends do), so each
   theorem of this file holds of the translated source by rewriting with `source_tie`.  Only the entry-point
   families this property speaks about are imported (Req, Resp) ---- *)
From HV Require Import Backends.
From HV.Proofs Require Import Mono BackendsFwd SrcReq SrcResp.
Theorem source_tie : forall E, env_fwd E -> request_source_is_model E /\ response_source_is_model E.
Proof. intros E HE. repeat split; first [apply src_tie_request | apply src_tie_response]; exact HE. Qed.
Print Assumptions source_tie.
Theorem source_tie_backends : forall W be, request_source_is_model (env_of W be) /\ response_source_is_model (env_of W be).
Proof. intros W be. apply source_tie, backends_fwd. Qed.
Print Assumptions source_tie_backends.

(* ---- the cached-backend cell AS TRANSLATED.  `get_runtime_feature` of src/simd/runtime.rs is translated on every run
   into the instruction language of RtProg.v (Generated/Runtime.v, G15: load / detect / store / move / if-zero /
   return over the function's locals).  Proofs/RuntimeProg.v proves an abstract interpreter (what is known about a
   register: 0, d, "0 or d", anything) sound for EVERY program of that language, for any number of threads and every
   interleaving of their relaxed loads and stores (a load may return any value of the modification order not older
   than what the thread has seen).  Run on the program of this run it accepts; hence: the cell only ever holds 0 or
   the detected id d, every call returns, and every call returns d -- whichever thread wins the race.  (The
   hand-written transition system above, `runtime_cell_safe`, is the same statement about the shape the function
   had when it was written down; this one follows the source.) ---- *)
From HV Require RtProg.
From HV.Generated Require Runtime Cfg.
From HV.Proofs Require RuntimeProg.
Theorem runtime_cell_as_translated : forall d, d <> 0%N -> forall n s,
  RtProg.reachable d Runtime.g_get_runtime_feature n s ->
  Forall (fun v => v = 0%N \/ v = d) (RtProg.mo s) /\
  (forall i t, nth_error (RtProg.threads s) i = Some t -> RtProg.t_k t = [] -> RtProg.t_out t = Some d) /\
  (forall i t v, nth_error (RtProg.threads s) i = Some t -> RtProg.t_out t = Some v -> v = d).
Proof.
  intros d Hd. apply (RuntimeProg.acheck_sound d Hd Runtime.g_get_runtime_feature RtProg.rt_fuel).
  vm_compute. reflexivity.
Qed.
Print Assumptions runtime_cell_as_translated.
(* the three ids detect_runtime_feature can return (Generated/Cfg.v) are not 0, the cell's initial value *)
Theorem detected_ids_nonzero : Cfg.RT_AVX2 <> 0%N /\ Cfg.RT_SSE42 <> 0%N /\ Cfg.RT_NOP <> 0%N.
Proof. repeat split; discriminate. Qed.
Print Assumptions detected_ids_nonzero.
(* the interpreter is not vacuous: it rejects a cell that publishes before it has detected, and one that returns
   what it loaded without looking at it *)
Example runtime_checker_rejects :
  RtProg.acheck_prog [RtProg.ILoad 0; RtProg.IStore 0; RtProg.IRet 0] = false /\
  RtProg.acheck_prog [RtProg.ILoad 0; RtProg.IRet 0] = false /\
  RtProg.acheck_prog [RtProg.ILoad 0; RtProg.IIf false 0 [RtProg.IDetect 0; RtProg.IStore 0] []; RtProg.IRet 0] = false.
Proof. repeat split; vm_compute; reflexivity. Qed.

(* ---- the scanner loop shells and SWAR helpers translated from /repo/src/simd/*.rs on this run are the ones
   `Backends.env_of` is built from (Proofs/TieLoops.v, TieSwarFns.v): a rewritten loop shell breaks this obligation of
   this property too ---- *)
From HV.Proofs Require TieLoops TieSwarFns.
Theorem loop_shells_of_this_run : TieLoops.loop_shells_tied.
Proof. exact TieLoops.loop_shells_tied_pf. Qed.
Print Assumptions loop_shells_of_this_run.
