(* Thm/C09.v -- chunk size: exact value, no overflow, exact accepted language.
   Statements only; proofs in Proofs/Chunk.v. *)
From Coq Require Import List NArith Bool.
From HV Require Import Cursor Model Spec.
From HV.Generated Require Import Lib.
From HV.Proofs Require Import Chunk TieChunk SrcChunk.
Import ListNotations.

(* ---- tie to the source: `parse_chunk_size` as translated from /repo/src/lib.rs on this run
   (Generated/Lib.v; macros expanded from macros.rs; one overflow guard per + - * in the width
   rustc infers), run the way the Rust entry point runs it ---- *)
Theorem src_chunk_is_model : forall dbg buf, src_parse_chunk_size dbg buf = parse_chunk_size dbg buf.
Proof.
  exact src_parse_chunk_size_eq.
Qed.
Print Assumptions src_chunk_is_model.

(* the translated source = the reference grammar; hence no guard the translator emitted can fire
   (no overflow in u8 / i32 / u64 arithmetic), in debug and in release *)
Theorem src_chunk_ref_eq : forall dbg buf, src_parse_chunk_size dbg buf = ref_chunk buf.
Proof. intros. rewrite src_chunk_is_model. apply Chunk.chunk_ref_eq. Qed.
Print Assumptions src_chunk_ref_eq.

(* the model of parse_chunk_size (with its checked multiply-add and the debug-only guard)
   equals the reference grammar  1*16HEXDIG *(SP/HTAB) [";" *(non-CR)] CRLF  on every buffer *)
Theorem chunk_ref_eq : forall dbg buf, parse_chunk_size dbg buf = ref_chunk buf.
Proof. exact Chunk.chunk_ref_eq. Qed.
Print Assumptions chunk_ref_eq.

(* same in debug and release: the cfg!(debug_assertions) branch is dead *)
Theorem chunk_profile_independent : forall d1 d2 buf, parse_chunk_size d1 buf = parse_chunk_size d2 buf.
Proof. intros. rewrite !Chunk.chunk_ref_eq. reflexivity. Qed.
Print Assumptions chunk_profile_independent.

(* never a fault: no arithmetic overflow, no out-of-fuel (termination), no out-of-bounds step *)
Theorem chunk_no_fault : forall dbg buf f, fst (parse_chunk_size dbg buf) <> Faulted f.
Proof. intros. rewrite Chunk.chunk_ref_eq. apply ref_chunk_no_fault. Qed.
Print Assumptions chunk_no_fault.

(* exact value: the size is the value of the 1..16 leading hex digits, below 2^64; n is in range *)
Theorem chunk_value_exact : forall dbg buf n size,
  parse_chunk_size dbg buf = (Complete n, size) ->
  let ds := fst (span hexdig buf) in
  size = hex_value ds /\ 1 <= length ds <= 16 /\ (size < 2 ^ 64)%N /\ n <= length buf.
Proof. intros dbg buf n size H. rewrite Chunk.chunk_ref_eq in H. exact (ref_chunk_complete buf n size H). Qed.
Print Assumptions chunk_value_exact.

(* non-vacuity and the boundary: 16 F's are accepted with the value 2^64 - 1, 17 digits are not *)
Example src_chunk_examples :
  src_parse_chunk_size false (repeat 70 16 ++ [13; 10])%N = (Complete 18, 18446744073709551615%N) /\
  src_parse_chunk_size true (repeat 70 17 ++ [13; 10])%N = (Error InvalidChunkSize, 0%N) /\
  src_parse_chunk_size false [13; 10]%N = (Error InvalidChunkSize, 0%N).
Proof. vm_compute. repeat split. Qed.

Example chunk_examples :
  parse_chunk_size false (repeat 70 16 ++ [13; 10])%N = (Complete 18, 18446744073709551615%N) /\
  parse_chunk_size true (repeat 70 17 ++ [13; 10])%N = (Error InvalidChunkSize, 0%N) /\
  parse_chunk_size false [59; 120; 13; 10]%N = (Error InvalidChunkSize, 0%N) /\
  parse_chunk_size false [49; 102; 32; 59; 10; 13; 10; 88]%N = (Complete 7, 31%N).
Proof. vm_compute. repeat split. Qed.
