(* Thm/C10.v -- error classification.  In the reference parsers the error kind IS the element
   whose stage was consuming when the input stopped being a prefix of the language (each
   stage raises only its own kind); the model's error is the reference's (Thm/C06-C08, C14).
   TooManyHeaders is returned exactly when one more header line than the array holds completes. *)
From Coq Require Import List NArith Bool Lia.
From HV Require Import Cursor Scan Model Api Spec.
From HV.Proofs Require Import Base EnvOk Refine Entries ErrKinds Storage.
Import ListNotations.

(* the model reports the reference's classification, for every entry point *)
Theorem error_kind_eq : forall E, env_ok E -> forall e cf buf arr rq, bytes_ok buf ->
  fst (fst (request_call E e cf buf arr rq)) = rq_status (ref_request (eff_cfg e cf) (req_cap e arr rq) buf).
Proof. intros E HE e cf buf arr rq Hb. rewrite (request_call_ref E HE) by exact Hb. apply req_call_status. Qed.
Print Assumptions error_kind_eq.
Theorem error_kind_eq_response : forall E, env_ok E -> forall e cf buf arr rp, bytes_ok buf ->
  fst (fst (response_call E e cf buf arr rp)) = rp_status (ref_response (eff_cfg e cf) (resp_cap e arr rp) buf).
Proof. intros E HE e cf buf arr rp Hb. rewrite (response_call_ref E HE) by exact Hb. apply resp_call_status. Qed.
Print Assumptions error_kind_eq_response.

(* which kinds each part of a message can raise *)
Theorem request_line_error_kinds : forall ms buf e,
  snd (ref_request_line ms buf) = RErr e -> e = NewLine \/ e = Token \/ e = Version.
Proof. intros ms buf e H. pose proof (ref_request_line_errs ms buf) as K. rewrite H in K. exact K. Qed.
Print Assumptions request_line_error_kinds.
Theorem status_line_error_kinds : forall ms buf e,
  snd (ref_status_line ms buf) = RErr e -> e = NewLine \/ e = Version \/ e = Status.
Proof. intros ms buf e H. pose proof (ref_status_line_errs ms buf) as K. rewrite H in K. exact K. Qed.
Print Assumptions status_line_error_kinds.
Theorem header_line_error_kinds : forall hc first off l e,
  ref_header_line hc first off l = RErr e -> e = NewLine \/ e = HeaderName \/ e = HeaderValue.
Proof. intros hc first off l e H. pose proof (ref_header_line_errs hc first off l) as K. rewrite H in K. exact K. Qed.
Print Assumptions header_line_error_kinds.

(* each stage raises only its own kind *)
Theorem stage_error_kinds :
  (forall off l e, ref_method off l = RErr e -> e = Token) /\
  (forall off l e, ref_target off l = RErr e -> e = Token) /\
  (forall off l e, ref_version off l = RErr e -> e = Version) /\
  (forall off l e, ref_code off l = RErr e -> e = Status) /\
  (forall ms off l e, ref_after_code ms off l = RErr e -> e = Status) /\
  (forall hc name off l e, ref_value hc name off l = RErr e -> e = HeaderValue).
Proof.
  repeat split; intros.
  - pose proof (ref_method_errs off l) as K. rewrite H in K. symmetry. exact K.
  - pose proof (ref_target_errs off l) as K. rewrite H in K. symmetry. exact K.
  - pose proof (ref_version_errs off l) as K. rewrite H in K. symmetry. exact K.
  - pose proof (ref_code_errs off l) as K. rewrite H in K. symmetry. exact K.
  - pose proof (ref_after_code_errs ms off l) as K. rewrite H in K. symmetry. exact K.
  - pose proof (ref_value_errs hc name off l) as K. rewrite H in K. symmetry. exact K.
Qed.
Print Assumptions stage_error_kinds.

(* TooManyHeaders exactly when the (cap+1)-th header line completes, and for no other reason *)
Theorem too_many_iff : forall hc cap off l,
  fst (ref_headers hc cap off l) = Error TooManyHeaders <->
  length (snd (ref_headers hc (S cap) off l)) = S cap.
Proof. intros hc cap off l. unfold ref_headers. apply too_many_iff_block. cbn [length]. lia. Qed.
Print Assumptions too_many_iff.

Example classification_examples :
  rq_status (ref_request config_default 4 [71;69;84;9]%N) = Error Token /\
  rq_status (ref_request config_default 4 [71;32;47;32;72;84;84;80;47;50]%N) = Error Version /\
  rq_status (ref_request config_default 4 [71;32;47;32;72;84;84;80;47;49;46;49;13;88]%N) = Error NewLine /\
  rp_status (ref_response config_default 4 [72;84;84;80;47;49;46;49;88]%N) = Error Version /\
  rp_status (ref_response config_default 4 [72;84;84;80;47;49;46;49;32;50;48;120]%N) = Error Status /\
  fst (ref_headers hcfg_default 1 0 [65;58;49;10;66;58;50;10;67;32]%N) = Error TooManyHeaders.
Proof. vm_compute. repeat split. Qed.

(* ---- tie to the source: every statement above is about Model.v / Api.v; Proofs/Src*.v prove that the
   functions TRANSLATED from /repo/src/lib.rs on this run (Generated/Lib.v, LibApi.v) compute the same
   results, for every environment whose scanners only move forward (all concrete backends do), so each
   theorem of this file holds of the translated source by rewriting with `source_tie`.  Only the entry-point
   families this property speaks about are imported (Req, Resp) ---- *)
From HV Require Import Backends.
From HV.Proofs Require Import Mono BackendsFwd SrcReq SrcResp.
Theorem source_tie : forall E, env_fwd E -> request_source_is_model E /\ response_source_is_model E.
Proof. intros E HE. repeat split; first [apply src_tie_request | apply src_tie_response]; exact HE. Qed.
Print Assumptions source_tie.
Theorem source_tie_backends : forall W be, request_source_is_model (env_of W be) /\ response_source_is_model (env_of W be).
Proof. intros W be. apply source_tie, backends_fwd. Qed.
Print Assumptions source_tie_backends.

(* ---- the scanners and class tables of THIS run.  The theorems above hold for every environment E with `env_ok E`
   (each scanner stops exactly at the first byte outside its class; the class predicates are the classes of the
   property).  Every concrete backend -- word-at-a-time with any word width, SSE4.2, AVX2, NEON, the runtime dispatch
   with any cached id -- built from the kernels, loop shells and CLASS TABLES translated from /repo on this run
   satisfies it (Proofs/BackendsOk.v over Generated/{Classes,Swar,Sse42,Avx2,Neon}.v; Thm/C12.v states the parts), so
   the theorems hold of the code as it is now; a table entry or a kernel that is not the class breaks this obligation
   of THIS property, not only C12's ---- *)
From HV Require Backends.
From HV.Proofs Require BackendsOk.
Theorem backends_of_this_run_ok : forall W, 0 < W -> forall be, env_ok (Backends.env_of W be).
Proof. exact BackendsOk.env_of_ok. Qed.
Print Assumptions backends_of_this_run_ok.
(* ... and the scanner loop shells and SWAR helpers translated on this run are the ones `Backends.env_of` is built from *)
From HV.Proofs Require TieLoops TieSwarFns.
Theorem loop_shells_of_this_run : TieLoops.loop_shells_tied.
Proof. exact TieLoops.loop_shells_tied_pf. Qed.
Print Assumptions loop_shells_of_this_run.

