(* Thm/C16.v -- all entry points agree. *)
From Coq Require Import List NArith Bool Lia.
From HV Require Import Cursor Scan Model Api Spec.
From HV.Proofs Require Import Base EnvOk Refine Entries Storage Shift.
Import ListNotations.

(* parse / with-config / the two uninit variants: same status, and on Complete the same
   fields and headers, for the same buffer, effective configuration and capacity *)
Theorem request_entries_agree : forall E, env_ok E -> forall e1 e2 cf buf arr1 arr2 rq1 rq2, bytes_ok buf ->
  eff_cfg e1 cf = eff_cfg e2 cf -> req_cap e1 arr1 rq1 = req_cap e2 arr2 rq2 ->
  let r1 := request_call E e1 cf buf arr1 rq1 in
  let r2 := request_call E e2 cf buf arr2 rq2 in
  fst (fst r1) = fst (fst r2) /\
  (forall n, fst (fst r1) = Complete n -> snd (fst r1) = snd (fst r2)).
Proof.
  intros E HE e1 e2 cf buf arr1 arr2 rq1 rq2 Hb Hcf Hcap. cbn zeta.
  rewrite !(request_call_ref E HE) by exact Hb. rewrite !req_call_status, Hcf, Hcap. split; [reflexivity|].
  intros n Hn. rewrite (req_call_complete e1 cf buf arr1 rq1 n) by (rewrite Hcf, Hcap; exact Hn).
  rewrite (req_call_complete e2 cf buf arr2 rq2 n) by exact Hn. rewrite Hcf, Hcap. reflexivity.
Qed.
Print Assumptions request_entries_agree.

Theorem response_entries_agree : forall E, env_ok E -> forall e1 e2 cf buf arr1 arr2 rp1 rp2, bytes_ok buf ->
  eff_cfg e1 cf = eff_cfg e2 cf -> resp_cap e1 arr1 rp1 = resp_cap e2 arr2 rp2 ->
  let r1 := response_call E e1 cf buf arr1 rp1 in
  let r2 := response_call E e2 cf buf arr2 rp2 in
  fst (fst r1) = fst (fst r2) /\
  (forall n, fst (fst r1) = Complete n -> snd (fst r1) = snd (fst r2)).
Proof.
  intros E HE e1 e2 cf buf arr1 arr2 rp1 rp2 Hb Hcf Hcap. cbn zeta.
  rewrite !(response_call_ref E HE) by exact Hb. rewrite !resp_call_status, Hcf, Hcap. split; [reflexivity|].
  intros n Hn. rewrite (resp_call_complete e1 cf buf arr1 rp1 n) by (rewrite Hcf, Hcap; exact Hn).
  rewrite (resp_call_complete e2 cf buf arr2 rp2 n) by exact Hn. rewrite Hcf, Hcap. reflexivity.
Qed.
Print Assumptions response_entries_agree.

(* the header part of a request / response IS ref_headers on the bytes after the start line,
   and ref_headers is position independent: parse_headers(h) shifted by the start-line length *)
Theorem parse_headers_agrees : forall hc cap k h,
  ref_headers hc cap k h =
  (let (st, hs) := ref_headers hc cap 0 h in (shstatus k st, map (shhdr k) hs)).
Proof. exact ref_headers_shift. Qed.
Print Assumptions parse_headers_agrees.

Theorem request_header_part : forall cf cap buf u o h,
  snd (ref_request_line (allow_multiple_spaces_in_request_line_delimiters cf) buf) = ROk u o h ->
  let (st, hs) := ref_headers (request_hcfg cf) cap 0 h in
  rq_status (ref_request cf cap buf) = shstatus o st /\
  rq_headers (ref_request cf cap buf) = map (shhdr o) hs.
Proof.
  intros cf cap buf u o h H. unfold ref_request.
  destruct (ref_request_line _ buf) as [st0 r]. cbn [snd] in H. subst r.
  rewrite (ref_headers_shift (request_hcfg cf) cap o h).
  destruct (ref_headers (request_hcfg cf) cap 0 h) as [st hs]. split; reflexivity.
Qed.
Print Assumptions request_header_part.

Theorem response_header_part : forall cf cap buf u o h,
  snd (ref_status_line (allow_multiple_spaces_in_response_status_delimiters cf) buf) = ROk u o h ->
  let (st, hs) := ref_headers (response_hcfg cf) cap 0 h in
  rp_status (ref_response cf cap buf) = shstatus o st /\
  rp_headers (ref_response cf cap buf) = map (shhdr o) hs.
Proof.
  intros cf cap buf u o h H. unfold ref_response.
  destruct (ref_status_line _ buf) as [st0 r]. cbn [snd] in H. subst r.
  rewrite (ref_headers_shift (response_hcfg cf) cap o h).
  destruct (ref_headers (response_hcfg cf) cap 0 h) as [st hs]. split; reflexivity.
Qed.
Print Assumptions response_header_part.

Example shift_example :
  ref_headers hcfg_default 2 16 [65;58;32;98;13;10;13;10]%N = (Complete 24, [(Sub 16 [65%N], Sub 19 [98%N])]).
Proof. vm_compute. reflexivity. Qed.

(* ---- tie to the source: every statement above is about Model.v / Api.v; Proofs/Src*.v prove that the
   functions TRANSLATED from /repo/src/lib.rs on this run (Generated/Lib.v, LibApi.v) compute the same
   results, for every environment whose scanners only move forward (all concrete backends do), so each
   theorem of this file holds of the translated source by rewriting with `source_tie`.  Only the entry-point
   families this property speaks about are imported (Req, Resp, PH) ---- *)
From HV Require Import Backends.
From HV.Proofs Require Import Mono BackendsFwd SrcReq SrcResp SrcPH.
Theorem source_tie : forall E, env_fwd E -> request_source_is_model E /\ response_source_is_model E /\ headers_source_is_model E.
Proof. intros E HE. repeat split; first [apply src_tie_request | apply src_tie_response | apply src_tie_headers]; exact HE. Qed.
Print Assumptions source_tie.
Theorem source_tie_backends : forall W be, request_source_is_model (env_of W be) /\ response_source_is_model (env_of W be) /\ headers_source_is_model (env_of W be).
Proof. intros W be. apply source_tie, backends_fwd. Qed.
Print Assumptions source_tie_backends.

(* ---- the two `parse_with_config` wrappers are translated from /repo/src/lib.rs on this run as well
   (Generated/LibApi.v: g_request_with_config_body / g_response_with_config_body -- `mem::take(&mut self.headers)`,
   the pointer casts, the call of the core with its Result as a value, `self.headers = ..` in the non-Complete arm)
   and proved equal to Api.request_with_config / response_with_config, which the entry-point theorems above are
   about; the remaining delegations (parse, ParserConfig::parse_*, *_with_uninit_headers) are one expression each and
   translated too (G14, below); only the constructor `new` is pinned by token text ---- *)
From HV Require Import Imp.
From HV.Generated Require Import LibApi.
From HV.Proofs Require Import TieReq TieResp.
Theorem with_config_wrappers_as_translated : forall E, env_fwd E -> forall cf buf,
  (forall rq x y,
     fin_reqw (Imp.ifun (g_request_with_config_body E (S (length buf)) cf buf)
                        (g_request_with_config_init (q_method rq) (q_path rq) (q_version rq) (q_hdrs rq) x y) (cur_new buf))
     = request_with_config E cf buf rq) /\
  (forall rp x y,
     fin_respw (Imp.ifun (g_response_with_config_body E (S (length buf)) cf buf)
                         (g_response_with_config_init (p_version rp) (p_code rp) (p_reason rp) (p_hdrs rp) x y) (cur_new buf))
     = response_with_config E cf buf rp).
Proof.
  intros E HE cf buf. split; intros.
  - apply tie_request_with_config. exact HE.
  - apply tie_response_with_config. exact HE.
Qed.
Print Assumptions with_config_wrappers_as_translated.

(* ---- the seven one-expression delegations, translated from /repo/src/lib.rs on this run (Generated/LibApi.v, G14:
   receiver, callee and each argument read from the source; arguments matched to the callee's parameters by the
   callee's own parameter names), are exactly the routes `source_tie` takes: every entry point hands its buffer, its
   array and ITS configuration (the default one for `parse` / `parse_with_uninit_headers`) to `parse_with_config` (Xw)
   or `parse_with_config_and_uninit_headers` (Xc) of its kind, and nothing else.  A delegation that drops the caller's
   configuration, swaps two arguments or forwards to another entry point translates to another term and breaks this
   theorem and `source_tie` ---- *)
Theorem delegations_as_translated : forall (V R : Type) (Xw : config -> list N -> V -> R)
    (Xc : config -> list N -> V -> list slot -> R) cf buf v arr,
  gd_request_parse Xw Xc buf v = Xw config_default buf v /\
  gd_response_parse Xw Xc buf v = Xw config_default buf v /\
  gd_parse_request Xw Xc cf buf v = Xw cf buf v /\
  gd_parse_response Xw Xc cf buf v = Xw cf buf v /\
  gd_request_parse_with_uninit_headers Xw Xc buf v arr = Xc config_default buf v arr /\
  gd_parse_request_with_uninit_headers Xw Xc cf buf v arr = Xc cf buf v arr /\
  gd_parse_response_with_uninit_headers Xw Xc cf buf v arr = Xc cf buf v arr.
Proof. intros. repeat split; reflexivity. Qed.
Print Assumptions delegations_as_translated.

(* ---- the scanners and class tables of THIS run.  The theorems above hold for every environment E with `env_ok E`
   (each scanner stops exactly at the first byte outside its class; the class predicates are the classes of the
   property).  Every concrete backend -- word-at-a-time with any word width, SSE4.2, AVX2, NEON, the runtime dispatch
   with any cached id -- built from the kernels, loop shells and CLASS TABLES translated from /repo on this run
   satisfies it (Proofs/BackendsOk.v over Generated/{Classes,Swar,Sse42,Avx2,Neon}.v; Thm/C12.v states the parts), so
   the theorems hold of the code as it is now; a table entry or a kernel that is not the class breaks this obligation
   of THIS property, not only C12's ---- *)
From HV Require Backends.
From HV.Proofs Require BackendsOk.
Theorem backends_of_this_run_ok : forall W, 0 < W -> forall be, env_ok (Backends.env_of W be).
Proof. exact BackendsOk.env_of_ok. Qed.
Print Assumptions backends_of_this_run_ok.
(* ... and the scanner loop shells and SWAR helpers translated on this run are the ones `Backends.env_of` is built from *)
From HV.Proofs Require TieLoops TieSwarFns.
Theorem loop_shells_of_this_run : TieLoops.loop_shells_tied.
Proof. exact TieLoops.loop_shells_tied_pf. Qed.
Print Assumptions loop_shells_of_this_run.

