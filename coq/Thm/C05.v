(* Thm/C05.v -- field hygiene.  Stated on the reference parsers, which the model equals
   (Thm/C06, C07, C08, C14).
   For values under obsolete line folding: every byte is HTAB, SP, 0x21-0x7E, 0x80-0xFF, CR or LF;
   first byte not SP/HTAB, last byte not SP/HTAB/CR/LF (value_shape); and a LF is always immediately
   followed by SP / HTAB, a CR always immediately by LF (folds_in_values, fold_clause_spelled). *)
From Coq Require Import List NArith Bool Lia.
From HV Require Import Cursor Scan Model Api Spec Oracle.
From HV.Proofs Require Import Base EnvOk Refine Entries Clean Hygiene Folds.
Import ListNotations.

(* requests, any outcome: whatever field is present is class-clean; stored headers have
   non-empty tchar names and class-clean, trimmed values *)
Theorem request_hygiene : forall cf cap buf,
  let r := ref_request cf cap buf in
  opt_p method_ok (rs_method (rq_start r)) /\ opt_p path_ok (rs_path (rq_start r)) /\
  opt_p (fun v => v = 0%N \/ v = 1%N) (rs_version (rq_start r)) /\
  Forall (fun h => header_shape (request_hcfg cf) (LHeader (fst h) (snd h))) (rq_headers r).
Proof. exact ref_request_fields_class. Qed.
Print Assumptions request_hygiene.

Theorem response_hygiene : forall cf cap buf,
  let r := ref_response cf cap buf in
  opt_p (fun v => v = 0%N \/ v = 1%N) (rs_pversion (rp_start r)) /\
  opt_p (fun c => (c < 1000)%N) (rs_code (rp_start r)) /\
  opt_p reason_ok_sl (rs_reason (rp_start r)) /\
  Forall (fun h => header_shape (response_hcfg cf) (LHeader (fst h) (snd h))) (rp_headers r).
Proof. exact ref_response_fields_class. Qed.
Print Assumptions response_hygiene.

(* the consumed head never contains NUL or a CR that is not followed by LF *)
Theorem head_clean_request : forall cf cap buf n,
  rq_status (ref_request cf cap buf) = Complete n -> head_clean (firstn n buf) = true.
Proof. exact ref_request_head_clean. Qed.
Print Assumptions head_clean_request.
Theorem head_clean_response : forall cf cap buf n,
  rp_status (ref_response cf cap buf) = Complete n -> head_clean (firstn n buf) = true.
Proof. exact ref_response_head_clean. Qed.
Print Assumptions head_clean_response.
Theorem head_clean_headers : forall hc cap buf n hs,
  ref_headers hc cap 0 buf = (Complete n, hs) -> head_clean (firstn n buf) = true.
Proof. exact ref_headers_head_clean. Qed.
Print Assumptions head_clean_headers.

(* every &str handed out is valid UTF-8 *)
Theorem strs_are_utf8 :
  (forall s, method_ok s -> utf8_valid (sl_bytes s) = true) /\
  (forall s, path_ok s -> utf8_valid (sl_bytes s) = true) /\
  (forall s, reason_ok_sl s -> utf8_valid (sl_bytes s) = true).
Proof.
  repeat split.
  - intros s (o & m & -> & _ & H). cbn [sl_bytes]. apply ascii_utf8. apply tchar_ascii. exact H.
  - intros s (o & m & -> & _ & _ & H). exact H.
  - intros s [(o & t & Hs & H)|Hs]; subst s; cbn [sl_bytes]; [apply ascii_utf8; apply reason_ascii; exact H|reflexivity].
Qed.
Print Assumptions strs_are_utf8.

(* what header_shape says, spelled out for a value *)
Theorem value_shape_spelled : forall hc o bs,
  value_shape hc (Sub o bs) ->
  forallb (fun x => value_char x || (allow_obsolete_multiline_headers hc && (is 13 x || is 10 x))) bs = true /\
  (bs <> [] -> exists b0, hd_error bs = Some b0 /\ ws b0 = false /\ is_trim (last bs 0%N) = false).
Proof. intros hc o bs H. exact H. Qed.
Print Assumptions value_shape_spelled.

(* line breaks inside a stored value occur only where the value was folded: LF directly before SP / HTAB, CR
   directly before LF -- in requests, responses and header blocks, for every configuration and capacity *)
Theorem folds_in_values :
  (forall cf cap buf, Forall (fun h => val_folds (snd h)) (rq_headers (ref_request cf cap buf))) /\
  (forall cf cap buf, Forall (fun h => val_folds (snd h)) (rp_headers (ref_response cf cap buf))) /\
  (forall hc cap off l st hs, ref_headers hc cap off l = (st, hs) -> Forall (fun h => val_folds (snd h)) hs).
Proof. repeat split; [exact ref_request_folds|exact ref_response_folds|exact ref_headers_folds]. Qed.
Print Assumptions folds_in_values.

Theorem fold_clause_spelled : forall o bs a x y b, val_folds (Sub o bs) -> bs = a ++ x :: y :: b ->
  (is 10 x = true -> ws y = true) /\ (is 13 x = true -> is 10 y = true).
Proof. intros o bs a x y b H E. exact (ffolds_adjacent bs None a x y b H E). Qed.
Print Assumptions fold_clause_spelled.

Example folds_example :
  let buf := [72;84;84;80;47;49;46;49;32;50;48;48;13;10;65;58;32;98;13;10;32;99;10;9;100;13;10;13;10]%N in
  let cf := mkconfig false true false false false false false in
  rp_headers (ref_response cf 2 buf) = [(Sub 14 [65%N], Sub 17 [98;13;10;32;99;10;9;100]%N)] /\
  val_folds (Sub 17 [98;13;10;32;99;10;9;100]%N).
Proof. vm_compute. split; reflexivity. Qed.

Example hygiene_example :
  let buf := [72;84;84;80;47;49;46;49;32;50;48;48;32;79;255;75;13;10;65;58;9;118;32;13;10;13;10]%N in
  rs_reason (rp_start (ref_response config_default 2 buf)) = Some (Ext []) /\
  rp_headers (ref_response config_default 2 buf) = [(Sub 18 [65%N], Sub 21 [118%N])].
Proof. vm_compute. split; reflexivity. Qed.

(* ---- tie to the source: every statement above is about Model.v / Api.v; Proofs/Src*.v prove that the
   functions TRANSLATED from /repo/src/lib.rs on this run (Generated/Lib.v, LibApi.v) compute the same
   results, for every environment whose scanners only move forward (all concrete backends do), so each
   theorem of this file holds of the translated source by rewriting with `source_tie`.  Only the entry-point
   families this property speaks about are imported (Req, Resp) ---- *)
From HV Require Import Backends.
From HV.Proofs Require Import Mono BackendsFwd SrcReq SrcResp.
Theorem source_tie : forall E, env_fwd E -> request_source_is_model E /\ response_source_is_model E.
Proof. intros E HE. repeat split; first [apply src_tie_request | apply src_tie_response]; exact HE. Qed.
Print Assumptions source_tie.
Theorem source_tie_backends : forall W be, request_source_is_model (env_of W be) /\ response_source_is_model (env_of W be).
Proof. intros W be. apply source_tie, backends_fwd. Qed.
Print Assumptions source_tie_backends.

(* ---- the scanners and class tables of THIS run.  The theorems above hold for every environment E with `env_ok E`
   (each scanner stops exactly at the first byte outside its class; the class predicates are the classes of the
   property).  Every concrete backend -- word-at-a-time with any word width, SSE4.2, AVX2, NEON, the runtime dispatch
   with any cached id -- built from the kernels, loop shells and CLASS TABLES translated from /repo on this run
   satisfies it (Proofs/BackendsOk.v over Generated/{Classes,Swar,Sse42,Avx2,Neon}.v; Thm/C12.v states the parts), so
   the theorems hold of the code as it is now; a table entry or a kernel that is not the class breaks this obligation
   of THIS property, not only C12's ---- *)
From HV Require Backends Scan.
From HV.Proofs Require EnvOk.
From HV.Proofs Require BackendsOk.
Theorem backends_of_this_run_ok : forall W, 0 < W -> forall be, EnvOk.env_ok (Backends.env_of W be).
Proof. exact BackendsOk.env_of_ok. Qed.
Print Assumptions backends_of_this_run_ok.
(* ... and the scanner loop shells and SWAR helpers translated on this run are the ones `Backends.env_of` is built from *)
From HV.Proofs Require TieLoops TieSwarFns.
Theorem loop_shells_of_this_run : TieLoops.loop_shells_tied.
Proof. exact TieLoops.loop_shells_tied_pf. Qed.
Print Assumptions loop_shells_of_this_run.

