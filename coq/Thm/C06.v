(* Thm/C06.v -- request line: the model of every request entry point equals the reference
   grammar (Spec.ref_request_line / ref_request), for every scanner backend satisfying
   EnvOk (Thm/C12 shows all do), every configuration, capacity and buffer. *)
From Coq Require Import List NArith Bool.
From HV Require Import Cursor Scan Model Api Spec.
From HV.Proofs Require Import Base EnvOk Refine Entries.
Import ListNotations.

Theorem request_ref_eq : forall E, env_ok E -> forall cf buf rq arr, bytes_ok buf ->
  request_core E cf buf rq arr = req_result rq arr (ref_request cf (length arr) buf).
Proof. exact request_core_ref. Qed.
Print Assumptions request_ref_eq.

(* all four public request entry points *)
Theorem request_entries_ref_eq : forall E, env_ok E -> forall e cf buf arr rq, bytes_ok buf ->
  request_call E e cf buf arr rq = req_call_result e cf buf arr rq.
Proof. exact request_call_ref. Qed.
Print Assumptions request_entries_ref_eq.

(* on a fresh value: status and method / path / version are exactly the reference's *)
Theorem request_fields : forall E, env_ok E -> forall cf buf arr, bytes_ok buf ->
  let r := ref_request cf (length arr) buf in
  let '(st, rq, _) := request_core E cf buf (request_new []) arr in
  st = rq_status r /\ q_method rq = rs_method (rq_start r) /\ q_path rq = rs_path (rq_start r) /\
  q_version rq = rs_version (rq_start r).
Proof.
  intros E HE cf buf arr Hb. cbn zeta. rewrite (request_core_ref E HE) by exact Hb.
  unfold req_result, request_new. cbn [q_method q_path q_version].
  destruct (rs_method _), (rs_path _), (rs_version _); cbn [pick]; repeat split.
Qed.
Print Assumptions request_fields.

(* non-vacuity: a concrete request through the reference *)
Example request_example :
  let buf := [71;69;84;32;47;120;32;72;84;84;80;47;49;46;49;13;10;65;58;32;98;13;10;13;10]%N in
  bytes_ok buf /\
  ref_request config_default 4 buf =
    Build_ref_req (Complete 25)
      (Build_ref_start_req (Some (Sub 0 [71;69;84]%N)) (Some (Sub 4 [47;120]%N)) (Some 1%N))
      [(Sub 17 [65%N], Sub 20 [98%N])].
Proof. split; [repeat constructor|vm_compute; reflexivity]. Qed.

(* ---- tie to the source: every statement above is about Model.v / Api.v; Proofs/Src*.v prove that the
   functions TRANSLATED from /repo/src/lib.rs on this run (Generated/Lib.v, LibApi.v) compute the same
   results, for every environment whose scanners only move forward (all concrete backends do), so each
   theorem of this file holds of the translated source by rewriting with `source_tie`.  Only the entry-point
   families this property speaks about are imported (Req) ---- *)
From HV Require Import Backends.
From HV.Proofs Require Import Mono BackendsFwd SrcReq.
Theorem source_tie : forall E, env_fwd E -> request_source_is_model E.
Proof. intros E HE. repeat split; first [apply src_tie_request]; exact HE. Qed.
Print Assumptions source_tie.
Theorem source_tie_backends : forall W be, request_source_is_model (env_of W be).
Proof. intros W be. apply source_tie, backends_fwd. Qed.
Print Assumptions source_tie_backends.

Theorem src_request_ref_eq : forall E, env_ok E -> env_fwd E -> forall cf buf rq arr, bytes_ok buf ->
  src_request_core E cf buf rq arr = req_result rq arr (ref_request cf (length arr) buf).
Proof. intros E HE HF cf buf rq arr Hb. rewrite src_request_core_eq by exact HF. apply request_core_ref; assumption. Qed.
Print Assumptions src_request_ref_eq.
Theorem src_request_entries_ref_eq : forall E, env_ok E -> env_fwd E -> forall e cf buf arr rq, bytes_ok buf ->
  src_request_call E e cf buf arr rq = req_call_result e cf buf arr rq.
Proof. intros E HE HF e cf buf arr rq Hb. rewrite src_request_call_eq by exact HF. apply request_call_ref; assumption. Qed.
Print Assumptions src_request_entries_ref_eq.

(* ---- the scanners and class tables of THIS run.  The theorems above hold for every environment E with `env_ok E`
   (each scanner stops exactly at the first byte outside its class; the class predicates are the classes of the
   property).  Every concrete backend -- word-at-a-time with any word width, SSE4.2, AVX2, NEON, the runtime dispatch
   with any cached id -- built from the kernels, loop shells and CLASS TABLES translated from /repo on this run
   satisfies it (Proofs/BackendsOk.v over Generated/{Classes,Swar,Sse42,Avx2,Neon}.v; Thm/C12.v states the parts), so
   the theorems hold of the code as it is now; a table entry or a kernel that is not the class breaks this obligation
   of THIS property, not only C12's ---- *)
From HV Require Backends.
From HV.Proofs Require BackendsOk.
Theorem backends_of_this_run_ok : forall W, 0 < W -> forall be, env_ok (Backends.env_of W be).
Proof. exact BackendsOk.env_of_ok. Qed.
Print Assumptions backends_of_this_run_ok.
(* ... and the scanner loop shells and SWAR helpers translated on this run are the ones `Backends.env_of` is built from *)
From HV.Proofs Require TieLoops TieSwarFns.
Theorem loop_shells_of_this_run : TieLoops.loop_shells_tied.
Proof. exact TieLoops.loop_shells_tied_pf. Qed.
Print Assumptions loop_shells_of_this_run.

