(* Thm/C11.v -- honest Partial.  For every backend satisfying env_ok, entry point, configuration,
   capacity and buffer: when the model answers Partial there is a continuation `ext` (built
   explicitly in Proofs/Complete.v) on which the same call answers Complete -- or runs into one of
   the two deferred checks: TooManyHeaders (the surplus header line completes), or, for requests
   only, Token with [bad_target buf]: the buffer ends in a run of request-target bytes that is not
   valid UTF-8 (judged at the terminating SP).
   Contrapositive (the early_error theorems): a buffer that no continuation can rescue is never answered
   with Partial, i.e. the offending byte is reported by the call that first sees it. *)
From Coq Require Import List NArith Bool Lia.
From HV Require Import Cursor Scan Model Api Spec Oracle.
From HV.Proofs Require Import Base EnvOk Chunk Refine Entries Complete.
Import ListNotations.

Theorem request_partial_completable : forall E, env_ok E -> forall e cf buf arr rq, bytes_ok buf ->
  fst (fst (request_call E e cf buf arr rq)) = Partial ->
  exists ext, bytes_ok ext /\
    completes (bad_target buf) (fst (fst (request_call E e cf (buf ++ ext) arr rq))).
Proof.
  intros E HE e cf buf arr rq Hb. rewrite (request_call_ref E HE) by exact Hb. rewrite req_call_status. intros H.
  destruct (ref_request_completable _ _ _ H) as [ext [Hbe Hc]]. exists ext. split; [exact Hbe|].
  rewrite (request_call_ref E HE) by (apply bytes_ok_app; split; assumption). rewrite req_call_status. exact Hc.
Qed.
Print Assumptions request_partial_completable.

Theorem response_partial_completable : forall E, env_ok E -> forall e cf buf arr rp, bytes_ok buf ->
  fst (fst (response_call E e cf buf arr rp)) = Partial ->
  exists ext, bytes_ok ext /\ good (fst (fst (response_call E e cf (buf ++ ext) arr rp))).
Proof.
  intros E HE e cf buf arr rp Hb. rewrite (response_call_ref E HE) by exact Hb. rewrite resp_call_status. intros H.
  destruct (ref_response_completable _ _ _ H) as [ext [Hbe Hc]]. exists ext. split; [exact Hbe|].
  rewrite (response_call_ref E HE) by (apply bytes_ok_app; split; assumption). rewrite resp_call_status. exact Hc.
Qed.
Print Assumptions response_partial_completable.

Theorem headers_partial_completable : forall E, env_ok E -> forall src dst, bytes_ok src ->
  fst (fst (parse_headers E src dst)) = Partial ->
  exists ext, bytes_ok ext /\ good (fst (fst (parse_headers E (src ++ ext) dst))).
Proof.
  intros E HE src dst Hb. rewrite (parse_headers_ref E HE) by exact Hb.
  destruct (ref_headers hcfg_default (length dst) 0 src) as [s hs] eqn:Eh. cbn [fst]. intros ->.
  destruct (ref_headers_complete _ _ _ _ _ Eh) as [ext [Hbe Hg]]. exists ext. split; [exact Hbe|].
  rewrite (parse_headers_ref E HE) by (apply bytes_ok_app; split; assumption).
  destruct (ref_headers hcfg_default (length dst) 0 (src ++ ext)). exact Hg.
Qed.
Print Assumptions headers_partial_completable.

Theorem chunk_partial_completable : forall dbg buf,
  fst (parse_chunk_size dbg buf) = Partial ->
  exists ext, bytes_ok ext /\ exists n, fst (parse_chunk_size dbg (buf ++ ext)) = Complete n.
Proof.
  intros dbg buf. rewrite Chunk.chunk_ref_eq. destruct (ref_chunk buf) as [s v] eqn:Ec. cbn [fst]. intros ->.
  destruct (ref_chunk_completable _ _ Ec) as [ext [Hbe [n [v' Hc]]]]. exists ext. split; [exact Hbe|]. exists n.
  rewrite Chunk.chunk_ref_eq, Hc. reflexivity.
Qed.
Print Assumptions chunk_partial_completable.

(* the deferred request-target check is the only way Token can come out of a completion, and it
   cannot come out of a response at all *)
Theorem response_never_token : forall E, env_ok E -> forall e cf buf arr rp, bytes_ok buf ->
  fst (fst (response_call E e cf buf arr rp)) <> Error Token.
Proof.
  intros E HE e cf buf arr rp Hb. rewrite (response_call_ref E HE) by exact Hb. rewrite resp_call_status.
  apply ref_response_no_token.
Qed.
Print Assumptions response_never_token.

(* contrapositive: what cannot be rescued is not answered with Partial *)
Theorem early_error_request : forall E, env_ok E -> forall e cf buf arr rq, bytes_ok buf ->
  (forall ext, bytes_ok ext -> ~ completes (bad_target buf) (fst (fst (request_call E e cf (buf ++ ext) arr rq)))) ->
  fst (fst (request_call E e cf buf arr rq)) <> Partial.
Proof.
  intros E HE e cf buf arr rq Hb Hno H.
  destruct (request_partial_completable E HE e cf buf arr rq Hb H) as [ext [Hbe Hc]]. exact (Hno ext Hbe Hc).
Qed.
Print Assumptions early_error_request.

Theorem early_error_response : forall E, env_ok E -> forall e cf buf arr rp, bytes_ok buf ->
  (forall ext, bytes_ok ext -> ~ good (fst (fst (response_call E e cf (buf ++ ext) arr rp)))) ->
  fst (fst (response_call E e cf buf arr rp)) <> Partial.
Proof.
  intros E HE e cf buf arr rp Hb Hno H.
  destruct (response_partial_completable E HE e cf buf arr rp Hb H) as [ext [Hbe Hc]]. exact (Hno ext Hbe Hc).
Qed.
Print Assumptions early_error_response.

(* non-vacuity: "GET /x HTT" is Partial and completes; "GET / HTTP/1!" is an error at once;
   "GET /\xff" is Partial although its target can never be valid (the deferred check) *)
Example partial_examples :
  rq_status (ref_request config_default 2 [71;69;84;32;47;120;32;72;84;84]%N) = Partial /\
  rq_status (ref_request config_default 2 ([71;69;84;32;47;120;32;72;84;84] ++ [80;47;49;46;49;13;10;13;10])%N) = Complete 19 /\
  rq_status (ref_request config_default 2 [71;69;84;32;47;32;72;84;84;80;47;49;33]%N) = Error Version /\
  rq_status (ref_request config_default 2 [71;69;84;32;47;255]%N) = Partial /\
  rq_status (ref_request config_default 2 [71;69;84;32;47;255;32]%N) = Error Token.
Proof. vm_compute. repeat split; reflexivity. Qed.

(* ---- tie to the source: every statement above is about Model.v / Api.v; Proofs/Src*.v prove that the
   functions TRANSLATED from /repo/src/lib.rs on this run (Generated/Lib.v, LibApi.v) compute the same
   results, for every environment whose scanners only move forward (all concrete backends do), so each
   theorem of this file holds of the translated source by rewriting with `source_tie`.  Only the entry-point
   families this property speaks about are imported (Req, Resp, PH, Chunk) ---- *)
From HV Require Import Backends.
From HV.Proofs Require Import Mono BackendsFwd SrcReq SrcResp SrcPH SrcChunk.
Theorem source_tie : forall E, env_fwd E -> request_source_is_model E /\ response_source_is_model E /\ headers_source_is_model E /\ chunk_source_is_model.
Proof. intros E HE. repeat split; first [apply src_tie_request | apply src_tie_response | apply src_tie_headers | apply src_tie_chunk]; exact HE. Qed.
Print Assumptions source_tie.
Theorem source_tie_backends : forall W be, request_source_is_model (env_of W be) /\ response_source_is_model (env_of W be) /\ headers_source_is_model (env_of W be) /\ chunk_source_is_model.
Proof. intros W be. apply source_tie, backends_fwd. Qed.
Print Assumptions source_tie_backends.

(* ---- the scanners and class tables of THIS run.  The theorems above hold for every environment E with `env_ok E`
   (each scanner stops exactly at the first byte outside its class; the class predicates are the classes of the
   property).  Every concrete backend -- word-at-a-time with any word width, SSE4.2, AVX2, NEON, the runtime dispatch
   with any cached id -- built from the kernels, loop shells and CLASS TABLES translated from /repo on this run
   satisfies it (Proofs/BackendsOk.v over Generated/{Classes,Swar,Sse42,Avx2,Neon}.v; Thm/C12.v states the parts), so
   the theorems hold of the code as it is now; a table entry or a kernel that is not the class breaks this obligation
   of THIS property, not only C12's ---- *)
From HV Require Backends.
From HV.Proofs Require BackendsOk.
Theorem backends_of_this_run_ok : forall W, 0 < W -> forall be, env_ok (Backends.env_of W be).
Proof. exact BackendsOk.env_of_ok. Qed.
Print Assumptions backends_of_this_run_ok.
(* ... and the scanner loop shells and SWAR helpers translated on this run are the ones `Backends.env_of` is built from *)
From HV.Proofs Require TieLoops TieSwarFns.
Theorem loop_shells_of_this_run : TieLoops.loop_shells_tied.
Proof. exact TieLoops.loop_shells_tied_pf. Qed.
Print Assumptions loop_shells_of_this_run.

