(* Thm/C01.v -- total and memory-safe, at the level of the source-level model: every checked
   operation of the model (advance, slice_skip, peek_ahead, K-byte loads of every backend,
   slot writes) meets its precondition on every path, every loop terminates within its fuel,
   no checked arithmetic overflows; offsets stay inside the buffer and the array keeps its
   length.  PARTIAL: what the model cannot exhibit (the loads LLVM actually issues, pointer
   provenance, stack use of the real binary) is covered by the guard-page / debug-assertion
   runs of the correspondence check, not by these theorems. *)
From Coq Require Import List NArith Bool.
From HV Require Import Cursor Scan Model Api Spec.
From HV.Proofs Require Import Base EnvOk Refine Entries Chunk.
Import ListNotations.

(* requests: never Fault (which includes OutOfFuel = non-termination within the fuel) *)
Theorem request_no_fault : forall E, env_ok E -> forall e cf buf arr rq f, bytes_ok buf ->
  fst (fst (request_call E e cf buf arr rq)) <> Faulted f.
Proof.
  intros E HE e cf buf arr rq f Hb. rewrite (request_call_ref E HE) by exact Hb.
  rewrite req_call_status. apply ref_request_no_fault.
Qed.
Print Assumptions request_no_fault.

Theorem response_no_fault : forall E, env_ok E -> forall e cf buf arr rp f, bytes_ok buf ->
  fst (fst (response_call E e cf buf arr rp)) <> Faulted f.
Proof.
  intros E HE e cf buf arr rp f Hb. rewrite (response_call_ref E HE) by exact Hb.
  rewrite resp_call_status. apply ref_response_no_fault.
Qed.
Print Assumptions response_no_fault.

Theorem headers_no_fault : forall E, env_ok E -> forall src dst f, bytes_ok src ->
  fst (fst (parse_headers E src dst)) <> Faulted f.
Proof.
  intros E HE src dst f Hb. rewrite (parse_headers_ref E HE) by exact Hb.
  pose proof (ref_headers_no_fault hcfg_default (length dst) 0 src f) as H.
  destruct (ref_headers hcfg_default (length dst) 0 src). exact H.
Qed.
Print Assumptions headers_no_fault.

Theorem chunk_no_fault : forall dbg buf f, fst (parse_chunk_size dbg buf) <> Faulted f.
Proof. intros. rewrite Chunk.chunk_ref_eq. apply ref_chunk_no_fault. Qed.
Print Assumptions chunk_no_fault.

(* Complete(n) never points past the buffer *)
Theorem request_offset_in_buffer : forall E, env_ok E -> forall e cf buf arr rq n, bytes_ok buf ->
  fst (fst (request_call E e cf buf arr rq)) = Complete n -> n <= length buf.
Proof.
  intros E HE e cf buf arr rq n Hb. rewrite (request_call_ref E HE) by exact Hb.
  rewrite req_call_status. apply ref_request_bound.
Qed.
Print Assumptions request_offset_in_buffer.
Theorem response_offset_in_buffer : forall E, env_ok E -> forall e cf buf arr rp n, bytes_ok buf ->
  fst (fst (response_call E e cf buf arr rp)) = Complete n -> n <= length buf.
Proof.
  intros E HE e cf buf arr rp n Hb. rewrite (response_call_ref E HE) by exact Hb.
  rewrite resp_call_status. apply ref_response_bound.
Qed.
Print Assumptions response_offset_in_buffer.

(* nothing is written outside the caller's array: it keeps its length *)
Theorem request_array_length : forall E, env_ok E -> forall e cf buf arr rq, bytes_ok buf ->
  length (snd (request_call E e cf buf arr rq)) = length (if uses_array e then arr else q_hdrs rq).
Proof.
  intros E HE e cf buf arr rq Hb. rewrite (request_call_ref E HE) by exact Hb.
  rewrite req_call_array. apply slots_of_length.
  unfold req_cap. pose proof (ref_request_headers_len (eff_cfg e cf) (if uses_array e then length arr else length (q_hdrs rq)) buf) as H.
  destruct (uses_array e); exact H.
Qed.
Print Assumptions request_array_length.
Theorem response_array_length : forall E, env_ok E -> forall e cf buf arr rp, bytes_ok buf ->
  length (snd (response_call E e cf buf arr rp)) = length (if uses_array e then arr else p_hdrs rp).
Proof.
  intros E HE e cf buf arr rp Hb. rewrite (response_call_ref E HE) by exact Hb.
  rewrite resp_call_array. apply slots_of_length.
  unfold resp_cap. pose proof (ref_response_headers_len (eff_cfg e cf) (if uses_array e then length arr else length (p_hdrs rp)) buf) as H.
  destruct (uses_array e); exact H.
Qed.
Print Assumptions response_array_length.

(* non-vacuity: a buffer on which the POST fast path needs peek_ahead(4) at the very end *)
Example no_fault_example :
  bytes_ok [80;79;83;84]%N /\
  forall E, env_ok E -> fst (fst (request_call E EParse config_default [80;79;83;84]%N [] (request_new []))) = Partial.
Proof.
  split; [repeat constructor|]. intros E HE. rewrite (request_call_ref E HE) by repeat constructor. reflexivity.
Qed.

(* ---- tie to the source: every statement above is about Model.v / Api.v; Proofs/Src*.v prove that the
   functions TRANSLATED from /repo/src/lib.rs on this run (Generated/Lib.v, LibApi.v) compute the same
   results, for every environment whose scanners only move forward (all concrete backends do), so each
   theorem of this file holds of the translated source by rewriting with `source_tie`.  Only the entry-point
   families this property speaks about are imported (Req, Resp, PH, Chunk) ---- *)
From HV Require Import Backends.
From HV.Proofs Require Import Mono BackendsFwd SrcReq SrcResp SrcPH SrcChunk.
Theorem source_tie : forall E, env_fwd E -> request_source_is_model E /\ response_source_is_model E /\ headers_source_is_model E /\ chunk_source_is_model.
Proof. intros E HE. repeat split; first [apply src_tie_request | apply src_tie_response | apply src_tie_headers | apply src_tie_chunk]; exact HE. Qed.
Print Assumptions source_tie.
Theorem source_tie_backends : forall W be, request_source_is_model (env_of W be) /\ response_source_is_model (env_of W be) /\ headers_source_is_model (env_of W be) /\ chunk_source_is_model.
Proof. intros W be. apply source_tie, backends_fwd. Qed.
Print Assumptions source_tie_backends.

(* the translated source never faults: no guard the translator emitted (u8/u16/i32/u64 overflow, usize
   underflow, slice index) fires, no checked cursor operation fails, every loop ends within its fuel *)
Theorem src_request_no_fault : forall E, env_ok E -> env_fwd E -> forall e cf buf arr rq f, bytes_ok buf ->
  fst (fst (src_request_call E e cf buf arr rq)) <> Faulted f.
Proof. intros E HE HF e cf buf arr rq f Hb. rewrite src_request_call_eq by exact HF. apply request_no_fault; assumption. Qed.
Print Assumptions src_request_no_fault.
Theorem src_response_no_fault : forall E, env_ok E -> env_fwd E -> forall e cf buf arr rp f, bytes_ok buf ->
  fst (fst (src_response_call E e cf buf arr rp)) <> Faulted f.
Proof. intros E HE HF e cf buf arr rp f Hb. rewrite src_response_call_eq by exact HF. apply response_no_fault; assumption. Qed.
Print Assumptions src_response_no_fault.
Theorem src_headers_no_fault : forall E, env_ok E -> env_fwd E -> forall src dst f, bytes_ok src ->
  fst (fst (src_parse_headers E src dst)) <> Faulted f.
Proof. intros E HE HF src dst f Hb. rewrite src_parse_headers_eq by exact HF. apply headers_no_fault; assumption. Qed.
Print Assumptions src_headers_no_fault.
Theorem src_chunk_no_fault : forall dbg buf f, fst (src_parse_chunk_size dbg buf) <> Faulted f.
Proof. intros. rewrite src_parse_chunk_size_eq. apply chunk_no_fault. Qed.
Print Assumptions src_chunk_no_fault.

(* ---- iter.rs: the methods of `Bytes`, translated on this run into ADDRESS-level code in which every
   `*p`, `p.add(n)`, `p.sub(n)` and pointer subtraction is a checked operation (Generated/Iter.v, Ptr.v), are
   simulated by the Cursor.v operations the model and the translated lib.rs functions are built from: at every
   base address, for every buffer and every cursor state standing at a position of that buffer, a method whose
   Cursor.v counterpart returns does so too, with the corresponding value and state, WITHOUT faulting -- every
   byte it reads lies inside the caller's buffer, every slice it hands out is a sub-slice of it -- and it faults
   where the counterpart's `unsafe` precondition fails.  (The model never faults: theorems above.) ---- *)
From HV Require Import Ptr ImpLib.
From HV.Generated Require Import Iter.
From HV.Proofs Require Import TieIter.
Theorem bytes_methods_refine_cursor : forall B data c, repr data c ->
  i_peek (mkpmem B data) (pst_of B c) = PDone (hd_error (rest c)) (pst_of B c) /\
  match next_opt c with
  | Done o c' => i_next (mkpmem B data) (pst_of B c) = PDone o (pst_of B c') /\ repr data c'
  | _ => False end /\
  (forall n, match advance n c with
             | Done _ c' => i_advance n (mkpmem B data) (pst_of B c) = PDone tt (pst_of B c') /\ repr data c'
             | Fault _ => exists f, i_advance n (mkpmem B data) (pst_of B c) = PFault f
             | _ => False end) /\
  (forall n, match peek_ahead n c with
             | Done o c' => i_peek_ahead n (mkpmem B data) (pst_of B c) = PDone o (pst_of B c) /\ c' = c
             | Fault _ => exists f, i_peek_ahead n (mkpmem B data) (pst_of B c) = PFault f
             | _ => False end) /\
  (forall n, exists o, i_peek_n n (mkpmem B data) (pst_of B c) = PDone o (pst_of B c) /\
                       option_map (fun pl => sl_bytes (read_slice (mkpmem B data) pl)) o = take n (rest c)) /\
  match slice c with
  | Done s c' => exists pl, i_slice (mkpmem B data) (pst_of B c) = PDone pl (pst_of B c') /\
                            read_slice (mkpmem B data) pl = s /\ repr data c'
  | _ => False end /\
  (forall k, match slice_skip k c with
             | Done s c' => exists pl, i_slice_skip k (mkpmem B data) (pst_of B c) = PDone pl (pst_of B c') /\
                                       read_slice (mkpmem B data) pl = s /\ repr data c'
             | Fault _ => exists f, i_slice_skip k (mkpmem B data) (pst_of B c) = PFault f
             | _ => False end) /\
  i_len (mkpmem B data) (pst_of B c) = PDone (length (rest c)) (pst_of B c).
Proof.
  intros B data c H. repeat split.
  - apply tie_iter_peek; exact H.
  - apply tie_iter_next; exact H.
  - intros n. apply tie_iter_advance; exact H.
  - intros n. apply tie_iter_peek_ahead; exact H.
  - intros n. apply tie_iter_peek_n; exact H.
  - apply tie_iter_slice; exact H.
  - intros k. apply tie_iter_slice_skip; exact H.
  - apply tie_iter_len.
Qed.
Print Assumptions bytes_methods_refine_cursor.
Theorem bytes_new_is_cur_new : forall B buf,
  i_new (B, length buf) (mkpmem B buf) (mkpst 0 0 0) = PDone tt (pst_of B (cur_new buf)) /\ repr buf (cur_new buf).
Proof. exact tie_iter_new. Qed.
Print Assumptions bytes_new_is_cur_new.

(* ---- whole programs at ADDRESS level.  Proofs/Lift.v: every program built from the cursor operations,
   locals, loops, exceptions, guards and calls (a syntax tree `bP` / `bI`, constructed for each translated
   function by a tactic that only follows the shape of the generated term: Proofs/LiftLib.v) has an
   address-level program `cP` / `cI` -- the same control structure with each cursor operation replaced by
   the method translated from src/iter.rs over (base address, memory, three addresses) -- which runs in lock
   step with it from every cursor state, at every base address (`lifting_is_sound`).  Proofs/LiftTop.v puts
   the pieces together: Bytes::new, the translated entry point, the translated scanner loop shells of the
   chosen backend.  The address-level run of a whole parse yields exactly the model's result; since that is
   never a Fault, no `*p`, `p.add`, `p.sub`, pointer subtraction, from_raw_parts or K-byte vector load
   executed anywhere in the parse leaves [B, B + length buf). ---- *)
From HV.Proofs Require Import Lift LiftLib LiftTop.
Theorem lifting_is_sound : forall B data,
  (forall A p (d : bP B data A p), simP B data (cP B data d) p) /\
  (forall L R Bk A p (d : bI B data L R Bk A p), simI B data (cI B data d) p).
Proof. exact lift_sound. Qed.
Print Assumptions lifting_is_sound.

Theorem address_level_request : forall B W, 0 < W -> forall be cf buf rq arr, bytes_ok buf ->
  addr_request_core B W be cf buf rq arr = request_core (env_of W be) cf buf rq arr.
Proof. exact addr_request_core_model. Qed.
Print Assumptions address_level_request.
Theorem address_level_response : forall B W, 0 < W -> forall be cf buf rp arr, bytes_ok buf ->
  addr_response_core B W be cf buf rp arr = response_core (env_of W be) cf buf rp arr.
Proof. exact addr_response_core_model. Qed.
Print Assumptions address_level_response.
Theorem address_level_headers : forall B W, 0 < W -> forall be src dst, bytes_ok src ->
  addr_parse_headers B W be src dst = parse_headers (env_of W be) src dst.
Proof. exact addr_parse_headers_model. Qed.
Print Assumptions address_level_headers.
Theorem address_level_chunk : forall B dbg buf,
  addr_parse_chunk_size B dbg buf = parse_chunk_size dbg buf.
Proof. exact addr_parse_chunk_size_model. Qed.
Print Assumptions address_level_chunk.

Theorem address_level_never_faults : forall B W, 0 < W -> forall be buf, bytes_ok buf ->
  (forall cf rq arr f, fst (fst (addr_request_core B W be cf buf rq arr)) <> Faulted f) /\
  (forall cf rp arr f, fst (fst (addr_response_core B W be cf buf rp arr)) <> Faulted f) /\
  (forall dst f, fst (fst (addr_parse_headers B W be buf dst)) <> Faulted f) /\
  (forall dbg f, fst (addr_parse_chunk_size B dbg buf) <> Faulted f).
Proof.
  intros B W HW be buf Hb. pose proof (BackendsOk.env_of_ok W HW be) as HE. repeat split; intros.
  - rewrite addr_request_core_model by assumption.
    exact (request_no_fault _ HE EConfigUninit cf buf arr rq f Hb).
  - rewrite addr_response_core_model by assumption.
    exact (response_no_fault _ HE EConfigUninit cf buf arr rp f Hb).
  - rewrite addr_parse_headers_model by assumption. apply headers_no_fault; assumption.
  - rewrite addr_parse_chunk_size_model. apply chunk_no_fault.
Qed.
Print Assumptions address_level_never_faults.

(* non-vacuity: the address-level program RUNS: the request of Thm/C06's example placed at address 4096,
   AVX2 backend, two header slots *)
Example address_level_example :
  addr_request_core 4096 8 (BRuntime 1) config_default
    [71;69;84;32;47;120;32;72;84;84;80;47;49;46;49;13;10;65;58;32;98;13;10;13;10]%N (request_new []) [SOld 1; SOld 2]
  = (Complete 25,
     mkreq (Some (Sub 0 [71;69;84]%N)) (Some (Sub 4 [47;120]%N)) (Some 1%N) [SWritten (Sub 17 [65%N]) (Sub 20 [98%N])],
     [SWritten (Sub 17 [65%N]) (Sub 20 [98%N]); SOld 2]).
Proof. vm_compute. reflexivity. Qed.

(* the initialised-array entry points (Request::parse / ParserConfig::parse_request go through parse_with_config,
   which is translated too: take self.headers, cast, call the core, restore unless Complete) *)
Theorem address_level_request_with_config : forall B W, 0 < W -> forall be cf buf rq, bytes_ok buf ->
  addr_request_with_config B W be cf buf rq = request_with_config (env_of W be) cf buf rq.
Proof. exact addr_request_with_config_model. Qed.
Print Assumptions address_level_request_with_config.
Theorem address_level_response_with_config : forall B W, 0 < W -> forall be cf buf rp, bytes_ok buf ->
  addr_response_with_config B W be cf buf rp = response_with_config (env_of W be) cf buf rp.
Proof. exact addr_response_with_config_model. Qed.
Print Assumptions address_level_response_with_config.

(* ---- the scanner loop shells and SWAR helpers translated from /repo/src/simd/*.rs on this run are the ones
   `Backends.env_of` is built from (Proofs/TieLoops.v, TieSwarFns.v): a rewritten loop shell breaks this obligation of
   this property too ---- *)
From HV.Proofs Require TieLoops TieSwarFns.
Theorem loop_shells_of_this_run : TieLoops.loop_shells_tied.
Proof. exact TieLoops.loop_shells_tied_pf. Qed.
Print Assumptions loop_shells_of_this_run.
