(* Thm/C07.v -- status line: the model of every response entry point equals the reference
   grammar (Spec.ref_status_line / ref_response). *)
From Coq Require Import List NArith Bool.
From HV Require Import Cursor Scan Model Api Spec.
From HV.Proofs Require Import Base EnvOk Refine Entries.
Import ListNotations.

Theorem response_ref_eq : forall E, env_ok E -> forall cf buf rp arr, bytes_ok buf ->
  response_core E cf buf rp arr = resp_result rp arr (ref_response cf (length arr) buf).
Proof. exact response_core_ref. Qed.
Print Assumptions response_ref_eq.

Theorem response_entries_ref_eq : forall E, env_ok E -> forall e cf buf arr rp, bytes_ok buf ->
  response_call E e cf buf arr rp = resp_call_result e cf buf arr rp.
Proof. exact response_call_ref. Qed.
Print Assumptions response_entries_ref_eq.

Theorem response_fields : forall E, env_ok E -> forall cf buf arr, bytes_ok buf ->
  let r := ref_response cf (length arr) buf in
  let '(st, rp, _) := response_core E cf buf (response_new []) arr in
  st = rp_status r /\ p_version rp = rs_pversion (rp_start r) /\ p_code rp = rs_code (rp_start r) /\
  p_reason rp = rs_reason (rp_start r).
Proof.
  intros E HE cf buf arr Hb. cbn zeta. rewrite (response_core_ref E HE) by exact Hb.
  unfold resp_result, response_new. cbn [p_version p_code p_reason].
  destruct (rs_pversion _), (rs_code _), (rs_reason _); cbn [pick]; repeat split.
Qed.
Print Assumptions response_fields.

(* the code is the decimal value of the three digits (read off the reference stage) *)
Theorem code_value : forall off a b c r,
  digit a = true -> digit b = true -> digit c = true ->
  ref_code off (a :: b :: c :: r) = ROk ((a - 48) * 100 + (b - 48) * 10 + (c - 48))%N (3 + off) r.
Proof. intros off a b c r Ha Hb Hc. unfold ref_code. rewrite Ha, Hb, Hc. reflexivity. Qed.
Print Assumptions code_value.

Example response_example :
  let buf := [72;84;84;80;47;49;46;48;32;52;48;52;32;78;111;13;10;13;10]%N in
  bytes_ok buf /\
  ref_response config_default 2 buf =
    Build_ref_resp (Complete 19)
      (Build_ref_start_resp (Some 0%N) (Some 404%N) (Some (Sub 13 [78;111]%N))) [].
Proof. split; [repeat constructor|vm_compute; reflexivity]. Qed.

(* ---- tie to the source: every statement above is about Model.v / Api.v; Proofs/Src*.v prove that the
   functions TRANSLATED from /repo/src/lib.rs on this run (Generated/Lib.v, LibApi.v) compute the same
   results, for every environment whose scanners only move forward (all concrete backends do), so each
   theorem of this file holds of the translated source by rewriting with `source_tie`.  Only the entry-point
   families this property speaks about are imported (Resp) ---- *)
From HV Require Import Backends.
From HV.Proofs Require Import Mono BackendsFwd SrcResp.
Theorem source_tie : forall E, env_fwd E -> response_source_is_model E.
Proof. intros E HE. repeat split; first [apply src_tie_response]; exact HE. Qed.
Print Assumptions source_tie.
Theorem source_tie_backends : forall W be, response_source_is_model (env_of W be).
Proof. intros W be. apply source_tie, backends_fwd. Qed.
Print Assumptions source_tie_backends.

Theorem src_response_ref_eq : forall E, env_ok E -> env_fwd E -> forall cf buf rp arr, bytes_ok buf ->
  src_response_core E cf buf rp arr = resp_result rp arr (ref_response cf (length arr) buf).
Proof. intros E HE HF cf buf rp arr Hb. rewrite src_response_core_eq by exact HF. apply response_core_ref; assumption. Qed.
Print Assumptions src_response_ref_eq.
Theorem src_response_entries_ref_eq : forall E, env_ok E -> env_fwd E -> forall e cf buf arr rp, bytes_ok buf ->
  src_response_call E e cf buf arr rp = resp_call_result e cf buf arr rp.
Proof. intros E HE HF e cf buf arr rp Hb. rewrite src_response_call_eq by exact HF. apply response_call_ref; assumption. Qed.
Print Assumptions src_response_entries_ref_eq.

(* ---- the scanners and class tables of THIS run.  The theorems above hold for every environment E with `env_ok E`
   (each scanner stops exactly at the first byte outside its class; the class predicates are the classes of the
   property).  Every concrete backend -- word-at-a-time with any word width, SSE4.2, AVX2, NEON, the runtime dispatch
   with any cached id -- built from the kernels, loop shells and CLASS TABLES translated from /repo on this run
   satisfies it (Proofs/BackendsOk.v over Generated/{Classes,Swar,Sse42,Avx2,Neon}.v; Thm/C12.v states the parts), so
   the theorems hold of the code as it is now; a table entry or a kernel that is not the class breaks this obligation
   of THIS property, not only C12's ---- *)
From HV Require Backends.
From HV.Proofs Require BackendsOk.
Theorem backends_of_this_run_ok : forall W, 0 < W -> forall be, env_ok (Backends.env_of W be).
Proof. exact BackendsOk.env_of_ok. Qed.
Print Assumptions backends_of_this_run_ok.
(* ... and the scanner loop shells and SWAR helpers translated on this run are the ones `Backends.env_of` is built from *)
From HV.Proofs Require TieLoops TieSwarFns.
Theorem loop_shells_of_this_run : TieLoops.loop_shells_tied.
Proof. exact TieLoops.loop_shells_tied_pf. Qed.
Print Assumptions loop_shells_of_this_run.

