(* Thm/C03.v -- head framing.  Stated on the model of the crate's entry points (every backend
   satisfying env_ok, every entry point, configuration, capacity and buffer).

   [framed spb buf n] says: buf = (start ++ [LF]) ++ body ++ eol ++ rest where start ++ [LF] is the
   consumed start line (with any leading empty lines), eol is CR LF or LF, n is the offset just after
   eol, the region LF :: body contains no LF that is directly followed by an empty line -- so eol is the
   FIRST empty line after the start line -- and, unless allow_space_before_first_header_name is on,
   eol stands at the start of a line (body is empty or ends in LF).  With that option on, eol may be
   preceded by SP / HTAB on its own line, which is what the property text allows. *)
From Coq Require Import List NArith Bool Lia.
From HV Require Import Cursor Scan Model Api Spec Oracle.
From HV.Proofs Require Import Base EnvOk Chunk Refine Entries Clean Framing.
Import ListNotations.

Theorem request_complete_framed : forall E, env_ok E -> forall e cf buf arr rq n, bytes_ok buf ->
  fst (fst (request_call E e cf buf arr rq)) = Complete n ->
  framed (allow_space_before_first_header_name (request_hcfg (eff_cfg e cf))) buf n /\ n <= length buf.
Proof.
  intros E HE e cf buf arr rq n Hb. rewrite (request_call_ref E HE) by exact Hb.
  rewrite req_call_status. intros H. split; [apply (ref_request_framing _ _ _ _ H)|apply (ref_request_bound _ _ _ _ H)].
Qed.
Print Assumptions request_complete_framed.

Theorem response_complete_framed : forall E, env_ok E -> forall e cf buf arr rp n, bytes_ok buf ->
  fst (fst (response_call E e cf buf arr rp)) = Complete n ->
  framed (allow_space_before_first_header_name (response_hcfg (eff_cfg e cf))) buf n /\ n <= length buf.
Proof.
  intros E HE e cf buf arr rp n Hb. rewrite (response_call_ref E HE) by exact Hb.
  rewrite resp_call_status. intros H. split; [apply (ref_response_framing _ _ _ _ H)|apply (ref_response_bound _ _ _ _ H)].
Qed.
Print Assumptions response_complete_framed.

(* parse_headers: the first empty line of the buffer *)
Theorem headers_complete_framed : forall E, env_ok E -> forall src dst n, bytes_ok src ->
  fst (fst (parse_headers E src dst)) = Complete n ->
  exists body eol rest, src = body ++ eol ++ rest /\ n = length body + length eol /\
    (eol = [10%N] \/ eol = [13%N; 10%N]) /\ blank_free (10%N :: body) = true /\
    (body = [] \/ last body 0%N = 10%N).
Proof.
  intros E HE src dst n Hb. rewrite (parse_headers_ref E HE) by exact Hb.
  destruct (ref_headers hcfg_default (length dst) 0 src) as [s hs] eqn:Eh. cbn [fst]. intros ->.
  apply ref_headers_framing in Eh as [body [eol [rest (H1 & H2 & H3 & H4 & H5)]]].
  exists body, eol, rest. split; [exact H1|]. split; [lia|]. split; [exact H3|]. split; [exact H4|]. apply H5. reflexivity.
Qed.
Print Assumptions headers_complete_framed.

(* Partial is never returned when the terminating empty line is already in the buffer:
   either the start line itself is unfinished, or nothing after it is an empty line *)
Theorem request_partial_unterminated : forall E, env_ok E -> forall e cf buf arr rq, bytes_ok buf ->
  fst (fst (request_call E e cf buf arr rq)) = Partial ->
  unterminated buf (snd (ref_request_line (allow_multiple_spaces_in_request_line_delimiters (eff_cfg e cf)) buf)).
Proof.
  intros E HE e cf buf arr rq Hb. rewrite (request_call_ref E HE) by exact Hb.
  rewrite req_call_status. apply ref_request_partial.
Qed.
Print Assumptions request_partial_unterminated.

Theorem response_partial_unterminated : forall E, env_ok E -> forall e cf buf arr rp, bytes_ok buf ->
  fst (fst (response_call E e cf buf arr rp)) = Partial ->
  unterminated buf (snd (ref_status_line (allow_multiple_spaces_in_response_status_delimiters (eff_cfg e cf)) buf)).
Proof.
  intros E HE e cf buf arr rp Hb. rewrite (response_call_ref E HE) by exact Hb.
  rewrite resp_call_status. apply ref_response_partial.
Qed.
Print Assumptions response_partial_unterminated.

Theorem headers_partial_unterminated : forall E, env_ok E -> forall src dst, bytes_ok src ->
  fst (fst (parse_headers E src dst)) = Partial -> blank_free (10%N :: src) = true.
Proof.
  intros E HE src dst Hb. rewrite (parse_headers_ref E HE) by exact Hb.
  destruct (ref_headers hcfg_default (length dst) 0 src) as [s hs] eqn:Eh. cbn [fst]. intros ->.
  eapply ref_headers_partial. exact Eh.
Qed.
Print Assumptions headers_partial_unterminated.

(* chunk-size line: n is just past the first CR LF; Partial means there is no CR LF yet *)
Theorem chunk_complete_framed : forall dbg buf n,
  fst (parse_chunk_size dbg buf) = Complete n ->
  exists pre rest, buf = pre ++ 13%N :: 10%N :: rest /\ n = length pre + 2 /\ no_cr pre.
Proof.
  intros dbg buf n. rewrite Chunk.chunk_ref_eq. destruct (ref_chunk buf) as [s v] eqn:Ec. cbn [fst]. intros ->.
  eapply ref_chunk_framing. exact Ec.
Qed.
Print Assumptions chunk_complete_framed.

Theorem chunk_partial_unterminated : forall dbg buf,
  fst (parse_chunk_size dbg buf) = Partial ->
  no_cr buf \/ exists pre, buf = pre ++ [13%N] /\ no_cr pre.
Proof.
  intros dbg buf. rewrite Chunk.chunk_ref_eq. destruct (ref_chunk buf) as [s v] eqn:Ec. cbn [fst]. intros ->.
  eapply ref_chunk_partial. exact Ec.
Qed.
Print Assumptions chunk_partial_unterminated.

(* what blank_free says, spelled out: no LF is directly followed by LF or by CR LF *)
Theorem blank_free_spelled : forall a b,
  blank_free (a ++ 10%N :: b) = true -> forall c, (b = 10%N :: c -> False) /\ (forall c', b = 13%N :: 10%N :: c' -> False).
Proof.
  induction a as [|x a IH]; intros b H c.
  - cbn [app] in H. rewrite blank_free_cons in H. change (is 10 10) with true in H. cbn [negb orb] in H.
    apply andb_prop in H as [H _]. split; [intros ->|intros c' ->]; discriminate H.
  - cbn [app] in H. rewrite blank_free_cons in H. apply andb_prop in H as [_ H]. exact (IH b H c).
Qed.
Print Assumptions blank_free_spelled.

(* non-vacuity: an ignored line, a folded value and trailing body bytes *)
Example framing_example :
  let buf := [71;69;84;32;47;32;72;84;84;80;47;49;46;49;13;10; 65;58;32;98;13;10; 13;10; 88;10;10]%N in
  rq_status (ref_request config_default 4 buf) = Complete 24 /\
  rq_status (ref_request config_default 4 (firstn 23 buf)) = Partial.
Proof. vm_compute. split; reflexivity. Qed.

(* ---- tie to the source: every statement above is about Model.v / Api.v; Proofs/Src*.v prove that the
   functions TRANSLATED from /repo/src/lib.rs on this run (Generated/Lib.v, LibApi.v) compute the same
   results, for every environment whose scanners only move forward (all concrete backends do), so each
   theorem of this file holds of the translated source by rewriting with `source_tie`.  Only the entry-point
   families this property speaks about are imported (Req, Resp, PH, Chunk) ---- *)
From HV Require Import Backends.
From HV.Proofs Require Import Mono BackendsFwd SrcReq SrcResp SrcPH SrcChunk.
Theorem source_tie : forall E, env_fwd E -> request_source_is_model E /\ response_source_is_model E /\ headers_source_is_model E /\ chunk_source_is_model.
Proof. intros E HE. repeat split; first [apply src_tie_request | apply src_tie_response | apply src_tie_headers | apply src_tie_chunk]; exact HE. Qed.
Print Assumptions source_tie.
Theorem source_tie_backends : forall W be, request_source_is_model (env_of W be) /\ response_source_is_model (env_of W be) /\ headers_source_is_model (env_of W be) /\ chunk_source_is_model.
Proof. intros W be. apply source_tie, backends_fwd. Qed.
Print Assumptions source_tie_backends.

(* ---- the scanners and class tables of THIS run.  The theorems above hold for every environment E with `env_ok E`
   (each scanner stops exactly at the first byte outside its class; the class predicates are the classes of the
   property).  Every concrete backend -- word-at-a-time with any word width, SSE4.2, AVX2, NEON, the runtime dispatch
   with any cached id -- built from the kernels, loop shells and CLASS TABLES translated from /repo on this run
   satisfies it (Proofs/BackendsOk.v over Generated/{Classes,Swar,Sse42,Avx2,Neon}.v; Thm/C12.v states the parts), so
   the theorems hold of the code as it is now; a table entry or a kernel that is not the class breaks this obligation
   of THIS property, not only C12's ---- *)
From HV Require Backends.
From HV.Proofs Require BackendsOk.
Theorem backends_of_this_run_ok : forall W, 0 < W -> forall be, env_ok (Backends.env_of W be).
Proof. exact BackendsOk.env_of_ok. Qed.
Print Assumptions backends_of_this_run_ok.
(* ... and the scanner loop shells and SWAR helpers translated on this run are the ones `Backends.env_of` is built from *)
From HV.Proofs Require TieLoops TieSwarFns.
Theorem loop_shells_of_this_run : TieLoops.loop_shells_tied.
Proof. exact TieLoops.loop_shells_tied_pf. Qed.
Print Assumptions loop_shells_of_this_run.

