(* Thm/C14.v -- leniency options: the header machine under every one of the 16 header-option
   sets equals the reference parser parameterised by the same options (requests pass 2 of the
   options down, responses all 4: Api.request_hcfg / response_hcfg). *)
From Coq Require Import List NArith Bool.
From HV Require Import Cursor Scan Model Api Spec.
From HV.Proofs Require Import Base EnvOk Refine Entries.
Import ListNotations.

Theorem headers_cfg_ref_eq : forall E, env_ok E -> forall hc buf k o arr, bytes_ok buf ->
  parse_headers_iter_uninit E (S (length buf)) hc arr (mkcur o [] (skipn k buf))
  = (let (st, hs) := ref_headers hc (length arr) o (skipn k buf) in
     (shift_status o st, length hs, slots_of hs arr)).
Proof. exact headers_part. Qed.
Print Assumptions headers_cfg_ref_eq.

Theorem request_cfg_ref_eq : forall E, env_ok E -> forall cf buf rq arr, bytes_ok buf ->
  request_core E cf buf rq arr = req_result rq arr (ref_request cf (length arr) buf).
Proof. exact request_core_ref. Qed.
Print Assumptions request_cfg_ref_eq.
Theorem response_cfg_ref_eq : forall E, env_ok E -> forall cf buf rp arr, bytes_ok buf ->
  response_core E cf buf rp arr = resp_result rp arr (ref_response cf (length arr) buf).
Proof. exact response_core_ref. Qed.
Print Assumptions response_cfg_ref_eq.

(* even when ignoring invalid headers, NUL or a CR not followed by LF in the dropped line fails *)
Theorem ignored_line_nul_cr : forall e off l junk b r,
  span (fun b0 => negb (is 13 b0 || is 10 b0 || is 0 b0)) l = (junk, b :: r) ->
  (is 0 b = true -> ref_invalid true e off l = RErr e) /\
  (is 13 b = true -> forall b2 r2, r = b2 :: r2 -> is 10 b2 = false -> ref_invalid true e off l = RErr e).
Proof.
  intros e off l junk b r Hs. unfold ref_invalid. cbn [negb]. rewrite Hs. split.
  - intros ->. reflexivity.
  - intros H13 b2 r2 -> H10.
    assert (is 0 b = false /\ is 10 b = false) as [-> ->].
    { unfold is in *. apply N.eqb_eq in H13. subst b. split; reflexivity. }
    rewrite H10. reflexivity.
Qed.
Print Assumptions ignored_line_nul_cr.

Example options_examples :
  let fold := mkhcfg false true false false in
  let ign := mkhcfg false false false true in
  ref_headers fold 4 0 [65;58;32;98;13;10;32;99;13;10;13;10]%N
    = (Complete 12, [(Sub 0 [65%N], Sub 3 [98;13;10;32;99]%N)]) /\
  ref_headers ign 4 0 [65;32;98;13;10;67;58;100;13;10;13;10]%N
    = (Complete 12, [(Sub 5 [67%N], Sub 7 [100%N])]) /\
  ref_headers ign 4 0 [65;32;0;13;10;13;10]%N = (Error HeaderName, []).
Proof. vm_compute. repeat split. Qed.

(* ---- tie to the source: every statement above is about Model.v / Api.v; Proofs/Src*.v prove that the
   functions TRANSLATED from /repo/src/lib.rs on this run (Generated/Lib.v, LibApi.v) compute the same
   results, for every environment whose scanners only move forward (all concrete backends do), so each
   theorem of this file holds of the translated source by rewriting with `source_tie`.  Only the entry-point
   families this property speaks about are imported (Req, Resp) ---- *)
From HV Require Import Backends.
From HV.Proofs Require Import Mono BackendsFwd SrcReq SrcResp.
Theorem source_tie : forall E, env_fwd E -> request_source_is_model E /\ response_source_is_model E.
Proof. intros E HE. repeat split; first [apply src_tie_request | apply src_tie_response]; exact HE. Qed.
Print Assumptions source_tie.
Theorem source_tie_backends : forall W be, request_source_is_model (env_of W be) /\ response_source_is_model (env_of W be).
Proof. intros W be. apply source_tie, backends_fwd. Qed.
Print Assumptions source_tie_backends.

(* ---- the scanners and class tables of THIS run.  The theorems above hold for every environment E with `env_ok E`
   (each scanner stops exactly at the first byte outside its class; the class predicates are the classes of the
   property).  Every concrete backend -- word-at-a-time with any word width, SSE4.2, AVX2, NEON, the runtime dispatch
   with any cached id -- built from the kernels, loop shells and CLASS TABLES translated from /repo on this run
   satisfies it (Proofs/BackendsOk.v over Generated/{Classes,Swar,Sse42,Avx2,Neon}.v; Thm/C12.v states the parts), so
   the theorems hold of the code as it is now; a table entry or a kernel that is not the class breaks this obligation
   of THIS property, not only C12's ---- *)
From HV Require Backends.
From HV.Proofs Require BackendsOk.
Theorem backends_of_this_run_ok : forall W, 0 < W -> forall be, env_ok (Backends.env_of W be).
Proof. exact BackendsOk.env_of_ok. Qed.
Print Assumptions backends_of_this_run_ok.
(* ... and the scanner loop shells and SWAR helpers translated on this run are the ones `Backends.env_of` is built from *)
From HV.Proofs Require TieLoops TieSwarFns.
Theorem loop_shells_of_this_run : TieLoops.loop_shells_tied.
Proof. exact TieLoops.loop_shells_tied_pf. Qed.
Print Assumptions loop_shells_of_this_run.

