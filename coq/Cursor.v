(* Cursor.v -- model of src/iter.rs (`Bytes`) and src/macros.rs.

   The cursor state is kept over the *unread suffix*, so that every proof is a
   structural induction on a list:

     pre    : offset of `start` inside the caller's buffer
     tokrev : the bytes between `start` and `cursor`, most recent first
              (so `cursor - start = length tokrev`)
     rest   : the bytes from `cursor` to `end`

   Every `unsafe` operation of iter.rs is a *checked* operation here: when its
   documented precondition (the `debug_assert!` / `# Safety` contract) does not
   hold the outcome is `Fault`.  *)

From Coq Require Import List NArith Bool.
Import ListNotations.

Definition byte := N.

Inductive err :=
| HeaderName | HeaderValue | NewLine | Status | Token | TooManyHeaders | Version
| InvalidChunkSize.

Inductive fault :=
| AdvanceOOB | SkipUnderflow | PeekAheadOOB | LoadOOB | WriteOOB | ArithOverflow
| Unreachable | OutOfFuel.

Record cur := mkcur { pre : nat; tokrev : list N; rest : list N }.

(* A returned slice: a location inside the caller's buffer together with its
   contents, or a slice located elsewhere (the `""` literal). *)
Inductive sl :=
| Sub (off : nat) (bs : list N)
| Ext (bs : list N).

Definition sl_bytes (s : sl) : list N := match s with Sub _ b => b | Ext b => b end.

Inductive out (A : Type) :=
| Done (a : A) (c : cur)
| Part
| Fail (e : err)
| Fault (f : fault).
Arguments Done {A}. Arguments Part {A}. Arguments Fail {A}. Arguments Fault {A}.

Definition P (A : Type) := cur -> out A.

Definition ret {A} (a : A) : P A := fun c => Done a c.
Definition bind {A B} (m : P A) (f : A -> P B) : P B :=
  fun c => match m c with
           | Done a c' => f a c'
           | Part => Part
           | Fail e => Fail e
           | Fault f => Fault f
           end.
Definition fail {A} (e : err) : P A := fun _ => Fail e.
Definition part {A} : P A := fun _ => Part.
Definition fault_ {A} (f : fault) : P A := fun _ => Fault f.

Declare Scope cur_scope.
Delimit Scope cur_scope with cur.
Notation "x <- m ;; k" := (bind m (fun x => k))
  (at level 61, m at next level, right associativity) : cur_scope.
Notation "m ;;; k" := (bind m (fun _ => k))
  (at level 61, right associativity) : cur_scope.
Open Scope cur_scope.

(* exact prefix / suffix, linear in n (not in the length of the list) *)
Fixpoint take (n : nat) (l : list N) : option (list N) :=
  match n with
  | O => Some []
  | S k => match l with [] => None | x :: r =>
             match take k r with Some t => Some (x :: t) | None => None end end
  end.
Fixpoint drop (n : nat) (l : list N) : option (list N) :=
  match n with
  | O => Some l
  | S k => match l with [] => None | _ :: r => drop k r end
  end.
(* move n bytes from the unread suffix onto the token *)
Fixpoint shift (n : nat) (tk l : list N) : option (list N * list N) :=
  match n with
  | O => Some (tk, l)
  | S k => match l with [] => None | x :: r => shift k (x :: tk) r end
  end.

(* ---- iter.rs ---- *)

(* `Bytes::new` *)
Definition cur_new (buf : list N) : cur := mkcur 0 [] buf.

(* the absolute offset of the cursor inside the caller's buffer *)
Definition apos (c : cur) : nat := length (tokrev c) + pre c.
(* `pos()`: `cursor - start`, the length of the uncommitted token (NOT the absolute offset once
   something has been committed by slice()) *)
Definition pos : P nat := fun c => Done (length (tokrev c)) c.
(* `as_ref().as_ptr() as usize`: the address of the cursor, as an offset from the buffer's base
   address (lib.rs only ever subtracts two of them) *)
Definition addr : P nat := fun c => Done (apos c) c.

(* `peek()` *)
Definition peek : P (option N) := fun c => Done (hd_error (rest c)) c.

(* `next()` with the `next!` macro: Partial at the end *)
Definition next : P N := fun c =>
  match rest c with
  | [] => Part
  | b :: r => Done b (mkcur (pre c) (b :: tokrev c) r)
  end.

(* `peek_n::<[u8; n]>(n)` *)
Definition peek_n (n : nat) : P (option (list N)) := fun c => Done (take n (rest c)) c.

(* `unsafe peek_ahead(n)`: precondition n <= len() *)
Definition peek_ahead (n : nat) : P (option N) := fun c =>
  match drop n (rest c) with
  | Some r => Done (hd_error r) c
  | None => Fault PeekAheadOOB
  end.

(* `unsafe advance(n)` / `bump()`: precondition n <= len() *)
Definition advance (n : nat) : P unit := fun c =>
  match shift n (tokrev c) (rest c) with
  | Some (tk, r) => Done tt (mkcur (pre c) tk r)
  | None => Fault AdvanceOOB
  end.
Definition bump : P unit := advance 1.

(* `slice()`: the bytes between start and cursor; commits *)
Definition commit (c : cur) : cur := mkcur (length (tokrev c) + pre c) [] (rest c).
Definition slice : P sl := fun c =>
  Done (Sub (pre c) (rev' (tokrev c))) (commit c).

(* `unsafe slice_skip(k)`: precondition k <= cursor - start *)
Definition slice_skip (k : nat) : P sl := fun c =>
  match drop k (tokrev c) with
  | Some t => Done (Sub (pre c) (rev' t)) (commit c)
  | None => Fault SkipUnderflow
  end.

(* `as_ref().len()` *)
Definition remaining : P nat := fun c => Done (length (rest c)) c.

(* ---- macros.rs ---- *)

(* `expect!(bytes.next() == pat => Err(e))` *)
Definition expect (p : N -> bool) (e : err) : P N :=
  b <- next ;; if p b then ret b else fail e.

Definition is (k : N) (b : N) : bool := N.eqb b k.

Definition CR : N := 13%N.
Definition LF : N := 10%N.
Definition SP : N := 32%N.
Definition HT : N := 9%N.
Definition COLON : N := 58%N.

(* `space!(bytes or e)` *)
Definition space (e : err) : P unit :=
  expect (is SP) e ;;; slice ;;; ret tt.

(* `newline!(bytes)` *)
Definition newline : P unit :=
  b <- next ;;
  if is CR b then expect (is LF) NewLine ;;; slice ;;; ret tt
  else if is LF b then slice ;;; ret tt
  else fail NewLine.

Definition is_ws (b : N) : bool := is SP b || is HT b.
