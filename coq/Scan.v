(* Scan.v -- the loop shells of src/simd/{swar,sse42,avx2,neon,runtime}.rs.

   The straight-line block kernels are *parameters* here; they are supplied by
   the translated definitions of Generated/*.v in Backends.v.  *)

From Coq Require Import List NArith Bool.
From HV Require Import Cursor.
Import ListNotations.

(* swar::match_uri_vectored / match_header_value_vectored:
     loop {
       if let Some(b8) = peek_n(W) { n = kernel(b8); advance(n); if n == W { continue } }
       if let Some(b) = peek() { if class(b) { advance(1); continue } }
       break
     }                                                                        *)
Fixpoint swar_loop (fuel : nat) (W : nat) (kernel : list N -> nat) (class : N -> bool)
  : P unit :=
  match fuel with
  | O => fault_ OutOfFuel
  | S f =>
      blk <- peek_n W ;;
      match blk with
      | Some b8 =>
          let n := kernel b8 in
          advance n ;;;
          if Nat.eqb n W then swar_loop f W kernel class
          else
            pk <- peek ;;
            match pk with
            | Some b => if class b then advance 1 ;;; swar_loop f W kernel class else ret tt
            | None => ret tt
            end
      | None =>
          pk <- peek ;;
          match pk with
          | Some b => if class b then advance 1 ;;; swar_loop f W kernel class else ret tt
          | None => ret tt
          end
      end
  end.

(* swar::match_block / match_tail: naive first-failing index *)
Fixpoint first_bad (p : N -> bool) (l : list N) : nat :=
  match l with
  | [] => O
  | b :: r => if p b then S (first_bad p r) else O
  end.

(* swar::match_header_name_vectored:
     while let Some(block) = peek_n(W) { n = match_block(class, block); advance(n);
                                         if n != W { return } }
     advance(match_tail(class, as_ref()))                                     *)
Fixpoint swar_name_loop (fuel : nat) (W : nat) (class : N -> bool) : P unit :=
  match fuel with
  | O => fault_ OutOfFuel
  | S f =>
      blk <- peek_n W ;;
      match blk with
      | Some block =>
          let n := first_bad class block in
          advance n ;;;
          if Nat.eqb n W then swar_name_loop f W class else ret tt
      | None =>
          fun c => advance (first_bad class (rest c)) c
      end
  end.

(* sse42 / avx2 / neon:
     while as_ref().len() >= G { adv = kernel(load K bytes); advance(adv);
                                 if adv != R { return } }
     fallback(bytes)
   G (loop guard), K (lanes loaded by the kernel) and R (the constant the
   advance is compared with) are read off the source by the translator; the
   load is a checked operation.                                               *)
Fixpoint simd_loop (fuel : nat) (G K R : nat) (kernel : list N -> nat) (fallback : P unit)
  : P unit :=
  match fuel with
  | O => fault_ OutOfFuel
  | S f =>
      g <- peek_n G ;;
      match g with
      | Some _ =>
          blk <- peek_n K ;;
          match blk with
          | Some block =>
              let adv := kernel block in
              advance adv ;;;
              if Nat.eqb adv R then simd_loop f G K R kernel fallback else ret tt
          | None => fault_ LoadOOB
          end
      | None => fallback
      end
  end.

(* The environment the parser runs in: the four class predicates of lib.rs and
   the three scanner entry points of src/simd/mod.rs. *)
Record env := mkenv {
  c_method : N -> bool;      (* is_method_token *)
  c_uri    : N -> bool;      (* is_uri_token *)
  c_name   : N -> bool;      (* is_header_name_token *)
  c_value  : N -> bool;      (* is_header_value_token *)
  s_uri    : nat -> P unit;  (* match_uri_vectored (argument: fuel) *)
  s_value  : nat -> P unit;  (* match_header_value_vectored *)
  s_name   : nat -> P unit   (* match_header_name_vectored *)
}.
