(* ImpGlue.v -- hand-written glue between the translated header machine (Generated/Lib.v) and its
   translated callers (Generated/LibApi.v): what `complete!(parse_headers_iter_uninit(&mut headers,
   &mut bytes, &cfg))` does to the caller.  Trusted (DESIGN.md 10):
     * `&mut headers` is an in/out parameter: on EVERY exit the drop guard `ShrinkOnDrop` (text pinned
       by the translator) has shrunk it to the first `num_headers` slots of the array;
     * the array memory itself (`putmem`) belongs to the caller and keeps what was written;
     * Partial / Err of the callee end the caller (`complete!`, translated from macros.rs). *)
From Coq Require Import List NArith Bool.
From HV Require Import Cursor Scan Model Api Imp ImpLib.
From HV.Generated Require Import Lib.
Import ListNotations.

Section Glue.
Variable E : env.
Variable fuel : nat.

Definition icall_headers {L R B} (hc : hcfg) (get : L -> list slot)
           (put : list slot -> L -> L) (putmem : list slot -> L -> L) : I L R B nat := fun l c =>
  let fin lh := putmem (g_headers_v_arr lh)
                       (put (firstn (g_headers_v_num_headers lh) (g_headers_v_arr lh)) l) in
  match ifun (g_headers_body E fuel hc) (g_headers_init (get l)) c with
  | IDone n lh c' => IDone n (fin lh) c'
  | IPart lh => IPart (fin lh)
  | IFail e lh => IFail e (fin lh)
  | IFault f lh => IFault f (fin lh)
  | IExc _ lh _ => IFault Unreachable (fin lh)
  end.

End Glue.
