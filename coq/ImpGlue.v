(* ImpGlue.v -- hand-written glue between the translated header machine (Generated/Lib.v) and its
   translated callers (Generated/LibApi.v): what `complete!(parse_headers_iter_uninit(&mut headers,
   &mut bytes, &cfg))` does to the caller.  Trusted (DESIGN.md 10):
     * `&mut headers` is an in/out parameter: on EVERY exit the drop guard `ShrinkOnDrop` (text pinned
       by the translator) has shrunk it to the first `num_headers` slots of the array;
     * the array memory itself (`putmem`) belongs to the caller and keeps what was written;
     * Partial / Err of the callee end the caller (`complete!`, translated from macros.rs). *)
From Coq Require Import List NArith Bool.
From HV Require Import Cursor Scan Model Api Imp ImpLib.
From HV.Generated Require Import Lib.
Import ListNotations.

Section Glue.
Variable E : env.
Variable fuel : nat.

Definition icall_headers {L R B} (hc : hcfg) (get : L -> list slot)
           (put : list slot -> L -> L) (putmem : list slot -> L -> L) : I L R B nat :=
  isub (g_headers_body E fuel hc) (fun l => g_headers_init (get l))
       (fun lh l => putmem (g_headers_v_arr lh)
                           (put (firstn (g_headers_v_num_headers lh) (g_headers_v_arr lh)) l)).

End Glue.
