(* Backends.v -- the concrete environments: the translated class tables and
   kernels of Generated/*.v plugged into the loop shells of Scan.v, one per
   provider of the three scanner entry points (src/simd/mod.rs). *)
From Coq Require Import List NArith Bool.
From HV Require Import Cursor Scan Intrinsics.
From HV.Generated Require Import Classes Swar Sse42 Avx2 Neon Cfg.
Import ListNotations.

Section Width.
Variable W : nat.   (* BLOCK_SIZE = size_of::<usize>(): 8 on 64-bit targets, 4 on 32-bit *)

Definition swar_uri (fuel : nat) : P unit :=
  swar_loop fuel W (match_uri_char_8_swar W) is_uri_token.
Definition swar_value (fuel : nat) : P unit :=
  swar_loop fuel W (match_header_value_char_8_swar W) is_header_value_token.
Definition swar_name (fuel : nat) : P unit :=
  swar_name_loop fuel W is_header_name_token.

Definition mk (u v n : nat -> P unit) : env :=
  mkenv is_method_token is_uri_token is_header_name_token is_header_value_token u v n.

(* pub use self::swar::* *)
Definition env_swar : env := mk swar_uri swar_value swar_name.
(* sse42_compile_time / runtime id 2 *)
Definition env_sse42 : env :=
  mk (fun f => sse42_match_uri_vectored (swar_uri f) f)
     (fun f => sse42_match_header_value_vectored (swar_value f) f) swar_name.
(* avx2_compile_time / runtime id 1 *)
Definition env_avx2 : env :=
  mk (fun f => avx2_match_uri_vectored (swar_uri f) f)
     (fun f => avx2_match_header_value_vectored (swar_value f) f) swar_name.
(* pub use self::neon::* *)
Definition env_neon : env :=
  mk (fun f => neon_match_uri_vectored (swar_uri f) f)
     (fun f => neon_match_header_value_vectored (swar_value f) f)
     (fun f => neon_match_header_name_vectored (swar_name f) f).
(* pub use self::runtime::*, as a function of the cached feature id *)
Definition env_runtime (id : N) : env :=
  if N.eqb id RT_AVX2 then env_avx2
  else if N.eqb id RT_SSE42 then env_sse42
  else env_swar.
End Width.

Inductive backend :=
| BSwar | BSse42 | BAvx2 | BNeon | BRuntime (id : N).

Definition env_of (W : nat) (b : backend) : env :=
  match b with
  | BSwar => env_swar W
  | BSse42 => env_sse42 W
  | BAvx2 => env_avx2 W
  | BNeon => env_neon W
  | BRuntime id => env_runtime W id
  end.
