(* Api.v -- the public entry points of src/lib.rs: the two `parse_with_config_and_uninit_headers`
   bodies, the take / cast / restore wrappers, `parse_headers`, and histories of
   calls on one Request / Response value. *)

From Coq Require Import List NArith Bool.
From HV Require Import Cursor Scan Model.
Import ListNotations.
Local Open Scope N_scope.

(* ParserConfig: the seven booleans, in declaration order *)
Record config := mkconfig {
  allow_spaces_after_header_name_in_responses : bool;
  allow_obsolete_multiline_headers_in_responses : bool;
  allow_multiple_spaces_in_request_line_delimiters : bool;
  allow_multiple_spaces_in_response_status_delimiters : bool;
  allow_space_before_first_header_name_cfg : bool;
  ignore_invalid_headers_in_responses : bool;
  ignore_invalid_headers_in_requests : bool
}.
Definition config_default : config := mkconfig false false false false false false false.

Definition request_hcfg (cf : config) : hcfg :=
  mkhcfg false false (allow_space_before_first_header_name_cfg cf)
         (ignore_invalid_headers_in_requests cf).
Definition response_hcfg (cf : config) : hcfg :=
  mkhcfg (allow_spaces_after_header_name_in_responses cf)
         (allow_obsolete_multiline_headers_in_responses cf)
         (allow_space_before_first_header_name_cfg cf)
         (ignore_invalid_headers_in_responses cf).

(* A Request / Response value.  `hdrs` is the contents of the slice the
   `headers` field currently refers to. *)
Record request := mkreq {
  q_method : option sl; q_path : option sl; q_version : option N; q_hdrs : list slot }.
Record response := mkresp {
  p_version : option N; p_code : option N; p_reason : option sl; p_hdrs : list slot }.

Definition request_new (hdrs : list slot) : request := mkreq None None None hdrs.
Definition response_new (hdrs : list slot) : response := mkresp None None None hdrs.

Section WithEnv.
Variable E : env.

(* result of the uninit cores: status, the value, and the caller's array after the call *)
Definition rq_res := (status * request * list slot)%type.
Definition rp_res := (status * response * list slot)%type.

(* lib.rs:481  Request::parse_with_config_and_uninit_headers *)
Definition request_core (cf : config) (buf : list N) (rq : request) (arr : list slot) : rq_res :=
  let fuel := S (length buf) in
  let ms := allow_multiple_spaces_in_request_line_delimiters cf in
  let stop := fun (st : status) (rq : request) => (st, rq, arr) in
  stage ((skip_empty_lines fuel ;;; parse_method E fuel) (cur_new buf)) rq stop (fun m c =>
  let rq := mkreq (Some m) (q_path rq) (q_version rq) (q_hdrs rq) in
  stage (((if ms then skip_spaces fuel else ret tt) ;;; parse_uri E fuel) c) rq stop (fun p c =>
  let rq := mkreq (q_method rq) (Some p) (q_version rq) (q_hdrs rq) in
  stage (((if ms then skip_spaces fuel else ret tt) ;;; parse_version) c) rq stop (fun v c =>
  let rq := mkreq (q_method rq) (q_path rq) (Some v) (q_hdrs rq) in
  stage (newline c) rq stop (fun _ c =>
  let len := apos c in
  match parse_headers_iter_uninit E fuel (request_hcfg cf) arr c with
  | (Complete headers_len, nh, arr') =>
      (Complete (len + headers_len),
       mkreq (q_method rq) (q_path rq) (q_version rq) (firstn nh arr'), arr')
  | (st, _, arr') => (st, rq, arr')
  end)))).

(* lib.rs:653  Response::parse_with_config_and_uninit_headers *)
Definition after_code (ms : bool) (fuel : nat) : P sl :=
  b <- next ;;
  if is SP b then
    (if ms then skip_spaces fuel else ret tt) ;;; slice ;;; parse_reason fuel
  else if is CR b then expect (is LF) Status ;;; slice ;;; ret (Ext [])
  else if is LF b then slice ;;; ret (Ext [])
  else fail Status.

Definition response_core (cf : config) (buf : list N) (rp : response) (arr : list slot) : rp_res :=
  let fuel := S (length buf) in
  let ms := allow_multiple_spaces_in_response_status_delimiters cf in
  let stop := fun (st : status) (rp : response) => (st, rp, arr) in
  stage ((skip_empty_lines fuel ;;; parse_version) (cur_new buf)) rp stop (fun v c =>
  let rp := mkresp (Some v) (p_code rp) (p_reason rp) (p_hdrs rp) in
  stage ((space Version ;;; (if ms then skip_spaces fuel else ret tt) ;;; parse_code) c) rp stop
    (fun code c =>
  let rp := mkresp (p_version rp) (Some code) (p_reason rp) (p_hdrs rp) in
  stage (after_code ms fuel c) rp stop (fun r c =>
  let rp := mkresp (p_version rp) (p_code rp) (Some r) (p_hdrs rp) in
  let len := apos c in
  match parse_headers_iter_uninit E fuel (response_hcfg cf) arr c with
  | (Complete headers_len, nh, arr') =>
      (Complete (len + headers_len),
       mkresp (p_version rp) (p_code rp) (p_reason rp) (firstn nh arr'), arr')
  | (st, _, arr') => (st, rp, arr')
  end))).

(* lib.rs:531  Request::parse_with_config: take self.headers, cast, call, restore unless Complete *)
Definition request_with_config (cf : config) (buf : list N) (rq : request) : rq_res :=
  let headers := q_hdrs rq in
  let rq0 := mkreq (q_method rq) (q_path rq) (q_version rq) [] in   (* mem::take *)
  match request_core cf buf rq0 headers with
  | (Complete n, rq', arr') => (Complete n, rq', arr')
  | (Faulted f, rq', arr') => (Faulted f, rq', arr')      (* a panic: nothing is put back (never happens: C01) *)
  | (other, rq', arr') =>
      (other, mkreq (q_method rq') (q_path rq') (q_version rq') arr', arr')
  end.
Definition response_with_config (cf : config) (buf : list N) (rp : response) : rp_res :=
  let headers := p_hdrs rp in
  let rp0 := mkresp (p_version rp) (p_code rp) (p_reason rp) [] in
  match response_core cf buf rp0 headers with
  | (Complete n, rp', arr') => (Complete n, rp', arr')
  | (Faulted f, rp', arr') => (Faulted f, rp', arr')
  | (other, rp', arr') =>
      (other, mkresp (p_version rp') (p_code rp') (p_reason rp') arr', arr')
  end.

(* the eight public entry points on a value *)
Inductive entry :=
| EParse            (* Request::parse / Response::parse *)
| EConfig           (* ParserConfig::parse_request / parse_response *)
| EUninit           (* parse_with_uninit_headers *)
| EConfigUninit.    (* ParserConfig::parse_*_with_uninit_headers *)

(* `arr` is the MaybeUninit array handed to the uninit variants (ignored by the others) *)
Definition request_call (e : entry) (cf : config) (buf : list N) (arr : list slot)
           (rq : request) : rq_res :=
  match e with
  | EParse => request_with_config config_default buf rq
  | EConfig => request_with_config cf buf rq
  | EUninit => request_core config_default buf rq arr
  | EConfigUninit => request_core cf buf rq arr
  end.
Definition response_call (e : entry) (cf : config) (buf : list N) (arr : list slot)
           (rp : response) : rp_res :=
  match e with
  | EParse => response_with_config config_default buf rp
  | EConfig => response_with_config cf buf rp
  | EUninit => response_core config_default buf rp arr
  | EConfigUninit => response_core cf buf rp arr
  end.

(* lib.rs:956  parse_headers *)
Definition parse_headers (src : list N) (dst : list slot) : status * list slot * list slot :=
  match parse_headers_iter_uninit E (S (length src)) hcfg_default dst (cur_new src) with
  | (Complete n, nh, arr') => (Complete n, firstn nh arr', arr')
  | (st, _, arr') => (st, [], arr')
  end.

(* a history: calls folded over one value *)
Record call := mkcall { k_entry : entry; k_cfg : config; k_buf : list N; k_arr : list slot }.
Definition request_history (h : list call) (rq : request) : request :=
  fold_left (fun rq k =>
    match request_call (k_entry k) (k_cfg k) (k_buf k) (k_arr k) rq with (_, rq', _) => rq' end)
    h rq.
Definition response_history (h : list call) (rp : response) : response :=
  fold_left (fun rp k =>
    match response_call (k_entry k) (k_cfg k) (k_buf k) (k_arr k) rp with (_, rp', _) => rp' end)
    h rp.

End WithEnv.
