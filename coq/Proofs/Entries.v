(* Proofs/Entries.v -- consequences of the refinement theorems for the public entry points:
   every entry point is a function of the reference result; no fault; the same result
   whatever the backend; entry points agree; history independence. *)
From Coq Require Import List NArith ZArith Lia Bool ZifyBool ZifyN ZifyNat.
From HV Require Import Cursor Scan Model Api Spec.
From HV.Proofs Require Import Base ScanLoops EnvOk StartLine Headers RefFacts Refine.
Import ListNotations.

(* ---- the reference never faults ---- *)
Lemma ref_header_block_no_fault : forall hc f cap hs off l flt,
  length l < f -> fst (ref_header_block hc f cap hs off l) <> Faulted flt.
Proof.
  induction f as [|f IH]; intros cap hs off l flt Hl; [lia|].
  cbn [ref_header_block].
  pose proof (ref_header_line_adv hc (null hs) off l) as Hadv.
  destruct (ref_header_line hc (null hs) off l) as [x o r| |e]; try discriminate.
  destruct Hadv as [k (Hk0 & Hk & -> & ->)].
  destruct x as [| |n v]; try discriminate.
  - apply IH. rewrite skipn_length. lia.
  - destruct (Nat.ltb (length hs) cap); [|discriminate]. apply IH. rewrite skipn_length. lia.
Qed.

Lemma ref_headers_no_fault hc cap off l flt : fst (ref_headers hc cap off l) <> Faulted flt.
Proof. unfold ref_headers. apply ref_header_block_no_fault. lia. Qed.

Lemma ref_request_no_fault cf cap buf flt : rq_status (ref_request cf cap buf) <> Faulted flt.
Proof.
  unfold ref_request. destruct (ref_request_line _ buf) as [st r].
  destruct r as [u o l| |e]; try discriminate.
  pose proof (ref_headers_no_fault (request_hcfg cf) cap o l flt) as H.
  destruct (ref_headers (request_hcfg cf) cap o l) as [s hs]. exact H.
Qed.
Lemma ref_response_no_fault cf cap buf flt : rp_status (ref_response cf cap buf) <> Faulted flt.
Proof.
  unfold ref_response. destruct (ref_status_line _ buf) as [st r].
  destruct r as [u o l| |e]; try discriminate.
  pose proof (ref_headers_no_fault (response_hcfg cf) cap o l flt) as H.
  destruct (ref_headers (response_hcfg cf) cap o l) as [s hs]. exact H.
Qed.

(* ---- a Complete reference result has every start-line field ---- *)
Lemma ref_request_complete_fields cf cap buf n :
  rq_status (ref_request cf cap buf) = Complete n ->
  exists m p v, rq_start (ref_request cf cap buf) = Build_ref_start_req (Some m) (Some p) (Some v).
Proof.
  unfold ref_request, ref_request_line.
  destruct (ref_empty_lines 0 buf) as [u1 o1 l1| |e1]; try discriminate.
  destruct (ref_method o1 l1) as [m o2 l2| |e2]; try discriminate.
  destruct (rbind (ref_spaces _ o2 l2) _) as [p o3 l3| |e3]; try discriminate.
  destruct (rbind (ref_spaces _ o3 l3) _) as [v o4 l4| |e4]; try discriminate.
  destruct (ref_eol NewLine o4 l4) as [u o5 l5| |e5]; try discriminate.
  destruct (ref_headers _ cap o5 l5) as [s hs]. cbn [rq_status rq_start]. eauto.
Qed.
Lemma ref_response_complete_fields cf cap buf n :
  rp_status (ref_response cf cap buf) = Complete n ->
  exists v c r, rp_start (ref_response cf cap buf) = Build_ref_start_resp (Some v) (Some c) (Some r).
Proof.
  unfold ref_response, ref_status_line.
  destruct (rbind (ref_empty_lines 0 buf) _) as [v o1 l1| |e1]; try discriminate.
  destruct (rbind (rbind (ref_sp Version o1 l1) _) _) as [c o2 l2| |e2]; try discriminate.
  destruct (ref_after_code _ o2 l2) as [r o3 l3| |e3]; try discriminate.
  destruct (ref_headers _ cap o3 l3) as [s hs]. cbn [rp_status rp_start]. eauto.
Qed.

Section Top.
Variable E : env.
Hypothesis HE : env_ok E.

(* ---- the eight entry points as functions of the reference ---- *)
Definition eff_cfg (e : entry) (cf : config) : config :=
  match e with EParse | EUninit => config_default | _ => cf end.
Definition uses_array (e : entry) : bool :=
  match e with EUninit | EConfigUninit => true | _ => false end.

(* the array the call works on, and what `headers` refers to when the call does not complete *)
Definition req_call_result (e : entry) (cf : config) (buf : list N) (arr : list slot) (rq : request) : rq_res :=
  if uses_array e then req_result rq arr (ref_request (eff_cfg e cf) (length arr) buf)
  else
    let r := ref_request (eff_cfg e cf) (length (q_hdrs rq)) buf in
    match req_result rq (q_hdrs rq) r with
    | (Complete n, rq', arr') => (Complete n, rq', arr')
    | (st, rq', arr') => (st, mkreq (q_method rq') (q_path rq') (q_version rq') arr', arr')
    end.

Theorem request_call_ref : forall e cf buf arr rq, bytes_ok buf ->
  request_call E e cf buf arr rq = req_call_result e cf buf arr rq.
Proof.
  intros e cf buf arr rq Hb. unfold request_call, req_call_result.
  destruct e; cbn [uses_array eff_cfg]; try (apply request_core_ref; assumption);
  unfold request_with_config; rewrite (request_core_ref E HE) by exact Hb;
  unfold req_result; cbn [q_method q_path q_version q_hdrs];
  (destruct (rq_status _) eqn:Es; try reflexivity; exfalso; exact (ref_request_no_fault _ _ _ _ Es)).
Qed.

Definition resp_call_result (e : entry) (cf : config) (buf : list N) (arr : list slot) (rp : response) : rp_res :=
  if uses_array e then resp_result rp arr (ref_response (eff_cfg e cf) (length arr) buf)
  else
    let r := ref_response (eff_cfg e cf) (length (p_hdrs rp)) buf in
    match resp_result rp (p_hdrs rp) r with
    | (Complete n, rp', arr') => (Complete n, rp', arr')
    | (st, rp', arr') => (st, mkresp (p_version rp') (p_code rp') (p_reason rp') arr', arr')
    end.

Theorem response_call_ref : forall e cf buf arr rp, bytes_ok buf ->
  response_call E e cf buf arr rp = resp_call_result e cf buf arr rp.
Proof.
  intros e cf buf arr rp Hb. unfold response_call, resp_call_result.
  destruct e; cbn [uses_array eff_cfg]; try (apply response_core_ref; assumption);
  unfold response_with_config; rewrite (response_core_ref E HE) by exact Hb;
  unfold resp_result; cbn [p_version p_code p_reason p_hdrs];
  (destruct (rp_status _) eqn:Es; try reflexivity; exfalso; exact (ref_response_no_fault _ _ _ _ Es)).
Qed.
End Top.

(* ---- offsets stay inside the buffer; the array keeps its length ---- *)
Lemma ref_header_block_bound : forall hc f cap hs off l st hs',
  ref_header_block hc f cap hs off l = (st, hs') ->
  forall o, st = Complete o -> o <= off + length l.
Proof.
  induction f as [|f IH]; intros cap hs off l st hs' H o Ho; cbn [ref_header_block] in H.
  - injection H as <- <-. discriminate.
  - pose proof (ref_header_line_adv hc (null hs) off l) as Hadv.
    destruct (ref_header_line hc (null hs) off l) as [x o' r| |e]; [|injection H as <- <-; discriminate|injection H as <- <-; discriminate].
    destruct Hadv as [k (Hk0 & Hk & -> & ->)].
    destruct x as [| |n v].
    + injection H as <- <-. injection Ho as <-. lia.
    + specialize (IH _ _ _ _ _ _ H o Ho). rewrite skipn_length in IH. lia.
    + destruct (Nat.ltb (length hs) cap); [|injection H as <- <-; discriminate].
      specialize (IH _ _ _ _ _ _ H o Ho). rewrite skipn_length in IH. lia.
Qed.

Lemma ref_request_line_adv ms buf : advances0 0 buf (snd (ref_request_line ms buf)).
Proof.
  unfold ref_request_line.
  pose proof (ref_empty_lines_adv (length buf) buf 0 (le_n _)) as A1.
  destruct (ref_empty_lines 0 buf) as [u1 o1 l1| |e1]; cbn [snd]; try exact I.
  destruct A1 as [k1 (Hk1 & -> & ->)].
  pose proof (ref_method_adv (k1 + 0) (skipn k1 buf)) as A2.
  destruct (ref_method (k1 + 0) (skipn k1 buf)) as [m o2 l2| |e2]; cbn [snd]; try exact I.
  destruct A2 as [k2 (_ & Hk2 & -> & ->)]. rewrite skipn_length in Hk2. rewrite skipn_add.
  assert (A3 : advances0 (k2 + (k1 + 0)) (skipn (k1 + k2) buf)
                 (rbind (ref_spaces ms (k2 + (k1 + 0)) (skipn (k1 + k2) buf)) (fun _ o l => ref_target o l))).
  { apply rbind_adv0; [apply ref_spaces_adv|]. intros a o r _. apply advances_weaken. apply ref_target_adv. }
  destruct (rbind (ref_spaces ms _ _) _) as [pth o3 l3| |e3]; cbn [snd]; try exact I.
  destruct A3 as [k3 (Hk3 & -> & ->)]. rewrite skipn_length in Hk3. rewrite skipn_add.
  assert (A4 : advances0 (k3 + (k2 + (k1 + 0))) (skipn (k1 + k2 + k3) buf)
                 (rbind (ref_spaces ms (k3 + (k2 + (k1 + 0))) (skipn (k1 + k2 + k3) buf)) (fun _ o l => ref_version o l))).
  { apply rbind_adv0; [apply ref_spaces_adv|]. intros a o r _. apply advances_weaken. apply ref_version_adv. }
  destruct (rbind (ref_spaces ms _ _) (fun _ o l => ref_version o l)) as [v o4 l4| |e4]; cbn [snd]; try exact I.
  destruct A4 as [k4 (Hk4 & -> & ->)]. rewrite skipn_length in Hk4. rewrite skipn_add.
  pose proof (ref_eol_adv NewLine (k4 + (k3 + (k2 + (k1 + 0)))) (skipn (k1 + k2 + k3 + k4) buf)) as A5.
  destruct (ref_eol NewLine _ _) as [u5 o5 l5| |e5]; cbn [advances0]; try exact I.
  destruct A5 as [k5 (_ & Hk5 & -> & ->)]. rewrite skipn_length in Hk5. rewrite skipn_add.
  exists (k1 + k2 + k3 + k4 + k5). repeat split; lia.
Qed.

Lemma ref_status_line_adv ms buf : advances0 0 buf (snd (ref_status_line ms buf)).
Proof.
  unfold ref_status_line.
  assert (A1 : advances0 0 buf (rbind (ref_empty_lines 0 buf) (fun _ o l => ref_version o l))).
  { apply rbind_adv0; [apply (ref_empty_lines_adv (length buf)); lia|].
    intros a o r _. apply advances_weaken. apply ref_version_adv. }
  destruct (rbind (ref_empty_lines 0 buf) _) as [v o1 l1| |e1]; cbn [snd]; try exact I.
  destruct A1 as [k1 (Hk1 & -> & ->)].
  assert (A2 : advances0 (k1 + 0) (skipn k1 buf)
                 (rbind (rbind (ref_sp Version (k1 + 0) (skipn k1 buf)) (fun _ o l => ref_spaces ms o l))
                        (fun _ o l => ref_code o l))).
  { apply rbind_adv0; [apply rbind_adv0; [apply advances_weaken; apply ref_sp_adv|intros; apply ref_spaces_adv]|].
    intros a o r _. apply advances_weaken. apply ref_code_adv. }
  destruct (rbind (rbind (ref_sp Version _ _) _) _) as [code o2 l2| |e2]; cbn [snd]; try exact I.
  destruct A2 as [k2 (Hk2 & -> & ->)]. rewrite skipn_length in Hk2. rewrite skipn_add.
  pose proof (ref_after_code_adv ms (k2 + (k1 + 0)) (skipn (k1 + k2) buf)) as A3.
  destruct (ref_after_code ms _ _) as [rs o3 l3| |e3]; cbn [snd advances0]; try exact I.
  destruct A3 as [k3 (Hk3 & -> & ->)]. rewrite skipn_length in Hk3. rewrite skipn_add.
  exists (k1 + k2 + k3). repeat split; lia.
Qed.

Lemma ref_request_bound cf cap buf n :
  rq_status (ref_request cf cap buf) = Complete n -> n <= length buf.
Proof.
  unfold ref_request. pose proof (ref_request_line_adv (allow_multiple_spaces_in_request_line_delimiters cf) buf) as A.
  destruct (ref_request_line _ buf) as [st r]. cbn [snd] in A.
  destruct r as [u o l| |e]; try discriminate.
  destruct A as [k (Hk & -> & ->)].
  destruct (ref_headers (request_hcfg cf) cap (k + 0) (skipn k buf)) as [s hs] eqn:Eh. cbn [rq_status].
  intros ->. unfold ref_headers in Eh. eapply ref_header_block_bound in Eh; [|reflexivity].
  rewrite skipn_length in Eh. lia.
Qed.
Lemma ref_response_bound cf cap buf n :
  rp_status (ref_response cf cap buf) = Complete n -> n <= length buf.
Proof.
  unfold ref_response. pose proof (ref_status_line_adv (allow_multiple_spaces_in_response_status_delimiters cf) buf) as A.
  destruct (ref_status_line _ buf) as [st r]. cbn [snd] in A.
  destruct r as [u o l| |e]; try discriminate.
  destruct A as [k (Hk & -> & ->)].
  destruct (ref_headers (response_hcfg cf) cap (k + 0) (skipn k buf)) as [s hs] eqn:Eh. cbn [rp_status].
  intros ->. unfold ref_headers in Eh. eapply ref_header_block_bound in Eh; [|reflexivity].
  rewrite skipn_length in Eh. lia.
Qed.

Lemma ref_headers_len hc cap off l : length (snd (ref_headers hc cap off l)) <= cap.
Proof.
  unfold ref_headers. destruct (ref_header_block hc (S (length l)) cap [] off l) as [st hs] eqn:Eh.
  apply ref_header_block_facts in Eh as [H _]. cbn [snd]. apply H. cbn [length]. lia.
Qed.
Lemma ref_request_headers_len cf cap buf : length (rq_headers (ref_request cf cap buf)) <= cap.
Proof.
  unfold ref_request. destruct (ref_request_line _ buf) as [st r].
  destruct r as [u o l| |e]; cbn [rq_headers length]; try lia.
  pose proof (ref_headers_len (request_hcfg cf) cap o l) as H.
  destruct (ref_headers (request_hcfg cf) cap o l). exact H.
Qed.
Lemma ref_response_headers_len cf cap buf : length (rp_headers (ref_response cf cap buf)) <= cap.
Proof.
  unfold ref_response. destruct (ref_status_line _ buf) as [st r].
  destruct r as [u o l| |e]; cbn [rp_headers length]; try lia.
  pose proof (ref_headers_len (response_hcfg cf) cap o l) as H.
  destruct (ref_headers (response_hcfg cf) cap o l). exact H.
Qed.

(* ---- what the eight entry points return, read off the reference ---- *)
Definition req_cap (e : entry) (arr : list slot) (rq : request) : nat :=
  if uses_array e then length arr else length (q_hdrs rq).
Definition resp_cap (e : entry) (arr : list slot) (rp : response) : nat :=
  if uses_array e then length arr else length (p_hdrs rp).

Lemma req_call_status e cf buf arr rq :
  fst (fst (req_call_result e cf buf arr rq)) = rq_status (ref_request (eff_cfg e cf) (req_cap e arr rq) buf).
Proof.
  unfold req_call_result, req_cap. destruct (uses_array e); [reflexivity|].
  unfold req_result. destruct (rq_status _); reflexivity.
Qed.
Lemma resp_call_status e cf buf arr rp :
  fst (fst (resp_call_result e cf buf arr rp)) = rp_status (ref_response (eff_cfg e cf) (resp_cap e arr rp) buf).
Proof.
  unfold resp_call_result, resp_cap. destruct (uses_array e); [reflexivity|].
  unfold resp_result. destruct (rp_status _); reflexivity.
Qed.

(* on Complete the whole value is the reference's, whatever the value held before *)
Lemma req_call_complete e cf buf arr rq n :
  let r := ref_request (eff_cfg e cf) (req_cap e arr rq) buf in
  rq_status r = Complete n ->
  snd (fst (req_call_result e cf buf arr rq)) =
  mkreq (rs_method (rq_start r)) (rs_path (rq_start r)) (rs_version (rq_start r)) (written_of (rq_headers r)).
Proof.
  cbn zeta. intros H. pose proof (ref_request_complete_fields _ _ _ _ H) as [m [p [v Hs]]].
  unfold req_call_result, req_cap in *. destruct (uses_array e); unfold req_result; rewrite H, Hs; reflexivity.
Qed.
Lemma resp_call_complete e cf buf arr rp n :
  let r := ref_response (eff_cfg e cf) (resp_cap e arr rp) buf in
  rp_status r = Complete n ->
  snd (fst (resp_call_result e cf buf arr rp)) =
  mkresp (rs_pversion (rp_start r)) (rs_code (rp_start r)) (rs_reason (rp_start r)) (written_of (rp_headers r)).
Proof.
  cbn zeta. intros H. pose proof (ref_response_complete_fields _ _ _ _ H) as [v [c [r Hs]]].
  unfold resp_call_result, resp_cap in *. destruct (uses_array e); unfold resp_result; rewrite H, Hs; reflexivity.
Qed.

(* the caller's array after the call: the reference's headers, in order, then the old slots *)
Lemma req_call_array e cf buf arr rq :
  snd (req_call_result e cf buf arr rq) =
  slots_of (rq_headers (ref_request (eff_cfg e cf) (req_cap e arr rq) buf))
           (if uses_array e then arr else q_hdrs rq).
Proof.
  unfold req_call_result, req_cap. destruct (uses_array e); [reflexivity|].
  unfold req_result. destruct (rq_status _); reflexivity.
Qed.
Lemma resp_call_array e cf buf arr rp :
  snd (resp_call_result e cf buf arr rp) =
  slots_of (rp_headers (ref_response (eff_cfg e cf) (resp_cap e arr rp) buf))
           (if uses_array e then arr else p_hdrs rp).
Proof.
  unfold resp_call_result, resp_cap. destruct (uses_array e); [reflexivity|].
  unfold resp_result. destruct (rp_status _); reflexivity.
Qed.

(* what `headers` refers to when the call does not complete *)
Lemma req_call_hdrs_incomplete e cf buf arr rq :
  (forall n, fst (fst (req_call_result e cf buf arr rq)) <> Complete n) ->
  q_hdrs (snd (fst (req_call_result e cf buf arr rq))) =
  if uses_array e then q_hdrs rq else snd (req_call_result e cf buf arr rq).
Proof.
  intros H. rewrite req_call_status in H. unfold req_call_result, req_cap in *.
  destruct (uses_array e); unfold req_result in *; destruct (rq_status _) eqn:Es; try reflexivity;
    exfalso; eapply H; reflexivity.
Qed.
Lemma resp_call_hdrs_incomplete e cf buf arr rp :
  (forall n, fst (fst (resp_call_result e cf buf arr rp)) <> Complete n) ->
  p_hdrs (snd (fst (resp_call_result e cf buf arr rp))) =
  if uses_array e then p_hdrs rp else snd (resp_call_result e cf buf arr rp).
Proof.
  intros H. rewrite resp_call_status in H. unfold resp_call_result, resp_cap in *.
  destruct (uses_array e); unfold resp_result in *; destruct (rp_status _) eqn:Es; try reflexivity;
    exfalso; eapply H; reflexivity.
Qed.
