(* Proofs/ErrKinds.v -- which error kinds each reference stage can raise (C10), and the exact
   condition for TooManyHeaders. *)
From Coq Require Import List NArith ZArith Lia Bool ZifyBool ZifyN ZifyNat.
From HV Require Import Cursor Scan Model Api Spec.
From HV.Proofs Require Import Base RefFacts Refine Storage.
Import ListNotations.

Definition errs_in {A} (ok : err -> Prop) (r : rres A) : Prop :=
  match r with RErr e => ok e | _ => True end.

Lemma errs_rbind {A B} ok (r : rres A) (g : A -> nat -> list N -> rres B) :
  errs_in ok r -> (forall a o l, errs_in ok (g a o l)) -> errs_in ok (rbind r g).
Proof. destruct r; cbn [rbind errs_in]; auto. Qed.

Section Kinds.
Variable hc : hcfg.

Lemma ref_invalid_errs ign e off l : errs_in (eq e) (ref_invalid ign e off l).
Proof.
  unfold ref_invalid. destruct ign; cbn [negb errs_in]; [|reflexivity].
  destruct (span _ l) as [junk r]. destruct r as [|b r1]; [exact I|].
  destruct (is 0 b); [reflexivity|]. destruct (is 10 b); [exact I|].
  destruct r1 as [|b2 r2]; [exact I|]. destruct (is 10 b2); [exact I|reflexivity].
Qed.

Lemma ref_value_lines_errs : forall n l voff racc off, length l <= n ->
  errs_in (eq HeaderValue) (ref_value_lines hc voff racc off l).
Proof.
  induction n as [|n IH]; intros l voff racc off Hn.
  { destruct l; [exact I|cbn [length] in Hn; lia]. }
  destruct l as [|b r]; [exact I|]. cbn [length] in Hn. cbn [ref_value_lines].
  destruct (value_char b); [apply IH; lia|].
  destruct (is 13 b).
  { destruct r as [|b2 r2]; [exact I|]. destruct (is 10 b2); cbn [negb]; [|reflexivity].
    cbn [length] in Hn.
    destruct (allow_obsolete_multiline_headers hc); [|exact I].
    destruct r2 as [|b3 r3]; [exact I|]. destruct (ws b3); [|exact I]. apply IH. cbn [length] in *. lia. }
  destruct (is 10 b).
  { destruct (allow_obsolete_multiline_headers hc); [|exact I].
    destruct r as [|b3 r3]; [exact I|]. destruct (ws b3); [|exact I]. apply IH. lia. }
  apply errs_rbind; [apply ref_invalid_errs|intros; exact I].
Qed.

Lemma ref_value_start_errs : forall n l off, length l <= n ->
  errs_in (eq HeaderValue) (ref_value_start hc off l).
Proof.
  induction n as [|n IH]; intros l off Hn.
  { destruct l; [exact I|cbn [length] in Hn; lia]. }
  destruct l as [|b r]; [exact I|]. cbn [length] in Hn. cbn [ref_value_start].
  destruct (ws b); [apply IH; lia|].
  destruct (value_char b); [apply (ref_value_lines_errs (S (length r))); cbn [length]; lia|].
  destruct (is 13 b).
  { destruct r as [|b2 r2]; [exact I|]. destruct (is 10 b2); cbn [negb]; [|reflexivity].
    cbn [length] in Hn.
    destruct (allow_obsolete_multiline_headers hc); [|exact I].
    destruct r2 as [|b3 r3]; [exact I|]. destruct (ws b3); [|exact I]. apply IH. cbn [length] in *. lia. }
  destruct (is 10 b).
  { destruct (allow_obsolete_multiline_headers hc); [|exact I].
    destruct r as [|b3 r3]; [exact I|]. destruct (ws b3); [|exact I]. apply IH. lia. }
  apply errs_rbind; [apply ref_invalid_errs|intros; exact I].
Qed.

Definition line_err (e : err) : Prop := e = NewLine \/ e = HeaderName \/ e = HeaderValue.

Lemma errs_weaken {A} (p q : err -> Prop) (r : rres A) : (forall e, p e -> q e) -> errs_in p r -> errs_in q r.
Proof. destruct r; cbn [errs_in]; auto. Qed.

Lemma ref_value_errs name off l : errs_in (eq HeaderValue) (ref_value hc name off l).
Proof.
  unfold ref_value. apply errs_rbind; [apply (ref_value_start_errs (length l)); lia|intros; exact I].
Qed.

(* HeaderName: anything wrong from the line start up to and including the colon; HeaderValue:
   after the colon; NewLine: a CR not followed by LF at the start of a line *)
Lemma ref_header_line_errs first off l : errs_in line_err (ref_header_line hc first off l).
Proof.
  unfold ref_header_line, line_err. destruct l as [|b r]; [exact I|].
  destruct (is 13 b).
  { destruct r as [|b2 r2]; [exact I|]. destruct (is 10 b2); cbn [errs_in]; auto. }
  destruct (is 10 b); [exact I|].
  destruct (negb (tchar b)).
  { destruct (_ && _ && _); [destruct (span ws (b :: r)); exact I|].
    eapply errs_weaken; [|apply ref_invalid_errs]. intros e <-. auto. }
  destruct (span tchar (b :: r)) as [name r1]. destruct r1 as [|c r2]; [exact I|].
  destruct (is 58 c); [eapply errs_weaken; [|apply ref_value_errs]; intros e <-; auto|].
  destruct (_ && _).
  - destruct (span ws (c :: r2)) as [w r3]. destruct r3 as [|c' r4]; [exact I|].
    destruct (is 58 c'); [eapply errs_weaken; [|apply ref_value_errs]; intros e <-; auto|].
    eapply errs_weaken; [|apply ref_invalid_errs]. intros e <-. auto.
  - eapply errs_weaken; [|apply ref_invalid_errs]. intros e <-. auto.
Qed.

(* TooManyHeaders comes only from the capacity test, with the array exactly full *)
Lemma tmh_len : forall f cap hs off l hs',
  ref_header_block hc f cap hs off l = (Error TooManyHeaders, hs') -> length hs <= cap -> length hs' = cap.
Proof.
  induction f as [|f IH]; intros cap hs off l hs' H Hh; cbn [ref_header_block] in H; [discriminate|].
  pose proof (ref_header_line_errs (null hs) off l) as He.
  destruct (ref_header_line hc (null hs) off l) as [x o r| |e]; [|discriminate|].
  - destruct x as [| |n v]; [discriminate|eapply IH; eauto|].
    destruct (Nat.ltb_spec (length hs) cap).
    + eapply IH; eauto. rewrite app_length. cbn [length]. lia.
    + injection H as <-. lia.
  - injection H as -> _. destruct He as [He|[He|He]]; discriminate.
Qed.

Theorem too_many_iff_block : forall f cap hs off l, length hs <= cap ->
  fst (ref_header_block hc f cap hs off l) = Error TooManyHeaders <->
  length (snd (ref_header_block hc f (S cap) hs off l)) = S cap.
Proof.
  intros f cap hs off l Hh.
  pose proof (capacity_law_block hc f cap (S cap) hs off l ltac:(lia) Hh) as Law. cbn zeta in Law.
  destruct (ref_header_block hc f (S cap) hs off l) as [st' hs'] eqn:E'. cbn [snd] in *.
  assert (Hle : length hs' <= S cap).
  { apply ref_header_block_facts in E' as [H _]. apply H. lia. }
  split.
  - intros H. destruct (Nat.leb_spec (length hs') cap) as [Hc|Hc]; [|lia].
    rewrite Law in H. cbn [fst] in H. subst st'.
    apply tmh_len in E'; lia.
  - intros H. rewrite Law. destruct (Nat.leb_spec (length hs') cap); [lia|reflexivity].
Qed.
End Kinds.

(* ---- start lines ---- *)
Definition req_line_err (e : err) : Prop := e = NewLine \/ e = Token \/ e = Version.
Definition resp_line_err (e : err) : Prop := e = NewLine \/ e = Version \/ e = Status.

Lemma ref_empty_lines_errs : forall n l off, length l <= n -> errs_in (eq NewLine) (ref_empty_lines off l).
Proof.
  induction n as [|n IH]; intros l off Hn.
  { destruct l; [exact I|cbn [length] in Hn; lia]. }
  destruct l as [|b r]; [exact I|]. cbn [length] in Hn. cbn [ref_empty_lines].
  destruct (is 13 b).
  - destruct r as [|b2 r2]; [exact I|]. destruct (is 10 b2); [|reflexivity]. apply IH. cbn [length] in Hn. lia.
  - destruct (is 10 b); [apply IH; lia|exact I].
Qed.
Lemma ref_spaces_errs on off l p : errs_in p (ref_spaces on off l).
Proof. unfold ref_spaces. destruct on; [|exact I]. destruct (span _ l) as [s r]. destruct r; exact I. Qed.
Lemma ref_method_errs off l : errs_in (eq Token) (ref_method off l).
Proof.
  unfold ref_method. destruct (span tchar l) as [m r]. destruct r as [|b r']; [exact I|].
  destruct (null m); [reflexivity|]. destruct (is 32 b); [exact I|reflexivity].
Qed.
Lemma ref_target_errs off l : errs_in (eq Token) (ref_target off l).
Proof.
  unfold ref_target. destruct (span uri_char l) as [m r]. destruct r as [|b r']; [exact I|].
  destruct (negb (is 32 b)); [reflexivity|]. destruct (null m); [reflexivity|].
  destruct (negb (utf8_valid m)); [reflexivity|exact I].
Qed.
Lemma ref_version_errs off l : errs_in (eq Version) (ref_version off l).
Proof.
  unfold ref_version. destruct (take 8 l).
  - destruct (list_eqb _ _); [exact I|]. destruct (list_eqb _ _); [exact I|reflexivity].
  - destruct (is_prefix l HTTP1dot); [exact I|reflexivity].
Qed.
Lemma ref_eol_errs e off l : errs_in (eq e) (ref_eol e off l).
Proof.
  unfold ref_eol. destruct l as [|b r]; [exact I|]. destruct (is 13 b).
  - destruct r as [|b2 r2]; [exact I|]. destruct (is 10 b2); [exact I|reflexivity].
  - destruct (is 10 b); [exact I|reflexivity].
Qed.

Theorem ref_request_line_errs ms buf : errs_in req_line_err (snd (ref_request_line ms buf)).
Proof.
  unfold ref_request_line, req_line_err.
  pose proof (ref_empty_lines_errs (length buf) buf 0 (le_n _)) as H1.
  destruct (ref_empty_lines 0 buf) as [u1 o1 l1| |e1]; cbn [snd errs_in] in *; auto.
  pose proof (ref_method_errs o1 l1) as H2.
  destruct (ref_method o1 l1) as [m o2 l2| |e2]; cbn [snd errs_in] in *; auto.
  assert (H3 : errs_in (eq Token) (rbind (ref_spaces ms o2 l2) (fun _ o l => ref_target o l))).
  { apply errs_rbind; [apply ref_spaces_errs|intros; apply ref_target_errs]. }
  destruct (rbind (ref_spaces ms o2 l2) _) as [p o3 l3| |e3]; cbn [snd errs_in] in *; auto.
  assert (H4 : errs_in (eq Version) (rbind (ref_spaces ms o3 l3) (fun _ o l => ref_version o l))).
  { apply errs_rbind; [apply ref_spaces_errs|intros; apply ref_version_errs]. }
  destruct (rbind (ref_spaces ms o3 l3) (fun _ o l => ref_version o l)) as [v o4 l4| |e4]; cbn [snd errs_in] in *; auto.
  eapply errs_weaken; [|apply ref_eol_errs]. intros e <-. auto.
Qed.

Lemma ref_sp_errs e off l : errs_in (eq e) (ref_sp e off l).
Proof. unfold ref_sp. destruct l as [|b r]; [exact I|]. destruct (is 32 b); [exact I|reflexivity]. Qed.
Lemma ref_code_errs off l : errs_in (eq Status) (ref_code off l).
Proof.
  unfold ref_code. destruct l as [|a r1]; [exact I|]. destruct (negb (digit a)); [reflexivity|].
  destruct r1 as [|b r2]; [exact I|]. destruct (negb (digit b)); [reflexivity|].
  destruct r2 as [|c r3]; [exact I|]. destruct (negb (digit c)); [reflexivity|exact I].
Qed.
Lemma ref_reason_errs off l : errs_in (eq Status) (ref_reason off l).
Proof.
  unfold ref_reason. destruct (span reason_char l) as [t r].
  pose proof (ref_eol_errs Status (length t + off) r) as H.
  destruct (ref_eol Status (length t + off) r); cbn [errs_in] in *; auto.
Qed.
Lemma ref_after_code_errs ms off l : errs_in (eq Status) (ref_after_code ms off l).
Proof.
  unfold ref_after_code. destruct l as [|b r]; [exact I|].
  destruct (is 32 b); [apply errs_rbind; [apply ref_spaces_errs|intros; apply ref_reason_errs]|].
  destruct (is 13 b || is 10 b); [|reflexivity].
  pose proof (ref_eol_errs Status off (b :: r)) as H.
  destruct (ref_eol Status off (b :: r)); cbn [errs_in] in *; auto.
Qed.

Theorem ref_status_line_errs ms buf : errs_in resp_line_err (snd (ref_status_line ms buf)).
Proof.
  unfold ref_status_line, resp_line_err.
  assert (H1 : errs_in (fun e => e = NewLine \/ e = Version)
                 (rbind (ref_empty_lines 0 buf) (fun _ o l => ref_version o l))).
  { apply errs_rbind.
    - eapply errs_weaken; [|apply (ref_empty_lines_errs (length buf)); lia]. intros e <-. auto.
    - intros. eapply errs_weaken; [|apply ref_version_errs]. intros e <-. auto. }
  destruct (rbind (ref_empty_lines 0 buf) _) as [v o1 l1| |e1]; cbn [snd errs_in] in *; [|auto|tauto].
  assert (H2 : errs_in (fun e => e = Version \/ e = Status)
                 (rbind (rbind (ref_sp Version o1 l1) (fun _ o l => ref_spaces ms o l)) (fun _ o l => ref_code o l))).
  { apply errs_rbind; [apply errs_rbind|].
    - eapply errs_weaken; [|apply ref_sp_errs]. intros e <-. auto.
    - intros. apply ref_spaces_errs.
    - intros. eapply errs_weaken; [|apply ref_code_errs]. intros e <-. auto. }
  destruct (rbind (rbind (ref_sp Version o1 l1) _) _) as [c o2 l2| |e2]; cbn [snd errs_in] in *; [|auto|tauto].
  pose proof (ref_after_code_errs ms o2 l2) as H3.
  destruct (ref_after_code ms o2 l2) as [r o3 l3| |e3]; cbn [snd errs_in] in *; auto.
Qed.
