(* BackendsFwd.v -- every concrete backend (SWAR any width, SSE4.2, AVX2, NEON, runtime id) only moves
   the cursor forward, whatever its kernels compute: env_fwd (env_of W be). *)
From Coq Require Import List NArith Bool.
From HV Require Import Cursor Scan Intrinsics Model Backends.
From HV.Generated Require Import Classes Swar Sse42 Avx2 Neon Cfg.
From HV.Proofs Require Import Mono.
Import ListNotations.

Section Width.
Variable W : nat.

Lemma fwd_swar_uri f : mono (swar_uri W f).   Proof. apply mono_swar_loop. Qed.
Lemma fwd_swar_value f : mono (swar_value W f). Proof. apply mono_swar_loop. Qed.
Lemma fwd_swar_name f : mono (swar_name W f).  Proof. apply mono_swar_name_loop. Qed.

Lemma env_swar_fwd : env_fwd (env_swar W).
Proof. unfold env_fwd; (split; [|split]); intros f0; cbn; [apply fwd_swar_uri|apply fwd_swar_value|apply fwd_swar_name]. Qed.
Lemma env_sse42_fwd : env_fwd (env_sse42 W).
Proof.
  unfold env_fwd; (split; [|split]); intros f0; cbn; try apply fwd_swar_name;
    unfold sse42_match_uri_vectored, sse42_match_header_value_vectored; apply mono_simd_loop;
    [apply fwd_swar_uri|apply fwd_swar_value].
Qed.
Lemma env_avx2_fwd : env_fwd (env_avx2 W).
Proof.
  unfold env_fwd; (split; [|split]); intros f0; cbn; try apply fwd_swar_name;
    unfold avx2_match_uri_vectored, avx2_match_header_value_vectored; apply mono_simd_loop;
    [apply fwd_swar_uri|apply fwd_swar_value].
Qed.
Lemma env_neon_fwd : env_fwd (env_neon W).
Proof.
  unfold env_fwd; (split; [|split]); intros f0; cbn;
    unfold neon_match_uri_vectored, neon_match_header_value_vectored, neon_match_header_name_vectored;
    apply mono_simd_loop; [apply fwd_swar_uri|apply fwd_swar_value|apply fwd_swar_name].
Qed.
Lemma env_runtime_fwd id : env_fwd (env_runtime W id).
Proof.
  unfold env_runtime. destruct (N.eqb id RT_AVX2); [apply env_avx2_fwd|].
  destruct (N.eqb id RT_SSE42); [apply env_sse42_fwd|apply env_swar_fwd].
Qed.
End Width.

Theorem backends_fwd : forall W be, env_fwd (env_of W be).
Proof.
  intros W [| | | |id]; cbn [env_of];
    [apply env_swar_fwd|apply env_sse42_fwd|apply env_avx2_fwd|apply env_neon_fwd|apply env_runtime_fwd].
Qed.
