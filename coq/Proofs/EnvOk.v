(* Proofs/EnvOk.v -- the interface between the parser proofs and the scanner proofs:
   an environment is fine when its class predicates are the RFC classes and its three
   scanners stop exactly at the first out-of-class byte.  Everything about the parser
   (Thm/C01 ... C20 except C12/C13) is proved for every environment satisfying this;
   Proofs/Backends.v shows that every concrete backend does. *)
From Coq Require Import List NArith Bool.
From HV Require Import Cursor Scan Model Api Spec.
From HV.Proofs Require Import Base ScanLoops.

Record env_ok (E : env) : Prop := mk_env_ok {
  ok_method : forall b, (b < 256)%N -> c_method E b = tchar b;
  ok_uri    : forall b, (b < 256)%N -> c_uri E b = uri_char b;
  ok_name   : forall b, (b < 256)%N -> c_name E b = tchar b;
  ok_value  : forall b, (b < 256)%N -> c_value E b = value_char b;
  ok_s_uri   : scan_exact (s_uri E) uri_char;
  ok_s_value : scan_exact (s_value E) value_char;
  ok_s_name  : scan_exact (s_name E) tchar
}.
