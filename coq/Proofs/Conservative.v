(* Proofs/Conservative.v -- C15: every leniency option is a conservative extension: a buffer
   the default configuration parses to Complete is parsed to the same result under any
   option set; and each kind of message only reads its own options. *)
From Coq Require Import List NArith ZArith Lia Bool ZifyBool ZifyN ZifyNat.
From HV Require Import Cursor Scan Model Api Spec.
From HV.Proofs Require Import Base RefFacts StartLine Headers.
Import ListNotations.

Definition starts_nonws (r : list N) : Prop := exists b r', r = b :: r' /\ ws b = false.

Section Cons.
Variable hc : hcfg.

Lemma ref_invalid_default e off l x o r : ref_invalid false e off l = ROk x o r -> False.
Proof. unfold ref_invalid. cbn [negb]. discriminate. Qed.

Lemma ref_value_lines_cons : forall n l voff racc off s o r, length l <= n ->
  ref_value_lines hcfg_default voff racc off l = ROk s o r -> starts_nonws r ->
  ref_value_lines hc voff racc off l = ROk s o r.
Proof.
  induction n as [|n IH]; intros l voff racc off s o r Hn H Hr.
  { destruct l; [discriminate|cbn [length] in Hn; lia]. }
  destruct l as [|b l']; [discriminate|]. cbn [length] in Hn. cbn [ref_value_lines] in *.
  cbn [allow_obsolete_multiline_headers ignore_invalid_headers hcfg_default] in H.
  destruct (value_char b); [apply IH; auto; lia|].
  destruct (is 13 b).
  { destruct l' as [|b2 l2]; [discriminate|]. destruct (is 10 b2); cbn [negb] in *; [|discriminate].
    injection H as <- <- <-. destruct (allow_obsolete_multiline_headers hc); [|reflexivity].
    destruct Hr as [b3 [r3 [-> Hw]]]. rewrite Hw. reflexivity. }
  destruct (is 10 b).
  { injection H as <- <- <-. destruct (allow_obsolete_multiline_headers hc); [|reflexivity].
    destruct Hr as [b3 [r3 [-> Hw]]]. rewrite Hw. reflexivity. }
  exfalso. unfold ref_invalid in H. cbn [negb rbind] in H. discriminate.
Qed.

Lemma ref_value_start_cons : forall n l off s o r, length l <= n ->
  ref_value_start hcfg_default off l = ROk s o r -> starts_nonws r ->
  ref_value_start hc off l = ROk s o r.
Proof.
  induction n as [|n IH]; intros l off s o r Hn H Hr.
  { destruct l; [discriminate|cbn [length] in Hn; lia]. }
  destruct l as [|b l']; [discriminate|]. cbn [length] in Hn. cbn [ref_value_start] in *.
  cbn [allow_obsolete_multiline_headers ignore_invalid_headers hcfg_default] in H.
  destruct (ws b); [apply IH; auto; lia|].
  destruct (value_char b).
  { apply (ref_value_lines_cons (S (length l'))); auto. }
  destruct (is 13 b).
  { destruct l' as [|b2 l2]; [discriminate|]. destruct (is 10 b2); cbn [negb] in *; [|discriminate].
    injection H as <- <- <-. destruct (allow_obsolete_multiline_headers hc); [|reflexivity].
    destruct Hr as [b3 [r3 [-> Hw]]]. rewrite Hw. reflexivity. }
  destruct (is 10 b).
  { injection H as <- <- <-. destruct (allow_obsolete_multiline_headers hc); [|reflexivity].
    destruct Hr as [b3 [r3 [-> Hw]]]. rewrite Hw. reflexivity. }
  exfalso. unfold ref_invalid in H. cbn [negb rbind] in H. discriminate.
Qed.

(* the default grammar never yields a dropped value *)
Lemma ref_value_lines_default_sub : forall n l voff racc off s o r, length l <= n ->
  ref_value_lines hcfg_default voff racc off l = ROk s o r -> dropped s = false.
Proof.
  induction n as [|n IH]; intros l voff racc off s o r Hn H.
  { destruct l; [discriminate|cbn [length] in Hn; lia]. }
  destruct l as [|b l']; [discriminate|]. cbn [length] in Hn. cbn [ref_value_lines] in *.
  cbn [allow_obsolete_multiline_headers ignore_invalid_headers hcfg_default] in H.
  destruct (value_char b); [eapply IH; eauto; lia|].
  destruct (is 13 b).
  { destruct l' as [|b2 l2]; [discriminate|]. destruct (is 10 b2); cbn [negb] in *; [|discriminate].
    injection H as <- _ _. reflexivity. }
  destruct (is 10 b); [injection H as <- _ _; reflexivity|].
  exfalso. unfold ref_invalid in H. cbn [negb rbind] in H. discriminate.
Qed.

Lemma ref_header_line_cons first off l x o r :
  ref_header_line hcfg_default first off l = ROk x o r ->
  (x <> LEnd -> starts_nonws r) ->
  ref_header_line hc first off l = ROk x o r.
Proof.
  unfold ref_header_line.
  cbn [allow_space_before_first_header_name allow_spaces_after_header_name ignore_invalid_headers hcfg_default andb].
  destruct l as [|b l']; [discriminate|].
  destruct (is 13 b); [auto|]. destruct (is 10 b); [auto|].
  destruct (negb (tchar b)) eqn:Et.
  { intros H. exfalso. eapply ref_invalid_default; eauto. }
  destruct (span tchar (b :: l')) as [name r1]. destruct r1 as [|c r2]; [discriminate|].
  destruct (is 58 c) eqn:E58.
  2:{ intros H. exfalso. eapply ref_invalid_default; eauto. }
  unfold ref_value. intros H Hr.
  destruct (ref_value_start hcfg_default (S (length name + off)) r2) as [v o' r'| |e] eqn:Ev; cbn [rbind] in H; try discriminate.
  injection H as <- <- <-.
  assert (Hx : (if dropped v then LSkip else LHeader (Sub off name) v) <> LEnd) by (destruct (dropped v); discriminate).
  rewrite (ref_value_start_cons (length r2) r2 _ v o' r' (le_n _) Ev (Hr Hx)). reflexivity.
Qed.

Lemma default_line_rest first off l x o r :
  ref_header_line hcfg_default first off l = ROk x o r -> starts_nonws l.
Proof.
  unfold ref_header_line.
  cbn [allow_space_before_first_header_name allow_spaces_after_header_name ignore_invalid_headers hcfg_default andb].
  destruct l as [|b l']; [discriminate|].
  destruct (is 13 b) eqn:E13.
  { intros _. exists b, l'. split; [reflexivity|]. apply is_eq in E13. subst. reflexivity. }
  destruct (is 10 b) eqn:E10.
  { intros _. exists b, l'. split; [reflexivity|]. apply is_eq in E10. subst. reflexivity. }
  destruct (negb (tchar b)) eqn:Et.
  { intros H. exfalso. eapply ref_invalid_default; eauto. }
  intros _. exists b, l'. split; [reflexivity|]. apply negb_false_iff in Et.
  destruct (ws b) eqn:Ew; [|reflexivity]. destruct (ws_facts b Ew) as (_ & _ & _ & _ & Ht & _). congruence.
Qed.

Theorem ref_header_block_cons : forall f cap hs off l n hs',
  ref_header_block hcfg_default f cap hs off l = (Complete n, hs') ->
  ref_header_block hc f cap hs off l = (Complete n, hs').
Proof.
  induction f as [|f IH]; intros cap hs off l n hs' H; cbn [ref_header_block] in *; [discriminate|].
  destruct (ref_header_line hcfg_default (null hs) off l) as [x o r| |e] eqn:El; try discriminate.
  assert (Hr : x <> LEnd -> starts_nonws r).
  { intros Hx. destruct x as [| |nm v]; [congruence| |].
    - destruct f as [|f']; cbn [ref_header_block] in H; [discriminate|].
      destruct (ref_header_line hcfg_default (null hs) o r) eqn:El2; try discriminate.
      eapply default_line_rest; eauto.
    - destruct (Nat.ltb (length hs) cap); [|discriminate].
      destruct f as [|f']; cbn [ref_header_block] in H; [discriminate|].
      destruct (ref_header_line hcfg_default (null (hs ++ [(nm, v)])) o r) eqn:El2; try discriminate.
      eapply default_line_rest; eauto. }
  rewrite (ref_header_line_cons _ _ _ _ _ _ El Hr).
  destruct x as [| |nm v]; [exact H|apply IH; exact H|].
  destruct (Nat.ltb (length hs) cap); [apply IH; exact H|discriminate].
Qed.

Theorem ref_headers_cons : forall cap off l n hs,
  ref_headers hcfg_default cap off l = (Complete n, hs) -> ref_headers hc cap off l = (Complete n, hs).
Proof. intros cap off l n hs H. unfold ref_headers in *. apply ref_header_block_cons. exact H. Qed.

End Cons.

(* ---- start lines ---- *)
Lemma ref_spaces_noop off l b r : l = b :: r -> is 32 b = false -> forall on, ref_spaces on off l = ROk tt off l.
Proof. intros -> Hb on. unfold ref_spaces. destruct on; [|reflexivity]. cbn [span]. rewrite Hb. reflexivity. Qed.

Lemma ref_target_first off l s o r : ref_target off l = ROk s o r -> exists b r', l = b :: r' /\ is 32 b = false.
Proof.
  unfold ref_target. destruct l as [|b l']; [discriminate|]. cbn [span].
  destruct (uri_char b) eqn:Eu.
  - intros _. exists b, l'. split; [reflexivity|]. destruct (is 32 b) eqn:E; [|reflexivity].
    rewrite (uri_sp b E) in Eu. discriminate.
  - destruct (negb (is 32 b)); [discriminate|]. cbn [null]. discriminate.
Qed.

Lemma ref_version_first off l v o r : ref_version off l = ROk v o r -> exists b r', l = b :: r' /\ is 32 b = false.
Proof.
  unfold ref_version. destruct l as [|b l']; [discriminate|]. intros H. exists b, l'. split; [reflexivity|].
  destruct (take 8 (b :: l')) as [e|] eqn:Et; [|destruct (is_prefix _ _); discriminate].
  assert (He : exists e', e = b :: e').
  { change (take 8 (b :: l')) with (match take 7 l' with Some t => Some (b :: t) | None => None end) in Et.
    destruct (take 7 l'); [injection Et as <-; eauto|discriminate]. }
  destruct He as [e' ->].
  destruct (list_eqb (b :: e') (HTTP1dot ++ [48%N])) eqn:E1.
  - cbn [list_eqb HTTP1dot app] in E1. apply andb_prop in E1 as [E1 _]. apply N.eqb_eq in E1. subst. reflexivity.
  - destruct (list_eqb (b :: e') (HTTP1dot ++ [49%N])) eqn:E2; [|discriminate].
    cbn [list_eqb HTTP1dot app] in E2. apply andb_prop in E2 as [E2 _]. apply N.eqb_eq in E2. subst. reflexivity.
Qed.

Lemma ref_code_first off l c o r : ref_code off l = ROk c o r -> exists b r', l = b :: r' /\ is 32 b = false.
Proof.
  unfold ref_code. destruct l as [|b l']; [discriminate|]. destruct (digit b) eqn:Ed; cbn [negb]; [|discriminate].
  intros _. exists b, l'. split; [reflexivity|]. destruct (is 32 b) eqn:E; [|reflexivity].
  apply is_eq in E. subst. discriminate.
Qed.

Theorem ref_request_cons cf cap buf n :
  rq_status (ref_request config_default cap buf) = Complete n ->
  ref_request cf cap buf = ref_request config_default cap buf.
Proof.
  unfold ref_request, ref_request_line.
  cbn [allow_multiple_spaces_in_request_line_delimiters config_default].
  destruct (ref_empty_lines 0 buf) as [u1 o1 l1| |e1]; try discriminate.
  destruct (ref_method o1 l1) as [m o2 l2| |e2]; try discriminate.
  cbn [ref_spaces rbind].
  destruct (ref_target o2 l2) as [p o3 l3| |e3] eqn:Et; try discriminate.
  destruct (ref_target_first _ _ _ _ _ Et) as [b [r' [Hl Hb]]].
  rewrite (ref_spaces_noop o2 l2 b r' Hl Hb). cbn [rbind]. rewrite Et.
  destruct (ref_version o3 l3) as [v o4 l4| |e4] eqn:Ev; try discriminate.
  destruct (ref_version_first _ _ _ _ _ Ev) as [b2 [r2' [Hl2 Hb2]]].
  rewrite (ref_spaces_noop o3 l3 b2 r2' Hl2 Hb2). cbn [rbind]. rewrite Ev.
  destruct (ref_eol NewLine o4 l4) as [u o5 l5| |e5]; try discriminate.
  change (request_hcfg config_default) with hcfg_default.
  destruct (ref_headers hcfg_default cap o5 l5) as [s hs] eqn:Eh. cbn [rq_status]. intros ->.
  rewrite (ref_headers_cons (request_hcfg cf) _ _ _ _ _ Eh). reflexivity.
Qed.

(* responses: identical when the response multi-space option is off; with it, everything but
   the reason is identical (the reason loses its leading spaces -- the stated exception) *)
Theorem ref_response_cons cf cap buf n :
  allow_multiple_spaces_in_response_status_delimiters cf = false ->
  rp_status (ref_response config_default cap buf) = Complete n ->
  ref_response cf cap buf = ref_response config_default cap buf.
Proof.
  intros Hms. unfold ref_response, ref_status_line. rewrite Hms.
  cbn [allow_multiple_spaces_in_response_status_delimiters config_default].
  destruct (rbind (ref_empty_lines 0 buf) _) as [v o1 l1| |e1]; try discriminate.
  destruct (rbind (rbind (ref_sp Version o1 l1) _) _) as [c o2 l2| |e2]; try discriminate.
  destruct (ref_after_code false o2 l2) as [r o3 l3| |e3]; try discriminate.
  change (response_hcfg config_default) with hcfg_default.
  destruct (ref_headers hcfg_default cap o3 l3) as [s hs] eqn:Eh. cbn [rp_status]. intros ->.
  rewrite (ref_headers_cons (response_hcfg cf) _ _ _ _ _ Eh). reflexivity.
Qed.

(* leading spaces of the reason *)
Lemma ref_reason_strip : forall sp off l s o r,
  (forall x, In x sp -> x = 32%N) ->
  ref_reason off (sp ++ l) = ROk s o r ->
  (match l with b :: _ => is 32 b = false | [] => True end) ->
  exists s', ref_reason (length sp + off) l = ROk s' o r /\
             match s with
             | Sub o0 bs => exists t, bs = sp ++ t /\ s' = Sub (length sp + o0) t
             | Ext _ => s' = s
             end.
Proof.
  intros sp off l s o r Hsp H Hl. unfold ref_reason in *.
  assert (Hspan : span reason_char (sp ++ l) = (sp ++ fst (span reason_char l), snd (span reason_char l))).
  { clear H. induction sp as [|x sp IH]; [cbn [app]; destruct (span reason_char l); reflexivity|].
    cbn [app span]. rewrite (Hsp x (or_introl eq_refl)). change (reason_char 32) with true.
    rewrite IH by (intros y Hy; apply Hsp; right; exact Hy). reflexivity. }
  rewrite Hspan in H. destruct (span reason_char l) as [t rr]. cbn [fst snd] in H.
  rewrite app_length in H. replace (length sp + length t + off) with (length t + (length sp + off)) in H by lia.
  destruct (ref_eol Status (length t + (length sp + off)) rr) as [u o' r'| |e]; try discriminate.
  injection H as <- <- <-. eexists. split; [reflexivity|].
  rewrite forallb_app.
  assert (Hall : forallb (fun b => N.ltb b 128) sp = true).
  { apply forallb_forall. intros x Hx. rewrite (Hsp x Hx). reflexivity. }
  rewrite Hall. cbn [andb]. destruct (forallb _ t); [exists t; split; reflexivity|reflexivity].
Qed.

Lemma span_sp_all l : forall x, In x (fst (span (is 32) l)) -> x = 32%N.
Proof.
  induction l as [|b r IH]; cbn [span]; [intros x []|].
  destruct (is 32 b) eqn:E; [|intros x []].
  destruct (span (is 32) r) as [a t]. cbn [fst] in *. intros x [<-|Hx]; [apply is_eq; exact E|apply IH; exact Hx].
Qed.
Lemma span_sp_rest l : match snd (span (is 32) l) with b :: _ => is 32 b = false | [] => True end.
Proof.
  induction l as [|b r IH]; cbn [span]; [exact I|].
  destruct (is 32 b) eqn:E; [|cbn [snd]; exact E].
  destruct (span (is 32) r) as [a t]. cbn [snd] in *. exact IH.
Qed.

(* how two reasons relate: the lenient one is the default one without its leading spaces *)
Definition reason_stripped (d a : option sl) : Prop :=
  match d, a with
  | Some (Sub o0 bs), Some s' =>
      exists sp t, (forall x, In x sp -> x = 32%N) /\ bs = sp ++ t /\ s' = Sub (length sp + o0) t
  | Some (Ext e), Some s' => s' = Ext e
  | None, None => True
  | _, _ => False
  end.

Lemma ref_after_code_cons ms off l s o r :
  ref_after_code false off l = ROk s o r ->
  exists s', ref_after_code ms off l = ROk s' o r /\ reason_stripped (Some s) (Some s').
Proof.
  unfold ref_after_code. destruct l as [|b l']; [discriminate|].
  destruct (is 32 b).
  - cbn [ref_spaces rbind]. intros H. destruct ms.
    + unfold ref_spaces. pose proof (span_app (is 32) l') as Hsp.
      pose proof (span_sp_all l') as Hall. pose proof (span_sp_rest l') as Hrest.
      destruct (span (is 32) l') as [sp r2]. cbn [fst snd] in *.
      rewrite Hsp in H.
      destruct (ref_reason_strip sp (S off) r2 s o r Hall H Hrest) as [s' [Hs' Hrel]].
      destruct r2 as [|b2 r2'].
      * (* the reason would be all spaces up to the end of the buffer: not Complete *)
        exfalso. unfold ref_reason in Hs'. cbn [span ref_eol] in Hs'. discriminate.
      * cbn [rbind]. exists s'. split; [exact Hs'|]. cbn [reason_stripped].
        destruct s as [o0 bs|e]; [|exact Hrel]. destruct Hrel as [t [-> ->]]. exists sp, t. auto.
    + cbn [ref_spaces rbind]. exists s. split; [exact H|]. cbn [reason_stripped].
      destruct s as [o0 bs|e]; [|reflexivity]. exists [], bs. repeat split; auto. intros x [].
  - destruct (is 13 b || is 10 b); [|discriminate].
    intros H. exists s. split; [exact H|]. cbn [reason_stripped].
    destruct (ref_eol Status off (b :: l')); try discriminate. injection H as <- _ _. reflexivity.
Qed.

Theorem ref_response_cons_ms cf cap buf n :
  rp_status (ref_response config_default cap buf) = Complete n ->
  let a := ref_response cf cap buf in let d := ref_response config_default cap buf in
  rp_status a = rp_status d /\ rp_headers a = rp_headers d /\
  rs_pversion (rp_start a) = rs_pversion (rp_start d) /\ rs_code (rp_start a) = rs_code (rp_start d) /\
  reason_stripped (rs_reason (rp_start d)) (rs_reason (rp_start a)).
Proof.
  cbn zeta. unfold ref_response, ref_status_line.
  cbn [allow_multiple_spaces_in_response_status_delimiters config_default].
  set (ms := allow_multiple_spaces_in_response_status_delimiters cf).
  destruct (rbind (ref_empty_lines 0 buf) _) as [v o1 l1| |e1]; try discriminate.
  (* SP, then the code: with the option the SP may be a run, which a default-accepted buffer does not have *)
  destruct (ref_sp Version o1 l1) as [u o1' l1'| |e] eqn:Esp; cbn [rbind ref_spaces]; try discriminate.
  destruct (ref_code o1' l1') as [c o2 l2| |e2] eqn:Ec; try discriminate.
  destruct (ref_code_first _ _ _ _ _ Ec) as [b [r' [Hl Hb]]].
  rewrite (ref_spaces_noop o1' l1' b r' Hl Hb ms). cbn [rbind]. rewrite Ec.
  destruct (ref_after_code false o2 l2) as [r o3 l3| |e3] eqn:Ea; try discriminate.
  destruct (ref_after_code_cons ms _ _ _ _ _ Ea) as [s' [Ha Hrel]]. rewrite Ha.
  change (response_hcfg config_default) with hcfg_default.
  destruct (ref_headers hcfg_default cap o3 l3) as [s hs] eqn:Eh. cbn [rp_status]. intros ->.
  rewrite (ref_headers_cons (response_hcfg cf) _ _ _ _ _ Eh).
  cbn [rp_status rp_headers rp_start rs_pversion rs_code rs_reason]. repeat split. exact Hrel.
Qed.

(* ---- each kind of message reads only its own options ---- *)
Definition same_request_bits (a b : config) : Prop :=
  allow_multiple_spaces_in_request_line_delimiters a = allow_multiple_spaces_in_request_line_delimiters b /\
  allow_space_before_first_header_name_cfg a = allow_space_before_first_header_name_cfg b /\
  ignore_invalid_headers_in_requests a = ignore_invalid_headers_in_requests b.
Definition same_response_bits (a b : config) : Prop :=
  allow_multiple_spaces_in_response_status_delimiters a = allow_multiple_spaces_in_response_status_delimiters b /\
  allow_space_before_first_header_name_cfg a = allow_space_before_first_header_name_cfg b /\
  ignore_invalid_headers_in_responses a = ignore_invalid_headers_in_responses b /\
  allow_spaces_after_header_name_in_responses a = allow_spaces_after_header_name_in_responses b /\
  allow_obsolete_multiline_headers_in_responses a = allow_obsolete_multiline_headers_in_responses b.

Theorem request_ignores_response_options a b cap buf :
  same_request_bits a b -> ref_request a cap buf = ref_request b cap buf.
Proof. intros (H1 & H2 & H3). unfold ref_request, request_hcfg. rewrite H1, H2, H3. reflexivity. Qed.
Theorem response_ignores_request_options a b cap buf :
  same_response_bits a b -> ref_response a cap buf = ref_response b cap buf.
Proof. intros (H1 & H2 & H3 & H4 & H5). unfold ref_response, response_hcfg. rewrite H1, H2, H3, H4, H5. reflexivity. Qed.
