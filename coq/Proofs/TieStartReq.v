(* TieStartReq.v -- parse_token, parse_method, parse_uri as translated on this run = Model.v *)
From Coq Require Import List NArith Bool Lia ZifyBool ZifyN.
From HV Require Import Cursor Scan Model Imp ImpLib.
From HV.Generated Require Import Lib.
From HV.Proofs Require Import TieBase.
Import ListNotations.
Local Open Scope N_scope.


Section WithEnv.
Variable E : env.

Lemma tie_parse_token fuel c : g_parse_token E fuel c = parse_token E fuel c.
Proof.
  unfold g_parse_token, g_parse_token_body, parse_token, g_parse_token_init.
  grab_loop B.
  assert (HL : forall f c, to_out (A:=unit) (iloop f 1 B tt c) = parse_token_f E f c).
  { clear c. induction f as [|f IH]; intros [p t r]; [reflexivity|].
    cbn [parse_token_f iloop]. unfold B at 1. imp_unfold. cbn [rest pre tokrev].
    destruct r as [|b r]; [reflexivity|]. cbn [rest pre tokrev].
    unfold is, SP. destruct (N.eqb b 32).
    - cbn [drop]. reflexivity.
    - destruct (c_method E b); cbn [negb]; [apply IH|reflexivity]. }
  destruct c as [p t r].
  imp_unfold. cbn [rest pre tokrev].
  destruct r as [|b r]; [reflexivity|]. cbn [rest pre tokrev].
  destruct (c_method E b); cbn [negb]; [|reflexivity].
  specialize (HL fuel (mkcur p (b :: t) r)). unfold to_out in HL.
  destruct (iloop _ _ _ _ _) as [a l' c'|l'|e l'|f0 l'|x l' c']; try exact HL.
  destruct x; exact HL.
Qed.

Lemma tie_parse_method fuel c : g_parse_method E fuel c = parse_method E fuel c.
Proof.
  unfold g_parse_method, g_parse_method_body, parse_method, g_parse_method_init, GET_, POST.
  pose proof (tie_parse_token fuel) as HT.
  destruct c as [p t r]. imp_unfold.
  assert (HTk' : True) by exact Logic.I.
  destruct (take 4 r) as [four|] eqn:H4; [|(rewrite HT; destruct (parse_token E fuel _); reflexivity)].
  destruct (list_eqb four _).
  - destruct (shift 4 t r) as [[tk r']|]; [|reflexivity]. imp_unfold.
    destruct (drop 1 tk); reflexivity.
  - destruct (list_eqb four _); [|(rewrite HT; destruct (parse_token E fuel _); reflexivity)].
    destruct (drop 4 r) as [r4|]; [|reflexivity].
    unfold opt_is, is, SP. destruct (hd_error r4) as [b|]; [|(rewrite HT; destruct (parse_token E fuel _); reflexivity)].
    destruct (N.eqb b 32); [|(rewrite HT; destruct (parse_token E fuel _); reflexivity)].
    destruct (shift 5 t r) as [[tk r']|]; [|reflexivity]. imp_unfold.
    destruct (drop 1 tk); reflexivity.
Qed.

Lemma tie_parse_uri fuel c : g_parse_uri E fuel c = parse_uri E fuel c.
Proof.
  unfold g_parse_uri, g_parse_uri_body, parse_uri, g_parse_uri_init, from_utf8.
  imp_unfold.
  destruct (s_uri E fuel c) as [[] c1| | |]; try reflexivity.
  destruct c1 as [p t r]. imp_unfold.
  destruct r as [|b r]; [reflexivity|]. imp_unfold.
  unfold is, SP. destruct (N.eqb b 32); [|reflexivity].
  destruct (Nat.eqb _ _); [reflexivity|].
  cbn [drop]. destruct (utf8_valid _); reflexivity.
Qed.

End WithEnv.
