(* TieSwarFns.v -- the three first-index helpers of /repo/src/simd/swar.rs as translated on this run
   (Generated/SwarFns.v: match_tail, match_block, offsetnz; statement by statement, `for` loop included) are the
   functions every call of them is read as: Scan.first_bad for the two naive matchers, Intrinsics.offsetnz for
   the word scan -- and none of them reaches its `unreachable!()`. *)
From Coq Require Import List NArith Bool Lia Arith.
From HV Require Import Intrinsics Scan.
From HV.Generated Require Import SwarFns.
Import ListNotations.

Lemma for_enum_first : forall (p : N -> bool) (body : nat -> N -> option nat),
  (forall i b, body i b = if p b then None else Some i) ->
  forall l k, for_enum body k l = if Nat.ltb (first_bad p l) (length l) then Some (k + first_bad p l) else None.
Proof.
  intros p body Hb. induction l as [|b r IH]; intros k; cbn [for_enum first_bad length]; [reflexivity|].
  rewrite Hb. destruct (p b).
  - rewrite IH. change (Nat.ltb (S (first_bad p r)) (S (length r))) with (Nat.ltb (first_bad p r) (length r)).
    destruct (Nat.ltb (first_bad p r) (length r)); [f_equal; lia|reflexivity].
  - cbn. f_equal. lia.
Qed.
Lemma first_bad_le : forall p l, first_bad p l <= length l.
Proof. induction l as [|b r IH]; cbn [first_bad length]; [lia|]. destruct (p b); lia. Qed.
Lemma first_bad_all : forall p l, forallb p l = true -> first_bad p l = length l.
Proof.
  induction l as [|b r IH]; cbn [first_bad length forallb]; [reflexivity|]. destruct (p b); cbn [andb]; [|discriminate].
  intros H. rewrite IH by exact H. reflexivity.
Qed.
Lemma first_bad_some : forall p l, forallb p l = false -> first_bad p l < length l.
Proof.
  induction l as [|b r IH]; cbn [first_bad length forallb]; [discriminate|]. destruct (p b); cbn [andb]; [|lia].
  intros H. specialize (IH H). lia.
Qed.
Lemma first_nonzero_first_bad : forall l, first_nonzero l = first_bad (fun b => N.eqb b 0) l.
Proof. induction l as [|b r IH]; cbn [first_nonzero first_bad]; [reflexivity|]. rewrite IH. reflexivity. Qed.

Ltac body_is p :=
  rewrite (for_enum_first p) by (intros ? b0; cbv beta; destruct (p b0); reflexivity).

(* match_tail(f, bytes) = the first index whose byte fails f, else bytes.len() *)
Theorem tie_match_tail : forall W f l, g_match_tail W f l = Some (first_bad f l).
Proof.
  intros W f l. unfold g_match_tail. body_is f.
  destruct (Nat.ltb (first_bad f l) (length l)) eqn:E; [reflexivity|].
  apply Nat.ltb_ge in E. pose proof (first_bad_le f l). f_equal. lia.
Qed.
(* match_block(f, block) over a BLOCK_SIZE-byte block *)
Theorem tie_match_block : forall W f l, length l = W -> g_match_block W f l = Some (first_bad f l).
Proof.
  intros W f l HW. unfold g_match_block. body_is f.
  destruct (Nat.ltb (first_bad f l) (length l)) eqn:E; [reflexivity|].
  apply Nat.ltb_ge in E. pose proof (first_bad_le f l). f_equal. lia.
Qed.
(* offsetnz(word): BLOCK_SIZE for the zero word, else the index of its first non-zero byte; `unreachable!()` is
   never reached *)
Theorem tie_offsetnz : forall W l, g_offsetnz W l = Some (offsetnz W l).
Proof.
  intros W l. unfold g_offsetnz, offsetnz.
  destruct (forallb (fun x => N.eqb x 0) l) eqn:E; [reflexivity|].
  body_is (fun b => N.eqb b 0). rewrite first_nonzero_first_bad.
  pose proof (first_bad_some _ _ E) as H. apply Nat.ltb_lt in H. rewrite H. reflexivity.
Qed.
