(* Proofs/Work.v -- linear work (C20) for the cost copies: every stage function, every scanner
   loop and the call sequences of CostTop.v spend a number of ticks that is bounded by a constant
   times the number of bytes they move the cursor over, plus a constant.

   Potential method.  For a weight a, Phi a c = ticks c + a * |rest c|.  [lin a b k m] says that
   running m from any cursor c
     - ends (Done) in a cursor c' with  Phi a c' <= Phi a c + b        (b may be negative), or
     - stops (Partial / Err) having spent  ticks <= Phi a c + k.
   Consuming a byte releases a units of potential, so a loop whose every iteration consumes at
   least one byte and spends at most a ticks has a bound that does not depend on its fuel. *)
From Coq Require Import List NArith ZArith Lia Bool.
From HV Require Import CursorC CostTop.
From HV.Generated Require Import Cfg CScan CModel CBackends.
Import ListNotations.
Local Open Scope Z_scope.

Definition Phi (a : Z) (c : cur) : Z :=
  Z.of_nat (ticks c) + a * Z.of_nat (length (rest c)) + Z.of_nat (length (tokrev c)).

(* cr: credit handed out with the result (the length of a returned slice: the bytes of the token
   since the last commit are still "paid for" and pay for one later backward pass over them) *)
Definition linc (a b k : Z) {A} (cr : A -> Z) (m : P A) : Prop :=
  forall c, match m c with
            | Done x c' => Phi a c' + cr x <= Phi a c + b
            | Part tk _ => Z.of_nat tk <= Phi a c + k
            | Fail _ tk _ => Z.of_nat tk <= Phi a c + k
            | Fault _ => True
            end.
Definition lin (a b k : Z) {A} (m : P A) : Prop := linc a b k (fun _ : A => 0) m.

Definition sl_len (s : sl) : Z := Z.of_nat (length (sl_bytes s)).

Section Lin.
Variable a : Z.
Hypothesis a_pos : 0 <= a.

Lemma Phi_ticks c : Z.of_nat (ticks c) <= Phi a c.
Proof. unfold Phi. nia. Qed.

Lemma linc_weaken {A} b k b' k' (cr : A -> Z) (m : P A) : linc a b k cr m -> b <= b' -> k <= k' -> linc a b' k' cr m.
Proof. intros H Hb Hk c. specialize (H c). destruct (m c); lia. Qed.
Lemma lin_weaken {A} b k b' k' (m : P A) : lin a b k m -> b <= b' -> k <= k' -> lin a b' k' m.
Proof. apply linc_weaken. Qed.
Lemma linc_drop {A} b k (cr : A -> Z) (m : P A) : (forall x, 0 <= cr x) -> linc a b k cr m -> lin a b k m.
Proof. intros Hc H c. specialize (H c). destruct (m c) as [x c'| | |]; auto. specialize (Hc x). lia. Qed.

Lemma lin_ret {A} (x : A) : lin a 0 0 (ret x).
Proof. intros c. cbn. lia. Qed.
Lemma linc_ret {A} (cr : A -> Z) (x : A) : linc a (cr x) 0 cr (ret x).
Proof. intros c. cbn. lia. Qed.
Lemma lin_fail {A} e : lin a 0 0 (@fail A e).
Proof. intros c. cbn. pose proof (Phi_ticks c). lia. Qed.
Lemma lin_part {A} : lin a 0 0 (@part A).
Proof. intros c. cbn. pose proof (Phi_ticks c). lia. Qed.
Lemma lin_fault {A} f b k : lin a b k (@fault_ A f).
Proof. intros c. exact I. Qed.
Lemma linc_fault {A} f b k (cr : A -> Z) : linc a b k cr (@fault_ A f).
Proof. intros c. exact I. Qed.
Lemma linc_fail {A} e (cr : A -> Z) : linc a 0 0 cr (@fail A e).
Proof. intros c. cbn. pose proof (Phi_ticks c). lia. Qed.
Lemma lin_pos : lin a 0 0 pos.
Proof. intros c. cbn. lia. Qed.
Lemma lin_tick n : lin a (Z.of_nat n) 0 (tick n).
Proof. intros c. unfold tick, Phi. cbn [ticks rest tokrev]. lia. Qed.
Lemma lin_peek : lin a 1 0 peek.
Proof. intros c. unfold peek, tk1, Phi. cbn [ticks rest tokrev]. lia. Qed.
Lemma lin_peek_n n : lin a 1 0 (peek_n n).
Proof. intros c. unfold peek_n, tk1, Phi. cbn [ticks rest tokrev]. lia. Qed.
Lemma lin_peek_ahead n : lin a 1 0 (peek_ahead n).
Proof. intros c. unfold peek_ahead. destruct (drop n (rest c)); [|exact I]. unfold tk1, Phi. cbn [ticks rest tokrev]. lia. Qed.

Lemma rev'_length (l : list N) : length (rev' l) = length l.
Proof. unfold rev'. rewrite <- rev_alt. apply rev_length. Qed.
Lemma drop_length : forall n (l t : list N), drop n l = Some t -> (length t <= length l)%nat.
Proof.
  induction n as [|n IH]; intros l t H; cbn [drop] in H; [injection H as ->; lia|].
  destruct l as [|x l']; [discriminate|]. apply IH in H. cbn [length]. lia.
Qed.
(* a slice hands the length of the token out as credit *)
Lemma linc_slice : linc a 1 0 sl_len slice.
Proof. intros c. unfold slice, commit, Phi, sl_len. cbn [ticks rest tokrev sl_bytes length]. rewrite rev'_length. lia. Qed.
Lemma linc_slice_skip n : linc a 1 0 sl_len (slice_skip n).
Proof.
  intros c. unfold slice_skip. destruct (drop n (tokrev c)) as [t|] eqn:E; [|exact I]. apply drop_length in E.
  unfold commit, Phi, sl_len. cbn [ticks rest tokrev sl_bytes length]. rewrite rev'_length. lia.
Qed.
Lemma sl_len_nonneg s : 0 <= sl_len s.
Proof. unfold sl_len. lia. Qed.
Lemma lin_slice : lin a 1 0 slice.
Proof. eapply linc_drop; [apply sl_len_nonneg|apply linc_slice]. Qed.
Lemma lin_slice_skip n : lin a 1 0 (slice_skip n).
Proof. eapply linc_drop; [apply sl_len_nonneg|apply linc_slice_skip]. Qed.
Lemma lin_remaining : lin a 0 0 remaining.
Proof. intros c. cbn. lia. Qed.
Lemma lin_next : lin a (2 - a) 1 next.
Proof.
  intros c. unfold next. destruct (rest c) as [|b r] eqn:E; unfold Phi; cbn [ticks rest tokrev]; rewrite ?E; cbn [length]; lia.
Qed.

Lemma shift_length : forall n tk l tk' r, shift n tk l = Some (tk', r) ->
  length l = (n + length r)%nat /\ length tk' = (n + length tk)%nat.
Proof.
  induction n as [|n IH]; intros tk l tk' r H; cbn [shift] in H.
  - injection H as <- <-. split; reflexivity.
  - destruct l as [|x l']; [discriminate|]. apply IH in H as [H1 H2]. cbn [length] in *. lia.
Qed.
Lemma lin_advance n : lin a (1 - (a - 1) * Z.of_nat n) 0 (advance n).
Proof.
  intros c. unfold advance. destruct (shift n (tokrev c) (rest c)) as [[tk r]|] eqn:E; [|exact I].
  apply shift_length in E as [E1 E2]. unfold Phi. cbn [ticks rest tokrev]. rewrite E1, E2. nia.
Qed.
Lemma lin_bump : lin a (2 - a) 0 bump.
Proof. eapply lin_weaken; [apply (lin_advance 1)|lia|lia]. Qed.

(* credit of the intermediate result may be passed on to the continuation *)
Lemma linc_bind_pass {A B} b1 k1 b2 k2 (cr1 : A -> Z) (cr2 : B -> Z) (m : P A) (f : A -> P B) :
  linc a b1 k1 cr1 m -> (forall x, 0 <= cr1 x) -> (forall x, linc a (b2 + cr1 x) (k2 + cr1 x) cr2 (f x)) ->
  linc a (b1 + b2) (Z.max k1 (b1 + k2)) cr2 (bind m f).
Proof.
  intros Hm Hc Hf c. unfold bind. specialize (Hm c). destruct (m c) as [x c'|tk tr|e tk tr|flt]; [|lia|lia|exact I].
  specialize (Hf x c'). specialize (Hc x). destruct (f x c'); lia.
Qed.
Lemma linc_bind {A B} b1 k1 b2 k2 (cr2 : B -> Z) (m : P A) (f : A -> P B) :
  lin a b1 k1 m -> (forall x, linc a b2 k2 cr2 (f x)) -> linc a (b1 + b2) (Z.max k1 (b1 + k2)) cr2 (bind m f).
Proof.
  intros Hm Hf. eapply linc_bind_pass; [exact Hm|intros; cbn; lia|]. intros x. cbn. rewrite !Z.add_0_r. apply Hf.
Qed.
Lemma lin_bind {A B} b1 k1 b2 k2 (m : P A) (f : A -> P B) :
  lin a b1 k1 m -> (forall x, lin a b2 k2 (f x)) -> lin a (b1 + b2) (Z.max k1 (b1 + k2)) (bind m f).
Proof. apply linc_bind. Qed.

Lemma linc_if {A} b1 k1 b2 k2 (cr : A -> Z) (x : bool) (t e : P A) :
  linc a b1 k1 cr t -> linc a b2 k2 cr e -> linc a (Z.max b1 b2) (Z.max k1 k2) cr (if x then t else e).
Proof. intros H1 H2. destruct x; eapply linc_weaken; eauto; lia. Qed.
Lemma lin_if {A} b1 k1 b2 k2 (x : bool) (t e : P A) :
  lin a b1 k1 t -> lin a b2 k2 e -> lin a (Z.max b1 b2) (Z.max k1 k2) (if x then t else e).
Proof. apply linc_if. Qed.

Lemma linc_opt {A B} b1 k1 b2 k2 (cr : B -> Z) (x : option A) (s : A -> P B) (n : P B) :
  (forall y, linc a b1 k1 cr (s y)) -> linc a b2 k2 cr n ->
  linc a (Z.max b1 b2) (Z.max k1 k2) cr (match x with Some y => s y | None => n end).
Proof. intros H1 H2. destruct x; eapply linc_weaken; eauto; lia. Qed.
Lemma lin_opt {A B} b1 k1 b2 k2 (x : option A) (s : A -> P B) (n : P B) :
  (forall y, lin a b1 k1 (s y)) -> lin a b2 k2 n ->
  lin a (Z.max b1 b2) (Z.max k1 k2) (match x with Some y => s y | None => n end).
Proof. apply linc_opt. Qed.

Lemma lin_expect p e : lin a (2 - a) 2 (expect p e).
Proof.
  unfold expect. eapply lin_weaken; [eapply lin_bind; [apply lin_next|intros b; apply lin_if; [apply lin_ret|apply lin_fail]]|lia|lia].
Qed.
End Lin.

Create HintDb lin.
(* one step of the syntax-directed bound computation *)
Ltac lstep :=
  lazymatch goal with
  | |- lin _ _ _ (bind _ _) => eapply lin_bind; [|intros ?]
  | |- lin _ _ _ (ret _) => apply lin_ret
  | |- lin _ _ _ (fail _) => apply lin_fail; assumption
  | |- lin _ _ _ part => apply lin_part; assumption
  | |- lin _ _ _ (fault_ _) => apply lin_fault
  | |- lin _ _ _ pos => apply lin_pos
  | |- lin _ _ _ peek => apply lin_peek
  | |- lin _ _ _ (peek_n _) => apply lin_peek_n
  | |- lin _ _ _ (peek_ahead _) => apply lin_peek_ahead
  | |- lin _ _ _ slice => apply lin_slice
  | |- lin _ _ _ (slice_skip _) => apply lin_slice_skip
  | |- lin _ _ _ next => apply lin_next
  | |- lin _ _ _ bump => apply lin_bump
  | |- lin _ _ _ (advance _) => apply lin_advance
  | |- lin _ _ _ (tick _) => apply lin_tick
  | |- lin _ _ _ (expect _ _) => apply lin_expect; assumption
  | |- lin _ _ _ (if _ then _ else _) => eapply lin_if
  | |- lin _ _ _ (match _ with Some _ => _ | None => _ end) => eapply lin_opt; [intros ?|]
  | |- lin _ _ _ _ => first [eassumption | solve [eauto 2 with lin nocore]]
  end.
Ltac lsteps := repeat lstep.
(* close a goal whose bound is given: compute the natural bound, then compare *)
Ltac lclose := eapply lin_weaken; [lsteps| |].

Section Stages.
Variable a : Z.
Hypothesis a_big : 16 <= a.
Let a_pos : 0 <= a. Proof. lia. Qed.

Lemma lin_space e : lin a (3 - a) 2 (space e).
Proof. unfold space. lclose; lia. Qed.
Lemma lin_newline : lin a 2 2 newline.
Proof. unfold newline. lclose; lia. Qed.

Lemma lin_skip_empty_lines_f : forall f, lin a 2 2 (skip_empty_lines_f f).
Proof.
  induction f as [|f IH]; cbn [skip_empty_lines_f]; [apply lin_fault|].
  eapply lin_weaken; [lsteps; try exact IH| |]; lia.
Qed.
Lemma lin_skip_spaces_f : forall f, lin a 2 2 (skip_spaces_f f).
Proof.
  induction f as [|f IH]; cbn [skip_spaces_f]; [apply lin_fault|].
  eapply lin_weaken; [lsteps; try exact IH| |]; lia.
Qed.

Hint Resolve lin_skip_empty_lines_f lin_skip_spaces_f lin_space lin_newline : lin.
End Stages.

(* what the parser needs to know about the three scanners *)
Definition env_lin (a : Z) (E : env) : Prop :=
  (forall f, lin a 8 8 (s_uri E f)) /\ (forall f, lin a 8 8 (s_value E f)) /\ (forall f, lin a 8 8 (s_name E f)).

Section StagesE.
Variable a : Z.
Hypothesis a_big : 32 <= a.
Let a_pos : 0 <= a. Proof. lia. Qed.
Variable E : env.
Hypothesis HE : env_lin a E.
Variable fuel : nat.
Let Huri := proj1 HE fuel.
Let Hval := proj1 (proj2 HE) fuel.
Let Hname := proj2 (proj2 HE) fuel.

Lemma lin_skip_empty_lines : lin a 2 2 (skip_empty_lines fuel).
Proof. apply lin_skip_empty_lines_f; lia. Qed.
Lemma lin_skip_spaces : lin a 2 2 (skip_spaces fuel).
Proof. apply lin_skip_spaces_f; lia. Qed.

Lemma lin_parse_version : lin a 2 4 parse_version.
Proof. unfold parse_version. lclose; lia. Qed.

Lemma lin_parse_token_f : forall f, lin a 3 3 (parse_token_f E f).
Proof.
  induction f as [|f IH]; cbn [parse_token_f]; [apply lin_fault|].
  eapply lin_weaken; [lsteps; try exact IH| |]; lia.
Qed.
Lemma lin_parse_token : lin a 3 3 (parse_token E fuel).
Proof. unfold parse_token. pose proof (lin_parse_token_f fuel). lclose; lia. Qed.
Lemma lin_parse_method : lin a 5 5 (parse_method E fuel).
Proof. unfold parse_method. pose proof lin_parse_token. lclose; lia. Qed.
Lemma lin_parse_uri : lin a 12 12 (parse_uri E fuel).
Proof. unfold parse_uri. lclose; lia. Qed.
Lemma lin_parse_code : lin a 0 4 parse_code.
Proof. unfold parse_code. lclose; lia. Qed.
Lemma lin_parse_reason_f : forall f o, lin a 4 4 (parse_reason_f f o).
Proof.
  induction f as [|f IH]; intros o; cbn [parse_reason_f]; [apply lin_fault|].
  eapply lin_weaken; [lsteps; try apply IH| |]; lia.
Qed.
Lemma lin_parse_reason : lin a 4 4 (parse_reason fuel).
Proof. apply lin_parse_reason_f. Qed.

(* ---- header lines ---- *)
Variable hc : hcfg.

Lemma lin_skip_invalid_line : forall f b e, lin a 2 2 (skip_invalid_line f b e).
Proof.
  induction f as [|f IH]; intros b e; cbn [skip_invalid_line]; [apply lin_fault|].
  eapply lin_weaken; [lsteps; try apply IH| |]; lia.
Qed.
Lemma lin_handle_invalid b e : lin a 3 3 (handle_invalid fuel hc b e).
Proof. unfold handle_invalid. pose proof (lin_skip_invalid_line fuel b e). lclose; lia. Qed.
Lemma lin_skip_ws_peek : forall f, lin a 1 2 (skip_ws_peek f).
Proof.
  induction f as [|f IH]; cbn [skip_ws_peek]; [apply lin_fault|].
  eapply lin_weaken; [lsteps; try exact IH| |]; lia.
Qed.
Lemma lin_after_name_ws : forall f b, lin a 1 1 (after_name_ws f b).
Proof.
  induction f as [|f IH]; intros b; cbn [after_name_ws]; [apply lin_fault|].
  eapply lin_weaken; [lsteps; try apply IH| |]; lia.
Qed.
Lemma lin_fold_check : lin a 1 1 (fold_check hc).
Proof. unfold fold_check. lclose; lia. Qed.

Definition vres_cr (v : vres) : Z := match v with VValue s => sl_len s | VDropped => 0 end.
Definition hstep_cr (h : hstep) : Z := match h with HHeader _ v => sl_len v | _ => 0 end.
Lemma vres_cr_nonneg v : 0 <= vres_cr v.
Proof. destruct v; cbn; [lia|apply sl_len_nonneg]. Qed.
Lemma hstep_cr_nonneg h : 0 <= hstep_cr h.
Proof. destruct h; cbn; try lia. apply sl_len_nonneg. Qed.

(* `v <- slice_skip n ;; ret (VValue v)`: the credit of the slice goes out with the value *)
Lemma linc_value_slice n : linc a 1 1 vres_cr (v <- slice_skip n ;; ret (VValue v)).
Proof.
  eapply linc_weaken.
  - eapply linc_bind_pass with (cr1 := sl_len) (b2 := 0) (k2 := 0).
    + apply linc_slice_skip.
    + apply sl_len_nonneg.
    + intros x. pose proof (sl_len_nonneg x). eapply linc_weaken; [apply (linc_ret a vres_cr (VValue x))| |]; cbn; lia.
  - lia.
  - lia.
Qed.

Lemma linc_value_lines : forall f, linc a 4 12 vres_cr (value_lines E fuel hc f).
Proof.
  induction f as [|f IH]; cbn [value_lines]; [apply linc_fault|].
  assert (Hfold : forall n, linc a 5 13 vres_cr (c <- fold_check hc ;; if c then value_lines E fuel hc f else v <- slice_skip n ;; ret (VValue v))).
  { intros n. eapply linc_weaken; [eapply linc_bind; [apply lin_fold_check|intros c; eapply linc_if; [exact IH|apply linc_value_slice]]| |]; lia. }
  eapply linc_weaken.
  - eapply linc_bind; [exact Hval|intros _].
    eapply linc_bind; [apply lin_next|intros b].
    eapply linc_if; [eapply linc_bind; [apply lin_expect; exact a_pos|intros _; apply Hfold]|].
    eapply linc_if; [apply Hfold|].
    eapply linc_bind; [apply lin_handle_invalid|intros _]. apply (linc_ret a vres_cr VDropped).
  - cbn [vres_cr]. lia.
  - cbn [vres_cr]. lia.
Qed.

Lemma linc_empty_value : linc a 1 0 vres_cr (fun c0 => Done (VValue (Sub (pre c0) [])) (commit c0)).
Proof. intros c. unfold commit, Phi, vres_cr, sl_len. cbn [ticks rest tokrev sl_bytes length]. lia. Qed.

Lemma linc_ws_after_colon : forall f, linc a 4 12 vres_cr (ws_after_colon E fuel hc f).
Proof.
  induction f as [|f IH]; cbn [ws_after_colon]; [apply linc_fault|].
  assert (Hfold : linc a 5 13 vres_cr (c <- fold_check hc ;; if c then ws_after_colon E fuel hc f else fun c0 => Done (VValue (Sub (pre c0) [])) (commit c0))).
  { eapply linc_weaken; [eapply linc_bind; [apply lin_fold_check|intros c; eapply linc_if; [exact IH|apply linc_empty_value]]| |]; lia. }
  eapply linc_weaken.
  - eapply linc_bind; [apply lin_next|intros b].
    eapply linc_if; [eapply linc_bind; [apply lin_slice; exact a_pos|intros _; exact IH]|].
    eapply linc_if; [apply linc_value_lines|].
    eapply linc_if; [eapply linc_bind; [apply lin_expect; exact a_pos|intros _; apply Hfold]|].
    eapply linc_if; [apply Hfold|].
    eapply linc_bind; [apply lin_handle_invalid|intros _]. apply (linc_ret a vres_cr VDropped).
  - cbn [vres_cr]. lia.
  - cbn [vres_cr]. lia.
Qed.

Lemma linc_header_line first : linc a (24 - a) 32 hstep_cr (header_line E fuel hc first).
Proof.
  unfold header_line.
  eapply linc_weaken.
  - eapply linc_bind; [apply lin_next|intros b].
    eapply linc_if; [eapply linc_bind; [apply lin_expect; exact a_pos|intros _; apply (linc_ret a hstep_cr HEnd)]|].
    eapply linc_if; [apply (linc_ret a hstep_cr HEnd)|].
    eapply linc_if.
    + eapply linc_if.
      * eapply linc_bind; [apply lin_skip_ws_peek|intros _]. eapply linc_bind; [apply lin_slice; exact a_pos|intros _]. apply (linc_ret a hstep_cr HContinue).
      * eapply linc_bind; [apply lin_handle_invalid|intros _]. apply (linc_ret a hstep_cr HContinue).
    + eapply linc_bind; [exact Hname|intros _].
      eapply linc_bind; [apply lin_next|intros b2].
      eapply linc_bind; [apply lin_slice_skip; exact a_pos|intros name].
      eapply linc_bind.
      { eapply lin_if; [apply lin_ret|eapply lin_if; [apply lin_after_name_ws|apply lin_ret]]. }
      intros colon. eapply linc_opt; [intros bad|].
      * eapply linc_bind; [apply lin_handle_invalid|intros _]. apply (linc_ret a hstep_cr HContinue).
      * eapply linc_bind_pass with (cr1 := vres_cr) (b2 := 0) (k2 := 0); [apply linc_ws_after_colon|apply vres_cr_nonneg|].
        intros v. destruct v as [|v]; [eapply linc_weaken; [apply (linc_ret a hstep_cr HContinue)| |]; cbn; lia|].
        pose proof (sl_len_nonneg v). eapply linc_weaken; [apply (linc_ret a hstep_cr (HHeader name v))| |]; cbn; lia.
  - cbn [hstep_cr]. lia.
  - cbn [hstep_cr]. lia.
Qed.

Lemma trim_cost_le v : Z.of_nat (trim_cost v) <= 1 + sl_len v.
Proof. unfold trim_cost, sl_len. lia. Qed.

Lemma lin_headers_prog cap : forall f nh, lin a 0 34 (headers_prog E fuel f hc cap nh).
Proof.
  induction f as [|f IH]; intros nh; cbn [headers_prog]; [apply lin_fault|].
  eapply lin_weaken.
  - eapply linc_bind_pass with (cr1 := hstep_cr) (b2 := 1) (k2 := 35); [apply linc_header_line|apply hstep_cr_nonneg|].
    intros h. destruct h as [| |name value]; cbn [hstep_cr].
    + eapply lin_weaken; [apply lin_ret| |]; lia.
    + eapply lin_weaken; [apply IH| |]; lia.
    + pose proof (trim_cost_le value). pose proof (sl_len_nonneg value).
      eapply lin_weaken; [eapply lin_if; [eapply lin_bind; [apply lin_tick|intros _; apply IH]|apply lin_fail; exact a_pos]| |]; lia.
  - lia.
  - lia.
Qed.

(* ---- the call sequences ---- *)
Lemma lin_opt_spaces ms : lin a 2 2 (opt_spaces fuel ms).
Proof. unfold opt_spaces. pose proof lin_skip_spaces. lclose; lia. Qed.

Lemma lin_request_prog ms cap : lin a 40 80 (request_prog E fuel ms hc cap).
Proof.
  unfold request_prog.
  pose proof lin_skip_empty_lines. pose proof lin_parse_method. pose proof (lin_opt_spaces ms). pose proof lin_parse_uri.
  pose proof lin_parse_version. pose proof (lin_newline a ltac:(lia)). pose proof (lin_headers_prog cap fuel 0).
  lclose; lia.
Qed.

Lemma lin_after_code ms : lin a 8 8 (after_code fuel ms).
Proof. unfold after_code. pose proof (lin_opt_spaces ms). pose proof lin_parse_reason. lclose; lia. Qed.

Lemma lin_response_prog ms cap : lin a 40 80 (response_prog E fuel ms hc cap).
Proof.
  unfold response_prog.
  pose proof lin_skip_empty_lines. pose proof lin_parse_version. pose proof (lin_space a ltac:(lia) Version). pose proof (lin_opt_spaces ms).
  pose proof lin_parse_code. pose proof (lin_after_code ms). pose proof (lin_headers_prog cap fuel 0).
  lclose; lia.
Qed.
End StagesE.

(* ================= the scanner loops ================= *)
Section Scanners.
Variable a : Z.
Hypothesis a_big : 32 <= a.
Let a_pos : 0 <= a. Proof. lia. Qed.

Lemma lin_swar_loop W kernel class : (1 <= W)%nat -> forall f, lin a 3 3 (swar_loop f W kernel class).
Proof.
  intros HW. induction f as [|f IH]; cbn [swar_loop]; [apply lin_fault|].
  assert (Htail : lin a 1 1 (pk <- peek ;; match pk with
                                          | Some b => if class b then advance 1 ;;; swar_loop f W kernel class else ret tt
                                          | None => ret tt end)).
  { eapply lin_weaken; [lsteps; try exact IH| |]; lia. }
  assert (Hblk : forall b8, lin a 2 2 (advance (kernel b8) ;;;
            if Nat.eqb (kernel b8) W then swar_loop f W kernel class
            else pk <- peek ;; match pk with
                               | Some b => if class b then advance 1 ;;; swar_loop f W kernel class else ret tt
                               | None => ret tt end)).
  { intros b8. destruct (Nat.eqb (kernel b8) W) eqn:En.
    - apply Nat.eqb_eq in En. eapply lin_weaken; [eapply lin_bind; [apply lin_advance; exact a_pos|intros _; exact IH]| |]; nia.
    - eapply lin_weaken; [eapply lin_bind; [apply lin_advance; exact a_pos|intros _; exact Htail]| |]; nia. }
  eapply lin_weaken; [eapply lin_bind; [apply lin_peek_n|intros blk; eapply lin_opt; [intros b8; apply Hblk|exact Htail]]| |]; lia.
Qed.

Lemma lin_advance_rest class : lin a 1 0 (fun c => advance (first_bad class (rest c)) c).
Proof.
  intros c. pose proof (lin_advance a (first_bad class (rest c)) c) as H.
  destruct (advance (first_bad class (rest c)) c); auto. nia.
Qed.

Lemma lin_swar_name_loop W class : (1 <= W)%nat -> forall f, lin a 2 2 (swar_name_loop f W class).
Proof.
  intros HW. induction f as [|f IH]; cbn [swar_name_loop]; [apply lin_fault|].
  assert (Hblk : forall block, lin a 1 1 (advance (first_bad class block) ;;;
            if Nat.eqb (first_bad class block) W then swar_name_loop f W class else ret tt)).
  { intros block. destruct (Nat.eqb (first_bad class block) W) eqn:En.
    - apply Nat.eqb_eq in En. eapply lin_weaken; [eapply lin_bind; [apply lin_advance; exact a_pos|intros _; exact IH]| |]; nia.
    - eapply lin_weaken; [eapply lin_bind; [apply lin_advance; exact a_pos|intros _; apply lin_ret]| |]; nia. }
  eapply lin_weaken; [eapply lin_bind; [apply lin_peek_n|intros blk; eapply lin_opt; [intros block; apply Hblk|apply lin_advance_rest]]| |]; lia.
Qed.

Lemma lin_simd_loop G K R kernel fallback : (1 <= R)%nat -> lin a 3 3 fallback ->
  forall f, lin a 4 4 (simd_loop f G K R kernel fallback).
Proof.
  intros HR Hfb. induction f as [|f IH]; cbn [simd_loop]; [apply lin_fault|].
  assert (Hblk : forall block, lin a 1 1 (advance (kernel block) ;;;
            if Nat.eqb (kernel block) R then simd_loop f G K R kernel fallback else ret tt)).
  { intros block. destruct (Nat.eqb (kernel block) R) eqn:En.
    - apply Nat.eqb_eq in En. eapply lin_weaken; [eapply lin_bind; [apply lin_advance; exact a_pos|intros _; exact IH]| |]; nia.
    - eapply lin_weaken; [eapply lin_bind; [apply lin_advance; exact a_pos|intros _; apply lin_ret]| |]; nia. }
  eapply lin_weaken; [eapply lin_bind; [apply lin_peek_n|intros g; eapply lin_opt; [intros _; eapply lin_bind; [apply lin_peek_n|intros blk; eapply lin_opt; [intros block; apply Hblk|apply (lin_fault a LoadOOB 0 0)]]|exact Hfb]]| |]; lia.
Qed.

(* every provider of the three scanner entry points *)
Theorem env_of_lin W b : (1 <= W)%nat -> env_lin a (env_of W b).
Proof.
  intros HW.
  assert (Hu : forall f, lin a 3 3 (swar_uri W f)) by (intros f; apply lin_swar_loop; exact HW).
  assert (Hv : forall f, lin a 3 3 (swar_value W f)) by (intros f; apply lin_swar_loop; exact HW).
  assert (Hn : forall f, lin a 3 3 (swar_name W f)).
  { intros f. eapply lin_weaken; [apply lin_swar_name_loop; exact HW| |]; lia. }
  assert (W8 : forall {A} (m : P A), lin a 3 3 m -> lin a 8 8 m) by (intros A m H; eapply lin_weaken; [exact H| |]; lia).
  assert (S8 : forall {A} (m : P A), lin a 4 4 m -> lin a 8 8 m) by (intros A m H; eapply lin_weaken; [exact H| |]; lia).
  assert (Hswar : env_lin a (env_swar W)).
  { repeat split; intros f; cbn; apply W8; auto. }
  assert (Hsse : env_lin a (env_sse42 W)).
  { repeat split; intros f; cbn; [apply S8; apply lin_simd_loop; [lia|apply Hu]|apply S8; apply lin_simd_loop; [lia|apply Hv]|apply W8; apply Hn]. }
  assert (Havx : env_lin a (env_avx2 W)).
  { repeat split; intros f; cbn; [apply S8; apply lin_simd_loop; [lia|apply Hu]|apply S8; apply lin_simd_loop; [lia|apply Hv]|apply W8; apply Hn]. }
  destruct b as [| | | |id]; cbn [env_of]; auto.
  - repeat split; intros f; cbn; apply S8; apply lin_simd_loop; try lia; auto.
  - unfold env_runtime. destruct (N.eqb id RT_AVX2); [exact Havx|]. destruct (N.eqb id RT_SSE42); [exact Hsse|exact Hswar].
Qed.
End Scanners.

(* ================= chunk sizes ================= *)
Section ChunkWork.
Variable a : Z.
Hypothesis a_big : 32 <= a.
Let a_pos : 0 <= a. Proof. lia. Qed.

Lemma lin_chunk_loop dbg : forall f size ics iext count, lin a 4 4 (chunk_loop dbg f size ics iext count).
Proof.
  induction f as [|f IH]; intros size ics iext count; cbn [chunk_loop]; [apply lin_fault|].
  assert (Hd : forall d, lin a 4 4 (match chunk_digit dbg count size d with
                                   | inl (Some (cnt, sz)) => chunk_loop dbg f sz ics iext cnt
                                   | inl None => fail InvalidChunkSize
                                   | inr flt => fault_ flt end)).
  { intros d. destruct (chunk_digit dbg count size d) as [[[cnt sz]|]|flt]; [apply IH| |apply lin_fault].
    eapply lin_weaken; [apply lin_fail; exact a_pos| |]; lia. }
  eapply lin_weaken; [lsteps; try apply Hd; try apply IH| |]; lia.
Qed.
End ChunkWork.

(* ================= travel: the cursor only moves forward, over each byte once ================= *)
Local Open Scope nat_scope.
Definition bud (c : cur) : nat := travel c + length (rest c).
Definition cons {A} (m : P A) : Prop :=
  forall c, match m c with
            | Done _ c' => bud c' = bud c
            | Part _ tr => tr <= bud c
            | Fail _ _ tr => tr <= bud c
            | Fault _ => True
            end.

Lemma cons_ret {A} (x : A) : cons (ret x). Proof. intros c. reflexivity. Qed.
Lemma cons_fail {A} e : cons (@fail A e). Proof. intros c. unfold bud. cbn. lia. Qed.
Lemma cons_part {A} : cons (@part A). Proof. intros c. unfold bud. cbn. lia. Qed.
Lemma cons_fault {A} f : cons (@fault_ A f). Proof. intros c. exact I. Qed.
Lemma cons_pos : cons pos. Proof. intros c. reflexivity. Qed.
Lemma cons_tick n : cons (tick n). Proof. intros c. reflexivity. Qed.
Lemma cons_peek : cons peek. Proof. intros c. reflexivity. Qed.
Lemma cons_peek_n n : cons (peek_n n). Proof. intros c. reflexivity. Qed.
Lemma cons_peek_ahead n : cons (peek_ahead n).
Proof. intros c. unfold peek_ahead. destruct (drop n (rest c)); [reflexivity|exact I]. Qed.
Lemma cons_slice : cons slice. Proof. intros c. reflexivity. Qed.
Lemma cons_slice_skip n : cons (slice_skip n).
Proof. intros c. unfold slice_skip. destruct (drop n (tokrev c)); [reflexivity|exact I]. Qed.
Lemma cons_remaining : cons remaining. Proof. intros c. reflexivity. Qed.
Lemma cons_next : cons next.
Proof. intros c. unfold next, bud. destruct (rest c) as [|b r] eqn:E; cbn [travel rest]; rewrite ?E; cbn [length]; lia. Qed.
Lemma cons_advance n : cons (advance n).
Proof.
  intros c. unfold advance. destruct (shift n (tokrev c) (rest c)) as [[tk r]|] eqn:E; [|exact I].
  apply shift_length in E as [E1 _]. unfold bud. cbn [travel rest]. lia.
Qed.
Lemma cons_commit_ret {A} (g : cur -> A) : cons (fun c0 => Done (g c0) (commit c0)).
Proof. intros c. reflexivity. Qed.
Lemma cons_bind {A B} (m : P A) (f : A -> P B) : cons m -> (forall x, cons (f x)) -> cons (bind m f).
Proof.
  intros Hm Hf c. unfold bind. specialize (Hm c). destruct (m c) as [x c'|tk tr|e tk tr|flt]; auto.
  specialize (Hf x c'). destruct (f x c'); lia.
Qed.
Lemma cons_expect p e : cons (expect p e).
Proof. unfold expect. apply cons_bind; [apply cons_next|intros b; destruct (p b); [apply cons_ret|apply cons_fail]]. Qed.

Create HintDb cons.
Ltac cstep :=
  lazymatch goal with
  | |- cons (bind _ _) => apply cons_bind; [|intros ?]
  | |- cons (ret _) => apply cons_ret
  | |- cons (fail _) => apply cons_fail
  | |- cons part => apply cons_part
  | |- cons (fault_ _) => apply cons_fault
  | |- cons pos => apply cons_pos
  | |- cons peek => apply cons_peek
  | |- cons (peek_n _) => apply cons_peek_n
  | |- cons (peek_ahead _) => apply cons_peek_ahead
  | |- cons slice => apply cons_slice
  | |- cons (slice_skip _) => apply cons_slice_skip
  | |- cons next => apply cons_next
  | |- cons bump => apply cons_advance
  | |- cons (advance _) => apply cons_advance
  | |- cons (tick _) => apply cons_tick
  | |- cons (expect _ _) => apply cons_expect
  | |- cons (fun c0 => Done _ (commit c0)) => apply (cons_commit_ret (fun c0 => _))
  | |- cons (if ?x then _ else _) => destruct x
  | |- cons (match ?x with _ => _ end) => destruct x
  | |- cons _ => first [assumption | solve [auto with cons nocore]]
  end.
Ltac csteps := repeat cstep.

Definition env_cons (E : env) : Prop :=
  (forall f, cons (s_uri E f)) /\ (forall f, cons (s_value E f)) /\ (forall f, cons (s_name E f)).

Section ConsStages.
Variable E : env.
Hypothesis HE : env_cons E.
Variable fuel : nat.
Let Huri := proj1 HE fuel.
Let Hval := proj1 (proj2 HE) fuel.
Let Hname := proj2 (proj2 HE) fuel.
Variable hc : hcfg.

Lemma cons_space e : cons (space e). Proof. unfold space. csteps. Qed.
Lemma cons_newline : cons newline. Proof. unfold newline. csteps. Qed.
Lemma cons_skip_empty_lines_f : forall f, cons (skip_empty_lines_f f).
Proof. induction f as [|f IH]; cbn [skip_empty_lines_f]; csteps. Qed.
Lemma cons_skip_spaces_f : forall f, cons (skip_spaces_f f).
Proof. induction f as [|f IH]; cbn [skip_spaces_f]; csteps. Qed.
Lemma cons_parse_version : cons parse_version. Proof. unfold parse_version. csteps. Qed.
Lemma cons_parse_token_f : forall f, cons (parse_token_f E f).
Proof. induction f as [|f IH]; cbn [parse_token_f]; csteps. Qed.
Lemma cons_parse_token : cons (parse_token E fuel).
Proof. unfold parse_token. pose proof (cons_parse_token_f fuel). csteps. Qed.
Lemma cons_parse_method : cons (parse_method E fuel).
Proof. unfold parse_method. pose proof cons_parse_token. csteps. Qed.
Lemma cons_parse_uri : cons (parse_uri E fuel). Proof. unfold parse_uri. csteps. Qed.
Lemma cons_parse_code : cons parse_code. Proof. unfold parse_code. csteps. Qed.
Lemma cons_parse_reason_f : forall f o, cons (parse_reason_f f o).
Proof. induction f as [|f IH]; intros o; cbn [parse_reason_f]; csteps; apply IH. Qed.
Lemma cons_skip_invalid_line : forall f b e, cons (skip_invalid_line f b e).
Proof. induction f as [|f IH]; intros b e; cbn [skip_invalid_line]; csteps; apply IH. Qed.
Lemma cons_handle_invalid b e : cons (handle_invalid fuel hc b e).
Proof. unfold handle_invalid. pose proof (cons_skip_invalid_line fuel b e). csteps. Qed.
Lemma cons_skip_ws_peek : forall f, cons (skip_ws_peek f).
Proof. induction f as [|f IH]; cbn [skip_ws_peek]; csteps. Qed.
Lemma cons_after_name_ws : forall f b, cons (after_name_ws f b).
Proof. induction f as [|f IH]; intros b; cbn [after_name_ws]; csteps; apply IH. Qed.
Lemma cons_fold_check : cons (fold_check hc). Proof. unfold fold_check. csteps. Qed.
Lemma cons_value_lines : forall f, cons (value_lines E fuel hc f).
Proof.
  induction f as [|f IH]; cbn [value_lines]; [apply cons_fault|].
  pose proof cons_fold_check. pose proof cons_handle_invalid. csteps.
Qed.
Lemma cons_ws_after_colon : forall f, cons (ws_after_colon E fuel hc f).
Proof.
  induction f as [|f IH]; cbn [ws_after_colon]; [apply cons_fault|].
  pose proof cons_fold_check. pose proof cons_handle_invalid. pose proof (cons_value_lines fuel). csteps.
Qed.
Lemma cons_header_line first : cons (header_line E fuel hc first).
Proof.
  unfold header_line. pose proof cons_handle_invalid. pose proof (cons_skip_ws_peek fuel).
  pose proof (cons_ws_after_colon fuel). pose proof (cons_after_name_ws fuel). csteps.
Qed.
Lemma cons_headers_prog cap : forall f nh, cons (headers_prog E fuel f hc cap nh).
Proof.
  induction f as [|f IH]; intros nh; cbn [headers_prog]; [apply cons_fault|].
  pose proof cons_header_line. csteps; apply IH.
Qed.
Lemma cons_opt_spaces ms : cons (opt_spaces fuel ms).
Proof. unfold opt_spaces. pose proof (cons_skip_spaces_f fuel). unfold skip_spaces. csteps. Qed.
Lemma cons_request_prog ms cap : cons (request_prog E fuel ms hc cap).
Proof.
  unfold request_prog, skip_empty_lines. pose proof (cons_skip_empty_lines_f fuel). pose proof cons_parse_method.
  pose proof (cons_opt_spaces ms). pose proof cons_parse_uri. pose proof cons_parse_version. pose proof cons_newline.
  pose proof (cons_headers_prog cap fuel 0). csteps.
Qed.
Lemma cons_after_code ms : cons (after_code fuel ms).
Proof. unfold after_code, parse_reason. pose proof (cons_opt_spaces ms). pose proof (cons_parse_reason_f fuel false). csteps. Qed.
Lemma cons_response_prog ms cap : cons (response_prog E fuel ms hc cap).
Proof.
  unfold response_prog, skip_empty_lines. pose proof (cons_skip_empty_lines_f fuel). pose proof cons_parse_version.
  pose proof (cons_space Version). pose proof (cons_opt_spaces ms). pose proof cons_parse_code. pose proof (cons_after_code ms).
  pose proof (cons_headers_prog cap fuel 0). csteps.
Qed.
End ConsStages.

Lemma cons_chunk_loop dbg : forall f size ics iext count, cons (chunk_loop dbg f size ics iext count).
Proof.
  induction f as [|f IH]; intros size ics iext count; cbn [chunk_loop]; [apply cons_fault|].
  csteps; try apply IH.
Qed.

Lemma cons_swar_loop W kernel class : forall f, cons (swar_loop f W kernel class).
Proof. induction f as [|f IH]; cbn [swar_loop]; csteps. Qed.
Lemma cons_swar_name_loop W class : forall f, cons (swar_name_loop f W class).
Proof.
  induction f as [|f IH]; cbn [swar_name_loop]; csteps.
  intros c. apply (cons_advance (first_bad class (rest c)) c).
Qed.
Lemma cons_simd_loop G K R kernel fallback : cons fallback -> forall f, cons (simd_loop f G K R kernel fallback).
Proof. intros Hf. induction f as [|f IH]; cbn [simd_loop]; csteps. Qed.

Theorem env_of_cons W b : env_cons (env_of W b).
Proof.
  assert (Hu : forall f, cons (swar_uri W f)) by (intros f; apply cons_swar_loop).
  assert (Hv : forall f, cons (swar_value W f)) by (intros f; apply cons_swar_loop).
  assert (Hn : forall f, cons (swar_name W f)) by (intros f; apply cons_swar_name_loop).
  assert (Hswar : env_cons (env_swar W)) by (repeat split; assumption).
  assert (Hsse : env_cons (env_sse42 W)).
  { repeat split; intros f; cbn; [apply cons_simd_loop; apply Hu|apply cons_simd_loop; apply Hv|apply Hn]. }
  assert (Havx : env_cons (env_avx2 W)).
  { repeat split; intros f; cbn; [apply cons_simd_loop; apply Hu|apply cons_simd_loop; apply Hv|apply Hn]. }
  destruct b as [| | | |id]; cbn [env_of]; auto.
  - repeat split; intros f; cbn; apply cons_simd_loop; auto.
  - unfold env_runtime. destruct (N.eqb id RT_AVX2); [exact Havx|]. destruct (N.eqb id RT_SSE42); [exact Hsse|exact Hswar].
Qed.
