(* TieStart.v -- start-line functions of src/lib.rs as translated on this run (Generated/Lib.v)
   = the hand-written definitions of Model.v. *)
From Coq Require Import List NArith Bool Lia ZifyBool ZifyN.
From HV Require Import Cursor Scan Model Imp ImpLib.
From HV.Generated Require Import Lib.
From HV.Proofs Require Import TieBase.
Import ListNotations.
Local Open Scope N_scope.


Lemma tie_parse_code c : g_parse_code c = parse_code c.
Proof.
  unfold g_parse_code, g_parse_code_body, parse_code, is_digit, g_parse_code_init.
  destruct c as [p t r].
  imp_unfold; cbn [rest pre tokrev].
  destruct r as [|h r]; [reflexivity|].
  rewrite in_rng_range. destruct (in_range 48 57 h) eqn:Hh; [|reflexivity].
  destruct r as [|t0 r]; [reflexivity|]. cbn [rest pre tokrev].
  rewrite in_rng_range. destruct (in_range 48 57 t0) eqn:Ht; [|reflexivity].
  destruct r as [|o r]; [reflexivity|]. cbn [rest pre tokrev].
  rewrite in_rng_range. destruct (in_range 48 57 o) eqn:Ho; [|reflexivity].
  unfold in_range in *.
  match goal with |- context [if ?g then _ else _] => assert (Hg : g = true) end.
  { unfold fits. change (2 ^ 16) with 65536. lia. }
  rewrite Hg. reflexivity.
Qed.

Lemma tie_skip_empty_lines fuel c : g_skip_empty_lines fuel c = skip_empty_lines fuel c.
Proof.
  unfold g_skip_empty_lines, g_skip_empty_lines_body, skip_empty_lines, g_skip_empty_lines_init.
  rewrite irun_loop_tail.
  revert c; induction fuel as [|f IH]; intros [p t r]; [reflexivity|].
  cbn [skip_empty_lines_f]. loop_step.
  destruct r as [|b r]; cbn [hd_error]; [reflexivity|].
  unfold is, CR, LF. destruct (N.eqb b 13) eqn:H13.
  - cbn [shift rest pre tokrev]. destruct r as [|b2 r]; [reflexivity|].
    cbn [rest pre tokrev]. destruct (N.eqb b2 10); [|reflexivity]. apply IH.
  - destruct (N.eqb b 10) eqn:H10.
    + cbn [shift rest pre tokrev]. apply IH.
    + reflexivity.
Qed.

Lemma tie_skip_spaces fuel c : g_skip_spaces fuel c = skip_spaces fuel c.
Proof.
  unfold g_skip_spaces, g_skip_spaces_body, skip_spaces, g_skip_spaces_init.
  rewrite irun_loop_tail.
  revert c; induction fuel as [|f IH]; intros [p t r]; [reflexivity|].
  cbn [skip_spaces_f]. loop_step.
  destruct r as [|b r]; cbn [hd_error]; [reflexivity|].
  unfold is, SP. destruct (N.eqb b 32) eqn:H32.
  - cbn [shift rest pre tokrev]. apply IH.
  - reflexivity.
Qed.

Section WithEnv.
Variable E : env.


Lemma tie_parse_token fuel c : g_parse_token E fuel c = parse_token E fuel c.
Proof.
  unfold g_parse_token, g_parse_token_body, parse_token, g_parse_token_init.
  grab_loop B.
  assert (HL : forall f c, to_out (A:=unit) (iloop f 1 B tt c) = parse_token_f E f c).
  { clear c. induction f as [|f IH]; intros [p t r]; [reflexivity|].
    cbn [parse_token_f iloop]. unfold B at 1. imp_unfold. cbn [rest pre tokrev].
    destruct r as [|b r]; [reflexivity|]. cbn [rest pre tokrev].
    unfold is, SP. destruct (N.eqb b 32).
    - cbn [drop]. reflexivity.
    - destruct (c_method E b); cbn [negb]; [apply IH|reflexivity]. }
  destruct c as [p t r].
  imp_unfold. cbn [rest pre tokrev].
  destruct r as [|b r]; [reflexivity|]. cbn [rest pre tokrev].
  destruct (c_method E b); cbn [negb]; [|reflexivity].
  specialize (HL fuel (mkcur p (b :: t) r)). unfold to_out in HL.
  destruct (iloop _ _ _ _ _) as [a l' c'|l'|e l'|f0 l'|x l' c']; try exact HL.
  destruct x; exact HL.
Qed.

Lemma tie_parse_version c : g_parse_version c = parse_version c.
Proof.
  unfold g_parse_version, g_parse_version_body, parse_version, g_parse_version_init, H10, H11.
  destruct c as [p t r]. imp_unfold.
  destruct (take 8 r) as [eight|] eqn:H8.
  - destruct (shift 8 t r) as [[tk r']|]; [|reflexivity].
    destruct (list_eqb eight _); [reflexivity|].
    destruct (list_eqb eight _); reflexivity.
  - unfold is.
    repeat (destruct r as [|? r]; [reflexivity|]; imp_unfold;
            match goal with |- context [N.eqb ?b ?k] => destruct (N.eqb b k); [|reflexivity] end).
    reflexivity.
Qed.

Lemma tie_parse_method fuel c : g_parse_method E fuel c = parse_method E fuel c.
Proof.
  unfold g_parse_method, g_parse_method_body, parse_method, g_parse_method_init, GET_, POST.
  pose proof (tie_parse_token fuel) as HT.
  destruct c as [p t r]. imp_unfold.
  assert (HTk' : True) by exact Logic.I.
  destruct (take 4 r) as [four|] eqn:H4; [|(rewrite HT; destruct (parse_token E fuel _); reflexivity)].
  destruct (list_eqb four _).
  - destruct (shift 4 t r) as [[tk r']|]; [|reflexivity]. imp_unfold.
    destruct (drop 1 tk); reflexivity.
  - destruct (list_eqb four _); [|(rewrite HT; destruct (parse_token E fuel _); reflexivity)].
    destruct (drop 4 r) as [r4|]; [|reflexivity].
    unfold opt_is, is, SP. destruct (hd_error r4) as [b|]; [|(rewrite HT; destruct (parse_token E fuel _); reflexivity)].
    destruct (N.eqb b 32); [|(rewrite HT; destruct (parse_token E fuel _); reflexivity)].
    destruct (shift 5 t r) as [[tk r']|]; [|reflexivity]. imp_unfold.
    destruct (drop 1 tk); reflexivity.
Qed.

Lemma tie_parse_uri fuel c : g_parse_uri E fuel c = parse_uri E fuel c.
Proof.
  unfold g_parse_uri, g_parse_uri_body, parse_uri, g_parse_uri_init, from_utf8.
  imp_unfold.
  destruct (s_uri E fuel c) as [[] c1| | |]; try reflexivity.
  destruct c1 as [p t r]. imp_unfold.
  destruct r as [|b r]; [reflexivity|]. imp_unfold.
  unfold is, SP. destruct (N.eqb b 32); [|reflexivity].
  destruct (Nat.eqb _ _); [reflexivity|].
  cbn [drop]. destruct (utf8_valid _); reflexivity.
Qed.

Lemma tie_parse_reason fuel c : g_parse_reason fuel c = parse_reason fuel c.
Proof.
  unfold g_parse_reason, g_parse_reason_body, parse_reason, g_parse_reason_init.
  grab_loop B.
  assert (HL : forall f seen c,
     to_out (A:=unit) (iloop f 1 B (mkL_g_parse_reason seen) c) = parse_reason_f f seen c).
  { clear c. induction f as [|f IH]; intros seen [p t r]; [reflexivity|].
    cbn [parse_reason_f iloop]. unfold B at 1. imp_unfold.
    destruct r as [|b r]; [reflexivity|]. imp_unfold.
    unfold is, CR, LF. destruct (N.eqb b 13).
    - destruct r as [|b2 r]; [reflexivity|]. imp_unfold.
      destruct (N.eqb b2 10); [|reflexivity]. cbn [drop g_parse_reason_v_seen_obs_text].
      destruct seen; reflexivity.
    - destruct (N.eqb b 10).
      + cbn [drop g_parse_reason_v_seen_obs_text]. destruct seen; reflexivity.
      + unfold reason_byte, is, SP. rewrite in_rng_range.
        change (N.leb 128 b) with (128 <=? b).
        destruct (N.eqb b 9 || N.eqb b 32 || in_range 33 126 b || (128 <=? b)) eqn:Hc;
          cbn [negb]; [|reflexivity].
        destruct (128 <=? b) eqn:Ho.
        * unfold set_g_parse_reason_v_seen_obs_text. rewrite IH. rewrite orb_true_r. reflexivity.
        * rewrite IH. rewrite orb_false_r. reflexivity. }
  imp_unfold. unfold set_g_parse_reason_v_seen_obs_text.
  specialize (HL fuel false c). unfold to_out in HL.
  destruct (iloop _ _ _ _ _) as [a l' c'|l'|e l'|f0 l'|x l' c']; try exact HL.
  destruct x; exact HL.
Qed.

End WithEnv.
