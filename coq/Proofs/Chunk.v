(* Proofs/Chunk.v -- parse_chunk_size (Model.chunk_loop) equals the reference grammar
   Spec.ref_chunk on every buffer, in both build profiles; the multiply-add never
   reaches 2^64 and the debug-only guard is dead. *)
From Coq Require Import List NArith ZArith Lia Bool ZifyBool ZifyN ZifyNat.
From HV Require Import Cursor Scan Model Api Spec.
From HV.Proofs Require Import Base.
Import ListNotations.
Ltac Zify.zify_post_hook ::= Z.div_mod_to_equations.

Definition ICS : status * N := (Error InvalidChunkSize, 0%N).
Definition PART : status * N := (Partial, 0%N).

(* what the caller sees of a chunk_loop outcome *)
Definition view (o : out N) : status * N :=
  match o with
  | Done size c => (Complete (apos c), size)
  | Part => PART
  | Fail e => (Error e, 0%N)
  | Fault f => (Faulted f, 0%N)
  end.

(* ---- phase specifications on lists (structural, no fuel) ---- *)
Definition crlf_spec (size : N) (off : nat) (r : list N) : status * N :=
  (* the CR has been read; `off` is the offset just past it *)
  match r with
  | [] => PART
  | d :: _ => if is 10 d then (Complete (S off), size) else ICS
  end.

Fixpoint ext_spec (size : N) (off : nat) (l : list N) : status * N :=
  match l with
  | [] => PART
  | b :: r => if is 13 b then crlf_spec size (S off) r else ext_spec size (S off) r
  end.

Fixpoint ws_spec (size : N) (off : nat) (l : list N) : status * N :=
  match l with
  | [] => PART
  | b :: r =>
      if is 13 b then crlf_spec size (S off) r
      else if is 59 b then ext_spec size (S off) r
      else if ws b then ws_spec size (S off) r
      else ICS
  end.

Fixpoint dig_spec (count : nat) (size : N) (off : nat) (l : list N) : status * N :=
  match l with
  | [] => PART
  | b :: r =>
      if hexdig b then
        if Nat.ltb 15 count then ICS
        else dig_spec (S count) (size * 16 + hexval b)%N (S off) r
      else if Nat.eqb count 0 then ICS
      else if is 13 b then crlf_spec size (S off) r
      else if is 59 b then ext_spec size (S off) r
      else if ws b then ws_spec size (S off) r
      else ICS
  end.

(* ---- the model's phases equal the specifications ---- *)
Section Model.
Variable dbg : bool.

Lemma crlf_model size p t r :
  view ((b' <- next ;; if is LF b' then ret size else fail InvalidChunkSize) (mkcur p t r))
  = crlf_spec size (length t + p) r.
Proof.
  destruct r as [|d r']; [reflexivity|].
  unfold bind, next; cbn [rest]. unfold crlf_spec, LF.
  destruct (is 10 d); reflexivity.
Qed.

Lemma ext_model : forall l f p t size count,
  length l < f -> 0 < count ->
  view (chunk_loop dbg f size false true count (mkcur p t l)) = ext_spec size (length t + p) l.
Proof.
  induction l as [|b r IH]; intros f p t size count Hf Hc; (destruct f as [|f]; [cbn in Hf; lia|]).
  - reflexivity.
  - cbn [chunk_loop]. unfold bind at 1. unfold next at 1. cbn [rest pre tokrev].
    rewrite !andb_false_r. cbn [ext_spec].
    replace (Nat.eqb count 0) with false by (symmetry; apply Nat.eqb_neq; lia).
    rewrite andb_false_r. unfold CR.
    destruct (is 13 b) eqn:E13.
    + rewrite crlf_model. reflexivity.
    + cbn [negb andb].
      rewrite IH by (cbn in Hf; lia). reflexivity.
Qed.

Lemma ws_model : forall l f p t size count,
  length l < f -> 0 < count ->
  view (chunk_loop dbg f size false false count (mkcur p t l)) = ws_spec size (length t + p) l.
Proof.
  induction l as [|b r IH]; intros f p t size count Hf Hc; (destruct f as [|f]; [cbn in Hf; lia|]).
  - reflexivity.
  - cbn [chunk_loop]. unfold bind at 1. unfold next at 1. cbn [rest pre tokrev].
    rewrite !andb_false_r. cbn [ws_spec].
    replace (Nat.eqb count 0) with false by (symmetry; apply Nat.eqb_neq; lia).
    rewrite andb_false_r. unfold CR.
    destruct (is 13 b) eqn:E13.
    + rewrite crlf_model. reflexivity.
    + cbn [negb]. rewrite !andb_true_r.
      destruct (is 59 b) eqn:E59.
      * rewrite ext_model by (cbn in Hf; lia). reflexivity.
      * change (is_ws b) with (ws b). destruct (ws b) eqn:Ews.
        -- rewrite IH by (cbn in Hf; lia). reflexivity.
        -- reflexivity.
Qed.

(* digits: the three arms of the match agree with hexdig / hexval *)
Lemma hexdig_cases b :
  hexdig b = (is_digit b || hex_lower b || hex_upper b).
Proof. reflexivity. Qed.

Lemma hexval_digit b : is_digit b = true -> (b - 48 = hexval b)%N.
Proof. unfold hexval, digit, is_digit. intros ->. reflexivity. Qed.
Lemma hexval_lower b : is_digit b = false -> hex_lower b = true -> (b + 10 - 97 = hexval b)%N.
Proof.
  unfold hexval, digit, is_digit, hex_lower. intros -> H. rewrite H.
  unfold in_range in H. lia.
Qed.
Lemma hexval_upper b : is_digit b = false -> hex_lower b = false -> hex_upper b = true ->
  (b + 10 - 65 = hexval b)%N.
Proof.
  unfold hexval, digit, is_digit, hex_lower, hex_upper. intros -> -> H.
  unfold in_range in H. lia.
Qed.
Lemma hexval_lt b : hexdig b = true -> (hexval b < 16)%N.
Proof.
  unfold hexdig, hexval, digit, in_range. intros H.
  destruct ((48 <=? b)%N && (b <=? 57)%N) eqn:E1; [lia|].
  destruct ((97 <=? b)%N && (b <=? 102)%N) eqn:E2; lia.
Qed.

(* one digit step: no overflow, the debug-only guard does not fire *)
Lemma chunk_digit_ok count size d :
  count <= 15 -> (size < 16 ^ N.of_nat count)%N -> (d < 16)%N ->
  chunk_digit dbg count size d = inl (Some (S count, (size * 16 + d)%N)).
Proof.
  intros Hc Hs Hd. unfold chunk_digit.
  destruct (Nat.ltb_spec 15 count); [lia|].
  assert (P15 : (16 ^ N.of_nat count <= 16 ^ 15)%N) by (apply N.pow_le_mono_r; lia).
  assert (E15 : (16 ^ 15 = 1152921504606846976)%N) by reflexivity.
  assert (Hs' : (size < 1152921504606846976)%N) by lia.
  unfold two64.
  replace (dbg && (18446744073709551616 / 16 - 1 <? size)%N) with false
    by (symmetry; apply andb_false_iff; right; apply N.ltb_ge;
        change (18446744073709551616 / 16 - 1)%N with 1152921504606846975%N; lia).
  destruct (N.leb_spec 18446744073709551616 (size * 16)); [lia|].
  destruct (N.leb_spec 18446744073709551616 (size * 16 + d)); [lia|].
  reflexivity.
Qed.
Lemma chunk_digit_over count size d : 15 < count -> chunk_digit dbg count size d = inl None.
Proof. intros H. unfold chunk_digit. destruct (Nat.ltb_spec 15 count); [reflexivity|lia]. Qed.

Lemma pow16_step count size d :
  (size < 16 ^ N.of_nat count)%N -> (d < 16)%N -> (size * 16 + d < 16 ^ N.of_nat (S count))%N.
Proof. intros Hs Hd. rewrite Nat2N.inj_succ, N.pow_succ_r'. lia. Qed.

Lemma dig_model : forall l f p t size count,
  length l < f -> (size < 16 ^ N.of_nat count)%N ->
  view (chunk_loop dbg f size true false count (mkcur p t l)) = dig_spec count size (length t + p) l.
Proof.
  induction l as [|b r IH]; intros f p t size count Hf Hs; (destruct f as [|f]; [cbn in Hf; lia|]).
  - reflexivity.
  - cbn [chunk_loop]. unfold bind at 1. unfold next at 1. cbn [rest pre tokrev].
    rewrite !andb_true_r. cbn [dig_spec]. rewrite hexdig_cases.
    assert (Hf' : length r < f) by (cbn in Hf; lia).
    (* the three digit arms *)
    assert (Digit : forall d, d = hexval b -> hexdig b = true ->
      view ((match chunk_digit dbg count size d with
             | inl (Some (cnt, sz)) => chunk_loop dbg f sz true false cnt
             | inl None => fail InvalidChunkSize
             | inr flt => fault_ flt
             end) (mkcur p (b :: t) r))
      = (if Nat.ltb 15 count then ICS
         else dig_spec (S count) (size * 16 + hexval b)%N (S (length t + p)) r)).
    { intros d -> Hh. destruct (Nat.ltb_spec 15 count) as [Hc|Hc].
      - rewrite chunk_digit_over by exact Hc. reflexivity.
      - pose proof (hexval_lt b Hh) as Hd.
        rewrite chunk_digit_ok by (try exact Hs; try exact Hd; lia).
        rewrite IH by (try exact Hf'; apply pow16_step; assumption).
        reflexivity. }
    destruct (is_digit b) eqn:Ed.
    { cbn [orb]. apply Digit; [apply hexval_digit; exact Ed|]. rewrite hexdig_cases, Ed. reflexivity. }
    destruct (hex_lower b) eqn:El.
    { cbn [orb]. apply Digit; [apply hexval_lower; assumption|]. rewrite hexdig_cases, Ed, El. reflexivity. }
    destruct (hex_upper b) eqn:Eu.
    { cbn [orb]. apply Digit; [apply hexval_upper; assumption|]. rewrite hexdig_cases, Ed, El, Eu. reflexivity. }
    cbn [orb]. unfold CR.
    change (is_ws b) with (ws b). unfold SP, HT.
    replace (is 13 b || is 59 b || is 9 b || is 32 b) with (is 13 b || is 59 b || ws b)
      by (unfold ws; rewrite (orb_comm (is 32 b)), !orb_assoc; reflexivity).
    destruct (Nat.eqb_spec count 0) as [E0|E0].
    + (* count = 0: CR, ';', SP, HTAB are rejected by the added arm; everything else by the last arm *)
      rewrite andb_true_r.
      destruct (is 13 b) eqn:E13; [reflexivity|].
      destruct (is 59 b) eqn:E59; [reflexivity|].
      destruct (ws b) eqn:Ews; reflexivity.
    + rewrite andb_false_r.
      destruct (is 13 b) eqn:E13.
      * rewrite crlf_model. reflexivity.
      * destruct (is 59 b) eqn:E59.
        -- cbn [negb]. rewrite ext_model by (try exact Hf'; lia). reflexivity.
        -- cbn [negb]. rewrite !andb_false_r.
           destruct (ws b) eqn:Ews.
           ++ rewrite ws_model by (try exact Hf'; lia). reflexivity.
           ++ reflexivity.
Qed.

Theorem chunk_model_spec : forall buf,
  parse_chunk_size dbg buf = dig_spec 0 0%N 0 buf.
Proof.
  intros buf. unfold parse_chunk_size.
  change (match chunk_loop dbg (S (length buf)) 0 true false 0 (cur_new buf) with
          | Done size c => (Complete (apos c), size) | Part => (Partial, 0%N)
          | Fail e => (Error e, 0%N) | Fault f => (Faulted f, 0%N) end)
    with (view (chunk_loop dbg (S (length buf)) 0 true false 0 (mkcur 0 [] buf))).
  rewrite dig_model by (cbn; lia). reflexivity.
Qed.
End Model.

(* ---- the phase specifications compose to the span-level reference grammar ---- *)
Lemma ext_spec_span : forall l size off,
  ext_spec size off l =
  let (e, r4) := span (fun x => negb (is 13 x)) l in
  match r4 with
  | [] => PART
  | _ :: l' => crlf_spec size (S (length e + off)) l'
  end.
Proof.
  induction l as [|b r IH]; intros size off; [reflexivity|].
  cbn [ext_spec span]. destruct (is 13 b) eqn:E; cbn [negb].
  - reflexivity.
  - rewrite IH. destruct (span _ r) as [e r4]. destruct r4; [reflexivity|].
    cbn [length]. f_equal. lia.
Qed.

Lemma ws_spec_span : forall l size off,
  ws_spec size off l =
  let (w, r2) := span ws l in
  match r2 with
  | [] => PART
  | b :: r3 =>
      if is 13 b then crlf_spec size (S (length w + off)) r3
      else if is 59 b then ext_spec size (S (length w + off)) r3
      else ICS
  end.
Proof.
  induction l as [|b r IH]; intros size off; [reflexivity|].
  cbn [ws_spec span].
  destruct (ws b) eqn:Ews.
  - assert (is 13 b = false /\ is 59 b = false) as [-> ->].
    { unfold ws, is in *. split; apply N.eqb_neq; intros ->; discriminate. }
    rewrite IH. destruct (span ws r) as [w r2]. destruct r2 as [|b2 r3]; [reflexivity|].
    cbn [length]. replace (S (length w) + off) with (length w + S off) by lia. reflexivity.
  - cbn [length]. destruct (is 13 b); [reflexivity|]. destruct (is 59 b); reflexivity.
Qed.

Lemma hex_value_app ds d acc :
  fold_left (fun a x => (a * 16 + hexval x)%N) (ds ++ [d]) acc
  = (fold_left (fun a x => (a * 16 + hexval x)%N) ds acc * 16 + hexval d)%N.
Proof. rewrite fold_left_app. reflexivity. Qed.

(* dig_spec against the span decomposition, generalised over the digits already read *)
Lemma dig_spec_span : forall l count size off, count <= 16 ->
  dig_spec count size off l =
  let (ds, r1) := span hexdig l in
  if Nat.ltb 16 (count + length ds) then ICS
  else
    let size' := fold_left (fun a x => (a * 16 + hexval x)%N) ds size in
    let o1 := length ds + off in
    match r1 with
    | [] => PART
    | b :: r =>
        if Nat.eqb (count + length ds) 0 then ICS
        else if is 13 b then crlf_spec size' (S o1) r
        else if is 59 b then ext_spec size' (S o1) r
        else if ws b then ws_spec size' (S o1) r
        else ICS
    end.
Proof.
  induction l as [|b r IH]; intros count size off Hc.
  - cbn [dig_spec span length]. destruct (Nat.ltb_spec 16 (count + 0)); [lia|reflexivity].
  - cbn [dig_spec span]. destruct (hexdig b) eqn:Eh.
    + destruct (Nat.ltb_spec 15 count) as [H15|H15].
      * destruct (span hexdig r) as [ds r1]. cbn [length].
        destruct (Nat.ltb_spec 16 (count + S (length ds))); [reflexivity|lia].
      * rewrite IH by lia. destruct (span hexdig r) as [ds r1]. cbn [length fold_left].
        replace (S count + length ds) with (count + S (length ds)) by lia.
        destruct (Nat.ltb 16 (count + S (length ds))); [reflexivity|].
        replace (length ds + S off) with (S (length ds) + off) by lia.
        reflexivity.
    + cbn [length fold_left]. rewrite Nat.add_0_r.
      destruct (Nat.ltb_spec 16 count); [lia|]. reflexivity.
Qed.

Theorem ref_chunk_spec : forall buf, ref_chunk buf = dig_spec 0 0%N 0 buf.
Proof.
  intros buf. rewrite dig_spec_span by lia. unfold ref_chunk, hex_value.
  destruct (span hexdig buf) as [ds r1] eqn:Es. cbn [Nat.add].
  destruct (Nat.ltb 16 (length ds)); [reflexivity|].
  destruct r1 as [|b r]; [reflexivity|].
  destruct ds as [|d0 ds']; [reflexivity|].
  cbn [null length Nat.eqb]. set (ds := d0 :: ds') in *.
  set (size' := fold_left (fun a x => (a * 16 + hexval x)%N) ds 0%N).
  rewrite Nat.add_0_r.
  cbn [span].
  destruct (ws b) eqn:Ews.
  - assert (is 13 b = false /\ is 59 b = false) as [-> ->].
    { unfold ws, is in *. split; apply N.eqb_neq; intros ->; discriminate. }
    rewrite ws_spec_span. destruct (span ws r) as [w r2]. cbn [length].
    destruct r2 as [|b2 r3]; [reflexivity|].
    destruct (is 13 b2).
    + unfold crlf_spec. destruct r3 as [|d r4]; [reflexivity|].
      destruct (is 10 d); [|reflexivity]. f_equal. f_equal. fold ds. cbn [length]. lia.
    + destruct (is 59 b2); [|reflexivity].
      rewrite ext_spec_span. destruct (span _ r3) as [e r4]. destruct r4 as [|c l']; [reflexivity|].
      unfold crlf_spec. destruct l' as [|d l'']; [reflexivity|].
      destruct (is 10 d); [|reflexivity]. f_equal. f_equal. fold ds. cbn [length]. lia.
  - cbn [length Nat.add].
    destruct (is 13 b).
    + unfold crlf_spec. destruct r as [|d r4]; [reflexivity|].
      destruct (is 10 d); [|reflexivity]. f_equal.
    + destruct (is 59 b); [|reflexivity].
      rewrite ext_spec_span. destruct (span _ r) as [e r4]. destruct r4 as [|c l']; [reflexivity|].
      unfold crlf_spec. destruct l' as [|d l'']; [reflexivity|].
      destruct (is 10 d); [|reflexivity]. f_equal. f_equal. lia.
Qed.

(* ---- C09 ---- *)
Theorem chunk_ref_eq : forall dbg buf, parse_chunk_size dbg buf = ref_chunk buf.
Proof. intros. rewrite chunk_model_spec, ref_chunk_spec. reflexivity. Qed.

(* ---- consequences read off the reference grammar ---- *)
Lemma hex_value_bound : forall ds acc,
  Forall (fun d => hexdig d = true) ds ->
  (fold_left (fun a x => (a * 16 + hexval x)%N) ds acc < (acc + 1) * 16 ^ N.of_nat (length ds))%N.
Proof.
  induction ds as [|d r IH]; intros acc H.
  - cbn. lia.
  - inversion H as [|? ? Hd Hr]; subst. cbn [fold_left length].
    pose proof (hexval_lt d Hd) as Hlt. specialize (IH (acc * 16 + hexval d)%N Hr).
    rewrite Nat2N.inj_succ, N.pow_succ_r'.
    eapply N.lt_le_trans; [exact IH|].
    set (P := (16 ^ N.of_nat (length r))%N). nia.
Qed.

Lemma span_all p l : Forall (fun d => p d = true) (fst (span p l)).
Proof.
  induction l as [|b r IH]; [constructor|]. cbn [span].
  destruct (p b) eqn:E; [|constructor].
  destruct (span p r) as [a t]. cbn [fst] in *. constructor; assumption.
Qed.

Theorem ref_chunk_complete : forall buf n size,
  ref_chunk buf = (Complete n, size) ->
  let ds := fst (span hexdig buf) in
  size = hex_value ds /\ 1 <= length ds <= 16 /\ (size < 2 ^ 64)%N /\ n <= length buf.
Proof.
  intros buf n size H. cbn zeta.
  pose proof (span_all hexdig buf) as Hall.
  assert (Hlen : forall p l, length l = length (fst (span p l)) + length (snd (span p l))).
  { intros p l. induction l as [|b r IH]; [reflexivity|]. cbn [span].
    destruct (p b); [|reflexivity]. destruct (span p r); cbn [fst snd length] in *. lia. }
  pose proof (Hlen hexdig buf) as Hlb.
  unfold ref_chunk in H. destruct (span hexdig buf) as [ds r1] eqn:Es. cbn [fst snd] in *.
  destruct (Nat.ltb_spec 16 (length ds)) as [|H16]; [discriminate|].
  destruct r1 as [|b0 r1']; [discriminate|].
  destruct ds as [|d0 ds']; [discriminate|]. cbn [null] in H.
  set (ds := d0 :: ds') in *.
  assert (Hsz : (hex_value ds < 2 ^ 64)%N).
  { unfold hex_value. pose proof (hex_value_bound ds 0%N Hall) as Hb.
    assert ((16 ^ N.of_nat (length ds) <= 16 ^ 16)%N) by (apply N.pow_le_mono_r; lia).
    change (2 ^ 64)%N with (16 ^ 16)%N. lia. }
  pose proof (Hlen ws (b0 :: r1')) as Hlw.
  destruct (span ws (b0 :: r1')) as [w r2] eqn:Ew. cbn [fst snd] in Hlw.
  destruct r2 as [|b r3]; [discriminate|].
  assert (Fin : forall o l, o + length l <= length buf ->
    (match l with
     | [] => (Partial, 0%N)
     | _ :: l' => match l' with
                  | [] => (Partial, 0%N)
                  | d :: _ => if is 10 d then (Complete (2 + o), hex_value ds) else (Error InvalidChunkSize, 0%N)
                  end
     end) = (Complete n, size) ->
    size = hex_value ds /\ 1 <= length ds <= 16 /\ (size < 2 ^ 64)%N /\ n <= length buf).
  { intros o l Ho E. destruct l as [|c l']; [discriminate|]. destruct l' as [|d l'']; [discriminate|].
    destruct (is 10 d); [|discriminate]. injection E as <- <-. cbn [length] in Ho.
    repeat split; try assumption; try reflexivity; unfold ds in *; cbn [length] in *; lia. }
  destruct (is 13 b).
  - apply (Fin (length w + length ds) (b :: r3)); [|exact H]. cbn [length] in *. lia.
  - destruct (is 59 b); [|discriminate].
    pose proof (Hlen (fun x => negb (is 13 x)) r3) as Hle.
    destruct (span (fun x => negb (is 13 x)) r3) as [e r4] eqn:Ee. cbn [fst snd] in Hle.
    destruct r4 as [|c r4']; [discriminate|].
    apply (Fin (S (length e) + (length w + length ds)) (c :: r4')); [|exact H]. cbn [length] in *. lia.
Qed.

Theorem ref_chunk_no_fault : forall buf f, fst (ref_chunk buf) <> Faulted f.
Proof.
  intros buf f. unfold ref_chunk.
  destruct (span hexdig buf) as [ds r1].
  destruct (Nat.ltb 16 (length ds)); [discriminate|].
  destruct r1 as [|b0 r1']; [discriminate|].
  destruct (null ds); [discriminate|].
  destruct (span ws (b0 :: r1')) as [w r2].
  destruct r2 as [|b r3]; [discriminate|].
  assert (Fin : forall o l,
    fst (match l with
     | [] => (Partial, 0%N)
     | _ :: l' => match l' with
                  | [] => (Partial, 0%N)
                  | d :: _ => if is 10 d then (Complete (2 + o), hex_value ds) else (Error InvalidChunkSize, 0%N)
                  end
     end) <> Faulted f).
  { intros o l. destruct l as [|c l']; [discriminate|]. destruct l' as [|d l'']; [discriminate|].
    destruct (is 10 d); discriminate. }
  destruct (is 13 b); [apply (Fin (length w + length ds) (b :: r3))|].
  destruct (is 59 b); [|discriminate].
  destruct (span (fun x => negb (is 13 x)) r3) as [e r4].
  destruct r4 as [|c r4']; [discriminate|apply (Fin (S (length e) + (length w + length ds)) (c :: r4'))].
Qed.

(* ---- stability under appending bytes (C02) ---- *)
Definition final_c (r : status * N) : Prop :=
  match fst r with Complete _ | Error _ => True | _ => False end.

Lemma crlf_spec_stable size off r ext : final_c (crlf_spec size off r) -> crlf_spec size off (r ++ ext) = crlf_spec size off r.
Proof. destruct r as [|d r']; [intros []|reflexivity]. Qed.
Lemma ext_spec_stable : forall l size off ext, final_c (ext_spec size off l) -> ext_spec size off (l ++ ext) = ext_spec size off l.
Proof.
  induction l as [|b r IH]; intros size off ext H; [destruct H|]. cbn [ext_spec app] in *.
  destruct (is 13 b); [apply crlf_spec_stable; exact H|apply IH; exact H].
Qed.
Lemma ws_spec_stable : forall l size off ext, final_c (ws_spec size off l) -> ws_spec size off (l ++ ext) = ws_spec size off l.
Proof.
  induction l as [|b r IH]; intros size off ext H; [destruct H|]. cbn [ws_spec app] in *.
  destruct (is 13 b); [apply crlf_spec_stable; exact H|].
  destruct (is 59 b); [apply ext_spec_stable; exact H|].
  destruct (ws b); [apply IH; exact H|reflexivity].
Qed.
Lemma dig_spec_stable : forall l count size off ext,
  final_c (dig_spec count size off l) -> dig_spec count size off (l ++ ext) = dig_spec count size off l.
Proof.
  induction l as [|b r IH]; intros count size off ext H; [destruct H|]. cbn [dig_spec app] in *.
  destruct (hexdig b).
  - destruct (Nat.ltb 15 count); [reflexivity|apply IH; exact H].
  - destruct (Nat.eqb count 0); [reflexivity|].
    destruct (is 13 b); [apply crlf_spec_stable; exact H|].
    destruct (is 59 b); [apply ext_spec_stable; exact H|].
    destruct (ws b); [apply ws_spec_stable; exact H|reflexivity].
Qed.

Theorem chunk_stable : forall dbg buf ext,
  final_c (parse_chunk_size dbg buf) -> parse_chunk_size dbg (buf ++ ext) = parse_chunk_size dbg buf.
Proof. intros dbg buf ext. rewrite !chunk_model_spec. apply dig_spec_stable. Qed.
