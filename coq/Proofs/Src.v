(* Src.v -- the public entry points built on the functions TRANSLATED from /repo/src/lib.rs on this run
   (Generated/Lib.v, Generated/LibApi.v), and the master tie: they are equal to the hand-written model
   (Model.v, Api.v) every theorem of Thm/*.v is stated about.  Rewriting with `src_tie` turns each of
   those theorems into a theorem about what the source says today.

   What is translated: skip_empty_lines, skip_spaces, parse_version, parse_token, parse_method, parse_uri,
   parse_code, parse_reason, parse_headers_iter_uninit, both parse_with_config_and_uninit_headers bodies,
   parse_headers, parse_chunk_size, and the macros next! expect! complete! space! newline! (expanded from
   macros.rs).  What is pinned by token text (translator fails if it changes): the delegating wrappers
   parse / parse_with_config / parse_with_uninit_headers / ParserConfig::parse_* / new, the drop guard
   ShrinkOnDrop, assume_init_slice / deinit_slice_mut / parse_headers_iter, struct ParserConfig.
   What stays hand-written: Cursor.v (iter.rs), the loop shells of Scan.v (text of swar.rs loops pinned,
   SIMD loops template-matched), ImpLib.v / ImpGlue.v. *)
From HV Require Import Cursor Scan Model Api.
From HV.Proofs Require Export Mono SrcReq SrcResp SrcPH SrcChunk.

(* the master tie: everything at once *)
Definition source_is_model (E : env) : Prop :=
  request_source_is_model E /\ response_source_is_model E /\ headers_source_is_model E /\ chunk_source_is_model.
Theorem src_tie : forall E, env_fwd E -> source_is_model E.
Proof.
  intros E HE. repeat split; first [apply src_tie_request | apply src_tie_response | apply src_tie_headers
                                   | apply src_tie_chunk]; exact HE.
Qed.
