(* SrcResp.v -- the response entry points over the translated source; see Src.v *)
From Coq Require Import List NArith Bool.
From HV Require Import Cursor Scan Model Api Imp ImpLib ImpGlue.
From HV.Generated Require Import Lib LibApi.
From HV.Proofs Require Import TieBase Mono TieStartCommon TieStartResp TieHeaders TieApiBase TieResp.
Import ListNotations.

Section Src.
Variable E : env.

Definition src_response_core (cf : config) (buf : list N) (rp : response) (arr : list slot) : rp_res :=
  fin_resp (ifun (g_response_core_body E (S (length buf)) cf buf)
                 (g_response_core_init (p_version rp) (p_code rp) (p_reason rp) (p_hdrs rp) arr arr)
                 (cur_new buf)).
(* Response::parse_with_config as TRANSLATED; the one-expression delegations are translated too (G14: the gd_ definitions of LibApi.v) *)
Definition src_response_with_config (cf : config) (buf : list N) (rp : response) : rp_res :=
  fin_respw (ifun (g_response_with_config_body E (S (length buf)) cf buf)
                  (g_response_with_config_init (p_version rp) (p_code rp) (p_reason rp) (p_hdrs rp) [] [])
                  (cur_new buf)).
Definition src_response_call (e : entry) (cf : config) (buf : list N) (arr : list slot) (rp : response) : rp_res :=
  (* the public routes through their one-expression delegations AS TRANSLATED (G14): Response::parse,
     ParserConfig::parse_response, ParserConfig::parse_response_with_uninit_headers (Response has no
     parse_with_uninit_headers of its own: the harness reaches the default configuration through
     `ParserConfig::default().parse_response_with_uninit_headers`) *)
  let Xw := src_response_with_config in
  let Xc := src_response_core in
  match e with
  | EParse => gd_response_parse Xw Xc buf rp
  | EConfig => gd_parse_response Xw Xc cf buf rp
  | EUninit => gd_parse_response_with_uninit_headers Xw Xc config_default buf rp arr
  | EConfigUninit => gd_parse_response_with_uninit_headers Xw Xc cf buf rp arr
  end.

Hypothesis Efwd : env_fwd E.

Lemma src_response_core_eq cf buf rp arr : src_response_core cf buf rp arr = response_core E cf buf rp arr.
Proof. apply tie_response_core. exact Efwd. Qed.
Lemma src_response_call_eq e cf buf arr rp : src_response_call e cf buf arr rp = response_call E e cf buf arr rp.
Proof.
  destruct e; cbn [src_response_call response_call];
    unfold gd_response_parse, gd_parse_response, gd_parse_response_with_uninit_headers, src_response_with_config;
    rewrite ?src_response_core_eq, ?(tie_response_with_config E Efwd); reflexivity.
Qed.
End Src.

Definition response_source_is_model (E : env) : Prop :=
  (forall e cf buf arr rp, src_response_call E e cf buf arr rp = response_call E e cf buf arr rp) /\
  (forall cf buf rp arr, src_response_core E cf buf rp arr = response_core E cf buf rp arr) /\
  wrappers_pinned = true.
Theorem src_tie_response : forall E, env_fwd E -> response_source_is_model E.
Proof.
  intros E HE. unfold response_source_is_model. repeat split; intros.
  - apply src_response_call_eq; exact HE.
  - apply src_response_core_eq; exact HE.
Qed.
