(* TieStartResp.v -- parse_code, parse_reason as translated on this run = Model.v *)
From Coq Require Import List NArith Bool Lia ZifyBool ZifyN.
From HV Require Import Cursor Scan Model Imp ImpLib.
From HV.Generated Require Import Lib.
From HV.Proofs Require Import TieBase.
Import ListNotations.
Local Open Scope N_scope.


Lemma tie_parse_code c : g_parse_code c = parse_code c.
Proof.
  unfold g_parse_code, g_parse_code_body, parse_code, is_digit, g_parse_code_init.
  destruct c as [p t r].
  imp_unfold; cbn [rest pre tokrev].
  destruct r as [|h r]; [reflexivity|].
  rewrite in_rng_range. destruct (in_range 48 57 h) eqn:Hh; [|reflexivity].
  destruct r as [|t0 r]; [reflexivity|]. cbn [rest pre tokrev].
  rewrite in_rng_range. destruct (in_range 48 57 t0) eqn:Ht; [|reflexivity].
  destruct r as [|o r]; [reflexivity|]. cbn [rest pre tokrev].
  rewrite in_rng_range. destruct (in_range 48 57 o) eqn:Ho; [|reflexivity].
  unfold in_range in *.
  match goal with |- context [if ?g then _ else _] => assert (Hg : g = true) end.
  { unfold fits. change (2 ^ 16) with 65536. lia. }
  rewrite Hg. reflexivity.
Qed.

Lemma tie_parse_reason fuel c : g_parse_reason fuel c = parse_reason fuel c.
Proof.
  unfold g_parse_reason, g_parse_reason_body, parse_reason, g_parse_reason_init.
  grab_loop B.
  assert (HL : forall f seen c,
     to_out (A:=unit) (iloop f 1 B (mkL_g_parse_reason seen) c) = parse_reason_f f seen c).
  { clear c. induction f as [|f IH]; intros seen [p t r]; [reflexivity|].
    cbn [parse_reason_f iloop]. unfold B at 1. imp_unfold.
    destruct r as [|b r]; [reflexivity|]. imp_unfold.
    unfold is, CR, LF. destruct (N.eqb b 13).
    - destruct r as [|b2 r]; [reflexivity|]. imp_unfold.
      destruct (N.eqb b2 10); [|reflexivity]. cbn [drop g_parse_reason_m1].
      destruct seen; reflexivity.
    - destruct (N.eqb b 10).
      + cbn [drop g_parse_reason_m1]. destruct seen; reflexivity.
      + unfold reason_byte, is, SP. rewrite in_rng_range.
        change (N.leb 128 b) with (128 <=? b). rewrite ?N.ltb_antisym.
        (* whatever boolean form the source gives the class test (negated disjunction, conjunction of negations,
           `<` for `!(>=)`): split on its four atoms *)
        destruct (N.eqb b 9), (N.eqb b 32), (in_range 33 126 b), (128 <=? b); cbn [negb andb orb];
          try reflexivity; unfold set_g_parse_reason_m1; rewrite IH; rewrite ?orb_true_r, ?orb_false_r; reflexivity. }
  imp_unfold. unfold set_g_parse_reason_m1.
  specialize (HL fuel false c). unfold to_out in HL.
  destruct (iloop _ _ _ _ _) as [a l' c'|l'|e l'|f0 l'|x l' c']; try exact HL.
  destruct x; exact HL.
Qed.
