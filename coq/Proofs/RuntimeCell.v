(* Proofs/RuntimeCell.v -- the cached runtime backend id of src/simd/runtime.rs as a
   transition system: any number of threads, each executing
       feature = load(Relaxed); if feature == 0 { feature = detect(); store(feature, Relaxed) }
   A relaxed load may return any value of the cell's modification order that is not older
   than what the thread has already observed (per-location coherence); detect() returns a
   fixed d <> 0 (the CPU does not change).  Every thread ends with feature = d, under every
   interleaving. *)
From Coq Require Import List NArith Lia Arith.
Import ListNotations.

Section Cell.
Variable d : N.
Hypothesis d_nonzero : d <> 0%N.

Inductive pc := Start | Loaded (v : N) | Detected | Finished (feature : N).

Record thread := mkthread { t_pc : pc; t_seen : nat }.   (* index into the modification order *)
Record state := mkstate { mo : list N;                   (* modification order, oldest first *)
                          threads : list thread }.

Definition init (n : nat) : state := mkstate [0%N] (repeat (mkthread Start 0) n).

Fixpoint set_nth {A} (i : nat) (x : A) (l : list A) : list A :=
  match l, i with
  | [], _ => []
  | _ :: r, O => x :: r
  | y :: r, S j => y :: set_nth j x r
  end.

Inductive step : state -> state -> Prop :=
| SLoad : forall s i t j v,
    nth_error (threads s) i = Some t -> t_pc t = Start ->
    t_seen t <= j -> nth_error (mo s) j = Some v ->
    step s (mkstate (mo s) (set_nth i (mkthread (Loaded v) j) (threads s)))
| SBranch0 : forall s i t,
    nth_error (threads s) i = Some t -> t_pc t = Loaded 0%N ->
    step s (mkstate (mo s) (set_nth i (mkthread Detected (t_seen t)) (threads s)))
| SBranchN : forall s i t v,
    nth_error (threads s) i = Some t -> t_pc t = Loaded v -> v <> 0%N ->
    step s (mkstate (mo s) (set_nth i (mkthread (Finished v) (t_seen t)) (threads s)))
| SStore : forall s i t,
    nth_error (threads s) i = Some t -> t_pc t = Detected ->
    step s (mkstate (mo s ++ [d]) (set_nth i (mkthread (Finished d) (length (mo s))) (threads s))).

Inductive reachable (n : nat) : state -> Prop :=
| RInit : reachable n (init n)
| RStep : forall s s', reachable n s -> step s s' -> reachable n s'.

Definition val_ok (v : N) : Prop := v = 0%N \/ v = d.
Definition pc_ok (p : pc) : Prop :=
  match p with
  | Start | Detected => True
  | Loaded v => val_ok v
  | Finished v => v = d
  end.
Definition inv (s : state) : Prop :=
  Forall val_ok (mo s) /\ Forall (fun t => pc_ok (t_pc t)) (threads s).

Lemma Forall_set_nth {A} (P : A -> Prop) i x l : Forall P l -> P x -> Forall P (set_nth i x l).
Proof.
  revert i; induction l as [|y r IH]; intros i Hl Hx; [destruct i; constructor|].
  inversion Hl; subst. destruct i; cbn; constructor; auto.
Qed.
Lemma Forall_nth_error {A} (P : A -> Prop) l i x : Forall P l -> nth_error l i = Some x -> P x.
Proof.
  revert i; induction l as [|y r IH]; intros i Hl Hn; [destruct i; discriminate|].
  inversion Hl; subst. destruct i; cbn in Hn; [injection Hn as <-; assumption|eauto].
Qed.

Lemma inv_init n : inv (init n).
Proof.
  split; cbn.
  - constructor; [left; reflexivity|constructor].
  - apply Forall_forall. intros t Ht. apply repeat_spec in Ht. subst. exact I.
Qed.

Lemma inv_step s s' : inv s -> step s s' -> inv s'.
Proof.
  intros [Hm Ht] Hs.
  inversion Hs as [s0 i t j v Hn Hp Hj Hv | s0 i t Hn Hp | s0 i t v Hn Hp Hv | s0 i t Hn Hp]; subst; cbn; split; auto.
  - apply Forall_set_nth; auto. cbn. eapply Forall_nth_error; eauto.
  - apply Forall_set_nth; auto. exact I.
  - apply Forall_set_nth; auto. cbn.
    pose proof (Forall_nth_error _ _ _ _ Ht Hn) as Hq. cbn in Hq. rewrite Hp in Hq. cbn in Hq.
    destruct Hq as [Hq|Hq]; [contradiction|exact Hq].
  - apply Forall_app. split; auto. constructor; [right; reflexivity|constructor].
  - apply Forall_set_nth; auto. reflexivity.
Qed.

Theorem runtime_cell_safe : forall n s, reachable n s ->
  inv s /\
  forall i t v, nth_error (threads s) i = Some t -> t_pc t = Finished v -> v = d.
Proof.
  intros n s Hr.
  assert (Hi : inv s) by (induction Hr; [apply inv_init|eapply inv_step; eauto]).
  split; [exact Hi|]. intros i t v Hn Hp. destruct Hi as [_ Ht].
  pose proof (Forall_nth_error _ _ _ _ Ht Hn) as H. cbn in H. rewrite Hp in H. exact H.
Qed.
End Cell.
