(* Lift.v -- from operations to programs.

   TieIter.v shows, operation by operation, that the methods of `Bytes` translated from src/iter.rs
   (Generated/Iter.v: three addresses, every `*p` / `add` / `sub` / `from_raw_parts` a checked step) compute
   what the suffix-list operations of Cursor.v compute.  The functions translated from src/lib.rs
   (Generated/Lib.v, LibApi.v, Loops.v) are PROGRAMS over those operations, in the monads of Cursor.v and
   Imp.v.  This file lifts the per-operation statement to every such program:

     * `bP p` / `bI m` : a syntax tree for the program p / m (ret, bind, the primitive operations, loops,
       locals, exceptions, calls); `if` / `match` / `let` of the translated text are Coq's own, so a tree is
       a Coq FUNCTION of the values bound so far.  Trees are built by a tactic that only looks at the shape
       of the term, never at what it computes (Proofs/LiftLib.v);
     * `cP d` / `cI d` : the ADDRESS-LEVEL program read off a tree: the same control structure, with every
       primitive operation replaced by the translated iter.rs method over (base, memory, three addresses);
     * `lift_sound` : for every base address B, every buffer `data` placed there and every cursor state c
       standing for a position in it, the address-level program started from the three addresses of c does
       exactly what the cursor-level program does from c: same value, same locals, same exception, final
       addresses = those of the final cursor; where the cursor-level program is a Fault, so is the
       address-level one.  Hence (with the no-fault theorems of Thm/C01.v) the address-level run of a whole
       parse executes no checked pointer operation outside [B, B + length data). *)
From Coq Require Import List NArith Bool Arith Lia.
From HV Require Import Cursor Ptr Imp ImpLib.
From HV.Generated Require Import Iter.
From HV.Proofs Require Import TieIter.
Import ListNotations.

(* ---------------------------------------------------------------- address-level monads *)
Inductive qout (A : Type) :=
| QDone (a : A) (s : pst)
| QPart
| QFail (e : err)
| QFault (f : fault).
Arguments QDone {A}. Arguments QPart {A}. Arguments QFail {A}. Arguments QFault {A}.
Definition QP (A : Type) := pst -> qout A.

Definition qp_ret {A} (a : A) : QP A := fun s => QDone a s.
Definition qp_bind {A C} (m : QP A) (k : A -> QP C) : QP C := fun s =>
  match m s with
  | QDone a s' => k a s'
  | QPart => QPart
  | QFail e => QFail e
  | QFault f => QFault f
  end.

Section ImpQ.
Context {L R Bk : Type}.
Inductive qires (A : Type) :=
| QIDone (a : A) (l : L) (s : pst)
| QIPart (l : L)
| QIFail (e : err) (l : L)
| QIFault (f : fault) (l : L)
| QIExc (x : ctl R Bk) (l : L) (s : pst).
Arguments QIDone {A}. Arguments QIPart {A}. Arguments QIFail {A}. Arguments QIFault {A}. Arguments QIExc {A}.
Definition QI (A : Type) := L -> pst -> qires A.

Definition qi_ret {A} (a : A) : QI A := fun l s => QIDone a l s.
Definition qi_bind {A C} (m : QI A) (k : A -> QI C) : QI C := fun l s =>
  match m l s with
  | QIDone a l' s' => k a l' s'
  | QIPart l' => QIPart l'
  | QIFail e l' => QIFail e l'
  | QIFault f l' => QIFault f l'
  | QIExc x l' s' => QIExc x l' s'
  end.
Definition qi_lift {A} (p : QP A) : QI A := fun l s =>
  match p s with
  | QDone a s' => QIDone a l s'
  | QPart => QIPart l
  | QFail e => QIFail e l
  | QFault f => QIFault f l
  end.
Definition qi_get : QI L := fun l s => QIDone l l s.
Definition qi_set (f : L -> L) : QI unit := fun l s => QIDone tt (f l) s.
Definition qi_part {A} : QI A := fun l _ => QIPart l.
Definition qi_fail {A} (e : err) : QI A := fun l _ => QIFail e l.
Definition qi_fault {A} (f : fault) : QI A := fun l _ => QIFault f l.
Definition qi_throw {A} (x : ctl R Bk) : QI A := fun l s => QIExc x l s.
Fixpoint qi_loop (f : nat) (lbl : nat) (body : QI unit) : QI Bk :=
  match f with
  | O => qi_fault OutOfFuel
  | S f' => fun l s =>
      match body l s with
      | QIDone _ l' s' => qi_loop f' lbl body l' s'
      | QIExc (Cnt k) l' s' => if Nat.eqb k lbl then qi_loop f' lbl body l' s' else QIExc (Cnt k) l' s'
      | QIExc (Brk k v) l' s' => if Nat.eqb k lbl then QIDone v l' s' else QIExc (Brk k v) l' s'
      | QIExc (Ret r) l' s' => QIExc (Ret r) l' s'
      | QIPart l' => QIPart l'
      | QIFail e l' => QIFail e l'
      | QIFault f l' => QIFault f l'
      end
  end.
Definition qi_fun (m : QI R) : QI R := fun l s =>
  match m l s with
  | QIExc (Ret r) l' s' => QIDone r l' s'
  | QIExc _ l' _ => QIFault Unreachable l'
  | other => other
  end.
Definition qi_run (m : QI R) (l0 : L) : QP R := fun s =>
  match qi_fun m l0 s with
  | QIDone a _ s' => QDone a s'
  | QIPart _ => QPart
  | QIFail e _ => QFail e
  | QIFault f _ => QFault f
  | QIExc _ _ _ => QFault Unreachable
  end.
End ImpQ.
Arguments QIDone {L R Bk A}. Arguments QIPart {L R Bk A}. Arguments QIFail {L R Bk A}.
Arguments QIFault {L R Bk A}. Arguments QIExc {L R Bk A}.
Arguments QI : clear implicits.
Arguments qires : clear implicits.

Definition qi_sub {L R Bk L2 R2 B2} (body : QI L2 R2 B2 R2) (init : L -> L2) (fin : L2 -> L -> L)
  : QI L R Bk R2 := fun l s =>
  match qi_fun body (init l) s with
  | QIDone n lh s' => QIDone n (fin lh l) s'
  | QIPart lh => QIPart (fin lh l)
  | QIFail e lh => QIFail e (fin lh l)
  | QIFault f lh => QIFault f (fin lh l)
  | QIExc _ lh _ => QIFault Unreachable (fin lh l)
  end.

Definition qi_sub_catch {L R Bk L2 R2 B2} (body : QI L2 R2 B2 R2) (init : L -> L2) (fin : L2 -> L -> L)
  : QI L R Bk (rval R2) := fun l s =>
  match qi_fun body (init l) s with
  | QIDone n lh s' => QIDone (RComplete n) (fin lh l) s'
  | QIPart lh => QIDone RPartial (fin lh l) s
  | QIFail e lh => QIDone (RErr e) (fin lh l) s
  | QIFault f lh => QIFault f (fin lh l)
  | QIExc _ lh _ => QIFault Unreachable (fin lh l)
  end.

(* ---------------------------------------------------------------- the primitive operations, address level *)
Section Prims.
Variable m : pmem.

Definition of_q {A A'} (conv : A' -> A) (q : Q A') : QP A := fun s =>
  match q m s with PDone a s' => QDone (conv a) s' | PFault f => QFault f end.

Definition a_peek : QP (option N) := of_q (fun x => x) i_peek.
Definition a_next_opt : QP (option N) := of_q (fun x => x) i_next.
Definition a_advance (n : nat) : QP unit := of_q (fun x => x) (i_advance n).
Definition a_bump : QP unit := of_q (fun x => x) i_bump.
Definition a_pos : QP nat := of_q (fun x => x) i_pos.
Definition a_remaining : QP nat := of_q (fun x => x) i_len.
Definition a_peek_ahead (n : nat) : QP (option N) := of_q (fun x => x) (i_peek_ahead n).
Definition a_slice : QP sl := of_q (read_slice m) i_slice.
Definition a_slice_skip (k : nat) : QP sl := of_q (read_slice m) (i_slice_skip k).
Definition a_peek_n (n : nat) : QP (option (list N)) :=
  of_q (option_map (fun pl => sl_bytes (read_slice m pl))) (i_peek_n n).
(* `bytes.as_ref().as_ptr() as usize`, as an offset from the base address *)
Definition a_addr : QP nat := of_q (fun pl : nat * nat => fst pl - pm_base m) i_as_ref.
(* `bytes.as_ref()` as a byte string *)
Definition a_rest_bytes : QP (list N) := of_q (fun pl => sl_bytes (read_slice m pl)) i_as_ref.
(* a K-byte vector load from `bytes.as_ref().as_ptr()` *)
Definition a_load_block (K : nat) : QP (list N) :=
  of_q (fun pl => sl_bytes (read_slice m pl)) (load_q K).
End Prims.

(* ---------------------------------------------------------------- syntax trees *)
Section Lift.
Variable B : nat.
Variable data : list N.
Let m := mkpmem B data.

Definition simP {A} (q : QP A) (p : P A) : Prop :=
  forall c, repr data c ->
  match p c with
  | Done a c' => q (pst_of B c) = QDone a (pst_of B c') /\ repr data c'
  | Part => q (pst_of B c) = QPart
  | Fail e => q (pst_of B c) = QFail e
  | Fault _ => exists f, q (pst_of B c) = QFault f
  end.

Definition simI {L R Bk A} (q : QI L R Bk A) (p : I L R Bk A) : Prop :=
  forall l c, repr data c ->
  match p l c with
  | IDone a l' c' => q l (pst_of B c) = QIDone a l' (pst_of B c') /\ repr data c'
  | IPart l' => q l (pst_of B c) = QIPart l'
  | IFail e l' => q l (pst_of B c) = QIFail e l'
  | IFault _ l' => exists f, q l (pst_of B c) = QIFault f l'
  | IExc x l' c' => q l (pst_of B c) = QIExc x l' (pst_of B c') /\ repr data c'
  end.

Inductive bP : forall A : Type, P A -> Type :=
| bP_ret A (a : A) : bP A (ret a)
| bP_bind A C (p : P A) (k : A -> P C) : bP A p -> (forall a, bP C (k a)) -> bP C (bind p k)
| bP_part A : bP A part
| bP_fail A e : bP A (fail e)
| bP_fault A f : bP A (fault_ f)
| bP_peek : bP _ peek
| bP_next_opt : bP _ next_opt
| bP_advance n : bP _ (advance n)
| bP_bump : bP _ bump
| bP_pos : bP _ pos
| bP_addr : bP _ addr
| bP_remaining : bP _ remaining
| bP_peek_ahead n : bP _ (peek_ahead n)
| bP_slice : bP _ slice
| bP_slice_skip k : bP _ (slice_skip k)
| bP_peek_n n : bP _ (peek_n n)
| bP_rest_bytes : bP _ rest_bytes
| bP_load_block K : bP _ (load_block K)
| bP_irun L R Bk (body : I L R Bk R) l0 : bI L R Bk R body -> bP R (irun body l0)
(* a computation that comes with its own address-level implementation (a scanner of the environment) *)
| bP_ext A (p : P A) (q : QP A) : simP q p -> bP A p
(* the same computation written differently (pointwise) *)
| bP_eq A (p p' : P A) : (forall c, p c = p' c) -> bP A p -> bP A p'
with bI : forall L R Bk A : Type, I L R Bk A -> Type :=
| bI_ret L R Bk A (a : A) : bI L R Bk A (iret a)
| bI_bind L R Bk A C (p : I L R Bk A) (k : A -> I L R Bk C) :
    bI L R Bk A p -> (forall a, bI L R Bk C (k a)) -> bI L R Bk C (ibind p k)
| bI_lift L R Bk A (p : P A) : bP A p -> bI L R Bk A (ilift p)
| bI_get L R Bk : bI L R Bk L iget
| bI_set L R Bk f : bI L R Bk unit (iset f)
| bI_part L R Bk A : bI L R Bk A ipart
| bI_fail L R Bk A e : bI L R Bk A (ifail e)
| bI_fault L R Bk A f : bI L R Bk A (ifault f)
| bI_throw L R Bk A x : bI L R Bk A (ithrow x)
| bI_guard L R Bk b : bI L R Bk unit (iguard b)
| bI_guard_idx L R Bk b : bI L R Bk unit (iguard_idx b)
| bI_return L R Bk A r : bI L R Bk A (ireturn r)
| bI_loop L R Bk f lbl body : bI L R Bk unit body -> bI L R Bk Bk (iloop f lbl body)
| bI_fun L R Bk body : bI L R Bk R body -> bI L R Bk R (ifun body)
| bI_sub L R Bk L2 R2 B2 (body : I L2 R2 B2 R2) (init : L -> L2) (fin : L2 -> L -> L) :
    bI L2 R2 B2 R2 body -> bI L R Bk R2 (isub body init fin)
| bI_sub_catch L R Bk L2 R2 B2 (body : I L2 R2 B2 R2) (init : L -> L2) (fin : L2 -> L -> L) :
    bI L2 R2 B2 R2 body -> bI L R Bk (rval R2) (isub_catch body init fin).

(* ---------------------------------------------------------------- the address-level program of a tree *)
Fixpoint cP {A} {p : P A} (d : bP A p) : QP A :=
  match d with
  | bP_ret _ a => qp_ret a
  | bP_bind _ _ _ _ d1 d2 => qp_bind (cP d1) (fun a => cP (d2 a))
  | bP_part _ => fun _ => QPart
  | bP_fail _ e => fun _ => QFail e
  | bP_fault _ f => fun _ => QFault f
  | bP_peek => a_peek m
  | bP_next_opt => a_next_opt m
  | bP_advance n => a_advance m n
  | bP_bump => a_bump m
  | bP_pos => a_pos m
  | bP_addr => a_addr m
  | bP_remaining => a_remaining m
  | bP_peek_ahead n => a_peek_ahead m n
  | bP_slice => a_slice m
  | bP_slice_skip k => a_slice_skip m k
  | bP_peek_n n => a_peek_n m n
  | bP_rest_bytes => a_rest_bytes m
  | bP_load_block K => a_load_block m K
  | bP_irun _ _ _ _ l0 d1 => qi_run (cI d1) l0
  | bP_ext _ _ q _ => q
  | bP_eq _ _ _ _ d1 => cP d1
  end
with cI {L R Bk A} {p : I L R Bk A} (d : bI L R Bk A p) : QI L R Bk A :=
  match d with
  | bI_ret _ _ _ _ a => qi_ret a
  | bI_bind _ _ _ _ _ _ _ d1 d2 => qi_bind (cI d1) (fun a => cI (d2 a))
  | bI_lift _ _ _ _ _ d1 => qi_lift (cP d1)
  | bI_get _ _ _ => qi_get
  | bI_set _ _ _ f => qi_set f
  | bI_part _ _ _ _ => qi_part
  | bI_fail _ _ _ _ e => qi_fail e
  | bI_fault _ _ _ _ f => qi_fault f
  | bI_throw _ _ _ _ x => qi_throw x
  | bI_guard _ _ _ b => if b then qi_ret tt else qi_fault ArithOverflow
  | bI_guard_idx _ _ _ b => if b then qi_ret tt else qi_fault LoadOOB
  | bI_return _ _ _ _ r =>
      match r with RComplete a => qi_throw (Ret a) | RPartial => qi_part | RErr e => qi_fail e end
  | bI_loop _ _ _ f lbl _ d1 => qi_loop f lbl (cI d1)
  | bI_fun _ _ _ _ d1 => qi_fun (cI d1)
  | bI_sub _ _ _ _ _ _ _ init fin d1 => qi_sub (cI d1) init fin
  | bI_sub_catch _ _ _ _ _ _ _ init fin d1 => qi_sub_catch (cI d1) init fin
  end.

(* ---------------------------------------------------------------- the primitives simulate (TieIter.v) *)
Ltac prim := unfold a_peek, a_next_opt, a_advance, a_bump, a_pos, a_remaining, a_peek_ahead, a_slice, a_slice_skip,
                    a_peek_n, a_addr, a_rest_bytes, a_load_block, of_q.

Lemma sim_peek : simP (a_peek m) peek.
Proof. intros c H. unfold peek. prim. unfold m. rewrite tie_iter_peek by exact H. split; [reflexivity|exact H]. Qed.
Lemma sim_next_opt : simP (a_next_opt m) next_opt.
Proof.
  intros c H. pose proof (tie_iter_next B data c H) as T. destruct (next_opt c); try contradiction.
  destruct T as [T1 T2]. prim. unfold m. rewrite T1. split; [reflexivity|exact T2].
Qed.
Lemma sim_advance n : simP (a_advance m n) (advance n).
Proof.
  intros c H. pose proof (tie_iter_advance B data n c H) as T. destruct (advance n c); try contradiction.
  - destruct T as [T1 T2]. prim. unfold m. rewrite T1. destruct a. split; [reflexivity|exact T2].
  - destruct T as [f0 T]. exists f0. prim. unfold m. rewrite T. reflexivity.
Qed.
Lemma i_bump_advance s : i_bump m s = i_advance 1 m s.
Proof. unfold i_bump, qbind, qret. destruct (i_advance 1 m s); reflexivity. Qed.
Lemma sim_bump : simP (a_bump m) bump.
Proof.
  intros c H. pose proof (sim_advance 1 c H) as T. unfold bump. unfold a_advance, of_q in T. prim.
  rewrite i_bump_advance. exact T.
Qed.
Lemma sim_pos : simP (a_pos m) pos.
Proof. intros c H. unfold pos. prim. unfold m. rewrite tie_iter_pos. split; [reflexivity|exact H]. Qed.
Lemma sim_remaining : simP (a_remaining m) remaining.
Proof. intros c H. unfold remaining. prim. unfold m. rewrite tie_iter_len. split; [reflexivity|exact H]. Qed.
Lemma sim_addr : simP (a_addr m) addr.
Proof.
  intros c H. unfold addr. prim. unfold m. destruct (tie_iter_as_ref B data c H) as [T _]. rewrite T.
  cbn [fst pm_base]. replace (B + apos c - B) with (apos c) by lia. split; [reflexivity|exact H].
Qed.
Lemma sim_rest_bytes : simP (a_rest_bytes m) rest_bytes.
Proof.
  intros c H. unfold rest_bytes. prim. unfold m. destruct (tie_iter_as_ref B data c H) as [T1 T2]. rewrite T1, T2.
  split; [reflexivity|exact H].
Qed.
Lemma sim_peek_ahead n : simP (a_peek_ahead m n) (peek_ahead n).
Proof.
  intros c H. pose proof (tie_iter_peek_ahead B data n c H) as T. destruct (peek_ahead n c); try contradiction.
  - destruct T as [T1 ->]. prim. unfold m. rewrite T1. split; [reflexivity|exact H].
  - destruct T as [f0 T]. exists f0. prim. unfold m. rewrite T. reflexivity.
Qed.
Lemma sim_slice : simP (a_slice m) slice.
Proof.
  intros c H. pose proof (tie_iter_slice B data c H) as T. destruct (slice c); try contradiction.
  destruct T as (pl & T1 & T2 & T3). prim. unfold m. rewrite T1, T2. split; [reflexivity|exact T3].
Qed.
Lemma sim_slice_skip k : simP (a_slice_skip m k) (slice_skip k).
Proof.
  intros c H. pose proof (tie_iter_slice_skip B data k c H) as T. destruct (slice_skip k c); try contradiction.
  - destruct T as (pl & T1 & T2 & T3). prim. unfold m. rewrite T1, T2. split; [reflexivity|exact T3].
  - destruct T as [f0 T]. exists f0. prim. unfold m. rewrite T. reflexivity.
Qed.
Lemma sim_peek_n n : simP (a_peek_n m n) (peek_n n).
Proof.
  intros c H. destruct (tie_iter_peek_n B data n c H) as (o & T1 & T2). unfold peek_n. prim. unfold m.
  rewrite T1, T2. split; [reflexivity|exact H].
Qed.
Lemma sim_load_block K : simP (a_load_block m K) (load_block K).
Proof.
  intros c H. pose proof (tie_iter_load_block B data K c H) as T. unfold load_block.
  destruct (take K (rest c)) as [bs|].
  - destruct T as (pl & T1 & T2). prim. unfold m. rewrite T1, T2. split; [reflexivity|exact H].
  - destruct T as [f0 T]. exists f0. prim. unfold m. rewrite T. reflexivity.
Qed.

(* ---------------------------------------------------------------- the combinators preserve simulation *)
Lemma sim_bind A C (q : QP A) (p : P A) (qk : A -> QP C) (k : A -> P C) :
  simP q p -> (forall a, simP (qk a) (k a)) -> simP (qp_bind q qk) (bind p k).
Proof.
  intros H1 H2 c Hc. specialize (H1 c Hc). unfold bind, qp_bind.
  destruct (p c) as [a c'| |e|f].
  - destruct H1 as [-> Hc']. apply H2. exact Hc'.
  - rewrite H1. reflexivity.
  - rewrite H1. reflexivity.
  - destruct H1 as [f0 ->]. eauto.
Qed.

Lemma simI_bind L R Bk A C (q : QI L R Bk A) (p : I L R Bk A) (qk : A -> QI L R Bk C) (k : A -> I L R Bk C) :
  simI q p -> (forall a, simI (qk a) (k a)) -> simI (qi_bind q qk) (ibind p k).
Proof.
  intros H1 H2 l c Hc. specialize (H1 l c Hc). unfold ibind, qi_bind.
  destruct (p l c) as [a l' c'|l'|e l'|f l'|x l' c'].
  - destruct H1 as [-> Hc']. apply H2. exact Hc'.
  - rewrite H1. reflexivity.
  - rewrite H1. reflexivity.
  - destruct H1 as [f0 ->]. eauto.
  - destruct H1 as [-> Hc']. split; [reflexivity|exact Hc'].
Qed.

Lemma simI_lift L R Bk A (q : QP A) (p : P A) : simP q p -> simI (L:=L) (R:=R) (Bk:=Bk) (qi_lift q) (ilift p).
Proof.
  intros H l c Hc. specialize (H c Hc). unfold ilift, qi_lift.
  destruct (p c) as [a c'| |e|f].
  - destruct H as [-> Hc']. split; [reflexivity|exact Hc'].
  - rewrite H. reflexivity.
  - rewrite H. reflexivity.
  - destruct H as [f0 ->]. eauto.
Qed.

Lemma simI_loop L R Bk (q : QI L R Bk unit) (p : I L R Bk unit) lbl :
  simI q p -> forall f, simI (qi_loop f lbl q) (iloop f lbl p).
Proof.
  intros H f. induction f as [|f IH]; intros l c Hc.
  - cbn [iloop qi_loop]. unfold ifault, qi_fault. eauto.
  - cbn [iloop qi_loop]. specialize (H l c Hc).
    destruct (p l c) as [a l' c'|l'|e l'|f1 l'|x l' c'].
    + destruct H as [-> Hc']. apply IH. exact Hc'.
    + rewrite H. reflexivity.
    + rewrite H. reflexivity.
    + destruct H as [f0 ->]. eauto.
    + destruct H as [-> Hc']. destruct x as [k v|k|r].
      * destruct (Nat.eqb k lbl); split; try reflexivity; exact Hc'.
      * destruct (Nat.eqb k lbl); [apply IH; exact Hc'|split; [reflexivity|exact Hc']].
      * split; [reflexivity|exact Hc'].
Qed.

Lemma simI_fun L R Bk (q : QI L R Bk R) (p : I L R Bk R) : simI q p -> simI (qi_fun q) (ifun p).
Proof.
  intros H l c Hc. specialize (H l c Hc). unfold ifun, qi_fun.
  destruct (p l c) as [a l' c'|l'|e l'|f1 l'|x l' c'].
  - destruct H as [-> Hc']. split; [reflexivity|exact Hc'].
  - rewrite H. reflexivity.
  - rewrite H. reflexivity.
  - destruct H as [f0 ->]. eauto.
  - destruct H as [-> Hc']. destruct x; [eauto| eauto |split; [reflexivity|exact Hc']].
Qed.

Lemma sim_run L R Bk (q : QI L R Bk R) (p : I L R Bk R) l0 : simI q p -> simP (qi_run q l0) (irun p l0).
Proof.
  intros H c Hc. pose proof (simI_fun _ _ _ _ _ H l0 c Hc) as T. unfold irun, qi_run.
  destruct (ifun p l0 c) as [a l' c'|l'|e l'|f1 l'|x l' c'].
  - destruct T as [-> Hc']. split; [reflexivity|exact Hc'].
  - rewrite T. reflexivity.
  - rewrite T. reflexivity.
  - destruct T as [f0 ->]. eauto.
  - destruct T as [-> Hc']. eauto.
Qed.

Lemma simI_sub L R Bk L2 R2 B2 (q : QI L2 R2 B2 R2) (p : I L2 R2 B2 R2) (init : L -> L2) (fin : L2 -> L -> L) :
  simI q p -> simI (L:=L) (R:=R) (Bk:=Bk) (qi_sub q init fin) (isub p init fin).
Proof.
  intros H l c Hc. pose proof (simI_fun _ _ _ _ _ H (init l) c Hc) as T. unfold isub, qi_sub.
  destruct (ifun p (init l) c) as [a l' c'|l'|e l'|f1 l'|x l' c'].
  - destruct T as [-> Hc']. split; [reflexivity|exact Hc'].
  - rewrite T. reflexivity.
  - rewrite T. reflexivity.
  - destruct T as [f0 ->]. eauto.
  - destruct T as [-> Hc']. eauto.
Qed.

Lemma simI_sub_catch L R Bk L2 R2 B2 (q : QI L2 R2 B2 R2) (p : I L2 R2 B2 R2) (init : L -> L2) (fin : L2 -> L -> L) :
  simI q p -> simI (L:=L) (R:=R) (Bk:=Bk) (qi_sub_catch q init fin) (isub_catch p init fin).
Proof.
  intros H l c Hc. pose proof (simI_fun _ _ _ _ _ H (init l) c Hc) as T. unfold isub_catch, qi_sub_catch.
  destruct (ifun p (init l) c) as [a l' c'|l'|e l'|f1 l'|x l' c'].
  - destruct T as [-> Hc']. split; [reflexivity|exact Hc'].
  - rewrite T. split; [reflexivity|exact Hc].
  - rewrite T. split; [reflexivity|exact Hc].
  - destruct T as [f0 ->]. eauto.
  - destruct T as [-> Hc']. eauto.
Qed.

(* ---------------------------------------------------------------- soundness of the lifting *)
Scheme bP_mut := Induction for bP Sort Prop
  with bI_mut := Induction for bI Sort Prop.
Combined Scheme b_mutind from bP_mut, bI_mut.

Theorem lift_sound :
  (forall A p (d : bP A p), simP (cP d) p) /\
  (forall L R Bk A p (d : bI L R Bk A p), simI (cI d) p).
Proof.
  apply b_mutind; intros; cbn [cP cI].
  - intros c Hc. split; [reflexivity|exact Hc].
  - apply sim_bind; assumption.
  - intros c Hc. reflexivity.
  - intros c Hc. reflexivity.
  - intros c Hc. unfold fault_. eauto.
  - apply sim_peek.
  - apply sim_next_opt.
  - apply sim_advance.
  - apply sim_bump.
  - apply sim_pos.
  - apply sim_addr.
  - apply sim_remaining.
  - apply sim_peek_ahead.
  - apply sim_slice.
  - apply sim_slice_skip.
  - apply sim_peek_n.
  - apply sim_rest_bytes.
  - apply sim_load_block.
  - apply sim_run. assumption.
  - assumption.
  - intros c Hc. rewrite <- e. apply H. exact Hc.
  - intros l c Hc. split; [reflexivity|exact Hc].
  - apply simI_bind; assumption.
  - apply simI_lift. assumption.
  - intros l c Hc. split; [reflexivity|exact Hc].
  - intros l c Hc. split; [reflexivity|exact Hc].
  - intros l c Hc. reflexivity.
  - intros l c Hc. reflexivity.
  - intros l c Hc. unfold ifault, qi_fault. eauto.
  - intros l c Hc. split; [reflexivity|exact Hc].
  - intros l c Hc. unfold iguard. destruct b; [split; [reflexivity|exact Hc]|unfold ifault, qi_fault; eauto].
  - intros l c Hc. unfold iguard_idx. destruct b; [split; [reflexivity|exact Hc]|unfold ifault, qi_fault; eauto].
  - intros l c Hc. unfold ireturn. destruct r; [split; [reflexivity|exact Hc]|reflexivity|reflexivity].
  - apply simI_loop. assumption.
  - apply simI_fun. assumption.
  - apply simI_sub. assumption.
  - apply simI_sub_catch. assumption.
Qed.

End Lift.
