(* Proofs/Clean.v -- what the bytes consumed by the reference header parser look like:
   no NUL, no CR that is not followed by LF (C05: head_clean), and no empty line before the
   one that ends the head (C03: framing). *)
From Coq Require Import List NArith ZArith Lia Bool ZifyBool ZifyN ZifyNat.
From HV Require Import Cursor Scan Model Api Spec Oracle.
From HV.Proofs Require Import Base RefFacts StartLine Headers Refine Entries.
Import ListNotations.

(* no LF that is immediately followed by an empty line (LF, or CR LF) *)
Fixpoint blank_free (l : list N) : bool :=
  match l with
  | [] => true
  | b :: r =>
      (negb (is 10 b) ||
       match r with
       | c :: r' => negb (is 10 c) && negb (is 13 c && match r' with d :: _ => is 10 d | [] => false end)
       | [] => true
       end) && blank_free r
  end.

(* the list does not begin with an empty line *)
Definition not_eol_start (l : list N) : bool :=
  match l with
  | c :: r' => negb (is 10 c) && negb (is 13 c && match r' with d :: _ => is 10 d | [] => false end)
  | [] => true
  end.

Lemma blank_free_cons b r : blank_free (b :: r) = (negb (is 10 b) || not_eol_start r) && blank_free r.
Proof. reflexivity. Qed.

Definition plain (b : N) : bool := negb (is 0 b) && negb (is 13 b) && negb (is 10 b).

Lemma head_clean_plain b r : plain b = true -> head_clean (b :: r) = head_clean r.
Proof.
  unfold plain. intros H. apply andb_prop in H as [H H10]. apply andb_prop in H as [H0 H13].
  cbn [head_clean]. apply negb_true_iff in H0, H13. rewrite H0, H13. reflexivity.
Qed.
Lemma blank_free_plain b r : plain b = true -> blank_free (b :: r) = blank_free r.
Proof.
  unfold plain. intros H. apply andb_prop in H as [_ H10]. rewrite blank_free_cons, H10. reflexivity.
Qed.
Lemma not_eol_plain b r : plain b = true -> not_eol_start (b :: r) = true.
Proof.
  unfold plain. intros H. apply andb_prop in H as [H H10]. apply andb_prop in H as [_ H13].
  cbn [not_eol_start]. apply negb_true_iff in H13. rewrite H10, H13. reflexivity.
Qed.

(* a consumed segment: clean, free of empty lines, and what follows it *)
Record seg (q : list N) : Prop := mkseg {
  seg_clean : head_clean q = true;
  seg_free : blank_free q = true
}.

Lemma seg_nil : seg [].
Proof. split; reflexivity. Qed.
Lemma seg_plain b q : plain b = true -> seg q -> seg (b :: q).
Proof. intros Hb [H1 H2]. split; [rewrite head_clean_plain; auto|rewrite blank_free_plain; auto]. Qed.

Lemma value_char_plain b : value_char b = true -> plain b = true.
Proof.
  unfold value_char, plain, is, in_range. intros H.
  destruct (N.eqb_spec b 0); [subst; discriminate|]. destruct (N.eqb_spec b 13); [subst; discriminate|].
  destruct (N.eqb_spec b 10); [subst; discriminate|]. reflexivity.
Qed.
Lemma ws_plain b : ws b = true -> plain b = true.
Proof. intros H. apply value_char_plain. destruct (ws_facts b H) as (_ & _ & _ & Hv & _). exact Hv. Qed.
Lemma tchar_plain b : tchar b = true -> plain b = true.
Proof.
  intros H. unfold plain.
  destruct (is 0 b) eqn:E0; [destruct (is_0 b E0) as (_ & _ & _ & _ & Ht); congruence|].
  destruct (is 13 b) eqn:E13; [destruct (is_13 b E13) as (_ & _ & _ & _ & Ht & _); congruence|].
  destruct (is 10 b) eqn:E10; [destruct (is_10 b E10) as (_ & _ & _ & _ & Ht & _); congruence|]. reflexivity.
Qed.

(* CR LF / LF followed by something that is not an empty line *)
Lemma seg_crlf q : seg q -> not_eol_start q = true -> seg (13%N :: 10%N :: q).
Proof.
  intros [H1 H2] Hn. split.
  - cbn [head_clean]. change (is 0 13) with false. change (is 13 13) with true. change (is 10 10) with true.
    cbn [andb]. change (is 0 10) with false. change (is 13 10) with false. exact H1.
  - rewrite !blank_free_cons. change (is 10 13) with false. change (is 10 10) with true. cbn [negb orb andb].
    rewrite Hn, H2. reflexivity.
Qed.
Lemma seg_lf q : seg q -> not_eol_start q = true -> seg (10%N :: q).
Proof.
  intros [H1 H2] Hn. split.
  - cbn [head_clean]. change (is 0 10) with false. change (is 13 10) with false. exact H1.
  - rewrite blank_free_cons. change (is 10 10) with true. cbn [negb orb]. rewrite Hn, H2. reflexivity.
Qed.

(* consumed prefix of a stage: l = q ++ r *)
Definition consumed {A} (P : list N -> Prop) (l : list N) (x : rres A) : Prop :=
  match x with
  | ROk _ _ r => exists q, l = q ++ r /\ P q
  | _ => True
  end.

Lemma consumed_cons {A} (P Q : list N -> Prop) b l (x : rres A) :
  consumed Q l x -> (forall q, Q q -> P (b :: q)) -> consumed P (b :: l) x.
Proof.
  destruct x as [a o r| |]; cbn [consumed]; auto.
  intros [q [-> Hq]] H. exists (b :: q). split; [reflexivity|auto].
Qed.
Lemma consumed_cons2 {A} (P Q : list N -> Prop) b b2 l (x : rres A) :
  consumed Q l x -> (forall q, Q q -> P (b :: b2 :: q)) -> consumed P (b :: b2 :: l) x.
Proof.
  destruct x as [a o r| |]; cbn [consumed]; auto.
  intros [q [-> Hq]] H. exists (b :: b2 :: q). split; [reflexivity|auto].
Qed.
Lemma consumed_map {A B} (P : list N -> Prop) l (x : rres A) (g : A -> B) :
  consumed P l x -> consumed P l (rbind x (fun a o r => ROk (g a) o r)).
Proof. destruct x; cbn [rbind consumed]; auto. Qed.

Lemma span_stop p l b r : snd (span p l) = b :: r -> p b = false.
Proof.
  induction l as [|x l IH]; cbn [span]; [discriminate|].
  destruct (p x) eqn:E.
  - destruct (span p l) as [a t]. cbn [snd] in *. exact IH.
  - cbn [snd]. intros [= <- _]. exact E.
Qed.

(* ---- a generic pass: P is any predicate on consumed segments closed under the ways the header
   grammar extends a segment ---- *)
Section Pass.
Variable hc : hcfg.
Variable P : list N -> Prop.
Hypothesis P_plain : forall b q, plain b = true -> P q -> P (b :: q).
Hypothesis P_lf : P [10%N].
Hypothesis P_crlf : P [13%N; 10%N].
Hypothesis P_fold_crlf : forall b q, ws b = true -> P (b :: q) -> P (13%N :: 10%N :: b :: q).
Hypothesis P_fold_lf : forall b q, ws b = true -> P (b :: q) -> P (10%N :: b :: q).
(* a stripped run of leading whitespace (only with allow_space_before_first_header_name) *)
Hypothesis P_ws_run : allow_space_before_first_header_name hc = true ->
  forall w, w <> [] -> Forall (fun b => ws b = true) w -> P w.

Lemma P_span p l q : (forall b, p b = true -> plain b = true) -> P q -> P (fst (span p l) ++ q).
Proof.
  intros Hp Hq. induction l as [|b r IH]; [exact Hq|]. cbn [span].
  destruct (p b) eqn:E; [|exact Hq]. destruct (span p r) as [a t]. cbn [fst app] in *.
  apply P_plain; [apply Hp; exact E|exact IH].
Qed.

Lemma ref_invalid_P ign e off l : consumed P l (ref_invalid ign e off l).
Proof.
  unfold ref_invalid. destruct ign; cbn [negb consumed]; [|exact I].
  set (p := fun b => negb (is 13 b || is 10 b || is 0 b)).
  pose proof (span_app p l) as Hs. pose proof (span_stop p l) as Hst.
  assert (Hp : forall b, p b = true -> plain b = true).
  { intros b Hb. unfold plain, p in *. apply negb_true_iff in Hb.
    apply orb_false_iff in Hb as [Hb H0]. apply orb_false_iff in Hb as [H13 H10]. rewrite H0, H13, H10. reflexivity. }
  pose proof (fun q => P_span p l q Hp) as Hj.
  destruct (span p l) as [junk r]. cbn [fst snd] in *.
  destruct r as [|b r1]; [exact I|]. specialize (Hst b r1 eq_refl).
  destruct (is 0 b) eqn:E0; [exact I|].
  destruct (is 10 b) eqn:E10.
  - apply is_eq in E10. subst b. exists (junk ++ [10%N]). split; [rewrite Hs, <- app_assoc; reflexivity|].
    apply Hj. exact P_lf.
  - assert (E13 : b = 13%N).
    { unfold p in Hst. apply negb_false_iff in Hst. rewrite E0, E10 in Hst. rewrite !orb_false_r in Hst. apply is_eq. exact Hst. }
    subst b. destruct r1 as [|b2 r2]; [exact I|]. destruct (is 10 b2) eqn:E10'; [|exact I].
    apply is_eq in E10'. subst b2. exists (junk ++ [13%N; 10%N]). split; [rewrite Hs, <- app_assoc; reflexivity|].
    apply Hj. exact P_crlf.
Qed.

Lemma ref_value_lines_P : forall n l voff racc off, length l <= n ->
  consumed P l (ref_value_lines hc voff racc off l).
Proof.
  induction n as [|n IH]; intros l voff racc off Hn.
  { destruct l; [exact I|cbn [length] in Hn; lia]. }
  destruct l as [|b r]; [exact I|]. cbn [length] in Hn. cbn [ref_value_lines].
  destruct (value_char b) eqn:Ev.
  { eapply consumed_cons; [apply IH; lia|]. intros q Hq. apply P_plain; [apply value_char_plain; exact Ev|exact Hq]. }
  destruct (is 13 b) eqn:E13.
  { apply is_eq in E13. subst b.
    destruct r as [|b2 r2]; [exact I|]. destruct (is 10 b2) eqn:E10; cbn [negb]; [|exact I].
    apply is_eq in E10. subst b2. cbn [length] in Hn.
    assert (Fin : consumed P (13%N :: 10%N :: r2) (ROk (Sub voff (rev' (drop_while is_trim racc))) (2 + off) r2)).
    { exists [13%N; 10%N]. split; [reflexivity|exact P_crlf]. }
    destruct (allow_obsolete_multiline_headers hc); [|exact Fin].
    destruct r2 as [|b3 r3]; [exact I|]. destruct (ws b3) eqn:Ew; [|exact Fin].
    pose proof (IH (b3 :: r3) voff (10%N :: 13%N :: racc) (2 + off) ltac:(cbn [length] in *; lia)) as H.
    destruct (ref_value_lines hc voff (10%N :: 13%N :: racc) (2 + off) (b3 :: r3)) as [a o rr| |]; cbn [consumed] in *; auto.
    destruct H as [q [Hq HP]]. destruct q as [|x q'].
    - (* the continuation consumed nothing: impossible, it consumed at least the line end *)
      cbn [app] in Hq. subst rr. exists [13%N; 10%N]. split; [reflexivity|exact P_crlf].
    - cbn [app] in Hq. injection Hq as <- ->. exists (13%N :: 10%N :: b3 :: q'). split; [reflexivity|].
      apply P_fold_crlf; assumption. }
  destruct (is 10 b) eqn:E10.
  { apply is_eq in E10. subst b.
    assert (Fin : consumed P (10%N :: r) (ROk (Sub voff (rev' (drop_while is_trim racc))) (S off) r)).
    { exists [10%N]. split; [reflexivity|exact P_lf]. }
    destruct (allow_obsolete_multiline_headers hc); [|exact Fin].
    destruct r as [|b3 r3]; [exact I|]. destruct (ws b3) eqn:Ew; [|exact Fin].
    pose proof (IH (b3 :: r3) voff (10%N :: racc) (S off) ltac:(lia)) as H.
    destruct (ref_value_lines hc voff (10%N :: racc) (S off) (b3 :: r3)) as [a o rr| |]; cbn [consumed] in *; auto.
    destruct H as [q [Hq HP]]. destruct q as [|x q'].
    - cbn [app] in Hq. subst rr. exists [10%N]. split; [reflexivity|exact P_lf].
    - cbn [app] in Hq. injection Hq as <- ->. exists (10%N :: b3 :: q'). split; [reflexivity|].
      apply P_fold_lf; assumption. }
  apply consumed_map. apply ref_invalid_P.
Qed.

Lemma ref_value_start_P : forall n l off, length l <= n ->
  consumed P l (ref_value_start hc off l).
Proof.
  induction n as [|n IH]; intros l off Hn.
  { destruct l; [exact I|cbn [length] in Hn; lia]. }
  destruct l as [|b r]; [exact I|]. cbn [length] in Hn. cbn [ref_value_start].
  destruct (ws b) eqn:Ew.
  { eapply consumed_cons; [apply IH; lia|]. intros q Hq. apply P_plain; [apply ws_plain; exact Ew|exact Hq]. }
  destruct (value_char b) eqn:Ev.
  { apply (ref_value_lines_P (S (length r))). cbn [length]. lia. }
  destruct (is 13 b) eqn:E13.
  { apply is_eq in E13. subst b.
    destruct r as [|b2 r2]; [exact I|]. destruct (is 10 b2) eqn:E10; cbn [negb]; [|exact I].
    apply is_eq in E10. subst b2. cbn [length] in Hn.
    assert (Fin : consumed P (13%N :: 10%N :: r2) (ROk (Sub off []) (2 + off) r2)).
    { exists [13%N; 10%N]. split; [reflexivity|exact P_crlf]. }
    destruct (allow_obsolete_multiline_headers hc); [|exact Fin].
    destruct r2 as [|b3 r3]; [exact I|]. destruct (ws b3) eqn:Ew3; [|exact Fin].
    pose proof (IH (b3 :: r3) (2 + off) ltac:(cbn [length] in *; lia)) as H.
    destruct (ref_value_start hc (2 + off) (b3 :: r3)) as [a o rr| |]; cbn [consumed] in *; auto.
    destruct H as [q [Hq HP]]. destruct q as [|x q'].
    - cbn [app] in Hq. subst rr. exists [13%N; 10%N]. split; [reflexivity|exact P_crlf].
    - cbn [app] in Hq. injection Hq as <- ->. exists (13%N :: 10%N :: b3 :: q'). split; [reflexivity|].
      apply P_fold_crlf; assumption. }
  destruct (is 10 b) eqn:E10.
  { apply is_eq in E10. subst b.
    assert (Fin : consumed P (10%N :: r) (ROk (Sub off []) (S off) r)).
    { exists [10%N]. split; [reflexivity|exact P_lf]. }
    destruct (allow_obsolete_multiline_headers hc); [|exact Fin].
    destruct r as [|b3 r3]; [exact I|]. destruct (ws b3) eqn:Ew3; [|exact Fin].
    pose proof (IH (b3 :: r3) (S off) ltac:(lia)) as H.
    destruct (ref_value_start hc (S off) (b3 :: r3)) as [a o rr| |]; cbn [consumed] in *; auto.
    destruct H as [q [Hq HP]]. destruct q as [|x q'].
    - cbn [app] in Hq. subst rr. exists [10%N]. split; [reflexivity|exact P_lf].
    - cbn [app] in Hq. injection Hq as <- ->. exists (10%N :: b3 :: q'). split; [reflexivity|].
      apply P_fold_lf; assumption. }
  apply consumed_map. apply ref_invalid_P.
Qed.

Lemma ref_value_P name off l : consumed P l (ref_value hc name off l).
Proof.
  unfold ref_value. pose proof (ref_value_start_P (length l) l off (le_n _)) as H.
  destruct (ref_value_start hc off l); cbn [rbind consumed] in *; auto.
Qed.

Lemma consumed_prefix {A} (a l : list N) (x : rres A) :
  consumed P l x -> (forall q, P q -> P (a ++ q)) -> consumed P (a ++ l) x.
Proof.
  destruct x as [v o r| |]; cbn [consumed]; auto.
  intros [q [-> Hq]] H. exists (a ++ q). split; [rewrite app_assoc; reflexivity|auto].
Qed.

Lemma P_plain_list a q : Forall (fun b => plain b = true) a -> P q -> P (a ++ q).
Proof. induction 1 as [|x a Hx Ha IH]; intros Hq; [exact Hq|]. cbn [app]. apply P_plain; auto. Qed.

Lemma span_forall p l : Forall (fun b => p b = true) (fst (span p l)).
Proof.
  induction l as [|b r IH]; [constructor|]. cbn [span]. destruct (p b) eqn:E; [|constructor].
  destruct (span p r) as [a t]. cbn [fst] in *. constructor; assumption.
Qed.

(* one header line (any kind but the empty line, which is P [10] / P [13;10] as well) *)
Lemma ref_header_line_P first off l : consumed P l (ref_header_line hc first off l).
Proof.
  unfold ref_header_line. destruct l as [|b r]; [exact I|].
  destruct (is 13 b) eqn:E13.
  { apply is_eq in E13. subst b. destruct r as [|b2 r2]; [exact I|]. destruct (is 10 b2) eqn:E10; [|exact I].
    apply is_eq in E10. subst b2. exists [13%N; 10%N]. split; [reflexivity|exact P_crlf]. }
  destruct (is 10 b) eqn:E10.
  { apply is_eq in E10. subst b. exists [10%N]. split; [reflexivity|exact P_lf]. }
  destruct (negb (tchar b)) eqn:Et.
  { destruct (allow_space_before_first_header_name hc && first && ws b) eqn:Esp.
    - apply andb_prop in Esp as [Esp Ew]. apply andb_prop in Esp as [Esp _].
      pose proof (span_app ws (b :: r)) as Hs. pose proof (span_forall ws (b :: r)) as Hall.
      destruct (span ws (b :: r)) as [w r'] eqn:Es. cbn [fst snd] in *.
      exists w. split; [exact Hs|]. apply P_ws_run; [exact Esp| |exact Hall].
      cbn [span] in Es. rewrite Ew in Es. destruct (span ws r). injection Es as <- _. discriminate.
    - apply ref_invalid_P. }
  apply negb_false_iff in Et.
  pose proof (span_app tchar (b :: r)) as Hs. pose proof (span_forall tchar (b :: r)) as Hall.
  destruct (span tchar (b :: r)) as [name r1]. cbn [fst snd] in *.
  assert (Hname : forall q, P q -> P (name ++ q)).
  { intros q Hq. apply P_plain_list; [|exact Hq]. eapply Forall_impl; [|exact Hall]. intros x Hx. apply tchar_plain. exact Hx. }
  rewrite Hs. destruct r1 as [|c r2]; [exact I|].
  destruct (is 58 c) eqn:E58.
  { apply consumed_prefix; [|exact Hname]. apply is_eq in E58. subst c.
    eapply consumed_cons; [apply ref_value_P|]. intros q Hq. apply P_plain; [reflexivity|exact Hq]. }
  destruct (allow_spaces_after_header_name hc && ws c) eqn:Esa.
  - pose proof (span_app ws (c :: r2)) as Hw. pose proof (span_forall ws (c :: r2)) as Hwall.
    destruct (span ws (c :: r2)) as [w r3]. cbn [fst snd] in *.
    assert (Hws : forall q, P q -> P (w ++ q)).
    { intros q Hq. apply P_plain_list; [|exact Hq]. eapply Forall_impl; [|exact Hwall]. intros x Hx. apply ws_plain. exact Hx. }
    rewrite Hw. destruct r3 as [|c' r4]; [exact I|].
    apply consumed_prefix; [|exact Hname]. apply consumed_prefix; [|exact Hws].
    destruct (is 58 c') eqn:E58'.
    + apply is_eq in E58'. subst c'.
      eapply consumed_cons; [apply ref_value_P|]. intros q Hq. apply P_plain; [reflexivity|exact Hq].
    + apply ref_invalid_P.
  - apply consumed_prefix; [|exact Hname]. apply ref_invalid_P.
Qed.
End Pass.

(* ================= instance 1: no NUL, no bare CR (C05) ================= *)
Definition Pc (q : list N) : Prop := forall t, head_clean t = true -> head_clean (q ++ t) = true.

Lemma Pc_nil : Pc []. Proof. intros t H. exact H. Qed.
Lemma Pc_app a b : Pc a -> Pc b -> Pc (a ++ b).
Proof. intros Ha Hb t Ht. rewrite <- app_assoc. apply Ha. apply Hb. exact Ht. Qed.
Lemma Pc_plain b q : plain b = true -> Pc q -> Pc (b :: q).
Proof. intros Hb Hq t Ht. cbn [app]. rewrite head_clean_plain by exact Hb. apply Hq. exact Ht. Qed.
Lemma Pc_lf : Pc [10%N].
Proof. intros t Ht. cbn [app head_clean]. change (is 0 10) with false. change (is 13 10) with false. exact Ht. Qed.
Lemma Pc_crlf : Pc [13%N; 10%N].
Proof.
  intros t Ht. cbn [app head_clean]. change (is 0 13) with false. change (is 13 13) with true.
  change (is 10 10) with true. cbn [andb]. change (is 0 10) with false. change (is 13 10) with false. exact Ht.
Qed.
Lemma Pc_fold_crlf b q : ws b = true -> Pc (b :: q) -> Pc (13%N :: 10%N :: b :: q).
Proof. intros _ H. change (13%N :: 10%N :: b :: q) with ([13%N; 10%N] ++ (b :: q)). apply Pc_app; [exact Pc_crlf|exact H]. Qed.
Lemma Pc_fold_lf b q : ws b = true -> Pc (b :: q) -> Pc (10%N :: b :: q).
Proof. intros _ H. change (10%N :: b :: q) with ([10%N] ++ (b :: q)). apply Pc_app; [exact Pc_lf|exact H]. Qed.
Lemma Pc_plain_list w : Forall (fun b => plain b = true) w -> Pc w.
Proof. induction 1 as [|x w Hx Hw IH]; [exact Pc_nil|apply Pc_plain; assumption]. Qed.
Lemma Pc_ws_run (hc : hcfg) : allow_space_before_first_header_name hc = true ->
  forall w, w <> [] -> Forall (fun b => ws b = true) w -> Pc w.
Proof. intros _ w _ H. apply Pc_plain_list. eapply Forall_impl; [|exact H]. intros b Hb. apply ws_plain. exact Hb. Qed.

Definition header_line_clean hc := ref_header_line_P hc Pc Pc_plain Pc_lf Pc_crlf Pc_fold_crlf Pc_fold_lf (Pc_ws_run hc).

Lemma consumed_len {A} (P : list N -> Prop) off l (x : rres A) :
  consumed P l x -> advances0 off l x ->
  match x with ROk _ o r => exists q, l = q ++ r /\ P q /\ o = length q + off | _ => True end.
Proof.
  destruct x as [a o r| |]; cbn [consumed advances0]; auto.
  intros [q [Hl Hq]] [k (Hk & -> & Hr)]. exists q. repeat split; auto.
  assert (length l = length q + length r) by (rewrite Hl, app_length; reflexivity).
  rewrite Hr, skipn_length in H. lia.
Qed.

Lemma ref_header_block_clean : forall hc f cap hs off l n hs',
  ref_header_block hc f cap hs off l = (Complete n, hs') ->
  exists q r, l = q ++ r /\ Pc q /\ n = length q + off.
Proof.
  induction f as [|f IH]; intros cap hs off l n hs' H; cbn [ref_header_block] in H; [discriminate|].
  pose proof (header_line_clean hc (null hs) off l) as Hc.
  pose proof (ref_header_line_adv hc (null hs) off l) as Hadv. apply advances_weaken in Hadv.
  pose proof (consumed_len Pc off l _ Hc Hadv) as Hq.
  destruct (ref_header_line hc (null hs) off l) as [x o r| |e]; try discriminate.
  destruct Hq as [q (Hl & HP & ->)].
  assert (Rec : forall hs0, ref_header_block hc f cap hs0 (length q + off) r = (Complete n, hs') ->
                exists q0 r0, l = q0 ++ r0 /\ Pc q0 /\ n = length q0 + off).
  { intros hs0 H0. destruct (IH _ _ _ _ _ _ H0) as [q2 [r2 (Hl2 & HP2 & ->)]].
    exists (q ++ q2), r2. rewrite Hl, Hl2, app_assoc, app_length. repeat split; [apply Pc_app; assumption|lia]. }
  destruct x as [| |nm v].
  - injection H as <- <-. exists q, r. auto.
  - eapply Rec; eauto.
  - destruct (Nat.ltb (length hs) cap); [eapply Rec; eauto|discriminate].
Qed.

(* ---- start lines ---- *)
Lemma uri_char_plain b : uri_char b = true -> plain b = true.
Proof.
  unfold uri_char, plain, is, in_range. intros H.
  destruct (N.eqb_spec b 0); [subst; discriminate|]. destruct (N.eqb_spec b 13); [subst; discriminate|].
  destruct (N.eqb_spec b 10); [subst; discriminate|]. reflexivity.
Qed.
Lemma reason_char_plain b : reason_char b = true -> plain b = true.
Proof.
  unfold reason_char, plain, is, in_range. intros H.
  destruct (N.eqb_spec b 0); [subst; discriminate|]. destruct (N.eqb_spec b 13); [subst; discriminate|].
  destruct (N.eqb_spec b 10); [subst; discriminate|]. reflexivity.
Qed.
Lemma sp_plain b : is 32 b = true -> plain b = true.
Proof. intros H. apply is_eq in H. subst. reflexivity. Qed.
Lemma digit_plain b : digit b = true -> plain b = true.
Proof.
  unfold digit, plain, is, in_range. intros H.
  destruct (N.eqb_spec b 0); [subst; discriminate|]. destruct (N.eqb_spec b 13); [subst; discriminate|].
  destruct (N.eqb_spec b 10); [subst; discriminate|]. reflexivity.
Qed.

Lemma Pc_span p l : (forall b, p b = true -> plain b = true) -> Pc (fst (span p l)).
Proof.
  intros Hp. apply Pc_plain_list. eapply Forall_impl; [|apply span_forall]. intros b Hb. apply Hp. exact Hb.
Qed.

Lemma ref_empty_lines_clean : forall n l off, length l <= n -> consumed Pc l (ref_empty_lines off l).
Proof.
  induction n as [|n IH]; intros l off Hn.
  { destruct l; [exact I|cbn [length] in Hn; lia]. }
  destruct l as [|b r]; [exact I|]. cbn [length] in Hn. cbn [ref_empty_lines].
  destruct (is 13 b) eqn:E13.
  - apply is_eq in E13. subst b. destruct r as [|b2 r2]; [exact I|]. destruct (is 10 b2) eqn:E10; [|exact I].
    apply is_eq in E10. subst b2.
    eapply consumed_cons2; [apply IH; cbn [length] in Hn; lia|]. intros q Hq.
    change (13%N :: 10%N :: q) with ([13%N; 10%N] ++ q). apply Pc_app; [exact Pc_crlf|exact Hq].
  - destruct (is 10 b) eqn:E10.
    + apply is_eq in E10. subst b. eapply consumed_cons; [apply IH; lia|]. intros q Hq.
      change (10%N :: q) with ([10%N] ++ q). apply Pc_app; [exact Pc_lf|exact Hq].
    + exists []. split; [reflexivity|exact Pc_nil].
Qed.

Lemma ref_spaces_clean on off l : consumed Pc l (ref_spaces on off l).
Proof.
  unfold ref_spaces. destruct on; [|exists []; split; [reflexivity|exact Pc_nil]].
  pose proof (span_app (is 32) l) as Hs. pose proof (Pc_span (is 32) l sp_plain) as Hp.
  destruct (span (is 32) l) as [s r]. cbn [fst snd] in *. destruct r; [exact I|]. exists s. auto.
Qed.

Lemma span_one_clean {A} p l (Hp : forall b, p b = true -> plain b = true) (a : A) o b r' m :
  span p l = (m, b :: r') -> plain b = true -> consumed Pc l (ROk a o r').
Proof.
  intros Hs Hb. pose proof (span_app p l) as Hl. pose proof (Pc_span p l Hp) as HP. rewrite Hs in Hl, HP. cbn [fst snd] in *.
  exists (m ++ [b]). split; [rewrite Hl, <- app_assoc; reflexivity|].
  apply Pc_app; [exact HP|apply Pc_plain; [exact Hb|exact Pc_nil]].
Qed.

Lemma ref_method_clean off l : consumed Pc l (ref_method off l).
Proof.
  unfold ref_method. destruct (span tchar l) as [m r] eqn:Es. destruct r as [|b r']; [exact I|].
  destruct (null m); [exact I|]. destruct (is 32 b) eqn:E; [|exact I].
  eapply (span_one_clean tchar l tchar_plain); [exact Es|apply sp_plain; exact E].
Qed.
Lemma ref_target_clean off l : consumed Pc l (ref_target off l).
Proof.
  unfold ref_target. destruct (span uri_char l) as [m r] eqn:Es. destruct r as [|b r']; [exact I|].
  destruct (is 32 b) eqn:E; cbn [negb]; [|exact I]. destruct (null m); [exact I|]. destruct (negb (utf8_valid m)); [exact I|].
  eapply (span_one_clean uri_char l uri_char_plain); [exact Es|apply sp_plain; exact E].
Qed.
Lemma ref_version_clean off l : consumed Pc l (ref_version off l).
Proof.
  unfold ref_version. rewrite take_spec. destruct (Nat.leb_spec 8 (length l)) as [H8|H8].
  - assert (Fin : forall lit, list_eqb (firstn 8 l) lit = true -> Forall (fun b => plain b = true) lit ->
              forall (v : N), consumed Pc l (ROk v (8 + off) (skipn 8 l))).
    { intros lit He Hl v. apply list_eqb_eq in He. exists (firstn 8 l). split; [symmetry; apply firstn_skipn|].
      rewrite He. apply Pc_plain_list. exact Hl. }
    destruct (list_eqb (firstn 8 l) (HTTP1dot ++ [48%N])) eqn:E1; [apply (Fin _ E1); repeat constructor|].
    destruct (list_eqb (firstn 8 l) (HTTP1dot ++ [49%N])) eqn:E2; [apply (Fin _ E2); repeat constructor|exact I].
  - destruct (is_prefix l HTTP1dot); exact I.
Qed.
Lemma ref_eol_clean e off l : consumed Pc l (ref_eol e off l).
Proof.
  unfold ref_eol. destruct l as [|b r]; [exact I|]. destruct (is 13 b) eqn:E13.
  - apply is_eq in E13. subst b. destruct r as [|b2 r2]; [exact I|]. destruct (is 10 b2) eqn:E10; [|exact I].
    apply is_eq in E10. subst b2. exists [13%N; 10%N]. split; [reflexivity|exact Pc_crlf].
  - destruct (is 10 b) eqn:E10; [|exact I]. apply is_eq in E10. subst b. exists [10%N]. split; [reflexivity|exact Pc_lf].
Qed.

Lemma consumed_rbind {A B} l (x : rres A) (g : A -> nat -> list N -> rres B) :
  consumed Pc l x -> (forall a o r, consumed Pc r (g a o r)) -> consumed Pc l (rbind x g).
Proof.
  destruct x as [a o r| |]; cbn [rbind consumed]; auto.
  intros [q [-> Hq]] Hg. specialize (Hg a o r). destruct (g a o r) as [b o' r'| |]; cbn [consumed] in *; auto.
  destruct Hg as [q' [-> Hq']]. exists (q ++ q'). split; [rewrite app_assoc; reflexivity|apply Pc_app; assumption].
Qed.

Lemma ref_request_line_clean ms buf : consumed Pc buf (snd (ref_request_line ms buf)).
Proof.
  unfold ref_request_line.
  assert (H : consumed Pc buf
    (rbind (ref_empty_lines 0 buf) (fun _ o1 l1 =>
     rbind (ref_method o1 l1) (fun _ o2 l2 =>
     rbind (rbind (ref_spaces ms o2 l2) (fun _ o l => ref_target o l)) (fun _ o3 l3 =>
     rbind (rbind (ref_spaces ms o3 l3) (fun _ o l => ref_version o l)) (fun _ o4 l4 =>
     ref_eol NewLine o4 l4)))))).
  { apply consumed_rbind; [apply (ref_empty_lines_clean (length buf)); lia|]. intros.
    apply consumed_rbind; [apply ref_method_clean|]. intros.
    apply consumed_rbind; [apply consumed_rbind; [apply ref_spaces_clean|intros; apply ref_target_clean]|]. intros.
    apply consumed_rbind; [apply consumed_rbind; [apply ref_spaces_clean|intros; apply ref_version_clean]|]. intros.
    apply ref_eol_clean. }
  destruct (ref_empty_lines 0 buf) as [u1 o1 l1| |e1]; cbn [rbind snd] in *; auto.
  destruct (ref_method o1 l1) as [m o2 l2| |e2]; cbn [rbind snd] in *; auto.
  destruct (rbind (ref_spaces ms o2 l2) _) as [p o3 l3| |e3]; cbn [rbind snd] in *; auto.
  destruct (rbind (ref_spaces ms o3 l3) (fun _ o l => ref_version o l)) as [v o4 l4| |e4]; cbn [rbind snd] in *; auto.
Qed.

Theorem ref_request_head_clean cf cap buf n :
  rq_status (ref_request cf cap buf) = Complete n -> head_clean (firstn n buf) = true.
Proof.
  unfold ref_request.
  pose proof (ref_request_line_clean (allow_multiple_spaces_in_request_line_delimiters cf) buf) as Hc.
  pose proof (ref_request_line_adv (allow_multiple_spaces_in_request_line_delimiters cf) buf) as Ha.
  destruct (ref_request_line _ buf) as [st r]. cbn [snd] in *.
  pose proof (consumed_len Pc 0 buf _ Hc Ha) as Hq.
  destruct r as [u o l| |e]; try discriminate. destruct Hq as [q (Hl & HP & ->)].
  destruct (ref_headers (request_hcfg cf) cap (length q + 0) l) as [s hs] eqn:Eh. cbn [rq_status]. intros ->.
  unfold ref_headers in Eh. apply ref_header_block_clean in Eh as [q2 [r2 (Hl2 & HP2 & ->)]].
  rewrite Hl, Hl2, app_assoc. replace (length q2 + (length q + 0)) with (length (q ++ q2)) by (rewrite app_length; lia).
  rewrite firstn_app, Nat.sub_diag, firstn_all. cbn [firstn]. rewrite app_nil_r.
  pose proof (Pc_app q q2 HP HP2 [] eq_refl) as H. rewrite app_nil_r in H. exact H.
Qed.

Lemma ref_sp_clean e off l : consumed Pc l (ref_sp e off l).
Proof.
  unfold ref_sp. destruct l as [|b r]; [exact I|]. destruct (is 32 b) eqn:E; [|exact I].
  exists [b]. split; [reflexivity|]. apply Pc_plain; [apply sp_plain; exact E|exact Pc_nil].
Qed.
Lemma ref_code_clean off l : consumed Pc l (ref_code off l).
Proof.
  unfold ref_code. destruct l as [|a r1]; [exact I|]. destruct (digit a) eqn:Ea; cbn [negb]; [|exact I].
  destruct r1 as [|b r2]; [exact I|]. destruct (digit b) eqn:Eb; cbn [negb]; [|exact I].
  destruct r2 as [|c r3]; [exact I|]. destruct (digit c) eqn:Ec; cbn [negb]; [|exact I].
  exists [a; b; c]. split; [reflexivity|].
  repeat (apply Pc_plain; [apply digit_plain; assumption|]). exact Pc_nil.
Qed.
Lemma ref_reason_clean off l : consumed Pc l (ref_reason off l).
Proof.
  unfold ref_reason. pose proof (span_app reason_char l) as Hs. pose proof (Pc_span reason_char l reason_char_plain) as HP.
  destruct (span reason_char l) as [t r]. cbn [fst snd] in *.
  pose proof (ref_eol_clean Status (length t + off) r) as He.
  destruct (ref_eol Status (length t + off) r) as [u o r'| |e]; cbn [consumed] in *; auto.
  destruct He as [q [-> Hq]]. exists (t ++ q). split; [rewrite Hs, app_assoc; reflexivity|apply Pc_app; assumption].
Qed.
Lemma ref_after_code_clean ms off l : consumed Pc l (ref_after_code ms off l).
Proof.
  unfold ref_after_code. destruct l as [|b r]; [exact I|].
  destruct (is 32 b) eqn:E32.
  - eapply consumed_cons; [apply consumed_rbind; [apply ref_spaces_clean|intros; apply ref_reason_clean]|].
    intros q Hq. apply Pc_plain; [apply sp_plain; exact E32|exact Hq].
  - destruct (is 13 b || is 10 b); [|exact I].
    pose proof (ref_eol_clean Status off (b :: r)) as He.
    destruct (ref_eol Status off (b :: r)); cbn [consumed] in *; auto.
Qed.

Lemma ref_status_line_clean ms buf : consumed Pc buf (snd (ref_status_line ms buf)).
Proof.
  unfold ref_status_line.
  assert (H : consumed Pc buf
    (rbind (rbind (ref_empty_lines 0 buf) (fun _ o l => ref_version o l)) (fun _ o1 l1 =>
     rbind (rbind (rbind (ref_sp Version o1 l1) (fun _ o l => ref_spaces ms o l)) (fun _ o l => ref_code o l)) (fun _ o2 l2 =>
     ref_after_code ms o2 l2)))).
  { apply consumed_rbind; [apply consumed_rbind; [apply (ref_empty_lines_clean (length buf)); lia|intros; apply ref_version_clean]|]. intros.
    apply consumed_rbind; [apply consumed_rbind; [apply consumed_rbind; [apply ref_sp_clean|intros; apply ref_spaces_clean]|intros; apply ref_code_clean]|].
    intros. apply ref_after_code_clean. }
  destruct (rbind (ref_empty_lines 0 buf) _) as [v o1 l1| |e1]; cbn [rbind snd] in *; auto.
  destruct (rbind (rbind (ref_sp Version o1 l1) _) _) as [c o2 l2| |e2]; cbn [rbind snd] in *; auto.
  destruct (ref_after_code ms o2 l2) as [r o3 l3| |e3]; cbn [snd consumed] in *; auto.
Qed.

Theorem ref_response_head_clean cf cap buf n :
  rp_status (ref_response cf cap buf) = Complete n -> head_clean (firstn n buf) = true.
Proof.
  unfold ref_response.
  pose proof (ref_status_line_clean (allow_multiple_spaces_in_response_status_delimiters cf) buf) as Hc.
  pose proof (ref_status_line_adv (allow_multiple_spaces_in_response_status_delimiters cf) buf) as Ha.
  destruct (ref_status_line _ buf) as [st r]. cbn [snd] in *.
  pose proof (consumed_len Pc 0 buf _ Hc Ha) as Hq.
  destruct r as [u o l| |e]; try discriminate. destruct Hq as [q (Hl & HP & ->)].
  destruct (ref_headers (response_hcfg cf) cap (length q + 0) l) as [s hs] eqn:Eh. cbn [rp_status]. intros ->.
  unfold ref_headers in Eh. apply ref_header_block_clean in Eh as [q2 [r2 (Hl2 & HP2 & ->)]].
  rewrite Hl, Hl2, app_assoc. replace (length q2 + (length q + 0)) with (length (q ++ q2)) by (rewrite app_length; lia).
  rewrite firstn_app, Nat.sub_diag, firstn_all. cbn [firstn]. rewrite app_nil_r.
  pose proof (Pc_app q q2 HP HP2 [] eq_refl) as H. rewrite app_nil_r in H. exact H.
Qed.

Theorem ref_headers_head_clean hc cap buf n hs :
  ref_headers hc cap 0 buf = (Complete n, hs) -> head_clean (firstn n buf) = true.
Proof.
  unfold ref_headers. intros Eh. apply ref_header_block_clean in Eh as [q2 [r2 (Hl2 & HP2 & ->)]].
  rewrite Hl2, Nat.add_0_r, firstn_app, Nat.sub_diag, firstn_all. cbn [firstn]. rewrite app_nil_r.
  pose proof (HP2 [] eq_refl) as H. rewrite app_nil_r in H. exact H.
Qed.

(* ================= instance 2: no empty line before the terminating one (C03) ================= *)
Section Framing.
Variable hc : hcfg.
Let spb := allow_space_before_first_header_name hc.

Definition Pf (q : list N) : Prop :=
  q <> [] /\
  (forall t, not_eol_start t = true -> blank_free t = true -> blank_free (q ++ t) = true) /\
  (spb = false -> last q 0%N = 10%N).

Lemma last_cons_ne (b : N) q : q <> [] -> last (b :: q) 0%N = last q 0%N.
Proof. destruct q; [congruence|reflexivity]. Qed.

Lemma last_app_ne (a b : list N) : b <> [] -> last (a ++ b) 0%N = last b 0%N.
Proof.
  intros Hb. induction a as [|x a IH]; [reflexivity|]. cbn [app]. rewrite last_cons_ne; [exact IH|].
  destruct a; cbn [app]; [exact Hb|discriminate].
Qed.

Lemma Pf_plain b q : plain b = true -> Pf q -> Pf (b :: q).
Proof.
  intros Hb (Hne & H & Hl). split; [discriminate|split].
  - intros t Ht Hf. cbn [app]. rewrite blank_free_plain by exact Hb. apply H; assumption.
  - intros Hs. rewrite last_cons_ne by exact Hne. apply Hl. exact Hs.
Qed.
Lemma Pf_lf : Pf [10%N].
Proof.
  split; [discriminate|split].
  - intros t Ht Hf. cbn [app]. rewrite blank_free_cons. change (is 10 10) with true. cbn [negb orb]. rewrite Ht, Hf. reflexivity.
  - reflexivity.
Qed.
Lemma Pf_crlf : Pf [13%N; 10%N].
Proof.
  split; [discriminate|split].
  - intros t Ht Hf. cbn [app]. rewrite !blank_free_cons. change (is 10 13) with false. change (is 10 10) with true.
    cbn [negb orb andb]. rewrite Ht, Hf. reflexivity.
  - reflexivity.
Qed.
Lemma Pf_fold_crlf b q : ws b = true -> Pf (b :: q) -> Pf (13%N :: 10%N :: b :: q).
Proof.
  intros Hw (Hne & H & Hl). pose proof (ws_plain b Hw) as Hp. split; [discriminate|split].
  - intros t Ht Hf. cbn [app]. rewrite !blank_free_cons. change (is 10 13) with false. change (is 10 10) with true.
    cbn [negb orb andb]. rewrite (not_eol_plain b (q ++ t) Hp). apply (H t Ht Hf).
  - intros Hs. change (13%N :: 10%N :: b :: q) with ([13%N; 10%N] ++ (b :: q)). rewrite last_app_ne by discriminate. apply Hl. exact Hs.
Qed.
Lemma Pf_fold_lf b q : ws b = true -> Pf (b :: q) -> Pf (10%N :: b :: q).
Proof.
  intros Hw (Hne & H & Hl). pose proof (ws_plain b Hw) as Hp. split; [discriminate|split].
  - intros t Ht Hf. cbn [app]. rewrite blank_free_cons. change (is 10 10) with true. cbn [negb orb].
    rewrite (not_eol_plain b (q ++ t) Hp). apply (H t Ht Hf).
  - intros Hs. change (10%N :: b :: q) with ([10%N] ++ (b :: q)). rewrite last_app_ne by discriminate. apply Hl. exact Hs.
Qed.
Lemma Pf_ws_run : allow_space_before_first_header_name hc = true ->
  forall w, w <> [] -> Forall (fun b => ws b = true) w -> Pf w.
Proof.
  intros Hs w Hne Hw. split; [exact Hne|split].
  - intros t Ht Hf. clear Hne. induction Hw as [|x w Hx Hw IH]; [exact Hf|]. cbn [app].
    rewrite blank_free_plain by (apply ws_plain; exact Hx). exact IH.
  - unfold spb. rewrite Hs. discriminate.
Qed.

Definition header_line_framed := ref_header_line_P hc Pf Pf_plain Pf_lf Pf_crlf Pf_fold_crlf Pf_fold_lf Pf_ws_run.

Definition first_ok (l : list N) : bool :=
  match l with c :: _ => negb (is 10 c) && negb (is 13 c) | [] => true end.
Lemma first_ok_not_eol l : first_ok l = true -> not_eol_start l = true.
Proof.
  destruct l as [|c r]; [reflexivity|]. cbn [first_ok not_eol_start]. intros H. apply andb_prop in H as [H1 H2].
  rewrite H1. apply negb_true_iff in H2. rewrite H2. reflexivity.
Qed.
Lemma first_ok_app a b : a <> [] -> first_ok a = true -> first_ok (a ++ b) = true.
Proof. destruct a; [congruence|auto]. Qed.

(* a line that is not the empty line does not start with LF or CR *)
Lemma line_first_ok first off l x o r :
  ref_header_line hc first off l = ROk x o r -> x <> LEnd -> first_ok l = true.
Proof.
  unfold ref_header_line. destruct l as [|b l']; [discriminate|]. cbn [first_ok].
  destruct (is 13 b).
  { destruct l' as [|b2 l2]; [discriminate|]. destruct (is 10 b2); [|discriminate]. intros [= <- _ _] H. congruence. }
  destruct (is 10 b); [intros [= <- _ _] H; congruence|]. reflexivity.
Qed.
Lemma line_end_is_eol first off l o r :
  ref_header_line hc first off l = ROk LEnd o r ->
  exists eol, l = eol ++ r /\ (eol = [10%N] \/ eol = [13%N; 10%N]).
Proof.
  unfold ref_header_line. destruct l as [|b l']; [discriminate|].
  destruct (is 13 b) eqn:E13.
  { apply is_eq in E13. subst b. destruct l' as [|b2 l2]; [discriminate|]. destruct (is 10 b2) eqn:E10; [|discriminate].
    apply is_eq in E10. subst b2. intros [= _ <-]. exists [13%N; 10%N]. auto. }
  destruct (is 10 b) eqn:E10.
  { apply is_eq in E10. subst b. intros [= _ <-]. exists [10%N]. auto. }
  assert (Inv : forall ig e o0 l0 oo rr, ref_invalid ig e o0 l0 = ROk LEnd oo rr -> False).
  { intros ig e o0 l0 oo rr H'. unfold ref_invalid in H'. destruct ig; cbn [negb] in H'; [|discriminate].
    destruct (span _ l0) as [junk rr']. destruct rr' as [|b1 r1]; [discriminate|].
    destruct (is 0 b1); [discriminate|]. destruct (is 10 b1); [discriminate|].
    destruct r1 as [|b2 r2']; [discriminate|]. destruct (is 10 b2); discriminate. }
  assert (Val : forall name o0 l0 oo rr, ref_value hc name o0 l0 = ROk LEnd oo rr -> False).
  { intros name o0 l0 oo rr H'. unfold ref_value in H'. destruct (ref_value_start hc o0 l0); cbn [rbind] in H'; try discriminate.
    destruct (dropped a); discriminate. }
  destruct (negb (tchar b)).
  { destruct (_ && _ && _); [destruct (span ws (b :: l')); discriminate|]. intros H. exfalso. eapply Inv; eauto. }
  destruct (span tchar (b :: l')) as [name r1]. destruct r1 as [|c r2]; [discriminate|].
  destruct (is 58 c); [intros H; exfalso; eapply Val; eauto|].
  destruct (_ && _).
  - destruct (span ws (c :: r2)) as [w r3]. destruct r3 as [|c' r4]; [discriminate|].
    destruct (is 58 c'); intros H; exfalso; [eapply Val|eapply Inv]; eauto.
  - intros H. exfalso. eapply Inv; eauto.
Qed.

(* the block: everything before the terminating line is free of empty lines *)
Definition Bf (body : list N) : Prop := body = [] \/ (first_ok body = true /\ Pf body).

Lemma ref_header_block_framed : forall f cap hs off l n hs',
  ref_header_block hc f cap hs off l = (Complete n, hs') ->
  exists body eol r, l = body ++ eol ++ r /\ n = length body + length eol + off /\
                     (eol = [10%N] \/ eol = [13%N; 10%N]) /\ Bf body.
Proof.
  induction f as [|f IH]; intros cap hs off l n hs' H; cbn [ref_header_block] in H; [discriminate|].
  pose proof (header_line_framed (null hs) off l) as Hc.
  pose proof (ref_header_line_adv hc (null hs) off l) as Hadv. apply advances_weaken in Hadv.
  pose proof (consumed_len Pf off l _ Hc Hadv) as Hq.
  pose proof (line_first_ok (null hs) off l) as Hfo.
  pose proof (line_end_is_eol (null hs) off l) as Hend.
  destruct (ref_header_line hc (null hs) off l) as [x o r| |e]; try discriminate.
  destruct Hq as [q (Hl & HP & ->)].
  assert (Rec : forall hs0, x <> LEnd -> ref_header_block hc f cap hs0 (length q + off) r = (Complete n, hs') ->
                exists body eol r0, l = body ++ eol ++ r0 /\ n = length body + length eol + off /\
                     (eol = [10%N] \/ eol = [13%N; 10%N]) /\ Bf body).
  { intros hs0 Hx H0. destruct (IH _ _ _ _ _ _ H0) as [body [eol [r0 (Hl2 & -> & Heol & HB)]]].
    exists (q ++ body), eol, r0. rewrite Hl, Hl2, <- app_assoc, app_length. repeat split; [lia|exact Heol|].
    right. destruct HP as (Hne & HPf & Hlast).
    assert (Hfq : first_ok q = true).
    { specialize (Hfo x _ _ eq_refl Hx). rewrite Hl in Hfo. destruct q; [congruence|exact Hfo]. }
    split; [apply first_ok_app; assumption|].
    destruct HB as [->|[Hfb (Hneb & HPfb & Hlastb)]].
    - rewrite app_nil_r. repeat split; assumption.
    - repeat split.
      + destruct q; [congruence|discriminate].
      + intros t Ht Hf. rewrite <- app_assoc. apply HPf.
        * apply first_ok_not_eol. apply first_ok_app; assumption.
        * apply HPfb; assumption.
      + intros Hs. rewrite last_app_ne by exact Hneb. apply Hlastb. exact Hs. }
  destruct x as [| |nm v].
  - injection H as <- <-. destruct (Hend _ _ eq_refl) as [eol [Hle Heol]].
    exists [], eol, r. cbn [app length]. repeat split; [exact Hle| |exact Heol|left; reflexivity].
    assert (q = eol).
    { rewrite Hl in Hle. apply app_inv_tail in Hle. exact Hle. }
    subst q. lia.
  - eapply Rec; [discriminate|exact H].
  - destruct (Nat.ltb (length hs) cap); [eapply Rec; [discriminate|exact H]|discriminate].
Qed.

Lemma Bf_blank_free body : Bf body -> blank_free (10%N :: body) = true /\ (spb = false -> body = [] \/ last body 0%N = 10%N).
Proof.
  intros [->|[Hf (Hne & HP & Hl)]]; [split; [reflexivity|auto]|].
  split; [|auto]. rewrite blank_free_cons. change (is 10 10) with true. cbn [negb orb].
  rewrite (first_ok_not_eol _ Hf). cbn [andb]. specialize (HP [] eq_refl eq_refl). rewrite app_nil_r in HP. exact HP.
Qed.
End Framing.

(* C03 for the header block: Complete(n) ends with an empty line, and the bytes before it --
   seen after the LF that ends the start line -- contain no empty line *)
Theorem ref_headers_framing hc cap off l n hs :
  ref_headers hc cap off l = (Complete n, hs) ->
  exists body eol r, l = body ++ eol ++ r /\ n = length body + length eol + off /\
    (eol = [10%N] \/ eol = [13%N; 10%N]) /\ blank_free (10%N :: body) = true /\
    (allow_space_before_first_header_name hc = false -> body = [] \/ last body 0%N = 10%N).
Proof.
  unfold ref_headers. intros H. apply ref_header_block_framed in H as [body [eol [r (Hl & Hn & He & HB)]]].
  exists body, eol, r. apply Bf_blank_free in HB as [H1 H2]. repeat split; auto.
Qed.
