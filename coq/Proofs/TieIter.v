(* TieIter.v -- the methods of `Bytes` as translated from /repo/src/iter.rs on this run (Generated/Iter.v:
   three addresses into the caller's buffer, every dereference and pointer step a CHECKED operation)
   against the hand-written cursor operations of Cursor.v (suffix lists) that the model and the translated
   lib.rs functions are built on.  For every base address, buffer and cursor state representing a position
   in that buffer: where the Cursor.v operation returns, the translated method returns the corresponding
   value and state WITHOUT faulting -- in particular every `*p` it executes is inside the buffer -- and where
   the Cursor.v operation is a Fault (its `unsafe` precondition is violated) the translated method faults too. *)
From Coq Require Import List NArith Bool Arith Lia.
From HV Require Import Cursor Ptr Imp ImpLib.
From HV.Generated Require Import Iter.
Import ListNotations.

(* the cursor state `c` stands at a position of the buffer `data` placed at address B *)
Definition pst_of (B : nat) (c : cur) : pst :=
  mkpst (B + pre c) (B + pre c + length (tokrev c) + length (rest c)) (B + pre c + length (tokrev c)).
Definition repr (data : list N) (c : cur) : Prop :=
  exists prefix, data = prefix ++ rev (tokrev c) ++ rest c /\ length prefix = pre c.

(* a K-byte vector load at `bytes.as_ref().as_ptr()` *)
Definition load_q (K : nat) : Q (nat * nat) := qbind i_as_ref (fun r => q_raw_parts (fst r) K).

Ltac q_unfold :=
  cbv beta iota delta [qbind qret qget qput qfault q_deref q_add q_sub q_usub q_raw_parts pm_limit pm_base pm_data
                       ps_start ps_end ps_cursor pst_of
                       i_pos i_peek i_peek_ahead i_len i_is_empty i_commit i_advance i_bump
                       i_as_ref i_slice i_slice_skip i_advance_and_commit i_next i_new i_peek_n load_q].

Ltac cmp :=
  match goal with
  | |- context [Nat.ltb ?a ?b] => destruct (Nat.ltb_spec a b); try (exfalso; lia)
  | |- context [Nat.leb ?a ?b] => destruct (Nat.leb_spec a b); try (exfalso; lia)
  end; q_unfold; cbn [andb].

Lemma leb_t a b : a <= b -> Nat.leb a b = true. Proof. intros; apply Nat.leb_le; lia. Qed.
Lemma ltb_t a b : a < b -> Nat.ltb a b = true. Proof. intros; apply Nat.ltb_lt; lia. Qed.
Lemma ltb_f a b : b <= a -> Nat.ltb a b = false. Proof. intros; apply Nat.ltb_ge; lia. Qed.
Lemma leb_f a b : b < a -> Nat.leb a b = false. Proof. intros; apply Nat.leb_gt; lia. Qed.

Lemma nth_mid (p t : list N) b r : nth (length p + length t) (p ++ t ++ b :: r) 0%N = b.
Proof.
  rewrite app_assoc. rewrite app_nth2 by (rewrite app_length; lia).
  rewrite app_length. replace (length p + length t - (length p + length t)) with 0 by lia. reflexivity.
Qed.

Section Tie.
Variable B : nat.
Variable data : list N.
Let m := mkpmem B data.

Lemma repr_len c : repr data c -> length data = pre c + length (tokrev c) + length (rest c).
Proof. intros (p & -> & Hp). rewrite !app_length, rev_length. lia. Qed.

(* peek() *)
Lemma tie_iter_peek c : repr data c ->
  i_peek m (pst_of B c) = PDone (hd_error (rest c)) (pst_of B c).
Proof.
  intros H. pose proof (repr_len c H) as HL. destruct H as (p & Hd & Hp).
  destruct c as [pc t r]. cbn [pre tokrev rest] in *. unfold m. q_unfold. cbn [pre tokrev rest].
  destruct r as [|b r]; cbn [length hd_error] in *.
  - cmp. reflexivity.
  - cmp. cmp. cmp. cbn [andb].
    replace (B + pc + length t - B) with (length p + length (rev t)) by (rewrite rev_length; lia).
    rewrite Hd, nth_mid. reflexivity.
Qed.

(* next(): Option-valued, as the expanded next! macro uses it (ImpLib.next_opt) *)
Lemma tie_iter_next c : repr data c ->
  match next_opt c with
  | Done o c' => i_next m (pst_of B c) = PDone o (pst_of B c') /\ repr data c'
  | _ => False
  end.
Proof.
  intros H. pose proof (repr_len c H) as HL. destruct H as (p & Hd & Hp).
  destruct c as [pc t r]. unfold next_opt. cbn [pre tokrev rest] in *. unfold m. q_unfold. cbn [pre tokrev rest].
  destruct r as [|b r]; cbn [length] in *.
  - cmp. split; [reflexivity|]. exists p. auto.
  - cmp. cmp. cmp. cbn [andb].
    cmp. cmp. cbn [andb].
    replace (B + pc + length t - B) with (length p + length (rev t)) by (rewrite rev_length; lia).
    rewrite Hd, nth_mid. split.
    + f_equal. cbn [pre tokrev rest length]. f_equal; lia.
    + exists p. cbn [tokrev rest pre rev]. rewrite <- app_assoc. cbn [app]. auto.
Qed.

(* advance(n): the translated method faults exactly when Cursor.advance does *)
Lemma shift_spec : forall n tk l, n <= length l ->
  shift n tk l = Some (rev (firstn n l) ++ tk, skipn n l).
Proof.
  induction n as [|n IH]; intros tk l H; cbn [shift firstn skipn rev app]; [reflexivity|].
  destruct l as [|x l]; cbn [length] in H; [lia|]. rewrite IH by lia. cbn [firstn skipn rev].
  rewrite <- app_assoc. reflexivity.
Qed.
Lemma shift_none : forall n tk l, length l < n -> shift n tk l = None.
Proof.
  induction n as [|n IH]; intros tk l H; [lia|]. cbn [shift]. destruct l as [|x l]; [reflexivity|].
  apply IH. cbn [length] in H. lia.
Qed.

Lemma tie_iter_advance n c : repr data c ->
  match advance n c with
  | Done _ c' => i_advance n m (pst_of B c) = PDone tt (pst_of B c') /\ repr data c'
  | Fault _ => exists f, i_advance n m (pst_of B c) = PFault f
  | _ => False
  end.
Proof.
  intros H. pose proof (repr_len c H) as HL. destruct H as (p & Hd & Hp).
  destruct c as [pc t r]. unfold advance. cbn [pre tokrev rest] in *. unfold m. q_unfold. cbn [pre tokrev rest].
  destruct (Nat.le_gt_cases n (length r)) as [Hle|Hgt].
  - rewrite shift_spec by exact Hle. cmp. cmp. cbn [andb]. split.
    + f_equal. cbn [pre tokrev rest]. rewrite app_length, rev_length, firstn_length, skipn_length.
      rewrite Nat.min_l by lia. f_equal; lia.
    + exists p. cbn [pre tokrev rest]. split; [|exact Hp].
      rewrite rev_app_distr, rev_involutive, <- app_assoc. rewrite Hd. f_equal. f_equal.
      symmetry. apply firstn_skipn.
  - rewrite shift_none by exact Hgt. cmp. cmp. cbn [andb]. eauto.
Qed.

(* pos() and len() *)
Lemma tie_iter_pos c : i_pos m (pst_of B c) = PDone (length (tokrev c)) (pst_of B c).
Proof.
  destruct c as [pc t r]. unfold m. q_unfold. cbn [pre tokrev rest].
  cmp. f_equal. lia.
Qed.
Lemma tie_iter_len c : i_len m (pst_of B c) = PDone (length (rest c)) (pst_of B c).
Proof.
  destruct c as [pc t r]. unfold m. q_unfold. cbn [pre tokrev rest]. cmp. f_equal. lia.
Qed.

(* slice(): the (pointer, length) pair denotes exactly the slice Cursor.slice returns; commits *)
Lemma read_mid (p t r : list N) :
  firstn (length t) (skipn (length p) (p ++ t ++ r)) = t.
Proof.
  rewrite skipn_app, skipn_all, Nat.sub_diag. cbn [app skipn].
  rewrite firstn_app, firstn_all, Nat.sub_diag. cbn [firstn]. apply app_nil_r.
Qed.

Lemma tie_iter_slice c : repr data c ->
  match slice c with
  | Done s c' => exists pl, i_slice m (pst_of B c) = PDone pl (pst_of B c') /\ read_slice m pl = s /\ repr data c'
  | _ => False
  end.
Proof.
  intros H. pose proof (repr_len c H) as HL. destruct H as (p & Hd & Hp).
  destruct c as [pc t r]. unfold slice, commit. cbn [pre tokrev rest] in *. unfold m. q_unfold. cbn [pre tokrev rest].
  cmp. cmp. cmp. cbn [andb].
  eexists. split; [|split].
  - f_equal. cbn [pre tokrev rest length]. f_equal; lia.
  - unfold read_slice. cbn [fst snd pm_base pm_data]. f_equal; [lia|].
    replace (B + pc - B) with (length p) by lia.
    replace (B + pc + length t - (B + pc)) with (length (rev t)) by (rewrite rev_length; lia).
    rewrite Hd, read_mid. unfold rev'. apply rev_alt.
  - exists (p ++ rev t). cbn [tokrev rest rev app pre]. split.
    + rewrite Hd. rewrite <- app_assoc. reflexivity.
    + rewrite app_length, rev_length. lia.
Qed.

(* slice_skip(k): faults exactly when Cursor.slice_skip does (k > cursor - start) *)
Lemma drop_spec : forall k (l : list N), k <= length l -> drop k l = Some (skipn k l).
Proof.
  induction k as [|k IH]; intros l H; cbn [drop skipn]; [reflexivity|].
  destruct l as [|x l]; cbn [length] in H; [lia|]. apply IH. lia.
Qed.
Lemma drop_none : forall k (l : list N), length l < k -> drop k l = None.
Proof.
  induction k as [|k IH]; intros l H; [lia|]. cbn [drop]. destruct l as [|x l]; [reflexivity|].
  apply IH. cbn [length] in H. lia.
Qed.

Lemma tie_iter_slice_skip k c : repr data c ->
  match slice_skip k c with
  | Done s c' => exists pl, i_slice_skip k m (pst_of B c) = PDone pl (pst_of B c') /\ read_slice m pl = s /\ repr data c'
  | Fault _ => exists f, i_slice_skip k m (pst_of B c) = PFault f
  | _ => False
  end.
Proof.
  intros H. pose proof (repr_len c H) as HL. destruct H as (p & Hd & Hp).
  destruct c as [pc t r]. unfold slice_skip, commit. cbn [pre tokrev rest] in *. unfold m. q_unfold. cbn [pre tokrev rest].
  destruct (Nat.le_gt_cases k (length t)) as [Hle|Hgt].
  - rewrite drop_spec by exact Hle.
    cmp. cmp. cmp. cbn [andb].
    cmp. cmp. cmp. cbn [andb].
    eexists. split; [|split].
    + f_equal. cbn [pre tokrev rest length]. f_equal; lia.
    + unfold read_slice. cbn [fst snd pm_base pm_data]. f_equal; [lia|].
      replace (B + pc - B) with (length p) by lia.
      replace (B + pc + length t - k - (B + pc)) with (length (rev (skipn k t))) by (rewrite rev_length, skipn_length; lia).
      assert (Ht : rev t = rev (skipn k t) ++ rev (firstn k t)).
      { rewrite <- rev_app_distr, firstn_skipn. reflexivity. }
      rewrite Hd, Ht, <- app_assoc, read_mid. unfold rev'. apply rev_alt.
    + exists (p ++ rev t). cbn [tokrev rest rev app pre]. split.
      * rewrite Hd. rewrite <- app_assoc. reflexivity.
      * rewrite app_length, rev_length. lia.
  - rewrite drop_none by exact Hgt.
    repeat (first [solve [eauto] | cmp]).
Qed.

(* peek_ahead(n): faults exactly when n > len() *)
Lemma tie_iter_peek_ahead n c : repr data c ->
  match peek_ahead n c with
  | Done o c' => i_peek_ahead n m (pst_of B c) = PDone o (pst_of B c) /\ c' = c
  | Fault _ => exists f, i_peek_ahead n m (pst_of B c) = PFault f
  | _ => False
  end.
Proof.
  intros H. pose proof (repr_len c H) as HL. destruct H as (p & Hd & Hp).
  destruct c as [pc t r]. unfold peek_ahead. cbn [pre tokrev rest] in *. unfold m. q_unfold. cbn [pre tokrev rest].
  destruct (Nat.le_gt_cases n (length r)) as [Hle|Hgt].
  - rewrite drop_spec by exact Hle. cmp. cmp. cbn [andb]. split; [|reflexivity].
    destruct (skipn n r) as [|b r2] eqn:Es.
    + assert (length r <= n).
      { pose proof (skipn_length n r) as Hl. rewrite Es in Hl. cbn [length] in Hl. lia. }
      cmp. reflexivity.
    + assert (Hn : n < length r).
      { pose proof (skipn_length n r) as Hl. rewrite Es in Hl. cbn [length] in Hl. lia. }
      cmp. cmp. cmp. cbn [andb hd_error].
      replace (B + pc + length t + n - B) with (length (p ++ rev t) + n) by (rewrite app_length, rev_length; lia).
      rewrite Hd, app_assoc, app_nth2 by lia.
      replace (length (p ++ rev t) + n - length (p ++ rev t)) with n by lia.
      rewrite <- (firstn_skipn n r), Es. rewrite app_nth2 by (rewrite firstn_length; lia).
      rewrite firstn_length, Nat.min_l by lia. rewrite Nat.sub_diag. reflexivity.
  - rewrite drop_none by exact Hgt. cmp. cmp. cbn [andb]. eauto.
Qed.

(* peek_n(n): the n bytes it denotes are exactly Cursor.peek_n's *)
Lemma take_spec' : forall n (l : list N), n <= length l -> take n l = Some (firstn n l).
Proof.
  induction n as [|n IH]; intros l H; cbn [take firstn]; [reflexivity|].
  destruct l as [|x l]; cbn [length] in H; [lia|]. rewrite IH by lia. reflexivity.
Qed.
Lemma take_none' : forall n (l : list N), length l < n -> take n l = None.
Proof.
  induction n as [|n IH]; intros l H; [lia|]. cbn [take]. destruct l as [|x l]; [reflexivity|].
  rewrite IH; [reflexivity|]. cbn [length] in H. lia.
Qed.

Lemma tie_iter_peek_n n c : repr data c ->
  exists o, i_peek_n n m (pst_of B c) = PDone o (pst_of B c) /\
            option_map (fun pl => sl_bytes (read_slice m pl)) o = take n (rest c).
Proof.
  intros H. pose proof (repr_len c H) as HL. destruct H as (p & Hd & Hp).
  destruct c as [pc t r]. cbn [pre tokrev rest] in *. unfold m. q_unfold. cbn [pre tokrev rest].
  cmp. cmp. cmp. cbn [andb fst snd].
  replace (B + pc + length t + length r - (B + pc + length t)) with (length r) by lia.
  destruct (Nat.le_gt_cases n (length r)) as [Hle|Hgt].
  - cmp. eexists. split; [reflexivity|]. cbn [option_map]. rewrite take_spec' by exact Hle.
    f_equal. unfold read_slice. cbn [fst snd pm_base pm_data sl_bytes].
    replace (B + pc + length t - B) with (length (p ++ rev t)) by (rewrite app_length, rev_length; lia).
    rewrite Hd, app_assoc, skipn_app, skipn_all, Nat.sub_diag. reflexivity.
  - cmp. eexists. split; [reflexivity|]. cbn [option_map]. rewrite take_none' by exact Hgt. reflexivity.
Qed.

(* as_ref(): (cursor, end - cursor); the bytes it denotes are the unread rest *)
Lemma tie_iter_as_ref c : repr data c ->
  i_as_ref m (pst_of B c) = PDone (B + apos c, length (rest c)) (pst_of B c) /\
  sl_bytes (read_slice m (B + apos c, length (rest c))) = rest c.
Proof.
  intros H. pose proof (repr_len c H) as HL. destruct H as (p & Hd & Hp).
  destruct c as [pc t r]. unfold apos. cbn [pre tokrev rest] in *. unfold m. q_unfold. cbn [pre tokrev rest].
  cmp. cmp. cmp. cbn [andb fst snd].
  replace (B + pc + length t + length r - (B + pc + length t)) with (length r) by lia.
  split; [f_equal; f_equal; lia|].
  unfold read_slice. cbn [fst snd pm_base pm_data sl_bytes].
  replace (B + (length t + pc) - B) with (length (p ++ rev t)) by (rewrite app_length, rev_length; lia).
  rewrite Hd, app_assoc, skipn_app, skipn_all, Nat.sub_diag. cbn [skipn app]. apply firstn_all.
Qed.

(* a K-byte load at as_ref().as_ptr(): inside the buffer exactly when K bytes are left *)
Lemma tie_iter_load_block K c : repr data c ->
  match take K (rest c) with
  | Some bs => exists pl, load_q K m (pst_of B c) = PDone pl (pst_of B c) /\
                          sl_bytes (read_slice m pl) = bs
  | None => exists f, load_q K m (pst_of B c) = PFault f
  end.
Proof.
  intros H. pose proof (repr_len c H) as HL. destruct H as (p & Hd & Hp).
  destruct c as [pc t r]. cbn [pre tokrev rest] in *. unfold m. q_unfold. cbn [pre tokrev rest].
  cmp. cmp. cmp. cbn [andb fst snd].
  destruct (Nat.le_gt_cases K (length r)) as [Hle|Hgt].
  - rewrite take_spec' by exact Hle. cmp. cmp. cbn [andb]. eexists. split; [reflexivity|].
    unfold read_slice. cbn [fst snd pm_base pm_data sl_bytes].
    replace (B + pc + length t - B) with (length (p ++ rev t)) by (rewrite app_length, rev_length; lia).
    rewrite Hd, app_assoc, skipn_app, skipn_all, Nat.sub_diag. reflexivity.
  - rewrite take_none' by exact Hgt. cmp. cmp. cbn [andb]. eauto.
Qed.

End Tie.

(* Bytes::new(slice): the state the model starts from (Cursor.cur_new) *)
Lemma tie_iter_new B (buf : list N) :
  i_new (B, length buf) (mkpmem B buf) (mkpst 0 0 0) = PDone tt (pst_of B (cur_new buf)) /\ repr buf (cur_new buf).
Proof.
  q_unfold. cbn [fst snd pre tokrev rest cur_new length]. cmp. cmp. cbn [andb].
  split; [f_equal; f_equal; lia|]. exists []. auto.
Qed.
