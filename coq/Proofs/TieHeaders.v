(* TieHeaders.v -- parse_headers_iter_uninit as translated from /repo/src/lib.rs on this run
   (Generated/Lib.v: g_headers_body, eleven nested loops, the two local macros expanded, the
   slot iterator and the drop guard as pinned templates) = Model.headers_loop. *)
From Coq Require Import List NArith Bool Lia ZifyBool ZifyN Arith.
From HV Require Import Cursor Scan Model Imp ImpLib.
From HV.Generated Require Import Lib.
From HV.Proofs Require Import TieBase Mono.
Import ListNotations.
Local Open Scope N_scope.

(* ---------- library facts ---------- *)
Lemma write_slot_some : forall (a : list slot) i s, (i < length a)%nat -> exists a', write_slot i s a = Some a'.
Proof.
  induction a as [|x a IH]; intros i s H; cbn [length] in H; [lia|].
  destruct i as [|i]; cbn [write_slot]; [eauto|].
  destruct (IH i s ltac:(lia)) as [a' Ha]. rewrite Ha. eauto.
Qed.
Lemma write_slot_none : forall (a : list slot) i s, (length a <= i)%nat -> write_slot i s a = None.
Proof.
  induction a as [|x a IH]; intros i s H; cbn [length] in H; [destruct i; reflexivity|].
  destruct i as [|i]; [lia|]. cbn [write_slot]. rewrite IH by lia. reflexivity.
Qed.

Definition keep (b : N) : bool :=
  negb (N.eqb b 32) && negb (N.eqb b 9) && negb (N.eqb b 13) && negb (N.eqb b 10).
Lemma keep_trim b : keep b = negb (is_trim b).
Proof.
  unfold keep, is_trim, is, SP, HT, CR, LF.
  destruct (N.eqb b 32), (N.eqb b 9), (N.eqb b 13), (N.eqb b 10); reflexivity.
Qed.

Lemma drop_while_app p (a b : list N) :
  drop_while p (a ++ b) = match drop_while p a with [] => drop_while p b | t => t ++ b end.
Proof.
  induction a as [|x a IH]; [reflexivity|]. cbn [app drop_while].
  destruct (p x); [exact IH|reflexivity].
Qed.

Lemma rposition_trim bs :
  match rposition keep bs with
  | Some i => (S i <= length bs)%nat /\ rev (drop_while is_trim (rev bs)) = firstn (S i) bs
              /\ drop_while is_trim (rev bs) <> []
  | None => drop_while is_trim (rev bs) = []
  end.
Proof.
  induction bs as [|x r IH]; [reflexivity|].
  cbn [rposition rev]. rewrite drop_while_app.
  destruct (rposition keep r) as [i|].
  - destruct IH as (Hi & Hrev & Hne).
    destruct (drop_while is_trim (rev r)) as [|y t] eqn:Ed; [congruence|].
    split; [cbn [length]; lia|]. split; [|destruct t; discriminate].
    rewrite rev_app_distr. change (rev [x]) with [x]. rewrite Hrev. reflexivity.
  - rewrite IH. cbn [drop_while]. rewrite keep_trim.
    destruct (is_trim x); cbn [negb]; [reflexivity|].
    split; [cbn [length]; lia|]. split; [reflexivity|discriminate].
Qed.

Lemma rev'_rev (l : list N) : rev' l = rev l.
Proof. unfold rev'. symmetry. apply rev_alt. Qed.

(* the trailing trim of the source = Model.trim_value *)
Lemma trim_tie off bs :
  match rposition keep bs with
  | Some i => (Nat.leb (i + 1) (length bs) = true) /\ sl_prefix (Sub off bs) (i + 1) = trim_value (Sub off bs)
  | None => Sub off bs = trim_value (Sub off bs)
  end.
Proof.
  pose proof (rposition_trim bs) as H. unfold trim_value. rewrite !rev'_rev.
  destruct (rposition keep bs) as [i|].
  - destruct H as (Hi & Hrev & Hne). split; [apply Nat.leb_le; lia|].
    destruct (drop_while is_trim (rev bs)) as [|y t] eqn:Ed; [congruence|].
    rewrite rev'_rev, Hrev. cbn [sl_prefix]. replace (i + 1)%nat with (S i) by lia. reflexivity.
  - rewrite H. reflexivity.
Qed.

(* ---------- the simulation ---------- *)
Section HeadersTie.
Variable E : env.
Variable fuel0 : nat.
Let fuel := S fuel0.          (* callers pass S (length buf): never 0 *)
Variable hc : hcfg.

Notation L := L_g_headers.
Notation R := (ires L nat sl).

Definition core (l : L) :=
  (g_headers_v_arr l, g_headers_v_num_headers l, g_headers_m1 l, g_headers_v_iter l).

Ltac hdr_unfold :=
  cbv beta iota delta [irun ifun ibind iret ilift iget iset ipart ifail ifault ithrow iguard iguard_idx ireturn
                       bind ret fail part fault_ expect next next_opt peek peek_n peek_ahead advance bump
                       slice slice_skip pos addr remaining commit apos rest pre tokrev
                       g_headers_v_arr g_headers_v_num_headers g_headers_m1 g_headers_v_iter
                       g_headers_m2 g_headers_m3 g_headers_m4 g_headers_m5 g_headers_m6 g_headers_m7
                       set_g_headers_v_arr set_g_headers_v_num_headers set_g_headers_m1 set_g_headers_v_iter
                       set_g_headers_m2 set_g_headers_m3 set_g_headers_m4 set_g_headers_m5
                       set_g_headers_m6 set_g_headers_m7
                       is is_ws CR LF SP HT COLON].
Ltac hdr_unfold_in H :=
  cbv beta iota delta [irun ifun ibind iret ilift iget iset ipart ifail ifault ithrow iguard iguard_idx ireturn
                       bind ret fail part fault_ expect next next_opt peek peek_n peek_ahead advance bump
                       slice slice_skip pos addr remaining commit apos rest pre tokrev
                       g_headers_v_arr g_headers_v_num_headers g_headers_m1 g_headers_v_iter
                       g_headers_m2 g_headers_m3 g_headers_m4 g_headers_m5 g_headers_m6 g_headers_m7
                       set_g_headers_v_arr set_g_headers_v_num_headers set_g_headers_m1 set_g_headers_v_iter
                       set_g_headers_m2 set_g_headers_m3 set_g_headers_m4 set_g_headers_m5
                       set_g_headers_m6 set_g_headers_m7
                       is is_ws CR LF SP HT COLON] in H.

(* outcome of a fragment of generated code against an outcome of the model: `ok` says which
   generated result corresponds to Done *)
Definition sim {A Bv} (k0 : list slot * nat * rval nat * nat)
           (ok : A -> cur -> R Bv -> Prop) (r : R Bv) (o : out A) : Prop :=
  match o with
  | Done a c' => ok a c' r
  | Part => exists l', r = IPart l' /\ core l' = k0
  | Fail e => exists l', r = IFail e l' /\ core l' = k0
  | Fault f => exists l', r = IFault f l' /\ core l' = k0
  end.

Definition st_of (r : rval nat) : status :=
  match r with RComplete n => Complete n | RPartial => Partial | RErr e => Error e end.

Definition hdr_fin (r : R nat) : status * nat * list slot :=
  match r with
  | IDone n l _ => (Complete n, g_headers_v_num_headers l, g_headers_v_arr l)
  | IPart l => (Partial, g_headers_v_num_headers l, g_headers_v_arr l)
  | IFail e l => (Error e, g_headers_v_num_headers l, g_headers_v_arr l)
  | IFault f l => (Faulted f, g_headers_v_num_headers l, g_headers_v_arr l)
  | IExc _ l _ => (Faulted Unreachable, g_headers_v_num_headers l, g_headers_v_arr l)
  end.

(* the skip-to-end-of-line loop of handle_invalid_char! (four expansions; `setb` is the local `b`) *)
Ltac skip_line_loop B setb :=
  intros f; induction f as [|f IH]; intros b [arr nh res it vb0 vb1 vb2 vb3 vb4 vb5] [p t r];
  [cbn [skip_invalid_line iloop]; hdr_unfold; eexists; split; reflexivity|];
  cbn [skip_invalid_line iloop]; unfold B at 1; hdr_unfold;
  destruct (N.eqb b 13);
  [ destruct r as [|b2 r]; hdr_unfold; [eexists; split; reflexivity|];
    destruct (N.eqb b2 10); hdr_unfold; cbn [Nat.eqb]; eexists; split; reflexivity |];
  destruct (N.eqb b 10); hdr_unfold; cbn [Nat.eqb]; [eexists; split; reflexivity|];
  destruct (N.eqb b 0); hdr_unfold; [eexists; split; reflexivity|];
  destruct r as [|b2 r]; hdr_unfold; [eexists; split; reflexivity|];
  specialize (IH b2 (setb b (mkL_g_headers arr nh res it vb0 vb1 vb2 vb3 vb4 vb5)) (mkcur p (b2 :: t) r));
  hdr_unfold_in IH; exact IH.

Ltac after_skip Hs :=
  match type of Hs with sim _ _ _ ?o => destruct o as [[] c2| |e2|f2] end;
  unfold sim in Hs |- *; destruct Hs as (l2 & Hs & Hc2); rewrite Hs; hdr_unfold; cbn [Nat.eqb];
  eexists; (split; [reflexivity|exact Hc2]).

Definition fin1 (r : R sl) : status * nat * list slot :=
  match r with
  | IDone _ l _ => (st_of (g_headers_m1 l), g_headers_v_num_headers l, g_headers_v_arr l)
  | IPart l => (Partial, g_headers_v_num_headers l, g_headers_v_arr l)
  | IFail e l => (Error e, g_headers_v_num_headers l, g_headers_v_arr l)
  | IFault f l => (Faulted f, g_headers_v_num_headers l, g_headers_v_arr l)
  | IExc (Ret n) l _ => (Complete n, g_headers_v_num_headers l, g_headers_v_arr l)
  | IExc _ l _ => (Faulted Unreachable, g_headers_v_num_headers l, g_headers_v_arr l)
  end.

Hypothesis fwd_name : forall f, mono (s_name E f).
Hypothesis fwd_value : forall f, mono (s_value E f).

Ltac norm_l l Hc :=
  destruct l as [arr' nh' res' it' ?w ?w ?w ?w ?w ?w]; unfold core in Hc;
  cbn [g_headers_v_arr g_headers_v_num_headers g_headers_m1 g_headers_v_iter] in Hc;
  injection Hc as -> -> -> ->.

(* the value part of one header line: 'value loop, slot iterator, trailing trim, slot write *)
Ltac value_part IH H7 :=
  let Hs := fresh "Hs" in let Ews := fresh "Ews" in let Hlt := fresh "Hlt" in let Ht := fresh "Ht" in
  match goal with |- context [iloop fuel 7 ?B ?l ?c] =>
    change (iloop fuel 7 B l c) with (iloop (S fuel0) 7 B l c) end; cbn [iloop];
  match goal with |- context [?B7 ?l ?c] =>
    match type of H7 with forall l c, sim _ _ (B7 l c) _ => pose proof (H7 l c) as Hs end end;
  destruct (ws_after_colon E fuel hc fuel _) as [[|v] c2| |e2|f2] eqn:Ews;
  unfold sim in Hs; destruct Hs as (l2 & Hs & Hc2); rewrite Hs; hdr_unfold; cbn [Nat.eqb fin1];
  norm_l l2 Hc2; hdr_unfold; try reflexivity;
  [ (* dropped line *)
    eapply mono_ws_after_colon in Ews; eauto; destruct Ews as [Ews _]; destruct c2 as [?p ?t ?r];
    apply IH; unfold apos in *; cbn [tokrev pre length] in *; lia
  | (* a value *)
    pose proof (post_ws_after_colon E fuel hc fuel _ _ _ Ews) as (off & bs & ->);
    eapply mono_ws_after_colon in Ews; eauto; destruct Ews as [Ews _];
    match goal with |- context [Nat.ltb ?nh (length ?arr)] => destruct (Nat.ltb nh (length arr)) eqn:Hlt end;
    hdr_unfold; cbn [Nat.eqb fin1 sl_bytes];
    [ pose proof (trim_tie off bs) as Ht; unfold keep in Ht;
      match type of Ht with match ?rp with _ => _ end => destruct rp as [i|] end;
      [ destruct Ht as (Hle & Hpre); rewrite Hle; hdr_unfold; rewrite Hpre | rewrite <- Ht; hdr_unfold ];
      apply Nat.ltb_lt in Hlt;
      match goal with |- context [write_slot ?n ?s ?a] =>
        destruct (write_slot_some a n s Hlt) as (a' & Hw); rewrite Hw end;
      hdr_unfold; cbn [fin1];
      match goal with |- context [(?n + 1)%nat] => replace (n + 1)%nat with (S n) by lia end;
      destruct c2 as [?p ?t ?r]; apply IH; unfold apos in *; cbn [tokrev pre length] in *; lia
    | apply Nat.ltb_ge in Hlt;
      match goal with |- context [write_slot ?n ?s ?a] => rewrite (write_slot_none a n s Hlt) end;
      reflexivity ] ].

(* handle_invalid_char! after the name (expansion #2, local `b` = v_b_2) *)
Ltac invalid_part IH H6 bad :=
  let Hs := fresh "Hs" in let Esk := fresh "Esk" in
  unfold handle_invalid; destruct (ignore_invalid_headers hc); cbn [negb]; hdr_unfold; cbn [fin1]; [|reflexivity];
  match goal with |- context [iloop fuel 6 ?B6 ?l ?c] => pose proof (H6 fuel bad l c) as Hs end;
  hdr_unfold_in Hs;
  destruct (skip_invalid_line fuel bad HeaderName _) as [[] c3| |e3|f3] eqn:Esk;
  unfold sim in Hs; destruct Hs as (l3 & Hs & Hc3); rewrite Hs; hdr_unfold; cbn [Nat.eqb fin1];
  norm_l l3 Hc3; try reflexivity;
  apply mono_skip_invalid_line in Esk; destruct Esk as [Esk _]; destruct c3 as [?p ?t ?r]; hdr_unfold;
  apply IH; unfold apos in *; cbn [tokrev pre length] in *; lia.

Theorem tie_headers arr0 c0 :
  hdr_fin (ifun (g_headers_body E fuel hc) (g_headers_init arr0) c0)
  = parse_headers_iter_uninit E fuel hc arr0 c0.
Proof.
  unfold g_headers_body, parse_headers_iter_uninit, g_headers_init.
  match goal with |- context [iloop fuel 2 ?body] => set (B2 := body) end.
  match goal with |- context [iloop fuel 3 ?body] => set (B3 := body) end.
  match goal with |- context [iloop fuel 6 ?body] => set (B6 := body) end.
  match goal with |- context [iloop fuel 9 ?body] => set (B9 := body) end.
  match goal with |- context [iloop fuel 11 ?body] => set (B11 := body) end.
  assert (H3 : forall f b l0 c,
    sim (core l0) (fun _ c' r => exists l', r = IDone (Ext []) l' c' /\ core l' = core l0)
        (iloop f 3 B3 (set_g_headers_m2 b l0) c) (skip_invalid_line f b HeaderName c)).
  { skip_line_loop B3 set_g_headers_m2. }
  assert (H6 : forall f b l0 c,
    sim (core l0) (fun _ c' r => exists l', r = IDone (Ext []) l' c' /\ core l' = core l0)
        (iloop f 6 B6 (set_g_headers_m4 b l0) c) (skip_invalid_line f b HeaderName c)).
  { skip_line_loop B6 set_g_headers_m4. }
  assert (H9 : forall f b l0 c,
    sim (core l0) (fun _ c' r => exists l', r = IDone (Ext []) l' c' /\ core l' = core l0)
        (iloop f 9 B9 (set_g_headers_m6 b l0) c) (skip_invalid_line f b HeaderValue c)).
  { skip_line_loop B9 set_g_headers_m6. }
  assert (H11 : forall f b l0 c,
    sim (core l0) (fun _ c' r => exists l', r = IDone (Ext []) l' c' /\ core l' = core l0)
        (iloop f 11 B11 (set_g_headers_m7 b l0) c) (skip_invalid_line f b HeaderValue c)).
  { skip_line_loop B11 set_g_headers_m7. }
  assert (H2 : forall f l c,
    iloop f 2 B2 l c = match skip_ws_peek f c with
                       | Done _ c' => IDone (Ext []) l c' | Part => IPart l
                       | Fail e => IFail e l | Fault x => IFault x l end).
  { intros f; induction f as [|f IH]; intros l [p t r]; [reflexivity|].
    cbn [skip_ws_peek iloop]. unfold B2 at 1. hdr_unfold.
    destruct r as [|b r]; cbn [hd_error]; hdr_unfold; cbn [Nat.eqb]; [reflexivity|].
    destruct (N.eqb b 32 || N.eqb b 9); hdr_unfold; cbn [Nat.eqb]; [apply IH|reflexivity]. }
  clearbody B2 B3 B6 B9.
  match goal with |- context [iloop fuel 10 ?body] => set (B10 := body) end.
  assert (H10 : forall f l c,
    sim (core l)
        (fun a c' r => match a with
                       | VValue v => exists l', r = IExc (Brk 7 v) l' c' /\ core l' = core l
                       | VDropped => exists l', r = IExc (Cnt 1) l' c' /\ core l' = core l
                       end)
        (iloop f 10 B10 l c) (value_lines E fuel hc f c)).
  { intros f; induction f as [|f IH]; intros [arr nh res it vb0 vb1 vb2 vb3 vb4 vb5] c.
    { cbn [value_lines iloop]. hdr_unfold. eexists; split; reflexivity. }
    cbn [value_lines iloop]. unfold B10 at 1. hdr_unfold.
    destruct (s_value E fuel c) as [[] [p t r]| | |]; hdr_unfold; try (eexists; split; reflexivity).
    destruct r as [|b r]; hdr_unfold; [eexists; split; reflexivity|].
    set (l0 := mkL_g_headers arr nh res it vb0 vb1 vb2 vb3 vb4 vb5).
    destruct (N.eqb b 13) eqn:E13; hdr_unfold.
    { destruct r as [|b2 r]; hdr_unfold; [eexists; split; reflexivity|].
      destruct (N.eqb b2 10); hdr_unfold; [|eexists; split; reflexivity].
      unfold fold_check. destruct (allow_obsolete_multiline_headers hc); hdr_unfold.
      - destruct r as [|b3 r]; cbn [hd_error]; hdr_unfold; [eexists; split; reflexivity|].
        destruct (N.eqb b3 32 || N.eqb b3 9); hdr_unfold; cbn [Nat.eqb drop].
        + apply IH.
        + eexists; split; reflexivity.
      - cbn [drop]. eexists; split; reflexivity. }
    destruct (N.eqb b 10) eqn:E10; hdr_unfold.
    { unfold fold_check. destruct (allow_obsolete_multiline_headers hc); hdr_unfold.
      - destruct r as [|b3 r]; cbn [hd_error]; hdr_unfold; [eexists; split; reflexivity|].
        destruct (N.eqb b3 32 || N.eqb b3 9); hdr_unfold; cbn [Nat.eqb drop].
        + apply IH.
        + eexists; split; reflexivity.
      - cbn [drop]. eexists; split; reflexivity. }
    unfold handle_invalid. destruct (ignore_invalid_headers hc); cbn [negb]; hdr_unfold;
      [|eexists; split; reflexivity].
    pose proof (H11 fuel b l0 (mkcur p (b :: t) r)) as Hs. hdr_unfold_in Hs.
    after_skip Hs. }
  clearbody B11.
  match goal with |- context [iloop fuel 8 ?body] => set (B8 := body) end.
  assert (H8 : forall f l c,
    sim (core l)
        (fun a c' r => match a with
                       | VValue v => exists l', r = IExc (Brk 7 v) l' c' /\ core l' = core l
                       | VDropped => exists l', r = IExc (Cnt 1) l' c' /\ core l' = core l
                       end)
        ((t <~ iloop f 8 B8 ;; (iloop fuel 10 B10 ;;~ (ifault Unreachable : I L nat sl unit)))%imp l c)
        (ws_after_colon E fuel hc f c)).
  { intros f; induction f as [|f IH]; intros [arr nh res it vb0 vb1 vb2 vb3 vb4 vb5] [p t r].
    { cbn [ws_after_colon iloop]. hdr_unfold. eexists; split; reflexivity. }
    cbn [ws_after_colon]. unfold ibind at 1. cbn [iloop]. unfold B8 at 1. hdr_unfold.
    destruct r as [|b r]; hdr_unfold; [eexists; split; reflexivity|].
    destruct (N.eqb b 32 || N.eqb b 9) eqn:Ews; hdr_unfold; cbn [Nat.eqb].
    { specialize (IH (mkL_g_headers arr nh res it vb0 vb1 vb2 b vb4 vb5) (mkcur (length (b :: t) + p) [] r)).
      unfold ibind at 1 in IH. exact IH. }
    destruct (c_value E b) eqn:Ecv; hdr_unfold; cbn [Nat.eqb].
    { pose proof (H10 fuel (mkL_g_headers arr nh res it vb0 vb1 vb2 b vb4 vb5) (mkcur p (b :: t) r)) as Hs.
      match type of Hs with sim _ _ _ ?o => destruct o as [[|v] c2| |e2|f2] end;
        unfold sim in Hs |- *; destruct Hs as (l2 & Hs & Hc2); rewrite Hs;
        eexists; (split; [reflexivity|exact Hc2]). }
    destruct (N.eqb b 13) eqn:E13; hdr_unfold.
    { destruct r as [|b2 r]; hdr_unfold; [eexists; split; reflexivity|].
      destruct (N.eqb b2 10); hdr_unfold; [|eexists; split; reflexivity].
      unfold fold_check. destruct (allow_obsolete_multiline_headers hc); hdr_unfold.
      - destruct r as [|b3 r]; cbn [hd_error]; hdr_unfold; [eexists; split; reflexivity|].
        destruct (N.eqb b3 32 || N.eqb b3 9); hdr_unfold; cbn [Nat.eqb Nat.leb sl_prefix firstn].
        + specialize (IH (mkL_g_headers arr nh res it vb0 vb1 vb2 b vb4 vb5) (mkcur p (b2 :: b :: t) (b3 :: r))).
          unfold ibind at 1 in IH. exact IH.
        + eexists; split; reflexivity.
      - cbn [Nat.eqb Nat.leb sl_prefix firstn]. eexists; split; reflexivity. }
    destruct (N.eqb b 10) eqn:E10; hdr_unfold; cbn [negb].
    { unfold fold_check. destruct (allow_obsolete_multiline_headers hc); hdr_unfold.
      - destruct r as [|b3 r]; cbn [hd_error]; hdr_unfold; [eexists; split; reflexivity|].
        destruct (N.eqb b3 32 || N.eqb b3 9); hdr_unfold; cbn [Nat.eqb Nat.leb sl_prefix firstn].
        + specialize (IH (mkL_g_headers arr nh res it vb0 vb1 vb2 b vb4 vb5) (mkcur p (b :: t) (b3 :: r))).
          unfold ibind at 1 in IH. exact IH.
        + eexists; split; reflexivity.
      - cbn [Nat.eqb Nat.leb sl_prefix firstn]. eexists; split; reflexivity. }
    unfold handle_invalid. destruct (ignore_invalid_headers hc); cbn [negb]; hdr_unfold;
      [|eexists; split; reflexivity].
    pose proof (H9 fuel b (mkL_g_headers arr nh res it vb0 vb1 vb2 b vb4 vb5) (mkcur p (b :: t) r)) as Hs.
    hdr_unfold_in Hs. after_skip Hs. }
  match goal with |- context [iloop fuel 7 ?body] => set (B7 := body) end.
  assert (H7 : forall l c,
    sim (core l)
        (fun a c' r => match a with
                       | VValue v => exists l', r = IExc (Brk 7 v) l' c' /\ core l' = core l
                       | VDropped => exists l', r = IExc (Cnt 1) l' c' /\ core l' = core l
                       end)
        (B7 l c) (ws_after_colon E fuel hc fuel c)) by (intros; apply H8).
  clearbody B7.
  match goal with |- context [iloop fuel 4 ?body] => set (B4 := body) end.
  destruct c0 as [p0 t0 r0]. hdr_unfold.
  match goal with |- context [iloop fuel 1 ?body] => set (B1 := body) end.
  set (start := (length t0 + p0)%nat).
  match goal with |- context [iloop fuel 1 B1 ?l ?c] =>
    transitivity (fin1 (iloop fuel 1 B1 l c)) end.
  { destruct (iloop fuel 1 B1 _ _) as [v l' c'|l'|e l'|f l'|x l' c']; try reflexivity.
    - destruct l' as [arr' nh' res' it' ?w ?w ?w ?w ?w ?w]. destruct res'; reflexivity.
    - destruct x; reflexivity. }
  assert (H1 : forall f nh arr c vb0 vb1 vb2 vb3 vb4 vb5, (start <= apos c)%nat ->
     fin1 (iloop f 1 B1 (mkL_g_headers arr nh (RErr TooManyHeaders) nh vb0 vb1 vb2 vb3 vb4 vb5) c)
     = headers_loop E fuel hc f start nh arr c).
  2: { apply H1. unfold apos, start. cbn [tokrev pre]. lia. }
  clear arr0. intros f; induction f as [|f IH]; intros nh arr [p t r] vb0 vb1 vb2 vb3 vb4 vb5 Hst; [reflexivity|].
  unfold apos in Hst. cbn [tokrev pre] in Hst.
  cbn [headers_loop iloop]. unfold B1 at 1. unfold stage, header_line. hdr_unfold.
  destruct r as [|b r]; hdr_unfold; [reflexivity|].
  destruct (N.eqb b 13) eqn:E13; hdr_unfold.
  { destruct r as [|b2 r]; hdr_unfold; [reflexivity|].
    destruct (N.eqb b2 10); hdr_unfold; [|reflexivity].
    rewrite (proj2 (Nat.leb_le start _)) by (cbn [length]; lia). hdr_unfold. cbn [Nat.eqb fin1]. hdr_unfold.
    reflexivity. }
  destruct (N.eqb b 10) eqn:E10; hdr_unfold.
  { rewrite (proj2 (Nat.leb_le start _)) by (cbn [length]; lia). hdr_unfold. cbn [Nat.eqb fin1]. hdr_unfold.
    reflexivity. }
  destruct (c_name E b) eqn:Ecn; cbn [negb]; hdr_unfold.
  2: { destruct (allow_space_before_first_header_name hc && Nat.eqb nh 0 && (N.eqb b 32 || N.eqb b 9)) eqn:Esp;
         hdr_unfold.
       - rewrite H2. destruct (skip_ws_peek fuel _) as [[] c2| |e2|f2] eqn:Esk; hdr_unfold; cbn [Nat.eqb fin1];
           try reflexivity.
         apply mono_skip_ws_peek in Esk. destruct Esk as [Esk _]. destruct c2 as [p2 t2 r2]. hdr_unfold.
         apply IH. unfold apos in *. cbn [tokrev pre length] in *. lia.
       - unfold handle_invalid. destruct (ignore_invalid_headers hc); cbn [negb]; hdr_unfold; [|reflexivity].
         match goal with |- context [iloop fuel 3 B3 ?l ?c] =>
           pose proof (H3 fuel b (mkL_g_headers arr nh (RErr TooManyHeaders) nh vb0 vb1 vb2 vb3 vb4 vb5) c) as Hs end.
         hdr_unfold_in Hs.
         destruct (skip_invalid_line fuel b HeaderName _) as [[] c2| |e2|f2] eqn:Esk;
           unfold sim in Hs; destruct Hs as (l2 & Hs & Hc2); rewrite Hs; hdr_unfold; cbn [Nat.eqb fin1];
           norm_l l2 Hc2; try reflexivity.
         apply mono_skip_invalid_line in Esk. destruct Esk as [Esk _]. destruct c2 as [p2 t2 r2]. hdr_unfold.
         apply IH. unfold apos in *. cbn [tokrev pre length] in *. lia. }
  match goal with |- context [iloop fuel 4 B4 ?l ?c] =>
    change (iloop fuel 4 B4 l c) with (iloop (S fuel0) 4 B4 l c) end. cbn [iloop]. unfold B4 at 1. hdr_unfold.
  destruct (s_name E fuel _) as [[] [p1 t1 r1]| |e1|f1] eqn:Esn; hdr_unfold; cbn [Nat.eqb fin1]; try reflexivity.
  apply fwd_name in Esn. destruct Esn as [Esn _]. unfold apos in Esn. cbn [tokrev pre length] in Esn.
  destruct r1 as [|b1 r1]; hdr_unfold; cbn [fin1]; [reflexivity|]. cbn [drop].
  destruct (N.eqb b1 58) eqn:Ecolon; hdr_unfold; cbn [Nat.eqb].
  2: { (* no colon right after the name *)
       destruct (allow_spaces_after_header_name hc) eqn:Eas; hdr_unfold.
       - match goal with |- context [iloop fuel 5 ?body] => set (B5 := body) end.
         assert (H5 : forall f5 bb a n rs it5 v0 v2 v3 v4 v5 c,
           sim (a, n, rs, it5)
               (fun o c' r => match o with
                              | None => exists l', r = IExc (Brk 4 (Sub p1 (rev' t1))) l' c' /\ core l' = (a, n, rs, it5)
                              | Some b' => exists l', r = IDone (Ext []) l' c' /\ core l' = (a, n, rs, it5)
                                                      /\ g_headers_m3 l' = b'
                              end)
               (iloop f5 5 B5 (mkL_g_headers a n rs it5 v0 bb v2 v3 v4 v5) c) (after_name_ws f5 bb c)).
         { intros f5; induction f5 as [|f5 IH5]; intros bb a n rs it5 v0 v2 v3 v4 v5 [p5 t5 r5].
           { cbn [after_name_ws iloop]. hdr_unfold. eexists; split; reflexivity. }
           cbn [after_name_ws iloop]. unfold B5 at 1. hdr_unfold.
           destruct (N.eqb bb 32 || N.eqb bb 9); hdr_unfold; cbn [Nat.eqb].
           2: { eexists; split; [reflexivity|split; reflexivity]. }
           destruct r5 as [|b5 r5]; hdr_unfold; [eexists; split; reflexivity|].
           destruct (N.eqb b5 58); hdr_unfold; cbn [Nat.eqb].
           - eexists; split; reflexivity.
           - apply IH5. }
         clearbody B5.
         match goal with |- context [iloop fuel 5 B5 ?l ?c] =>
           pose proof (H5 fuel b1 arr nh (RErr TooManyHeaders) nh vb0 vb2 vb3 vb4 vb5 c) as Hs5 end.
         destruct (after_name_ws fuel b1 _) as [[bad|] c2| |e2|f2] eqn:Ean; unfold sim in Hs5.
         + destruct Hs5 as (l2 & Hs5 & Hc2 & Hb). rewrite Hs5. hdr_unfold.
           apply mono_after_name_ws in Ean. destruct Ean as [Ean _]. unfold apos in Ean. cbn [tokrev pre length] in Ean.
           destruct l2 as [arr' nh' res' it' ?w ?w ?w ?w ?w ?w]. unfold core in Hc2.
           cbn [g_headers_v_arr g_headers_v_num_headers g_headers_m1 g_headers_v_iter g_headers_m3] in Hc2, Hb.
           injection Hc2 as -> -> -> ->. subst. hdr_unfold.
           invalid_part IH H6 bad.
         + destruct Hs5 as (l2 & Hs5 & Hc2). rewrite Hs5. hdr_unfold. cbn [Nat.eqb].
           apply mono_after_name_ws in Ean. destruct Ean as [Ean _]. unfold apos in Ean. cbn [tokrev pre length] in Ean.
           norm_l l2 Hc2. hdr_unfold. destruct c2 as [p2 t2 r2]. cbn [tokrev pre length] in Ean.
           value_part IH H7.
         + destruct Hs5 as (l2 & Hs5 & Hc2). rewrite Hs5. hdr_unfold. cbn [fin1]. norm_l l2 Hc2. reflexivity.
         + destruct Hs5 as (l2 & Hs5 & Hc2). rewrite Hs5. hdr_unfold. cbn [fin1]. norm_l l2 Hc2. reflexivity.
         + destruct Hs5 as (l2 & Hs5 & Hc2). rewrite Hs5. hdr_unfold. cbn [fin1]. norm_l l2 Hc2. reflexivity.
       - invalid_part IH H6 b1. }
  value_part IH H7.
Qed.

End HeadersTie.
