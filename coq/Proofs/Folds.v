(* Folds.v -- C05, the clause that used to be carried by the oracle only: in a header value accepted under
   obsolete line folding, a LF occurs only immediately followed by SP / HTAB and a CR only immediately
   followed by LF (so "CRLF or LF, then SP or HTAB"); without folding no CR / LF occurs at all
   (Hygiene.value_shape already says so through the byte class). *)
From Coq Require Import List NArith Lia Bool.
From HV Require Import Cursor Scan Model Api Spec Oracle.
From HV.Proofs Require Import Base RefFacts Headers Hygiene.
Import ListNotations.

(* what may follow x: `nx` is the next byte, None = nothing yet (open end) *)
Definition chk (x : N) (nx : option N) : bool :=
  if is 10 x then match nx with Some y => ws y | None => true end
  else if is 13 x then match nx with Some y => is 10 y | None => true end
  else true.

(* on the accumulator (most recent byte first) *)
Fixpoint rfolds (nx : option N) (racc : list N) : bool :=
  match racc with
  | [] => true
  | x :: t => chk x nx && rfolds (Some x) t
  end.

(* on the value, front to back; `e` is what follows the last byte *)
Fixpoint ffolds (l : list N) (e : option N) : bool :=
  match l with
  | [] => true
  | x :: r => chk x (match r with y :: _ => Some y | [] => e end) && ffolds r e
  end.

Lemma ffolds_snoc : forall l x e, ffolds (l ++ [x]) e = ffolds l (Some x) && chk x e.
Proof.
  induction l as [|y l IH]; intros x e; cbn [app ffolds].
  - rewrite andb_true_r. reflexivity.
  - rewrite IH. destruct l as [|z l']; cbn [app]; rewrite andb_assoc; reflexivity.
Qed.

Lemma rfolds_ffolds : forall t nx, rfolds nx t = ffolds (rev t) nx.
Proof.
  induction t as [|x t IH]; intros nx; [reflexivity|]. cbn [rfolds rev]. rewrite ffolds_snoc, IH. apply andb_comm.
Qed.

Lemma rfolds_weaken : forall t nx, rfolds nx t = true -> rfolds None t = true.
Proof.
  intros [|x t] nx H; [reflexivity|]. cbn [rfolds] in *. apply andb_prop in H as [H1 H2]. rewrite H2, andb_true_r.
  unfold chk in *. destruct (is 10 x); [reflexivity|]. destruct (is 13 x); reflexivity.
Qed.

Lemma rfolds_drop_while : forall p t nx, rfolds nx t = true -> rfolds None (drop_while p t) = true.
Proof.
  intros p t. induction t as [|x t IH]; intros nx H; [reflexivity|]. cbn [drop_while].
  destruct (p x); [|eapply rfolds_weaken; exact H].
  cbn [rfolds] in H. apply andb_prop in H as [_ H2]. eapply IH. exact H2.
Qed.

(* a byte that is neither CR nor LF may be followed by anything *)
Lemma chk_plain x nx : is 10 x = false -> is 13 x = false -> chk x nx = true.
Proof. intros H1 H2. unfold chk. rewrite H1, H2. reflexivity. Qed.

Lemma value_char_plain b : value_char b = true -> is 10 b = false /\ is 13 b = false.
Proof.
  intros H. unfold value_char, is in *. split; apply N.eqb_neq; intros ->; cbn in H; discriminate.
Qed.

Definition val_folds (v : sl) : Prop := match v with Sub _ bs => ffolds bs None = true | Ext _ => True end.

Section Headers.
Variable hc : hcfg.

(* invariant of ref_value_lines: the accumulator is fold-clean with an open end; when its most recent byte is a
   LF the next input byte is SP / HTAB; its most recent byte is never a CR *)
Lemma ref_value_lines_folds : forall n l voff racc off o r s, length l <= n ->
  rfolds None racc = true ->
  (forall t, racc = 10%N :: t -> exists b r', l = b :: r' /\ ws b = true) ->
  (forall t, racc <> 13%N :: t) ->
  ref_value_lines hc voff racc off l = ROk s o r -> val_folds s.
Proof.
  induction n as [|n IH]; intros l voff racc off o r s Hn Hr Hpend Hcr H.
  { destruct l; [discriminate|cbn [length] in Hn; lia]. }
  destruct l as [|b l']; [discriminate|]. cbn [length] in Hn. cbn [ref_value_lines] in H.
  assert (Fin : ffolds (rev' (drop_while is_trim racc)) None = true).
  { unfold rev'. rewrite <- rev_alt, <- rfolds_ffolds. eapply rfolds_drop_while. exact Hr. }
  (* the head of racc is neither an unresolved LF (unless b is whitespace) nor CR *)
  assert (Hhead : forall y, ws b = false -> rfolds (Some y) racc = true).
  { intros y Hw. destruct racc as [|x t]; [reflexivity|]. cbn [rfolds] in *. apply andb_prop in Hr as [_ Hr2].
    rewrite Hr2, andb_true_r. unfold chk.
    destruct (is 10 x) eqn:E10.
    - apply N.eqb_eq in E10. subst x. destruct (Hpend t eq_refl) as (b0 & r' & [= <- <-] & Hwb). congruence.
    - destruct (is 13 x) eqn:E13; [|reflexivity]. apply N.eqb_eq in E13. subst x. exfalso. exact (Hcr t eq_refl). }
  destruct (value_char b) eqn:Ev.
  { destruct (value_char_plain b Ev) as [Hb10 Hb13].
    refine (IH l' voff (b :: racc) (S off) o r s _ _ _ _ H).
    - lia.
    - cbn [rfolds]. rewrite (chk_plain b None Hb10 Hb13). cbn [andb].
      destruct racc as [|x t]; [reflexivity|]. cbn [rfolds] in *. apply andb_prop in Hr as [_ Hr2].
      rewrite Hr2, andb_true_r. unfold chk.
      destruct (is 10 x) eqn:E10.
      + apply N.eqb_eq in E10. subst x. destruct (Hpend t eq_refl) as (b0 & r' & [= <- <-] & Hwb). exact Hwb.
      + destruct (is 13 x) eqn:E13; [|reflexivity]. apply N.eqb_eq in E13. subst x. exfalso. exact (Hcr t eq_refl).
    - intros t [= -> _]. unfold is in Hb10. cbn in Hb10. discriminate.
    - intros t [= -> _]. unfold is in Hb13. cbn in Hb13. discriminate. }
  assert (Hwb : ws b = false).
  { destruct (ws b) eqn:E; [|reflexivity]. destruct (ws_facts b E) as (_ & _ & _ & Hv & _). congruence. }
  destruct (is 13 b) eqn:E13.
  { destruct l' as [|b2 l2]; [discriminate|]. destruct (is 10 b2) eqn:E10; cbn [negb] in H; [|discriminate].
    cbn [length] in Hn.
    destruct (allow_obsolete_multiline_headers hc) eqn:Ef.
    - destruct l2 as [|b3 l3]; [discriminate|]. destruct (ws b3) eqn:Ew3.
      + refine (IH (b3 :: l3) voff (10%N :: 13%N :: racc) (2 + off) o r s _ _ _ _ H).
        * cbn [length] in *. lia.
        * cbn [rfolds]. change (chk 10%N None) with true. change (chk 13%N (Some 10%N)) with true. cbn [andb]. apply Hhead. exact Hwb.
        * intros t _. eauto.
        * intros t [=].
      + injection H as <- _ _. exact Fin.
    - injection H as <- _ _. exact Fin. }
  destruct (is 10 b) eqn:E10.
  { destruct (allow_obsolete_multiline_headers hc) eqn:Ef.
    - destruct l' as [|b3 l3]; [discriminate|]. destruct (ws b3) eqn:Ew3.
      + refine (IH (b3 :: l3) voff (10%N :: racc) (S off) o r s _ _ _ _ H).
        * cbn [length] in *. lia.
        * cbn [rfolds]. change (chk 10%N None) with true. cbn [andb]. apply Hhead. exact Hwb.
        * intros t _. eauto.
        * intros t [=].
      + injection H as <- _ _. exact Fin.
    - injection H as <- _ _. exact Fin. }
  destruct (ref_invalid _ _ off (b :: l')); cbn [rbind] in H; try discriminate.
  injection H as <- _ _. exact I.
Qed.

Lemma ref_value_start_folds : forall n l off s o r, length l <= n ->
  ref_value_start hc off l = ROk s o r -> val_folds s.
Proof.
  induction n as [|n IH]; intros l off s o r Hn H.
  { destruct l; [discriminate|cbn [length] in Hn; lia]. }
  destruct l as [|b l']; [discriminate|]. cbn [length] in Hn. cbn [ref_value_start] in H.
  destruct (ws b) eqn:Ew; [eapply IH; eauto; lia|].
  destruct (value_char b) eqn:Ev.
  { eapply (ref_value_lines_folds (S (length l')) (b :: l') off [] off o r s); eauto; try congruence. }
  destruct (is 13 b).
  { destruct l' as [|b2 l2]; [discriminate|]. destruct (is 10 b2); cbn [negb] in H; [|discriminate].
    cbn [length] in Hn. destruct (allow_obsolete_multiline_headers hc).
    - destruct l2 as [|b3 l3]; [discriminate|]. destruct (ws b3).
      + eapply (IH (b3 :: l3)); eauto. cbn [length] in *. lia.
      + injection H as <- _ _. reflexivity.
    - injection H as <- _ _. reflexivity. }
  destruct (is 10 b).
  { destruct (allow_obsolete_multiline_headers hc).
    - destruct l' as [|b3 l3]; [discriminate|]. destruct (ws b3).
      + eapply (IH (b3 :: l3)); eauto. lia.
      + injection H as <- _ _. reflexivity.
    - injection H as <- _ _. reflexivity. }
  destruct (ref_invalid _ _ off (b :: l')); cbn [rbind] in H; try discriminate.
  injection H as <- _ _. exact I.
Qed.

Definition line_folds (x : rline) : Prop := match x with LHeader _ v => val_folds v | _ => True end.

Lemma ref_value_line_folds name off l x o r : ref_value hc name off l = ROk x o r -> line_folds x.
Proof.
  unfold ref_value. destruct (ref_value_start hc off l) as [v o' r'| |e] eqn:Ev; cbn [rbind]; try discriminate.
  intros [= <- _ _]. pose proof (ref_value_start_folds (length l) l off v o' r' (le_n _) Ev) as Hs.
  destruct (dropped v); [exact I|exact Hs].
Qed.

Lemma ref_header_line_folds first off l x o r : ref_header_line hc first off l = ROk x o r -> line_folds x.
Proof.
  unfold ref_header_line. destruct l as [|b l']; [discriminate|].
  destruct (is 13 b).
  { destruct l' as [|b2 l2]; [discriminate|]. destruct (is 10 b2); [|discriminate]. intros [= <- _ _]. exact I. }
  destruct (is 10 b); [intros [= <- _ _]; exact I|].
  assert (Inv : forall ig e o0 l0 x0 oo rr, ref_invalid ig e o0 l0 = ROk x0 oo rr -> line_folds x0).
  { intros ig e o0 l0 x0 oo rr H'. unfold ref_invalid in H'. destruct ig; cbn [negb] in H'; [|discriminate].
    destruct (span _ l0) as [junk rr']. destruct rr' as [|b1 r1]; [discriminate|].
    destruct (is 0 b1); [discriminate|]. destruct (is 10 b1); [injection H' as <- _ _; exact I|].
    destruct r1 as [|b2 r2']; [discriminate|]. destruct (is 10 b2); [injection H' as <- _ _; exact I|discriminate]. }
  destruct (negb (tchar b)).
  { destruct (_ && _ && _); [destruct (span ws (b :: l')); intros [= <- _ _]; exact I|apply Inv]. }
  destruct (span tchar (b :: l')) as [name r1].
  destruct r1 as [|c r2]; [discriminate|].
  destruct (is 58 c); [apply ref_value_line_folds|].
  destruct (_ && _).
  - destruct (span ws (c :: r2)) as [w r3]. destruct r3 as [|c' r4]; [discriminate|].
    destruct (is 58 c'); [apply ref_value_line_folds|apply Inv].
  - apply Inv.
Qed.

Lemma ref_header_block_folds : forall f cap hs off l st hs',
  Forall (fun h => val_folds (snd h)) hs ->
  ref_header_block hc f cap hs off l = (st, hs') ->
  Forall (fun h => val_folds (snd h)) hs'.
Proof.
  induction f as [|f IH]; intros cap hs off l st hs' Hhs H; cbn [ref_header_block] in H.
  - injection H as _ <-. exact Hhs.
  - pose proof (ref_header_line_folds (null hs) off l) as Hsh.
    destruct (ref_header_line hc (null hs) off l) as [x o r| |e]; try (injection H as _ <-; exact Hhs).
    specialize (Hsh x o r eq_refl).
    destruct x as [| |n v]; [injection H as _ <-; exact Hhs|eapply IH; eauto|].
    destruct (Nat.ltb (length hs) cap); [|injection H as _ <-; exact Hhs].
    eapply IH; [|exact H]. apply Forall_app. split; [exact Hhs|constructor; [exact Hsh|constructor]].
Qed.

End Headers.

(* whole messages *)
Theorem ref_headers_folds hc cap off l st hs :
  ref_headers hc cap off l = (st, hs) -> Forall (fun h => val_folds (snd h)) hs.
Proof. unfold ref_headers. intros H. eapply ref_header_block_folds; [|exact H]. constructor. Qed.

Theorem ref_request_folds cf cap buf :
  Forall (fun h => val_folds (snd h)) (rq_headers (ref_request cf cap buf)).
Proof.
  unfold ref_request, ref_request_line.
  repeat match goal with
         | |- context [match ?x with ROk _ _ _ => _ | RPart => _ | RErr _ => _ end] => destruct x; cbn [rq_headers]; try constructor
         end.
  destruct (ref_headers _ _ _ _) as [st hs] eqn:Eh. cbn [rq_headers]. eapply ref_headers_folds; exact Eh.
Qed.

Theorem ref_response_folds cf cap buf :
  Forall (fun h => val_folds (snd h)) (rp_headers (ref_response cf cap buf)).
Proof.
  unfold ref_response, ref_status_line.
  repeat match goal with
         | |- context [match ?x with ROk _ _ _ => _ | RPart => _ | RErr _ => _ end] => destruct x; cbn [rp_headers]; try constructor
         end.
  destruct (ref_headers _ _ _ _) as [st hs] eqn:Eh. cbn [rp_headers]. eapply ref_headers_folds; exact Eh.
Qed.

(* spelled out: between two adjacent bytes of the value *)
Lemma ffolds_adjacent : forall l e a x y b, ffolds l e = true -> l = a ++ x :: y :: b ->
  (is 10 x = true -> ws y = true) /\ (is 13 x = true -> is 10 y = true).
Proof.
  induction l as [|z l IH]; intros e a x y b H E; [destruct a; discriminate|].
  cbn [ffolds] in H. apply andb_prop in H as [H1 H2].
  destruct a as [|z' a].
  - cbn [app] in E. injection E as -> ->. unfold chk in H1. split; intros Hx; rewrite Hx in H1.
    + exact H1.
    + destruct (is 10 x) eqn:E10; [|exact H1]. unfold is in *. apply N.eqb_eq in E10, Hx. congruence.
  - cbn [app] in E. injection E as -> ->. eapply IH; eauto.
Qed.
