(* SrcPH.v -- parse_headers over the translated source; see Src.v *)
From Coq Require Import List NArith Bool.
From HV Require Import Cursor Scan Model Api Imp ImpLib ImpGlue.
From HV.Generated Require Import Lib LibApi.
From HV.Proofs Require Import TieBase Mono TieHeaders TieApiBase TiePH.
Import ListNotations.

Section Src.
Variable E : env.

Definition src_parse_headers (src : list N) (dst : list slot) : status * list slot * list slot :=
  fin_ph (ifun (g_parse_headers_body E (S (length src)) src) (g_parse_headers_init dst dst) (cur_new src)).

Hypothesis Efwd : env_fwd E.

Lemma src_parse_headers_eq src dst : src_parse_headers src dst = parse_headers E src dst.
Proof. apply tie_parse_headers. exact Efwd. Qed.
End Src.

Definition headers_source_is_model (E : env) : Prop :=
  forall src dst, src_parse_headers E src dst = parse_headers E src dst.
Theorem src_tie_headers : forall E, env_fwd E -> headers_source_is_model E.
Proof. intros E HE src dst. apply src_parse_headers_eq; exact HE. Qed.
