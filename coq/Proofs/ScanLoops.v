(* Proofs/ScanLoops.v -- the loop shells of Scan.v stop exactly at the first
   out-of-class byte, given block kernels that return the first index failing a
   predicate contained in the class (the loops re-examine the stopping byte). *)
From Coq Require Import List NArith ZArith Lia Bool ZifyBool ZifyN ZifyNat.
From HV Require Import Cursor Scan.
From HV.Proofs Require Import Base.
Import ListNotations.

Definition scan_exact (s : nat -> P unit) (cls : N -> bool) : Prop :=
  forall fuel c, bytes_ok (rest c) -> length (rest c) < fuel ->
    s fuel c = Done tt (adv (first_bad cls (rest c)) c).

Lemma bind_done {A B} (m : P A) (f : A -> P B) c a c' :
  m c = Done a c' -> bind m f c = f a c'.
Proof. intros H. unfold bind. rewrite H. reflexivity. Qed.

Lemma rest_adv k c : rest (adv k c) = skipn k (rest c).
Proof. reflexivity. Qed.

Lemma first_bad_split p n l : n <= length l ->
  first_bad p l = if Nat.eqb (first_bad p (firstn n l)) n then n + first_bad p (skipn n l)
                  else first_bad p (firstn n l).
Proof.
  intros H. rewrite <- (firstn_skipn n l) at 1. rewrite first_bad_app.
  rewrite firstn_length, Nat.min_l by exact H. reflexivity.
Qed.

(* ---- swar::match_header_name_vectored ---- *)
Lemma swar_name_exact W cls : 0 < W -> scan_exact (fun f => swar_name_loop f W cls) cls.
Proof.
  intros HW fuel. induction fuel as [|f IH]; intros c Hb Hl; [lia|].
  cbn [swar_name_loop]. unfold bind at 1. unfold peek_n. rewrite take_spec.
  destruct (Nat.leb_spec W (length (rest c))) as [Hle|Hgt].
  - set (n := first_bad cls (firstn W (rest c))).
    assert (Hn : n <= W).
    { unfold n. etransitivity; [apply first_bad_le|]. rewrite firstn_length. lia. }
    rewrite (bind_done _ _ _ tt (adv n c)) by (apply advance_adv; lia).
    rewrite (first_bad_split cls W (rest c)) by exact Hle. fold n.
    destruct (Nat.eqb_spec n W) as [E|E]; [|reflexivity].
    rewrite E. rewrite IH.
    + rewrite adv_adv. reflexivity.
    + rewrite rest_adv. apply bytes_ok_skipn. exact Hb.
    + rewrite rest_adv, skipn_length. lia.
  - apply advance_adv. apply first_bad_le.
Qed.

(* ---- swar::match_uri_vectored / match_header_value_vectored ---- *)
Section SwarLoop.
Variables (W : nat) (kernel : list N -> nat) (strict cls : N -> bool).
Hypothesis HW : 0 < W.
Hypothesis Hkernel : forall block, length block = W -> bytes_ok block ->
  kernel block = first_bad strict block.
Hypothesis Hsub : forall b, strict b = true -> cls b = true.

(* the byte-wise step shared by both branches of the loop body *)
Lemma first_bad_step n l :
  n <= length l -> forallb cls (firstn n l) = true ->
  first_bad cls l = n + first_bad cls (skipn n l).
Proof.
  intros Hn Hall. rewrite (first_bad_split cls n l Hn).
  apply first_bad_all in Hall. rewrite firstn_length, Nat.min_l in Hall by exact Hn.
  rewrite Hall, Nat.eqb_refl. reflexivity.
Qed.

Lemma forallb_weaken l : forallb strict l = true -> forallb cls l = true.
Proof.
  induction l as [|x r IH]; cbn [forallb]; [auto|]. intros H. apply andb_prop in H as [H1 H2].
  rewrite (Hsub _ H1), IH; auto.
Qed.

Lemma swar_loop_exact : scan_exact (fun f => swar_loop f W kernel cls) cls.
Proof.
  intros fuel. induction fuel as [|f IH]; intros c Hb Hl; [lia|].
  cbn [swar_loop]. unfold bind at 1. unfold peek_n. rewrite take_spec.
  (* the tail: examine one byte *)
  assert (Tail : forall c', bytes_ok (rest c') -> length (rest c') < S f ->
    (pk <- peek ;;
     match pk with
     | Some b => if cls b then advance 1 ;;; swar_loop f W kernel cls else ret tt
     | None => ret tt
     end) c' = Done tt (adv (first_bad cls (rest c')) c')).
  { intros c' Hb' Hl'. unfold bind at 1. unfold peek.
    destruct (rest c') as [|b r] eqn:Er; cbn [hd_error first_bad].
    - unfold ret. rewrite <- (adv_0 c') at 1. reflexivity.
    - destruct (cls b) eqn:Eb.
      + rewrite (bind_done _ _ _ tt (adv 1 c')) by (apply advance_adv; rewrite Er; cbn; lia).
        rewrite IH.
        * rewrite adv_adv. rewrite rest_adv, Er. reflexivity.
        * rewrite rest_adv, Er. cbn [skipn]. apply bytes_ok_cons in Hb'. tauto.
        * rewrite rest_adv, Er. cbn [skipn]. cbn [length] in Hl'. lia.
      + unfold ret. rewrite <- (adv_0 c') at 1. reflexivity. }
  destruct (Nat.leb_spec W (length (rest c))) as [Hle|Hgt]; [|apply Tail; assumption].
  set (block := firstn W (rest c)).
  assert (Hlen : length block = W) by (unfold block; rewrite firstn_length; lia).
  rewrite Hkernel by (try exact Hlen; apply bytes_ok_firstn; exact Hb).
  set (n := first_bad strict block).
  assert (Hn : n <= W) by (unfold n; rewrite <- Hlen; apply first_bad_le).
  rewrite (bind_done _ _ _ tt (adv n c)) by (apply advance_adv; lia).
  (* the first n bytes are in class *)
  assert (Hpre : forallb cls (firstn n (rest c)) = true).
  { apply forallb_weaken. pose proof (first_bad_prefix_ok strict block) as H. fold n in H.
    unfold block in H. rewrite firstn_firstn, Nat.min_l in H by exact Hn. exact H. }
  rewrite (first_bad_step n (rest c)) by (try exact Hpre; lia).
  destruct (Nat.eqb_spec n W) as [E|E].
  - rewrite IH.
    + rewrite adv_adv. reflexivity.
    + rewrite rest_adv. apply bytes_ok_skipn. exact Hb.
    + rewrite rest_adv, skipn_length. lia.
  - rewrite Tail.
    + rewrite adv_adv, rest_adv. reflexivity.
    + rewrite rest_adv. apply bytes_ok_skipn. exact Hb.
    + rewrite rest_adv, skipn_length. lia.
Qed.
End SwarLoop.

(* ---- sse42 / avx2 / neon ---- *)
Section SimdLoop.
Variables (K : nat) (kernel : list N -> nat) (cls : N -> bool) (fallback : nat -> P unit).
Hypothesis HK : 0 < K.
Hypothesis Hkernel : forall block, length block = K -> bytes_ok block ->
  kernel block = first_bad cls block.
Hypothesis Hfallback : scan_exact fallback cls.

(* the fallback is handed the *outer* fuel, so state the lemma with two fuels *)
Lemma simd_loop_exact_gen : forall f f0 c,
  bytes_ok (rest c) -> length (rest c) < f -> length (rest c) < f0 ->
  simd_loop f K K K kernel (fallback f0) c = Done tt (adv (first_bad cls (rest c)) c).
Proof.
  induction f as [|f IH]; intros f0 c Hb Hl Hl0; [lia|].
  cbn [simd_loop]. unfold bind at 1. unfold peek_n at 1. rewrite take_spec.
  destruct (Nat.leb_spec K (length (rest c))) as [Hle|Hgt].
  - unfold bind at 1. unfold peek_n at 1. rewrite take_spec.
    destruct (Nat.leb_spec K (length (rest c))) as [_|?]; [|lia].
    set (block := firstn K (rest c)).
    assert (Hlen : length block = K) by (unfold block; rewrite firstn_length; lia).
    rewrite Hkernel by (try exact Hlen; apply bytes_ok_firstn; exact Hb).
    set (n := first_bad cls block).
    assert (Hn : n <= K) by (unfold n; rewrite <- Hlen; apply first_bad_le).
    rewrite (bind_done _ _ _ tt (adv n c)) by (apply advance_adv; lia).
    rewrite (first_bad_split cls K (rest c)) by exact Hle. fold block. fold n.
    destruct (Nat.eqb_spec n K) as [E|E]; [|reflexivity].
    rewrite E. rewrite IH.
    + rewrite adv_adv. reflexivity.
    + rewrite rest_adv. apply bytes_ok_skipn. exact Hb.
    + rewrite rest_adv, skipn_length. lia.
    + rewrite rest_adv, skipn_length. lia.
  - apply Hfallback; assumption.
Qed.

Lemma simd_loop_exact : scan_exact (fun f => simd_loop f K K K kernel (fallback f)) cls.
Proof. intros f c Hb Hl. apply simd_loop_exact_gen; assumption. Qed.
End SimdLoop.

Lemma scan_exact_ext s cls cls' :
  (forall b, (b < 256)%N -> cls b = cls' b) -> scan_exact s cls -> scan_exact s cls'.
Proof.
  intros He Hs f c Hb Hl. rewrite Hs by assumption. f_equal. f_equal.
  apply first_bad_ext. eapply Forall_impl; [|exact Hb]. intros b Hlt. apply He. exact Hlt.
Qed.
