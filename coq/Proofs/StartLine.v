(* Proofs/StartLine.v -- each start-line function of the model (Model.v) agrees with the
   corresponding reference stage (Spec.v), for every environment satisfying EnvOk. *)
From Coq Require Import List NArith ZArith Lia Bool ZifyBool ZifyN ZifyNat.
From HV Require Import Cursor Scan Model Api Spec.
From HV.Proofs Require Import Base ScanLoops EnvOk.
Import ListNotations.

(* a model stage that ends committed agrees with a reference stage *)
Definition agree {A} (o : out A) (r : rres A) : Prop :=
  match r with
  | ROk a off l => o = Done a (mkcur off [] l)
  | RPart => o = Part
  | RErr e => o = Fail e
  end.

(* a model stage that leaves the token uncommitted: only the absolute position and the
   remaining input are determined *)
Definition agree_nc {A} (o : out A) (r : rres A) : Prop :=
  match r with
  | ROk a off l => exists c', o = Done a c' /\ apos c' = off /\ rest c' = l
  | RPart => o = Part
  | RErr e => o = Fail e
  end.

Lemma rev'_rev {A} (l : list A) : rev' l = rev l.
Proof. unfold rev'. rewrite rev_alt. reflexivity. Qed.

Ltac msimp := cbn [rest pre tokrev hd_error shift drop take length app is_ws].
Ltac mstep :=
  try unfold space; try unfold newline; try unfold bump; try unfold expect;
  try unfold bind; try unfold ret; try unfold fail; try unfold part; try unfold fault_;
  try unfold next; try unfold peek; try unfold slice; try unfold slice_skip; try unfold commit;
  try unfold advance; try unfold peek_n; try unfold peek_ahead; try unfold pos; try unfold apos;
  msimp.

Ltac split_if :=
  match goal with
  | |- context [if is ?k ?b then _ else _] => destruct (is k b) eqn:?
  end.

Section WithEnv.
Variable E : env.
Hypothesis HE : env_ok E.

(* ---- skip_empty_lines ---- *)
Lemma skip_empty_lines_agree : forall f l t p,
  length l < f ->
  agree (skip_empty_lines_f f (mkcur p t l)) (ref_empty_lines (length t + p) l).
Proof.
  induction f as [|f IH]; intros l t p Hl; [lia|].
  destruct l as [|b r]; [reflexivity|].
  cbn [skip_empty_lines_f ref_empty_lines]. mstep. unfold CR, LF.
  destruct (is 13 b) eqn:E13.
  - destruct r as [|b2 r2]; [reflexivity|]. mstep.
    destruct (is 10 b2) eqn:E10; [|reflexivity]. mstep.
    specialize (IH r2 (b2 :: b :: t) p). cbn [length] in IH, Hl.
    replace (2 + (length t + p)) with (S (S (length t)) + p) by lia. apply IH. lia.
  - destruct (is 10 b) eqn:E10.
    + mstep. specialize (IH r (b :: t) p). cbn [length] in IH, Hl.
      replace (1 + (length t + p)) with (S (length t) + p) by lia. apply IH. lia.
    + reflexivity.
Qed.

(* ---- skip_spaces ---- *)
Lemma skip_spaces_agree : forall f l t p,
  length l < f ->
  agree (skip_spaces_f f (mkcur p t l)) (ref_spaces true (length t + p) l).
Proof.
  induction f as [|f IH]; intros l t p Hl; [lia|].
  destruct l as [|b r]; [reflexivity|].
  cbn [skip_spaces_f]. unfold ref_spaces. cbn [span]. mstep. unfold SP.
  destruct (is 32 b) eqn:E32.
  - mstep. specialize (IH r (b :: t) p). cbn [length] in IH, Hl.
    unfold ref_spaces in IH. destruct (span (is 32) r) as [s r'].
    specialize (IH ltac:(lia)). destruct r' as [|x r'']; cbn [agree length] in *.
    + exact IH.
    + rewrite IH. f_equal. f_equal. lia.
  - reflexivity.
Qed.

(* ---- facts about single bytes ---- *)
Lemma is_eq k b : is k b = true -> b = k.
Proof. unfold is. apply N.eqb_eq. Qed.
Lemma tchar_sp b : is 32 b = true -> tchar b = false.
Proof. intros H. apply is_eq in H. subst. reflexivity. Qed.
Lemma uri_sp b : is 32 b = true -> uri_char b = false.
Proof. intros H. apply is_eq in H. subst. reflexivity. Qed.

Lemma span_first_bad p l : span p l = (firstn (first_bad p l) l, skipn (first_bad p l) l).
Proof.
  induction l as [|b r IH]; [reflexivity|]. cbn [span first_bad].
  destruct (p b); [|reflexivity]. rewrite IH. reflexivity.
Qed.

(* ---- parse_token / parse_method ---- *)
Definition ref_token_tail (p : nat) (t : list N) (l : list N) : rres sl :=
  let (m, r) := span tchar l in
  match r with
  | [] => RPart
  | b :: r' =>
      if is 32 b then ROk (Sub p (rev t ++ m)) (S (length m + length t) + p) r' else RErr Token
  end.

Lemma parse_token_f_agree : forall f l t p,
  length l < f -> bytes_ok l ->
  agree (parse_token_f E f (mkcur p t l)) (ref_token_tail p t l).
Proof.
  induction f as [|f IH]; intros l t p Hl Hb; [lia|].
  destruct l as [|b r]; [reflexivity|].
  apply bytes_ok_cons in Hb as [Hb0 Hbr].
  cbn [parse_token_f]. unfold ref_token_tail. cbn [span]. mstep. unfold SP.
  rewrite (ok_method E HE b Hb0).
  destruct (is 32 b) eqn:E32.
  - rewrite (tchar_sp b E32). msimp. cbn [agree]. rewrite E32, rev'_rev, app_nil_r. reflexivity.
  - destruct (tchar b) eqn:Et; cbn [negb].
    + specialize (IH r (b :: t) p). unfold ref_token_tail in IH.
      destruct (span tchar r) as [m r'] eqn:Es.
      cbn [length] in Hl. specialize (IH ltac:(lia) Hbr).
      destruct r' as [|b' r'']; [exact IH|].
      destruct (is 32 b'); [|exact IH]. cbn [agree] in *. rewrite IH.
      cbn [rev length]. rewrite <- app_assoc. cbn [app]. f_equal. f_equal. lia.
    + cbn [agree]. rewrite E32. reflexivity.
Qed.

Lemma parse_token_agree : forall f l p,
  length l < f -> bytes_ok l ->
  agree (parse_token E f (mkcur p [] l)) (ref_method p l).
Proof.
  intros f l p Hl Hb. unfold parse_token, ref_method.
  destruct l as [|b r]; [reflexivity|].
  apply bytes_ok_cons in Hb as [Hb0 Hbr]. mstep.
  rewrite (ok_method E HE b Hb0). cbn [span].
  destruct (tchar b) eqn:Et; cbn [negb].
  - pose proof (parse_token_f_agree f r [b] p ltac:(cbn [length] in Hl; lia) Hbr) as H.
    unfold ref_token_tail in H. destruct (span tchar r) as [m r'].
    destruct r' as [|b' r'']; [exact H|]. cbn [null].
    destruct (is 32 b'); [|exact H]. cbn [agree rev app length] in *. rewrite H.
    f_equal. f_equal. lia.
  - cbn [agree null]. reflexivity.
Qed.

Lemma list_eqb_eq a b : list_eqb a b = true -> a = b.
Proof.
  revert b; induction a as [|x a IH]; intros [|y b]; cbn; try discriminate; [reflexivity|].
  intros H. apply andb_prop in H as [H1 H2]. apply N.eqb_eq in H1. f_equal; auto.
Qed.

Lemma take_4 l a : take 4 l = Some a -> exists r, l = a ++ r /\ length a = 4.
Proof.
  rewrite take_spec. destruct (Nat.leb_spec 4 (length l)); [|discriminate].
  intros H0. assert (Ha : a = firstn 4 l) by congruence. subst a.
  exists (skipn 4 l). split; [symmetry; apply firstn_skipn|rewrite firstn_length; lia].
Qed.

Lemma parse_method_agree : forall f l p,
  length l < f -> bytes_ok l ->
  agree (parse_method E f (mkcur p [] l)) (ref_method p l).
Proof.
  intros f l p Hl Hb. unfold parse_method.
  unfold bind at 1. unfold peek_n. cbn [rest].
  destruct (take 4 l) as [four|] eqn:E4; [|apply parse_token_agree; assumption].
  destruct (list_eqb four GET_) eqn:EG.
  - apply list_eqb_eq in EG. subst four. apply take_4 in E4 as [r [-> _]].
    unfold GET_. cbn [app]. mstep. unfold ref_method. cbn. reflexivity.
  - destruct (list_eqb four POST) eqn:EP; [|apply parse_token_agree; assumption].
    apply list_eqb_eq in EP. subst four. apply take_4 in E4 as [r [-> _]].
    unfold POST. cbn [app]. mstep.
    destruct r as [|b r'].
    + cbn [hd_error]. apply parse_token_agree; assumption.
    + cbn [hd_error]. destruct (is SP b) eqn:ES; [|apply parse_token_agree; assumption].
      unfold SP in ES. unfold ref_method. cbn [span]. 
      change (tchar 80) with true. change (tchar 79) with true. change (tchar 83) with true. change (tchar 84) with true.
      cbn iota. rewrite (tchar_sp b ES). cbn [agree null length]. rewrite ES. reflexivity.
Qed.

(* ---- parse_uri ---- *)
Lemma parse_uri_agree : forall f l p,
  length l < f -> bytes_ok l ->
  agree (parse_uri E f (mkcur p [] l)) (ref_target p l).
Proof.
  intros f l p Hl Hb. unfold parse_uri, ref_target. rewrite span_first_bad.
  set (k := first_bad uri_char l).
  assert (Hk : k <= length l) by apply first_bad_le.
  unfold bind at 1. unfold pos at 1. cbn [tokrev pre length Nat.add].
  unfold bind at 1. rewrite (ok_s_uri E HE f (mkcur p [] l) Hb Hl). cbn [rest]. fold k.
  unfold adv. cbn [pre tokrev rest]. rewrite app_nil_r. clearbody k.
  unfold bind at 1. unfold pos at 1. cbn [tokrev pre].
  rewrite rev_length, firstn_length, Nat.min_l by exact Hk.
  destruct (skipn k l) as [|b r'] eqn:Es; [reflexivity|].
  mstep. unfold SP. destruct (is 32 b) eqn:E32; [|reflexivity]. cbn [negb].
  destruct (Nat.eqb_spec k 0) as [E0|E0].
  - assert (k = 0) by lia. replace (firstn k l) with (@nil N) by (rewrite H; reflexivity).
    reflexivity.
  - assert (Hne : null (firstn k l) = false).
    { destruct l as [|x l']; [cbn [length] in Hk; lia|]. destruct k as [|k']; [lia|reflexivity]. }
    rewrite Hne. msimp. cbn [sl_bytes]. rewrite rev'_rev, rev_involutive.
    destruct (utf8_valid (firstn k l)); cbn [negb agree]; [|reflexivity].
    rewrite rev_length, firstn_length, Nat.min_l by exact Hk. reflexivity.
Qed.

(* ---- newline! ---- *)
Lemma newline_agree : forall c,
  agree (newline c) (ref_eol NewLine (apos c) (rest c)).
Proof.
  intros [p t l]. unfold ref_eol. cbn [apos rest tokrev pre].
  destruct l as [|b r]; [reflexivity|]. mstep. unfold CR, LF.
  destruct (is 13 b).
  - destruct r as [|b2 r2]; [reflexivity|]. msimp.
    destruct (is 10 b2); [|reflexivity]. cbn [agree]. f_equal; f_equal; lia.
  - destruct (is 10 b); [|reflexivity]. cbn [agree]. f_equal; f_equal; lia.
Qed.

(* ---- parse_version (leaves 8 bytes uncommitted) ---- *)
Lemma parse_version_agree : forall c,
  agree_nc (parse_version c) (ref_version (apos c) (rest c)).
Proof.
  intros [p t l]. unfold parse_version, ref_version. cbn [apos rest tokrev pre].
  unfold bind at 1. unfold peek_n. cbn [rest].
  destruct (take 8 l) as [eight|] eqn:E8.
  - rewrite take_spec in E8. destruct (Nat.leb_spec 8 (length l)) as [H8|]; [|discriminate].
    unfold bind at 1. rewrite advance_adv by exact H8.
    change (HTTP1dot ++ [48%N]) with H10. change (HTTP1dot ++ [49%N]) with H11.
    assert (Hc : apos (adv 8 (mkcur p t l)) = 8 + (length t + p) /\ rest (adv 8 (mkcur p t l)) = skipn 8 l).
    { unfold adv, apos. cbn [pre tokrev rest]. rewrite app_length, rev_length, firstn_length, Nat.min_l by exact H8.
      split; [lia|reflexivity]. }
    destruct (list_eqb eight H10); [exists (adv 8 (mkcur p t l)); tauto|].
    destruct (list_eqb eight H11); [exists (adv 8 (mkcur p t l)); tauto|reflexivity].
  - rewrite take_spec in E8. destruct (Nat.leb_spec 8 (length l)) as [|H8]; [discriminate|].
    unfold HTTP1dot.
    do 8 (destruct l as [|? l]; [mstep; cbn [is_prefix];
          repeat (msimp; cbn [andb];
                  match goal with |- context [if is ?k ?b then _ else _] =>
                    change (is k b) with (N.eqb b k); destruct (N.eqb b k) end);
          msimp; cbn [andb agree_nc]; reflexivity|]).
    cbn [length] in H8. lia.
Qed.

(* ---- status line pieces ---- *)
Lemma space_agree : forall e c, agree (space e c) (ref_sp e (apos c) (rest c)).
Proof.
  intros e [p t l]. unfold ref_sp. cbn [apos rest tokrev pre].
  destruct l as [|b r]; [reflexivity|]. mstep. unfold SP.
  destruct (is 32 b); [|reflexivity]. cbn [agree]. f_equal.
Qed.

Lemma parse_code_agree : forall c, agree_nc (parse_code c) (ref_code (apos c) (rest c)).
Proof.
  intros [p t l]. unfold parse_code, ref_code. cbn [apos rest tokrev pre].
  change is_digit with digit.
  destruct l as [|a r1]; [reflexivity|]. mstep. destruct (digit a); cbn [negb]; [|reflexivity].
  destruct r1 as [|b r2]; [reflexivity|]. msimp. destruct (digit b); cbn [negb]; [|reflexivity].
  destruct r2 as [|c r3]; [reflexivity|]. msimp. destruct (digit c); cbn [negb]; [|reflexivity].
  cbn [agree_nc]. eexists. split; [reflexivity|]. unfold apos. cbn [tokrev pre rest length]. split; [lia|reflexivity].
Qed.

Lemma reason_byte_char b : (b < 256)%N -> reason_byte b = reason_char b.
Proof.
  intros H. unfold reason_byte, reason_char, in_range, SP.
  replace (b <=? 255)%N with true by (symmetry; apply N.leb_le; lia).
  rewrite andb_true_r. reflexivity.
Qed.
Lemma reason_char_not_eol b : reason_char b = true -> is 13 b = false /\ is 10 b = false.
Proof.
  unfold reason_char, is, in_range. intros H. split; apply N.eqb_neq; intros ->; discriminate.
Qed.

Definition ref_reason_tail (seen : bool) (p : nat) (t : list N) (l : list N) : rres sl :=
  let (m, r) := span reason_char l in
  let s := if seen || negb (forallb (fun b => N.ltb b 128) m) then Ext [] else Sub p (rev t ++ m) in
  match ref_eol Status (length m + (length t + p)) r with
  | ROk _ o r' => ROk s o r'
  | RPart => RPart
  | RErr e => RErr e
  end.

Lemma parse_reason_f_agree : forall f l seen t p,
  length l < f -> bytes_ok l ->
  agree (parse_reason_f f seen (mkcur p t l)) (ref_reason_tail seen p t l).
Proof.
  induction f as [|f IH]; intros l seen t p Hl Hb; [lia|].
  destruct l as [|b r]; [reflexivity|].
  apply bytes_ok_cons in Hb as [Hb0 Hbr].
  cbn [parse_reason_f]. unfold ref_reason_tail. cbn [span]. mstep. unfold CR, LF.
  rewrite (reason_byte_char b Hb0).
  destruct (reason_char b) eqn:Er.
  - destruct (reason_char_not_eol b Er) as [-> ->]. cbn [negb].
    specialize (IH r (seen || (128 <=? b)%N) (b :: t) p). unfold ref_reason_tail in IH.
    destruct (span reason_char r) as [m r'] eqn:Es.
    cbn [length] in Hl. specialize (IH ltac:(lia) Hbr).
    cbn [forallb length rev] in IH |- *. rewrite <- app_assoc in IH. cbn [app] in IH.
    replace (length m + (S (length t) + p)) with (S (length m) + (length t + p)) in IH by lia.
    replace (seen || negb ((b <? 128)%N && forallb (fun b0 : N => (b0 <? 128)%N) m))
      with (seen || (128 <=? b)%N || negb (forallb (fun b0 : N => (b0 <? 128)%N) m)).
    2:{ destruct seen; cbn [orb]; [reflexivity|].
        destruct (N.ltb_spec b 128); destruct (N.leb_spec 128 b); try lia; cbn [andb negb orb]; reflexivity. }
    exact IH.
  - cbn [forallb negb length rev app Nat.add]. rewrite orb_false_r, app_nil_r.
    unfold ref_eol.
    destruct (is 13 b) eqn:E13.
    + destruct r as [|b2 r2]; [reflexivity|]. msimp.
      destruct (is 10 b2); [|reflexivity]. msimp. cbn [agree]. rewrite rev'_rev.
      destruct seen; f_equal; f_equal; lia.
    + destruct (is 10 b) eqn:E10.
      * msimp. cbn [agree]. rewrite rev'_rev. destruct seen; f_equal; f_equal; lia.
      * reflexivity.
Qed.

Lemma parse_reason_agree : forall f l p,
  length l < f -> bytes_ok l ->
  agree (parse_reason f (mkcur p [] l)) (ref_reason p l).
Proof.
  intros f l p Hl Hb. pose proof (parse_reason_f_agree f l false [] p Hl Hb) as H.
  unfold parse_reason, ref_reason, ref_reason_tail in *.
  destruct (span reason_char l) as [m r]. cbn [orb rev app length Nat.add] in H.
  destruct (forallb (fun b => N.ltb b 128) m); cbn [negb] in H; exact H.
Qed.
End WithEnv.
