(* Proofs/StartLine.v -- each start-line function of the model (Model.v) agrees with the
   corresponding reference stage (Spec.v), for every environment satisfying EnvOk. *)
From Coq Require Import List NArith ZArith Lia Bool ZifyBool ZifyN ZifyNat.
From HV Require Import Cursor Scan Model Api Spec.
From HV.Proofs Require Import Base ScanLoops EnvOk.
Import ListNotations.

(* a model stage that ends committed agrees with a reference stage *)
Definition agree {A} (o : out A) (r : rres A) : Prop :=
  match r with
  | ROk a off l => o = Done a (mkcur off [] l)
  | RPart => o = Part
  | RErr e => o = Fail e
  end.

(* a model stage that leaves the token uncommitted: only the absolute position and the
   remaining input are determined *)
Definition agree_nc {A} (o : out A) (r : rres A) : Prop :=
  match r with
  | ROk a off l => exists c', o = Done a c' /\ apos c' = off /\ rest c' = l
  | RPart => o = Part
  | RErr e => o = Fail e
  end.

Lemma rev'_rev {A} (l : list A) : rev' l = rev l.
Proof. unfold rev'. rewrite rev_alt. reflexivity. Qed.

Ltac mstep :=
  unfold space, newline, bump, expect;
  unfold bind, ret, fail, part, fault_, next, peek, slice, slice_skip, commit, advance,
         peek_n, peek_ahead, pos, apos;
  cbn [rest pre tokrev hd_error shift drop take length app is_ws].

Ltac split_if :=
  match goal with
  | |- context [if is ?k ?b then _ else _] => destruct (is k b) eqn:?
  end.

Section WithEnv.
Variable E : env.
Hypothesis HE : env_ok E.

(* ---- skip_empty_lines ---- *)
Lemma skip_empty_lines_agree : forall f l t p,
  length l < f ->
  agree (skip_empty_lines_f f (mkcur p t l)) (ref_empty_lines (length t + p) l).
Proof.
  induction f as [|f IH]; intros l t p Hl; [lia|].
  destruct l as [|b r]; [reflexivity|].
  cbn [skip_empty_lines_f ref_empty_lines]. mstep. unfold CR, LF.
  destruct (is 13 b) eqn:E13.
  - destruct r as [|b2 r2]; [reflexivity|]. mstep.
    destruct (is 10 b2) eqn:E10; [|reflexivity]. mstep.
    specialize (IH r2 (b2 :: b :: t) p). cbn [length] in IH, Hl.
    replace (2 + (length t + p)) with (S (S (length t)) + p) by lia. apply IH. lia.
  - destruct (is 10 b) eqn:E10.
    + mstep. specialize (IH r (b :: t) p). cbn [length] in IH, Hl.
      replace (1 + (length t + p)) with (S (length t) + p) by lia. apply IH. lia.
    + reflexivity.
Qed.

(* ---- skip_spaces ---- *)
Lemma skip_spaces_agree : forall f l t p,
  length l < f ->
  agree (skip_spaces_f f (mkcur p t l)) (ref_spaces true (length t + p) l).
Proof.
  induction f as [|f IH]; intros l t p Hl; [lia|].
  destruct l as [|b r]; [reflexivity|].
  cbn [skip_spaces_f]. unfold ref_spaces. cbn [span]. mstep. unfold SP.
  destruct (is 32 b) eqn:E32.
  - mstep. specialize (IH r (b :: t) p). cbn [length] in IH, Hl.
    unfold ref_spaces in IH. destruct (span (is 32) r) as [s r'].
    specialize (IH ltac:(lia)). destruct r' as [|x r'']; cbn [agree length] in *.
    + exact IH.
    + rewrite IH. f_equal. f_equal. lia.
  - reflexivity.
Qed.
End WithEnv.
