(* RuntimeProg.v -- soundness of the abstract interpreter of RtProg.v: a program it accepts (with detect() <> 0)
   keeps the cell at 0-or-d and makes every thread return d, for any number of threads and every interleaving
   of their relaxed loads and stores. *)
From Coq Require Import List NArith Bool Arith Lia.
From HV Require Import RtProg.
Import ListNotations.

Section Sound.
Variable d : N.
Hypothesis d_nonzero : d <> 0%N.
Variable prog : list instr.
Variable fuel0 : nat.     (* any fuel with which the interpreter accepts the program; never a numeral in here *)

Definition val_ok (v : N) : Prop := v = 0%N \/ v = d.
Definition gamma (a : aval) (v : N) : Prop :=
  match a with AZero => v = 0%N | AD => v = d | AOk => val_ok v | ATop => True end.
Definition agree (rho : nat -> aval) (regs : nat -> N) : Prop := forall r, gamma (rho r) (regs r).

Definition tinv (t : thread) : Prop :=
  (t_out t = None /\ exists f rho, agree rho (t_regs t) /\ acheck f (t_k t) rho = true) \/
  (t_k t = [] /\ t_out t = Some d).
Definition inv (s : state) : Prop := Forall val_ok (mo s) /\ Forall tinv (threads s).

Lemma Forall_set_nth {A} (P : A -> Prop) i x l : Forall P l -> P x -> Forall P (set_nth i x l).
Proof.
  revert i; induction l as [|y r IH]; intros i Hl Hx; [destruct i; constructor|].
  inversion Hl; subst. destruct i; cbn; constructor; auto.
Qed.
Lemma Forall_nth_error {A} (P : A -> Prop) l i x : Forall P l -> nth_error l i = Some x -> P x.
Proof.
  revert i; induction l as [|y r IH]; intros i Hl Hn; [destruct i; discriminate|].
  inversion Hl; subst. destruct i; cbn in Hn; [injection Hn as <-; assumption|eauto].
Qed.
Lemma agree_upd rho regs r a v : agree rho regs -> gamma a v -> agree (upd rho r a) (upd regs r v).
Proof. intros H Hg r'. unfold upd. destruct (Nat.eqb r' r); [exact Hg|apply H]. Qed.
Lemma agree_refine rho regs r a : agree rho regs -> gamma a (regs r) -> agree (upd rho r a) regs.
Proof. intros H Hg r'. unfold upd. destruct (Nat.eqb r' r) eqn:E; [apply Nat.eqb_eq in E; subst; exact Hg|apply H]. Qed.
Lemma is_AD_gamma a v : is_AD a = true -> gamma a v -> v = d.
Proof. destruct a; cbn; intros H Hg; try discriminate; exact Hg. Qed.

(* which refinement a comparison with 0 justifies *)
Lemma split_zero_in a v : gamma a v -> N.eqb v 0 = true ->
  exists a', fst (split_zero a) = Some a' /\ gamma a' v.
Proof.
  intros Hg He. apply N.eqb_eq in He. subst v. destruct a; cbn in *.
  - exists AZero; split; reflexivity.
  - exfalso. apply d_nonzero. symmetry. exact Hg.
  - exists AZero; split; reflexivity.
  - exists AZero; split; reflexivity.
Qed.
Lemma split_zero_out a v : gamma a v -> N.eqb v 0 = false ->
  exists a', snd (split_zero a) = Some a' /\ gamma a' v.
Proof.
  intros Hg He. apply N.eqb_neq in He. destruct a; cbn in *.
  - contradiction.
  - exists AD; split; [reflexivity|exact Hg].
  - exists AD; split; [reflexivity|]. destruct Hg as [Hg|Hg]; [contradiction|exact Hg].
  - exists ATop; split; [reflexivity|exact Logic.I].
Qed.

Lemma tinv_initial : acheck fuel0 prog (fun _ => ATop) = true -> tinv (mkthread prog (fun _ => 0%N) 0 None).
Proof.
  intros Hc. left. split; [reflexivity|].
  exact (ex_intro _ fuel0 (ex_intro _ (fun _ => ATop) (conj (fun r => Logic.I) Hc))).
Qed.
Lemma inv_init n : acheck fuel0 prog (fun _ => ATop) = true -> inv (init prog n).
Proof.
  intros Hc. unfold inv, init. cbn [mo threads]. split.
  - constructor; [left; reflexivity|constructor].
  - apply Forall_forall. intros t Ht. apply repeat_spec in Ht. subst t. apply tinv_initial. exact Hc.
Qed.

(* a thread that still has an instruction to run is in the first case of tinv *)
Lemma tinv_running t i k : tinv t -> t_k t = i :: k ->
  t_out t = None /\ exists f rho, agree rho (t_regs t) /\ acheck (S f) (i :: k) rho = true.
Proof.
  intros [[Ho (f & rho & Ha & Hc)]|[Hk _]] Hk'; [|rewrite Hk' in Hk; discriminate].
  split; [exact Ho|]. rewrite Hk' in Hc. destruct f as [|f]; [discriminate|]. exists f, rho. split; assumption.
Qed.

Lemma inv_step s s' : inv s -> step d s s' -> inv s'.
Proof.
  intros [Hm Ht] Hs.
  inversion Hs as [s0 i t r k j v Hn Hk Hj Hv | s0 i t r k Hn Hk | s0 i t r k Hn Hk
                  | s0 i t a b k Hn Hk
                  | s0 i t z r body els k Hn Hk Hz | s0 i t z r body els k Hn Hk Hz | s0 i t r k Hn Hk]; subst;
    pose proof (Forall_nth_error _ _ _ _ Ht Hn) as Hti;
    destruct (tinv_running _ _ _ Hti Hk) as (Ho & f & rho & Ha & Hc); cbn [acheck] in Hc.
  - (* load *)
    split; [exact Hm|]. apply Forall_set_nth; [exact Ht|]. left. cbn [t_out t_k t_regs]. split; [exact Ho|].
    exists f, (upd rho r AOk). split; [|exact Hc]. apply agree_upd; [exact Ha|].
    exact (Forall_nth_error _ _ _ _ Hm Hv).
  - (* detect *)
    split; [exact Hm|]. apply Forall_set_nth; [exact Ht|]. left. cbn [t_out t_k t_regs]. split; [exact Ho|].
    exists f, (upd rho r AD). split; [|exact Hc]. apply agree_upd; [exact Ha|reflexivity].
  - (* store *)
    apply andb_true_iff in Hc. destruct Hc as [Hd Hc]. pose proof (is_AD_gamma _ _ Hd (Ha r)) as Hv.
    split; cbn [mo threads].
    + apply Forall_app. split; [exact Hm|]. constructor; [right; exact Hv|constructor].
    + apply Forall_set_nth; [exact Ht|]. left. cbn [t_out t_k t_regs]. split; [exact Ho|]. exists f, rho. split; assumption.
  - (* move *)
    split; [exact Hm|]. apply Forall_set_nth; [exact Ht|]. left. cbn [t_out t_k t_regs]. split; [exact Ho|].
    exists f, (upd rho a (rho b)). split; [|exact Hc]. apply agree_upd; [exact Ha|apply Ha].
  - (* if, branch taken *)
    split; [exact Hm|]. apply Forall_set_nth; [exact Ht|]. left. cbn [t_out t_k t_regs]. split; [exact Ho|].
    destruct (split_zero (rho r)) as [az anz] eqn:Es.
    destruct (N.eqb (t_regs t r) 0) eqn:Hz.
    + destruct (split_zero_in _ _ (Ha r) Hz) as (a' & Ea & Hg). rewrite Es in Ea. cbn in Ea. subst az.
      apply andb_true_iff in Hc. destruct Hc as [Hc _].
      exists f, (upd rho r a'). split; [apply agree_refine; assumption|exact Hc].
    + destruct (split_zero_out _ _ (Ha r) Hz) as (a' & Ea & Hg). rewrite Es in Ea. cbn in Ea. subst anz.
      apply andb_true_iff in Hc. destruct Hc as [Hc _].
      exists f, (upd rho r a'). split; [apply agree_refine; assumption|exact Hc].
  - (* if, branch skipped *)
    split; [exact Hm|]. apply Forall_set_nth; [exact Ht|]. left. cbn [t_out t_k t_regs]. split; [exact Ho|].
    destruct (split_zero (rho r)) as [az anz] eqn:Es.
    destruct z; cbn [negb] in Hz.
    + destruct (split_zero_out _ _ (Ha r) Hz) as (a' & Ea & Hg). rewrite Es in Ea. cbn in Ea. subst anz.
      apply andb_true_iff in Hc. destruct Hc as [_ Hc].
      exists f, (upd rho r a'). split; [apply agree_refine; assumption|exact Hc].
    + destruct (split_zero_in _ _ (Ha r) Hz) as (a' & Ea & Hg). rewrite Es in Ea. cbn in Ea. subst az.
      apply andb_true_iff in Hc. destruct Hc as [_ Hc].
      exists f, (upd rho r a'). split; [apply agree_refine; assumption|exact Hc].
  - (* return *)
    split; [exact Hm|]. apply Forall_set_nth; [exact Ht|]. right. cbn [t_out t_k t_regs]. split; [reflexivity|].
    f_equal. exact (is_AD_gamma _ _ Hc (Ha r)).
Qed.

Theorem acheck_sound : acheck fuel0 prog (fun _ => ATop) = true -> forall n s, reachable d prog n s ->
  Forall val_ok (mo s) /\
  (* a thread that has nothing left to run has returned, and returned d *)
  (forall i t, nth_error (threads s) i = Some t -> t_k t = [] -> t_out t = Some d) /\
  (* and whatever any thread has returned is d *)
  (forall i t v, nth_error (threads s) i = Some t -> t_out t = Some v -> v = d).
Proof.
  intros Hc n s Hr.
  assert (Hi : inv s) by (induction Hr; [apply inv_init; exact Hc|eapply inv_step; eauto]).
  destruct Hi as [Hm Ht]. split; [exact Hm|]. split.
  - intros i t Hn Hk. destruct (Forall_nth_error _ _ _ _ Ht Hn) as [[_ (f & rho & _ & Hf)]|[_ Ho]]; [|exact Ho].
    rewrite Hk in Hf. destruct f; discriminate.
  - intros i t v Hn Ho. destruct (Forall_nth_error _ _ _ _ Ht Hn) as [[Hno _]|[_ Hd]].
    + rewrite Hno in Ho. discriminate.
    + rewrite Hd in Ho. injection Ho as <-. reflexivity.
Qed.
End Sound.
