(* Proofs/Stable.v -- the reference parsers are stable under appending bytes: a stage that
   succeeded or failed on l gives the same answer (with the appended bytes left over) on
   l ++ ext.  This is C02 for the reference; Thm/C02.v transports it to the model. *)
From Coq Require Import List NArith ZArith Lia Bool ZifyBool ZifyN ZifyNat.
From HV Require Import Cursor Scan Model Api Spec.
From HV.Proofs Require Import Base RefFacts.
Import ListNotations.

Definition extends {A} (ext : list N) (r r' : rres A) : Prop :=
  match r with
  | ROk a o l => r' = ROk a o (l ++ ext)
  | RErr e => r' = RErr e
  | RPart => True
  end.

Ltac ex_refl := cbn [extends]; try reflexivity; try exact I.

Lemma span_ext p l ext a b r :
  span p l = (a, b :: r) -> span p (l ++ ext) = (a, b :: r ++ ext).
Proof.
  revert a; induction l as [|x l IH]; intros a H; [discriminate|].
  cbn [span app] in *. destruct (p x).
  - destruct (span p l) as [a' t] eqn:Es. injection H as <- ->.
    rewrite (IH a' eq_refl). ex_refl.
  - injection H as <- <- <-. ex_refl.
Qed.

Lemma span_all_stop p l e :
  snd (span p l) = [] -> match e with c :: _ => p c = false | [] => True end -> span p (l ++ e) = (l, e).
Proof.
  induction l as [|x l IH]; intros H He.
  - cbn [app]. destruct e as [|c e']; [reflexivity|]. cbn [span]. rewrite He. reflexivity.
  - cbn [span app] in *. destruct (p x); [|discriminate]. destruct (span p l) as [a t]. cbn [snd] in H.
    rewrite (IH H He). reflexivity.
Qed.
Lemma span_all_fst p l : snd (span p l) = [] -> fst (span p l) = l.
Proof. intros H. pose proof (span_app p l) as E. rewrite H, app_nil_r in E. auto. Qed.

Section Stab.
Variable ext : list N.

Lemma extends_rbind {A B} (r r' : rres A) (g g' : A -> nat -> list N -> rres B) :
  extends ext r r' ->
  (forall a o l, extends ext (g a o l) (g' a o (l ++ ext))) ->
  extends ext (rbind r g) (rbind r' g').
Proof.
  intros H Hg. destruct r as [a o l| |e]; cbn [extends rbind] in *; subst; cbn [rbind]; auto.
Qed.

Lemma ref_empty_lines_stable : forall n l off, length l <= n ->
  extends ext (ref_empty_lines off l) (ref_empty_lines off (l ++ ext)).
Proof.
  induction n as [|n IH]; intros l off Hn.
  { destruct l; [exact I|cbn [length] in Hn; lia]. }
  destruct l as [|b r]; [exact I|]. cbn [length] in Hn. cbn [ref_empty_lines app].
  destruct (is 13 b).
  - destruct r as [|b2 r2]; [exact I|]. cbn [app]. destruct (is 10 b2); [|ex_refl].
    apply IH. cbn [length] in Hn. lia.
  - destruct (is 10 b); [apply IH; lia|ex_refl].
Qed.

Lemma ref_spaces_stable on off l : extends ext (ref_spaces on off l) (ref_spaces on off (l ++ ext)).
Proof.
  unfold ref_spaces. destruct on; [|ex_refl].
  destruct (span (is 32) l) as [s r] eqn:Es. destruct r as [|b r']; [exact I|].
  rewrite (span_ext _ _ _ _ _ _ Es). ex_refl.
Qed.

Lemma ref_method_stable off l : extends ext (ref_method off l) (ref_method off (l ++ ext)).
Proof.
  unfold ref_method. destruct (span tchar l) as [m r] eqn:Es. destruct r as [|b r']; [exact I|].
  rewrite (span_ext _ _ _ _ _ _ Es). destruct (null m); [ex_refl|]. destruct (is 32 b); ex_refl.
Qed.

Lemma ref_target_stable off l : extends ext (ref_target off l) (ref_target off (l ++ ext)).
Proof.
  unfold ref_target. destruct (span uri_char l) as [m r] eqn:Es. destruct r as [|b r']; [exact I|].
  rewrite (span_ext _ _ _ _ _ _ Es). destruct (negb (is 32 b)); [ex_refl|].
  destruct (null m); [ex_refl|]. destruct (negb (utf8_valid m)); ex_refl.
Qed.

Lemma is_prefix_false_eqb : forall l lit x y,
  length l <= length lit -> is_prefix l lit = false -> list_eqb (l ++ x) (lit ++ y) = false.
Proof.
  induction l as [|a l IH]; intros lit x y Hl Hp; [discriminate|].
  destruct lit as [|c lit]; [cbn [length] in Hl; lia|].
  cbn [is_prefix app list_eqb] in *. destruct (N.eqb a c); cbn [andb] in *; [|ex_refl].
  apply IH; [cbn [length] in Hl; lia|exact Hp].
Qed.
Lemma is_prefix_false_app : forall l lit x,
  is_prefix l lit = false -> is_prefix (l ++ x) lit = false.
Proof.
  induction l as [|a l IH]; intros lit x Hp; [discriminate|].
  destruct lit as [|c lit]; [ex_refl|].
  cbn [is_prefix app] in *. destruct (N.eqb a c); cbn [andb] in *; [|ex_refl]. apply IH. exact Hp.
Qed.

Lemma ref_version_stable off l : extends ext (ref_version off l) (ref_version off (l ++ ext)).
Proof.
  unfold ref_version. rewrite !take_spec.
  destruct (Nat.leb_spec 8 (length l)) as [H8|H8].
  - rewrite app_length. destruct (Nat.leb_spec 8 (length l + length ext)); [|lia].
    rewrite firstn_app. replace (8 - length l) with 0 by lia. change (firstn 0 ext) with (@nil N). rewrite app_nil_r.
    assert (Hs : skipn 8 (l ++ ext) = skipn 8 l ++ ext).
    { rewrite skipn_app. replace (8 - length l) with 0 by lia. ex_refl. }
    destruct (list_eqb (firstn 8 l) (HTTP1dot ++ [48%N])); [cbn [extends]; rewrite Hs; ex_refl|].
    destruct (list_eqb (firstn 8 l) (HTTP1dot ++ [49%N])); [cbn [extends]; try rewrite Hs; ex_refl|ex_refl].
  - destruct (is_prefix l HTTP1dot) eqn:Ep; [exact I|]. cbn [extends].
    destruct (Nat.leb_spec 8 (length (l ++ ext))) as [H8'|H8'].
    + rewrite firstn_app, firstn_all2 by lia.
      rewrite !is_prefix_false_eqb by (try exact Ep; cbn [length HTTP1dot]; lia). ex_refl.
    + rewrite is_prefix_false_app by exact Ep. ex_refl.
Qed.

Lemma ref_eol_stable e off l : extends ext (ref_eol e off l) (ref_eol e off (l ++ ext)).
Proof.
  unfold ref_eol. destruct l as [|b r]; [exact I|]. cbn [app].
  destruct (is 13 b).
  - destruct r as [|b2 r2]; [exact I|]. cbn [app]. destruct (is 10 b2); ex_refl.
  - destruct (is 10 b); ex_refl.
Qed.
Lemma ref_sp_stable e off l : extends ext (ref_sp e off l) (ref_sp e off (l ++ ext)).
Proof. unfold ref_sp. destruct l as [|b r]; [exact I|]. cbn [app]. destruct (is 32 b); ex_refl. Qed.
Lemma ref_code_stable off l : extends ext (ref_code off l) (ref_code off (l ++ ext)).
Proof.
  unfold ref_code. destruct l as [|a r1]; [exact I|]. cbn [app]. destruct (negb (digit a)); [ex_refl|].
  destruct r1 as [|b r2]; [exact I|]. cbn [app]. destruct (negb (digit b)); [ex_refl|].
  destruct r2 as [|c r3]; [exact I|]. cbn [app]. destruct (negb (digit c)); ex_refl.
Qed.

Lemma ref_reason_stable off l : extends ext (ref_reason off l) (ref_reason off (l ++ ext)).
Proof.
  unfold ref_reason. destruct (span reason_char l) as [t r] eqn:Es.
  destruct r as [|b r'].
  - cbn [ref_eol]. exact I.
  - rewrite (span_ext _ _ _ _ _ _ Es).
    pose proof (ref_eol_stable Status (length t + off) (b :: r')) as H. cbn [app] in H.
    destruct (ref_eol Status (length t + off) (b :: r')) as [u o l'| |e]; cbn [extends] in *; try rewrite H; ex_refl || exact I.
Qed.

Lemma ref_after_code_stable ms off l : extends ext (ref_after_code ms off l) (ref_after_code ms off (l ++ ext)).
Proof.
  unfold ref_after_code. destruct l as [|b r]; [exact I|]. cbn [app].
  destruct (is 32 b).
  - apply extends_rbind; [apply ref_spaces_stable|]. intros. apply ref_reason_stable.
  - destruct (is 13 b || is 10 b); [|ex_refl].
    pose proof (ref_eol_stable Status off (b :: r)) as H. cbn [app] in H.
    destruct (ref_eol Status off (b :: r)) as [u o l'| |e]; cbn [extends] in *; try rewrite H; ex_refl || exact I.
Qed.

(* ---- header lines ---- *)
Variable hc : hcfg.

Lemma ref_invalid_stable ign e off l : extends ext (ref_invalid ign e off l) (ref_invalid ign e off (l ++ ext)).
Proof.
  unfold ref_invalid. destruct ign; cbn [negb]; [|ex_refl].
  destruct (span _ l) as [junk r] eqn:Es. destruct r as [|b r1]; [exact I|].
  rewrite (span_ext _ _ _ _ _ _ Es).
  destruct (is 0 b); [ex_refl|]. destruct (is 10 b); [ex_refl|].
  destruct r1 as [|b2 r2]; [exact I|]. cbn [app]. destruct (is 10 b2); ex_refl.
Qed.

Lemma extends_map {A B} (r r' : rres A) (g : A -> B) :
  extends ext r r' -> extends ext (rbind r (fun a o l => ROk (g a) o l)) (rbind r' (fun a o l => ROk (g a) o l)).
Proof. destruct r as [a o l| |e]; cbn [extends rbind]; intros; subst; cbn [rbind]; auto. Qed.

Lemma ref_value_lines_stable : forall n l voff racc off, length l <= n ->
  extends ext (ref_value_lines hc voff racc off l) (ref_value_lines hc voff racc off (l ++ ext)).
Proof.
  induction n as [|n IH]; intros l voff racc off Hn.
  { destruct l; [exact I|cbn [length] in Hn; lia]. }
  destruct l as [|b r]; [exact I|]. cbn [length] in Hn. cbn [ref_value_lines app].
  destruct (value_char b); [apply IH; lia|].
  destruct (is 13 b).
  { destruct r as [|b2 r2]; [exact I|]. cbn [app]. destruct (is 10 b2); cbn [negb]; [|ex_refl].
    cbn [length] in Hn.
    destruct (allow_obsolete_multiline_headers hc); [|ex_refl].
    destruct r2 as [|b3 r3]; [exact I|]. cbn [app]. destruct (ws b3); [|ex_refl].
    apply (IH (b3 :: r3)). cbn [length] in *. lia. }
  destruct (is 10 b).
  { destruct (allow_obsolete_multiline_headers hc); [|ex_refl].
    destruct r as [|b3 r3]; [exact I|]. cbn [app]. destruct (ws b3); [|ex_refl].
    apply (IH (b3 :: r3)). lia. }
  apply extends_map. apply (ref_invalid_stable _ _ off (b :: r)).
Qed.

Lemma ref_value_start_stable : forall n l off, length l <= n ->
  extends ext (ref_value_start hc off l) (ref_value_start hc off (l ++ ext)).
Proof.
  induction n as [|n IH]; intros l off Hn.
  { destruct l; [exact I|cbn [length] in Hn; lia]. }
  destruct l as [|b r]; [exact I|]. cbn [length] in Hn. cbn [ref_value_start app].
  destruct (ws b); [apply IH; lia|].
  destruct (value_char b).
  { apply (ref_value_lines_stable (S (length r)) (b :: r)). cbn [length]. lia. }
  destruct (is 13 b).
  { destruct r as [|b2 r2]; [exact I|]. cbn [app]. destruct (is 10 b2); cbn [negb]; [|ex_refl].
    cbn [length] in Hn.
    destruct (allow_obsolete_multiline_headers hc); [|ex_refl].
    destruct r2 as [|b3 r3]; [exact I|]. cbn [app]. destruct (ws b3); [|ex_refl].
    apply (IH (b3 :: r3)). cbn [length] in *. lia. }
  destruct (is 10 b).
  { destruct (allow_obsolete_multiline_headers hc); [|ex_refl].
    destruct r as [|b3 r3]; [exact I|]. cbn [app]. destruct (ws b3); [|ex_refl].
    apply (IH (b3 :: r3)). lia. }
  apply extends_map. apply (ref_invalid_stable _ _ off (b :: r)).
Qed.

Lemma ref_value_stable name off l : extends ext (ref_value hc name off l) (ref_value hc name off (l ++ ext)).
Proof.
  unfold ref_value. pose proof (ref_value_start_stable (length l) l off (le_n _)) as H.
  destruct (ref_value_start hc off l) as [v o r| |e]; cbn [extends rbind] in *; try rewrite H; ex_refl || exact I.
Qed.

Lemma span_all_ext p l ext' : snd (span p l) = [] -> fst (span p (l ++ ext')) = l ++ fst (span p ext').
Proof.
  induction l as [|x l IH]; intros H; [ex_refl|]. cbn [span app] in *.
  destruct (p x); [|discriminate]. destruct (span p l) as [a t] eqn:Es. cbn [snd] in H. subst t.
  specialize (IH eq_refl). destruct (span p (l ++ ext')) as [a' t']. cbn [fst] in *. rewrite IH. ex_refl.
Qed.

(* a header line: as `extends`, except that a stripped run of leading whitespace that reaches the
   end of the buffer may grow (the block loop then answers Partial, so nothing is lost) *)
Definition extends_l (r r' : rres rline) : Prop :=
  match r with
  | ROk a o l' => (a = LSkip /\ l' = [] /\
                   (match ext with c :: _ => ws c = false | [] => True end -> r' = ROk a o ext))
                  \/ r' = ROk a o (l' ++ ext)
  | RErr e => r' = RErr e
  | RPart => True
  end.
Lemma extends_to_l r r' : extends ext r r' -> extends_l r r'.
Proof. destruct r; cbn [extends extends_l]; auto. Qed.

Lemma ref_header_line_stable first off l :
  extends_l (ref_header_line hc first off l) (ref_header_line hc first off (l ++ ext)).
Proof.
  unfold ref_header_line. destruct l as [|b r]; [exact I|]. cbn [app].
  destruct (is 13 b).
  { destruct r as [|b2 r2]; [exact I|]. cbn [app]. destruct (is 10 b2); [right|]; ex_refl. }
  destruct (is 10 b); [right; ex_refl|].
  destruct (negb (tchar b)) eqn:Et.
  { destruct (allow_space_before_first_header_name hc && first && ws b) eqn:Esp.
    - destruct (span ws (b :: r)) as [w r'] eqn:Es.
      destruct r' as [|c r''].
      { left. split; [ex_refl|]. split; [ex_refl|]. intros He.
        change (b :: r ++ ext) with ((b :: r) ++ ext).
        pose proof (span_all_fst ws (b :: r) ltac:(rewrite Es; reflexivity)) as Hw. rewrite Es in Hw. cbn [fst] in Hw. subst w.
        rewrite (span_all_stop ws (b :: r) ext); [reflexivity|rewrite Es; reflexivity|exact He]. }
      change (b :: r ++ ext) with ((b :: r) ++ ext). rewrite (span_ext _ _ _ _ _ _ Es). right. ex_refl.
    - apply extends_to_l. apply (ref_invalid_stable _ _ off (b :: r)). }
  destruct (span tchar (b :: r)) as [name r1] eqn:Es.
  destruct r1 as [|c r2]; [exact I|].
  change (b :: r ++ ext) with ((b :: r) ++ ext). rewrite (span_ext _ _ _ _ _ _ Es).
  destruct (is 58 c); [apply extends_to_l; apply ref_value_stable|].
  destruct (allow_spaces_after_header_name hc && ws c).
  - destruct (span ws (c :: r2)) as [w r3] eqn:Ew. destruct r3 as [|c' r4]; [exact I|].
    change (c :: r2 ++ ext) with ((c :: r2) ++ ext). rewrite (span_ext _ _ _ _ _ _ Ew).
    destruct (is 58 c'); apply extends_to_l; [apply ref_value_stable|apply (ref_invalid_stable _ _ _ (c' :: r4))].
  - apply extends_to_l. apply (ref_invalid_stable _ _ _ (c :: r2)).
Qed.

Definition final (st : status) : Prop := match st with Complete _ | Error _ => True | _ => False end.

Lemma ref_header_block_stable : forall f f' cap hs off l st hs',
  length l < f -> length (l ++ ext) < f' ->
  ref_header_block hc f cap hs off l = (st, hs') -> final st ->
  ref_header_block hc f' cap hs off (l ++ ext) = (st, hs').
Proof.
  induction f as [|f IH]; intros f' cap hs off l st hs' Hf Hf' H Hfin; [lia|].
  destruct f' as [|f']; [lia|]. cbn [ref_header_block] in *.
  pose proof (ref_header_line_stable (null hs) off l) as Hs.
  pose proof (ref_header_line_adv hc (null hs) off l) as Hadv.
  destruct (ref_header_line hc (null hs) off l) as [x o r| |e]; cbn [extends_l] in Hs.
  - destruct Hadv as [k (Hk0 & Hk & -> & ->)].
    destruct Hs as [(-> & Hnil & _)|Hs].
    + (* the stripped whitespace reached the end of the buffer: the block is Partial there *)
      rewrite Hnil in H. destruct f as [|f0]; cbn [ref_header_block ref_header_line] in H;
        injection H as <- <-; destruct Hfin.
    + rewrite Hs.
      assert (Hlr : length (skipn k l) < f) by (rewrite skipn_length; lia).
      assert (Hlr' : length (skipn k l ++ ext) < f').
      { rewrite app_length, skipn_length. rewrite app_length in Hf'. lia. }
      destruct x as [| |n v]; [exact H|eapply IH; eauto|].
      destruct (Nat.ltb (length hs) cap); [eapply IH; eauto|exact H].
  - injection H as <- <-. destruct Hfin.
  - rewrite Hs. exact H.
Qed.

Theorem ref_headers_stable : forall cap off l st hs,
  ref_headers hc cap off l = (st, hs) -> final st -> ref_headers hc cap off (l ++ ext) = (st, hs).
Proof.
  intros cap off l st hs H Hfin. unfold ref_headers in *.
  eapply ref_header_block_stable; eauto; lia.
Qed.
End Stab.

(* ---- whole messages ---- *)
Definition le_opt {A} (a b : option A) : Prop := a = None \/ a = b.

Ltac dstage :=
  match goal with
  | |- context [match rbind ?a ?b with _ => _ end] => destruct (rbind a b)
  | |- context [match ref_method ?a ?b with _ => _ end] => destruct (ref_method a b)
  | |- context [match ref_eol ?a ?b ?c with _ => _ end] => destruct (ref_eol a b c)
  | |- context [match ref_after_code ?a ?b ?c with _ => _ end] => destruct (ref_after_code a b c)
  | |- context [match ref_empty_lines ?a ?b with _ => _ end] => destruct (ref_empty_lines a b)
  end.

Section Top.
Variable ext : list N.

Lemma ref_request_line_stable ms buf :
  let (st, r) := ref_request_line ms buf in
  let (st', r') := ref_request_line ms (buf ++ ext) in
  extends ext r r' /\ (r <> RPart -> st' = st) /\
  le_opt (rs_method st) (rs_method st') /\ le_opt (rs_path st) (rs_path st') /\
  le_opt (rs_version st) (rs_version st').
Proof.
  unfold ref_request_line.
  pose proof (ref_empty_lines_stable ext (length buf) buf 0 (le_n _)) as H1.
  destruct (ref_empty_lines 0 buf) as [u1 o1 l1| |e1]; cbn [extends] in H1.
  2:{ destruct (ref_empty_lines 0 (buf ++ ext)) as [? ? ?| |?]; cbn; repeat split; auto; try congruence;
      try (left; reflexivity);
      repeat dstage; cbn; repeat split; auto; try congruence; left; reflexivity. }
  2:{ rewrite H1. cbn. repeat split; auto; left; reflexivity. }
  rewrite H1.
  pose proof (ref_method_stable ext o1 l1) as H2.
  destruct (ref_method o1 l1) as [m o2 l2| |e2]; cbn [extends] in H2.
  2:{ repeat dstage; cbn; repeat split; auto; try congruence; left; reflexivity. }
  2:{ rewrite H2. cbn. repeat split; auto; left; reflexivity. }
  rewrite H2.
  assert (H3 : extends ext (rbind (ref_spaces ms o2 l2) (fun _ o l => ref_target o l))
                           (rbind (ref_spaces ms o2 (l2 ++ ext)) (fun _ o l => ref_target o l))).
  { apply extends_rbind; [apply ref_spaces_stable|]. intros. apply ref_target_stable. }
  destruct (rbind (ref_spaces ms o2 l2) _) as [p o3 l3| |e3]; cbn [extends] in H3.
  2:{ repeat dstage; cbn; repeat split; auto; try congruence;
      try (left; reflexivity); right; reflexivity. }
  2:{ rewrite H3. cbn. repeat split; auto; try (left; reflexivity); right; reflexivity. }
  rewrite H3.
  assert (H4 : extends ext (rbind (ref_spaces ms o3 l3) (fun _ o l => ref_version o l))
                           (rbind (ref_spaces ms o3 (l3 ++ ext)) (fun _ o l => ref_version o l))).
  { apply extends_rbind; [apply ref_spaces_stable|]. intros. apply ref_version_stable. }
  destruct (rbind (ref_spaces ms o3 l3) (fun _ o l => ref_version o l)) as [v o4 l4| |e4]; cbn [extends] in H4.
  2:{ repeat dstage; cbn; repeat split; auto; try congruence;
      try (left; reflexivity); right; reflexivity. }
  2:{ rewrite H4. cbn. repeat split; auto; try (left; reflexivity); right; reflexivity. }
  rewrite H4.
  pose proof (ref_eol_stable ext NewLine o4 l4) as H5.
  repeat split; auto; right; reflexivity.
Qed.

Lemma ref_status_line_stable ms buf :
  let (st, r) := ref_status_line ms buf in
  let (st', r') := ref_status_line ms (buf ++ ext) in
  extends ext r r' /\ (r <> RPart -> st' = st) /\
  le_opt (rs_pversion st) (rs_pversion st') /\ le_opt (rs_code st) (rs_code st') /\
  le_opt (rs_reason st) (rs_reason st').
Proof.
  unfold ref_status_line.
  assert (H1 : extends ext (rbind (ref_empty_lines 0 buf) (fun _ o l => ref_version o l))
                           (rbind (ref_empty_lines 0 (buf ++ ext)) (fun _ o l => ref_version o l))).
  { apply extends_rbind; [apply (ref_empty_lines_stable ext (length buf)); lia|]. intros. apply ref_version_stable. }
  destruct (rbind (ref_empty_lines 0 buf) _) as [v o1 l1| |e1]; cbn [extends] in H1.
  2:{ repeat dstage; cbn; repeat split; auto; try congruence; left; reflexivity. }
  2:{ rewrite H1. cbn. repeat split; auto; left; reflexivity. }
  rewrite H1.
  assert (H2 : extends ext
      (rbind (rbind (ref_sp Version o1 l1) (fun _ o l => ref_spaces ms o l)) (fun _ o l => ref_code o l))
      (rbind (rbind (ref_sp Version o1 (l1 ++ ext)) (fun _ o l => ref_spaces ms o l)) (fun _ o l => ref_code o l))).
  { apply extends_rbind; [apply extends_rbind; [apply ref_sp_stable|intros; apply ref_spaces_stable]|].
    intros. apply ref_code_stable. }
  destruct (rbind (rbind (ref_sp Version o1 l1) _) _) as [c o2 l2| |e2]; cbn [extends] in H2.
  2:{ repeat dstage; cbn; repeat split; auto; try congruence;
      try (left; reflexivity); right; reflexivity. }
  2:{ rewrite H2. cbn. repeat split; auto; try (left; reflexivity); right; reflexivity. }
  rewrite H2.
  pose proof (ref_after_code_stable ext ms o2 l2) as H3.
  destruct (ref_after_code ms o2 l2) as [r o3 l3| |e3]; cbn [extends] in H3.
  2:{ repeat dstage; cbn; repeat split; auto; try congruence;
      try (left; reflexivity); right; reflexivity. }
  2:{ rewrite H3. cbn. repeat split; auto; try (left; reflexivity); right; reflexivity. }
  rewrite H3. cbn. repeat split; auto; right; reflexivity.
Qed.

Theorem ref_request_stable cf cap buf :
  final (rq_status (ref_request cf cap buf)) ->
  ref_request cf cap (buf ++ ext) = ref_request cf cap buf.
Proof.
  unfold ref_request.
  pose proof (ref_request_line_stable (allow_multiple_spaces_in_request_line_delimiters cf) buf) as H.
  destruct (ref_request_line _ buf) as [st r]. destruct (ref_request_line _ (buf ++ ext)) as [st' r'].
  destruct H as (He & Hst & _).
  destruct r as [u o l| |e]; cbn [extends] in He.
  - subst r'. rewrite (Hst ltac:(discriminate)).
    destruct (ref_headers (request_hcfg cf) cap o l) as [s hs] eqn:Eh. cbn [rq_status]. intros Hfin.
    rewrite (ref_headers_stable ext _ _ _ _ _ _ Eh Hfin). reflexivity.
  - cbn [rq_status final]. tauto.
  - subst r'. rewrite (Hst ltac:(discriminate)). reflexivity.
Qed.

Theorem ref_response_stable cf cap buf :
  final (rp_status (ref_response cf cap buf)) ->
  ref_response cf cap (buf ++ ext) = ref_response cf cap buf.
Proof.
  unfold ref_response.
  pose proof (ref_status_line_stable (allow_multiple_spaces_in_response_status_delimiters cf) buf) as H.
  destruct (ref_status_line _ buf) as [st r]. destruct (ref_status_line _ (buf ++ ext)) as [st' r'].
  destruct H as (He & Hst & _).
  destruct r as [u o l| |e]; cbn [extends] in He.
  - subst r'. rewrite (Hst ltac:(discriminate)).
    destruct (ref_headers (response_hcfg cf) cap o l) as [s hs] eqn:Eh. cbn [rp_status]. intros Hfin.
    rewrite (ref_headers_stable ext _ _ _ _ _ _ Eh Hfin). reflexivity.
  - cbn [rp_status final]. tauto.
  - subst r'. rewrite (Hst ltac:(discriminate)). reflexivity.
Qed.

(* fields already reported with a Partial keep their value *)
Theorem ref_request_fields_final cf cap buf :
  let a := rq_start (ref_request cf cap buf) in let b := rq_start (ref_request cf cap (buf ++ ext)) in
  le_opt (rs_method a) (rs_method b) /\ le_opt (rs_path a) (rs_path b) /\ le_opt (rs_version a) (rs_version b).
Proof.
  cbn zeta. unfold ref_request.
  pose proof (ref_request_line_stable (allow_multiple_spaces_in_request_line_delimiters cf) buf) as H.
  destruct (ref_request_line _ buf) as [st r]. destruct (ref_request_line _ (buf ++ ext)) as [st' r'].
  destruct H as (_ & _ & H).
  assert (A : forall (x : list N) o l, rq_start (let (s, hs) := ref_headers (request_hcfg cf) cap o l in Build_ref_req s st hs) = st)
    by (intros; destruct (ref_headers _ _ _ _); reflexivity).
  assert (A' : forall (x : list N) o l, rq_start (let (s, hs) := ref_headers (request_hcfg cf) cap o l in Build_ref_req s st' hs) = st')
    by (intros; destruct (ref_headers _ _ _ _); reflexivity).
  destruct r, r'; cbn [rq_start]; rewrite ?(A []), ?(A' []); exact H.
Qed.

Theorem ref_response_fields_final cf cap buf :
  let a := rp_start (ref_response cf cap buf) in let b := rp_start (ref_response cf cap (buf ++ ext)) in
  le_opt (rs_pversion a) (rs_pversion b) /\ le_opt (rs_code a) (rs_code b) /\ le_opt (rs_reason a) (rs_reason b).
Proof.
  cbn zeta. unfold ref_response.
  pose proof (ref_status_line_stable (allow_multiple_spaces_in_response_status_delimiters cf) buf) as H.
  destruct (ref_status_line _ buf) as [st r]. destruct (ref_status_line _ (buf ++ ext)) as [st' r'].
  destruct H as (_ & _ & H).
  assert (A : forall (x : list N) o l, rp_start (let (s, hs) := ref_headers (response_hcfg cf) cap o l in Build_ref_resp s st hs) = st)
    by (intros; destruct (ref_headers _ _ _ _); reflexivity).
  assert (A' : forall (x : list N) o l, rp_start (let (s, hs) := ref_headers (response_hcfg cf) cap o l in Build_ref_resp s st' hs) = st')
    by (intros; destruct (ref_headers _ _ _ _); reflexivity).
  destruct r, r'; cbn [rp_start]; rewrite ?(A []), ?(A' []); exact H.
Qed.
End Top.
