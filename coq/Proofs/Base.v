(* Proofs/Base.v -- list facts about take / drop / shift / first_bad, and the cursor
   primitives as rewriting rules. *)
From Coq Require Import List NArith ZArith Lia Bool ZifyBool ZifyN ZifyNat.
From HV Require Import Cursor Scan.
Import ListNotations.

Definition bytes_ok (xs : list N) : Prop := Forall (fun b => (b < 256)%N) xs.

Lemma bytes_ok_app a b : bytes_ok (a ++ b) <-> bytes_ok a /\ bytes_ok b.
Proof. unfold bytes_ok. apply Forall_app. Qed.
Lemma bytes_ok_firstn n l : bytes_ok l -> bytes_ok (firstn n l).
Proof. intros H. rewrite <- (firstn_skipn n l) in H. apply bytes_ok_app in H. tauto. Qed.
Lemma bytes_ok_skipn n l : bytes_ok l -> bytes_ok (skipn n l).
Proof. intros H. rewrite <- (firstn_skipn n l) in H. apply bytes_ok_app in H. tauto. Qed.
Lemma bytes_ok_cons b l : bytes_ok (b :: l) <-> (b < 256)%N /\ bytes_ok l.
Proof. unfold bytes_ok. split; [intros H; inversion H; auto | intros [? ?]; constructor; auto]. Qed.

Lemma take_spec : forall n l,
  take n l = if Nat.leb n (length l) then Some (firstn n l) else None.
Proof.
  induction n as [|n IH]; intros l; [reflexivity|].
  destruct l as [|x r]; [reflexivity|]. cbn [take length firstn]. rewrite IH.
  change (Nat.leb (S n) (S (length r))) with (Nat.leb n (length r)).
  destruct (Nat.leb n (length r)); reflexivity.
Qed.
Lemma drop_spec : forall n l,
  drop n l = if Nat.leb n (length l) then Some (skipn n l) else None.
Proof.
  induction n as [|n IH]; intros l; [reflexivity|].
  destruct l as [|x r]; [reflexivity|]. cbn [drop length skipn]. rewrite IH. reflexivity.
Qed.
Lemma shift_spec : forall n tk l,
  shift n tk l = if Nat.leb n (length l) then Some (rev (firstn n l) ++ tk, skipn n l) else None.
Proof.
  induction n as [|n IH]; intros tk l; [reflexivity|].
  destruct l as [|x r]; [reflexivity|]. cbn [shift length skipn firstn rev]. rewrite IH.
  change (Nat.leb (S n) (S (length r))) with (Nat.leb n (length r)).
  destruct (Nat.leb n (length r)); [|reflexivity]. rewrite <- app_assoc. reflexivity.
Qed.

(* the cursor after consuming k more bytes *)
Definition adv (k : nat) (c : cur) : cur :=
  mkcur (pre c) (rev (firstn k (rest c)) ++ tokrev c) (skipn k (rest c)).

Lemma adv_0 c : adv 0 c = c.
Proof. destruct c; reflexivity. Qed.
Lemma firstn_add {A} : forall a b (l : list A),
  firstn (a + b) l = firstn a l ++ firstn b (skipn a l).
Proof.
  induction a as [|a IH]; intros b l; [reflexivity|].
  destruct l as [|x r]; [cbn; rewrite firstn_nil; reflexivity|].
  cbn [Nat.add firstn skipn app]. f_equal. apply IH.
Qed.
Lemma skipn_add {A} : forall a b (l : list A), skipn b (skipn a l) = skipn (a + b) l.
Proof.
  induction a as [|a IH]; intros b l; [reflexivity|].
  destruct l as [|x r]; [cbn; destruct b; reflexivity|]. cbn [Nat.add skipn]. apply IH.
Qed.
Lemma adv_adv a b c : adv b (adv a c) = adv (a + b) c.
Proof.
  unfold adv; cbn [pre tokrev rest]. f_equal.
  - rewrite app_assoc. f_equal. rewrite <- rev_app_distr. f_equal.
    symmetry. apply firstn_add.
  - apply skipn_add.
Qed.

Lemma advance_adv n c : n <= length (rest c) -> advance n c = Done tt (adv n c).
Proof.
  intros H. unfold advance. rewrite shift_spec.
  destruct (Nat.leb_spec n (length (rest c))); [reflexivity|lia].
Qed.
Lemma advance_oob n c : length (rest c) < n -> advance n c = Fault AdvanceOOB.
Proof.
  intros H. unfold advance. rewrite shift_spec.
  destruct (Nat.leb_spec n (length (rest c))); [lia|reflexivity].
Qed.

Lemma first_bad_le p l : first_bad p l <= length l.
Proof. induction l as [|b r IH]; cbn [first_bad length]; [lia|]. destruct (p b); lia. Qed.
Lemma first_bad_app p a b :
  first_bad p (a ++ b) = if Nat.eqb (first_bad p a) (length a) then length a + first_bad p b else first_bad p a.
Proof.
  induction a as [|x r IH]; [reflexivity|]. cbn [first_bad length app].
  destruct (p x); [|reflexivity]. rewrite IH.
  change (Nat.eqb (S (first_bad p r)) (S (length r))) with (Nat.eqb (first_bad p r) (length r)).
  destruct (Nat.eqb _ _); reflexivity.
Qed.
Lemma first_bad_all p l : first_bad p l = length l <-> forallb p l = true.
Proof.
  induction l as [|x r IH]; cbn [first_bad length forallb]; [tauto|].
  destruct (p x); cbn [andb]; [|split; [lia|discriminate]].
  rewrite <- IH. lia.
Qed.
Lemma first_bad_nth p l : first_bad p l < length l ->
  exists b, nth_error l (first_bad p l) = Some b /\ p b = false.
Proof.
  induction l as [|x r IH]; cbn [first_bad length]; [lia|].
  destruct (p x) eqn:E; [|intros _; exists x; auto].
  intros H. apply IH. lia.
Qed.
Lemma first_bad_prefix_ok p l : forallb p (firstn (first_bad p l) l) = true.
Proof.
  induction l as [|x r IH]; [reflexivity|]. cbn [first_bad].
  destruct (p x) eqn:E; [|reflexivity]. cbn [firstn forallb]. rewrite E. exact IH.
Qed.
Lemma first_bad_weaken (p q : N -> bool) l :
  (forall b, p b = true -> q b = true) -> first_bad p l <= first_bad q l.
Proof.
  intros H. induction l as [|x r IH]; [reflexivity|]. cbn [first_bad].
  destruct (p x) eqn:E; [rewrite (H _ E); lia|lia].
Qed.
Lemma first_bad_ext (p q : N -> bool) l :
  Forall (fun b => p b = q b) l -> first_bad p l = first_bad q l.
Proof.
  induction 1 as [|x r Hx Hr IH]; [reflexivity|]. cbn [first_bad]. rewrite Hx, IH. reflexivity.
Qed.
(* first_bad of a list = position n when the first n are fine and byte n is bad *)
Lemma first_bad_at p l n b :
  forallb p (firstn n l) = true -> nth_error l n = Some b -> p b = false -> first_bad p l = n.
Proof.
  revert n. induction l as [|x r IH]; intros n Hf Hn Hb; [destruct n; discriminate|].
  destruct n as [|n]; cbn in *.
  - injection Hn as ->. rewrite Hb. reflexivity.
  - apply andb_prop in Hf as [Hx Hf]. rewrite Hx. f_equal. eapply IH; eauto.
Qed.

Lemma hd_error_skipn {A} n (l : list A) : hd_error (skipn n l) = nth_error l n.
Proof.
  revert l; induction n as [|n IH]; intros [|x r]; cbn; auto.
Qed.
