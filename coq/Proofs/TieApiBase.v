(* TieApiBase.v -- shared by TieReq / TieResp / TiePH: the two `parse_with_config_and_uninit_headers` bodies and `parse_headers` as translated
   from /repo/src/lib.rs on this run (Generated/LibApi.v) = Api.request_core / response_core /
   parse_headers.  The usize guards (`orig_len - bytes.len()`) are discharged by conservation
   (Mono.v); the header machine is TieHeaders.tie_headers. *)
From Coq Require Import List NArith Bool Lia Arith.
From HV Require Import Cursor Scan Model Api Imp ImpLib ImpGlue.
From HV.Generated Require Import Lib.
From HV.Proofs Require Import TieBase Mono TieHeaders.
Import ListNotations.
Local Open Scope N_scope.

Ltac imp_only :=
  cbv beta iota zeta delta [irun ifun ibind iret ilift iget iset ipart ifail ifault ithrow iguard iguard_idx ireturn
                       remaining rest pre tokrev].

Ltac step_lit :=
  repeat match goal with c : cur |- _ => destruct c end;
  cbv beta iota delta [step total apos cur_new commit pre tokrev rest] in *; cbn [length] in *; lia.


Section ApiTie.
Variable E : env.
Hypothesis Efwd : env_fwd E.

Lemma icall_headers_spec {L R B} fuel0 hc (get : L -> list slot) put putmem (l : L) c :
  let fin nh arr' := putmem arr' (put (firstn nh arr') l) in
  match parse_headers_iter_uninit E (S fuel0) hc (get l) c with
  | (Complete n, nh, arr') =>
      exists c', icall_headers (R:=R) (B:=B) E (S fuel0) hc get put putmem l c = IDone n (fin nh arr') c'
  | (Partial, nh, arr') => icall_headers (R:=R) (B:=B) E (S fuel0) hc get put putmem l c = IPart (fin nh arr')
  | (Error e, nh, arr') => icall_headers (R:=R) (B:=B) E (S fuel0) hc get put putmem l c = IFail e (fin nh arr')
  | (Faulted f, nh, arr') => icall_headers (R:=R) (B:=B) E (S fuel0) hc get put putmem l c = IFault f (fin nh arr')
  end.
Proof.
  destruct Efwd as (_ & Hv & Hn).
  intros fin. rewrite <- (tie_headers E fuel0 hc Hn Hv (get l) c). unfold icall_headers, isub.
  destruct (ifun _ _ _) as [n lh c'|lh|e lh|f lh|x lh c']; cbn [hdr_fin]; eauto.
Qed.


(* conservation: a cursor reached from `cur_new buf` by forward steps *)
Lemma step_new buf c : step (cur_new buf) c -> (apos c + length (rest c) = length buf)%nat.
Proof. intros [_ H]. unfold total, cur_new, apos in *. cbn [pre tokrev rest length] in H. lia. Qed.


End ApiTie.
