(* SrcReq.v -- the request entry points over the translated source; see Src.v *)
From Coq Require Import List NArith Bool.
From HV Require Import Cursor Scan Model Api Imp ImpLib ImpGlue.
From HV.Generated Require Import Lib LibApi.
From HV.Proofs Require Import TieBase Mono TieStartCommon TieStartReq TieHeaders TieApiBase TieReq.
Import ListNotations.

Section Src.
Variable E : env.

Definition src_request_core (cf : config) (buf : list N) (rq : request) (arr : list slot) : rq_res :=
  fin_req (ifun (g_request_core_body E (S (length buf)) cf buf)
                (g_request_core_init (q_method rq) (q_path rq) (q_version rq) (q_hdrs rq) arr arr)
                (cur_new buf)).
(* Request::parse_with_config as TRANSLATED (take self.headers, cast, call the core, restore unless Complete); the
   one-expression delegations (parse, ParserConfig::parse_request, the *_with_uninit_headers pair) are translated as
   well (G14: the gd_ definitions of LibApi.v); only the constructor `new` and the ParserConfig struct are pinned by their token text:
   LibApi.wrappers_pinned *)
Definition src_request_with_config (cf : config) (buf : list N) (rq : request) : rq_res :=
  fin_reqw (ifun (g_request_with_config_body E (S (length buf)) cf buf)
                 (g_request_with_config_init (q_method rq) (q_path rq) (q_version rq) (q_hdrs rq) [] [])
                 (cur_new buf)).
Definition src_request_call (e : entry) (cf : config) (buf : list N) (arr : list slot) (rq : request) : rq_res :=
  (* the four public routes, each through its one-expression delegation AS TRANSLATED (G14): Request::parse,
     ParserConfig::parse_request, Request::parse_with_uninit_headers, ParserConfig::parse_request_with_uninit_headers *)
  let Xw := src_request_with_config in
  let Xc := src_request_core in
  match e with
  | EParse => gd_request_parse Xw Xc buf rq
  | EConfig => gd_parse_request Xw Xc cf buf rq
  | EUninit => gd_request_parse_with_uninit_headers Xw Xc buf rq arr
  | EConfigUninit => gd_parse_request_with_uninit_headers Xw Xc cf buf rq arr
  end.
Hypothesis Efwd : env_fwd E.

Lemma src_request_core_eq cf buf rq arr : src_request_core cf buf rq arr = request_core E cf buf rq arr.
Proof. apply tie_request_core. exact Efwd. Qed.
Lemma src_request_call_eq e cf buf arr rq : src_request_call e cf buf arr rq = request_call E e cf buf arr rq.
Proof.
  destruct e; cbn [src_request_call request_call];
    unfold gd_request_parse, gd_parse_request, gd_request_parse_with_uninit_headers, gd_parse_request_with_uninit_headers,
      src_request_with_config;
    rewrite ?src_request_core_eq, ?(tie_request_with_config E Efwd); reflexivity.
Qed.
End Src.

Definition request_source_is_model (E : env) : Prop :=
  (forall e cf buf arr rq, src_request_call E e cf buf arr rq = request_call E e cf buf arr rq) /\
  (forall cf buf rq arr, src_request_core E cf buf rq arr = request_core E cf buf rq arr) /\
  wrappers_pinned = true.
Theorem src_tie_request : forall E, env_fwd E -> request_source_is_model E.
Proof.
  intros E HE. unfold request_source_is_model. repeat split; intros.
  - apply src_request_call_eq; exact HE.
  - apply src_request_core_eq; exact HE.
Qed.
