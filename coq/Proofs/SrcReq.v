(* SrcReq.v -- the request entry points over the translated source; see Src.v *)
From Coq Require Import List NArith Bool.
From HV Require Import Cursor Scan Model Api Imp ImpLib ImpGlue.
From HV.Generated Require Import Lib LibApi.
From HV.Proofs Require Import TieBase Mono TieStartCommon TieStartReq TieHeaders TieApiBase TieReq.
Import ListNotations.

Section Src.
Variable E : env.

Definition src_request_core (cf : config) (buf : list N) (rq : request) (arr : list slot) : rq_res :=
  fin_req (ifun (g_request_core_body E (S (length buf)) cf buf)
                (g_request_core_init (q_method rq) (q_path rq) (q_version rq) (q_hdrs rq) arr arr)
                (cur_new buf)).
(* Request::parse_with_config as TRANSLATED (take self.headers, cast, call the core, restore unless Complete); the
   remaining one-line delegations (parse, ParserConfig::parse_request, the *_with_uninit_headers pair, new) are
   pinned by their token text: LibApi.wrappers_pinned *)
Definition src_request_with_config (cf : config) (buf : list N) (rq : request) : rq_res :=
  fin_reqw (ifun (g_request_with_config_body E (S (length buf)) cf buf)
                 (g_request_with_config_init (q_method rq) (q_path rq) (q_version rq) (q_hdrs rq) [] [])
                 (cur_new buf)).
Definition src_request_call (e : entry) (cf : config) (buf : list N) (arr : list slot) (rq : request) : rq_res :=
  match e with
  | EParse => src_request_with_config config_default buf rq
  | EConfig => src_request_with_config cf buf rq
  | EUninit => src_request_core config_default buf rq arr
  | EConfigUninit => src_request_core cf buf rq arr
  end.
Hypothesis Efwd : env_fwd E.

Lemma src_request_core_eq cf buf rq arr : src_request_core cf buf rq arr = request_core E cf buf rq arr.
Proof. apply tie_request_core. exact Efwd. Qed.
Lemma src_request_call_eq e cf buf arr rq : src_request_call e cf buf arr rq = request_call E e cf buf arr rq.
Proof.
  destruct e; cbn [src_request_call request_call]; unfold src_request_with_config;
    rewrite ?src_request_core_eq, ?(tie_request_with_config E Efwd); reflexivity.
Qed.
End Src.

Definition request_source_is_model (E : env) : Prop :=
  (forall e cf buf arr rq, src_request_call E e cf buf arr rq = request_call E e cf buf arr rq) /\
  (forall cf buf rq arr, src_request_core E cf buf rq arr = request_core E cf buf rq arr) /\
  wrappers_pinned = true.
Theorem src_tie_request : forall E, env_fwd E -> request_source_is_model E.
Proof.
  intros E HE. unfold request_source_is_model. repeat split; intros.
  - apply src_request_call_eq; exact HE.
  - apply src_request_core_eq; exact HE.
Qed.
