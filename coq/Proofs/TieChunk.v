(* TieChunk.v -- parse_chunk_size as translated on this run = Model.chunk_loop; every overflow guard the
   translator emitted is discharged here. *)
From Coq Require Import List NArith Bool Lia ZifyBool ZifyN ZifyNat.
From HV Require Import Cursor Scan Model Imp ImpLib.
From HV.Generated Require Import Lib.
From HV.Proofs Require Import TieBase.
Import ListNotations.
Local Open Scope N_scope.

Section ChunkTie.
Variable dbg : bool.

Definition chunk_out (r : ires L_g_parse_chunk_size (nat * N) unit unit) : out (nat * N) :=
  match r with
  | IDone _ l c => Done (apos c, g_parse_chunk_size_m1 l) c
  | IPart _ => Part
  | IFail e _ => Fail e
  | IFault f _ => Fault f
  | IExc (Ret r) _ c => Done r c
  | IExc _ _ _ => Fault Unreachable
  end.
Definition chunk_mo (o : out N) : out (nat * N) :=
  match o with
  | Done size c' => Done (apos c', size) c'
  | Part => Part | Fail e => Fail e | Fault f => Fault f
  end.

Ltac chunk_unfold :=
  cbv beta iota delta [irun ifun ibind iret ilift iget iset ipart ifail ifault ithrow iguard ireturn
                       bind ret fail part fault_ expect next next_opt peek peek_n peek_ahead advance bump
                       slice slice_skip pos remaining commit apos rest pre tokrev
                       g_parse_chunk_size_m1 g_parse_chunk_size_m2
                       g_parse_chunk_size_m3 g_parse_chunk_size_m4
                       set_g_parse_chunk_size_m1 set_g_parse_chunk_size_m2
                       set_g_parse_chunk_size_m3 set_g_parse_chunk_size_m4
                       in_rng in_range is_digit hex_lower hex_upper is is_ws CR LF SP HT chunk_out chunk_mo].

Lemma cnv_ltb15 n : (15 <? N.of_nat n) = Nat.ltb 15 n. Proof. lia. Qed.
Lemma cnv_eqb0 n : (N.of_nat n =? 0) = Nat.eqb n 0. Proof. lia. Qed.
Lemma cnv_succ n : N.of_nat n + 1 = N.of_nat (S n). Proof. lia. Qed.
Lemma cnv_fits31 n : (n <= 16)%nat -> (N.of_nat (S n) <? 2147483648) = true. Proof. lia. Qed.
Lemma cnv_le m : (18446744073709551616 <=? m) = negb (m <? 18446744073709551616). Proof. lia. Qed.

Ltac norm :=
  chunk_unfold;
  change (18446744073709551615 / 16) with 1152921504606846975;
  unfold two64; change (18446744073709551616 / 16 - 1) with 1152921504606846975;
  unfold fits; change (2 ^ 31) with 2147483648; change (2 ^ 64) with 18446744073709551616;
  change (2 ^ 8) with 256; change (16 =? 0) with false; cbn [negb];
  rewrite ?orb_true_r, ?cnv_ltb15, ?cnv_eqb0, ?cnv_succ, ?cnv_le.

(* the chunk-size loop never commits: `start` stays where Bytes::new put it, so the final `bytes.pos()`
   (cursor - start) is the absolute offset *)
Lemma chunk_loop_pre : forall f size ics iext count c,
  match chunk_loop dbg f size ics iext count c with Done _ c' => pre c' = pre c | _ => True end.
Proof.
  induction f as [|f IH]; intros size ics iext count [p t r]; [cbn [chunk_loop]; unfold fault_; exact Logic.I|].
  cbn [chunk_loop]. cbv zeta. unfold bind at 1. unfold next at 1. cbn [rest pre tokrev].
  destruct r as [|b r]; [exact Logic.I|].
  repeat match goal with
  | |- context [match chunk_digit ?d ?a ?b ?c with _ => _ end] => destruct (chunk_digit d a b c) as [[[? ?]|]|?]
  | |- context [if ?x then _ else _] => destruct x
  end; try exact Logic.I; try (apply (IH _ _ _ _ (mkcur p (b :: t) r))).
  all: unfold bind, next; cbn [rest pre tokrev]; destruct r as [|b2 r]; [exact Logic.I|];
       match goal with |- context [is LF ?x] => destruct (is LF x) end; [reflexivity|exact Logic.I].
Qed.

Lemma tie_chunk fuel c : pre c = O ->
  g_parse_chunk_size dbg fuel c = chunk_mo (chunk_loop dbg fuel 0 true false 0 c).
Proof.
  intros Hpre.
  unfold g_parse_chunk_size, g_parse_chunk_size_body, g_parse_chunk_size_init.
  match goal with |- context [iloop ?f ?n ?body] => set (B := body) end.
  assert (HL : forall f size ics iext count c, (count <= 16)%nat ->
     chunk_out (iloop f 1 B (mkL_g_parse_chunk_size size ics iext (N.of_nat count)) c)
     = chunk_mo (chunk_loop dbg f size ics iext count c)).
  { clear c Hpre. induction f as [|f IH]; intros size ics iext count [p t r] Hcnt; [reflexivity|].
    cbn [chunk_loop iloop]. unfold B at 1. clearbody B. unfold chunk_digit. norm.
    destruct r as [|b r]; [reflexivity|]. norm.
    Ltac digit_arm IH Hcnt :=
      match goal with |- context [Nat.ltb 15 ?count] =>
        destruct (Nat.ltb 15 count) eqn:Hc; norm; [reflexivity|] end;
      rewrite cnv_fits31 by lia; norm;
      match goal with |- context [dbg && ?x] => destruct (dbg && x) eqn:Hdb; norm; [reflexivity|] end;
      match goal with |- context [?m <? 18446744073709551616] =>
        destruct (m <? 18446744073709551616) eqn:Hm; norm; [|reflexivity] end;
      match goal with |- context [if ?g && (?x <? 18446744073709551616) then _ else _] =>
        replace g with true by lia; cbn [andb];
        destruct (x <? 18446744073709551616) eqn:Hm2; norm; [|reflexivity] end;
      apply IH; lia.
    destruct ((48 <=? b) && (b <=? 57) && ics) eqn:Hd; norm.
    { digit_arm IH Hcnt. }
    destruct ((97 <=? b) && (b <=? 102) && ics) eqn:Hd2; norm.
    { digit_arm IH Hcnt. }
    destruct ((65 <=? b) && (b <=? 70) && ics) eqn:Hd3; norm.
    { digit_arm IH Hcnt. }
    destruct (((b =? 13) || (b =? 59) || (b =? 9) || (b =? 32)) && Nat.eqb count 0) eqn:H0; norm;
      [reflexivity|].
    destruct (b =? 13) eqn:H13; norm.
    { destruct r as [|b2 r]; [reflexivity|]. norm.
      destruct (b2 =? 10); norm; reflexivity. }
    destruct ((b =? 59) && negb iext) eqn:H59; norm.
    { apply IH; lia. }
    rewrite (andb_assoc ((b =? 9) || (b =? 32)) (negb iext) (negb ics)).
    rewrite !(orb_comm (b =? 32) (b =? 9)).
    destruct (((b =? 9) || (b =? 32)) && negb iext && negb ics) eqn:Hw1; norm.
    { apply IH; lia. }
    destruct (((b =? 9) || (b =? 32)) && ics) eqn:Hw2; norm.
    { apply IH; lia. }
    destruct iext; norm; [apply IH; lia | reflexivity]. }
  clearbody B.
  specialize (HL fuel 0 true false 0%nat c). change (N.of_nat 0) with 0 in HL.
  pose proof (chunk_loop_pre fuel 0 true false 0%nat c) as HP.
  rewrite <- HL by lia. assert (H016 : (0 <= 16)%nat) by lia; specialize (HL H016). norm.
  destruct (iloop _ _ _ _ _) as [a l' c'|l'|e l'|f0 l'|x l' c']; norm; try reflexivity.
  - destruct (chunk_loop dbg fuel 0 true false 0 c) as [sz cm| | |]; unfold chunk_out, chunk_mo in HL;
      try discriminate HL.
    injection HL as _ _ Hc. subst cm. destruct c' as [p' t' r']. cbn [pre] in HP.
    f_equal. f_equal. lia.
  - destruct x; reflexivity.
Qed.

End ChunkTie.
