(* Mono.v -- the cursor only moves forward: every stage of the model that returns normally leaves
   the absolute position where it was or further on.  Used by the tie proofs to discharge the
   `end - start` underflow guards the translator emits for usize subtraction. *)
From Coq Require Import List NArith Bool Lia.
From HV Require Import Cursor Scan Model.
Import ListNotations.

(* `total` is conserved (the cursor never leaves the buffer it was created on) and the
   absolute position never decreases *)
Definition total (c : cur) : nat := pre c + length (tokrev c) + length (rest c).
Definition step (c c' : cur) : Prop := apos c <= apos c' /\ total c = total c'.
Lemma step_refl c : step c c. Proof. split; lia. Qed.
Lemma step_trans a b c : step a b -> step b c -> step a c.
Proof. intros [H1 H2] [H3 H4]. split; lia. Qed.

Definition mono {A} (m : P A) : Prop := forall c a c', m c = Done a c' -> step c c'.

Ltac step_solve := unfold step, apos, total, commit; cbn [tokrev pre rest length]; lia.

Lemma mono_ret {A} (a : A) : mono (ret a).
Proof. intros c a' c' H. inversion H. subst. apply step_refl. Qed.
Lemma mono_fail {A} e : mono (@fail A e).
Proof. intros c a c' H. discriminate. Qed.
Lemma mono_part {A} : mono (@part A).
Proof. intros c a c' H. discriminate. Qed.
Lemma mono_fault {A} f : mono (@fault_ A f).
Proof. intros c a c' H. discriminate. Qed.
Lemma mono_bind {A B} (m : P A) (k : A -> P B) : mono m -> (forall a, mono (k a)) -> mono (bind m k).
Proof.
  intros Hm Hk c b c' H. unfold bind in H. destruct (m c) as [a c1| | |] eqn:Em; try discriminate.
  exact (step_trans _ _ _ (Hm _ _ _ Em) (Hk a _ _ _ H)).
Qed.
Lemma mono_peek : mono peek.
Proof. intros c a c' H. inversion H. subst. apply step_refl. Qed.
Lemma mono_pos : mono pos.
Proof. intros c a c' H. inversion H. subst. apply step_refl. Qed.
Lemma mono_remaining : mono remaining.
Proof. intros c a c' H. inversion H. subst. apply step_refl. Qed.
Lemma mono_peek_n n : mono (peek_n n).
Proof. intros c a c' H. inversion H. subst. apply step_refl. Qed.
Lemma mono_peek_ahead n : mono (peek_ahead n).
Proof.
  intros c a c' H. unfold peek_ahead in H. destruct (drop n (rest c)); [|discriminate].
  inversion H. subst. apply step_refl.
Qed.
Lemma mono_next : mono next.
Proof.
  intros [p t r] a c' H. unfold next in H. cbn [rest] in H. destruct r as [|b r]; [discriminate|].
  inversion H. subst. step_solve.
Qed.
Lemma shift_len : forall n tk l tk' l', shift n tk l = Some (tk', l') ->
  length tk' = n + length tk /\ length tk' + length l' = length tk + length l.
Proof.
  induction n as [|n IH]; intros tk l tk' l' H; cbn [shift] in H.
  - inversion H. subst. split; lia.
  - destruct l as [|x r]; [discriminate|]. apply IH in H. cbn [length] in H |- *. lia.
Qed.
Lemma mono_advance n : mono (advance n).
Proof.
  intros [p t r] a c' H. unfold advance in H. cbn [tokrev rest pre] in H.
  destruct (shift n t r) as [[tk r']|] eqn:Es; [|discriminate]. inversion H. subst.
  apply shift_len in Es. step_solve.
Qed.
Lemma mono_slice : mono slice.
Proof. intros [p t r] a c' H. inversion H. subst. step_solve. Qed.
Lemma mono_slice_skip k : mono (slice_skip k).
Proof.
  intros [p t r] a c' H. unfold slice_skip in H. cbn [tokrev] in H. destruct (drop k t); [|discriminate].
  inversion H. subst. step_solve.
Qed.
Lemma mono_expect p e : mono (expect p e).
Proof.
  unfold expect. apply mono_bind; [apply mono_next|]. intros b. destruct (p b); [apply mono_ret|apply mono_fail].
Qed.
Lemma mono_commit_fun {A} (f : cur -> A) : mono (fun c0 => Done (f c0) (commit c0)).
Proof. intros [p t r] a c' H. inversion H. subst. step_solve. Qed.
Lemma mono_cur_dep {A} (m : cur -> P A) : (forall c0, mono (m c0)) -> mono (fun c => m c c).
Proof. intros H c a c' E. exact (H c c a c' E). Qed.

Ltac mono_step :=
  first [ apply mono_ret | apply mono_fail | apply mono_part | apply mono_fault | apply mono_peek
        | apply mono_next | apply mono_slice | apply mono_slice_skip | apply mono_expect
        | apply mono_pos | apply mono_remaining | apply mono_peek_n | apply mono_peek_ahead | apply mono_advance
        | apply mono_commit_fun | assumption
        | apply mono_bind; [|intros ?]
        | match goal with |- mono (if ?b then _ else _) => destruct b end
        | match goal with |- mono (match ?x with _ => _ end) => destruct x end ].
Ltac mono_auto := repeat mono_step.

Section WithEnv.
Variable E : env.
Variable fuel : nat.
Variable hc : hcfg.
Hypothesis fwd_name : forall f, mono (s_name E f).
Hypothesis fwd_value : forall f, mono (s_value E f).

Lemma mono_skip_invalid_line f : forall b e, mono (skip_invalid_line f b e).
Proof. induction f as [|f IH]; intros b e; cbn [skip_invalid_line]; mono_auto. apply IH. Qed.

Lemma mono_handle_invalid b e : mono (handle_invalid fuel hc b e).
Proof. unfold handle_invalid. mono_auto. apply mono_skip_invalid_line. Qed.

Lemma mono_skip_ws_peek f : mono (skip_ws_peek f).
Proof. induction f as [|f IH]; cbn [skip_ws_peek]; mono_auto. Qed.

Lemma mono_after_name_ws f : forall b, mono (after_name_ws f b).
Proof. induction f as [|f IH]; intros b; cbn [after_name_ws]; mono_auto. apply IH. Qed.

Lemma mono_fold_check : mono (fold_check hc).
Proof. unfold fold_check. mono_auto. Qed.

Lemma mono_value_lines f : mono (value_lines E fuel hc f).
Proof.
  induction f as [|f IH]; cbn [value_lines]; mono_auto;
    try apply fwd_value; try apply mono_fold_check; try apply mono_handle_invalid.
Qed.

Lemma mono_ws_after_colon f : mono (ws_after_colon E fuel hc f).
Proof.
  induction f as [|f IH]; cbn [ws_after_colon]; mono_auto;
    try apply mono_value_lines; try apply mono_fold_check; try apply mono_handle_invalid.
Qed.

(* every value handed out by the value stage is a slice of the buffer (`Sub`), never a literal *)
Definition post {A} (Q : A -> Prop) (m : P A) : Prop := forall c a c', m c = Done a c' -> Q a.
Lemma post_bind {A B} (Q : B -> Prop) (m : P A) (k : A -> P B) :
  (forall a, post Q (k a)) -> post Q (bind m k).
Proof.
  intros Hk c b c' H. unfold bind in H. destruct (m c) as [a c1| | |]; try discriminate. exact (Hk a _ _ _ H).
Qed.
Definition vsub (a : vres) : Prop :=
  match a with VValue v => exists off bs, v = Sub off bs | VDropped => True end.
Lemma post_ret_dropped : post vsub (ret VDropped).
Proof. intros c a c' H. inversion H. exact Logic.I. Qed.
Lemma post_fail {A} (Q : A -> Prop) e : post Q (fail e).
Proof. intros c a c' H. discriminate. Qed.
Lemma post_part {A} (Q : A -> Prop) : post Q part.
Proof. intros c a c' H. discriminate. Qed.
Lemma post_fault {A} (Q : A -> Prop) f : post Q (fault_ f).
Proof. intros c a c' H. discriminate. Qed.
Lemma post_slice_skip_value k : post vsub (v <- slice_skip k ;; ret (VValue v)).
Proof.
  intros [p t r] a c' H. unfold bind, slice_skip, ret in H. cbn [tokrev] in H.
  destruct (drop k t); [|discriminate]. inversion H. cbn [vsub]. eauto.
Qed.
Lemma post_empty_value : post vsub (fun c0 => Done (VValue (Sub (pre c0) [])) (commit c0)).
Proof. intros c a c' H. inversion H. cbn [vsub]. eauto. Qed.

Ltac post_step :=
  first [ apply post_ret_dropped | apply post_fail | apply post_part | apply post_fault
        | apply post_slice_skip_value | apply post_empty_value | assumption
        | apply post_bind; intros ?
        | match goal with |- post _ (if ?b then _ else _) => destruct b end
        | match goal with |- post _ (match ?x with _ => _ end) => destruct x end ].

Lemma post_value_lines f : post vsub (value_lines E fuel hc f).
Proof. induction f as [|f IH]; cbn [value_lines]; repeat post_step. Qed.

Lemma post_ws_after_colon f : post vsub (ws_after_colon E fuel hc f).
Proof.
  induction f as [|f IH]; cbn [ws_after_colon]; repeat post_step; try apply post_value_lines.
Qed.

End WithEnv.

(* ---- start-line stages ---- *)
Lemma mono_skip_empty_lines f : mono (skip_empty_lines f).
Proof. unfold skip_empty_lines. induction f as [|f IH]; cbn [skip_empty_lines_f]; unfold bump; mono_auto. Qed.
Lemma mono_skip_spaces f : mono (skip_spaces f).
Proof. unfold skip_spaces. induction f as [|f IH]; cbn [skip_spaces_f]; unfold bump; mono_auto. Qed.
Lemma mono_parse_version : mono parse_version.
Proof. unfold parse_version. mono_auto. Qed.
Lemma mono_parse_code : mono parse_code.
Proof. unfold parse_code. mono_auto. Qed.
Lemma mono_parse_reason f : mono (parse_reason f).
Proof.
  unfold parse_reason. generalize false. induction f as [|f IH]; intros seen; cbn [parse_reason_f]; mono_auto.
  apply IH.
Qed.
Lemma mono_newline : mono newline.
Proof. unfold newline. mono_auto. Qed.
Lemma mono_space e : mono (space e).
Proof. unfold space. mono_auto. Qed.

Section StartEnv.
Variable E : env.
Variable fuel : nat.
Lemma mono_parse_token_f f : mono (parse_token_f E f).
Proof. induction f as [|f IH]; cbn [parse_token_f]; mono_auto. Qed.
Lemma mono_parse_token : mono (parse_token E fuel).
Proof. unfold parse_token. mono_auto. apply mono_parse_token_f. Qed.
Lemma mono_parse_method : mono (parse_method E fuel).
Proof. unfold parse_method. mono_auto; first [apply mono_parse_token | apply mono_parse_token_f]. Qed.
Hypothesis fwd_uri : forall f, mono (s_uri E f).
Lemma mono_parse_uri : mono (parse_uri E fuel).
Proof. unfold parse_uri. mono_auto; try apply fwd_uri; mono_auto. Qed.
End StartEnv.

(* ---- the scanner loop shells (Scan.v) move forward whatever the kernel returns ---- *)
Lemma mono_swar_loop f W kernel cls : mono (swar_loop f W kernel cls).
Proof. induction f as [|f IH]; cbn [swar_loop]; mono_auto. Qed.

Lemma mono_swar_name_loop f W cls : mono (swar_name_loop f W cls).
Proof.
  induction f as [|f IH]; cbn [swar_name_loop]; mono_auto.
  apply (mono_cur_dep (fun c0 => advance (first_bad cls (rest c0)))). intros c0. apply mono_advance.
Qed.

Lemma mono_simd_loop f G K R kernel fallback : mono fallback -> mono (simd_loop f G K R kernel fallback).
Proof. intros Hf. induction f as [|f IH]; cbn [simd_loop]; mono_auto. Qed.

(* an environment whose three scanners only move forward inside the buffer *)
Definition env_fwd (E : env) : Prop :=
  (forall f, mono (s_uri E f)) /\ (forall f, mono (s_value E f)) /\ (forall f, mono (s_name E f)).
