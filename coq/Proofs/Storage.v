(* Proofs/Storage.v -- header storage (C17) and entry-point agreement (C16), read off the
   reference parsers. *)
From Coq Require Import List NArith ZArith Lia Bool ZifyBool ZifyN ZifyNat.
From HV Require Import Cursor Scan Model Api Spec.
From HV.Proofs Require Import Base EnvOk RefFacts Refine Entries.
Import ListNotations.

(* ---- the kept headers only ever grow ---- *)
Lemma ref_header_block_prefix : forall hc f cap hs off l,
  exists more, snd (ref_header_block hc f cap hs off l) = hs ++ more.
Proof.
  induction f as [|f IH]; intros cap hs off l; cbn [ref_header_block].
  - exists []. cbn [snd]. rewrite app_nil_r. reflexivity.
  - destruct (ref_header_line hc (null hs) off l) as [x o r| |e];
      try (exists []; cbn [snd]; rewrite app_nil_r; reflexivity).
    destruct x as [| |n v]; try (exists []; cbn [snd]; rewrite app_nil_r; reflexivity).
    + apply IH.
    + destruct (Nat.ltb (length hs) cap); [|exists []; cbn [snd]; rewrite app_nil_r; reflexivity].
      destruct (IH cap (hs ++ [(n, v)]) o r) as [more H]. exists ((n, v) :: more).
      rewrite H, <- app_assoc. reflexivity.
Qed.

(* ---- the capacity law ---- *)
Lemma capacity_law_block : forall hc f cap cap' hs off l,
  cap <= cap' -> length hs <= cap ->
  let r' := ref_header_block hc f cap' hs off l in
  ref_header_block hc f cap hs off l =
  if Nat.leb (length (snd r')) cap then r' else (Error TooManyHeaders, firstn cap (snd r')).
Proof.
  induction f as [|f IH]; intros cap cap' hs off l Hc Hh; cbn zeta; cbn [ref_header_block].
  - cbn [snd]. destruct (Nat.leb_spec (length hs) cap); [reflexivity|lia].
  - destruct (ref_header_line hc (null hs) off l) as [x o r| |e];
      try (cbn [snd]; destruct (Nat.leb_spec (length hs) cap); [reflexivity|lia]).
    destruct x as [| |n v]; try (cbn [snd]; destruct (Nat.leb_spec (length hs) cap); [reflexivity|lia]).
    + apply IH; assumption.
    + destruct (Nat.ltb_spec (length hs) cap) as [Hlt|Hge].
      * destruct (Nat.ltb_spec (length hs) cap'); [|lia].
        apply IH; [assumption|]. rewrite app_length. cbn [length]. lia.
      * assert (Heq : length hs = cap) by lia.
        destruct (Nat.ltb_spec (length hs) cap') as [Hlt'|Hge'].
        -- destruct (ref_header_block_prefix hc f cap' (hs ++ [(n, v)]) o r) as [more Hm].
           rewrite Hm. rewrite !app_length. cbn [length].
           destruct (Nat.leb_spec (length hs + 1 + length more) cap); [lia|].
           rewrite <- app_assoc. rewrite firstn_app, <- Heq, Nat.sub_diag, firstn_all. cbn [firstn].
           rewrite app_nil_r. reflexivity.
        -- cbn [snd]. destruct (Nat.leb_spec (length hs) cap); [reflexivity|lia].
Qed.

Theorem capacity_law_headers : forall hc cap cap' off l, cap <= cap' ->
  let r' := ref_headers hc cap' off l in
  ref_headers hc cap off l =
  if Nat.leb (length (snd r')) cap then r' else (Error TooManyHeaders, firstn cap (snd r')).
Proof.
  intros hc cap cap' off l Hc. unfold ref_headers. apply capacity_law_block; [exact Hc|cbn [length]; lia].
Qed.

Theorem capacity_law_request : forall cf cap cap' buf, cap <= cap' ->
  let r' := ref_request cf cap' buf in
  ref_request cf cap buf =
  if Nat.leb (length (rq_headers r')) cap then r'
  else Build_ref_req (Error TooManyHeaders) (rq_start r') (firstn cap (rq_headers r')).
Proof.
  intros cf cap cap' buf Hc. cbn zeta. unfold ref_request.
  destruct (ref_request_line _ buf) as [st r].
  destruct r as [u o l| |e]; try (cbn [rq_headers length]; destruct (Nat.leb_spec 0 cap); [reflexivity|lia]).
  rewrite (capacity_law_headers (request_hcfg cf) cap cap' o l Hc).
  destruct (ref_headers (request_hcfg cf) cap' o l) as [s hs]. cbn [snd rq_headers rq_start].
  destruct (Nat.leb (length hs) cap); reflexivity.
Qed.

Theorem capacity_law_response : forall cf cap cap' buf, cap <= cap' ->
  let r' := ref_response cf cap' buf in
  ref_response cf cap buf =
  if Nat.leb (length (rp_headers r')) cap then r'
  else Build_ref_resp (Error TooManyHeaders) (rp_start r') (firstn cap (rp_headers r')).
Proof.
  intros cf cap cap' buf Hc. cbn zeta. unfold ref_response.
  destruct (ref_status_line _ buf) as [st r].
  destruct r as [u o l| |e]; try (cbn [rp_headers length]; destruct (Nat.leb_spec 0 cap); [reflexivity|lia]).
  rewrite (capacity_law_headers (response_hcfg cf) cap cap' o l Hc).
  destruct (ref_headers (response_hcfg cf) cap' o l) as [s hs]. cbn [snd rp_headers rp_start].
  destruct (Nat.leb (length hs) cap); reflexivity.
Qed.

(* ---- shape of the array after a call ---- *)
Definition is_written (s : slot) : Prop := match s with SWritten _ _ => True | SOld _ => False end.

Lemma written_of_all hs : Forall is_written (written_of hs).
Proof. unfold written_of. apply Forall_forall. intros s Hs. apply in_map_iff in Hs as [h [<- _]]. exact I. Qed.

Lemma slots_of_split hs arr : length hs <= length arr ->
  firstn (length hs) (slots_of hs arr) = written_of hs /\
  skipn (length hs) (slots_of hs arr) = skipn (length hs) arr.
Proof.
  intros H. split; [apply firstn_slots_of|]. unfold slots_of.
  rewrite skipn_app, map_length, Nat.sub_diag. cbn [skipn].
  rewrite skipn_all2 by (rewrite map_length; lia). reflexivity.
Qed.
