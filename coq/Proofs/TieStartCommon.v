(* TieStartCommon.v -- skip_empty_lines, skip_spaces, parse_version as translated on this run = Model.v *)
From Coq Require Import List NArith Bool Lia ZifyBool ZifyN.
From HV Require Import Cursor Scan Model Imp ImpLib.
From HV.Generated Require Import Lib.
From HV.Proofs Require Import TieBase.
Import ListNotations.
Local Open Scope N_scope.


Lemma tie_skip_empty_lines fuel c : g_skip_empty_lines fuel c = skip_empty_lines fuel c.
Proof.
  unfold g_skip_empty_lines, g_skip_empty_lines_body, skip_empty_lines, g_skip_empty_lines_init.
  rewrite irun_loop_tail.
  revert c; induction fuel as [|f IH]; intros [p t r]; [reflexivity|].
  cbn [skip_empty_lines_f]. loop_step.
  destruct r as [|b r]; cbn [hd_error]; [reflexivity|].
  unfold is, CR, LF. destruct (N.eqb b 13) eqn:H13.
  - cbn [shift rest pre tokrev]. destruct r as [|b2 r]; [reflexivity|].
    cbn [rest pre tokrev]. destruct (N.eqb b2 10); [|reflexivity]. apply IH.
  - destruct (N.eqb b 10) eqn:H10.
    + cbn [shift rest pre tokrev]. apply IH.
    + reflexivity.
Qed.

Lemma tie_skip_spaces fuel c : g_skip_spaces fuel c = skip_spaces fuel c.
Proof.
  unfold g_skip_spaces, g_skip_spaces_body, skip_spaces, g_skip_spaces_init.
  rewrite irun_loop_tail.
  revert c; induction fuel as [|f IH]; intros [p t r]; [reflexivity|].
  cbn [skip_spaces_f]. loop_step.
  destruct r as [|b r]; cbn [hd_error]; [reflexivity|].
  unfold is, SP. destruct (N.eqb b 32) eqn:H32.
  - cbn [shift rest pre tokrev]. apply IH.
  - reflexivity.
Qed.

Lemma tie_parse_version c : g_parse_version c = parse_version c.
Proof.
  unfold g_parse_version, g_parse_version_body, parse_version, g_parse_version_init, H10, H11.
  destruct c as [p t r]. imp_unfold.
  destruct (take 8 r) as [eight|] eqn:H8.
  - destruct (shift 8 t r) as [[tk r']|]; [|reflexivity].
    destruct (list_eqb eight _); [reflexivity|].
    destruct (list_eqb eight _); reflexivity.
  - unfold is.
    repeat (destruct r as [|? r]; [reflexivity|]; imp_unfold;
            match goal with |- context [N.eqb ?b ?k] => destruct (N.eqb b k); [|reflexivity] end).
    reflexivity.
Qed.
