(* Proofs/Hygiene.v -- C05: the fields the reference parsers hand back are class-clean. *)
From Coq Require Import List NArith ZArith Lia Bool ZifyBool ZifyN ZifyNat.
From HV Require Import Cursor Scan Model Api Spec Oracle.
From HV.Proofs Require Import Base RefFacts StartLine Headers Clean.
Import ListNotations.

Lemma span_forallb p l : forallb p (fst (span p l)) = true.
Proof.
  induction l as [|b r IH]; [reflexivity|]. cbn [span]. destruct (p b) eqn:E; [|reflexivity].
  destruct (span p r) as [a t]. cbn [fst forallb] in *. rewrite E, IH. reflexivity.
Qed.

(* ---- start-line fields ---- *)
Lemma ref_method_class off l s o r : ref_method off l = ROk s o r ->
  exists m, s = Sub off m /\ m <> [] /\ forallb tchar m = true.
Proof.
  unfold ref_method. pose proof (span_forallb tchar l) as Hf. destruct (span tchar l) as [m t]. cbn [fst] in Hf.
  destruct t as [|b r']; [discriminate|]. destruct (null m) eqn:En; [discriminate|]. destruct (is 32 b); [|discriminate].
  intros [= <- _ _]. exists m. repeat split; auto. destruct m; [discriminate|discriminate].
Qed.
Lemma ref_target_class off l s o r : ref_target off l = ROk s o r ->
  exists m, s = Sub off m /\ m <> [] /\ forallb uri_char m = true /\ utf8_valid m = true.
Proof.
  unfold ref_target. pose proof (span_forallb uri_char l) as Hf. destruct (span uri_char l) as [m t]. cbn [fst] in Hf.
  destruct t as [|b r']; [discriminate|]. destruct (negb (is 32 b)); [discriminate|].
  destruct (null m) eqn:En; [discriminate|]. destruct (utf8_valid m) eqn:Eu; cbn [negb]; [|discriminate].
  intros [= <- _ _]. exists m. repeat split; auto. destruct m; [discriminate|discriminate].
Qed.
Lemma ref_version_class off l v o r : ref_version off l = ROk v o r -> v = 0%N \/ v = 1%N.
Proof.
  unfold ref_version. destruct (take 8 l); [|destruct (is_prefix l HTTP1dot); discriminate].
  destruct (list_eqb _ _); [intros [= <- _ _]; auto|]. destruct (list_eqb _ _); [intros [= <- _ _]; auto|discriminate].
Qed.
Lemma ref_code_class off l c o r : ref_code off l = ROk c o r -> (c < 1000)%N.
Proof.
  unfold ref_code. destruct l as [|a r1]; [discriminate|]. destruct (digit a) eqn:Ea; cbn [negb]; [|discriminate].
  destruct r1 as [|b r2]; [discriminate|]. destruct (digit b) eqn:Eb; cbn [negb]; [|discriminate].
  destruct r2 as [|d r3]; [discriminate|]. destruct (digit d) eqn:Ed; cbn [negb]; [|discriminate].
  intros [= <- _ _]. unfold digit, in_range in *. lia.
Qed.

Lemma reason_ok_of t : forallb reason_char t = true -> forallb (fun b => N.ltb b 128) t = true -> reason_ok t = true.
Proof.
  unfold reason_ok. induction t as [|b r IH]; [reflexivity|]. cbn [forallb]. intros H1 H2.
  apply andb_prop in H1 as [Hb H1]. apply andb_prop in H2 as [Hb2 H2]. rewrite IH by assumption. rewrite andb_true_r.
  unfold reason_char, in_range in Hb. unfold in_range. lia.
Qed.
Lemma ref_reason_class off l s o r : ref_reason off l = ROk s o r ->
  (exists t, s = Sub off t /\ reason_ok t = true) \/ s = Ext [].
Proof.
  unfold ref_reason. pose proof (span_forallb reason_char l) as Hf. destruct (span reason_char l) as [t rr]. cbn [fst] in Hf.
  destruct (ref_eol Status (length t + off) rr); try discriminate.
  intros [= <- _ _]. destruct (forallb (fun b => N.ltb b 128) t) eqn:E; [|right; reflexivity].
  left. exists t. split; [reflexivity|apply reason_ok_of; assumption].
Qed.
Lemma ref_after_code_class ms off l s o r : ref_after_code ms off l = ROk s o r ->
  (exists o' t, s = Sub o' t /\ reason_ok t = true) \/ s = Ext [].
Proof.
  unfold ref_after_code. destruct l as [|b l']; [discriminate|].
  destruct (is 32 b).
  - destruct (ref_spaces ms (S off) l') as [u o' l''| |e]; cbn [rbind]; try discriminate.
    intros H. apply ref_reason_class in H. destruct H as [[t [Hs Ht]]|Hs]; subst s; [left; eauto|right; reflexivity].
  - destruct (is 13 b || is 10 b); [|discriminate].
    destruct (ref_eol Status off (b :: l')); try discriminate. intros [= <- _ _]. right. reflexivity.
Qed.

(* ---- header values ---- *)
Section Values.
Variable hc : hcfg.
Let fold := allow_obsolete_multiline_headers hc.

(* bytes a value may contain *)
Definition vbyte (x : N) : bool := value_char x || (fold && (is 13 x || is 10 x)).

Lemma forallb_drop_while p q l : forallb p l = true -> forallb p (drop_while q l) = true.
Proof.
  induction l as [|x r IH]; [auto|]. cbn [forallb drop_while]. intros H. apply andb_prop in H as [Hx Hr].
  destruct (q x); [auto|]. cbn [forallb]. rewrite Hx, Hr. reflexivity.
Qed.
Lemma forallb_rev p (l : list N) : forallb p (rev l) = forallb p l.
Proof.
  induction l as [|x r IH]; [reflexivity|]. cbn [rev forallb]. rewrite forallb_app, IH. cbn [forallb].
  rewrite andb_true_r. apply andb_comm.
Qed.
Lemma drop_while_head p l x r : drop_while p l = x :: r -> p x = false.
Proof.
  induction l as [|y l IH]; cbn [drop_while]; [discriminate|]. destruct (p y) eqn:E; [exact IH|].
  intros [= <- _]. exact E.
Qed.
(* the last element of racc (the first byte of the value) survives trimming when it is not trimmable *)
Lemma drop_while_last p l z : last l z = z -> p z = false -> l <> [] -> last (drop_while p l) z = z /\ drop_while p l <> [].
Proof.
  induction l as [|y l IH]; intros Hl Hz Hne; [congruence|]. cbn [drop_while].
  destruct (p y) eqn:E.
  - destruct l as [|y2 l2]; [cbn [last] in Hl; congruence|]. apply IH; [exact Hl|exact Hz|discriminate].
  - split; [exact Hl|discriminate].
Qed.

(* value as handed back: Sub voff bs with bs class-clean, not starting with SP/HTAB and not ending
   with SP / HTAB / CR / LF *)
Definition value_shape (s : sl) : Prop :=
  match s with
  | Sub _ bs =>
      forallb vbyte bs = true /\
      (bs <> [] -> exists b0, hd_error bs = Some b0 /\ ws b0 = false /\ is_trim (last bs 0%N) = false)
  | Ext e => e = [255%N]
  end.

Lemma ref_value_lines_shape : forall n l voff racc off s o r z, length l <= n ->
  forallb vbyte racc = true ->
  (racc <> [] -> last racc z = z) -> (racc = [] -> exists r', l = z :: r') ->
  value_char z = true -> ws z = false ->
  ref_value_lines hc voff racc off l = ROk s o r -> value_shape s.
Proof.
  induction n as [|n IH]; intros l voff racc off s o r z Hn Hall Hlast Hfirst Hzv Hzw H.
  { destruct l; [discriminate|cbn [length] in Hn; lia]. }
  destruct l as [|b l']; [discriminate|]. cbn [length] in Hn. cbn [ref_value_lines] in H. fold fold in H.
  assert (Hzt : is_trim z = false) by (apply value_char_not_trim; assumption).
  assert (Fin : racc <> [] -> value_shape (Sub voff (rev' (drop_while is_trim racc)))).
  { intros Hne. cbn [value_shape]. rewrite rev'_rev. split.
    - rewrite forallb_rev. apply forallb_drop_while. exact Hall.
    - intros _. destruct (drop_while_last is_trim racc z (Hlast Hne) Hzt Hne) as [Hl Hd].
      destruct (drop_while is_trim racc) as [|x t] eqn:Ed; [congruence|].
      exists z. repeat split.
      + cbn [rev]. clear -Hl. revert x Hl. induction t as [|y t IH]; intros x Hl.
        * cbn in *. subst. reflexivity.
        * cbn [last] in Hl. specialize (IH y Hl). cbn [rev] in *.
          destruct (rev t ++ [y]) eqn:E; [destruct (rev t); discriminate|]. cbn [app hd_error] in *. exact IH.
      + exact Hzw.
      + assert (Hx : is_trim x = false) by (eapply drop_while_head; eauto).
        cbn [rev]. rewrite last_last. exact Hx. }
  destruct (value_char b) eqn:Ev.
  { eapply (IH l' voff (b :: racc) (S off) s o r z); eauto; try lia.
    - cbn [forallb]. unfold vbyte at 1. rewrite Ev. cbn [orb]. exact Hall.
    - intros _. destruct racc as [|y t]; [|cbn [last]; apply Hlast; discriminate].
      destruct (Hfirst eq_refl) as [r' [= -> ->]]. reflexivity.
    - discriminate. }
  assert (Hne : racc <> []).
  { intros ->. destruct (Hfirst eq_refl) as [r' [= -> ->]]. congruence. }
  destruct (is 13 b) eqn:E13.
  { destruct l' as [|b2 l2]; [discriminate|]. destruct (is 10 b2) eqn:E10; cbn [negb] in H; [|discriminate].
    cbn [length] in Hn.
    destruct fold eqn:Ef.
    - destruct l2 as [|b3 l3]; [discriminate|]. destruct (ws b3).
      + eapply (IH (b3 :: l3) voff (10%N :: 13%N :: racc) (2 + off) s o r z); eauto.
        * cbn [length] in *. lia.
        * cbn [forallb]. unfold vbyte at 1 2. fold fold. rewrite Ef. cbn. exact Hall.
        * intros _. cbn [last]. destruct racc; [congruence|]. apply Hlast. discriminate.
        * discriminate.
      + injection H as <- _ _. apply Fin. exact Hne.
    - injection H as <- _ _. apply Fin. exact Hne. }
  destruct (is 10 b) eqn:E10.
  { destruct fold eqn:Ef.
    - destruct l' as [|b3 l3]; [discriminate|]. destruct (ws b3).
      + eapply (IH (b3 :: l3) voff (10%N :: racc) (S off) s o r z); eauto; try lia.
        * cbn [forallb]. unfold vbyte at 1. fold fold. rewrite Ef. cbn. exact Hall.
        * intros _. cbn [last]. destruct racc; [congruence|]. apply Hlast. discriminate.
        * discriminate.
      + injection H as <- _ _. apply Fin. exact Hne.
    - injection H as <- _ _. apply Fin. exact Hne. }
  destruct (ref_invalid _ _ off (b :: l')); cbn [rbind] in H; try discriminate.
  injection H as <- _ _. reflexivity.
Qed.

Lemma ref_value_start_shape : forall n l off s o r, length l <= n ->
  ref_value_start hc off l = ROk s o r -> value_shape s.
Proof.
  induction n as [|n IH]; intros l off s o r Hn H.
  { destruct l; [discriminate|cbn [length] in Hn; lia]. }
  destruct l as [|b l']; [discriminate|]. cbn [length] in Hn. cbn [ref_value_start] in H. fold fold in H.
  destruct (ws b) eqn:Ew; [eapply IH; eauto; lia|].
  destruct (value_char b) eqn:Ev.
  { eapply (ref_value_lines_shape (S (length l')) (b :: l') off [] off s o r b); eauto; try congruence; try (intros _; eauto). }
  assert (Emp : forall o', value_shape (Sub o' [])).
  { intros o'. cbn [value_shape forallb]. split; [reflexivity|congruence]. }
  destruct (is 13 b).
  { destruct l' as [|b2 l2]; [discriminate|]. destruct (is 10 b2); cbn [negb] in H; [|discriminate].
    cbn [length] in Hn. destruct fold.
    - destruct l2 as [|b3 l3]; [discriminate|]. destruct (ws b3).
      + eapply (IH (b3 :: l3)); eauto. cbn [length] in *. lia.
      + injection H as <- _ _. apply Emp.
    - injection H as <- _ _. apply Emp. }
  destruct (is 10 b).
  { destruct fold.
    - destruct l' as [|b3 l3]; [discriminate|]. destruct (ws b3).
      + eapply (IH (b3 :: l3)); eauto. lia.
      + injection H as <- _ _. apply Emp.
    - injection H as <- _ _. apply Emp. }
  destruct (ref_invalid _ _ off (b :: l')); cbn [rbind] in H; try discriminate.
  injection H as <- _ _. reflexivity.
Qed.

(* a stored header: name = non-empty tchar run; value class-clean and trimmed *)
Definition header_shape (x : rline) : Prop :=
  match x with
  | LHeader n v =>
      (exists o m, n = Sub o m /\ m <> [] /\ forallb tchar m = true) /\
      match v with Sub _ bs => value_shape v | Ext _ => False end
  | _ => True
  end.

Lemma ref_value_header_shape name off l x o r :
  (exists o' m, name = Sub o' m /\ m <> [] /\ forallb tchar m = true) ->
  ref_value hc name off l = ROk x o r -> header_shape x.
Proof.
  intros Hn. unfold ref_value.
  destruct (ref_value_start hc off l) as [v o' r'| |e] eqn:Ev; cbn [rbind]; try discriminate.
  intros [= <- _ _]. pose proof (ref_value_start_shape (length l) l off v o' r' (le_n _) Ev) as Hs.
  destruct v as [vo bs|e]; cbn [dropped header_shape]; [split; [exact Hn|exact Hs]|].
  cbn [value_shape] in Hs. subst e. exact I.
Qed.

Lemma ref_header_line_shape first off l x o r :
  ref_header_line hc first off l = ROk x o r -> header_shape x.
Proof.
  unfold ref_header_line. destruct l as [|b l']; [discriminate|].
  destruct (is 13 b).
  { destruct l' as [|b2 l2]; [discriminate|]. destruct (is 10 b2); [|discriminate]. intros [= <- _ _]. exact I. }
  destruct (is 10 b); [intros [= <- _ _]; exact I|].
  assert (Inv : forall ig e o0 l0 x0 oo rr, ref_invalid ig e o0 l0 = ROk x0 oo rr -> header_shape x0).
  { intros ig e o0 l0 x0 oo rr H'. unfold ref_invalid in H'. destruct ig; cbn [negb] in H'; [|discriminate].
    destruct (span _ l0) as [junk rr']. destruct rr' as [|b1 r1]; [discriminate|].
    destruct (is 0 b1); [discriminate|]. destruct (is 10 b1); [injection H' as <- _ _; exact I|].
    destruct r1 as [|b2 r2']; [discriminate|]. destruct (is 10 b2); [injection H' as <- _ _; exact I|discriminate]. }
  destruct (negb (tchar b)) eqn:Et.
  { destruct (_ && _ && _); [destruct (span ws (b :: l')); intros [= <- _ _]; exact I|apply Inv]. }
  pose proof (span_forallb tchar (b :: l')) as Hf.
  destruct (span tchar (b :: l')) as [name r1] eqn:Es. cbn [fst] in Hf.
  assert (Hne : name <> []).
  { cbn [span] in Es. apply negb_false_iff in Et. rewrite Et in Es. destruct (span tchar l'). injection Es as <- _. discriminate. }
  destruct r1 as [|c r2]; [discriminate|].
  destruct (is 58 c); [apply ref_value_header_shape; eauto|].
  destruct (_ && _).
  - destruct (span ws (c :: r2)) as [w r3]. destruct r3 as [|c' r4]; [discriminate|].
    destruct (is 58 c'); [apply ref_value_header_shape; eauto|apply Inv].
  - apply Inv.
Qed.

Lemma ref_header_block_shape : forall f cap hs off l st hs',
  Forall (fun h => header_shape (LHeader (fst h) (snd h))) hs ->
  ref_header_block hc f cap hs off l = (st, hs') ->
  Forall (fun h => header_shape (LHeader (fst h) (snd h))) hs'.
Proof.
  induction f as [|f IH]; intros cap hs off l st hs' Hhs H; cbn [ref_header_block] in H.
  - injection H as _ <-. exact Hhs.
  - pose proof (ref_header_line_shape (null hs) off l) as Hsh.
    destruct (ref_header_line hc (null hs) off l) as [x o r| |e]; try (injection H as _ <-; exact Hhs).
    specialize (Hsh x o r eq_refl).
    destruct x as [| |n v]; [injection H as _ <-; exact Hhs|eapply IH; eauto|].
    destruct (Nat.ltb (length hs) cap); [|injection H as _ <-; exact Hhs].
    eapply IH; [|exact H]. apply Forall_app. split; [exact Hhs|constructor; [exact Hsh|constructor]].
Qed.
End Values.

(* ---- whole messages ---- *)
Definition method_ok (s : sl) : Prop := exists o m, s = Sub o m /\ m <> [] /\ forallb tchar m = true.
Definition path_ok (s : sl) : Prop :=
  exists o m, s = Sub o m /\ m <> [] /\ forallb uri_char m = true /\ utf8_valid m = true.
Definition reason_ok_sl (s : sl) : Prop := (exists o t, s = Sub o t /\ reason_ok t = true) \/ s = Ext [].
Definition opt_p {A} (P : A -> Prop) (o : option A) : Prop := match o with Some a => P a | None => True end.

Lemma rbind_inv {A B} (x : rres A) (g : A -> nat -> list N -> rres B) b o r :
  rbind x g = ROk b o r -> exists a o' r', x = ROk a o' r' /\ g a o' r' = ROk b o r.
Proof. destruct x as [a o' r'| |]; cbn [rbind]; try discriminate. eauto. Qed.

Theorem ref_request_fields_class cf cap buf :
  let r := ref_request cf cap buf in
  opt_p method_ok (rs_method (rq_start r)) /\ opt_p path_ok (rs_path (rq_start r)) /\
  opt_p (fun v => v = 0%N \/ v = 1%N) (rs_version (rq_start r)) /\
  Forall (fun h => header_shape (request_hcfg cf) (LHeader (fst h) (snd h))) (rq_headers r).
Proof.
  cbn zeta. unfold ref_request, ref_request_line.
  set (ms := allow_multiple_spaces_in_request_line_delimiters cf).
  assert (T : forall A (a : A), True) by auto.
  destruct (ref_empty_lines 0 buf) as [u1 o1 l1| |e1]; cbn [rq_start rq_headers rs_method rs_path rs_version opt_p]; auto.
  destruct (ref_method o1 l1) as [m o2 l2| |e2] eqn:Em; cbn [rq_start rq_headers rs_method rs_path rs_version opt_p]; auto.
  assert (Hm : method_ok m) by (apply ref_method_class in Em as [x (-> & ? & ?)]; exists o1, x; auto).
  destruct (rbind (ref_spaces ms o2 l2) _) as [p o3 l3| |e3] eqn:Ep; cbn [rq_start rq_headers rs_method rs_path rs_version opt_p]; auto.
  assert (Hp : path_ok p).
  { apply rbind_inv in Ep as [a [o' [r' [_ Ht]]]]. apply ref_target_class in Ht as [x (-> & ? & ? & ?)]. exists o', x. auto. }
  destruct (rbind (ref_spaces ms o3 l3) (fun _ o l => ref_version o l)) as [v o4 l4| |e4] eqn:Ev;
    cbn [rq_start rq_headers rs_method rs_path rs_version opt_p]; auto.
  assert (Hv : v = 0%N \/ v = 1%N).
  { apply rbind_inv in Ev as [a [o' [r' [_ Ht]]]]. eapply ref_version_class; eauto. }
  destruct (ref_eol NewLine o4 l4) as [u5 o5 l5| |e5]; cbn [rq_start rq_headers rs_method rs_path rs_version opt_p]; auto.
  destruct (ref_headers (request_hcfg cf) cap o5 l5) as [st hs] eqn:Eh.
  cbn [rq_start rq_headers rs_method rs_path rs_version opt_p]. repeat split; auto.
  unfold ref_headers in Eh. eapply ref_header_block_shape; [|exact Eh]. constructor.
Qed.

Theorem ref_response_fields_class cf cap buf :
  let r := ref_response cf cap buf in
  opt_p (fun v => v = 0%N \/ v = 1%N) (rs_pversion (rp_start r)) /\
  opt_p (fun c => (c < 1000)%N) (rs_code (rp_start r)) /\
  opt_p reason_ok_sl (rs_reason (rp_start r)) /\
  Forall (fun h => header_shape (response_hcfg cf) (LHeader (fst h) (snd h))) (rp_headers r).
Proof.
  cbn zeta. unfold ref_response, ref_status_line.
  set (ms := allow_multiple_spaces_in_response_status_delimiters cf).
  destruct (rbind (ref_empty_lines 0 buf) _) as [v o1 l1| |e1] eqn:Ev; cbn [rp_start rp_headers rs_pversion rs_code rs_reason opt_p]; auto.
  assert (Hv : v = 0%N \/ v = 1%N).
  { apply rbind_inv in Ev as [a [o' [r' [_ Ht]]]]. eapply ref_version_class; eauto. }
  destruct (rbind (rbind (ref_sp Version o1 l1) _) _) as [c o2 l2| |e2] eqn:Ec; cbn [rp_start rp_headers rs_pversion rs_code rs_reason opt_p]; auto.
  assert (Hc : (c < 1000)%N).
  { apply rbind_inv in Ec as [a [o' [r' [_ Ht]]]]. eapply ref_code_class; eauto. }
  destruct (ref_after_code ms o2 l2) as [rs o3 l3| |e3] eqn:Er; cbn [rp_start rp_headers rs_pversion rs_code rs_reason opt_p]; auto.
  assert (Hr : reason_ok_sl rs) by (eapply ref_after_code_class; eauto).
  destruct (ref_headers (response_hcfg cf) cap o3 l3) as [st hs] eqn:Eh.
  cbn [rp_start rp_headers rs_pversion rs_code rs_reason opt_p]. repeat split; auto.
  unfold ref_headers in Eh. eapply ref_header_block_shape; [|exact Eh]. constructor.
Qed.

(* every &str handed out is valid UTF-8: ASCII text is *)
Lemma ascii_utf8 l : forallb (fun b => N.leb b 127) l = true -> utf8_valid l = true.
Proof.
  induction l as [|b r IH]; [reflexivity|]. cbn [forallb]. intros H. apply andb_prop in H as [Hb Hr].
  cbn [utf8_valid]. rewrite Hb. apply IH. exact Hr.
Qed.
Lemma tchar_ascii l : forallb tchar l = true -> forallb (fun b => N.leb b 127) l = true.
Proof.
  induction l as [|b r IH]; [reflexivity|]. cbn [forallb]. intros H. apply andb_prop in H as [Hb Hr].
  rewrite IH by exact Hr. rewrite andb_true_r. unfold tchar, alpha, digit, in_range, is in Hb. lia.
Qed.
Lemma reason_ascii l : reason_ok l = true -> forallb (fun b => N.leb b 127) l = true.
Proof.
  unfold reason_ok. induction l as [|b r IH]; [reflexivity|]. cbn [forallb]. intros H. apply andb_prop in H as [Hb Hr].
  rewrite IH by exact Hr. rewrite andb_true_r. unfold in_range, is in Hb. lia.
Qed.
