(* TieBase.v -- tactics shared by the tie proofs.  The functions translated from /repo/src/lib.rs on this run (Generated/Lib.v, G9)
   are equal to the hand-written model (Model.v) the theorems are about. *)
From Coq Require Import List NArith Bool Lia ZifyBool ZifyN.
From HV Require Import Cursor Scan Model Imp ImpLib.
From HV.Generated Require Import Lib.
Import ListNotations.
Local Open Scope N_scope.

Ltac imp_unfold :=
  cbv beta iota delta [irun ifun ibind iret ilift iget iset ipart ifail ifault ithrow iguard ireturn
                       bind ret fail part fault_ expect next next_opt peek peek_n peek_ahead advance bump
                       slice slice_skip pos remaining space newline commit apos
                       rest pre tokrev].

Lemma in_rng_range lo hi b : in_rng lo hi b = in_range lo hi b.
Proof. reflexivity. Qed.

(* a function whose body is `loop { .. }` left only by `return` *)
Definition to_out {L R B A} (r : ires L R B A) : out R :=
  match r with
  | IExc (Ret v) _ c => Done v c
  | IPart _ => Part
  | IFail e _ => Fail e
  | IFault f _ => Fault f
  | _ => Fault Unreachable
  end.

Lemma irun_loop_tail {L R B} (m : I L R B B) l c :
  irun (m ;;~ ifault Unreachable)%imp l c = to_out (m l c).
Proof.
  unfold irun, ifun, ibind, ifault, to_out.
  destruct (m l c) as [a l' c'|l'|e l'|f l'|x l' c']; try reflexivity.
  destruct x; reflexivity.
Qed.

Ltac loop_step :=
  cbn [iloop]; imp_unfold; cbn [rest pre tokrev hd_error].


(* the loop bodies are taken from the generated term itself (never restated in a proof) *)
Ltac grab_loop B :=
  match goal with |- context [iloop ?f ?n ?body] => set (B := body) end.
