(* Proofs/Kernels.v -- the translated class tables are the RFC classes, and every
   translated x86 / NEON block kernel returns the index of the first byte outside its
   class (256-sweeps per lane, lifted to all blocks). *)
From Coq Require Import List NArith ZArith Lia Bool ZifyBool ZifyN ZifyNat.
From HV Require Import Cursor Scan Intrinsics Model Api Spec.
From HV.Generated Require Import Classes Swar Sse42 Avx2 Neon.
From HV.Proofs Require Import Base Swar ScanLoops.
Import ListNotations.
Local Open Scope N_scope.

Definition sweep (f : N -> bool) : bool := forallb f bytes256.
Lemma sweep_spec f : sweep f = true -> forall b, b < 256 -> f b = true.
Proof. intros H b Hb. exact (proj1 (forallb_forall _ _) H b (in_bytes256 b Hb)). Qed.

Ltac by_sweep :=
  let b := fresh "b" in let Hb := fresh "Hb" in
  intros b Hb;
  match goal with |- ?l = ?r =>
    let F := eval pattern b in (Bool.eqb l r) in
    match F with
    | ?G _ => apply eqb_prop; change (G b = true);
              apply (sweep_spec G); [vm_compute; reflexivity | exact Hb]
    end
  end.

(* ---- C12: the classes are exactly the stated ones ---- *)
Lemma URI_MAP_class : forall b, b < 256 -> URI_MAP b = uri_char b. Proof. by_sweep. Qed.
Lemma TOKEN_MAP_class : forall b, b < 256 -> TOKEN_MAP b = tchar b. Proof. by_sweep. Qed.
Lemma HEADER_VALUE_MAP_class : forall b, b < 256 -> HEADER_VALUE_MAP b = value_char b. Proof. by_sweep. Qed.
Lemma is_method_token_class : forall b, b < 256 -> is_method_token b = tchar b. Proof. by_sweep. Qed.
Lemma is_uri_token_class : forall b, b < 256 -> is_uri_token b = uri_char b. Proof. by_sweep. Qed.
Lemma is_header_name_token_class : forall b, b < 256 -> is_header_name_token b = tchar b. Proof. by_sweep. Qed.
Lemma is_header_value_token_class : forall b, b < 256 -> is_header_value_token b = value_char b. Proof. by_sweep. Qed.
Lemma neon_bit_set_class : forall b, b < 256 -> neon_bit_set b = tchar b. Proof. by_sweep. Qed.
Lemma strict33_class : forall b, b < 256 -> strict_class 33 b = uri_char b. Proof. by_sweep. Qed.
Lemma strict32_sub_value : forall b, b < 256 -> implb (strict_class 32 b) (value_char b) = true. Proof. by_sweep. Qed.

(* ---- lanes ---- *)
Lemma sse_uri_lane : forall b, b < 256 -> msb8 (match_url_char_16_sse_lane b) = uri_char b. Proof. by_sweep. Qed.
Lemma sse_value_lane : forall b, b < 256 -> msb8 (match_header_value_char_16_sse_lane b) = value_char b. Proof. by_sweep. Qed.
Lemma avx_uri_lane : forall b, b < 256 -> msb8 (match_url_char_32_avx_lane b) = uri_char b. Proof. by_sweep. Qed.
Lemma avx_value_lane : forall b, b < 256 -> msb8 (match_header_value_char_32_avx_lane b) = value_char b. Proof. by_sweep. Qed.
Lemma neon_uri_lane : forall b, b < 256 ->
  (mvn8 (match_url_char_16_neon_lane b) =? 0) = uri_char b. Proof. by_sweep. Qed.
Lemma neon_value_lane : forall b, b < 256 ->
  (mvn8 (match_header_value_char_16_neon_lane b) =? 0) = value_char b. Proof. by_sweep. Qed.
Lemma neon_name_lane : forall b, b < 256 ->
  (mvn8 (match_header_name_char_16_neon_lane b) =? 0) = tchar b. Proof. by_sweep. Qed.

(* ---- mask extraction ---- *)
Lemma trailing_ones_map (p : N -> bool) l : trailing_ones (map p l) = first_bad p l.
Proof. induction l as [|b r IH]; [reflexivity|]. cbn [map trailing_ones first_bad]. destruct (p b); [f_equal; exact IH|reflexivity]. Qed.

Lemma first_nonzero_map (f : N -> N) l :
  first_nonzero (map f l) = first_bad (fun b => f b =? 0) l.
Proof. induction l as [|b r IH]; [reflexivity|]. cbn [map first_nonzero first_bad]. destruct (f b =? 0); [f_equal; exact IH|reflexivity]. Qed.

Lemma first_nonzero_app a b :
  first_nonzero (a ++ b) =
  if forallb (fun x => x =? 0) a then (length a + first_nonzero b)%nat else first_nonzero a.
Proof.
  induction a as [|x r IH]; [reflexivity|]. cbn [app first_nonzero forallb length].
  destruct (x =? 0); cbn [andb]; [|reflexivity]. rewrite IH. destruct (forallb _ r); reflexivity.
Qed.

Lemma neon_offsetnz_spec x : length x = 16%nat -> neon_offsetnz x = first_nonzero x.
Proof.
  intros Hl. unfold neon_offsetnz.
  rewrite <- (firstn_skipn 8 x) at 5. rewrite first_nonzero_app.
  rewrite firstn_length, Nat.min_l by lia.
  destruct (forallb (fun b => b =? 0) (firstn 8 x)); cbn [negb]; [|reflexivity].
  destruct (forallb (fun b => b =? 0) (skipn 8 x)) eqn:E; cbn [negb]; [|reflexivity].
  rewrite first_nonzero_all_zero by exact E. rewrite skipn_length. lia.
Qed.

Section Lift.
Variables (lane : N -> N) (cls : N -> bool).

Lemma x86_kernel_exact K :
  (forall b, b < 256 -> msb8 (lane b) = cls b) ->
  forall block, length block = K -> bytes_ok block ->
  trailing_ones (firstn K (map (fun dat => msb8 (lane dat)) block)) = first_bad cls block.
Proof.
  intros Hlane block Hl Hb. rewrite firstn_all2 by (rewrite map_length; lia).
  rewrite trailing_ones_map. apply first_bad_ext.
  eapply Forall_impl; [|exact Hb]. intros b Hlt. apply Hlane. exact Hlt.
Qed.

Lemma neon_kernel_exact :
  (forall b, b < 256 -> (mvn8 (lane b) =? 0) = cls b) ->
  forall block, length block = 16%nat -> bytes_ok block ->
  neon_offsetz (map lane block) = first_bad cls block.
Proof.
  intros Hlane block Hl Hb. unfold neon_offsetz.
  rewrite neon_offsetnz_spec by (rewrite !map_length; exact Hl).
  rewrite map_map, first_nonzero_map. apply first_bad_ext.
  eapply Forall_impl; [|exact Hb]. intros b Hlt. apply Hlane. exact Hlt.
Qed.
End Lift.

Theorem sse_uri_kernel_exact : forall block, length block = 16%nat -> bytes_ok block ->
  match_url_char_16_sse block = first_bad uri_char block.
Proof. apply (x86_kernel_exact _ _ 16%nat sse_uri_lane). Qed.
Theorem sse_value_kernel_exact : forall block, length block = 16%nat -> bytes_ok block ->
  match_header_value_char_16_sse block = first_bad value_char block.
Proof. apply (x86_kernel_exact _ _ 16%nat sse_value_lane). Qed.
Theorem avx_uri_kernel_exact : forall block, length block = 32%nat -> bytes_ok block ->
  match_url_char_32_avx block = first_bad uri_char block.
Proof. apply (x86_kernel_exact _ _ 32%nat avx_uri_lane). Qed.
Theorem avx_value_kernel_exact : forall block, length block = 32%nat -> bytes_ok block ->
  match_header_value_char_32_avx block = first_bad value_char block.
Proof. apply (x86_kernel_exact _ _ 32%nat avx_value_lane). Qed.
Theorem neon_uri_kernel_exact : forall block, length block = 16%nat -> bytes_ok block ->
  match_url_char_16_neon block = first_bad uri_char block.
Proof. apply (neon_kernel_exact _ _ neon_uri_lane). Qed.
Theorem neon_value_kernel_exact : forall block, length block = 16%nat -> bytes_ok block ->
  match_header_value_char_16_neon block = first_bad value_char block.
Proof. apply (neon_kernel_exact _ _ neon_value_lane). Qed.
Theorem neon_name_kernel_exact : forall block, length block = 16%nat -> bytes_ok block ->
  match_header_name_char_16_neon block = first_bad tchar block.
Proof. apply (neon_kernel_exact _ _ neon_name_lane). Qed.
