(* LiftLib.v -- syntax trees (Lift.bP / Lift.bI) for every function translated from src/lib.rs on this run
   (Generated/Lib.v, LibApi.v), built by ONE tactic that only follows the shape of the generated term:
   bind / ret / the primitive cursor operations / locals / loops / exceptions / guards / calls, `if`, `match`
   and `let` by case analysis.  Nothing in this file depends on what a function computes, so an edit of
   lib.rs that stays inside the translated fragment needs no change here.

   With Lift.lift_sound each tree gives the ADDRESS-LEVEL program of the function (every cursor operation
   replaced by the method translated from src/iter.rs) together with the proof that it runs in lock step
   with the cursor-level one, for every base address, buffer and position. *)
From Coq Require Import List NArith Bool Arith.
From HV Require Import Cursor Scan Model Api Ptr Imp ImpLib ImpGlue.
From HV Require Import Backends.
From HV.Generated Require Import Iter Lib LibApi Loops Cfg.
From HV.Proofs Require Import TieIter Lift TieLoops.
Import ListNotations.

Ltac lift_callee := fail.

Ltac lift1 :=
  lazymatch goal with
  | |- bI _ _ _ _ _ _ (if ?b then _ else _) => destruct b
  | |- bI _ _ _ _ _ _ (match ?x with _ => _ end) => destruct x
  | |- bP _ _ _ (if ?b then _ else _) => destruct b
  | |- bP _ _ _ (match ?x with _ => _ end) => destruct x
  | |- bI _ _ _ _ _ _ (ibind _ _) => apply bI_bind; [|intro]
  | |- bI _ _ _ _ _ _ (iret _) => apply bI_ret
  | |- bI _ _ _ _ _ _ (ilift _) => apply bI_lift
  | |- bI _ _ _ _ _ _ iget => apply bI_get
  | |- bI _ _ _ _ _ _ (iset _) => apply bI_set
  | |- bI _ _ _ _ _ _ ipart => apply bI_part
  | |- bI _ _ _ _ _ _ (ifail _) => apply bI_fail
  | |- bI _ _ _ _ _ _ (ifault _) => apply bI_fault
  | |- bI _ _ _ _ _ _ (ithrow _) => apply bI_throw
  | |- bI _ _ _ _ _ _ (iguard _) => apply bI_guard
  | |- bI _ _ _ _ _ _ (iguard_idx _) => apply bI_guard_idx
  | |- bI _ _ _ _ _ _ (ireturn _) => apply bI_return
  | |- bI _ _ _ _ _ _ (iloop _ _ _) => apply bI_loop
  | |- bI _ _ _ _ _ _ (ifun _) => apply bI_fun
  | |- bI _ _ _ _ _ _ (isub _ _ _) => apply bI_sub
  | |- bI _ _ _ _ _ _ (isub_catch _ _ _) => apply bI_sub_catch
  | |- bP _ _ _ (bind _ _) => apply bP_bind; [|intro]
  | |- bP _ _ _ (ret _) => apply bP_ret
  | |- bP _ _ _ peek => apply bP_peek
  | |- bP _ _ _ next_opt => apply bP_next_opt
  | |- bP _ _ _ (advance _) => apply bP_advance
  | |- bP _ _ _ bump => apply bP_bump
  | |- bP _ _ _ pos => apply bP_pos
  | |- bP _ _ _ addr => apply bP_addr
  | |- bP _ _ _ remaining => apply bP_remaining
  | |- bP _ _ _ (peek_ahead _) => apply bP_peek_ahead
  | |- bP _ _ _ slice => apply bP_slice
  | |- bP _ _ _ (slice_skip _) => apply bP_slice_skip
  | |- bP _ _ _ (peek_n _) => apply bP_peek_n
  | |- bP _ _ _ rest_bytes => apply bP_rest_bytes
  | |- bP _ _ _ (load_block _) => apply bP_load_block
  | |- bP _ _ _ (irun _ _) => apply bP_irun
  | |- bP _ _ _ _ => first [assumption | lift_callee]
  | |- bI _ _ _ _ _ _ _ => first [assumption | lift_callee]
  end.
Ltac lift := cbv zeta; repeat (lift1; cbv zeta).

Section Trees.
Variable B : nat.
Variable data : list N.
Variable E : env.
Variable fuel : nat.
(* the three scanners of the environment come with address-level implementations (Proofs/LiftLoops.v
   provides them for the translated loop shells) *)
Variable dU : bP B data unit (s_uri E fuel).
Variable dV : bP B data unit (s_value E fuel).
Variable dN : bP B data unit (s_name E fuel).

Definition d_skip_empty_lines : bP B data _ (g_skip_empty_lines fuel).
Proof. unfold g_skip_empty_lines, g_skip_empty_lines_body. lift. Defined.
Definition d_skip_spaces : bP B data _ (g_skip_spaces fuel).
Proof. unfold g_skip_spaces, g_skip_spaces_body. lift. Defined.
Definition d_parse_version : bP B data _ g_parse_version.
Proof. unfold g_parse_version, g_parse_version_body. lift. Defined.
Definition d_parse_token : bP B data _ (g_parse_token E fuel).
Proof. unfold g_parse_token, g_parse_token_body. lift. Defined.
Ltac lift_callee ::= first [apply d_skip_empty_lines | apply d_skip_spaces | apply d_parse_version | apply d_parse_token].
Definition d_parse_method : bP B data _ (g_parse_method E fuel).
Proof. unfold g_parse_method, g_parse_method_body. lift. Defined.
Definition d_parse_uri : bP B data _ (g_parse_uri E fuel).
Proof. unfold g_parse_uri, g_parse_uri_body. lift. Defined.
Definition d_parse_code : bP B data _ g_parse_code.
Proof. unfold g_parse_code, g_parse_code_body. lift. Defined.
Definition d_parse_reason : bP B data _ (g_parse_reason fuel).
Proof. unfold g_parse_reason, g_parse_reason_body. lift. Defined.
Definition d_parse_chunk_size dbg : bP B data _ (g_parse_chunk_size dbg fuel).
Proof. unfold g_parse_chunk_size, g_parse_chunk_size_body. lift. Defined.
Definition d_headers_body hc : bI B data _ _ _ _ (g_headers_body E fuel hc).
Proof. unfold g_headers_body. lift. Defined.

Ltac lift_callee ::= first [apply d_skip_empty_lines | apply d_skip_spaces | apply d_parse_version | apply d_parse_token
  | apply d_parse_method | apply d_parse_uri | apply d_parse_code | apply d_parse_reason | apply d_headers_body].
Definition d_request_core cf buf : bI B data _ _ _ _ (g_request_core_body E fuel cf buf).
Proof. unfold g_request_core_body, icall_headers. lift. Defined.
Definition d_response_core cf buf : bI B data _ _ _ _ (g_response_core_body E fuel cf buf).
Proof. unfold g_response_core_body, icall_headers. lift. Defined.
Ltac lift_callee ::= first [apply d_skip_empty_lines | apply d_skip_spaces | apply d_parse_version | apply d_parse_token
  | apply d_parse_method | apply d_parse_uri | apply d_parse_code | apply d_parse_reason | apply d_headers_body
  | apply d_request_core | apply d_response_core].
Definition d_request_with_config cf buf : bI B data _ _ _ _ (g_request_with_config_body E fuel cf buf).
Proof. unfold g_request_with_config_body. lift. Defined.
Definition d_response_with_config cf buf : bI B data _ _ _ _ (g_response_with_config_body E fuel cf buf).
Proof. unfold g_response_with_config_body. lift. Defined.
Definition d_parse_headers src : bI B data _ _ _ _ (g_parse_headers_body E fuel src).
Proof. unfold g_parse_headers_body, icall_headers. lift. Defined.

End Trees.

(* ---- the scanner loop shells translated from src/simd/*.rs (Generated/Loops.v), hence the scanners of
   every concrete environment (Backends.env_of), by the equalities of TieLoops.v ---- *)
Section Loops.
Variable B : nat.
Variable data : list N.
Ltac lift_callee ::= fail.

Definition d_gl_swar_uri W fuel : bP B data _ (gl_swar_uri W fuel).
Proof. unfold gl_swar_uri, gl_swar_uri_body. lift. Defined.
Definition d_gl_swar_value W fuel : bP B data _ (gl_swar_value W fuel).
Proof. unfold gl_swar_value, gl_swar_value_body. lift. Defined.
Definition d_gl_swar_name W fuel : bP B data _ (gl_swar_name W fuel).
Proof. unfold gl_swar_name, gl_swar_name_body. lift. Defined.
Definition d_gl_sse42_uri fb fuel (dfb : bP B data unit fb) : bP B data _ (gl_sse42_uri fb fuel).
Proof. unfold gl_sse42_uri, gl_sse42_uri_body. lift. Defined.
Definition d_gl_sse42_value fb fuel (dfb : bP B data unit fb) : bP B data _ (gl_sse42_value fb fuel).
Proof. unfold gl_sse42_value, gl_sse42_value_body. lift. Defined.
Definition d_gl_avx2_uri fb fuel (dfb : bP B data unit fb) : bP B data _ (gl_avx2_uri fb fuel).
Proof. unfold gl_avx2_uri, gl_avx2_uri_body. lift. Defined.
Definition d_gl_avx2_value fb fuel (dfb : bP B data unit fb) : bP B data _ (gl_avx2_value fb fuel).
Proof. unfold gl_avx2_value, gl_avx2_value_body. lift. Defined.
Definition d_gl_neon_uri fb fuel (dfb : bP B data unit fb) : bP B data _ (gl_neon_uri fb fuel).
Proof. unfold gl_neon_uri, gl_neon_uri_body. lift. Defined.
Definition d_gl_neon_value fb fuel (dfb : bP B data unit fb) : bP B data _ (gl_neon_value fb fuel).
Proof. unfold gl_neon_value, gl_neon_value_body. lift. Defined.
Definition d_gl_neon_name fb fuel (dfb : bP B data unit fb) : bP B data _ (gl_neon_name fb fuel).
Proof. unfold gl_neon_name, gl_neon_name_body. lift. Defined.

Definition d_swar_uri W fuel : bP B data _ (swar_uri W fuel) :=
  bP_eq B data _ _ _ (tie_swar_uri W fuel) (d_gl_swar_uri W fuel).
Definition d_swar_value W fuel : bP B data _ (swar_value W fuel) :=
  bP_eq B data _ _ _ (tie_swar_value W fuel) (d_gl_swar_value W fuel).
Definition d_swar_name W fuel : bP B data _ (swar_name W fuel) :=
  bP_eq B data _ _ _ (tie_swar_name W fuel) (d_gl_swar_name W fuel).

Definition d_env (E : env) (fuel : nat) : Type :=
  (bP B data unit (s_uri E fuel) * bP B data unit (s_value E fuel) * bP B data unit (s_name E fuel))%type.

Definition d_env_swar W fuel : d_env (env_swar W) fuel :=
  (d_swar_uri W fuel, d_swar_value W fuel, d_swar_name W fuel).
Definition d_env_sse42 W fuel : d_env (env_sse42 W) fuel :=
  (bP_eq B data _ _ _ (tie_sse42_uri _ fuel) (d_gl_sse42_uri _ fuel (d_swar_uri W fuel)),
   bP_eq B data _ _ _ (tie_sse42_value _ fuel) (d_gl_sse42_value _ fuel (d_swar_value W fuel)),
   d_swar_name W fuel).
Definition d_env_avx2 W fuel : d_env (env_avx2 W) fuel :=
  (bP_eq B data _ _ _ (tie_avx2_uri _ fuel) (d_gl_avx2_uri _ fuel (d_swar_uri W fuel)),
   bP_eq B data _ _ _ (tie_avx2_value _ fuel) (d_gl_avx2_value _ fuel (d_swar_value W fuel)),
   d_swar_name W fuel).
Definition d_env_neon W fuel : d_env (env_neon W) fuel :=
  (bP_eq B data _ _ _ (tie_neon_uri _ fuel) (d_gl_neon_uri _ fuel (d_swar_uri W fuel)),
   bP_eq B data _ _ _ (tie_neon_value _ fuel) (d_gl_neon_value _ fuel (d_swar_value W fuel)),
   bP_eq B data _ _ _ (tie_neon_name _ fuel) (d_gl_neon_name _ fuel (d_swar_name W fuel))).
Definition d_env_of W be fuel : d_env (env_of W be) fuel.
Proof.
  destruct be as [| | | |id]; cbn [env_of];
    [apply d_env_swar | apply d_env_sse42 | apply d_env_avx2 | apply d_env_neon|].
  unfold env_runtime. destruct (N.eqb id RT_AVX2); [apply d_env_avx2|].
  destruct (N.eqb id RT_SSE42); [apply d_env_sse42|apply d_env_swar].
Defined.

End Loops.
