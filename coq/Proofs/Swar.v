(* Proofs/Swar.v -- the translated SWAR block kernels (Generated/Swar.v) return the
   index of the first byte outside their class, for every block of BLOCK_SIZE bytes
   and every BLOCK_SIZE. *)
From Coq Require Import List NArith ZArith Lia Bool ZifyBool ZifyN ZifyNat.
From HV Require Import Cursor Scan Intrinsics.
From HV.Proofs Require Import Base.
From HV.Generated Require Import Swar.
Import ListNotations.
Local Open Scope N_scope.
Ltac Zify.zify_post_hook ::= Z.div_mod_to_equations.


(* words as numbers: only used to justify that w_sub is subtraction modulo 2^(8k) *)
Fixpoint le_word (xs : list N) : N :=
  match xs with [] => 0 | x :: r => x + 256 * le_word r end.
Fixpoint borrow_out (bw : bool) (xs ys : list N) : bool :=
  match xs, ys with
  | x :: xr, y :: yr => borrow_out (x <? y + b2n bw) xr yr
  | _, _ => bw
  end.

Lemma w_sub_spec : forall xs ys bw,
  bytes_ok xs -> bytes_ok ys -> length xs = length ys ->
  le_word (w_sub_b bw xs ys) + le_word ys + b2n bw
  = le_word xs + 256 ^ N.of_nat (length xs) * b2n (borrow_out bw xs ys).
Proof.
  induction xs as [|x xr IH]; intros [|y yr] bw Hx Hy Hl; try discriminate.
  - cbn. destruct bw; cbn; lia.
  - inversion Hx as [|? ? Hx0 Hxr]; inversion Hy as [|? ? Hy0 Hyr]; subst.
    cbn [w_sub_b borrow_out le_word length]. injection Hl as Hl.
    specialize (IH yr (x <? y + b2n bw) Hxr Hyr Hl).
    rewrite Nat2N.inj_succ, N.pow_succ_r'.
    set (P := 256 ^ N.of_nat (length xr)) in *.
    set (bo := b2n (borrow_out (x <? y + b2n bw) xr yr)) in *.
    assert (Hb : b2n bw <= 1) by (destruct bw; cbn; lia).
    destruct (N.ltb_spec x (y + b2n bw)) as [Hlt|Hge]; cbn [b2n] in IH |- *.
    + assert ((x + 256 - (y + b2n bw)) mod 256 = x + 256 - (y + b2n bw)) by (apply N.mod_small; lia).
      nia.
    + assert ((x + 256 - (y + b2n bw)) mod 256 = x - (y + b2n bw)).
      { replace (x + 256 - (y + b2n bw)) with ((x - (y + b2n bw)) + 1 * 256) by lia.
        rewrite N.mod_add by lia. apply N.mod_small. lia. }
      nia.
Qed.

(* the shape shared by both kernels, generalised over the two incoming borrows:
     lt     = (x - uniform m) & !x
     eq_del = ((x ^ uniform 127) - uniform 1) & !(x ^ uniform 127)
     (lt | eq_del) & uniform 128                                               *)
Fixpoint res_gen (m : N) (b1 b2 : bool) (x : list N) : list N :=
  match x with
  | [] => []
  | a :: r =>
      let d := N.lxor a 127 in
      let lt := N.land ((a + 256 - (m + b2n b1)) mod 256) (255 - a) in
      let eq := N.land ((d + 256 - (1 + b2n b2)) mod 256) (255 - d) in
      N.land (N.lor lt eq) 128 :: res_gen m (a <? m + b2n b1) (d <? 1 + b2n b2) r
  end.

Lemma res_gen_eq : forall m x b1 b2 k, k = length x ->
  res_gen m b1 b2 x =
  w_and (w_or (w_and (w_sub_b b1 x (repeat m k)) (w_not x))
              (w_and (w_sub_b b2 (w_xor x (repeat 127 k)) (repeat 1 k)) (w_not (w_xor x (repeat 127 k)))))
        (repeat 128 k).
Proof.
  induction x as [|a r IH]; intros b1 b2 k ->; [reflexivity|].
  cbn [res_gen length repeat w_and w_or w_xor w_not w_sub_b map2 map].
  f_equal. apply IH. reflexivity.
Qed.

Definition strict_class (m : N) (b : N) : bool :=
  ((m <=? b) && (b <=? 126)) || ((128 <=? b) && (b <=? 255)).

Definition bytes256 : list N := map N.of_nat (seq 0 256).
Lemma in_bytes256 b : b < 256 -> In b bytes256.
Proof.
  intros H. unfold bytes256. rewrite <- (N2Nat.id b). apply in_map. apply in_seq. lia.
Qed.

(* per byte: in class  => no flag and both borrows stay clear;  out of class => flag set *)
Definition byte_fact (m : N) (a : N) : bool :=
  let d := N.lxor a 127 in
  let lt := N.land ((a + 256 - m) mod 256) (255 - a) in
  let eq := N.land ((d + 256 - 1) mod 256) (255 - d) in
  let flag := N.land (N.lor lt eq) 128 in
  if strict_class m a then (flag =? 0) && negb (a <? m) && negb (d <? 1)
  else negb (flag =? 0).
Lemma byte_facts_33 : forallb (byte_fact 33) bytes256 = true.
Proof. vm_compute. reflexivity. Qed.
Lemma byte_facts_32 : forallb (byte_fact 32) bytes256 = true.
Proof. vm_compute. reflexivity. Qed.

Lemma res_gen_first_bad : forall m x,
  forallb (byte_fact m) bytes256 = true -> bytes_ok x ->
  first_nonzero (res_gen m false false x) = first_bad (strict_class m) x.
Proof.
  intros m x HF Hx.
  induction Hx as [|a r Ha Hr IH]; [reflexivity|].
  cbn [res_gen first_bad first_nonzero b2n].
  pose proof (proj1 (forallb_forall _ _) HF a (in_bytes256 a Ha)) as F.
  unfold byte_fact in F. rewrite !N.add_0_r.
  destruct (strict_class m a).
  - apply andb_prop in F as [F F3]. apply andb_prop in F as [F1 F2].
    rewrite F1. apply negb_true_iff in F2, F3. rewrite F2, F3. f_equal. exact IH.
  - apply negb_true_iff in F. rewrite F. reflexivity.
Qed.

Lemma first_nonzero_all_zero : forall l,
  forallb (fun b => b =? 0) l = true -> first_nonzero l = length l.
Proof.
  induction l as [|b r IH]; cbn [forallb first_nonzero length]; [reflexivity|].
  intros H. apply andb_prop in H as [H1 H2]. rewrite H1. f_equal. auto.
Qed.
Lemma res_gen_length : forall m x b1 b2, length (res_gen m b1 b2 x) = length x.
Proof. induction x as [|a r IH]; intros; cbn [res_gen length]; [reflexivity|f_equal; apply IH]. Qed.

Lemma offsetnz_first_nonzero : forall W l, length l = W -> offsetnz W l = first_nonzero l.
Proof.
  intros W l HW. unfold offsetnz.
  destruct (forallb (fun b => b =? 0) l) eqn:E; [|reflexivity].
  rewrite first_nonzero_all_zero by exact E. symmetry. exact HW.
Qed.

(* the two translated kernels *)
Theorem swar_uri_kernel_exact : forall W block,
  length block = W -> bytes_ok block ->
  match_uri_char_8_swar W block = first_bad (strict_class 33) block.
Proof.
  intros W block HW Hb. unfold match_uri_char_8_swar, uniform_block, w_sub. cbv zeta.
  rewrite <- (res_gen_eq 33 block false false W) by (symmetry; exact HW).
  rewrite offsetnz_first_nonzero by (rewrite res_gen_length; exact HW).
  apply res_gen_first_bad; [exact byte_facts_33|exact Hb].
Qed.

Theorem swar_value_kernel_exact : forall W block,
  length block = W -> bytes_ok block ->
  match_header_value_char_8_swar W block = first_bad (strict_class 32) block.
Proof.
  intros W block HW Hb. unfold match_header_value_char_8_swar, uniform_block, w_sub. cbv zeta.
  rewrite <- (res_gen_eq 32 block false false W) by (symmetry; exact HW).
  rewrite offsetnz_first_nonzero by (rewrite res_gen_length; exact HW).
  apply res_gen_first_bad; [exact byte_facts_32|exact Hb].
Qed.
