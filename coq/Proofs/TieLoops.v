(* TieLoops.v -- the scanner loop shells as translated from /repo/src/simd/{swar,sse42,avx2,neon}.rs on this
   run (Generated/Loops.v) = the hand-written shells of Scan.v as Backends.v and Generated/{Sse42,Avx2,Neon}.v
   instantiate them (loop guard, lanes loaded, advance compared with, kernel, fallback). *)
From Coq Require Import List NArith Bool Lia Arith.
From HV Require Import Cursor Scan Model Imp ImpLib Backends.
From HV.Generated Require Import Classes Swar Sse42 Avx2 Neon Loops.
From HV.Proofs Require Import TieBase.
Import ListNotations.

Ltac loop_unfold :=
  cbv beta iota delta [irun ifun ibind iret ilift iget iset ipart ifail ifault ithrow iguard iguard_idx ireturn
                       bind ret fail part fault_ peek peek_n advance remaining load_block rest_bytes
                       rest pre tokrev].

Lemma take_some : forall n (l : list N), n <= length l -> exists b, take n l = Some b.
Proof.
  induction n as [|n IH]; intros l H; cbn [take]; [eauto|].
  destruct l as [|x l]; cbn [length] in H; [lia|]. destruct (IH l ltac:(lia)) as [b Hb]. rewrite Hb. eauto.
Qed.
Lemma take_none : forall n (l : list N), length l < n -> take n l = None.
Proof.
  induction n as [|n IH]; intros l H; [lia|]. cbn [take]. destruct l as [|x l]; [reflexivity|].
  rewrite IH; [reflexivity|]. cbn [length] in H. lia.
Qed.

(* the word-at-a-time target / value scanners *)
Ltac swar_tie IH :=
  cbn [swar_loop iloop]; loop_unfold;
  match goal with |- context [take ?W ?r] => destruct (take W r) as [b8|] eqn:Et end; loop_unfold;
  [ match goal with |- context [shift ?n ?t ?r] => destruct (shift n t r) as [[tk r']|] eqn:Es end; loop_unfold;
    [|reflexivity];
    match goal with |- context [Nat.eqb ?n ?W] => destruct (Nat.eqb n W) end; loop_unfold; cbn [Nat.eqb];
    [apply IH|]
  | ];
  (match goal with |- context [hd_error ?r] => destruct r as [|b0 r0] end; cbn [hd_error]; loop_unfold; cbn [Nat.eqb];
   [reflexivity|];
   match goal with |- context [if ?c then _ else _] => destruct c end; loop_unfold; cbn [Nat.eqb shift];
   [apply IH|reflexivity]).

Lemma tie_swar_uri W fuel c : gl_swar_uri W fuel c = swar_uri W fuel c.
Proof.
  unfold gl_swar_uri, gl_swar_uri_body, gl_swar_uri_init, swar_uri.
  match goal with |- context [iloop fuel 1 ?body] => set (B := body) end.
  assert (HL : forall f c,
     match iloop (R:=unit) f 1 B tt c with
     | IDone _ _ c' => Done tt c' | IPart _ => Part | IFail e _ => Fail e | IFault x _ => Fault x
     | IExc (Ret _) _ c' => Done tt c' | IExc _ _ _ => Fault Unreachable end
     = swar_loop f W (match_uri_char_8_swar W) is_uri_token c).
  { intros f; induction f as [|f IH]; intros [p t r]; [reflexivity|]. unfold B at 1. swar_tie IH. }
  specialize (HL fuel c). loop_unfold.
  destruct (iloop fuel 1 B tt c) as [a l' c'|l'|e l'|x l'|x l' c']; try (destruct x);
    repeat match goal with u : unit |- _ => destruct u end; exact HL.
Qed.

Lemma tie_swar_value W fuel c : gl_swar_value W fuel c = swar_value W fuel c.
Proof.
  unfold gl_swar_value, gl_swar_value_body, gl_swar_value_init, swar_value.
  match goal with |- context [iloop fuel 1 ?body] => set (B := body) end.
  assert (HL : forall f c,
     match iloop (R:=unit) f 1 B tt c with
     | IDone _ _ c' => Done tt c' | IPart _ => Part | IFail e _ => Fail e | IFault x _ => Fault x
     | IExc (Ret _) _ c' => Done tt c' | IExc _ _ _ => Fault Unreachable end
     = swar_loop f W (match_header_value_char_8_swar W) is_header_value_token c).
  { intros f; induction f as [|f IH]; intros [p t r]; [reflexivity|]. unfold B at 1. swar_tie IH. }
  specialize (HL fuel c). loop_unfold.
  destruct (iloop fuel 1 B tt c) as [a l' c'|l'|e l'|x l'|x l' c']; try (destruct x);
    repeat match goal with u : unit |- _ => destruct u end; exact HL.
Qed.

(* the word-at-a-time header-name scanner *)
Lemma tie_swar_name W fuel c : gl_swar_name W fuel c = swar_name W fuel c.
Proof.
  unfold gl_swar_name, gl_swar_name_body, gl_swar_name_init, swar_name.
  match goal with |- context [iloop fuel 1 ?body] => set (B := body) end.
  assert (HL : forall f c,
     match iloop (R:=unit) f 1 B tt c with
     | IDone _ _ c' => advance (first_bad is_header_name_token (rest c')) c'
     | IPart _ => Part | IFail e _ => Fail e | IFault x _ => Fault x
     | IExc (Ret _) _ c' => Done tt c' | IExc _ _ _ => Fault Unreachable end
     = swar_name_loop f W is_header_name_token c).
  { intros f; induction f as [|f IH]; intros [p t r]; [reflexivity|]. unfold B at 1.
    cbn [swar_name_loop iloop]. loop_unfold.
    destruct (take W r) as [blk|] eqn:Et; loop_unfold; cbn [Nat.eqb]; [|reflexivity].
    destruct (shift _ t r) as [[tk r']|] eqn:Es; loop_unfold; [|reflexivity].
    destruct (Nat.eqb _ W); cbn [negb]; loop_unfold; [apply IH|reflexivity]. }
  specialize (HL fuel c). loop_unfold.
  destruct (iloop fuel 1 B tt c) as [a l' c'|l'|e l'|x l'|x l' c']; try (destruct x);
    repeat match goal with u : unit |- _ => destruct u end; try exact HL.
  rewrite <- HL. unfold advance. destruct (shift _ _ _) as [[tk r']|]; reflexivity.
Qed.

(* the SIMD loops: `while len >= G { adv = kernel(load K); advance(adv); if adv != R { return } } fallback` *)
Ltac simd_tie G :=
  let B := fresh "B" in let HL := fresh "HL" in let IH := fresh "IH" in let f := fresh "f" in
  let Hle := fresh "Hle" in let Hgt := fresh "Hgt" in let Hg := fresh "Hg" in let g := fresh "g" in
  let p := fresh "p" in let t := fresh "t" in let r := fresh "r" in
  match goal with |- context [iloop ?fuel 1 ?body] => set (B := body) end;
  match goal with |- _ = simd_loop ?fuel _ ?K ?R ?kernel ?fallback ?c =>
    assert (HL : forall f c,
      match iloop (R:=unit) f 1 B tt c with
      | IDone _ _ c' => fallback c'
      | IPart _ => Part | IFail e _ => Fail e | IFault x _ => Fault x
      | IExc (Ret _) _ c' => Done tt c' | IExc _ _ _ => Fault Unreachable end
      = simd_loop f G K R kernel fallback c);
    [ intros f; induction f as [|f IH]; intros [p t r]; [reflexivity|]; unfold B at 1;
      cbn [simd_loop iloop]; loop_unfold;
      destruct (Nat.leb_spec G (length r)) as [Hle|Hgt];
      [ destruct (take_some G r Hle) as [g Hg]; rewrite Hg; loop_unfold;
        change K with G; rewrite Hg; loop_unfold;
        match goal with |- context [shift ?n t r] => destruct (shift n t r) as [[? ?]|] end; loop_unfold;
        [|reflexivity];
        match goal with |- context [Nat.eqb ?a ?b] => destruct (Nat.eqb a b) end; cbn [negb]; loop_unfold;
        [apply IH|reflexivity]
      | rewrite (take_none G r Hgt); loop_unfold; cbn [Nat.eqb]; reflexivity ]
    | specialize (HL fuel c); loop_unfold;
      match goal with |- context [iloop fuel 1 B tt c] =>
        destruct (iloop fuel 1 B tt c) as [? ? ?|?|? ?|? ?|[? ?|?|?] ? ?] end;
      repeat match goal with u : unit |- _ => destruct u end; try exact HL;
      rewrite <- HL;
      match goal with |- context [fallback ?c'] => destruct (fallback c') as [[] ?| | |] end; reflexivity ]
  end.

Lemma tie_sse42_uri fb fuel c : gl_sse42_uri fb fuel c = sse42_match_uri_vectored fb fuel c.
Proof. unfold gl_sse42_uri, gl_sse42_uri_body, gl_sse42_uri_init, sse42_match_uri_vectored. simd_tie 16. Qed.
Lemma tie_sse42_value fb fuel c : gl_sse42_value fb fuel c = sse42_match_header_value_vectored fb fuel c.
Proof. unfold gl_sse42_value, gl_sse42_value_body, gl_sse42_value_init, sse42_match_header_value_vectored. simd_tie 16. Qed.
Lemma tie_avx2_uri fb fuel c : gl_avx2_uri fb fuel c = avx2_match_uri_vectored fb fuel c.
Proof. unfold gl_avx2_uri, gl_avx2_uri_body, gl_avx2_uri_init, avx2_match_uri_vectored. simd_tie 32. Qed.
Lemma tie_avx2_value fb fuel c : gl_avx2_value fb fuel c = avx2_match_header_value_vectored fb fuel c.
Proof. unfold gl_avx2_value, gl_avx2_value_body, gl_avx2_value_init, avx2_match_header_value_vectored. simd_tie 32. Qed.
Lemma tie_neon_uri fb fuel c : gl_neon_uri fb fuel c = neon_match_uri_vectored fb fuel c.
Proof. unfold gl_neon_uri, gl_neon_uri_body, gl_neon_uri_init, neon_match_uri_vectored. simd_tie 16. Qed.
Lemma tie_neon_value fb fuel c : gl_neon_value fb fuel c = neon_match_header_value_vectored fb fuel c.
Proof. unfold gl_neon_value, gl_neon_value_body, gl_neon_value_init, neon_match_header_value_vectored. simd_tie 16. Qed.
Lemma tie_neon_name fb fuel c : gl_neon_name fb fuel c = neon_match_header_name_vectored fb fuel c.
Proof. unfold gl_neon_name, gl_neon_name_body, gl_neon_name_init, neon_match_header_name_vectored. simd_tie 16. Qed.

(* every translated loop shell at once (restated at the end of the env-parametric theorem files) *)
Definition loop_shells_tied : Prop := forall W fb fuel c,
  gl_swar_uri W fuel c = swar_uri W fuel c /\ gl_swar_value W fuel c = swar_value W fuel c /\
  gl_swar_name W fuel c = swar_name W fuel c /\
  gl_sse42_uri fb fuel c = sse42_match_uri_vectored fb fuel c /\
  gl_sse42_value fb fuel c = sse42_match_header_value_vectored fb fuel c /\
  gl_avx2_uri fb fuel c = avx2_match_uri_vectored fb fuel c /\
  gl_avx2_value fb fuel c = avx2_match_header_value_vectored fb fuel c /\
  gl_neon_uri fb fuel c = neon_match_uri_vectored fb fuel c /\
  gl_neon_value fb fuel c = neon_match_header_value_vectored fb fuel c /\
  gl_neon_name fb fuel c = neon_match_header_name_vectored fb fuel c.
Lemma loop_shells_tied_pf : loop_shells_tied.
Proof.
  intros W fb fuel c. repeat split; first [apply tie_swar_uri | apply tie_swar_value | apply tie_swar_name | apply tie_sse42_uri
    | apply tie_sse42_value | apply tie_avx2_uri | apply tie_avx2_value | apply tie_neon_uri | apply tie_neon_value
    | apply tie_neon_name].
Qed.
