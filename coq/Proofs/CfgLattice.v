(* Proofs/CfgLattice.v -- the cfg lattice of src/simd/mod.rs (translated: Generated/Cfg.v):
   under every cfg environment exactly one provider of the three scanner entry points is
   re-exported, it provides all three, and every module an enabled item refers to is itself
   enabled.  Also the hand model of build.rs. *)
From Coq Require Import List NArith Bool String.
From HV Require Import CfgBase.
From HV.Generated Require Import Cfg.
Import ListNotations.
Local Open Scope string_scope.

Definition three : list string :=
  ["match_uri_vectored"; "match_header_value_vectored"; "match_header_name_vectored"].

Fixpoint assoc {A} (k : string) (l : list (string * A)) : option A :=
  match l with
  | [] => None
  | (k', v) :: r => if String.eqb k k' then Some v else assoc k r
  end.
Definition mem (s : string) (l : list string) : bool := existsb (String.eqb s) l.

(* module m is compiled in: a `mod m;` or inline `mod m { }` item whose cfg holds *)
Definition mod_enabled (e : cfgenv) (m : string) : bool :=
  existsb (fun it => match it with
                     | (IMod, n, c) | (IInline, n, c) => String.eqb n m && c
                     | _ => false end) (simd_items e).
(* what module m exports: the pub fns of its file, or the three shims of an inline module *)
Definition exports_of (m : string) : list string :=
  match assoc m module_exports with
  | Some l => l
  | None => map (fun s => snd (fst s)) (filter (fun s => String.eqb (fst (fst s)) m) simd_shims)
  end.
(* modules m refers to *)
Definition refs_of (m : string) : list string :=
  match assoc m module_refs with
  | Some l => l
  | None => map snd (filter (fun s => String.eqb (fst (fst s)) m) simd_shims)
  end.

Definition used_modules (e : cfgenv) : list string :=
  flat_map (fun it => match it with (IUse, n, true) => [n] | _ => [] end) (simd_items e).

Definition cfg_ok (e : cfgenv) : bool :=
  match used_modules e with
  | [m] =>
      mod_enabled e m &&
      forallb (fun f => mem f (exports_of m)) three &&
      (* references are closed under enabledness, two levels deep (the lattice is that shallow) *)
      forallb (fun r => mod_enabled e r && forallb (mod_enabled e) (refs_of r)) (refs_of m)
  | _ => false
  end.

Definition all_bool := [true; false].
Definition all_arch := [X86; X86_64; AArch64; OtherArch].
Definition all_envs : list cfgenv :=
  flat_map (fun s => flat_map (fun a => flat_map (fun b => flat_map (fun n =>
    map (fun ar => mkcfgenv s a b n ar) all_arch) all_bool) all_bool) all_bool) all_bool.

Lemma all_envs_complete e : In e all_envs.
Proof.
  destruct e as [s a b n ar]. destruct s, a, b, n, ar; vm_compute; tauto.
Qed.

Lemma cfg_ok_all : forallb cfg_ok all_envs = true.
Proof. vm_compute. reflexivity. Qed.

Theorem cfg_exactly_one_provider : forall e, cfg_ok e = true.
Proof. intros e. exact (proj1 (forallb_forall _ _) cfg_ok_all e (all_envs_complete e)). Qed.

(* ---- build.rs (hand model) ---- *)
Record benv := mkbenv {
  be_std : bool;            (* CARGO_FEATURE_STD set *)
  be_miri : bool;           (* CARGO_CFG_MIRI set *)
  be_disable : bool;        (* CARGO_CFG_HTTPARSE_DISABLE_SIMD = "1" *)
  be_rtonly : bool;         (* CARGO_CFG_HTTPARSE_DISABLE_SIMD_COMPILETIME = "1" *)
  be_features : bool;       (* CARGO_CFG_TARGET_FEATURE present and valid UTF-8 *)
  be_sse42 : bool;          (* the list contains "sse4.2" *)
  be_avx2 : bool;           (* the list contains "avx2" *)
  be_neon_rustc : bool      (* rustc >= 1.59.0 *)
}.
(* the cfgs build.rs emits, given that the rustc version could be parsed *)
Definition build_rs (b : benv) (ar : arch) : cfgenv :=
  if negb (be_std b) || be_miri b || be_disable b then mkcfgenv false false false false ar
  else
    let ct := negb (be_rtonly b) && be_features b in
    mkcfgenv true (ct && be_sse42 b) (ct && be_avx2 b) (be_neon_rustc b) ar.

Theorem build_script_table : forall b ar,
  cfg_ok (build_rs b ar) = true /\
  (ce_simd (build_rs b ar) = true -> be_std b = true) /\
  (ce_simd (build_rs b ar) = false -> ce_sse42 (build_rs b ar) = false /\ ce_avx2 (build_rs b ar) = false).
Proof.
  intros b ar. split; [apply cfg_exactly_one_provider|].
  unfold build_rs. destruct (be_std b), (be_miri b), (be_disable b); cbn; split; intros; try discriminate; auto.
Qed.
