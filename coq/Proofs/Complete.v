(* Proofs/Complete.v -- honest Partial (C11): whenever a reference parser answers Partial there is
   an explicit continuation on which it answers Complete -- or runs into one of the two deferred
   checks: header capacity (TooManyHeaders when the surplus header line completes) and UTF-8
   validity of the request target (Token at its terminating SP). *)
From Coq Require Import List NArith ZArith Lia Bool ZifyBool ZifyN ZifyNat.
From HV Require Import Cursor Scan Model Api Spec Oracle.
From HV.Proofs Require Import Base RefFacts Stable Clean.
Import ListNotations.

Notation CRLF := [13%N; 10%N].

Section HdrComplete.
Variable hc : hcfg.

Lemma ref_invalid_complete ign e off l R :
  ref_invalid ign e off l = RPart -> exists o, ref_invalid ign e off (l ++ 10%N :: R) = ROk LSkip o R.
Proof.
  unfold ref_invalid. destruct ign; cbn [negb]; [|discriminate].
  set (p := fun b => negb (is 13 b || is 10 b || is 0 b)).
  pose proof (span_stop p l) as Hst. pose proof (span_app p l) as Happ.
  destruct (span p l) as [junk r] eqn:Es. cbn [fst snd] in *.
  destruct r as [|b r1].
  - intros _. rewrite app_nil_r in Happ. subst junk.
    rewrite (span_all_stop p l (10%N :: R)); [|rewrite Es; reflexivity|reflexivity].
    eexists. reflexivity.
  - specialize (Hst b r1 eq_refl). destruct (is 0 b) eqn:E0; [discriminate|]. destruct (is 10 b) eqn:E10; [discriminate|].
    destruct r1 as [|b2 r2]; [|destruct (is 10 b2); discriminate]. intros _.
    rewrite (span_ext _ _ _ _ _ _ Es). cbn [app]. rewrite E0, E10. eexists. reflexivity.
Qed.

Lemma rvl_step_fold_cr voff racc off b b2 b3 tl :
  value_char b = false -> is 13 b = true -> is 10 b2 = true -> allow_obsolete_multiline_headers hc = true -> ws b3 = true ->
  ref_value_lines hc voff racc off (b :: b2 :: b3 :: tl) = ref_value_lines hc voff (10%N :: 13%N :: racc) (2 + off) (b3 :: tl).
Proof. intros Ev E13 E10 Ef Ew. cbn [ref_value_lines]. rewrite Ev, E13, E10, Ef, Ew. reflexivity. Qed.
Lemma rvl_step_fold_lf voff racc off b b3 tl :
  value_char b = false -> is 13 b = false -> is 10 b = true -> allow_obsolete_multiline_headers hc = true -> ws b3 = true ->
  ref_value_lines hc voff racc off (b :: b3 :: tl) = ref_value_lines hc voff (10%N :: racc) (S off) (b3 :: tl).
Proof. intros Ev E13 E10 Ef Ew. cbn [ref_value_lines]. rewrite Ev, E13, E10, Ef, Ew. reflexivity. Qed.
Lemma rvs_step_fold_cr off b b2 b3 tl :
  ws b = false -> value_char b = false -> is 13 b = true -> is 10 b2 = true -> allow_obsolete_multiline_headers hc = true -> ws b3 = true ->
  ref_value_start hc off (b :: b2 :: b3 :: tl) = ref_value_start hc (2 + off) (b3 :: tl).
Proof. intros Ewb Ev E13 E10 Ef Ew. cbn [ref_value_start]. rewrite Ewb, Ev, E13, E10, Ef, Ew. reflexivity. Qed.
Lemma rvs_step_fold_lf off b b3 tl :
  ws b = false -> value_char b = false -> is 13 b = false -> is 10 b = true -> allow_obsolete_multiline_headers hc = true -> ws b3 = true ->
  ref_value_start hc off (b :: b3 :: tl) = ref_value_start hc (S off) (b3 :: tl).
Proof. intros Ewb Ev E13 E10 Ef Ew. cbn [ref_value_start]. rewrite Ewb, Ev, E13, E10, Ef, Ew. reflexivity. Qed.

Lemma ref_value_lines_complete : forall n l voff racc off, length l <= n ->
  ref_value_lines hc voff racc off l = RPart ->
  exists t x o, ref_value_lines hc voff racc off (l ++ t ++ CRLF) = ROk x o CRLF.
Proof.
  induction n as [|n IH]; intros l voff racc off Hn H.
  { destruct l; [|cbn [length] in Hn; lia]. exists CRLF. cbn [app ref_value_lines].
    destruct (allow_obsolete_multiline_headers hc); eexists; eexists; reflexivity. }
  destruct l as [|b r].
  { exists CRLF. cbn [app ref_value_lines].
    destruct (allow_obsolete_multiline_headers hc); eexists; eexists; reflexivity. }
  cbn [length] in Hn. cbn [ref_value_lines] in H.
  destruct (value_char b) eqn:Ev.
  { destruct (IH r voff (b :: racc) (S off) ltac:(lia) H) as [t [x [o Ht]]].
    exists t, x, o. cbn [app ref_value_lines]. rewrite Ev. exact Ht. }
  destruct (is 13 b) eqn:E13.
  { destruct r as [|b2 r2].
    { exists [10%N]. cbn [app ref_value_lines]. rewrite Ev, E13.
      destruct (allow_obsolete_multiline_headers hc); eexists; eexists; reflexivity. }
    destruct (is 10 b2) eqn:E10; cbn [negb] in H; [|discriminate].
    destruct (allow_obsolete_multiline_headers hc) eqn:Ef; [|discriminate].
    destruct r2 as [|b3 r3].
    { exists []. cbn [app ref_value_lines]. rewrite Ev, E13, E10, Ef. cbn [negb]. eexists; eexists; reflexivity. }
    destruct (ws b3) eqn:Ew; [|discriminate].
    destruct (IH (b3 :: r3) voff (10%N :: 13%N :: racc) (2 + off) ltac:(cbn [length] in *; lia) H) as [t [x [o Ht]]].
    exists t, x, o. change ((b :: b2 :: b3 :: r3) ++ t ++ CRLF) with (b :: b2 :: b3 :: (r3 ++ t ++ CRLF)).
    rewrite rvl_step_fold_cr by assumption. exact Ht. }
  destruct (is 10 b) eqn:E10.
  { destruct (allow_obsolete_multiline_headers hc) eqn:Ef; [|discriminate].
    destruct r as [|b3 r3].
    { exists []. cbn [app ref_value_lines]. rewrite Ev, E13, E10, Ef. eexists; eexists; reflexivity. }
    destruct (ws b3) eqn:Ew; [|discriminate].
    destruct (IH (b3 :: r3) voff (10%N :: racc) (S off) ltac:(lia) H) as [t [x [o Ht]]].
    exists t, x, o. change ((b :: b3 :: r3) ++ t ++ CRLF) with (b :: b3 :: (r3 ++ t ++ CRLF)).
    rewrite rvl_step_fold_lf by assumption. exact Ht. }
  destruct (ref_invalid (ignore_invalid_headers hc) HeaderValue off (b :: r)) as [u o' r'| |e'] eqn:Ei; cbn [rbind] in H; try discriminate.
  destruct (ref_invalid_complete _ _ _ _ CRLF Ei) as [o Ho].
  exists [10%N]. eexists; exists o. change ((b :: r) ++ [10%N] ++ CRLF) with (b :: (r ++ 10%N :: CRLF)).
  cbn [ref_value_lines]. rewrite Ev, E13, E10. change (b :: (r ++ 10%N :: CRLF)) with ((b :: r) ++ 10%N :: CRLF).
  rewrite Ho. reflexivity.
Qed.

Lemma ref_value_start_complete : forall n l off, length l <= n ->
  ref_value_start hc off l = RPart ->
  exists t x o, ref_value_start hc off (l ++ t ++ CRLF) = ROk x o CRLF.
Proof.
  induction n as [|n IH]; intros l off Hn H.
  { destruct l; [|cbn [length] in Hn; lia]. exists CRLF. cbn [app ref_value_start].
    destruct (allow_obsolete_multiline_headers hc); eexists; eexists; reflexivity. }
  destruct l as [|b r].
  { exists CRLF. cbn [app ref_value_start].
    destruct (allow_obsolete_multiline_headers hc); eexists; eexists; reflexivity. }
  cbn [length] in Hn. cbn [ref_value_start] in H.
  destruct (ws b) eqn:Ewb.
  { destruct (IH r (S off) ltac:(lia) H) as [t [x [o Ht]]].
    exists t, x, o. cbn [app ref_value_start]. rewrite Ewb. exact Ht. }
  destruct (value_char b) eqn:Ev.
  { destruct (ref_value_lines_complete (S (length r)) (b :: r) off [] off (le_n _) H) as [t [x [o Ht]]].
    exists t, x, o. change ((b :: r) ++ t ++ CRLF) with (b :: (r ++ t ++ CRLF)). cbn [ref_value_start]. rewrite Ewb, Ev. exact Ht. }
  destruct (is 13 b) eqn:E13.
  { destruct r as [|b2 r2].
    { exists [10%N]. cbn [app ref_value_start]. rewrite Ewb, Ev, E13.
      destruct (allow_obsolete_multiline_headers hc); eexists; eexists; reflexivity. }
    destruct (is 10 b2) eqn:E10; cbn [negb] in H; [|discriminate].
    destruct (allow_obsolete_multiline_headers hc) eqn:Ef; [|discriminate].
    destruct r2 as [|b3 r3].
    { exists []. cbn [app ref_value_start]. rewrite Ewb, Ev, E13, E10, Ef. cbn [negb]. eexists; eexists; reflexivity. }
    destruct (ws b3) eqn:Ew; [|discriminate].
    destruct (IH (b3 :: r3) (2 + off) ltac:(cbn [length] in *; lia) H) as [t [x [o Ht]]].
    exists t, x, o. change ((b :: b2 :: b3 :: r3) ++ t ++ CRLF) with (b :: b2 :: b3 :: (r3 ++ t ++ CRLF)).
    rewrite rvs_step_fold_cr by assumption. exact Ht. }
  destruct (is 10 b) eqn:E10.
  { destruct (allow_obsolete_multiline_headers hc) eqn:Ef; [|discriminate].
    destruct r as [|b3 r3].
    { exists []. cbn [app ref_value_start]. rewrite Ewb, Ev, E13, E10, Ef. eexists; eexists; reflexivity. }
    destruct (ws b3) eqn:Ew; [|discriminate].
    destruct (IH (b3 :: r3) (S off) ltac:(lia) H) as [t [x [o Ht]]].
    exists t, x, o. change ((b :: b3 :: r3) ++ t ++ CRLF) with (b :: b3 :: (r3 ++ t ++ CRLF)).
    rewrite rvs_step_fold_lf by assumption. exact Ht. }
  destruct (ref_invalid (ignore_invalid_headers hc) HeaderValue off (b :: r)) as [u o' r'| |e'] eqn:Ei; cbn [rbind] in H; try discriminate.
  destruct (ref_invalid_complete _ _ _ _ CRLF Ei) as [o Ho].
  exists [10%N]. eexists; exists o. change ((b :: r) ++ [10%N] ++ CRLF) with (b :: (r ++ 10%N :: CRLF)).
  cbn [ref_value_start]. rewrite Ewb, Ev, E13, E10. change (b :: (r ++ 10%N :: CRLF)) with ((b :: r) ++ 10%N :: CRLF).
  rewrite Ho. reflexivity.
Qed.

Lemma ref_value_complete name off l :
  ref_value hc name off l = RPart ->
  exists t x o, x <> LEnd /\ ref_value hc name off (l ++ t ++ CRLF) = ROk x o CRLF.
Proof.
  unfold ref_value. intros H.
  destruct (ref_value_start hc off l) as [v o r| |e] eqn:Es; cbn [rbind] in H; try discriminate.
  destruct (ref_value_start_complete (length l) l off (le_n _) Es) as [t [x [o Ht]]].
  exists t. rewrite Ht. cbn [rbind]. eexists; exists o. split; [|reflexivity]. destruct (dropped x); discriminate.
Qed.

(* a header line that is not finished: some continuation finishes the head right there, or finishes
   the line (as a stored or a skipped one) in front of the final empty line *)
Lemma ref_header_line_complete first off l :
  ref_header_line hc first off l = RPart ->
  exists t, (exists o, ref_header_line hc first off (l ++ t) = ROk LEnd o []) \/
            (exists x o, x <> LEnd /\ ref_header_line hc first off (l ++ t ++ CRLF) = ROk x o CRLF).
Proof.
  unfold ref_header_line. destruct l as [|b r].
  { intros _. exists CRLF. left. eexists. reflexivity. }
  destruct (is 13 b) eqn:E13.
  { destruct r as [|b2 r2]; [|destruct (is 10 b2); discriminate]. intros _.
    exists [10%N]. left. cbn [app]. rewrite E13. eexists. reflexivity. }
  destruct (is 10 b) eqn:E10; [discriminate|].
  destruct (negb (tchar b)) eqn:Et.
  { destruct (allow_space_before_first_header_name hc && first && ws b) eqn:Esp.
    - destruct (span ws (b :: r)); discriminate.
    - intros H. destruct (ref_invalid_complete _ _ _ _ CRLF H) as [o Ho].
      exists [10%N]. right. exists LSkip, o. split; [discriminate|].
      change ((b :: r) ++ [10%N] ++ CRLF) with (b :: (r ++ 10%N :: CRLF)). cbn iota. rewrite E13, E10, Et, Esp.
      exact Ho. }
  destruct (span tchar (b :: r)) as [name r1] eqn:Es.
  destruct r1 as [|c r2].
  { intros _. exists (58%N :: CRLF). right.
    pose proof (span_all_fst tchar (b :: r) ltac:(rewrite Es; reflexivity)) as Hn. rewrite Es in Hn. cbn [fst] in Hn. subst name.
    change ((b :: r) ++ (58%N :: CRLF) ++ CRLF) with (b :: (r ++ 58%N :: CRLF ++ CRLF)). cbn iota. rewrite E13, E10, Et.
    change (b :: (r ++ 58%N :: CRLF ++ CRLF)) with ((b :: r) ++ 58%N :: CRLF ++ CRLF).
    rewrite (span_all_stop tchar (b :: r) (58%N :: CRLF ++ CRLF)); [|rewrite Es; reflexivity|reflexivity].
    cbn iota. change (is 58 58) with true. cbn iota. unfold ref_value. cbn [app ref_value_start].
    destruct (allow_obsolete_multiline_headers hc); cbn [rbind]; eexists; eexists; (split; [|reflexivity]); discriminate. }
  assert (Hsp : forall e, span tchar ((b :: r) ++ e) = (name, c :: r2 ++ e)) by (intros e; apply (span_ext _ _ _ _ _ _ Es)).
  assert (Hhead : forall (e : list N) (X : rres rline),
            (let (name0, r10) := span tchar ((b :: r) ++ e) in
             match r10 with
             | [] => RPart
             | c0 :: r20 =>
                 if is 58 c0 then ref_value hc (Sub off name0) (S (length name0 + off)) r20
                 else if allow_spaces_after_header_name hc && ws c0
                      then let (w, r3) := span ws r10 in
                           match r3 with
                           | [] => RPart
                           | c' :: r4 => if is 58 c' then ref_value hc (Sub off name0) (S (length w + (length name0 + off))) r4
                                         else ref_invalid (ignore_invalid_headers hc) HeaderName (length w + (length name0 + off)) r3
                           end
                      else ref_invalid (ignore_invalid_headers hc) HeaderName (length name0 + off) r10
             end) = X ->
            (if is 13 b then match r ++ e with [] => RPart | b2 :: r2' => if is 10 b2 then ROk LEnd (2 + off) r2' else RErr NewLine end
             else if is 10 b then ROk LEnd (S off) (r ++ e)
             else if negb (tchar b) then
               if allow_space_before_first_header_name hc && first && ws b
               then let (w, r') := span ws (b :: r ++ e) in ROk LSkip (length w + off) r'
               else ref_invalid (ignore_invalid_headers hc) HeaderName off (b :: r ++ e)
             else
               let (name0, r10) := span tchar (b :: r ++ e) in
               match r10 with
               | [] => RPart
               | c0 :: r20 =>
                   if is 58 c0 then ref_value hc (Sub off name0) (S (length name0 + off)) r20
                   else if allow_spaces_after_header_name hc && ws c0
                        then let (w, r3) := span ws r10 in
                             match r3 with
                             | [] => RPart
                             | c' :: r4 => if is 58 c' then ref_value hc (Sub off name0) (S (length w + (length name0 + off))) r4
                                           else ref_invalid (ignore_invalid_headers hc) HeaderName (length w + (length name0 + off)) r3
                             end
                        else ref_invalid (ignore_invalid_headers hc) HeaderName (length name0 + off) r10
               end) = X).
  { intros e X HX. rewrite E13, E10, Et. exact HX. }
  destruct (is 58 c) eqn:E58.
  { intros H. destruct (ref_value_complete _ _ _ H) as [t [x [o [Hx Ht]]]].
    exists t. right. exists x, o. split; [exact Hx|].
    change ((b :: r) ++ t ++ CRLF) with (b :: (r ++ t ++ CRLF)). cbn iota. apply Hhead.
    rewrite Hsp, E58. exact Ht. }
  destruct (allow_spaces_after_header_name hc && ws c) eqn:Esa.
  - destruct (span ws (c :: r2)) as [w r3] eqn:Ew. destruct r3 as [|c' r4].
    + intros _. exists (58%N :: CRLF). right.
      pose proof (span_all_fst ws (c :: r2) ltac:(rewrite Ew; reflexivity)) as Hn. rewrite Ew in Hn. cbn [fst] in Hn. subst w.
      change ((b :: r) ++ (58%N :: CRLF) ++ CRLF) with (b :: (r ++ 58%N :: CRLF ++ CRLF)). cbn iota.
      eexists; eexists. split; [|apply Hhead; rewrite Hsp, E58, Esa].
      2:{ change (c :: r2 ++ 58%N :: CRLF ++ CRLF) with ((c :: r2) ++ 58%N :: CRLF ++ CRLF).
          rewrite (span_all_stop ws (c :: r2) (58%N :: CRLF ++ CRLF)); [|rewrite Ew; reflexivity|reflexivity].
          change (is 58 58) with true. cbn iota. unfold ref_value. cbn [app ref_value_start].
          destruct (allow_obsolete_multiline_headers hc); cbn [rbind]; reflexivity. }
      destruct (allow_obsolete_multiline_headers hc); discriminate.
    + assert (Hw : forall e, span ws ((c :: r2) ++ e) = (w, c' :: r4 ++ e)) by (intros e; apply (span_ext _ _ _ _ _ _ Ew)).
      destruct (is 58 c') eqn:E58'.
      * intros H. destruct (ref_value_complete _ _ _ H) as [t [x [o [Hx Ht]]]].
        exists t. right. exists x, o. split; [exact Hx|].
        change ((b :: r) ++ t ++ CRLF) with (b :: (r ++ t ++ CRLF)). cbn iota. apply Hhead.
        rewrite Hsp, E58, Esa. change (c :: r2 ++ t ++ CRLF) with ((c :: r2) ++ t ++ CRLF). rewrite Hw, E58'. exact Ht.
      * intros H. destruct (ref_invalid_complete _ _ _ _ CRLF H) as [o Ho].
        exists [10%N]. right. exists LSkip, o. split; [discriminate|].
        change ((b :: r) ++ [10%N] ++ CRLF) with (b :: (r ++ [10%N] ++ CRLF)). cbn iota. apply Hhead.
        rewrite Hsp, E58, Esa. change (c :: r2 ++ [10%N] ++ CRLF) with ((c :: r2) ++ [10%N] ++ CRLF). rewrite Hw, E58'. exact Ho.
  - intros H. destruct (ref_invalid_complete _ _ _ _ CRLF H) as [o Ho].
    exists [10%N]. right. exists LSkip, o. split; [discriminate|].
    change ((b :: r) ++ [10%N] ++ CRLF) with (b :: (r ++ [10%N] ++ CRLF)). cbn iota. apply Hhead.
    rewrite Hsp, E58, Esa. exact Ho.
Qed.
End HdrComplete.

Definition good (st : status) : Prop := (exists n, st = Complete n) \/ st = Error TooManyHeaders.

Lemma block_on_crlf hc f cap hs off : 0 < f -> fst (ref_header_block hc f cap hs off CRLF) = Complete (2 + off).
Proof. destruct f; [lia|]. intros _. reflexivity. Qed.

Lemma ref_header_block_complete hc : forall f cap hs off l hs',
  length l < f -> ref_header_block hc f cap hs off l = (Partial, hs') ->
  exists t, forall f', length (l ++ t) < f' -> good (fst (ref_header_block hc f' cap hs off (l ++ t))).
Proof.
  induction f as [|f IH]; intros cap hs off l hs' Hf H; [lia|].
  cbn [ref_header_block] in H.
  pose proof (ref_header_line_adv hc (null hs) off l) as Hadv.
  pose proof (ref_header_line_complete hc (null hs) off l) as Hcomp.
  destruct (ref_header_line hc (null hs) off l) as [x o r| |e] eqn:El.
  - destruct Hadv as [k (Hk0 & Hk & -> & ->)].
    assert (Hlr : length (skipn k l) < f) by (rewrite skipn_length; lia).
    assert (Rec : forall hs0, x <> LEnd ->
              (match x with LHeader n v => Nat.ltb (length hs) cap = true /\ hs0 = hs ++ [(n, v)] | _ => hs0 = hs end) ->
              ref_header_block hc f cap hs0 (k + off) (skipn k l) = (Partial, hs') ->
              exists t, forall f', length (l ++ t) < f' -> good (fst (ref_header_block hc f' cap hs off (l ++ t)))).
    { intros hs0 Hx Hhs H0.
      destruct (skipn k l) as [|c0 r0] eqn:Er.
      + (* the line ended exactly at the end of the buffer: finish with the empty line *)
        exists CRLF. intros f' Hf'. destruct f' as [|f']; [lia|]. cbn [ref_header_block].
        pose proof (ref_header_line_stable CRLF hc (null hs) off l) as Hs. rewrite El in Hs. cbn [extends_l] in Hs.
        assert (Hl : ref_header_line hc (null hs) off (l ++ CRLF) = ROk x (k + off) CRLF).
        { destruct Hs as [(_ & _ & Hs)|Hs]; [apply Hs; reflexivity|exact Hs]. }
        rewrite Hl. rewrite app_length in Hf'. cbn [length] in Hf'.
        destruct x as [| |n v]; [congruence| |].
        * left. eexists. apply block_on_crlf. lia.
        * destruct Hhs as [Hc _]. rewrite Hc. left. eexists. apply block_on_crlf. lia.
      + destruct (IH _ _ _ _ _ Hlr H0) as [t Ht]. exists t.
        intros f' Hf'. destruct f' as [|f']; [lia|]. cbn [ref_header_block].
        pose proof (ref_header_line_stable t hc (null hs) off l) as Hs. rewrite El in Hs. cbn [extends_l] in Hs.
        destruct Hs as [(_ & Hnil & _)|Hs]; [discriminate|]. rewrite Hs.
        assert (Hlr' : length ((c0 :: r0) ++ t) < f').
        { rewrite app_length, <- Er, skipn_length. rewrite app_length in Hf'. lia. }
        destruct x as [| |n v]; [congruence| |].
        * subst hs0. apply Ht. exact Hlr'.
        * destruct Hhs as [Hc ->]. rewrite Hc. apply Ht. exact Hlr'. }
    destruct x as [| |n v]; [discriminate| |].
    + eapply Rec; [discriminate|reflexivity|exact H].
    + destruct (Nat.ltb (length hs) cap) eqn:Ec; [|discriminate].
      eapply Rec; [discriminate|split; reflexivity|exact H].
  - destruct (Hcomp eq_refl) as [t [[o Ho]|[x [o [Hx Ho]]]]].
    + exists t. intros f' Hf'. destruct f' as [|f']; [lia|]. cbn [ref_header_block]. rewrite Ho. left. eexists. reflexivity.
    + exists (t ++ CRLF). intros f' Hf'. destruct f' as [|f']; [lia|]. cbn [ref_header_block]. rewrite Ho.
      rewrite !app_length in Hf'. cbn [length] in Hf'.
      destruct x as [| |n v]; [congruence| |].
      * left. eexists. apply block_on_crlf. lia.
      * destruct (Nat.ltb (length hs) cap); [left; eexists; apply block_on_crlf; lia|right; reflexivity].
  - discriminate.
Qed.

Theorem ref_headers_complete hc cap off l hs :
  ref_headers hc cap off l = (Partial, hs) ->
  exists t, good (fst (ref_headers hc cap off (l ++ t))).
Proof.
  unfold ref_headers. intros H. apply ref_header_block_complete in H as [t Ht]; [|lia].
  exists t. apply Ht. lia.
Qed.
