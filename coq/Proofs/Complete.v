(* Proofs/Complete.v -- honest Partial (C11): whenever a reference parser answers Partial there is
   an explicit continuation on which it answers Complete -- or runs into one of the two deferred
   checks: header capacity (TooManyHeaders when the surplus header line completes) and UTF-8
   validity of the request target (Token at its terminating SP). *)
From Coq Require Import List NArith ZArith Lia Bool ZifyBool ZifyN ZifyNat.
From HV Require Import Cursor Scan Model Api Spec Oracle.
From HV.Proofs Require Import Base RefFacts Refine Entries Stable Clean.
Import ListNotations.

Notation CRLF := [13%N; 10%N].

Ltac bo := repeat first [ assumption | apply Forall_nil | (apply Forall_cons; [reflexivity|])
                        | (apply bytes_ok_app; split) | apply bytes_ok_skipn ].

Section HdrComplete.
Variable hc : hcfg.

Lemma ref_invalid_complete ign e off l R :
  ref_invalid ign e off l = RPart -> exists o, ref_invalid ign e off (l ++ 10%N :: R) = ROk LSkip o R.
Proof.
  unfold ref_invalid. destruct ign; cbn [negb]; [|discriminate].
  set (p := fun b => negb (is 13 b || is 10 b || is 0 b)).
  pose proof (span_stop p l) as Hst. pose proof (span_app p l) as Happ.
  destruct (span p l) as [junk r] eqn:Es. cbn [fst snd] in *.
  destruct r as [|b r1].
  - intros _. rewrite app_nil_r in Happ. subst junk.
    rewrite (span_all_stop p l (10%N :: R)); [|rewrite Es; reflexivity|reflexivity].
    eexists. reflexivity.
  - specialize (Hst b r1 eq_refl). destruct (is 0 b) eqn:E0; [discriminate|]. destruct (is 10 b) eqn:E10; [discriminate|].
    destruct r1 as [|b2 r2]; [|destruct (is 10 b2); discriminate]. intros _.
    rewrite (span_ext _ _ _ _ _ _ Es). cbn [app]. rewrite E0, E10. eexists. reflexivity.
Qed.

Lemma rvl_step_fold_cr voff racc off b b2 b3 tl :
  value_char b = false -> is 13 b = true -> is 10 b2 = true -> allow_obsolete_multiline_headers hc = true -> ws b3 = true ->
  ref_value_lines hc voff racc off (b :: b2 :: b3 :: tl) = ref_value_lines hc voff (10%N :: 13%N :: racc) (2 + off) (b3 :: tl).
Proof. intros Ev E13 E10 Ef Ew. cbn [ref_value_lines]. rewrite Ev, E13, E10, Ef, Ew. reflexivity. Qed.
Lemma rvl_step_fold_lf voff racc off b b3 tl :
  value_char b = false -> is 13 b = false -> is 10 b = true -> allow_obsolete_multiline_headers hc = true -> ws b3 = true ->
  ref_value_lines hc voff racc off (b :: b3 :: tl) = ref_value_lines hc voff (10%N :: racc) (S off) (b3 :: tl).
Proof. intros Ev E13 E10 Ef Ew. cbn [ref_value_lines]. rewrite Ev, E13, E10, Ef, Ew. reflexivity. Qed.
Lemma rvs_step_fold_cr off b b2 b3 tl :
  ws b = false -> value_char b = false -> is 13 b = true -> is 10 b2 = true -> allow_obsolete_multiline_headers hc = true -> ws b3 = true ->
  ref_value_start hc off (b :: b2 :: b3 :: tl) = ref_value_start hc (2 + off) (b3 :: tl).
Proof. intros Ewb Ev E13 E10 Ef Ew. cbn [ref_value_start]. rewrite Ewb, Ev, E13, E10, Ef, Ew. reflexivity. Qed.
Lemma rvs_step_fold_lf off b b3 tl :
  ws b = false -> value_char b = false -> is 13 b = false -> is 10 b = true -> allow_obsolete_multiline_headers hc = true -> ws b3 = true ->
  ref_value_start hc off (b :: b3 :: tl) = ref_value_start hc (S off) (b3 :: tl).
Proof. intros Ewb Ev E13 E10 Ef Ew. cbn [ref_value_start]. rewrite Ewb, Ev, E13, E10, Ef, Ew. reflexivity. Qed.

Lemma ref_value_lines_complete : forall n l voff racc off, length l <= n ->
  ref_value_lines hc voff racc off l = RPart ->
  exists t, bytes_ok t /\ exists x o, ref_value_lines hc voff racc off (l ++ t ++ CRLF) = ROk x o CRLF.
Proof.
  induction n as [|n IH]; intros l voff racc off Hn H.
  { destruct l; [|cbn [length] in Hn; lia]. exists CRLF. split; [bo|]. cbn [app ref_value_lines].
    destruct (allow_obsolete_multiline_headers hc); eexists; eexists; reflexivity. }
  destruct l as [|b r].
  { exists CRLF. split; [bo|]. cbn [app ref_value_lines].
    destruct (allow_obsolete_multiline_headers hc); eexists; eexists; reflexivity. }
  cbn [length] in Hn. cbn [ref_value_lines] in H.
  destruct (value_char b) eqn:Ev.
  { destruct (IH r voff (b :: racc) (S off) ltac:(lia) H) as [t [Hbt [x [o Ht]]]].
    exists t. split; [exact Hbt|]. exists x, o. cbn [app ref_value_lines]. rewrite Ev. exact Ht. }
  destruct (is 13 b) eqn:E13.
  { destruct r as [|b2 r2].
    { exists [10%N]. split; [bo|]. cbn [app ref_value_lines]. rewrite Ev, E13.
      destruct (allow_obsolete_multiline_headers hc); eexists; eexists; reflexivity. }
    destruct (is 10 b2) eqn:E10; cbn [negb] in H; [|discriminate].
    destruct (allow_obsolete_multiline_headers hc) eqn:Ef; [|discriminate].
    destruct r2 as [|b3 r3].
    { exists []. split; [bo|]. cbn [app ref_value_lines]. rewrite Ev, E13, E10, Ef. cbn [negb]. eexists; eexists; reflexivity. }
    destruct (ws b3) eqn:Ew; [|discriminate].
    destruct (IH (b3 :: r3) voff (10%N :: 13%N :: racc) (2 + off) ltac:(cbn [length] in *; lia) H) as [t [Hbt [x [o Ht]]]].
    exists t. split; [exact Hbt|]. exists x, o. change ((b :: b2 :: b3 :: r3) ++ t ++ CRLF) with (b :: b2 :: b3 :: (r3 ++ t ++ CRLF)).
    rewrite rvl_step_fold_cr by assumption. exact Ht. }
  destruct (is 10 b) eqn:E10.
  { destruct (allow_obsolete_multiline_headers hc) eqn:Ef; [|discriminate].
    destruct r as [|b3 r3].
    { exists []. split; [bo|]. cbn [app ref_value_lines]. rewrite Ev, E13, E10, Ef. eexists; eexists; reflexivity. }
    destruct (ws b3) eqn:Ew; [|discriminate].
    destruct (IH (b3 :: r3) voff (10%N :: racc) (S off) ltac:(lia) H) as [t [Hbt [x [o Ht]]]].
    exists t. split; [exact Hbt|]. exists x, o. change ((b :: b3 :: r3) ++ t ++ CRLF) with (b :: b3 :: (r3 ++ t ++ CRLF)).
    rewrite rvl_step_fold_lf by assumption. exact Ht. }
  destruct (ref_invalid (ignore_invalid_headers hc) HeaderValue off (b :: r)) as [u o' r'| |e'] eqn:Ei; cbn [rbind] in H; try discriminate.
  destruct (ref_invalid_complete _ _ _ _ CRLF Ei) as [o Ho].
  exists [10%N]. split; [bo|]. eexists; exists o. change ((b :: r) ++ [10%N] ++ CRLF) with (b :: (r ++ 10%N :: CRLF)).
  cbn [ref_value_lines]. rewrite Ev, E13, E10. change (b :: (r ++ 10%N :: CRLF)) with ((b :: r) ++ 10%N :: CRLF).
  rewrite Ho. reflexivity.
Qed.

Lemma ref_value_start_complete : forall n l off, length l <= n ->
  ref_value_start hc off l = RPart ->
  exists t, bytes_ok t /\ exists x o, ref_value_start hc off (l ++ t ++ CRLF) = ROk x o CRLF.
Proof.
  induction n as [|n IH]; intros l off Hn H.
  { destruct l; [|cbn [length] in Hn; lia]. exists CRLF. split; [bo|]. cbn [app ref_value_start].
    destruct (allow_obsolete_multiline_headers hc); eexists; eexists; reflexivity. }
  destruct l as [|b r].
  { exists CRLF. split; [bo|]. cbn [app ref_value_start].
    destruct (allow_obsolete_multiline_headers hc); eexists; eexists; reflexivity. }
  cbn [length] in Hn. cbn [ref_value_start] in H.
  destruct (ws b) eqn:Ewb.
  { destruct (IH r (S off) ltac:(lia) H) as [t [Hbt [x [o Ht]]]].
    exists t. split; [exact Hbt|]. exists x, o. cbn [app ref_value_start]. rewrite Ewb. exact Ht. }
  destruct (value_char b) eqn:Ev.
  { destruct (ref_value_lines_complete (S (length r)) (b :: r) off [] off (le_n _) H) as [t [Hbt [x [o Ht]]]].
    exists t. split; [exact Hbt|]. exists x, o. change ((b :: r) ++ t ++ CRLF) with (b :: (r ++ t ++ CRLF)). cbn [ref_value_start]. rewrite Ewb, Ev. exact Ht. }
  destruct (is 13 b) eqn:E13.
  { destruct r as [|b2 r2].
    { exists [10%N]. split; [bo|]. cbn [app ref_value_start]. rewrite Ewb, Ev, E13.
      destruct (allow_obsolete_multiline_headers hc); eexists; eexists; reflexivity. }
    destruct (is 10 b2) eqn:E10; cbn [negb] in H; [|discriminate].
    destruct (allow_obsolete_multiline_headers hc) eqn:Ef; [|discriminate].
    destruct r2 as [|b3 r3].
    { exists []. split; [bo|]. cbn [app ref_value_start]. rewrite Ewb, Ev, E13, E10, Ef. cbn [negb]. eexists; eexists; reflexivity. }
    destruct (ws b3) eqn:Ew; [|discriminate].
    destruct (IH (b3 :: r3) (2 + off) ltac:(cbn [length] in *; lia) H) as [t [Hbt [x [o Ht]]]].
    exists t. split; [exact Hbt|]. exists x, o. change ((b :: b2 :: b3 :: r3) ++ t ++ CRLF) with (b :: b2 :: b3 :: (r3 ++ t ++ CRLF)).
    rewrite rvs_step_fold_cr by assumption. exact Ht. }
  destruct (is 10 b) eqn:E10.
  { destruct (allow_obsolete_multiline_headers hc) eqn:Ef; [|discriminate].
    destruct r as [|b3 r3].
    { exists []. split; [bo|]. cbn [app ref_value_start]. rewrite Ewb, Ev, E13, E10, Ef. eexists; eexists; reflexivity. }
    destruct (ws b3) eqn:Ew; [|discriminate].
    destruct (IH (b3 :: r3) (S off) ltac:(lia) H) as [t [Hbt [x [o Ht]]]].
    exists t. split; [exact Hbt|]. exists x, o. change ((b :: b3 :: r3) ++ t ++ CRLF) with (b :: b3 :: (r3 ++ t ++ CRLF)).
    rewrite rvs_step_fold_lf by assumption. exact Ht. }
  destruct (ref_invalid (ignore_invalid_headers hc) HeaderValue off (b :: r)) as [u o' r'| |e'] eqn:Ei; cbn [rbind] in H; try discriminate.
  destruct (ref_invalid_complete _ _ _ _ CRLF Ei) as [o Ho].
  exists [10%N]. split; [bo|]. eexists; exists o. change ((b :: r) ++ [10%N] ++ CRLF) with (b :: (r ++ 10%N :: CRLF)).
  cbn [ref_value_start]. rewrite Ewb, Ev, E13, E10. change (b :: (r ++ 10%N :: CRLF)) with ((b :: r) ++ 10%N :: CRLF).
  rewrite Ho. reflexivity.
Qed.

Lemma ref_value_complete name off l :
  ref_value hc name off l = RPart ->
  exists t, bytes_ok t /\ exists x o, x <> LEnd /\ ref_value hc name off (l ++ t ++ CRLF) = ROk x o CRLF.
Proof.
  unfold ref_value. intros H.
  destruct (ref_value_start hc off l) as [v o r| |e] eqn:Es; cbn [rbind] in H; try discriminate.
  destruct (ref_value_start_complete (length l) l off (le_n _) Es) as [t [Hbt [x [o Ht]]]].
  exists t. split; [exact Hbt|]. rewrite Ht. cbn [rbind]. eexists; exists o. split; [|reflexivity]. destruct (dropped x); discriminate.
Qed.

(* a header line that is not finished: some continuation finishes the head right there, or finishes
   the line (as a stored or a skipped one) in front of the final empty line *)
Lemma ref_header_line_complete first off l :
  ref_header_line hc first off l = RPart ->
  exists t, bytes_ok t /\
           ((exists o, ref_header_line hc first off (l ++ t) = ROk LEnd o []) \/
            (exists x o, x <> LEnd /\ ref_header_line hc first off (l ++ t ++ CRLF) = ROk x o CRLF)).
Proof.
  unfold ref_header_line. destruct l as [|b r].
  { intros _. exists CRLF. split; [bo|]. left. eexists. reflexivity. }
  destruct (is 13 b) eqn:E13.
  { destruct r as [|b2 r2]; [|destruct (is 10 b2); discriminate]. intros _.
    exists [10%N]. split; [bo|]. left. cbn [app]. rewrite E13. eexists. reflexivity. }
  destruct (is 10 b) eqn:E10; [discriminate|].
  destruct (negb (tchar b)) eqn:Et.
  { destruct (allow_space_before_first_header_name hc && first && ws b) eqn:Esp.
    - destruct (span ws (b :: r)); discriminate.
    - intros H. destruct (ref_invalid_complete _ _ _ _ CRLF H) as [o Ho].
      exists [10%N]. split; [bo|]. right. exists LSkip, o. split; [discriminate|].
      change ((b :: r) ++ [10%N] ++ CRLF) with (b :: (r ++ 10%N :: CRLF)). cbn iota. rewrite E13, E10, Et, Esp.
      exact Ho. }
  destruct (span tchar (b :: r)) as [name r1] eqn:Es.
  destruct r1 as [|c r2].
  { intros _. exists (58%N :: CRLF). split; [bo|]. right.
    pose proof (span_all_fst tchar (b :: r) ltac:(rewrite Es; reflexivity)) as Hn. rewrite Es in Hn. cbn [fst] in Hn. subst name.
    change ((b :: r) ++ (58%N :: CRLF) ++ CRLF) with (b :: (r ++ 58%N :: CRLF ++ CRLF)). cbn iota. rewrite E13, E10, Et.
    change (b :: (r ++ 58%N :: CRLF ++ CRLF)) with ((b :: r) ++ 58%N :: CRLF ++ CRLF).
    rewrite (span_all_stop tchar (b :: r) (58%N :: CRLF ++ CRLF)); [|rewrite Es; reflexivity|reflexivity].
    cbn iota. change (is 58 58) with true. cbn iota. unfold ref_value. cbn [app ref_value_start].
    destruct (allow_obsolete_multiline_headers hc); cbn [rbind]; eexists; eexists; (split; [|reflexivity]); discriminate. }
  assert (Hsp : forall e, span tchar ((b :: r) ++ e) = (name, c :: r2 ++ e)) by (intros e; apply (span_ext _ _ _ _ _ _ Es)).
  assert (Hhead : forall (e : list N) (X : rres rline),
            (let (name0, r10) := span tchar ((b :: r) ++ e) in
             match r10 with
             | [] => RPart
             | c0 :: r20 =>
                 if is 58 c0 then ref_value hc (Sub off name0) (S (length name0 + off)) r20
                 else if allow_spaces_after_header_name hc && ws c0
                      then let (w, r3) := span ws r10 in
                           match r3 with
                           | [] => RPart
                           | c' :: r4 => if is 58 c' then ref_value hc (Sub off name0) (S (length w + (length name0 + off))) r4
                                         else ref_invalid (ignore_invalid_headers hc) HeaderName (length w + (length name0 + off)) r3
                           end
                      else ref_invalid (ignore_invalid_headers hc) HeaderName (length name0 + off) r10
             end) = X ->
            (if is 13 b then match r ++ e with [] => RPart | b2 :: r2' => if is 10 b2 then ROk LEnd (2 + off) r2' else RErr NewLine end
             else if is 10 b then ROk LEnd (S off) (r ++ e)
             else if negb (tchar b) then
               if allow_space_before_first_header_name hc && first && ws b
               then let (w, r') := span ws (b :: r ++ e) in ROk LSkip (length w + off) r'
               else ref_invalid (ignore_invalid_headers hc) HeaderName off (b :: r ++ e)
             else
               let (name0, r10) := span tchar (b :: r ++ e) in
               match r10 with
               | [] => RPart
               | c0 :: r20 =>
                   if is 58 c0 then ref_value hc (Sub off name0) (S (length name0 + off)) r20
                   else if allow_spaces_after_header_name hc && ws c0
                        then let (w, r3) := span ws r10 in
                             match r3 with
                             | [] => RPart
                             | c' :: r4 => if is 58 c' then ref_value hc (Sub off name0) (S (length w + (length name0 + off))) r4
                                           else ref_invalid (ignore_invalid_headers hc) HeaderName (length w + (length name0 + off)) r3
                             end
                        else ref_invalid (ignore_invalid_headers hc) HeaderName (length name0 + off) r10
               end) = X).
  { intros e X HX. rewrite E13, E10, Et. exact HX. }
  destruct (is 58 c) eqn:E58.
  { intros H. destruct (ref_value_complete _ _ _ H) as [t [Hbt [x [o [Hx Ht]]]]].
    exists t. split; [exact Hbt|]. right. exists x, o. split; [exact Hx|].
    change ((b :: r) ++ t ++ CRLF) with (b :: (r ++ t ++ CRLF)). cbn iota. apply Hhead.
    rewrite Hsp, E58. exact Ht. }
  destruct (allow_spaces_after_header_name hc && ws c) eqn:Esa.
  - destruct (span ws (c :: r2)) as [w r3] eqn:Ew. destruct r3 as [|c' r4].
    + intros _. exists (58%N :: CRLF). split; [bo|]. right.
      pose proof (span_all_fst ws (c :: r2) ltac:(rewrite Ew; reflexivity)) as Hn. rewrite Ew in Hn. cbn [fst] in Hn. subst w.
      change ((b :: r) ++ (58%N :: CRLF) ++ CRLF) with (b :: (r ++ 58%N :: CRLF ++ CRLF)). cbn iota.
      eexists; eexists. split; [|apply Hhead; rewrite Hsp, E58, Esa].
      2:{ change (c :: r2 ++ 58%N :: CRLF ++ CRLF) with ((c :: r2) ++ 58%N :: CRLF ++ CRLF).
          rewrite (span_all_stop ws (c :: r2) (58%N :: CRLF ++ CRLF)); [|rewrite Ew; reflexivity|reflexivity].
          change (is 58 58) with true. cbn iota. unfold ref_value. cbn [app ref_value_start].
          destruct (allow_obsolete_multiline_headers hc); cbn [rbind]; reflexivity. }
      destruct (allow_obsolete_multiline_headers hc); discriminate.
    + assert (Hw : forall e, span ws ((c :: r2) ++ e) = (w, c' :: r4 ++ e)) by (intros e; apply (span_ext _ _ _ _ _ _ Ew)).
      destruct (is 58 c') eqn:E58'.
      * intros H. destruct (ref_value_complete _ _ _ H) as [t [Hbt [x [o [Hx Ht]]]]].
        exists t. split; [exact Hbt|]. right. exists x, o. split; [exact Hx|].
        change ((b :: r) ++ t ++ CRLF) with (b :: (r ++ t ++ CRLF)). cbn iota. apply Hhead.
        rewrite Hsp, E58, Esa. change (c :: r2 ++ t ++ CRLF) with ((c :: r2) ++ t ++ CRLF). rewrite Hw, E58'. exact Ht.
      * intros H. destruct (ref_invalid_complete _ _ _ _ CRLF H) as [o Ho].
        exists [10%N]. split; [bo|]. right. exists LSkip, o. split; [discriminate|].
        change ((b :: r) ++ [10%N] ++ CRLF) with (b :: (r ++ [10%N] ++ CRLF)). cbn iota. apply Hhead.
        rewrite Hsp, E58, Esa. change (c :: r2 ++ [10%N] ++ CRLF) with ((c :: r2) ++ [10%N] ++ CRLF). rewrite Hw, E58'. exact Ho.
  - intros H. destruct (ref_invalid_complete _ _ _ _ CRLF H) as [o Ho].
    exists [10%N]. split; [bo|]. right. exists LSkip, o. split; [discriminate|].
    change ((b :: r) ++ [10%N] ++ CRLF) with (b :: (r ++ [10%N] ++ CRLF)). cbn iota. apply Hhead.
    rewrite Hsp, E58, Esa. exact Ho.
Qed.
End HdrComplete.

Definition good (st : status) : Prop := (exists n, st = Complete n) \/ st = Error TooManyHeaders.

Lemma block_on_crlf hc f cap hs off : 0 < f -> fst (ref_header_block hc f cap hs off CRLF) = Complete (2 + off).
Proof. destruct f; [lia|]. intros _. reflexivity. Qed.

Lemma ref_header_block_complete hc : forall f cap hs off l hs',
  length l < f -> ref_header_block hc f cap hs off l = (Partial, hs') ->
  exists t, bytes_ok t /\ forall f', length (l ++ t) < f' -> good (fst (ref_header_block hc f' cap hs off (l ++ t))).
Proof.
  induction f as [|f IH]; intros cap hs off l hs' Hf H; [lia|].
  cbn [ref_header_block] in H.
  pose proof (ref_header_line_adv hc (null hs) off l) as Hadv.
  pose proof (ref_header_line_complete hc (null hs) off l) as Hcomp.
  destruct (ref_header_line hc (null hs) off l) as [x o r| |e] eqn:El.
  - destruct Hadv as [k (Hk0 & Hk & -> & ->)].
    assert (Hlr : length (skipn k l) < f) by (rewrite skipn_length; lia).
    assert (Rec : forall hs0, x <> LEnd ->
              (match x with LHeader n v => Nat.ltb (length hs) cap = true /\ hs0 = hs ++ [(n, v)] | _ => hs0 = hs end) ->
              ref_header_block hc f cap hs0 (k + off) (skipn k l) = (Partial, hs') ->
              exists t, bytes_ok t /\ forall f', length (l ++ t) < f' -> good (fst (ref_header_block hc f' cap hs off (l ++ t)))).
    { intros hs0 Hx Hhs H0.
      destruct (skipn k l) as [|c0 r0] eqn:Er.
      + (* the line ended exactly at the end of the buffer: finish with the empty line *)
        exists CRLF. split; [bo|]. intros f' Hf'. destruct f' as [|f']; [lia|]. cbn [ref_header_block].
        pose proof (ref_header_line_stable CRLF hc (null hs) off l) as Hs. rewrite El in Hs. cbn [extends_l] in Hs.
        assert (Hl : ref_header_line hc (null hs) off (l ++ CRLF) = ROk x (k + off) CRLF).
        { destruct Hs as [(_ & _ & Hs)|Hs]; [apply Hs; reflexivity|exact Hs]. }
        rewrite Hl. rewrite app_length in Hf'. cbn [length] in Hf'.
        destruct x as [| |n v]; [congruence| |].
        * left. eexists. apply block_on_crlf. lia.
        * destruct Hhs as [Hc _]. rewrite Hc. left. eexists. apply block_on_crlf. lia.
      + destruct (IH _ _ _ _ _ Hlr H0) as [t [Hbt Ht]]. exists t. split; [exact Hbt|].
        intros f' Hf'. destruct f' as [|f']; [lia|]. cbn [ref_header_block].
        pose proof (ref_header_line_stable t hc (null hs) off l) as Hs. rewrite El in Hs. cbn [extends_l] in Hs.
        destruct Hs as [(_ & Hnil & _)|Hs]; [discriminate|]. rewrite Hs.
        assert (Hlr' : length ((c0 :: r0) ++ t) < f').
        { rewrite app_length, <- Er, skipn_length. rewrite app_length in Hf'. lia. }
        destruct x as [| |n v]; [congruence| |].
        * subst hs0. apply Ht. exact Hlr'.
        * destruct Hhs as [Hc ->]. rewrite Hc. apply Ht. exact Hlr'. }
    destruct x as [| |n v]; [discriminate| |].
    + eapply Rec; [discriminate|reflexivity|exact H].
    + destruct (Nat.ltb (length hs) cap) eqn:Ec; [|discriminate].
      eapply Rec; [discriminate|split; reflexivity|exact H].
  - destruct (Hcomp eq_refl) as [t [Hbt [[o Ho]|[x [o [Hx Ho]]]]]].
    + exists t. split; [exact Hbt|]. intros f' Hf'. destruct f' as [|f']; [lia|]. cbn [ref_header_block]. rewrite Ho. left. eexists. reflexivity.
    + exists (t ++ CRLF). split; [bo|]. intros f' Hf'. destruct f' as [|f']; [lia|]. cbn [ref_header_block]. rewrite Ho.
      rewrite !app_length in Hf'. cbn [length] in Hf'.
      destruct x as [| |n v]; [congruence| |].
      * left. eexists. apply block_on_crlf. lia.
      * destruct (Nat.ltb (length hs) cap); [left; eexists; apply block_on_crlf; lia|right; reflexivity].
  - discriminate.
Qed.

Theorem ref_headers_complete hc cap off l hs :
  ref_headers hc cap off l = (Partial, hs) ->
  exists t, bytes_ok t /\ good (fst (ref_headers hc cap off (l ++ t))).
Proof.
  unfold ref_headers. intros H. apply ref_header_block_complete in H as [t [Hbt Ht]]; [|lia].
  exists t. split; [exact Hbt|]. apply Ht. lia.
Qed.

(* ================= start lines and whole messages ================= *)

(* the buffer ends in a run of target bytes that is not valid UTF-8: the deferred check *)
Definition bad_target (l : list N) : Prop :=
  exists pre t, l = pre ++ t /\ t <> [] /\ snd (span uri_char t) = [] /\ utf8_valid t = false.

Definition okx (X : Prop) (x : rres unit) : Prop :=
  (exists o r, x = ROk tt o r) \/ x = RErr TooManyHeaders \/ (x = RErr Token /\ X).

Definition Comp (K : nat -> list N -> rres unit) : Prop :=
  forall off l, K off l = RPart -> exists ext, bytes_ok ext /\ okx (bad_target l) (K off (l ++ ext)).

Lemma bad_target_suffix k l : bad_target (skipn k l) -> bad_target l.
Proof.
  intros [pre [t (E & H)]]. exists (firstn k l ++ pre), t. split; [|exact H].
  rewrite <- app_assoc, <- E. symmetry. apply firstn_skipn.
Qed.

Lemma okx_mono (X Y : Prop) x : (X -> Y) -> okx X x -> okx Y x.
Proof. intros H [H1|[H1|[H1 H2]]]; [left|right; left|right; right]; auto. Qed.

Lemma comp_bind {A} (s : nat -> list N -> rres A) (g : A -> nat -> list N -> rres unit) :
  (forall ext off l, extends ext (s off l) (s off (l ++ ext))) ->
  (forall off l, advances0 off l (s off l)) ->
  (forall a, Comp (g a)) ->
  (forall off l, s off l = RPart -> exists ext, bytes_ok ext /\ okx (bad_target l) (rbind (s off (l ++ ext)) g)) ->
  Comp (fun off l => rbind (s off l) g).
Proof.
  intros Hst Hadv Hg Hs off l H. specialize (Hadv off l).
  destruct (s off l) as [a o r| |e] eqn:E; cbn [rbind] in H.
  - destruct (Hg a o r H) as [ext [Hbe Hok]]. exists ext. split; [exact Hbe|]. specialize (Hst ext off l). rewrite E in Hst. cbn [extends] in Hst.
    rewrite Hst. cbn [rbind]. eapply okx_mono; [|exact Hok].
    destruct Hadv as [k (_ & _ & ->)]. apply bad_target_suffix.
  - apply Hs. exact E.
  - discriminate.
Qed.

Definition st_res (st : status) : rres unit :=
  match st with Complete n => ROk tt n [] | Partial => RPart | Error e => RErr e | Faulted _ => RPart end.

Definition K5 hc cap : nat -> list N -> rres unit := fun o l => st_res (fst (ref_headers hc cap o l)).

Lemma K5_comp hc cap : Comp (K5 hc cap).
Proof.
  intros off l H. unfold K5 in *. destruct (ref_headers hc cap off l) as [st hs] eqn:E. cbn [fst] in H.
  destruct st; try discriminate.
  - destruct (ref_headers_complete _ _ _ _ _ E) as [t [Hbt [[n Hn]|Ht]]]; exists t; (split; [exact Hbt|]).
    + left. rewrite Hn. eexists; eexists; reflexivity.
    + right; left. rewrite Ht. reflexivity.
  - exfalso. eapply (ref_headers_no_fault hc cap off l). rewrite E. reflexivity.
Qed.

Notation TAIL2 := [13%N; 10%N; 13%N; 10%N].
Lemma K5_crlf hc cap o : K5 hc cap o CRLF = ROk tt (2 + o) [].
Proof. reflexivity. Qed.

(* ---- line end ---- *)
Definition K4 hc cap : nat -> list N -> rres unit := fun o l => rbind (ref_eol NewLine o l) (fun _ => K5 hc cap).
Lemma eol_part e off l : ref_eol e off l = RPart ->
  exists t, bytes_ok t /\ ref_eol e off (l ++ t ++ CRLF) = ROk tt (length (l ++ t) + off) CRLF.
Proof.
  unfold ref_eol. destruct l as [|b r]; [intros _; exists CRLF; split; [bo|reflexivity]|].
  destruct (is 13 b) eqn:E13; [|destruct (is 10 b); discriminate].
  destruct r as [|b2 r2]; [|destruct (is 10 b2); discriminate]. intros _. exists [10%N]. split; [bo|]. cbn [app]. rewrite E13. reflexivity.
Qed.
Lemma K4_comp hc cap : Comp (K4 hc cap).
Proof.
  apply comp_bind.
  - intros. apply ref_eol_stable.
  - intros. apply advances_weaken. apply ref_eol_adv.
  - intros _. apply K5_comp.
  - intros off l H. destruct (eol_part _ _ _ H) as [t [Hbt Ht]]. exists (t ++ CRLF). split; [bo|]. rewrite Ht. cbn [rbind]. left. eexists; eexists; reflexivity.
Qed.
Lemma K4_tail hc cap o : K4 hc cap o TAIL2 = ROk tt (4 + o) [].
Proof. reflexivity. Qed.

(* ---- version ---- *)
Lemma is_prefix_split : forall a b, is_prefix a b = true -> b = a ++ skipn (length a) b.
Proof.
  induction a as [|x a IH]; intros b H; [reflexivity|]. destruct b as [|y b]; [discriminate|].
  cbn [is_prefix] in H. apply andb_prop in H as [H1 H2]. apply N.eqb_eq in H1. subst y.
  cbn [length skipn app]. f_equal. apply IH. exact H2.
Qed.
Lemma take_none_short : forall n (l : list N), take n l = None -> length l < n.
Proof.
  induction n as [|n IH]; intros l H; [discriminate|]. destruct l as [|x l]; [cbn; lia|].
  cbn [take] in H. destruct (take n l) eqn:E; [discriminate|]. apply IH in E. cbn [length]. lia.
Qed.
Lemma version_part off l : ref_version off l = RPart ->
  exists t, bytes_ok t /\ forall R, ref_version off (l ++ t ++ R) = ROk 1%N (8 + off) R.
Proof.
  unfold ref_version. destruct (take 8 l) eqn:Et.
  { destruct (list_eqb _ _); [discriminate|]. destruct (list_eqb _ _); discriminate. }
  destruct (is_prefix l HTTP1dot) eqn:Ep; [|discriminate]. intros _.
  exists (skipn (length l) HTTP1dot ++ [49%N]).
  split; [apply bytes_ok_app; split; [apply bytes_ok_skipn; unfold HTTP1dot|]; bo|]. intros R.
  rewrite <- app_assoc. rewrite (app_assoc l). rewrite <- (is_prefix_split _ _ Ep). reflexivity.
Qed.
Definition K3v hc cap : nat -> list N -> rres unit := fun o l => rbind (ref_version o l) (fun _ => K4 hc cap).
Lemma K3v_comp hc cap : Comp (K3v hc cap).
Proof.
  apply comp_bind.
  - intros. apply ref_version_stable.
  - intros. apply advances_weaken. apply ref_version_adv.
  - intros _. apply K4_comp.
  - intros off l H. destruct (version_part _ _ H) as [t [Hbt Ht]]. exists (t ++ TAIL2). split; [bo|]. rewrite Ht. cbn [rbind]. left. eexists; eexists; reflexivity.
Qed.
Notation VTAIL := [72; 84; 84; 80; 47; 49; 46; 49; 13; 10; 13; 10]%N.
Lemma K3v_tail hc cap o : K3v hc cap o VTAIL = ROk tt (12 + o) [].
Proof. reflexivity. Qed.

(* ---- optional run of spaces ---- *)
Lemma spaces_part ms off l : ref_spaces ms off l = RPart ->
  forall c R, is 32 c = false -> ref_spaces ms off (l ++ c :: R) = ROk tt (length l + off) (c :: R).
Proof.
  unfold ref_spaces. destruct ms; [|discriminate]. destruct (span (is 32) l) as [s r] eqn:Es.
  destruct r; [|discriminate]. intros _ c R Hc.
  rewrite (span_all_stop (is 32) l (c :: R)); [reflexivity|rewrite Es; reflexivity|exact Hc].
Qed.
Definition K3 ms hc cap : nat -> list N -> rres unit := fun o l => rbind (ref_spaces ms o l) (fun _ => K3v hc cap).
Lemma K3_comp ms hc cap : Comp (K3 ms hc cap).
Proof.
  apply comp_bind.
  - intros. apply ref_spaces_stable.
  - intros. apply ref_spaces_adv.
  - intros _. apply K3v_comp.
  - intros off l H. exists VTAIL. split; [bo|]. rewrite (spaces_part _ _ _ H) by reflexivity. cbn [rbind]. left. eexists; eexists; reflexivity.
Qed.
Lemma K3_tail ms hc cap o : K3 ms hc cap o VTAIL = ROk tt (12 + o) [].
Proof. destruct ms; reflexivity. Qed.

(* ---- target ---- *)
Definition K2t ms hc cap : nat -> list N -> rres unit := fun o l => rbind (ref_target o l) (fun _ => K3 ms hc cap).
Lemma K2t_comp ms hc cap : Comp (K2t ms hc cap).
Proof.
  apply comp_bind.
  - intros. apply ref_target_stable.
  - intros. apply advances_weaken. apply ref_target_adv.
  - intros _. apply K3_comp.
  - intros off l H. unfold ref_target in H. destruct (span uri_char l) as [t r] eqn:Es. destruct r as [|b r'].
    2:{ destruct (negb (is 32 b)); [discriminate|]. destruct (null t); [discriminate|]. destruct (negb (utf8_valid t)); discriminate. }
    clear H. pose proof (span_all_fst uri_char l ltac:(rewrite Es; reflexivity)) as Hf. rewrite Es in Hf. cbn [fst] in Hf. subst t.
    destruct l as [|x l'].
    + exists (47%N :: 32%N :: VTAIL). split; [bo|]. cbn [app]. left. destruct ms; eexists; eexists; reflexivity.
    + exists (32%N :: VTAIL). split; [bo|]. unfold ref_target.
      rewrite (span_all_stop uri_char (x :: l') (32%N :: VTAIL)); [|rewrite Es; reflexivity|reflexivity].
      change (negb (is 32 32)) with false. cbn iota. cbn [null].
      destruct (utf8_valid (x :: l')) eqn:Eu; cbn [negb rbind].
      * left. rewrite K3_tail. eexists; eexists; reflexivity.
      * right; right. split; [reflexivity|]. exists [], (x :: l'). repeat split; [discriminate|rewrite Es; reflexivity|exact Eu].
Qed.
Notation TTAIL := (47%N :: 32%N :: VTAIL).
Lemma K2t_tail ms hc cap o : K2t ms hc cap o TTAIL = ROk tt (14 + o) [].
Proof. destruct ms; reflexivity. Qed.
Definition K2 ms hc cap : nat -> list N -> rres unit := fun o l => rbind (ref_spaces ms o l) (fun _ => K2t ms hc cap).
Lemma K2_comp ms hc cap : Comp (K2 ms hc cap).
Proof.
  apply comp_bind.
  - intros. apply ref_spaces_stable.
  - intros. apply ref_spaces_adv.
  - intros _. apply K2t_comp.
  - intros off l H. exists TTAIL. split; [bo|]. rewrite (spaces_part _ _ _ H) by reflexivity. cbn [rbind]. left. rewrite K2t_tail. eexists; eexists; reflexivity.
Qed.
Lemma K2_tail ms hc cap o : K2 ms hc cap o TTAIL = ROk tt (14 + o) [].
Proof. destruct ms; reflexivity. Qed.

(* ---- method ---- *)
Definition K1 ms hc cap : nat -> list N -> rres unit := fun o l => rbind (ref_method o l) (fun _ => K2 ms hc cap).
Lemma K1_comp ms hc cap : Comp (K1 ms hc cap).
Proof.
  apply comp_bind.
  - intros. apply ref_method_stable.
  - intros. apply advances_weaken. apply ref_method_adv.
  - intros _. apply K2_comp.
  - intros off l H. unfold ref_method in H. destruct (span tchar l) as [m r] eqn:Es. destruct r as [|b r'].
    2:{ destruct (null m); [discriminate|]. destruct (is 32 b); discriminate. }
    clear H. pose proof (span_all_fst tchar l ltac:(rewrite Es; reflexivity)) as Hf. rewrite Es in Hf. cbn [fst] in Hf. subst m.
    destruct l as [|x l'].
    + exists (71%N :: 32%N :: TTAIL). split; [bo|]. cbn [app]. left. destruct ms; eexists; eexists; reflexivity.
    + exists (32%N :: TTAIL). split; [bo|]. unfold ref_method.
      rewrite (span_all_stop tchar (x :: l') (32%N :: TTAIL)); [|rewrite Es; reflexivity|reflexivity].
      cbn [null]. change (is 32 32) with true. cbn iota. cbn [rbind]. left. rewrite K2_tail. eexists; eexists; reflexivity.
Qed.
Notation MTAIL := (71%N :: 32%N :: TTAIL).
Lemma K1_tail ms hc cap o : K1 ms hc cap o MTAIL = ROk tt (16 + o) [].
Proof. destruct ms; reflexivity. Qed.

(* ---- leading empty lines ---- *)
Lemma empty_lines_part : forall n l off, length l <= n -> ref_empty_lines off l = RPart ->
  exists t, bytes_ok t /\ exists o, forall c R, is 13 c = false -> is 10 c = false -> ref_empty_lines off (l ++ t ++ c :: R) = ROk tt o (c :: R).
Proof.
  induction n as [|n IH]; intros l off Hn H.
  { destruct l; [|cbn [length] in Hn; lia]. exists []. split; [bo|]. exists off. intros c R H13 H10. cbn [app ref_empty_lines]. rewrite H13, H10. reflexivity. }
  destruct l as [|b r].
  { exists []. split; [bo|]. exists off. intros c R H13 H10. cbn [app ref_empty_lines]. rewrite H13, H10. reflexivity. }
  cbn [length] in Hn. cbn [ref_empty_lines] in H. destruct (is 13 b) eqn:E13.
  - destruct r as [|b2 r2].
    + exists [10%N]. split; [bo|]. exists (2 + off). intros c R H13 H10. cbn [app ref_empty_lines]. rewrite E13. change (is 10 10) with true. cbn iota.
      rewrite H13, H10. reflexivity.
    + destruct (is 10 b2) eqn:E10; [|discriminate].
      destruct (IH r2 (2 + off) ltac:(cbn [length] in *; lia) H) as [t [Hbt [o Ht]]]. exists t. split; [exact Hbt|]. exists o. intros c R H13 H10.
      cbn [app ref_empty_lines]. rewrite E13, E10. apply Ht; assumption.
  - destruct (is 10 b) eqn:E10; [|discriminate].
    destruct (IH r (1 + off) ltac:(lia) H) as [t [Hbt [o Ht]]]. exists t. split; [exact Hbt|]. exists o. intros c R H13 H10.
    cbn [app ref_empty_lines]. rewrite E13, E10. apply Ht; assumption.
Qed.
Definition K0 ms hc cap : nat -> list N -> rres unit := fun o l => rbind (ref_empty_lines o l) (fun _ => K1 ms hc cap).
Lemma K0_comp ms hc cap : Comp (K0 ms hc cap).
Proof.
  apply comp_bind.
  - intros. apply (ref_empty_lines_stable ext (length l)). lia.
  - intros. apply (ref_empty_lines_adv (length l)). lia.
  - intros _. apply K1_comp.
  - intros off l H. destruct (empty_lines_part (length l) l off (le_n _) H) as [t [Hbt [o Ht]]].
    exists (t ++ MTAIL). split; [bo|]. rewrite Ht by reflexivity. cbn [rbind]. left. rewrite K1_tail. eexists; eexists; reflexivity.
Qed.

Lemma request_pipe cf cap buf :
  st_res (rq_status (ref_request cf cap buf)) =
  K0 (allow_multiple_spaces_in_request_line_delimiters cf) (request_hcfg cf) cap 0 buf.
Proof.
  unfold ref_request, ref_request_line, K0, K1, K2, K2t, K3, K3v, K4, K5.
  destruct (ref_empty_lines 0 buf) as [u1 o1 l1| |e1]; cbn [rbind rq_status st_res]; try reflexivity.
  destruct (ref_method o1 l1) as [m o2 l2| |e2]; cbn [rbind rq_status st_res]; try reflexivity.
  destruct (ref_spaces _ o2 l2) as [u3 o3 l3| |e3]; cbn [rbind rq_status st_res]; try reflexivity.
  destruct (ref_target o3 l3) as [p o4 l4| |e4]; cbn [rbind rq_status st_res]; try reflexivity.
  destruct (ref_spaces _ o4 l4) as [u5 o5 l5| |e5]; cbn [rbind rq_status st_res]; try reflexivity.
  destruct (ref_version o5 l5) as [v o6 l6| |e6]; cbn [rbind rq_status st_res]; try reflexivity.
  destruct (ref_eol NewLine o6 l6) as [u7 o7 l7| |e7]; cbn [rbind rq_status st_res]; try reflexivity.
  destruct (ref_headers (request_hcfg cf) cap o7 l7) as [s hs]. reflexivity.
Qed.

Definition completes (bad : Prop) (st : status) : Prop :=
  (exists n, st = Complete n) \/ st = Error TooManyHeaders \/ (st = Error Token /\ bad).

Lemma okx_completes X st : okx X (st_res st) -> completes X st.
Proof.
  intros [[o [r H]]|[H|[H HX]]]; destruct st; cbn [st_res] in H; try discriminate.
  - left. eexists; reflexivity.
  - injection H as ->. right; left; reflexivity.
  - injection H as ->. right; right. split; [reflexivity|exact HX].
Qed.

Theorem ref_request_completable cf cap buf :
  rq_status (ref_request cf cap buf) = Partial ->
  exists ext, bytes_ok ext /\ completes (bad_target buf) (rq_status (ref_request cf cap (buf ++ ext))).
Proof.
  intros H. pose proof (request_pipe cf cap buf) as Hp. rewrite H in Hp. cbn [st_res] in Hp. symmetry in Hp.
  destruct (K0_comp _ _ _ _ _ Hp) as [ext [Hbe Hok]]. exists ext. split; [exact Hbe|]. apply okx_completes. rewrite request_pipe. exact Hok.
Qed.

(* ================= responses ================= *)
Lemma reason_part off l : ref_reason off l = RPart ->
  exists t, bytes_ok t /\ exists x o, ref_reason off (l ++ t ++ CRLF) = ROk x o CRLF.
Proof.
  unfold ref_reason. destruct (span reason_char l) as [t r] eqn:Es. cbn zeta.
  destruct (ref_eol Status (length t + off) r) as [u o r'| |e] eqn:Ee; try discriminate. intros _.
  destruct (eol_part _ _ _ Ee) as [t2 [Hbt2 Ht2]].
  destruct r as [|b r1].
  - pose proof (span_all_fst reason_char l ltac:(rewrite Es; reflexivity)) as Hf. rewrite Es in Hf. cbn [fst] in Hf. subst t.
    exists CRLF. split; [bo|]. rewrite (span_all_stop reason_char l (CRLF ++ CRLF)); [|rewrite Es; reflexivity|reflexivity].
    cbn zeta. eexists; eexists. reflexivity.
  - exists t2. split; [exact Hbt2|]. rewrite (span_ext _ _ _ _ _ _ Es). cbn zeta.
    change (b :: r1 ++ t2 ++ CRLF) with ((b :: r1) ++ t2 ++ CRLF). rewrite Ht2. eexists; eexists. reflexivity.
Qed.

Lemma after_code_part ms off l : ref_after_code ms off l = RPart ->
  exists t, bytes_ok t /\ exists x o, ref_after_code ms off (l ++ t ++ CRLF) = ROk x o CRLF.
Proof.
  unfold ref_after_code. destruct l as [|b r]; [intros _; exists CRLF; split; [bo|]; eexists; eexists; reflexivity|].
  destruct (is 32 b) eqn:E32.
  - intros H. destruct (ref_spaces ms (S off) r) as [u o r'| |e] eqn:Esp; cbn [rbind] in H; try discriminate.
    + destruct (reason_part _ _ H) as [t [Hbt [x [o' Ht]]]]. exists t. split; [exact Hbt|]. exists x, o'. cbn [app]. rewrite E32.
      pose proof (ref_spaces_stable (t ++ CRLF) ms (S off) r) as Hs. rewrite Esp in Hs. cbn [extends] in Hs. rewrite Hs. cbn [rbind]. exact Ht.
    + exists CRLF. split; [bo|]. cbn [app]. rewrite E32. rewrite (spaces_part _ _ _ Esp) by reflexivity. cbn [rbind]. eexists; eexists. reflexivity.
  - destruct (is 13 b || is 10 b) eqn:Ec; [|discriminate].
    destruct (ref_eol Status off (b :: r)) as [u o r'| |e] eqn:Ee; try discriminate. intros _.
    destruct (eol_part _ _ _ Ee) as [t [Hbt Ht]]. exists t. split; [exact Hbt|]. change ((b :: r) ++ t ++ CRLF) with (b :: (r ++ t ++ CRLF)). cbn iota. rewrite E32, Ec.
    change (b :: (r ++ t ++ CRLF)) with ((b :: r) ++ t ++ CRLF). rewrite Ht. eexists; eexists. reflexivity.
Qed.

Definition R5 ms hc cap : nat -> list N -> rres unit := fun o l => rbind (ref_after_code ms o l) (fun _ => K5 hc cap).
Lemma R5_comp ms hc cap : Comp (R5 ms hc cap).
Proof.
  apply comp_bind.
  - intros. apply ref_after_code_stable.
  - intros. apply ref_after_code_adv.
  - intros _. apply K5_comp.
  - intros off l H. destruct (after_code_part _ _ _ H) as [t [Hbt [x [o Ht]]]]. exists (t ++ CRLF). split; [bo|]. rewrite Ht. cbn [rbind].
    left. eexists; eexists; reflexivity.
Qed.
Lemma R5_tail ms hc cap o : R5 ms hc cap o TAIL2 = ROk tt (4 + o) [].
Proof. reflexivity. Qed.

Lemma code_part off l : ref_code off l = RPart ->
  exists t, bytes_ok t /\ forall R, exists c, ref_code off (l ++ t ++ R) = ROk c (3 + off) R.
Proof.
  unfold ref_code. destruct l as [|a r1]; [intros _; exists [50; 48; 48]%N; split; [bo|]; intros R; eexists; reflexivity|].
  destruct (digit a) eqn:Ea; cbn [negb]; [|discriminate].
  destruct r1 as [|b r2]; [intros _; exists [48; 48]%N; split; [bo|]; intros R; cbn [app]; rewrite Ea; eexists; reflexivity|].
  destruct (digit b) eqn:Eb; cbn [negb]; [|discriminate].
  destruct r2 as [|c r3]; [intros _; exists [48%N]; split; [bo|]; intros R; cbn [app]; rewrite Ea, Eb; eexists; reflexivity|].
  destruct (digit c); discriminate.
Qed.
Definition R4 ms hc cap : nat -> list N -> rres unit := fun o l => rbind (ref_code o l) (fun _ => R5 ms hc cap).
Lemma R4_comp ms hc cap : Comp (R4 ms hc cap).
Proof.
  apply comp_bind.
  - intros. apply ref_code_stable.
  - intros. apply advances_weaken. apply ref_code_adv.
  - intros _. apply R5_comp.
  - intros off l H. destruct (code_part _ _ H) as [t [Hbt Ht]]. exists (t ++ TAIL2). split; [bo|]. destruct (Ht TAIL2) as [c Hc]. rewrite Hc. cbn [rbind].
    left. rewrite R5_tail. eexists; eexists; reflexivity.
Qed.
Notation CTAIL := [50; 48; 48; 13; 10; 13; 10]%N.
Lemma R4_tail ms hc cap o : R4 ms hc cap o CTAIL = ROk tt (7 + o) [].
Proof. reflexivity. Qed.

Definition R3 ms hc cap : nat -> list N -> rres unit := fun o l => rbind (ref_spaces ms o l) (fun _ => R4 ms hc cap).
Lemma R3_comp ms hc cap : Comp (R3 ms hc cap).
Proof.
  apply comp_bind.
  - intros. apply ref_spaces_stable.
  - intros. apply ref_spaces_adv.
  - intros _. apply R4_comp.
  - intros off l H. exists CTAIL. split; [bo|]. rewrite (spaces_part _ _ _ H) by reflexivity. cbn [rbind]. left. rewrite R4_tail. eexists; eexists; reflexivity.
Qed.
Lemma R3_tail ms hc cap o : R3 ms hc cap o CTAIL = ROk tt (7 + o) [].
Proof. destruct ms; reflexivity. Qed.

Definition R2 ms hc cap : nat -> list N -> rres unit := fun o l => rbind (ref_sp Version o l) (fun _ => R3 ms hc cap).
Lemma R2_comp ms hc cap : Comp (R2 ms hc cap).
Proof.
  apply comp_bind.
  - intros. apply ref_sp_stable.
  - intros. apply advances_weaken. apply ref_sp_adv.
  - intros _. apply R3_comp.
  - intros off l H. unfold ref_sp in H. destruct l as [|b r]; [|destruct (is 32 b); discriminate].
    exists (32%N :: CTAIL). split; [bo|]. cbn [app ref_sp]. change (is 32 32) with true. cbn iota. cbn [rbind]. left. rewrite R3_tail. eexists; eexists; reflexivity.
Qed.
Notation STAIL := (32%N :: CTAIL).
Lemma R2_tail ms hc cap o : R2 ms hc cap o STAIL = ROk tt (8 + o) [].
Proof. destruct ms; reflexivity. Qed.

Definition R1 ms hc cap : nat -> list N -> rres unit := fun o l => rbind (ref_version o l) (fun _ => R2 ms hc cap).
Lemma R1_comp ms hc cap : Comp (R1 ms hc cap).
Proof.
  apply comp_bind.
  - intros. apply ref_version_stable.
  - intros. apply advances_weaken. apply ref_version_adv.
  - intros _. apply R2_comp.
  - intros off l H. destruct (version_part _ _ H) as [t [Hbt Ht]]. exists (t ++ STAIL). split; [bo|]. rewrite Ht. cbn [rbind]. left. rewrite R2_tail. eexists; eexists; reflexivity.
Qed.
Notation RTAIL := ([72; 84; 84; 80; 47; 49; 46; 49]%N ++ STAIL).
Lemma R1_tail ms hc cap o : R1 ms hc cap o RTAIL = ROk tt (16 + o) [].
Proof. destruct ms; reflexivity. Qed.

Definition R0 ms hc cap : nat -> list N -> rres unit := fun o l => rbind (ref_empty_lines o l) (fun _ => R1 ms hc cap).
Lemma R0_comp ms hc cap : Comp (R0 ms hc cap).
Proof.
  apply comp_bind.
  - intros. apply (ref_empty_lines_stable ext (length l)). lia.
  - intros. apply (ref_empty_lines_adv (length l)). lia.
  - intros _. apply R1_comp.
  - intros off l H. destruct (empty_lines_part (length l) l off (le_n _) H) as [t [Hbt [o Ht]]].
    exists (t ++ RTAIL). split; [bo|]. change (t ++ RTAIL) with (t ++ 72%N :: ([84; 84; 80; 47; 49; 46; 49]%N ++ STAIL)).
    rewrite Ht by reflexivity. cbn [rbind]. left. change (72%N :: ([84; 84; 80; 47; 49; 46; 49]%N ++ STAIL)) with RTAIL.
    rewrite R1_tail. eexists; eexists; reflexivity.
Qed.

Lemma response_pipe cf cap buf :
  st_res (rp_status (ref_response cf cap buf)) =
  R0 (allow_multiple_spaces_in_response_status_delimiters cf) (response_hcfg cf) cap 0 buf.
Proof.
  unfold ref_response, ref_status_line, R0, R1, R2, R3, R4, R5, K5.
  destruct (ref_empty_lines 0 buf) as [u1 o1 l1| |e1]; cbn [rbind rp_status st_res]; try reflexivity.
  destruct (ref_version o1 l1) as [v o2 l2| |e2]; cbn [rbind rp_status st_res]; try reflexivity.
  destruct (ref_sp Version o2 l2) as [u3 o3 l3| |e3]; cbn [rbind rp_status st_res]; try reflexivity.
  destruct (ref_spaces _ o3 l3) as [u4 o4 l4| |e4]; cbn [rbind rp_status st_res]; try reflexivity.
  destruct (ref_code o4 l4) as [c o5 l5| |e5]; cbn [rbind rp_status st_res]; try reflexivity.
  destruct (ref_after_code _ o5 l5) as [r o6 l6| |e6]; cbn [rbind rp_status st_res]; try reflexivity.
  destruct (ref_headers (response_hcfg cf) cap o6 l6) as [s hs]. reflexivity.
Qed.

From HV.Proofs Require Import ErrKinds.

Lemma ref_header_block_errs hc : forall f cap hs off l e hs',
  ref_header_block hc f cap hs off l = (Error e, hs') -> line_err e \/ e = TooManyHeaders.
Proof.
  induction f as [|f IH]; intros cap hs off l e hs' H; cbn [ref_header_block] in H; [discriminate|].
  pose proof (ref_header_line_errs hc (null hs) off l) as He.
  destruct (ref_header_line hc (null hs) off l) as [x o r| |e0]; cbn [errs_in] in He.
  - destruct x as [| |n v]; [discriminate|eapply IH; exact H|].
    destruct (Nat.ltb (length hs) cap); [eapply IH; exact H|]. injection H as <- _. right. reflexivity.
  - discriminate.
  - injection H as <- _. left. exact He.
Qed.

Lemma ref_response_no_token cf cap buf : rp_status (ref_response cf cap buf) <> Error Token.
Proof.
  unfold ref_response.
  pose proof (ref_status_line_errs (allow_multiple_spaces_in_response_status_delimiters cf) buf) as He.
  destruct (ref_status_line _ buf) as [st r]. cbn [snd] in He.
  destruct r as [u o l| |e]; cbn [errs_in rp_status] in *.
  - destruct (ref_headers (response_hcfg cf) cap o l) as [s hs] eqn:Eh. cbn [rp_status]. intros ->.
    unfold ref_headers in Eh. apply ref_header_block_errs in Eh as [[H|[H|H]]|H]; discriminate.
  - discriminate.
  - intros [= ->]. destruct He as [H|[H|H]]; discriminate.
Qed.

Theorem ref_response_completable cf cap buf :
  rp_status (ref_response cf cap buf) = Partial ->
  exists ext, bytes_ok ext /\ good (rp_status (ref_response cf cap (buf ++ ext))).
Proof.
  intros H. pose proof (response_pipe cf cap buf) as Hp. rewrite H in Hp. cbn [st_res] in Hp. symmetry in Hp.
  destruct (R0_comp _ _ _ _ _ Hp) as [ext [Hbe Hok]]. exists ext. split; [exact Hbe|]. rewrite <- response_pipe in Hok.
  apply okx_completes in Hok as [Hc|[Hc|[Hc _]]]; [left; exact Hc|right; exact Hc|].
  exfalso. eapply ref_response_no_token. exact Hc.
Qed.

(* ---- chunk sizes ---- *)
Theorem ref_chunk_completable buf v :
  ref_chunk buf = (Partial, v) -> exists ext, bytes_ok ext /\ exists n v', ref_chunk (buf ++ ext) = (Complete n, v').
Proof.
  unfold ref_chunk.
  destruct (span hexdig buf) as [ds r1] eqn:E1.
  destruct (Nat.ltb 16 (length ds)) eqn:E16; [discriminate|].
  destruct r1 as [|x1 r1'].
  { intros _. pose proof (span_all_fst hexdig buf ltac:(rewrite E1; reflexivity)) as Hf. rewrite E1 in Hf. cbn [fst] in Hf. subst ds.
    destruct buf as [|b0 buf'].
    - exists [48; 13; 10]%N. split; [bo|]. eexists; eexists. reflexivity.
    - exists CRLF. split; [bo|]. rewrite (span_all_stop hexdig (b0 :: buf') CRLF); [|rewrite E1; reflexivity|reflexivity].
      rewrite E16. cbn [null]. eexists; eexists. reflexivity. }
  destruct (null ds) eqn:En; [discriminate|].
  assert (H1 : forall e, span hexdig (buf ++ e) = (ds, x1 :: r1' ++ e)) by (intros e; apply (span_ext _ _ _ _ _ _ E1)).
  destruct (span ws (x1 :: r1')) as [w r2] eqn:E2.
  destruct r2 as [|b r3].
  { intros _. pose proof (span_all_fst ws (x1 :: r1') ltac:(rewrite E2; reflexivity)) as Hf. rewrite E2 in Hf. cbn [fst] in Hf. subst w.
    exists CRLF. split; [bo|]. rewrite H1, E16, En. change (x1 :: r1' ++ CRLF) with ((x1 :: r1') ++ CRLF).
    rewrite (span_all_stop ws (x1 :: r1') CRLF); [|rewrite E2; reflexivity|reflexivity].
    eexists; eexists. reflexivity. }
  assert (H2 : forall e, span ws ((x1 :: r1') ++ e) = (w, b :: r3 ++ e)) by (intros e; apply (span_ext _ _ _ _ _ _ E2)).
  destruct (is 13 b) eqn:E13.
  { destruct r3 as [|d r4]; [|destruct (is 10 d); discriminate]. intros _.
    exists [10%N]. split; [bo|]. rewrite H1, E16, En. change (x1 :: r1' ++ [10%N]) with ((x1 :: r1') ++ [10%N]). rewrite H2. rewrite E13.
    eexists; eexists. reflexivity. }
  destruct (is 59 b) eqn:E59; [|discriminate].
  destruct (span (fun x => negb (is 13 x)) r3) as [e r4] eqn:E3.
  destruct r4 as [|c r5].
  { intros _. pose proof (span_all_fst _ r3 ltac:(rewrite E3; reflexivity)) as Hf. rewrite E3 in Hf. cbn [fst] in Hf. subst e.
    exists CRLF. split; [bo|]. rewrite H1, E16, En. change (x1 :: r1' ++ CRLF) with ((x1 :: r1') ++ CRLF). rewrite H2, E13, E59.
    rewrite (span_all_stop _ r3 CRLF); [|rewrite E3; reflexivity|reflexivity].
    eexists; eexists. reflexivity. }
  destruct r5 as [|d r6]; [|destruct (is 10 d); discriminate]. intros _.
  exists [10%N]. split; [bo|]. rewrite H1, E16, En. change (x1 :: r1' ++ [10%N]) with ((x1 :: r1') ++ [10%N]). rewrite H2, E13, E59.
  rewrite (span_ext _ _ _ _ _ _ E3). eexists; eexists. reflexivity.
Qed.
