(* Proofs/Shift.v -- the reference header parser is position-independent: parsing at offset
   `off` gives the result of parsing at offset 0 with every offset shifted by `off`. *)
From Coq Require Import List NArith ZArith Lia Bool ZifyBool ZifyN ZifyNat.
From HV Require Import Cursor Scan Model Api Spec.
From HV.Proofs Require Import Base.
Import ListNotations.

Definition shl (k : nat) (s : sl) : sl := match s with Sub o b => Sub (k + o) b | Ext b => Ext b end.
Definition shline (k : nat) (x : rline) : rline :=
  match x with LHeader n v => LHeader (shl k n) (shl k v) | y => y end.
Definition shres {A} (g : A -> A) (k : nat) (r : rres A) : rres A :=
  match r with ROk a o l => ROk (g a) (k + o) l | RPart => RPart | RErr e => RErr e end.

Section Shift.
Variable hc : hcfg.

Lemma ref_invalid_shift ign e k off l :
  ref_invalid ign e (k + off) l = shres (fun x => x) k (ref_invalid ign e off l).
Proof.
  unfold ref_invalid. destruct ign; cbn [negb]; [|reflexivity].
  destruct (span _ l) as [junk r]. destruct r as [|b r1]; [reflexivity|].
  destruct (is 0 b); [reflexivity|]. destruct (is 10 b); cbn [shres]; [f_equal; lia|].
  destruct r1 as [|b2 r2]; [reflexivity|]. destruct (is 10 b2); cbn [shres]; [f_equal; lia|reflexivity].
Qed.

Lemma ref_invalid_shift_line ign e k off l :
  ref_invalid ign e (k + off) l = shres (shline k) k (ref_invalid ign e off l).
Proof.
  unfold ref_invalid. destruct ign; cbn [negb]; [|reflexivity].
  destruct (span _ l) as [junk r]. destruct r as [|b r1]; [reflexivity|].
  destruct (is 0 b); [reflexivity|]. destruct (is 10 b); cbn [shres shline]; [f_equal; lia|].
  destruct r1 as [|b2 r2]; [reflexivity|]. destruct (is 10 b2); cbn [shres shline]; [f_equal; lia|reflexivity].
Qed.

Lemma ref_value_lines_shift : forall n l k voff racc off, length l <= n ->
  ref_value_lines hc (k + voff) racc (k + off) l = shres (shl k) k (ref_value_lines hc voff racc off l).
Proof.
  induction n as [|n IH]; intros l k voff racc off Hn.
  { destruct l; [reflexivity|cbn [length] in Hn; lia]. }
  destruct l as [|b r]; [reflexivity|]. cbn [length] in Hn. cbn [ref_value_lines].
  destruct (value_char b).
  { replace (S (k + off)) with (k + S off) by lia. apply IH. lia. }
  destruct (is 13 b).
  { destruct r as [|b2 r2]; [reflexivity|]. destruct (is 10 b2); cbn [negb]; [|reflexivity].
    cbn [length] in Hn.
    destruct (allow_obsolete_multiline_headers hc).
    - destruct r2 as [|b3 r3]; [reflexivity|]. destruct (ws b3).
      + replace (2 + (k + off)) with (k + (2 + off)) by lia. apply IH. cbn [length] in *. lia.
      + cbn [shres shl]. f_equal. lia.
    - cbn [shres shl]. f_equal. lia. }
  destruct (is 10 b).
  { destruct (allow_obsolete_multiline_headers hc).
    - destruct r as [|b3 r3]; [reflexivity|]. destruct (ws b3).
      + replace (S (k + off)) with (k + S off) by lia. apply IH. lia.
      + cbn [shres shl]. f_equal. lia.
    - cbn [shres shl]. f_equal. lia. }
  rewrite ref_invalid_shift. destruct (ref_invalid _ _ off (b :: r)); reflexivity.
Qed.

Lemma ref_value_start_shift : forall n l k off, length l <= n ->
  ref_value_start hc (k + off) l = shres (shl k) k (ref_value_start hc off l).
Proof.
  induction n as [|n IH]; intros l k off Hn.
  { destruct l; [reflexivity|cbn [length] in Hn; lia]. }
  destruct l as [|b r]; [reflexivity|]. cbn [length] in Hn. cbn [ref_value_start].
  destruct (ws b).
  { replace (S (k + off)) with (k + S off) by lia. apply IH. lia. }
  destruct (value_char b).
  { apply (ref_value_lines_shift (S (length r))). cbn [length]. lia. }
  destruct (is 13 b).
  { destruct r as [|b2 r2]; [reflexivity|]. destruct (is 10 b2); cbn [negb]; [|reflexivity].
    cbn [length] in Hn.
    destruct (allow_obsolete_multiline_headers hc).
    - destruct r2 as [|b3 r3]; [reflexivity|]. destruct (ws b3).
      + replace (2 + (k + off)) with (k + (2 + off)) by lia. apply IH. cbn [length] in *. lia.
      + cbn [shres shl]. f_equal. lia.
    - cbn [shres shl]. f_equal. lia. }
  destruct (is 10 b).
  { destruct (allow_obsolete_multiline_headers hc).
    - destruct r as [|b3 r3]; [reflexivity|]. destruct (ws b3).
      + replace (S (k + off)) with (k + S off) by lia. apply IH. lia.
      + cbn [shres shl]. f_equal. lia.
    - cbn [shres shl]. f_equal. lia. }
  rewrite ref_invalid_shift. destruct (ref_invalid _ _ off (b :: r)); reflexivity.
Qed.

Lemma dropped_shl k v : dropped (shl k v) = dropped v.
Proof. destruct v; reflexivity. Qed.

Lemma ref_value_shift k name off l :
  ref_value hc (shl k name) (k + off) l = shres (shline k) k (ref_value hc name off l).
Proof.
  unfold ref_value. rewrite (ref_value_start_shift (length l) l k off (le_n _)).
  destruct (ref_value_start hc off l) as [v o r| |e]; cbn [shres rbind]; try reflexivity.
  rewrite dropped_shl. destruct (dropped v); reflexivity.
Qed.

Lemma ref_header_line_shift first k off l :
  ref_header_line hc first (k + off) l = shres (shline k) k (ref_header_line hc first off l).
Proof.
  unfold ref_header_line. destruct l as [|b r]; [reflexivity|].
  destruct (is 13 b).
  { destruct r as [|b2 r2]; [reflexivity|]. destruct (is 10 b2); cbn [shres shline]; [f_equal; lia|reflexivity]. }
  destruct (is 10 b); [cbn [shres shline]; f_equal; lia|].
  destruct (negb (tchar b)).
  { destruct (allow_space_before_first_header_name hc && first && ws b).
    - destruct (span ws (b :: r)) as [w r']. cbn [shres shline]. f_equal. lia.
    - apply ref_invalid_shift_line. }
  destruct (span tchar (b :: r)) as [name r1]. destruct r1 as [|c r2]; [reflexivity|].
  destruct (is 58 c).
  { replace (S (length name + (k + off))) with (k + S (length name + off)) by lia.
    apply (ref_value_shift k (Sub off name)). }
  destruct (allow_spaces_after_header_name hc && ws c).
  - destruct (span ws (c :: r2)) as [w r3]. destruct r3 as [|c' r4]; [reflexivity|].
    destruct (is 58 c').
    + replace (S (length w + (length name + (k + off)))) with (k + S (length w + (length name + off))) by lia.
      apply (ref_value_shift k (Sub off name)).
    + replace (length w + (length name + (k + off))) with (k + (length w + (length name + off))) by lia.
      apply ref_invalid_shift_line.
  - replace (length name + (k + off)) with (k + (length name + off)) by lia.
    apply ref_invalid_shift_line.
Qed.

Definition shhdr (k : nat) (h : sl * sl) : sl * sl := (shl k (fst h), shl k (snd h)).
Definition shstatus (k : nat) (st : status) : status :=
  match st with Complete n => Complete (k + n) | x => x end.

Lemma ref_header_block_shift : forall f cap k hs off l,
  ref_header_block hc f cap (map (shhdr k) hs) (k + off) l =
  (let (st, hs') := ref_header_block hc f cap hs off l in (shstatus k st, map (shhdr k) hs')).
Proof.
  induction f as [|f IH]; intros cap k hs off l; cbn [ref_header_block]; [reflexivity|].
  replace (null (map (shhdr k) hs)) with (null hs) by (destruct hs; reflexivity).
  rewrite ref_header_line_shift.
  destruct (ref_header_line hc (null hs) off l) as [x o r| |e]; cbn [shres]; try reflexivity.
  destruct x as [| |n v]; cbn [shline]; try reflexivity.
  - apply IH.
  - rewrite map_length. destruct (Nat.ltb (length hs) cap); [|reflexivity].
    specialize (IH cap k (hs ++ [(n, v)]) o r). rewrite map_app in IH. exact IH.
Qed.

Theorem ref_headers_shift : forall cap k l,
  ref_headers hc cap k l =
  (let (st, hs) := ref_headers hc cap 0 l in (shstatus k st, map (shhdr k) hs)).
Proof.
  intros cap k l. unfold ref_headers.
  pose proof (ref_header_block_shift (S (length l)) cap k [] 0 l) as H.
  cbn [map] in H. rewrite Nat.add_0_r in H. exact H.
Qed.
End Shift.
