(* TiePH.v -- the two `parse_with_config_and_uninit_headers` bodies and `parse_headers` as translated
   from /repo/src/lib.rs on this run (Generated/LibApi.v) = Api.request_core / response_core /
   parse_headers.  The usize guards (`orig_len - bytes.len()`) are discharged by conservation
   (Mono.v); the header machine is TieHeaders.tie_headers. *)
From Coq Require Import List NArith Bool Lia Arith.
From HV Require Import Cursor Scan Model Api Imp ImpLib ImpGlue.
From HV.Generated Require Import Lib LibApi.
From HV.Proofs Require Import TieBase Mono  TieHeaders TieApiBase.
Import ListNotations.
Local Open Scope N_scope.

Ltac api_unfold :=
  cbv beta iota delta [irun ifun ibind iret ilift iget iset ipart ifail ifault ithrow iguard iguard_idx ireturn
                       bind ret fail part fault_ expect next next_opt peek peek_n peek_ahead advance bump
                       slice slice_skip pos remaining commit apos rest pre tokrev stage space newline
                       g_parse_headers_v_headers g_parse_headers_v_mem set_g_parse_headers_v_headers
                       set_g_parse_headers_v_mem
                       q_method q_path q_version q_hdrs p_version p_code p_reason p_hdrs
                       is is_ws CR LF SP HT COLON].
Ltac api_unfold_in H :=
  cbv beta iota delta [irun ifun ibind iret ilift iget iset ipart ifail ifault ithrow iguard iguard_idx ireturn
                       bind ret fail part fault_ expect next next_opt peek peek_n peek_ahead advance bump
                       slice slice_skip pos remaining commit apos rest pre tokrev stage space newline
                       g_parse_headers_v_headers g_parse_headers_v_mem set_g_parse_headers_v_headers
                       set_g_parse_headers_v_mem
                       q_method q_path q_version q_hdrs p_version p_code p_reason p_hdrs
                       is is_ws CR LF SP HT COLON] in H.


(* one stage: the call of a translated start-line function, replaced by its model through the tie *)
Ltac stage_step tie mon :=
  rewrite tie;
  match goal with |- context [match ?call with Done _ _ => IDone _ _ _ | Part => _ | Fail _ => _ | Fault _ => _ end] =>
    let Ex := fresh "Ex" in
    destruct call as [? ?c| |?e|?f] eqn:Ex; api_unfold; try reflexivity; apply mon in Ex end.
(* the same, with the resulting cursor opened into its three fields *)
Ltac stage_step_r tie mon :=
  rewrite tie;
  match goal with |- context [match ?call with Done _ _ => IDone _ _ _ | Part => _ | Fail _ => _ | Fault _ => _ end] =>
    let Ex := fresh "Ex" in
    destruct call as [? [?p ?t ?r]| |?e|?f] eqn:Ex; api_unfold; try reflexivity; apply mon in Ex end.


Section ApiTie.
Variable E : env.
Hypothesis Efwd : env_fwd E.

Definition fin_ph (r : ires L_g_parse_headers (nat * list slot) unit (nat * list slot))
  : status * list slot * list slot :=
  match r with
  | IDone (n, hs) l _ => (Complete n, hs, g_parse_headers_v_mem l)
  | IPart l => (Partial, [], g_parse_headers_v_mem l)
  | IFail e l => (Error e, [], g_parse_headers_v_mem l)
  | IFault f l => (Faulted f, [], g_parse_headers_v_mem l)
  | IExc _ l _ => (Faulted Unreachable, [], g_parse_headers_v_mem l)
  end.

Theorem tie_parse_headers src dst :
  fin_ph (ifun (g_parse_headers_body E (S (length src)) src) (g_parse_headers_init dst dst) (cur_new src))
  = parse_headers E src dst.
Proof.
  unfold g_parse_headers_body, g_parse_headers_init, parse_headers. imp_only.
  pose proof (icall_headers_spec E Efwd (R:=(nat * list slot)%type) (B:=unit) (length src) hcfg_default
                g_parse_headers_v_headers set_g_parse_headers_v_headers set_g_parse_headers_v_mem
                (mkL_g_parse_headers dst dst) (cur_new src)) as Hc.
  cbv zeta in Hc. cbn [g_parse_headers_v_headers] in Hc.
  destruct (parse_headers_iter_uninit E (S (length src)) hcfg_default dst (cur_new src)) as [[[n| |e|f] nh] arr'].
  - destruct Hc as (c' & Hc). rewrite Hc. api_unfold. reflexivity.
  - rewrite Hc. api_unfold. reflexivity.
  - rewrite Hc. api_unfold. reflexivity.
  - rewrite Hc. api_unfold. reflexivity.
Qed.


End ApiTie.
