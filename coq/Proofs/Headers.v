(* Proofs/Headers.v -- the header machine of the model (Model.header_line and its loops)
   agrees with the line-level reference (Spec.ref_header_line), for all four header options
   and every environment satisfying EnvOk. *)
From Coq Require Import List NArith ZArith Lia Bool ZifyBool ZifyN ZifyNat.
From HV Require Import Cursor Scan Model Api Spec.
From HV.Proofs Require Import Base ScanLoops EnvOk StartLine.
Import ListNotations.

(* model outcome vs reference outcome, through a map on the returned values *)
Definition agree_rel {A B} (R : A -> B -> Prop) (o : out A) (r : rres B) : Prop :=
  match r with
  | ROk b off l => exists a, o = Done a (mkcur off [] l) /\ R a b
  | RPart => o = Part
  | RErr e => o = Fail e
  end.
Definition agree_with {A B} (g : A -> B) : out A -> rres B -> Prop := agree_rel (fun a b => g a = b).

Lemma is_13 b : is 13 b = true -> is 10 b = false /\ is 0 b = false /\ ws b = false /\ value_char b = false /\ tchar b = false /\ is 58 b = false.
Proof. intros H. apply is_eq in H. subst. repeat split. Qed.
Lemma is_10 b : is 10 b = true -> is 13 b = false /\ is 0 b = false /\ ws b = false /\ value_char b = false /\ tchar b = false /\ is 58 b = false.
Proof. intros H. apply is_eq in H. subst. repeat split. Qed.
Lemma is_0 b : is 0 b = true -> is 13 b = false /\ is 10 b = false /\ ws b = false /\ value_char b = false /\ tchar b = false.
Proof. intros H. apply is_eq in H. subst. repeat split. Qed.
Lemma ws_facts b : ws b = true -> is 13 b = false /\ is 10 b = false /\ is 0 b = false /\ value_char b = true /\ tchar b = false /\ is 58 b = false /\ is_trim b = true.
Proof.
  unfold ws. intros H. apply orb_prop in H as [H|H]; apply is_eq in H; subst; repeat split.
Qed.
Lemma is_58 b : is 58 b = true -> ws b = false /\ tchar b = false.
Proof. intros H. apply is_eq in H. subst. repeat split. Qed.

Ltac rw :=
  repeat match goal with
         | H : ?x = true |- context [?x] => rewrite H
         | H : ?x = false |- context [?x] => rewrite H
         end.
Ltac msimp2 := msimp; cbn beta iota; unfold agree_with; cbn [negb orb andb agree_rel agree agree_nc length Nat.add].
Ltac mrun := mstep; try change is_ws with ws; repeat (progress (rw; msimp2)).
Ltac fin := mrun; try reflexivity; try (eexists; split; reflexivity).

Section WithEnv.
Variable E : env.
Hypothesis HE : env_ok E.
Variable fuel : nat.
Variable hc : hcfg.

(* ---- handle_invalid_char! ---- *)
(* the offending byte b has been read already: the cursor stands just past it, wherever its
   `start` is; only the absolute position matters *)
Lemma done_eq {A} (a : A) p1 p2 l : p1 = p2 -> Done a (mkcur p1 [] l) = Done a (mkcur p2 [] l).
Proof. intros ->. reflexivity. Qed.

Lemma skip_invalid_line_agree : forall f r b t p e off,
  length r < f -> length t + p = S off ->
  agree_with (fun _ : unit => LSkip)
    ((skip_invalid_line f b e ;;; slice ;;; ret tt) (mkcur p t r))
    (ref_invalid true e off (b :: r)).
Proof.
  induction f as [|f IH]; intros r b t p e off Hl Hoff; [lia|].
  cbn [skip_invalid_line]. unfold ref_invalid. cbn [negb span].
  unfold CR, LF.
  destruct (is 13 b) eqn:E13.
  - destruct (is_13 b E13) as (? & ? & _).
    destruct r as [|b2 r2]; [fin|].
    destruct (is 10 b2) eqn:?; [|fin].
    mrun. eexists. split; [|reflexivity]. apply done_eq. cbn [length]. lia.
  - destruct (is 10 b) eqn:E10.
    + destruct (is_10 b E10) as (_ & ? & _). mrun.
      eexists. split; [|reflexivity]. apply done_eq. cbn [length]. lia.
    + destruct (is 0 b) eqn:E0.
      * cbn [orb negb]. fin.
      * cbn [orb negb].
        destruct r as [|b' r']; [fin|].
        unfold bind at 1. unfold bind at 1. unfold next at 1. cbn [rest pre tokrev].
        specialize (IH r' b' (b' :: t) p e (S off) ltac:(cbn [length] in Hl; lia) ltac:(cbn [length]; lia)).
        unfold ref_invalid in IH. cbn [negb] in IH.
        destruct (span (fun b0 : N => negb (is 13 b0 || is 10 b0 || is 0 b0)) (b' :: r')) as [junk rr] eqn:Es.
        cbn [length] in IH |- *.
        destruct rr as [|b1 r1]; [exact IH|].
        destruct (is 0 b1); [exact IH|].
        replace (S (S (length junk)) + off) with (S (length junk) + S off) by lia.
        destruct (is 10 b1); [exact IH|].
        destruct r1 as [|b2 r2]; [exact IH|].
        replace (2 + S (length junk) + off) with (2 + length junk + S off) by lia.
        exact IH.
Qed.

Lemma handle_invalid_agree : forall r b t p e off,
  length r < fuel -> length t + p = S off ->
  agree_with (fun _ : unit => LSkip)
    (handle_invalid fuel hc b e (mkcur p t r))
    (ref_invalid (ignore_invalid_headers hc) e off (b :: r)).
Proof.
  intros r b t p e off Hl Hoff. unfold handle_invalid.
  destruct (ignore_invalid_headers hc); cbn [negb].
  - apply skip_invalid_line_agree; assumption.
  - fin.
Qed.

(* ---- value lines ---- *)
(* a dropped line is flagged by the reference with the impossible slice Ext [255]; a value is
   always a sub-slice of the buffer and is reported trimmed *)
Definition vrel (v : vres) (s : sl) : Prop :=
  match v with
  | VDropped => s = Ext [255%N]
  | VValue v0 => s = trim_value v0 /\ exists o b, v0 = Sub o b
  end.

Lemma ref_value_lines_skip : forall l voff racc off,
  ref_value_lines hc voff racc off l =
  ref_value_lines hc voff (rev (firstn (first_bad value_char l) l) ++ racc)
                  (first_bad value_char l + off) (skipn (first_bad value_char l) l).
Proof.
  induction l as [|b r IH]; intros voff racc off; [reflexivity|].
  cbn [first_bad]. destruct (value_char b) eqn:Ev.
  - cbn [ref_value_lines firstn skipn rev]. rewrite Ev. rewrite IH.
    rewrite <- app_assoc. cbn [app]. f_equal. lia.
  - reflexivity.
Qed.

Lemma skipn_first_bad_head p l b r : skipn (first_bad p l) l = b :: r -> p b = false.
Proof.
  induction l as [|x l' IH]; cbn [first_bad skipn]; [discriminate|].
  destruct (p x) eqn:Ex.
  - cbn [skipn]. exact IH.
  - cbn [skipn]. intros [= <- _]. exact Ex.
Qed.

Lemma drop_while_app_ne p a b : drop_while p b <> [] -> drop_while p (a ++ b) <> [].
Proof.
  induction a as [|x a IH]; intros H; [exact H|]. cbn [app drop_while].
  destruct (p x); [apply IH; exact H|discriminate].
Qed.

Lemma rev'_invol {A} (l : list A) : rev' (rev' l) = l.
Proof. rewrite !rev'_rev. apply rev_involutive. Qed.

Lemma trim_value_sub voff racc :
  drop_while is_trim racc <> [] ->
  trim_value (Sub voff (rev' racc)) = Sub voff (rev' (drop_while is_trim racc)).
Proof.
  intros H. unfold trim_value. rewrite rev'_invol.
  destruct (drop_while is_trim racc); [congruence|reflexivity].
Qed.

Lemma agree_with_then {A B C} (g1 : A -> B) (m : P A) (c : cur) (r : rres B) (x : C) (y : sl) (R2 : C -> sl -> Prop) :
  R2 x y -> agree_with g1 (m c) r ->
  agree_rel R2 ((m ;;; ret x) c) (rbind r (fun _ o l => ROk y o l)).
Proof.
  intros Hg H. unfold bind. unfold agree_with in *. destruct r as [b off l| |e]; cbn [agree_rel rbind] in *.
  - destruct H as [a [-> _]]. eexists. split; [reflexivity|exact Hg].
  - rewrite H. reflexivity.
  - rewrite H. reflexivity.
Qed.

Lemma value_lines_agree : forall f l racc voff,
  length l < f -> length l < fuel -> bytes_ok l -> drop_while is_trim racc <> [] ->
  agree_rel vrel (value_lines E fuel hc f (mkcur voff racc l))
             (ref_value_lines hc voff racc (length racc + voff) l).
Proof.
  induction f as [|f IH]; intros l racc voff Hl Hfu Hb Hne; [lia|].
  cbn [value_lines]. unfold bind at 1.
  rewrite (ok_s_value E HE fuel (mkcur voff racc l) Hb Hfu). cbn [rest].
  rewrite ref_value_lines_skip.
  set (k := first_bad value_char l).
  assert (Hk : k <= length l) by apply first_bad_le.
  unfold adv. cbn [pre tokrev rest].
  set (racc' := rev (firstn k l) ++ racc).
  assert (Hlen' : length racc' = k + length racc).
  { unfold racc'. rewrite app_length, rev_length, firstn_length. lia. }
  assert (Hne' : drop_while is_trim racc' <> []) by (apply drop_while_app_ne; exact Hne).
  assert (Hsk : length (skipn k l) <= length l) by (rewrite skipn_length; lia).
  assert (Hbs : bytes_ok (skipn k l)) by (apply bytes_ok_skipn; exact Hb).
  replace (k + (length racc + voff)) with (length racc' + voff) by lia.
  destruct (skipn k l) as [|b r] eqn:Es; [fin|].
  pose proof (skipn_first_bad_head value_char l b r Es) as Hvb.
  apply bytes_ok_cons in Hbs as [Hb0 Hbr].
  cbn [ref_value_lines]. rewrite Hvb.
  cbn [length] in Hsk.
  unfold CR, LF.
  destruct (is 13 b) eqn:E13.
  - destruct r as [|b2 r2]; [fin|].
    destruct (is 10 b2) eqn:E10; [|fin].
    cbn [negb]. unfold fold_check.
    destruct (allow_obsolete_multiline_headers hc) eqn:Efold.
    + destruct r2 as [|b3 r3]; [fin|].
      destruct (ws b3) eqn:Ews.
      * mrun.
        apply is_eq in E13, E10. subst b b2.
        specialize (IH (b3 :: r3) (10%N :: 13%N :: racc') voff).
        cbn [length] in IH, Hl, Hfu, Hsk.
        replace (S (S (length racc' + voff))) with (S (S (length racc')) + voff) by lia.
        apply IH; try lia.
        -- apply bytes_ok_cons in Hbr. tauto.
        -- cbn [drop_while is_trim]. exact Hne'.
      * mrun. eexists. split; [reflexivity|].
        cbn [vrel]. rewrite trim_value_sub by exact Hne'. split; [reflexivity|eauto].
    + mrun. eexists. split; [reflexivity|].
      cbn [vrel]. rewrite trim_value_sub by exact Hne'. split; [reflexivity|eauto].
  - destruct (is 10 b) eqn:E10.
    + unfold fold_check.
      destruct (allow_obsolete_multiline_headers hc) eqn:Efold.
      * destruct r as [|b3 r3]; [fin|].
        destruct (ws b3) eqn:Ews.
        -- mrun.
           apply is_eq in E10. subst b.
           specialize (IH (b3 :: r3) (10%N :: racc') voff).
           cbn [length] in IH, Hl, Hfu, Hsk.
           replace (S (length racc' + voff)) with (S (length racc') + voff) by lia.
           apply IH; try lia.
           ++ exact Hbr.
           ++ cbn [drop_while is_trim]. exact Hne'.
        -- mrun. eexists. split; [reflexivity|].
           cbn [vrel]. rewrite trim_value_sub by exact Hne'. split; [reflexivity|eauto].
      * mrun. eexists. split; [reflexivity|].
        cbn [vrel]. rewrite trim_value_sub by exact Hne'. split; [reflexivity|eauto].
    + unfold bind at 1. unfold next at 1. cbn [rest pre tokrev]. rw. cbn iota.
      apply (agree_with_then (fun _ : unit => LSkip) _ _ _ VDropped (Ext [255%N]) vrel); [reflexivity|].
      apply handle_invalid_agree; [cbn [length] in Hfu; lia|cbn [length]; lia].
Qed.

Lemma value_char_not_trim b : value_char b = true -> ws b = false -> is_trim b = false.
Proof.
  unfold value_char, ws, is_trim, is, in_range, SP, HT, CR, LF. intros H1 H2.
  apply orb_false_iff in H2 as [H32 H9]. rewrite H32, H9. cbn [orb].
  destruct (N.eqb_spec b 13); [subst; discriminate|].
  destruct (N.eqb_spec b 10); [subst; discriminate|]. reflexivity.
Qed.

(* ---- whitespace after the colon, then the value ---- *)
Lemma ws_after_colon_agree : forall f l t p,
  length l < f -> length l < fuel -> bytes_ok l ->
  (t = [] \/ exists b r, l = b :: r /\ ws b = true) ->
  agree_rel vrel (ws_after_colon E fuel hc f (mkcur p t l))
             (ref_value_start hc (length t + p) l).
Proof.
  induction f as [|f IH]; intros l t p Hl Hfu Hb Ht; [lia|].
  destruct l as [|b r]; [fin|].
  apply bytes_ok_cons in Hb as [Hb0 Hbr]. cbn [length] in Hl, Hfu.
  cbn [ws_after_colon ref_value_start].
  unfold bind at 1. unfold next at 1. cbn [rest pre tokrev].
  change (is_ws b) with (ws b). rewrite (ok_value E HE b Hb0). unfold CR, LF.
  destruct (ws b) eqn:Ews.
  - (* whitespace: commit and go on *)
    unfold bind at 1. unfold slice at 1. cbn [rest pre tokrev commit length].
    replace (S (length t + p)) with (length (@nil N) + (S (length t) + p)) by (cbn [length]; lia).
    apply IH; try lia; try assumption. left. reflexivity.
  - assert (Htn : t = []).
    { destruct Ht as [->|[b' [r' [Hl' Hw]]]]; [reflexivity|]. injection Hl' as <- <-. congruence. }
    subst t. cbn [length Nat.add].
    destruct (value_char b) eqn:Ev.
    + (* first value byte *)
      pose proof (value_lines_agree fuel r [b] p ltac:(lia) ltac:(lia) Hbr) as H.
      cbn [length] in H. cbn [ref_value_lines]. rewrite Ev. apply H. cbn [drop_while].
      rewrite (value_char_not_trim b Ev Ews). discriminate.
    + destruct (is 13 b) eqn:E13.
      * destruct r as [|b2 r2]; [fin|].
        destruct (is 10 b2) eqn:E10; [|fin]. cbn [negb]. unfold fold_check.
        destruct (allow_obsolete_multiline_headers hc) eqn:Efold.
        -- destruct r2 as [|b3 r3]; [fin|].
           destruct (ws b3) eqn:Ews3.
           ++ mrun. apply is_eq in E13, E10. subst b b2.
              specialize (IH (b3 :: r3) [10%N; 13%N] p). cbn [length] in IH, Hl, Hfu.
              apply IH; try lia.
              ** apply bytes_ok_cons in Hbr. tauto.
              ** right. eauto.
           ++ mrun. unfold commit. cbn [pre tokrev rest length]. eexists. split; [reflexivity|]. cbn [vrel]. split; [reflexivity|eauto].
        -- mrun. unfold commit. cbn [pre tokrev rest length]. eexists. split; [reflexivity|]. cbn [vrel]. split; [reflexivity|eauto].
      * destruct (is 10 b) eqn:E10.
        -- unfold fold_check.
           destruct (allow_obsolete_multiline_headers hc) eqn:Efold.
           ++ destruct r as [|b3 r3]; [fin|].
              destruct (ws b3) eqn:Ews3.
              ** mrun. apply is_eq in E10. subst b.
                 specialize (IH (b3 :: r3) [10%N] p). cbn [length] in IH, Hl, Hfu.
                 apply IH; try lia; [exact Hbr|]. right. eauto.
              ** mrun. unfold commit. cbn [pre tokrev rest length]. eexists. split; [reflexivity|]. cbn [vrel]. split; [reflexivity|eauto].
           ++ mrun. unfold commit. cbn [pre tokrev rest length]. eexists. split; [reflexivity|]. cbn [vrel]. split; [reflexivity|eauto].
        -- apply (agree_with_then (fun _ : unit => LSkip) _ _ _ VDropped (Ext [255%N]) vrel); [reflexivity|].
           apply (handle_invalid_agree r b [b] p HeaderValue p); [lia|reflexivity].
Qed.

(* ---- the two small whitespace loops ---- *)
Lemma skip_ws_peek_spec : forall f l t p,
  length l < f ->
  skip_ws_peek f (mkcur p t l) =
  let (w, r) := span ws l in Done tt (mkcur p (rev w ++ t) r).
Proof.
  induction f as [|f IH]; intros l t p Hl; [lia|].
  destruct l as [|b r]; [reflexivity|].
  cbn [skip_ws_peek span]. unfold bind at 1. unfold peek. cbn [rest hd_error].
  change (is_ws b) with (ws b). destruct (ws b) eqn:Ews; [|reflexivity].
  unfold bind at 1. unfold next. cbn [rest pre tokrev].
  rewrite IH by (cbn [length] in Hl; lia).
  destruct (span ws r) as [w r']. cbn [rev]. rewrite <- app_assoc. reflexivity.
Qed.

Lemma after_name_ws_spec : forall f r b t p,
  length r < f -> ws b = true ->
  after_name_ws f b (mkcur p t r) =
  let (w, r3) := span ws r in
  match r3 with
  | [] => Part
  | c' :: r4 =>
      if is 58 c' then Done None (mkcur (S (length w) + (length t + p)) [] r4)
      else Done (Some c') (mkcur p (c' :: rev w ++ t) r4)
  end.
Proof.
  induction f as [|f IH]; intros r b t p Hl Hw; [lia|].
  cbn [after_name_ws]. change (is_ws b) with (ws b). rewrite Hw.
  destruct r as [|b' r']; [reflexivity|].
  unfold bind at 1. unfold next. cbn [rest pre tokrev span]. unfold COLON.
  destruct (ws b') eqn:Ew'.
  - destruct (ws_facts b' Ew') as (_ & _ & _ & _ & _ & E58 & _). rewrite E58.
    rewrite IH by (try exact Ew'; cbn [length] in Hl; lia).
    destruct (span ws r') as [w r3]. destruct r3 as [|c' r4]; [reflexivity|].
    cbn [length rev]. destruct (is 58 c').
    + f_equal. f_equal. lia.
    + rewrite <- app_assoc. reflexivity.
  - destruct (is 58 b') eqn:E58.
    + unfold bind, slice, ret, commit. cbn [pre tokrev rest length]. f_equal.
    + cbn [length] in Hl. destruct f as [|f']; [lia|].
      cbn [after_name_ws]. change (is_ws b') with (ws b'). rewrite Ew'. reflexivity.
Qed.

(* ---- one header line ---- *)
Definition hrel (h : hstep) (l : rline) : Prop :=
  match h with
  | HEnd => l = LEnd
  | HContinue => l = LSkip
  | HHeader n v => l = LHeader n (trim_value v) /\ exists o b, v = Sub o b
  end.

(* after an empty line the token (the line end itself) is left uncommitted *)
Definition agree_h (o : out hstep) (r : rres rline) : Prop :=
  match r with
  | ROk b off l =>
      exists a c', o = Done a c' /\ hrel a b /\ apos c' = off /\ rest c' = l /\
                   (b <> LEnd -> tokrev c' = [])
  | RPart => o = Part
  | RErr e => o = Fail e
  end.

Lemma agree_rel_h (o : out hstep) r :
  agree_rel hrel o r -> agree_h o r.
Proof.
  destruct r as [b off l| |e]; cbn [agree_rel agree_h]; auto.
  intros [a [-> H]]. exists a, (mkcur off [] l). repeat split; auto.
Qed.

Lemma value_to_line name (m : P vres) c r :
  agree_rel vrel (m c) r ->
  agree_rel hrel
    ((v <- m ;; match v with VDropped => ret HContinue | VValue v => ret (HHeader name v) end) c)
    (rbind r (fun v o l => ROk (if dropped v then LSkip else LHeader name v) o l)).
Proof.
  intros H. unfold bind. destruct r as [s off l| |e]; cbn [agree_rel rbind] in *.
  - destruct H as [v [-> Hv]]. destruct v as [|v0]; cbn [vrel] in Hv.
    + subst s. eexists. split; [reflexivity|]. reflexivity.
    + destruct Hv as [-> [o [b ->]]]. eexists. split; [reflexivity|]. cbn [hrel].
      unfold trim_value. destruct (drop_while is_trim (rev' b)); cbn [dropped]; split; eauto.
  - rewrite H. reflexivity.
  - rewrite H. reflexivity.
Qed.

Lemma invalid_to_line (m : P unit) c r :
  agree_with (fun _ : unit => LSkip) (m c) r ->
  agree_rel hrel ((m ;;; ret HContinue) c) r.
Proof.
  intros H. unfold bind, agree_with in *. destruct r as [s off l| |e]; cbn [agree_rel] in *.
  - destruct H as [v [-> Hv]]. subst s. eexists. split; reflexivity.
  - rewrite H. reflexivity.
  - rewrite H. reflexivity.
Qed.

Lemma header_line_agree : forall first l p,
  length l < fuel -> bytes_ok l ->
  agree_h (header_line E fuel hc first (mkcur p [] l)) (ref_header_line hc first p l).
Proof.
  intros first l p Hfu Hb.
  destruct l as [|b r]; [reflexivity|].
  apply bytes_ok_cons in Hb as [Hb0 Hbr]. cbn [length] in Hfu.
  unfold header_line, ref_header_line.
  unfold bind at 1. unfold next at 1. cbn [rest pre tokrev].
  rewrite (ok_name E HE b Hb0). unfold CR, LF.
  destruct (is 13 b) eqn:E13.
  - destruct r as [|b2 r2]; [reflexivity|]. mrun.
    destruct (is 10 b2) eqn:E10; mrun; [|reflexivity].
    cbn [agree_h]. do 2 eexists. split; [reflexivity|]. cbn [hrel apos tokrev pre rest length].
    repeat split; try lia. congruence.
  - destruct (is 10 b) eqn:E10.
    + mrun. cbn [agree_h]. do 2 eexists. split; [reflexivity|]. cbn [hrel apos tokrev pre rest length].
      repeat split; try lia. congruence.
    + destruct (tchar b) eqn:Et; cbn [negb].
      2:{ (* not a name byte *)
          change (is_ws b) with (ws b).
          destruct (allow_space_before_first_header_name hc && first && ws b) eqn:Esp.
          - apply agree_rel_h.
            unfold bind at 1. rewrite skip_ws_peek_spec by lia.
            apply andb_prop in Esp as [_ Ews]. cbn [span]. rewrite Ews.
            destruct (span ws r) as [w r']. mrun. rewrite app_length, rev_length. cbn [length].
            replace (length w + 1 + p) with (S (length w + p)) by lia.
            eexists. split; [reflexivity|]. reflexivity.
          - apply agree_rel_h. apply invalid_to_line.
            apply (handle_invalid_agree r b [b] p HeaderName p); [lia|reflexivity]. }
      (* a name *)
      apply agree_rel_h.
      unfold bind at 1.
      rewrite (ok_s_name E HE fuel (mkcur p [b] r) Hbr ltac:(cbn [rest]; lia)). cbn [rest].
      cbn [span]. rewrite Et. rewrite span_first_bad.
      set (k := first_bad tchar r).
      assert (Hk : k <= length r) by apply first_bad_le.
      unfold adv. cbn [pre tokrev rest].
      assert (Hsk : length (skipn k r) <= length r) by (rewrite skipn_length; lia).
      assert (Hbs : bytes_ok (skipn k r)) by (apply bytes_ok_skipn; exact Hbr).
      destruct (skipn k r) as [|c r2] eqn:Es; [reflexivity|].
      cbn [length] in Hsk. apply bytes_ok_cons in Hbs as [Hc0 Hbr2].
      unfold bind at 1. unfold next at 1. cbn [rest pre tokrev].
      unfold bind at 1. unfold slice_skip at 1. cbn [tokrev drop pre rest]. unfold commit. cbn [tokrev pre rest length].
      rewrite app_length, rev_length, firstn_length, Nat.min_l by exact Hk. cbn [length].
      rewrite rev'_rev, rev_app_distr, rev_involutive. cbn [rev app].
      replace (S (k + 1) + p) with (S (S k + p)) by lia.
      replace (length (firstn k r)) with k by (rewrite firstn_length; lia).
      unfold COLON.
      destruct (is 58 c) eqn:E58.
      * (* colon right after the name *)
        unfold bind at 1. unfold ret at 1.
        apply value_to_line.
        apply (ws_after_colon_agree fuel r2 [] (S (S k + p))); try lia; auto.
      * destruct (allow_spaces_after_header_name hc && ws c) eqn:Esa.
        -- apply andb_prop in Esa as [Esa Ewc]. rewrite Esa.
           unfold bind at 1. rewrite after_name_ws_spec by (try exact Ewc; lia).
           cbn [span]. rewrite Ewc.
           destruct (span ws r2) as [w r3] eqn:Ew.
           assert (Hlen3 : length r2 = length w + length r3).
           { pose proof (span_first_bad ws r2) as Hs. rewrite Ew in Hs. injection Hs as -> ->.
             rewrite firstn_length, skipn_length. pose proof (first_bad_le ws r2). lia. }
           destruct r3 as [|c' r4]; [reflexivity|]. cbn [length] in *.
           destruct (is 58 c') eqn:E58'.
           ++ apply value_to_line.
              replace (S (length w) + (0 + S (S k + p))) with (length (@nil N) + S (S (length w) + (S k + p))) by (cbn [length]; lia).
              apply (ws_after_colon_agree fuel r4 [] (S (S (length w) + (S k + p)))); try lia; auto.
              pose proof (span_first_bad ws r2) as Hs. rewrite Ew in Hs. injection Hs as _ Hs.
              assert (Hb3 : bytes_ok (c' :: r4)) by (rewrite Hs; apply bytes_ok_skipn; exact Hbr2).
              apply bytes_ok_cons in Hb3. tauto.
           ++ apply invalid_to_line.
              apply (handle_invalid_agree r4 c' (c' :: rev w ++ []) (S (S k + p)) HeaderName); [lia|].
              cbn [length]. rewrite app_nil_r, rev_length. lia.
        -- assert (Esa' : (if allow_spaces_after_header_name hc then after_name_ws fuel c else ret (Some c))
                           (mkcur (S (S k + p)) [] r2) = Done (Some c) (mkcur (S (S k + p)) [] r2)).
           { destruct (allow_spaces_after_header_name hc); [|reflexivity].
             cbn [andb] in Esa. destruct fuel as [|f']; [lia|]. cbn [after_name_ws].
             change (is_ws c) with (ws c). rewrite Esa. reflexivity. }
           unfold bind at 1. rewrite Esa'.
           apply invalid_to_line.
           apply (handle_invalid_agree r2 c [] (S (S k + p)) HeaderName); [lia|reflexivity].
Qed.
End WithEnv.
