(* C03, remaining halves: Partial means no empty line yet (header block), and chunk-size framing. *)
From Coq Require Import List NArith ZArith Lia Bool ZifyBool ZifyN ZifyNat.
From HV Require Import Cursor Scan Model Api Spec Oracle.
From HV.Proofs Require Import Base RefFacts StartLine Headers Refine Entries Clean.
Import ListNotations.

Lemma blank_free_plain_list a t : Forall (fun b => plain b = true) a -> blank_free (a ++ t) = blank_free t.
Proof. induction 1 as [|x a Hx Ha IH]; [reflexivity|]. cbn [app]. rewrite blank_free_plain by exact Hx. exact IH. Qed.

Definition part_ok {A} (l : list N) (x : rres A) : Prop := x = RPart -> blank_free l = true.

Lemma part_ok_cons {A} b l (x : rres A) : plain b = true -> part_ok l x -> part_ok (b :: l) x.
Proof. intros Hb H E. rewrite blank_free_plain by exact Hb. auto. Qed.
Lemma part_ok_prefix {A} a l (x : rres A) : Forall (fun b => plain b = true) a -> part_ok l x -> part_ok (a ++ l) x.
Proof. intros Ha H E. rewrite blank_free_plain_list by exact Ha. auto. Qed.
Lemma part_ok_map {A B} l (x : rres A) (g : A -> nat -> list N -> rres B) :
  (forall a o r, g a o r <> RPart) -> part_ok l x -> part_ok l (rbind x g).
Proof. intros Hg H E. destruct x; cbn [rbind] in E; [exfalso; eapply Hg; eauto|auto|discriminate]. Qed.

Section PartPass.
Variable hc : hcfg.

Lemma ref_invalid_part ign e off l : part_ok l (ref_invalid ign e off l).
Proof.
  unfold ref_invalid, part_ok. destruct ign; cbn [negb]; [|discriminate].
  set (p := fun b => negb (is 13 b || is 10 b || is 0 b)).
  pose proof (span_app p l) as Hs. pose proof (span_forall p l) as Hall.
  assert (Hp : forall b, p b = true -> plain b = true).
  { intros b Hb. unfold plain, p in *. apply negb_true_iff in Hb.
    apply orb_false_iff in Hb as [Hb H0]. apply orb_false_iff in Hb as [H13 H10]. rewrite H0, H13, H10. reflexivity. }
  pose proof (span_stop p l) as Hst.
  destruct (span p l) as [junk r]. cbn [fst snd] in *.
  assert (Hj : Forall (fun b => plain b = true) junk) by (eapply Forall_impl; [|exact Hall]; exact Hp).
  rewrite Hs. rewrite blank_free_plain_list by exact Hj.
  destruct r as [|b r1]; [reflexivity|]. specialize (Hst b r1 eq_refl).
  destruct (is 0 b) eqn:E0; [discriminate|]. destruct (is 10 b) eqn:E10; [discriminate|].
  destruct r1 as [|b2 r2]; [|destruct (is 10 b2); discriminate].
  intros _. rewrite blank_free_cons, E10. reflexivity.
Qed.

Lemma bf_crlf_ws b r : ws b = true -> blank_free (13%N :: 10%N :: b :: r) = blank_free (b :: r).
Proof.
  intros Hw. rewrite !blank_free_cons. change (is 10 13) with false. change (is 10 10) with true.
  cbn [negb orb andb]. rewrite (not_eol_plain b r (ws_plain b Hw)). reflexivity.
Qed.
Lemma bf_lf_ws b r : ws b = true -> blank_free (10%N :: b :: r) = blank_free (b :: r).
Proof.
  intros Hw. rewrite !blank_free_cons. change (is 10 10) with true.
  cbn [negb orb andb]. rewrite (not_eol_plain b r (ws_plain b Hw)). reflexivity.
Qed.

Lemma ref_value_lines_part : forall n l voff racc off, length l <= n ->
  part_ok l (ref_value_lines hc voff racc off l).
Proof.
  induction n as [|n IH]; intros l voff racc off Hn.
  { destruct l; [intros _; reflexivity|cbn [length] in Hn; lia]. }
  destruct l as [|b r]; [intros _; reflexivity|]. cbn [length] in Hn. cbn [ref_value_lines].
  destruct (value_char b) eqn:Ev.
  { apply part_ok_cons; [apply value_char_plain; exact Ev|]. apply IH. lia. }
  destruct (is 13 b) eqn:E13.
  { apply is_eq in E13. subst b.
    destruct r as [|b2 r2]; [intros _; reflexivity|]. destruct (is 10 b2) eqn:E10; cbn [negb]; [|discriminate].
    apply is_eq in E10. subst b2. cbn [length] in Hn.
    destruct (allow_obsolete_multiline_headers hc); [|discriminate].
    destruct r2 as [|b3 r3]; [intros _; reflexivity|]. destruct (ws b3) eqn:Ew; [|discriminate].
    intros E. rewrite bf_crlf_ws by exact Ew. eapply IH; [|exact E]. cbn [length] in *. lia. }
  destruct (is 10 b) eqn:E10.
  { apply is_eq in E10. subst b.
    destruct (allow_obsolete_multiline_headers hc); [|discriminate].
    destruct r as [|b3 r3]; [intros _; reflexivity|]. destruct (ws b3) eqn:Ew; [|discriminate].
    intros E. rewrite bf_lf_ws by exact Ew. eapply IH; [|exact E]. lia. }
  apply part_ok_map; [discriminate|]. apply ref_invalid_part.
Qed.

Lemma ref_value_start_part : forall n l off, length l <= n ->
  part_ok l (ref_value_start hc off l).
Proof.
  induction n as [|n IH]; intros l off Hn.
  { destruct l; [intros _; reflexivity|cbn [length] in Hn; lia]. }
  destruct l as [|b r]; [intros _; reflexivity|]. cbn [length] in Hn. cbn [ref_value_start].
  destruct (ws b) eqn:Ew.
  { apply part_ok_cons; [apply ws_plain; exact Ew|]. apply IH. lia. }
  destruct (value_char b) eqn:Ev.
  { apply (ref_value_lines_part (S (length r))). cbn [length]. lia. }
  destruct (is 13 b) eqn:E13.
  { apply is_eq in E13. subst b.
    destruct r as [|b2 r2]; [intros _; reflexivity|]. destruct (is 10 b2) eqn:E10; cbn [negb]; [|discriminate].
    apply is_eq in E10. subst b2. cbn [length] in Hn.
    destruct (allow_obsolete_multiline_headers hc); [|discriminate].
    destruct r2 as [|b3 r3]; [intros _; reflexivity|]. destruct (ws b3) eqn:Ew3; [|discriminate].
    intros E. rewrite bf_crlf_ws by exact Ew3. eapply IH; [|exact E]. cbn [length] in *. lia. }
  destruct (is 10 b) eqn:E10.
  { apply is_eq in E10. subst b.
    destruct (allow_obsolete_multiline_headers hc); [|discriminate].
    destruct r as [|b3 r3]; [intros _; reflexivity|]. destruct (ws b3) eqn:Ew3; [|discriminate].
    intros E. rewrite bf_lf_ws by exact Ew3. eapply IH; [|exact E]. lia. }
  apply part_ok_map; [discriminate|]. apply ref_invalid_part.
Qed.

Lemma ref_value_part name off l : part_ok l (ref_value hc name off l).
Proof.
  unfold ref_value. apply part_ok_map; [discriminate|]. apply (ref_value_start_part (length l)). apply le_n.
Qed.

Lemma ref_header_line_part first off l :
  ref_header_line hc first off l = RPart -> not_eol_start l = true /\ blank_free l = true.
Proof.
  unfold ref_header_line. destruct l as [|b r]; [auto|].
  destruct (is 13 b) eqn:E13.
  { apply is_eq in E13. subst b. destruct r as [|b2 r2]; [auto|]. destruct (is 10 b2); discriminate. }
  destruct (is 10 b) eqn:E10; [discriminate|].
  intros H. split; [cbn [not_eol_start]; rewrite E10, E13; reflexivity|]. revert H.
  destruct (negb (tchar b)) eqn:Et.
  { destruct (allow_space_before_first_header_name hc && first && ws b).
    - destruct (span ws (b :: r)); discriminate.
    - apply ref_invalid_part. }
  pose proof (span_app tchar (b :: r)) as Hs. pose proof (span_forall tchar (b :: r)) as Hall.
  destruct (span tchar (b :: r)) as [name r1]. cbn [fst snd] in *.
  assert (Hname : Forall (fun x => plain x = true) name).
  { eapply Forall_impl; [|exact Hall]. intros x Hx. apply tchar_plain. exact Hx. }
  rewrite Hs. destruct r1 as [|c r2].
  { intros _. rewrite blank_free_plain_list by exact Hname. reflexivity. }
  destruct (is 58 c) eqn:E58.
  { apply is_eq in E58. subst c. apply part_ok_prefix; [exact Hname|]. apply part_ok_cons; [reflexivity|]. apply ref_value_part. }
  destruct (allow_spaces_after_header_name hc && ws c) eqn:Esa.
  - pose proof (span_app ws (c :: r2)) as Hw. pose proof (span_forall ws (c :: r2)) as Hwall.
    destruct (span ws (c :: r2)) as [w r3]. cbn [fst snd] in *.
    assert (Hws : Forall (fun x => plain x = true) w).
    { eapply Forall_impl; [|exact Hwall]. intros x Hx. apply ws_plain. exact Hx. }
    rewrite Hw. apply part_ok_prefix; [exact Hname|]. apply part_ok_prefix; [exact Hws|].
    destruct r3 as [|c' r4]; [intros _; reflexivity|].
    destruct (is 58 c') eqn:E58'.
    + apply is_eq in E58'. subst c'. apply part_ok_cons; [reflexivity|]. apply ref_value_part.
    + apply ref_invalid_part.
  - apply part_ok_prefix; [exact Hname|]. apply ref_invalid_part.
Qed.

(* Partial from the block: the region contains no empty line (and does not start with one) *)
Lemma ref_header_block_partial : forall f cap hs off l hs',
  ref_header_block hc f cap hs off l = (Partial, hs') ->
  not_eol_start l = true /\ blank_free l = true.
Proof.
  induction f as [|f IH]; intros cap hs off l hs' H; cbn [ref_header_block] in H; [discriminate|].
  pose proof (header_line_framed hc (null hs) off l) as Hc.
  pose proof (line_first_ok hc (null hs) off l) as Hfo.
  pose proof (ref_header_line_part (null hs) off l) as Hp.
  destruct (ref_header_line hc (null hs) off l) as [x o r| |e]; [|apply Hp; reflexivity|discriminate].
  cbn [consumed] in Hc. destruct Hc as [q (Hl & Hne & HPf & _)].
  assert (Rec : forall hs0 o0, x <> LEnd -> ref_header_block hc f cap hs0 o0 r = (Partial, hs') ->
                not_eol_start l = true /\ blank_free l = true).
  { intros hs0 o0 Hx H0. apply IH in H0 as [H1 H2].
    split; [apply first_ok_not_eol; eapply Hfo; eauto|]. rewrite Hl. apply HPf; assumption. }
  destruct x as [| |nm v]; [discriminate| |].
  - eapply Rec; [discriminate|exact H].
  - destruct (Nat.ltb (length hs) cap); [eapply Rec; [discriminate|exact H]|discriminate].
Qed.
End PartPass.

Theorem ref_headers_partial hc cap off l hs :
  ref_headers hc cap off l = (Partial, hs) -> blank_free (10%N :: l) = true.
Proof.
  unfold ref_headers. intros H. apply ref_header_block_partial in H as [H1 H2].
  rewrite blank_free_cons, H1, H2, orb_true_r. reflexivity.
Qed.

(* ---- chunk-size line: n is just past the first CR LF ---- *)
Definition no_cr (l : list N) : Prop := Forall (fun b => is 13 b = false) l.

Lemma span_no_cr p l : (forall b, p b = true -> is 13 b = false) -> no_cr (fst (span p l)).
Proof. intros Hp. eapply Forall_impl; [|apply span_forall]. exact Hp. Qed.

Lemma hexdig_no_cr b : hexdig b = true -> is 13 b = false.
Proof.
  intros H. destruct (is 13 b) eqn:E; [|reflexivity]. apply is_eq in E. subst b. discriminate H.
Qed.
Lemma ws_no_cr b : ws b = true -> is 13 b = false.
Proof.
  intros H. destruct (is 13 b) eqn:E; [|reflexivity]. apply is_eq in E. subst b. discriminate H.
Qed.

Theorem ref_chunk_framing buf n v :
  ref_chunk buf = (Complete n, v) ->
  exists pre r, buf = pre ++ 13%N :: 10%N :: r /\ n = length pre + 2 /\ no_cr pre.
Proof.
  unfold ref_chunk.
  pose proof (span_app hexdig buf) as Hs1. pose proof (span_no_cr hexdig buf hexdig_no_cr) as Hn1.
  destruct (span hexdig buf) as [ds r1]. cbn [fst snd] in *.
  destruct (Nat.ltb 16 (length ds)); [discriminate|].
  destruct r1 as [|x1 r1']; [discriminate|]. destruct (null ds); [discriminate|].
  pose proof (span_app ws (x1 :: r1')) as Hs2. pose proof (span_no_cr ws (x1 :: r1') ws_no_cr) as Hn2.
  destruct (span ws (x1 :: r1')) as [w r2]. cbn [fst snd] in *.
  destruct r2 as [|b r3]; [discriminate|].
  destruct (is 13 b) eqn:E13.
  { apply is_eq in E13. subst b. destruct r3 as [|d r4]; [discriminate|]. destruct (is 10 d) eqn:E10; [|discriminate].
    apply is_eq in E10. subst d. intros [= <- _]. exists (ds ++ w), r4.
    split; [rewrite Hs1, Hs2, <- app_assoc; reflexivity|]. split; [rewrite app_length; lia|].
    apply Forall_app. split; assumption. }
  destruct (is 59 b) eqn:E59; [|discriminate].
  pose proof (span_app (fun x => negb (is 13 x)) r3) as Hs3.
  pose proof (span_no_cr (fun x => negb (is 13 x)) r3 (fun b0 H => proj1 (negb_true_iff _) H)) as Hn3.
  pose proof (span_stop (fun x => negb (is 13 x)) r3) as Hst.
  destruct (span (fun x => negb (is 13 x)) r3) as [e r4]. cbn [fst snd] in *.
  destruct r4 as [|c r5]; [discriminate|]. specialize (Hst c r5 eq_refl). apply negb_false_iff in Hst. apply is_eq in Hst. subst c.
  destruct r5 as [|d r6]; [discriminate|]. destruct (is 10 d) eqn:E10; [|discriminate].
  apply is_eq in E10. subst d. intros [= <- _]. exists (ds ++ w ++ b :: e), r6.
  split; [rewrite Hs1, Hs2, Hs3, <- !app_assoc; reflexivity|].
  split; [rewrite !app_length; cbn [length]; lia|].
  apply Forall_app. split; [assumption|]. apply Forall_app. split; [assumption|]. constructor; assumption.
Qed.

(* Partial from the chunk-size parser: there is no CR LF in the buffer *)
Theorem ref_chunk_partial buf v :
  ref_chunk buf = (Partial, v) -> no_cr buf \/ exists pre, buf = pre ++ [13%N] /\ no_cr pre.
Proof.
  unfold ref_chunk.
  pose proof (span_app hexdig buf) as Hs1. pose proof (span_no_cr hexdig buf hexdig_no_cr) as Hn1.
  destruct (span hexdig buf) as [ds r1]. cbn [fst snd] in *.
  destruct (Nat.ltb 16 (length ds)); [discriminate|].
  destruct r1 as [|x1 r1']; [intros _; left; rewrite Hs1, app_nil_r; exact Hn1|]. destruct (null ds); [discriminate|].
  pose proof (span_app ws (x1 :: r1')) as Hs2. pose proof (span_no_cr ws (x1 :: r1') ws_no_cr) as Hn2.
  destruct (span ws (x1 :: r1')) as [w r2]. cbn [fst snd] in *.
  destruct r2 as [|b r3].
  { intros _. left. rewrite Hs1, Hs2, app_nil_r. apply Forall_app. split; assumption. }
  destruct (is 13 b) eqn:E13.
  { apply is_eq in E13. subst b. destruct r3 as [|d r4]; [|destruct (is 10 d); discriminate].
    intros _. right. exists (ds ++ w). split; [rewrite Hs1, Hs2, <- app_assoc; reflexivity|]. apply Forall_app. split; assumption. }
  destruct (is 59 b) eqn:E59; [|discriminate].
  pose proof (span_app (fun x => negb (is 13 x)) r3) as Hs3.
  pose proof (span_no_cr (fun x => negb (is 13 x)) r3 (fun b0 H => proj1 (negb_true_iff _) H)) as Hn3.
  pose proof (span_stop (fun x => negb (is 13 x)) r3) as Hst.
  destruct (span (fun x => negb (is 13 x)) r3) as [e r4]. cbn [fst snd] in *.
  assert (Hpre : no_cr (ds ++ w ++ b :: e)).
  { apply Forall_app. split; [assumption|]. apply Forall_app. split; [assumption|]. constructor; assumption. }
  destruct r4 as [|c r5].
  { intros _. left. rewrite Hs1, Hs2, Hs3, app_nil_r. exact Hpre. }
  specialize (Hst c r5 eq_refl). apply negb_false_iff in Hst. apply is_eq in Hst. subst c.
  destruct r5 as [|d r6]; [|destruct (is 10 d); discriminate].
  intros _. right. exists (ds ++ w ++ b :: e). split; [rewrite Hs1, Hs2, Hs3, <- !app_assoc; reflexivity|exact Hpre].
Qed.

(* ---- the start line ends with LF ---- *)
Definition Pe (q : list N) : Prop := exists q', q = q' ++ [10%N].
Definition Pt (q : list N) : Prop := True.

Lemma consumed_weaken {A} (P Q : list N -> Prop) l (x : rres A) :
  (forall q, P q -> Q q) -> consumed P l x -> consumed Q l x.
Proof. intros H. destruct x; cbn [consumed]; auto. intros [q [-> Hq]]. exists q. auto. Qed.

Lemma consumed_rbind_gen {A B} (P Q R : list N -> Prop) l (x : rres A) (g : A -> nat -> list N -> rres B) :
  (forall q q', P q -> Q q' -> R (q ++ q')) ->
  consumed P l x -> (forall a o r, consumed Q r (g a o r)) -> consumed R l (rbind x g).
Proof.
  intros HR. destruct x as [a o r| |]; cbn [rbind consumed]; auto.
  intros [q [-> Hq]] Hg. specialize (Hg a o r). destruct (g a o r) as [b o' r'| |]; cbn [consumed] in *; auto.
  destruct Hg as [q' [-> Hq']]. exists (q ++ q'). split; [rewrite app_assoc; reflexivity|auto].
Qed.

Lemma Pt_Pe q q' : Pt q -> Pe q' -> Pe (q ++ q').
Proof. intros _ [x ->]. exists (q ++ x). rewrite app_assoc. reflexivity. Qed.

Lemma consumed_te {A B} l (x : rres A) (g : A -> nat -> list N -> rres B) :
  consumed Pc l x -> (forall a o r, consumed Pe r (g a o r)) -> consumed Pe l (rbind x g).
Proof.
  intros Hx Hg. eapply consumed_rbind_gen; [exact Pt_Pe| |exact Hg].
  eapply consumed_weaken; [|exact Hx]. intros; exact I.
Qed.

Lemma ref_eol_lf e off l : consumed Pe l (ref_eol e off l).
Proof.
  unfold ref_eol. destruct l as [|b r]; [exact I|]. destruct (is 13 b) eqn:E13.
  - apply is_eq in E13. subst b. destruct r as [|b2 r2]; [exact I|]. destruct (is 10 b2) eqn:E10; [|exact I].
    apply is_eq in E10. subst b2. exists [13%N; 10%N]. split; [reflexivity|]. exists [13%N]. reflexivity.
  - destruct (is 10 b) eqn:E10; [|exact I]. apply is_eq in E10. subst b. exists [10%N]. split; [reflexivity|]. exists []. reflexivity.
Qed.

Lemma ref_request_line_lf ms buf : consumed Pe buf (snd (ref_request_line ms buf)).
Proof.
  unfold ref_request_line.
  assert (H : consumed Pe buf
    (rbind (ref_empty_lines 0 buf) (fun _ o1 l1 =>
     rbind (ref_method o1 l1) (fun _ o2 l2 =>
     rbind (rbind (ref_spaces ms o2 l2) (fun _ o l => ref_target o l)) (fun _ o3 l3 =>
     rbind (rbind (ref_spaces ms o3 l3) (fun _ o l => ref_version o l)) (fun _ o4 l4 =>
     ref_eol NewLine o4 l4)))))).
  { apply consumed_te; [apply (ref_empty_lines_clean (length buf)); lia|]. intros.
    apply consumed_te; [apply ref_method_clean|]. intros.
    apply consumed_te; [apply consumed_rbind; [apply ref_spaces_clean|intros; apply ref_target_clean]|]. intros.
    apply consumed_te; [apply consumed_rbind; [apply ref_spaces_clean|intros; apply ref_version_clean]|]. intros.
    apply ref_eol_lf. }
  destruct (ref_empty_lines 0 buf) as [u1 o1 l1| |e1]; cbn [rbind snd] in *; auto.
  destruct (ref_method o1 l1) as [m o2 l2| |e2]; cbn [rbind snd] in *; auto.
  destruct (rbind (ref_spaces ms o2 l2) _) as [p o3 l3| |e3]; cbn [rbind snd] in *; auto.
  destruct (rbind (ref_spaces ms o3 l3) (fun _ o l => ref_version o l)) as [v o4 l4| |e4]; cbn [rbind snd] in *; auto.
Qed.

Lemma ref_reason_lf off l : consumed Pe l (ref_reason off l).
Proof.
  unfold ref_reason. pose proof (span_app reason_char l) as Hs.
  destruct (span reason_char l) as [t r]. cbn [fst snd] in *.
  pose proof (ref_eol_lf Status (length t + off) r) as He.
  destruct (ref_eol Status (length t + off) r) as [u o r'| |]; cbn [consumed] in *; auto.
  destruct He as [q [-> [x ->]]]. exists (t ++ x ++ [10%N]). split; [rewrite Hs, !app_assoc; reflexivity|].
  exists (t ++ x). rewrite app_assoc. reflexivity.
Qed.

Lemma ref_after_code_lf ms off l : consumed Pe l (ref_after_code ms off l).
Proof.
  unfold ref_after_code. destruct l as [|b r]; [exact I|].
  destruct (is 32 b) eqn:E32.
  - eapply consumed_cons; [apply consumed_te; [apply ref_spaces_clean|intros; apply ref_reason_lf]|].
    intros q [x ->]. exists (b :: x). reflexivity.
  - destruct (is 13 b || is 10 b); [|exact I].
    pose proof (ref_eol_lf Status off (b :: r)) as He.
    destruct (ref_eol Status off (b :: r)); cbn [consumed] in *; auto.
Qed.

Lemma ref_status_line_lf ms buf : consumed Pe buf (snd (ref_status_line ms buf)).
Proof.
  unfold ref_status_line.
  assert (H : consumed Pe buf
    (rbind (rbind (ref_empty_lines 0 buf) (fun _ o l => ref_version o l)) (fun _ o1 l1 =>
     rbind (rbind (rbind (ref_sp Version o1 l1) (fun _ o l => ref_spaces ms o l)) (fun _ o l => ref_code o l)) (fun _ o2 l2 =>
     ref_after_code ms o2 l2)))).
  { apply consumed_te; [apply consumed_rbind; [apply (ref_empty_lines_clean (length buf)); lia|intros; apply ref_version_clean]|]. intros.
    apply consumed_te; [apply consumed_rbind; [apply consumed_rbind; [apply ref_sp_clean|intros; apply ref_spaces_clean]|intros; apply ref_code_clean]|].
    intros. apply ref_after_code_lf. }
  destruct (rbind (ref_empty_lines 0 buf) _) as [v o1 l1| |e1]; cbn [rbind snd] in *; auto.
  destruct (rbind (rbind (ref_sp Version o1 l1) _) _) as [c o2 l2| |e2]; cbn [rbind snd] in *; auto.
  destruct (ref_after_code ms o2 l2) as [r o3 l3| |e3]; cbn [snd consumed] in *; auto.
Qed.

(* ---- whole messages ---- *)
(* [framed hc buf n]: buf = start ++ LF :: body ++ eol ++ rest, n is the offset just after eol,
   eol is an empty line, and there is no empty line in LF :: body *)
Definition framed (spb : bool) (buf : list N) (n : nat) : Prop :=
  exists start body eol rest,
    buf = (start ++ [10%N]) ++ body ++ eol ++ rest /\
    n = length (start ++ [10%N]) + length body + length eol /\
    (eol = [10%N] \/ eol = [13%N; 10%N]) /\
    blank_free (10%N :: body) = true /\
    (spb = false -> body = [] \/ last body 0%N = 10%N).

Theorem ref_request_framing cf cap buf n :
  rq_status (ref_request cf cap buf) = Complete n ->
  framed (allow_space_before_first_header_name (request_hcfg cf)) buf n.
Proof.
  unfold ref_request.
  pose proof (ref_request_line_lf (allow_multiple_spaces_in_request_line_delimiters cf) buf) as Hc.
  pose proof (ref_request_line_adv (allow_multiple_spaces_in_request_line_delimiters cf) buf) as Ha.
  destruct (ref_request_line _ buf) as [st r]. cbn [snd] in *.
  pose proof (consumed_len Pe 0 buf _ Hc Ha) as Hq.
  destruct r as [u o l| |e]; try discriminate. destruct Hq as [q (Hl & [start ->] & ->)].
  destruct (ref_headers (request_hcfg cf) cap _ l) as [s hs] eqn:Eh. cbn [rq_status]. intros ->.
  apply ref_headers_framing in Eh as [body [eol [rest (-> & -> & He & Hb & Hlast)]]].
  exists start, body, eol, rest. repeat split; auto; lia.
Qed.

Theorem ref_response_framing cf cap buf n :
  rp_status (ref_response cf cap buf) = Complete n ->
  framed (allow_space_before_first_header_name (response_hcfg cf)) buf n.
Proof.
  unfold ref_response.
  pose proof (ref_status_line_lf (allow_multiple_spaces_in_response_status_delimiters cf) buf) as Hc.
  pose proof (ref_status_line_adv (allow_multiple_spaces_in_response_status_delimiters cf) buf) as Ha.
  destruct (ref_status_line _ buf) as [st r]. cbn [snd] in *.
  pose proof (consumed_len Pe 0 buf _ Hc Ha) as Hq.
  destruct r as [u o l| |e]; try discriminate. destruct Hq as [q (Hl & [start ->] & ->)].
  destruct (ref_headers (response_hcfg cf) cap _ l) as [s hs] eqn:Eh. cbn [rp_status]. intros ->.
  apply ref_headers_framing in Eh as [body [eol [rest (-> & -> & He & Hb & Hlast)]]].
  exists start, body, eol, rest. repeat split; auto; lia.
Qed.

(* Partial: either the start line is not finished, or the bytes after it contain no empty line *)
Definition unterminated {A} (buf : list N) (line : rres A) : Prop :=
  match line with
  | RPart => True
  | ROk _ o rest => exists start, buf = (start ++ [10%N]) ++ rest /\ blank_free (10%N :: rest) = true
  | RErr _ => False
  end.

Theorem ref_request_partial cf cap buf :
  rq_status (ref_request cf cap buf) = Partial ->
  unterminated buf (snd (ref_request_line (allow_multiple_spaces_in_request_line_delimiters cf) buf)).
Proof.
  unfold ref_request.
  pose proof (ref_request_line_lf (allow_multiple_spaces_in_request_line_delimiters cf) buf) as Hc.
  destruct (ref_request_line _ buf) as [st r]. cbn [snd] in *.
  destruct r as [u o l| |e]; cbn [unterminated rq_status]; [|auto|discriminate].
  destruct Hc as [q (Hl & [start ->])].
  destruct (ref_headers (request_hcfg cf) cap _ l) as [s hs] eqn:Eh. cbn [rq_status]. intros ->.
  exists start. split; [exact Hl|]. eapply ref_headers_partial; exact Eh.
Qed.

Theorem ref_response_partial cf cap buf :
  rp_status (ref_response cf cap buf) = Partial ->
  unterminated buf (snd (ref_status_line (allow_multiple_spaces_in_response_status_delimiters cf) buf)).
Proof.
  unfold ref_response.
  pose proof (ref_status_line_lf (allow_multiple_spaces_in_response_status_delimiters cf) buf) as Hc.
  destruct (ref_status_line _ buf) as [st r]. cbn [snd] in *.
  destruct r as [u o l| |e]; cbn [unterminated rp_status]; [|auto|discriminate].
  destruct Hc as [q (Hl & [start ->])].
  destruct (ref_headers (response_hcfg cf) cap _ l) as [s hs] eqn:Eh. cbn [rp_status]. intros ->.
  exists start. split; [exact Hl|]. eapply ref_headers_partial; exact Eh.
Qed.
