(* C03, remaining halves: Partial means no empty line yet (header block), and chunk-size framing. *)
From Coq Require Import List NArith ZArith Lia Bool ZifyBool ZifyN ZifyNat.
From HV Require Import Cursor Scan Model Api Spec Oracle.
From HV.Proofs Require Import Base RefFacts StartLine Headers Refine Entries Clean.
Import ListNotations.

Lemma blank_free_plain_list a t : Forall (fun b => plain b = true) a -> blank_free (a ++ t) = blank_free t.
Proof. induction 1 as [|x a Hx Ha IH]; [reflexivity|]. cbn [app]. rewrite blank_free_plain by exact Hx. exact IH. Qed.

Definition part_ok {A} (l : list N) (x : rres A) : Prop := x = RPart -> blank_free l = true.

Lemma part_ok_cons {A} b l (x : rres A) : plain b = true -> part_ok l x -> part_ok (b :: l) x.
Proof. intros Hb H E. rewrite blank_free_plain by exact Hb. auto. Qed.
Lemma part_ok_prefix {A} a l (x : rres A) : Forall (fun b => plain b = true) a -> part_ok l x -> part_ok (a ++ l) x.
Proof. intros Ha H E. rewrite blank_free_plain_list by exact Ha. auto. Qed.
Lemma part_ok_map {A B} l (x : rres A) (g : A -> nat -> list N -> rres B) :
  (forall a o r, g a o r <> RPart) -> part_ok l x -> part_ok l (rbind x g).
Proof. intros Hg H E. destruct x; cbn [rbind] in E; [exfalso; eapply Hg; eauto|auto|discriminate]. Qed.

Section PartPass.
Variable hc : hcfg.

Lemma ref_invalid_part ign e off l : part_ok l (ref_invalid ign e off l).
Proof.
  unfold ref_invalid, part_ok. destruct ign; cbn [negb]; [|discriminate].
  set (p := fun b => negb (is 13 b || is 10 b || is 0 b)).
  pose proof (span_app p l) as Hs. pose proof (span_forall p l) as Hall.
  assert (Hp : forall b, p b = true -> plain b = true).
  { intros b Hb. unfold plain, p in *. apply negb_true_iff in Hb.
    apply orb_false_iff in Hb as [Hb H0]. apply orb_false_iff in Hb as [H13 H10]. rewrite H0, H13, H10. reflexivity. }
  pose proof (span_stop p l) as Hst.
  destruct (span p l) as [junk r]. cbn [fst snd] in *.
  assert (Hj : Forall (fun b => plain b = true) junk) by (eapply Forall_impl; [|exact Hall]; exact Hp).
  rewrite Hs. rewrite blank_free_plain_list by exact Hj.
  destruct r as [|b r1]; [reflexivity|]. specialize (Hst b r1 eq_refl).
  destruct (is 0 b) eqn:E0; [discriminate|]. destruct (is 10 b) eqn:E10; [discriminate|].
  destruct r1 as [|b2 r2]; [|destruct (is 10 b2); discriminate].
  intros _. rewrite blank_free_cons, E10. reflexivity.
Qed.

Lemma bf_crlf_ws b r : ws b = true -> blank_free (13%N :: 10%N :: b :: r) = blank_free (b :: r).
Proof.
  intros Hw. rewrite !blank_free_cons. change (is 10 13) with false. change (is 10 10) with true.
  cbn [negb orb andb]. rewrite (not_eol_plain b r (ws_plain b Hw)). reflexivity.
Qed.
Lemma bf_lf_ws b r : ws b = true -> blank_free (10%N :: b :: r) = blank_free (b :: r).
Proof.
  intros Hw. rewrite !blank_free_cons. change (is 10 10) with true.
  cbn [negb orb andb]. rewrite (not_eol_plain b r (ws_plain b Hw)). reflexivity.
Qed.

Lemma ref_value_lines_part : forall n l voff racc off, length l <= n ->
  part_ok l (ref_value_lines hc voff racc off l).
Proof.
  induction n as [|n IH]; intros l voff racc off Hn.
  { destruct l; [intros _; reflexivity|cbn [length] in Hn; lia]. }
  destruct l as [|b r]; [intros _; reflexivity|]. cbn [length] in Hn. cbn [ref_value_lines].
  destruct (value_char b) eqn:Ev.
  { apply part_ok_cons; [apply value_char_plain; exact Ev|]. apply IH. lia. }
  destruct (is 13 b) eqn:E13.
  { apply is_eq in E13. subst b.
    destruct r as [|b2 r2]; [intros _; reflexivity|]. destruct (is 10 b2) eqn:E10; cbn [negb]; [|discriminate].
    apply is_eq in E10. subst b2. cbn [length] in Hn.
    destruct (allow_obsolete_multiline_headers hc); [|discriminate].
    destruct r2 as [|b3 r3]; [intros _; reflexivity|]. destruct (ws b3) eqn:Ew; [|discriminate].
    intros E. rewrite bf_crlf_ws by exact Ew. eapply IH; [|exact E]. cbn [length] in *. lia. }
  destruct (is 10 b) eqn:E10.
  { apply is_eq in E10. subst b.
    destruct (allow_obsolete_multiline_headers hc); [|discriminate].
    destruct r as [|b3 r3]; [intros _; reflexivity|]. destruct (ws b3) eqn:Ew; [|discriminate].
    intros E. rewrite bf_lf_ws by exact Ew. eapply IH; [|exact E]. lia. }
  apply part_ok_map; [discriminate|]. apply ref_invalid_part.
Qed.

Lemma ref_value_start_part : forall n l off, length l <= n ->
  part_ok l (ref_value_start hc off l).
Proof.
  induction n as [|n IH]; intros l off Hn.
  { destruct l; [intros _; reflexivity|cbn [length] in Hn; lia]. }
  destruct l as [|b r]; [intros _; reflexivity|]. cbn [length] in Hn. cbn [ref_value_start].
  destruct (ws b) eqn:Ew.
  { apply part_ok_cons; [apply ws_plain; exact Ew|]. apply IH. lia. }
  destruct (value_char b) eqn:Ev.
  { apply (ref_value_lines_part (S (length r))). cbn [length]. lia. }
  destruct (is 13 b) eqn:E13.
  { apply is_eq in E13. subst b.
    destruct r as [|b2 r2]; [intros _; reflexivity|]. destruct (is 10 b2) eqn:E10; cbn [negb]; [|discriminate].
    apply is_eq in E10. subst b2. cbn [length] in Hn.
    destruct (allow_obsolete_multiline_headers hc); [|discriminate].
    destruct r2 as [|b3 r3]; [intros _; reflexivity|]. destruct (ws b3) eqn:Ew3; [|discriminate].
    intros E. rewrite bf_crlf_ws by exact Ew3. eapply IH; [|exact E]. cbn [length] in *. lia. }
  destruct (is 10 b) eqn:E10.
  { apply is_eq in E10. subst b.
    destruct (allow_obsolete_multiline_headers hc); [|discriminate].
    destruct r as [|b3 r3]; [intros _; reflexivity|]. destruct (ws b3) eqn:Ew3; [|discriminate].
    intros E. rewrite bf_lf_ws by exact Ew3. eapply IH; [|exact E]. lia. }
  apply part_ok_map; [discriminate|]. apply ref_invalid_part.
Qed.

Lemma ref_value_part name off l : part_ok l (ref_value hc name off l).
Proof.
  unfold ref_value. apply part_ok_map; [discriminate|]. apply (ref_value_start_part (length l)). apply le_n.
Qed.

Lemma ref_header_line_part first off l :
  ref_header_line hc first off l = RPart -> not_eol_start l = true /\ blank_free l = true.
Proof.
  unfold ref_header_line. destruct l as [|b r]; [auto|].
  destruct (is 13 b) eqn:E13.
  { apply is_eq in E13. subst b. destruct r as [|b2 r2]; [auto|]. destruct (is 10 b2); discriminate. }
  destruct (is 10 b) eqn:E10; [discriminate|].
  intros H. split; [cbn [not_eol_start]; rewrite E10, E13; reflexivity|]. revert H.
  destruct (negb (tchar b)) eqn:Et.
  { destruct (allow_space_before_first_header_name hc && first && ws b).
    - destruct (span ws (b :: r)); discriminate.
    - apply ref_invalid_part. }
  pose proof (span_app tchar (b :: r)) as Hs. pose proof (span_forall tchar (b :: r)) as Hall.
  destruct (span tchar (b :: r)) as [name r1]. cbn [fst snd] in *.
  assert (Hname : Forall (fun x => plain x = true) name).
  { eapply Forall_impl; [|exact Hall]. intros x Hx. apply tchar_plain. exact Hx. }
  rewrite Hs. destruct r1 as [|c r2].
  { intros _. rewrite blank_free_plain_list by exact Hname. reflexivity. }
  destruct (is 58 c) eqn:E58.
  { apply is_eq in E58. subst c. apply part_ok_prefix; [exact Hname|]. apply part_ok_cons; [reflexivity|]. apply ref_value_part. }
  destruct (allow_spaces_after_header_name hc && ws c) eqn:Esa.
  - pose proof (span_app ws (c :: r2)) as Hw. pose proof (span_forall ws (c :: r2)) as Hwall.
    destruct (span ws (c :: r2)) as [w r3]. cbn [fst snd] in *.
    assert (Hws : Forall (fun x => plain x = true) w).
    { eapply Forall_impl; [|exact Hwall]. intros x Hx. apply ws_plain. exact Hx. }
    rewrite Hw. apply part_ok_prefix; [exact Hname|]. apply part_ok_prefix; [exact Hws|].
    destruct r3 as [|c' r4]; [intros _; reflexivity|].
    destruct (is 58 c') eqn:E58'.
    + apply is_eq in E58'. subst c'. apply part_ok_cons; [reflexivity|]. apply ref_value_part.
    + apply ref_invalid_part.
  - apply part_ok_prefix; [exact Hname|]. apply ref_invalid_part.
Qed.

(* Partial from the block: the region contains no empty line (and does not start with one) *)
Lemma ref_header_block_partial : forall f cap hs off l hs',
  ref_header_block hc f cap hs off l = (Partial, hs') ->
  not_eol_start l = true /\ blank_free l = true.
Proof.
  induction f as [|f IH]; intros cap hs off l hs' H; cbn [ref_header_block] in H; [discriminate|].
  pose proof (header_line_framed hc (null hs) off l) as Hc.
  pose proof (line_first_ok hc (null hs) off l) as Hfo.
  pose proof (ref_header_line_part (null hs) off l) as Hp.
  destruct (ref_header_line hc (null hs) off l) as [x o r| |e]; [|apply Hp; reflexivity|discriminate].
  cbn [consumed] in Hc. destruct Hc as [q (Hl & Hne & HPf & _)].
  assert (Rec : forall hs0 o0, x <> LEnd -> ref_header_block hc f cap hs0 o0 r = (Partial, hs') ->
                not_eol_start l = true /\ blank_free l = true).
  { intros hs0 o0 Hx H0. apply IH in H0 as [H1 H2].
    split; [apply first_ok_not_eol; eapply Hfo; eauto|]. rewrite Hl. apply HPf; assumption. }
  destruct x as [| |nm v]; [discriminate| |].
  - eapply Rec; [discriminate|exact H].
  - destruct (Nat.ltb (length hs) cap); [eapply Rec; [discriminate|exact H]|discriminate].
Qed.
End PartPass.

Theorem ref_headers_partial hc cap off l hs :
  ref_headers hc cap off l = (Partial, hs) -> blank_free (10%N :: l) = true.
Proof.
  unfold ref_headers. intros H. apply ref_header_block_partial in H as [H1 H2].
  rewrite blank_free_cons, H1, H2, orb_true_r. reflexivity.
Qed.

(* ---- chunk-size line: n is just past the first CR LF ---- *)
Definition no_cr (l : list N) : Prop := Forall (fun b => is 13 b = false) l.

Lemma span_no_cr p l : (forall b, p b = true -> is 13 b = false) -> no_cr (fst (span p l)).
Proof. intros Hp. eapply Forall_impl; [|apply span_forall]. exact Hp. Qed.

Lemma hexdig_no_cr b : hexdig b = true -> is 13 b = false.
Proof.
  intros H. destruct (is 13 b) eqn:E; [|reflexivity]. apply is_eq in E. subst b. discriminate H.
Qed.
Lemma ws_no_cr b : ws b = true -> is 13 b = false.
Proof.
  intros H. destruct (is 13 b) eqn:E; [|reflexivity]. apply is_eq in E. subst b. discriminate H.
Qed.

Theorem ref_chunk_framing buf n v :
  ref_chunk buf = (Complete n, v) ->
  exists pre r, buf = pre ++ 13%N :: 10%N :: r /\ n = length pre + 2 /\ no_cr pre.
Proof.
  unfold ref_chunk.
  pose proof (span_app hexdig buf) as Hs1. pose proof (span_no_cr hexdig buf hexdig_no_cr) as Hn1.
  destruct (span hexdig buf) as [ds r1]. cbn [fst snd] in *.
  destruct (Nat.ltb 16 (length ds)); [discriminate|].
  destruct r1 as [|x1 r1']; [discriminate|]. destruct (null ds); [discriminate|].
  pose proof (span_app ws (x1 :: r1')) as Hs2. pose proof (span_no_cr ws (x1 :: r1') ws_no_cr) as Hn2.
  destruct (span ws (x1 :: r1')) as [w r2]. cbn [fst snd] in *.
  destruct r2 as [|b r3]; [discriminate|].
  destruct (is 13 b) eqn:E13.
  { apply is_eq in E13. subst b. destruct r3 as [|d r4]; [discriminate|]. destruct (is 10 d) eqn:E10; [|discriminate].
    apply is_eq in E10. subst d. intros [= <- _]. exists (ds ++ w), r4.
    split; [rewrite Hs1, Hs2, <- app_assoc; reflexivity|]. split; [rewrite app_length; lia|].
    apply Forall_app. split; assumption. }
  destruct (is 59 b) eqn:E59; [|discriminate].
  pose proof (span_app (fun x => negb (is 13 x)) r3) as Hs3.
  pose proof (span_no_cr (fun x => negb (is 13 x)) r3 (fun b0 H => proj1 (negb_true_iff _) H)) as Hn3.
  pose proof (span_stop (fun x => negb (is 13 x)) r3) as Hst.
  destruct (span (fun x => negb (is 13 x)) r3) as [e r4]. cbn [fst snd] in *.
  destruct r4 as [|c r5]; [discriminate|]. specialize (Hst c r5 eq_refl). apply negb_false_iff in Hst. apply is_eq in Hst. subst c.
  destruct r5 as [|d r6]; [discriminate|]. destruct (is 10 d) eqn:E10; [|discriminate].
  apply is_eq in E10. subst d. intros [= <- _]. exists (ds ++ w ++ b :: e), r6.
  split; [rewrite Hs1, Hs2, Hs3, <- !app_assoc; reflexivity|].
  split; [rewrite !app_length; cbn [length]; lia|].
  apply Forall_app. split; [assumption|]. apply Forall_app. split; [assumption|]. constructor; assumption.
Qed.

(* Partial from the chunk-size parser: there is no CR LF in the buffer *)
Theorem ref_chunk_partial buf v :
  ref_chunk buf = (Partial, v) -> no_cr buf \/ exists pre, buf = pre ++ [13%N] /\ no_cr pre.
Proof.
  unfold ref_chunk.
  pose proof (span_app hexdig buf) as Hs1. pose proof (span_no_cr hexdig buf hexdig_no_cr) as Hn1.
  destruct (span hexdig buf) as [ds r1]. cbn [fst snd] in *.
  destruct (Nat.ltb 16 (length ds)); [discriminate|].
  destruct r1 as [|x1 r1']; [intros _; left; rewrite Hs1, app_nil_r; exact Hn1|]. destruct (null ds); [discriminate|].
  pose proof (span_app ws (x1 :: r1')) as Hs2. pose proof (span_no_cr ws (x1 :: r1') ws_no_cr) as Hn2.
  destruct (span ws (x1 :: r1')) as [w r2]. cbn [fst snd] in *.
  destruct r2 as [|b r3].
  { intros _. left. rewrite Hs1, Hs2, app_nil_r. apply Forall_app. split; assumption. }
  destruct (is 13 b) eqn:E13.
  { apply is_eq in E13. subst b. destruct r3 as [|d r4]; [|destruct (is 10 d); discriminate].
    intros _. right. exists (ds ++ w). split; [rewrite Hs1, Hs2, <- app_assoc; reflexivity|]. apply Forall_app. split; assumption. }
  destruct (is 59 b) eqn:E59; [|discriminate].
  pose proof (span_app (fun x => negb (is 13 x)) r3) as Hs3.
  pose proof (span_no_cr (fun x => negb (is 13 x)) r3 (fun b0 H => proj1 (negb_true_iff _) H)) as Hn3.
  pose proof (span_stop (fun x => negb (is 13 x)) r3) as Hst.
  destruct (span (fun x => negb (is 13 x)) r3) as [e r4]. cbn [fst snd] in *.
  assert (Hpre : no_cr (ds ++ w ++ b :: e)).
  { apply Forall_app. split; [assumption|]. apply Forall_app. split; [assumption|]. constructor; assumption. }
  destruct r4 as [|c r5].
  { intros _. left. rewrite Hs1, Hs2, Hs3, app_nil_r. exact Hpre. }
  specialize (Hst c r5 eq_refl). apply negb_false_iff in Hst. apply is_eq in Hst. subst c.
  destruct r5 as [|d r6]; [|destruct (is 10 d); discriminate].
  intros _. right. exists (ds ++ w ++ b :: e). split; [rewrite Hs1, Hs2, Hs3, <- !app_assoc; reflexivity|exact Hpre].
Qed.
