(* Proofs/Refine.v -- the public entry points of the model (Api.v) equal the reference
   parsers (Spec.v), for every environment satisfying EnvOk: request, response, header
   block; the array after the call is the headers the reference keeps, in order. *)
From Coq Require Import List NArith ZArith Lia Bool ZifyBool ZifyN ZifyNat.
From HV Require Import Cursor Scan Model Api Spec.
From HV.Proofs Require Import Base ScanLoops EnvOk StartLine Headers RefFacts.
Import ListNotations.

(* the caller's array after `hs` headers have been stored *)
Definition slots_of (hs : list (sl * sl)) (arr : list slot) : list slot :=
  map (fun h => SWritten (fst h) (snd h)) hs ++ skipn (length hs) arr.

Lemma slots_of_nil arr : slots_of [] arr = arr.
Proof. reflexivity. Qed.

Lemma slots_of_length hs arr : length hs <= length arr -> length (slots_of hs arr) = length arr.
Proof. intros H. unfold slots_of. rewrite app_length, map_length, skipn_length. lia. Qed.

Lemma write_slot_app : forall a b s, length a <= length a ->
  write_slot (length a) s (a ++ b) = match b with [] => None | _ :: b' => Some (a ++ s :: b') end.
Proof.
  induction a as [|x a IH]; intros b s _.
  - destruct b; reflexivity.
  - cbn [length app write_slot]. rewrite IH by lia. destruct b; reflexivity.
Qed.

Lemma write_slot_slots_of hs arr n v :
  write_slot (length hs) (SWritten n v) (slots_of hs arr) =
  if Nat.ltb (length hs) (length arr) then Some (slots_of (hs ++ [(n, v)]) arr) else None.
Proof.
  unfold slots_of.
  replace (length hs) with (length (map (fun h : sl * sl => SWritten (fst h) (snd h)) hs)) at 1
    by apply map_length.
  rewrite write_slot_app by lia.
  destruct (Nat.ltb_spec (length hs) (length arr)) as [H|H].
  - destruct (skipn (length hs) arr) as [|x r] eqn:Es.
    + pose proof (skipn_length (length hs) arr) as Hl. rewrite Es in Hl. cbn [length] in Hl. lia.
    + f_equal. rewrite map_app, <- app_assoc. cbn [map app fst snd]. f_equal. f_equal.
      rewrite app_length. cbn [length]. replace (length hs + 1) with (S (length hs)) by lia.
      assert (skipn 1 (skipn (length hs) arr) = r) by (rewrite Es; reflexivity).
      rewrite skipn_add in H0. replace (length hs + 1) with (S (length hs)) in H0 by lia. symmetry. exact H0.
  - rewrite skipn_all2 by lia. reflexivity.
Qed.

Definition shift_status (start : nat) (st : status) : status :=
  match st with Complete o => Complete (o - start) | x => x end.

Section WithEnv.
Variable E : env.
Hypothesis HE : env_ok E.
Variable fuel : nat.
Variable hc : hcfg.

Lemma headers_loop_agree : forall f f' l p start hs arr0,
  length l < f -> length l < f' -> length l < fuel -> bytes_ok l ->
  headers_loop E fuel hc f start (length hs) (slots_of hs arr0) (mkcur p [] l)
  = (let (st, hs') := ref_header_block hc f' (length arr0) hs p l in
     (shift_status start st, length hs', slots_of hs' arr0)).
Proof.
  induction f as [|f IH]; intros f' l p start hs arr0 Hf Hf' Hfu Hb; [lia|].
  destruct f' as [|f']; [lia|].
  cbn [headers_loop ref_header_block].
  pose proof (header_line_agree E HE fuel hc (Nat.eqb (length hs) 0) l p Hfu Hb) as H.
  replace (null hs) with (Nat.eqb (length hs) 0) by (destruct hs; reflexivity).
  pose proof (ref_header_line_adv hc (Nat.eqb (length hs) 0) p l) as Hadv.
  destruct (ref_header_line hc (Nat.eqb (length hs) 0) p l) as [x o r| |e]; cbn [agree_h] in H.
  - destruct H as [a [c' (Hm & Hrel & Hpos & Hrest & Htok)]]. rewrite Hm. cbn [stage].
    destruct Hadv as [k (Hk0 & Hk & -> & ->)].
    destruct a as [| |name value]; cbn [hrel] in Hrel.
    + subst x. rewrite Hpos. reflexivity.
    + subst x. assert (Hc' : c' = mkcur (k + p) [] (skipn k l)).
      { destruct c' as [p' t' l']. cbn [tokrev pre rest] in *.
        assert (Ht : t' = []) by (apply Htok; discriminate). subst t' l'.
        unfold apos in Hpos. cbn [tokrev pre length Nat.add] in Hpos. subst p'. reflexivity. }
      subst c'. apply IH; try (rewrite skipn_length; lia). apply bytes_ok_skipn. exact Hb.
    + destruct Hrel as [-> _].
      assert (Hc' : c' = mkcur (k + p) [] (skipn k l)).
      { destruct c' as [p' t' l']. cbn [tokrev pre rest] in *.
        assert (Ht : t' = []) by (apply Htok; discriminate). subst t' l'.
        unfold apos in Hpos. cbn [tokrev pre length Nat.add] in Hpos. subst p'. reflexivity. }
      subst c'. rewrite write_slot_slots_of.
      destruct (Nat.ltb (length hs) (length arr0)); [|reflexivity].
      replace (S (length hs)) with (length (hs ++ [(name, trim_value value)])) by (rewrite app_length; cbn [length]; lia).
      apply IH; try (rewrite skipn_length; lia). apply bytes_ok_skipn. exact Hb.
  - rewrite H. reflexivity.
  - rewrite H. reflexivity.
Qed.

(* parse_headers_iter_uninit from a committed cursor *)
Lemma headers_iter_agree : forall l p arr,
  length l < fuel -> bytes_ok l ->
  parse_headers_iter_uninit E fuel hc arr (mkcur p [] l)
  = (let (st, hs) := ref_headers hc (length arr) p l in
     (shift_status p st, length hs, slots_of hs arr)).
Proof.
  intros l p arr Hfu Hb. unfold parse_headers_iter_uninit, ref_headers.
  cbn [apos tokrev pre length Nat.add].
  apply (headers_loop_agree fuel (S (length l)) l p p [] arr); try lia; assumption.
Qed.

(* the reference never keeps more headers than the array holds, and Complete offsets grow *)
Lemma ref_header_block_facts : forall f cap hs off l st hs',
  ref_header_block hc f cap hs off l = (st, hs') ->
  (length hs <= cap -> length hs' <= cap) /\
  (forall o, st = Complete o -> off < o).
Proof.
  induction f as [|f IH]; intros cap hs off l st hs' H; cbn [ref_header_block] in H.
  - injection H as <- <-. split; [auto|discriminate].
  - pose proof (ref_header_line_adv hc (null hs) off l) as Hadv.
    destruct (ref_header_line hc (null hs) off l) as [x o r| |e].
    + destruct Hadv as [k (Hk0 & Hk & -> & ->)].
      destruct x as [| |n v].
      * injection H as <- <-. split; [auto|]. intros o [= <-]. lia.
      * apply IH in H as [H1 H2]. split; [exact H1|]. intros o Ho. specialize (H2 o Ho). lia.
      * destruct (Nat.ltb_spec (length hs) cap) as [Hlt|Hge].
        -- apply IH in H as [H1 H2]. split.
           ++ intros _. apply H1. rewrite app_length. cbn [length]. lia.
           ++ intros o Ho. specialize (H2 o Ho). lia.
        -- injection H as <- <-. split; [auto|discriminate].
    + injection H as <- <-. split; [auto|discriminate].
    + injection H as <- <-. split; [auto|discriminate].
Qed.
End WithEnv.

Lemma firstn_slots_of hs arr :
  firstn (length hs) (slots_of hs arr) = map (fun h => SWritten (fst h) (snd h)) hs.
Proof.
  unfold slots_of.
  replace (length hs) with (length (map (fun h : sl * sl => SWritten (fst h) (snd h)) hs) + 0)
    by (rewrite map_length; lia).
  rewrite firstn_app_2. cbn [firstn]. apply app_nil_r.
Qed.

Definition pick {A} (new old : option A) : option A :=
  match new with Some x => Some x | None => old end.

Definition written_of (hs : list (sl * sl)) : list slot := map (fun h => SWritten (fst h) (snd h)) hs.

(* what a request call leaves behind, as a function of the reference result *)
Definition req_result (rq : request) (arr : list slot) (r : ref_req) : status * request * list slot :=
  let st := rq_start r in
  (rq_status r,
   mkreq (pick (rs_method st) (q_method rq)) (pick (rs_path st) (q_path rq))
         (pick (rs_version st) (q_version rq))
         (match rq_status r with Complete _ => written_of (rq_headers r) | _ => q_hdrs rq end),
   slots_of (rq_headers r) arr).

Definition resp_result (rp : response) (arr : list slot) (r : ref_resp) : status * response * list slot :=
  let st := rp_start r in
  (rp_status r,
   mkresp (pick (rs_pversion st) (p_version rp)) (pick (rs_code st) (p_code rp))
          (pick (rs_reason st) (p_reason rp))
          (match rp_status r with Complete _ => written_of (rp_headers r) | _ => p_hdrs rp end),
   slots_of (rp_headers r) arr).

Section Top.
Variable E : env.
Hypothesis HE : env_ok E.

Lemma good_skipn buf k : bytes_ok buf -> bytes_ok (skipn k buf) /\ length (skipn k buf) < S (length buf).
Proof. intros H. split; [apply bytes_ok_skipn; exact H|rewrite skipn_length; lia]. Qed.

(* the header part shared by requests and responses *)
Lemma headers_part : forall hc buf k o arr,
  bytes_ok buf ->
  parse_headers_iter_uninit E (S (length buf)) hc arr (mkcur o [] (skipn k buf))
  = (let (st, hs) := ref_headers hc (length arr) o (skipn k buf) in
     (shift_status o st, length hs, slots_of hs arr)).
Proof.
  intros hc buf k o arr Hb. destruct (good_skipn buf k Hb) as [H1 H2].
  apply headers_iter_agree; assumption.
Qed.

Theorem parse_headers_ref : forall src dst, bytes_ok src ->
  parse_headers E src dst =
  (let (st, hs) := ref_headers hcfg_default (length dst) 0 src in
   (st, match st with Complete _ => written_of hs | _ => [] end, slots_of hs dst)).
Proof.
  intros src dst Hb. unfold parse_headers, cur_new.
  pose proof (headers_part hcfg_default src 0 0 dst Hb) as H. cbn [skipn] in H. rewrite H.
  destruct (ref_headers hcfg_default (length dst) 0 src) as [st hs].
  destruct st as [o| | |]; cbn [shift_status]; try reflexivity.
  rewrite Nat.sub_0_r, firstn_slots_of. reflexivity.
Qed.

Theorem request_core_ref : forall cf buf rq arr, bytes_ok buf ->
  request_core E cf buf rq arr = req_result rq arr (ref_request cf (length arr) buf).
Proof.
  intros cf buf rq arr Hb. unfold request_core, ref_request, ref_request_line, req_result.
  set (fuel := S (length buf)). set (ms := allow_multiple_spaces_in_request_line_delimiters cf).
  (* leading empty lines *)
  pose proof (skip_empty_lines_agree fuel buf [] 0 ltac:(unfold fuel; lia)) as H1.
  pose proof (ref_empty_lines_adv (length buf) buf 0 (le_n _)) as A1. cbn [length Nat.add] in H1.
  unfold bind at 1. unfold skip_empty_lines, cur_new.
  destruct (ref_empty_lines 0 buf) as [u1 o1 l1| |e1]; cbn [agree] in H1; rewrite H1; cbn [stage];
    [|destruct rq; reflexivity|destruct rq; reflexivity].
  destruct A1 as [k1 (Hk1 & -> & ->)]. destruct (good_skipn buf k1 Hb) as [Hb1 Hl1].
  (* method *)
  pose proof (parse_method_agree E HE fuel _ (k1 + 0) Hl1 Hb1) as H2.
  pose proof (ref_method_adv (k1 + 0) (skipn k1 buf)) as A2.
  destruct (ref_method (k1 + 0) (skipn k1 buf)) as [m o2 l2| |e2]; cbn [agree] in H2; rewrite H2; cbn [stage];
    [|destruct rq; reflexivity|destruct rq; reflexivity].
  destruct A2 as [k2 (_ & Hk2 & -> & ->)]. rewrite skipn_add. rewrite skipn_length in Hk2.
  destruct (good_skipn buf (k1 + k2) Hb) as [Hb2 Hl2].
  (* spaces, target *)
  assert (H3 : agree (((if ms then skip_spaces fuel else ret tt);;; parse_uri E fuel)
                        (mkcur (k2 + (k1 + 0)) [] (skipn (k1 + k2) buf)))
                     (rbind (ref_spaces ms (k2 + (k1 + 0)) (skipn (k1 + k2) buf)) (fun _ o l => ref_target o l))).
  { unfold bind. pose proof (ref_spaces_adv ms (k2 + (k1 + 0)) (skipn (k1 + k2) buf)) as A.
    destruct ms.
    - pose proof (skip_spaces_agree fuel _ [] (k2 + (k1 + 0)) Hl2) as Hs. cbn [length Nat.add] in Hs.
      unfold skip_spaces.
      destruct (ref_spaces true _ _) as [u o l| |e]; cbn [agree rbind] in *; rewrite Hs; [|reflexivity|reflexivity].
      destruct A as [k (Hk & -> & ->)]. rewrite skipn_add.
      destruct (good_skipn buf (k1 + k2 + k) Hb) as [Hb' Hl'].
      apply parse_uri_agree; assumption.
    - cbn [ref_spaces rbind]. unfold ret. apply parse_uri_agree; assumption. }
  assert (A3 : advances0 (k2 + (k1 + 0)) (skipn (k1 + k2) buf)
                 (rbind (ref_spaces ms (k2 + (k1 + 0)) (skipn (k1 + k2) buf)) (fun _ o l => ref_target o l))).
  { apply rbind_adv0; [apply ref_spaces_adv|]. intros a o r _. apply advances_weaken. apply ref_target_adv. }
  destruct (rbind (ref_spaces ms _ _) _) as [pth o3 l3| |e3]; cbn [agree] in H3; rewrite H3; cbn [stage];
    [|destruct rq; reflexivity|destruct rq; reflexivity].
  destruct A3 as [k3 (Hk3 & -> & ->)]. rewrite skipn_add.
  destruct (good_skipn buf (k1 + k2 + k3) Hb) as [Hb3 Hl3].
  (* spaces, version *)
  assert (H4 : agree_nc (((if ms then skip_spaces fuel else ret tt);;; parse_version)
                        (mkcur (k3 + (k2 + (k1 + 0))) [] (skipn (k1 + k2 + k3) buf)))
                     (rbind (ref_spaces ms (k3 + (k2 + (k1 + 0))) (skipn (k1 + k2 + k3) buf)) (fun _ o l => ref_version o l))).
  { unfold bind.
    destruct ms.
    - pose proof (skip_spaces_agree fuel _ [] (k3 + (k2 + (k1 + 0))) Hl3) as Hs. cbn [length Nat.add] in Hs.
      unfold skip_spaces.
      destruct (ref_spaces true _ _) as [u o l| |e]; cbn [agree agree_nc rbind] in *; rewrite Hs; [|reflexivity|reflexivity].
      apply (parse_version_agree (mkcur o [] l)).
    - cbn [ref_spaces rbind]. unfold ret. apply (parse_version_agree (mkcur _ [] _)). }
  assert (A4 : advances0 (k3 + (k2 + (k1 + 0))) (skipn (k1 + k2 + k3) buf)
                 (rbind (ref_spaces ms (k3 + (k2 + (k1 + 0))) (skipn (k1 + k2 + k3) buf)) (fun _ o l => ref_version o l))).
  { apply rbind_adv0; [apply ref_spaces_adv|]. intros a o r _. apply advances_weaken. apply ref_version_adv. }
  destruct (rbind (ref_spaces ms _ _) (fun _ o l => ref_version o l)) as [v o4 l4| |e4]; cbn [agree_nc] in H4;
    [|rewrite H4; cbn [stage]; destruct rq; reflexivity|rewrite H4; cbn [stage]; destruct rq; reflexivity].
  destruct H4 as [c4 (H4 & Hp4 & Hr4)]. rewrite H4. cbn [stage].
  destruct A4 as [k4 (Hk4 & -> & ->)]. rewrite skipn_add in Hr4.
  (* newline *)
  pose proof (newline_agree c4) as H5. rewrite Hp4, Hr4 in H5.
  pose proof (ref_eol_adv NewLine (k4 + (k3 + (k2 + (k1 + 0)))) (skipn (k1 + k2 + k3 + k4) buf)) as A5.
  rewrite skipn_add.
  destruct (ref_eol NewLine _ _) as [u5 o5 l5| |e5]; cbn [agree] in H5; rewrite H5; cbn [stage];
    [|destruct rq; reflexivity|destruct rq; reflexivity].
  destruct A5 as [k5 (_ & Hk5 & -> & ->)]. rewrite skipn_add.
  (* headers *)
  rewrite (headers_part (request_hcfg cf) buf _ _ arr Hb). cbn [apos tokrev pre length Nat.add].
  destruct (ref_headers (request_hcfg cf) (length arr) _ _) as [st hs] eqn:Eh.
  unfold ref_headers in Eh. apply ref_header_block_facts in Eh as [_ Hmono].
  destruct st as [o| |e|f]; cbn [shift_status rq_status rq_start rq_headers rs_method rs_path rs_version pick q_method q_path q_version q_hdrs];
    try (destruct rq; reflexivity).
  specialize (Hmono o eq_refl). rewrite firstn_slots_of.
  replace (k5 + (k4 + (k3 + (k2 + (k1 + 0)))) + (o - (k5 + (k4 + (k3 + (k2 + (k1 + 0))))))) with o by lia.
  destruct rq; reflexivity.
Qed.

(* after the code: SP reason | line end *)
Lemma after_code_agree : forall ms buf k c,
  bytes_ok buf -> rest c = skipn k buf ->
  agree (after_code ms (S (length buf)) c) (ref_after_code ms (apos c) (rest c)).
Proof.
  intros ms buf k [p t l] Hb Hr. cbn [rest apos tokrev pre] in *. subst l.
  set (fuel := S (length buf)).
  unfold after_code, ref_after_code. unfold apos. cbn [tokrev pre].
  destruct (skipn k buf) as [|b r] eqn:Es; [reflexivity|].
  assert (Hr' : r = skipn (S k) buf).
  { replace (S k) with (k + 1) by lia. rewrite <- skipn_add, Es. reflexivity. }
  unfold bind at 1. unfold next at 1. cbn [rest pre tokrev]. unfold SP, CR, LF.
  destruct (is 32 b) eqn:E32.
  - assert (E13 : is 13 b = false) by (apply is_eq in E32; subst; reflexivity).
    (* optional spaces, commit, reason *)
    pose proof (ref_spaces_adv ms (S (length t + p)) r) as A.
    destruct ms.
    + pose proof (skip_spaces_agree fuel r (b :: t) p) as Hs. cbn [length] in Hs.
      replace (S (length t) + p) with (S (length t + p)) in Hs by lia.
      destruct (good_skipn buf (S k) Hb) as [Hb1 Hl1]. rewrite <- Hr' in *.
      specialize (Hs Hl1). unfold bind at 1. unfold skip_spaces.
      destruct (ref_spaces true (S (length t + p)) r) as [u o l| |e]; cbn [agree rbind] in *; rewrite Hs;
        [|reflexivity|reflexivity].
      destruct A as [k' (Hk' & -> & ->)]. rewrite Hr', skipn_add.
      destruct (good_skipn buf (S k + k') Hb) as [Hb2 Hl2].
      unfold bind at 1. unfold slice at 1. cbn [pre tokrev rest commit length Nat.add].
      apply parse_reason_agree; assumption.
    + cbn [ref_spaces rbind]. unfold bind at 1. unfold ret at 1.
      unfold bind at 1. unfold slice at 1. cbn [pre tokrev rest commit length].
      destruct (good_skipn buf (S k) Hb) as [Hb1 Hl1]. rewrite <- Hr' in *.
      replace (S (length t) + p) with (S (length t + p)) by lia.
      apply parse_reason_agree; assumption.
  - destruct (is 13 b) eqn:E13.
    + cbn [orb]. unfold ref_eol. rewrite E13.
      destruct r as [|b2 r2]; [fin|].
      destruct (is 10 b2) eqn:E10; [|fin]. mrun. f_equal; f_equal; lia.
    + destruct (is 10 b) eqn:E10.
      * cbn [orb]. unfold ref_eol. rewrite E13, E10. mrun. f_equal; f_equal; lia.
      * fin.
Qed.

Theorem response_core_ref : forall cf buf rp arr, bytes_ok buf ->
  response_core E cf buf rp arr = resp_result rp arr (ref_response cf (length arr) buf).
Proof.
  intros cf buf rp arr Hb. unfold response_core, ref_response, ref_status_line, resp_result.
  set (fuel := S (length buf)). set (ms := allow_multiple_spaces_in_response_status_delimiters cf).
  (* leading empty lines, version *)
  assert (H1 : agree_nc ((skip_empty_lines fuel;;; parse_version) (cur_new buf))
                        (rbind (ref_empty_lines 0 buf) (fun _ o l => ref_version o l))).
  { unfold bind, cur_new, skip_empty_lines.
    pose proof (skip_empty_lines_agree fuel buf [] 0 ltac:(unfold fuel; lia)) as H. cbn [length Nat.add] in H.
    destruct (ref_empty_lines 0 buf) as [u o l| |e]; cbn [agree agree_nc rbind] in *; rewrite H; [|reflexivity|reflexivity].
    apply (parse_version_agree (mkcur o [] l)). }
  assert (A1 : advances0 0 buf (rbind (ref_empty_lines 0 buf) (fun _ o l => ref_version o l))).
  { apply rbind_adv0; [apply (ref_empty_lines_adv (length buf)); lia|].
    intros a o r _. apply advances_weaken. apply ref_version_adv. }
  destruct (rbind (ref_empty_lines 0 buf) _) as [v o1 l1| |e1]; cbn [agree_nc] in H1;
    [|rewrite H1; cbn [stage]; destruct rp; reflexivity|rewrite H1; cbn [stage]; destruct rp; reflexivity].
  destruct H1 as [c1 (H1 & Hp1 & Hr1)]. rewrite H1. cbn [stage].
  destruct A1 as [k1 (Hk1 & -> & ->)].
  (* SP, spaces, code *)
  assert (H2 : agree_nc ((space Version;;; (if ms then skip_spaces fuel else ret tt);;; parse_code) c1)
                 (rbind (rbind (ref_sp Version (k1 + 0) (skipn k1 buf)) (fun _ o l => ref_spaces ms o l))
                        (fun _ o l => ref_code o l))).
  { unfold bind at 1. pose proof (space_agree Version c1) as Hs. rewrite Hp1, Hr1 in Hs.
    pose proof (ref_sp_adv Version (k1 + 0) (skipn k1 buf)) as As.
    destruct (ref_sp Version (k1 + 0) (skipn k1 buf)) as [u o l| |e]; cbn [agree rbind] in *; rewrite Hs;
      [|reflexivity|reflexivity].
    destruct As as [k (_ & Hk & -> & ->)]. rewrite skipn_add.
    destruct (good_skipn buf (k1 + k) Hb) as [Hb' Hl'].
    unfold bind. destruct ms.
    - pose proof (skip_spaces_agree fuel _ [] (k + (k1 + 0)) Hl') as Hss. cbn [length Nat.add] in Hss.
      unfold skip_spaces.
      destruct (ref_spaces true _ _) as [u' o' l'| |e']; cbn [agree agree_nc rbind] in *; rewrite Hss; [|reflexivity|reflexivity].
      apply (parse_code_agree (mkcur o' [] l')).
    - cbn [ref_spaces rbind]. unfold ret. apply (parse_code_agree (mkcur _ [] _)). }
  assert (A2 : advances0 (k1 + 0) (skipn k1 buf)
                 (rbind (rbind (ref_sp Version (k1 + 0) (skipn k1 buf)) (fun _ o l => ref_spaces ms o l))
                        (fun _ o l => ref_code o l))).
  { apply rbind_adv0; [apply rbind_adv0; [apply advances_weaken; apply ref_sp_adv|intros; apply ref_spaces_adv]|].
    intros a o r _. apply advances_weaken. apply ref_code_adv. }
  destruct (rbind (rbind (ref_sp Version _ _) _) _) as [code o2 l2| |e2]; cbn [agree_nc] in H2;
    [|rewrite H2; cbn [stage]; destruct rp; reflexivity|rewrite H2; cbn [stage]; destruct rp; reflexivity].
  destruct H2 as [c2 (H2 & Hp2 & Hr2)]. rewrite H2. cbn [stage].
  destruct A2 as [k2 (Hk2 & -> & ->)]. rewrite skipn_add in Hr2.
  (* reason *)
  pose proof (after_code_agree ms buf (k1 + k2) c2 Hb Hr2) as H3. rewrite Hp2, Hr2 in H3.
  pose proof (ref_after_code_adv ms (k2 + (k1 + 0)) (skipn (k1 + k2) buf)) as A3.
  rewrite skipn_add.
  destruct (ref_after_code ms _ _) as [rs o3 l3| |e3]; cbn [agree] in H3; fold fuel in H3; rewrite H3; cbn [stage];
    [|destruct rp; reflexivity|destruct rp; reflexivity].
  destruct A3 as [k3 (Hk3 & -> & ->)]. rewrite skipn_add.
  (* headers *)
  rewrite (headers_part (response_hcfg cf) buf _ _ arr Hb). cbn [apos tokrev pre length Nat.add].
  destruct (ref_headers (response_hcfg cf) (length arr) _ _) as [st hs] eqn:Eh.
  unfold ref_headers in Eh. apply ref_header_block_facts in Eh as [_ Hmono].
  destruct st as [o| |e|f]; cbn [shift_status rp_status rp_start rp_headers rs_pversion rs_code rs_reason pick p_version p_code p_reason p_hdrs];
    try (destruct rp; reflexivity).
  specialize (Hmono o eq_refl). rewrite firstn_slots_of.
  replace (k3 + (k2 + (k1 + 0)) + (o - (k3 + (k2 + (k1 + 0))))) with o by lia.
  destruct rp; reflexivity.
Qed.
End Top.
